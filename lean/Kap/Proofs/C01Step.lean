/-
C01 — one step of the model refines one step of the history spec (stream and batch form).
-/
import Kap.Proofs.C01Ring
namespace Kap.C01

/-- Domain of configurations: the ring has at least two slots (guaranteed by `effHistory`, theorem
`history_at_least_two`), and the state-changes-only interval is a `time.Duration` (an int64). -/
structure Cfg.WF (c : Cfg) : Prop where
  two : 2 ≤ c.history
  dur : c.scoDur ≤ maxDuration

/-- The simulation relation between the code's per-ID state and what the property statement tracks. -/
structure Rel (c : Cfg) (s : St) (tr : Track) : Prop where
  ring : RingOK c s
  level : currentLevel s = tr.level
  first : s.firstTriggered = tr.leftOK
  last : s.lastTriggered = tr.lastAlert
  left : tr.level ≠ 0 → tr.leftOK.isSome = true

theorem rel_init (c : Cfg) (h : c.WF) : Rel c (newAlertState c) {} :=
  ⟨newAlertState_ringOK c h.two, newAlertState_current c, rfl, rfl, fun h => absurd rfl h⟩

/-- `expired` as computed by the code = "the interval has elapsed since the last alert" of the spec
(for an unchanged level). -/
theorem expired_eq (c : Cfg) (h : c.WF) (t : Int) (last : Option Int) :
    (c.scoDur != 0 && decide (subTime t last ≥ c.scoDur)) = intervalElapsed c t last := by
  unfold intervalElapsed subTime
  cases last with
  | none => have := h.dur; simp; intro _; omega
  | some u => rfl

/-- The bookkeeping after `addEvent` (+ `triggered` iff the ID alerts) is the spec's `advance`. -/
theorem advance_refines (c : Cfg) (flap : FlapFn) (s : St) (tr : Track) (t : Int) (l : Nat) (alert : Bool)
    (h : Rel c s tr) (hal : alert = true → l ≠ 0 ∨ tr.level ≠ 0) :
    let sA := addEvent c flap s t l
    let s' := if alert then triggered sA t else sA
    Rel c s' (advance c tr l t alert).1 ∧
    (if alert && !withheld c l then some ({ level := l, time := t, dur := duration s' } : Ev) else none)
      = (advance c tr l t alert).2 := by
  intro sA s'
  have F := addEvent_facts c flap s t l h.ring
  have hcur : currentLevel s = tr.level := h.level
  obtain ⟨Tr_hist, Tr_idx, Tr_flap, Tr_last, Tr_first⟩ := triggered_facts sA t
  have hprevA : prevLevel sA = tr.level := by rw [F.prev, hcur]
  -- the time the ID left OK, as the code has it after this step
  have hfirst : s'.firstTriggered = (if tr.level == 0 && l != 0 then some t else tr.leftOK) := by
    show (if alert then triggered sA t else sA).firstTriggered = _
    cases halert : alert with
    | false =>
      simp only [Bool.false_eq_true, if_false]
      rw [F.first, hcur, h.first]
      by_cases h0 : tr.level = 0 <;> by_cases hl : l = 0 <;> simp [h0, hl]
      · intro h; exact absurd h.symm hl
    | true =>
      simp only [if_true]
      rw [Tr_first, hprevA, F.first, hcur, h.first]
      have := hal halert
      by_cases h0 : tr.level = 0 <;> by_cases hl : l = 0 <;> simp_all
  have hlast : s'.lastTriggered = (if alert then some t else tr.lastAlert) := by
    show (if alert then triggered sA t else sA).lastTriggered = _
    cases alert with
    | false => simp only [Bool.false_eq_true, if_false]; rw [F.last, h.last]
    | true => simp only [if_true]; exact Tr_last
  have hring : RingOK c s' := by
    show RingOK c (if alert then triggered sA t else sA)
    cases alert with
    | false => exact F.ring
    | true =>
      simp only [if_true]
      exact ⟨by rw [Tr_hist]; exact F.ring.len, F.ring.two, by rw [Tr_hist, Tr_idx]; exact F.ring.idx⟩
  have hlevel : currentLevel s' = l := by
    show currentLevel (if alert then triggered sA t else sA) = l
    cases alert with
    | false => exact F.cur
    | true => simp only [if_true, currentLevel]; rw [Tr_hist, Tr_idx]; exact F.cur
  have hleft : l ≠ 0 → (if tr.level == 0 && l != 0 then some t else tr.leftOK).isSome = true := by
    intro hl
    by_cases h0 : tr.level = 0
    · simp [h0, hl]
    · simp [h0]; exact h.left h0
  refine ⟨⟨hring, by simp [advance, hlevel], by simp only [advance]; exact hfirst, by simp only [advance]; exact hlast,
           by simp only [advance]; exact hleft⟩, ?_⟩
  -- the event
  simp only [advance]
  cases hw : (alert && !withheld c l) with
  | false => simp
  | true =>
    simp only [if_true]
    have ha : alert = true := by cases alert <;> simp_all
    have hsome : (if tr.level == 0 && l != 0 then some t else tr.leftOK).isSome = true := by
      rcases hal ha with hl | h0
      · exact hleft hl
      · simp [h0]; exact h.left h0
    congr 2
    unfold duration
    rw [hlast, hfirst, ha]
    cases hq : (if tr.level == 0 && l != 0 then some t else tr.leftOK) with
    | none => rw [hq] at hsome; cases hsome
    | some f => simp

end Kap.C01

namespace Kap.C01

/-- The model's "this point alerts" decision (not suppressed, and not OK or changed), written on the facts of
`addEvent`, is the spec's `due ∧ ¬flapping`. -/
theorem point_alert_eq (c : Cfg) (hc : c.WF) (flap : FlapFn) (s : St) (tr : Track) (t : Int) (l : Nat) (h : Rel c s tr) :
    let sA := addEvent c flap s t l
    (!Gen.pointSuppress (guards c sA l) && Gen.pointSend (guards c sA l))
      = (due c tr.level l t tr.lastAlert && !(c.useFlap && sA.flapping)) := by
  intro sA
  have F := addEvent_facts c flap s t l h.ring
  have hch : sA.changed = (tr.level != l) := by rw [F.changed, h.level]
  have hex : sA.expired = (!(tr.level != l) && intervalElapsed c t tr.lastAlert) := by
    rw [F.expired, h.level, h.last, Bool.and_assoc, expired_eq c hc]
  simp only [Gen.pointSuppress, Gen.pointSend, guards, due, hch, hex]
  -- the three comparisons as booleans, with the only two facts that relate them
  have k1 : (l != 0) = false → (tr.level != l) = (tr.level != 0) := by
    intro h; have : l = 0 := by simpa using h
    subst this; rfl
  have k2 : (tr.level != 0) = false → (tr.level != l) = (l != 0) := by
    intro h; have : tr.level = 0 := by simpa using h
    rw [this]; simp [bne, BEq.comm]
  have k3 : (l != tr.level) = (tr.level != l) := by simp [bne, BEq.comm]
  rw [k3]
  generalize (l != 0) = A at *
  generalize (tr.level != 0) = B at *
  generalize (tr.level != l) = C at *
  cases c.useFlap <;> cases sA.flapping <;> cases c.sco <;> cases intervalElapsed c t tr.lastAlert <;>
    cases A <;> cases B <;> cases C <;> simp_all

theorem point_refines (c : Cfg) (hc : c.WF) (flap : FlapFn) (s : St) (tr : Track) (p : Pt) (h : Rel c s tr) :
    let r := pointStep c flap s p
    let fl := c.useFlap && r.1.flapping
    Rel c r.1 (specPoint c tr p fl).1 ∧ r.2 = (specPoint c tr p fl).2 := by
  intro r fl
  -- the level
  have hl : determineLevel c p (currentLevel s) = specLevel c p tr.level := by
    rw [determineLevel_eq_specLevel, h.level]
  generalize hlv : specLevel c p tr.level = l at hl
  let sA := addEvent c flap s p.t l
  obtain ⟨_, _, Tr_flap, _, _⟩ := triggered_facts sA p.t
  -- pointStep in the shape of `advance_refines`
  let alert := !Gen.pointSuppress (guards c sA l) && Gen.pointSend (guards c sA l)
  have halert : alert = (due c tr.level l p.t tr.lastAlert && !(c.useFlap && sA.flapping)) :=
    point_alert_eq c hc flap s tr p.t l h
  have hshape : r = (if alert then triggered sA p.t else sA,
      if alert && !withheld c l then some ({ level := l, time := p.t, dur := duration (if alert then triggered sA p.t else sA) } : Ev) else none) := by
    show pointStep c flap s p = _
    unfold pointStep
    simp only [hl]
    show (if Gen.pointSuppress (guards c sA l) = true then (sA, none) else
          if Gen.pointSend (guards c sA l) = true then
            (if Gen.pointWithhold (guards c (triggered sA p.t) l) = true then (triggered sA p.t, none)
             else (triggered sA p.t, some ({ level := l, time := p.t, dur := duration (triggered sA p.t) } : Ev)))
          else (sA, none)) = _
    have hw : Gen.pointWithhold (guards c (triggered sA p.t) l) = withheld c l := by
      simp [Gen.pointWithhold, guards, withheld]
    rw [hw]
    simp only [alert]
    by_cases hs : Gen.pointSuppress (guards c sA l) = true <;> by_cases hp : Gen.pointSend (guards c sA l) = true <;>
      by_cases hwh : withheld c l = true <;> simp [hs, hp, hwh]
  have hfl : fl = (c.useFlap && sA.flapping) := by
    show (c.useFlap && r.1.flapping) = _
    rw [hshape]
    cases halt : alert with
    | false => simp
    | true => simp [Tr_flap]
  have hal : alert = true → l ≠ 0 ∨ tr.level ≠ 0 := by
    intro ha
    have : (due c tr.level l p.t tr.lastAlert && !(c.useFlap && sA.flapping)) = true := by rw [← halert]; exact ha
    simp only [due, Bool.and_eq_true, Bool.or_eq_true, bne_iff_ne] at this
    exact this.1.1
  have key := advance_refines c flap s tr p.t l alert h hal
  rw [hshape]
  simp only [specPoint, hlv, hfl]
  rw [← halert]
  exact key

end Kap.C01
