/-
C01 — the whole ring: every slot holds the level that many steps back (all-slots ring theorem), and the comparisons of
`percentChange` (loop start offset 2) are the documented ones: the adjacent pairs of the last `history` levels, oldest
pair first. Hence the flapping flag of the code = the flag the documented rule gives on the plain level history.
-/
import Kap.Proofs.C01Run
namespace Kap.C01

/-- the slot `i` steps back from `idx` in a ring of `n` slots (no `%`: two cases) -/
def back (n idx i : Nat) : Nat := if i ≤ idx then idx - i else idx + n - i

/-- Every slot of the ring holds the level `i` steps back (`recent` newest first; before the first point: OK). -/
def RingRep (s : St) (recent : List Nat) : Prop :=
  ∀ i, i < s.history.length → s.history.getD (back s.history.length s.idx i) 0 = recent.getD i 0

theorem mod_two_n (a n : Nat) (h : a < 2 * n) : a % n = if a < n then a else a - n := by
  by_cases ha : a < n
  · simp [ha, Nat.mod_eq_of_lt ha]
  · simp only [ha, if_false]
    rw [Nat.mod_eq_sub_mod (by omega), Nat.mod_eq_of_lt (by omega)]

theorem newAlertState_rep (c : Cfg) : RingRep (newAlertState c) [] := by
  intro i _
  simp [newAlertState, List.getD_eq_getElem?_getD, List.getElem?_replicate]
  split <;> rfl

/-- what `addEvent` does to ring, idx and flag, literally -/
theorem addEvent_ring_eq (c : Cfg) (flap : FlapFn) (s : St) (t : Int) (l : Nat) :
    let s' := addEvent c flap s t l
    s'.idx = (s.idx + 1) % s.history.length ∧ s'.history = s.history.set ((s.idx + 1) % s.history.length) l ∧
    s'.flapping = (if c.useFlap then flap s.flapping (s.history.set ((s.idx + 1) % s.history.length) l) ((s.idx + 1) % s.history.length)
                   else s.flapping) := by
  unfold addEvent updateExpired updateFlapping
  cases c.useFlap <;> simp

/-- **All-slots ring theorem**: after `addEvent(t, l)` every slot holds the level that many steps back in the history
extended by `l` — for every ring size ≥ 1 and every position of `idx`, including the wrap. -/
theorem addEvent_rep (c : Cfg) (flap : FlapFn) (s : St) (t : Int) (l : Nat) (recent : List Nat)
    (hidx : s.idx < s.history.length) (h : RingRep s recent) :
    RingRep (addEvent c flap s t l) (l :: recent) := by
  obtain ⟨e1, e2, _⟩ := addEvent_ring_eq c flap s t l
  intro i hi
  rw [e1, e2] at *
  simp only [List.length_set] at hi ⊢
  have hn : 0 < s.history.length := by omega
  have hmod : (s.idx + 1) % s.history.length = if s.idx + 1 < s.history.length then s.idx + 1 else 0 := by
    by_cases hw : s.idx + 1 < s.history.length
    · simp [hw, Nat.mod_eq_of_lt hw]
    · have : s.idx + 1 = s.history.length := by omega
      simp [this]
  rw [hmod]
  cases i with
  | zero =>
    have : back s.history.length (if s.idx + 1 < s.history.length then s.idx + 1 else 0) 0
        = (if s.idx + 1 < s.history.length then s.idx + 1 else 0) := by simp [back]
    rw [this]
    simp only [List.getD_cons_zero]
    apply getD_set_eq
    split <;> omega
  | succ j =>
    have hb : back s.history.length (if s.idx + 1 < s.history.length then s.idx + 1 else 0) (j + 1)
        = back s.history.length s.idx j := by
      unfold back; split <;> split <;> split <;> omega
    have hne : (if s.idx + 1 < s.history.length then s.idx + 1 else 0) ≠ back s.history.length s.idx j := by
      unfold back; split <;> split <;> omega
    rw [hb, getD_set_ne _ _ _ _ hne]
    simpa using h j (by omega)

/-- **The comparisons of `percentChange` (start offset 2) are the documented ones**: the adjacent pairs of the last
`history` levels in chronological order, oldest pair first. -/
theorem ringDiffs_eq_docDiffs (s : St) (recent : List Nat) (hidx : s.idx < s.history.length) (h : RingRep s recent) :
    ringDiffs 2 s.history s.idx = docDiffs s.history.length recent := by
  unfold ringDiffs docDiffs
  apply List.map_congr_left
  intro i hi
  have hi' : i < s.history.length - 1 := by simpa using hi
  have hc : (i + s.idx + 2) % s.history.length = back s.history.length s.idx (s.history.length - 2 - i) := by
    rw [mod_two_n _ _ (by omega)]; unfold back; split <;> split <;> omega
  have hp : (if (i + s.idx + 2) % s.history.length = 0 then s.history.length - 1 else (i + s.idx + 2) % s.history.length - 1)
      = back s.history.length s.idx (s.history.length - 1 - i) := by
    rw [mod_two_n _ _ (by omega)]; unfold back; split <;> split <;> split <;> omega
  simp only [hp]
  simp only [hc]
  rw [h _ (by omega), h _ (by omega)]

end Kap.C01

namespace Kap.C01

/-- The ring part of the state against what flap detection knows on the plain history. -/
structure FRel (c : Cfg) (s : St) (ft : FlapTrack) : Prop where
  len : s.history.length = c.history
  idx : s.idx < s.history.length
  rep : RingRep s ft.recent
  flap : s.flapping = ft.flapping

theorem frel_init (c : Cfg) (h : 1 ≤ c.history) : FRel c (newAlertState c) {} :=
  ⟨by simp [newAlertState], by simp [newAlertState]; omega, newAlertState_rep c, rfl⟩

theorem frel_current (c : Cfg) (s : St) (ft : FlapTrack) (h : FRel c s ft) : currentLevel s = ft.recent.headD 0 := by
  have := h.rep 0 (by have := h.idx; omega)
  simp only [back, Nat.zero_le, if_true, Nat.sub_zero] at this
  rw [currentLevel, this]
  cases ft.recent <;> rfl

/-- same ring, idx and flag (only the two times may differ) -/
def SameRing (a b : St) : Prop := a.history = b.history ∧ a.idx = b.idx ∧ a.flapping = b.flapping

theorem frel_of_sameRing (c : Cfg) (a b : St) (ft : FlapTrack) (h : SameRing a b) (hb : FRel c b ft) : FRel c a ft := by
  obtain ⟨h1, h2, h3⟩ := h
  refine ⟨by rw [h1]; exact hb.len, by rw [h1, h2]; exact hb.idx, ?_, by rw [h3]; exact hb.flap⟩
  intro i hi; rw [h1, h2] at *; exact hb.rep i hi

/-- One `addEvent` with the code's flap detection (`ringFlap 2 dec`) = one `flapAdvance` of the documented rule. -/
theorem addEvent_frel (c : Cfg) (dec : FlapDecide) (s : St) (ft : FlapTrack) (t : Int) (l : Nat) (h : FRel c s ft) :
    FRel c (addEvent c (ringFlap 2 dec) s t l) (flapAdvance c dec ft l) := by
  obtain ⟨e1, e2, e3⟩ := addEvent_ring_eq c (ringFlap 2 dec) s t l
  have hrep := addEvent_rep c (ringFlap 2 dec) s t l ft.recent h.idx h.rep
  have hlen : (addEvent c (ringFlap 2 dec) s t l).history.length = c.history := by rw [e2]; simp [h.len]
  have hidx : (addEvent c (ringFlap 2 dec) s t l).idx < (addEvent c (ringFlap 2 dec) s t l).history.length := by
    rw [e1, e2]; simp only [List.length_set]; exact Nat.mod_lt _ (by have := h.idx; omega)
  refine ⟨hlen, hidx, hrep, ?_⟩
  have hd := ringDiffs_eq_docDiffs _ _ hidx hrep
  rw [e3]
  simp only [flapAdvance]
  cases c.useFlap with
  | false => simpa using h.flap
  | true =>
    simp only [if_true, ringFlap]
    rw [← e2, ← e1, hd, hlen, h.flap]

theorem pointStep_sameRing (c : Cfg) (flap : FlapFn) (s : St) (p : Pt) :
    SameRing (pointStep c flap s p).1 (addEvent c flap s p.t (determineLevel c p (currentLevel s))) := by
  unfold pointStep
  simp only []
  split
  · exact ⟨rfl, rfl, rfl⟩
  · split
    · obtain ⟨a, b, d, _, _⟩ := triggered_facts (addEvent c flap s p.t (determineLevel c p (currentLevel s))) p.t
      split <;> exact ⟨a, b, d⟩
    · exact ⟨rfl, rfl, rfl⟩

/-- level of a non-empty batch as the loop of `BufferedBatch` finds it = `batchLevel` of the spec -/
theorem batch_level_eq (c : Cfg) (cur : Nat) (p1 : Pt) (rest : List Pt) :
    (if Gen.batchUseHighest { all := c.all } = true then ((p1 :: rest).foldl (scanStep c cur) {}).highest
     else ((p1 :: rest).foldl (scanStep c cur) {}).lowest) = batchLevel c cur (p1 :: rest) := by
  obtain ⟨hlow, hhigh, _, _, _⟩ := scan_spec c cur p1 rest
  have hmap : (p1 :: rest).map (fun p => determineLevel c p cur) = (p1 :: rest).map (fun p => specLevel c p cur) :=
    List.map_congr_left (fun p _ => determineLevel_eq_specLevel c p cur)
  rw [hmap] at hlow hhigh
  simp only [Gen.batchUseHighest, batchLevel, ← hlow, ← hhigh]
  cases c.all <;> simp

/-- the tail of `BufferedBatch` after `addEvent` keeps ring, idx and flag -/
theorem batch_tail_sameRing (c : Cfg) (sA : St) (t : Int) (l : Nat) :
    SameRing (if Gen.batchSilent (guards c sA l) = true then (sA, (none : Option Ev))
      else if Gen.batchWithhold (guards c (triggered sA t) l) = true then (triggered sA t, none)
      else (triggered sA t, some { level := l, time := t, dur := duration (triggered sA t) })).1 sA := by
  obtain ⟨a, b, d, _, _⟩ := triggered_facts sA t
  split
  · exact ⟨rfl, rfl, rfl⟩
  · split <;> exact ⟨a, b, d⟩

theorem batchStep_sameRing (c : Cfg) (flap : FlapFn) (s : St) (tmax : Int) (p1 : Pt) (rest : List Pt) :
    ∃ t, SameRing (batchStep c flap s { tmax := tmax, pts := p1 :: rest }).1
      (addEvent c flap s t (batchLevel c (currentLevel s) (p1 :: rest))) := by
  unfold batchStep
  simp only [batch_level_eq]
  cases hsc : ((p1 :: rest).foldl (scanStep c (currentLevel s)) {}).highestPoint with
  | none => exact ⟨tmax, batch_tail_sameRing c _ _ _⟩
  | some hp => exact ⟨_, batch_tail_sameRing c _ _ _⟩

/-- **The flapping flags of a stream run are the documented ones**, computed on the plain level history. -/
theorem stream_flags_eq (c : Cfg) (dec : FlapDecide) :
    ∀ (ps : List Pt) (s : St) (ft : FlapTrack), FRel c s ft →
      streamFlags c (ringFlap 2 dec) s ps = specStreamFlags c dec ft ps := by
  intro ps
  induction ps with
  | nil => intro s ft _; rfl
  | cons p ps ih =>
    intro s ft h
    have hl : determineLevel c p (currentLevel s) = specLevel c p (ft.recent.headD 0) := by
      rw [determineLevel_eq_specLevel, frel_current c s ft h]
    have hstep : FRel c (pointStep c (ringFlap 2 dec) s p).1 (flapAdvance c dec ft (specLevel c p (ft.recent.headD 0))) := by
      apply frel_of_sameRing c _ _ _ (pointStep_sameRing c _ s p)
      rw [hl]; exact addEvent_frel c dec s ft p.t _ h
    simp only [streamFlags, specStreamFlags]
    rw [ih _ _ hstep, hstep.flap]

theorem batch_flags_eq (c : Cfg) (dec : FlapDecide) :
    ∀ (bs : List Batch) (s : St) (ft : FlapTrack), FRel c s ft →
      batchFlags c (ringFlap 2 dec) s bs = specBatchFlags c dec ft bs := by
  intro bs
  induction bs with
  | nil => intro s ft _; rfl
  | cons b bs ih =>
    intro s ft h
    obtain ⟨tmax, pts⟩ := b
    cases pts with
    | nil =>
      have : (batchStep c (ringFlap 2 dec) s { tmax := tmax, pts := [] }).1 = s := by
        simp [batchStep, show Gen.batchEmptyReturns = true from rfl]
      simp only [batchFlags, specBatchFlags, this, List.isEmpty_nil, if_true]
      rw [ih _ _ h, h.flap]
    | cons p1 rest =>
      obtain ⟨t, hsame⟩ := batchStep_sameRing c (ringFlap 2 dec) s tmax p1 rest
      have hstep : FRel c (batchStep c (ringFlap 2 dec) s { tmax := tmax, pts := p1 :: rest }).1
          (flapAdvance c dec ft (batchLevel c (ft.recent.headD 0) (p1 :: rest))) := by
        apply frel_of_sameRing c _ _ _ hsame
        rw [frel_current c s ft h]; exact addEvent_frel c dec s ft t _ h
      simp only [batchFlags, specBatchFlags, List.isEmpty_cons, Bool.false_eq_true, if_false]
      rw [ih _ _ hstep, hstep.flap]

/-- ring and flap flag after `restoreEventState`: one `addEvent` on a new state -/
theorem restore_frel (c : Cfg) (h1 : 1 ≤ c.history) (dec : FlapDecide) (t : Int) (level : Nat) (stored dur : Int) (hl : level ≠ 0) :
    FRel c (restoreEventState c (ringFlap 2 dec) t level stored dur) (flapAdvance c dec {} level) := by
  have hA := addEvent_frel c dec (newAlertState c) {} t level (frel_init c h1)
  apply frel_of_sameRing c _ _ _ _ hA
  unfold restoreEventState
  have : (level != 0) = true := by simpa using hl
  simp only [this, if_true]
  obtain ⟨a, b, d, _, _⟩ := triggered_facts (addEvent c (ringFlap 2 dec) (newAlertState c) t level) stored
  exact ⟨a, b, d⟩

end Kap.C01
