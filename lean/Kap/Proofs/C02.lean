/-
Helper lemmas for C02, part 1: the inner maps (association lists), closed forms of the loops of `newFork`, `delFork`
and `forkPoint`.
-/
import Kap.Spec.C02
namespace Kap.C02

/-! ### inner maps -/

theorem mem_insertTask {l : List (String × Edge)} {id : String} {e : Edge} {x : String × Edge} :
    x ∈ insertTask l id e ↔ (x ∈ l ∧ x.1 ≠ id) ∨ x = (id, e) := by
  simp [insertTask, List.mem_filter]

theorem mem_eraseTask {l : List (String × Edge)} {id : String} {x : String × Edge} :
    x ∈ eraseTask l id ↔ x ∈ l ∧ x.1 ≠ id := by
  simp [eraseTask, List.mem_filter]

theorem insertTask_idem (l : List (String × Edge)) (id : String) (e : Edge) :
    insertTask (insertTask l id e) id e = insertTask l id e := by
  simp [insertTask, List.filter_append, List.filter_filter]

theorem eraseTask_idem (l : List (String × Edge)) (id : String) :
    eraseTask (eraseTask l id) id = eraseTask l id := by
  simp [eraseTask, List.filter_filter]

theorem eraseTask_of_find_none {l : List (String × Edge)} {id : String}
    (h : l.find? (fun x => x.1 == id) = none) : eraseTask l id = l := by
  unfold eraseTask
  rw [List.filter_eq_self]
  intro x hx
  have := List.find?_eq_none.mp h x hx
  simpa using this

theorem keys_nodup_filter {l : List (String × Edge)} (p : String × Edge → Bool)
    (h : (l.map (·.1)).Nodup) : ((l.filter p).map (·.1)).Nodup :=
  List.Nodup.sublist (List.Sublist.map _ List.filter_sublist) h

theorem keys_nodup_insertTask {l : List (String × Edge)} (id : String) (e : Edge)
    (h : (l.map (·.1)).Nodup) : ((insertTask l id e).map (·.1)).Nodup := by
  unfold insertTask
  rw [List.map_append, List.nodup_append]
  refine ⟨keys_nodup_filter _ h, by simp, ?_⟩
  intro a ha b hb
  simp only [List.map_cons, List.map_nil, List.mem_singleton] at hb
  obtain ⟨x, hx, rfl⟩ := List.mem_map.mp ha
  have := (List.mem_filter.mp hx).2
  rw [hb]
  simpa using this

/-- In a map, an entry is determined by its key. -/
theorem entry_unique {l : List (String × Edge)} (h : (l.map (·.1)).Nodup) {id : String} {e₁ e₂ : Edge}
    (h₁ : (id, e₁) ∈ l) (h₂ : (id, e₂) ∈ l) : e₁ = e₂ := by
  induction l with
  | nil => cases h₁
  | cons x rest ih =>
    simp only [List.map_cons, List.nodup_cons] at h
    rcases List.mem_cons.mp h₁ with e1 | m1 <;> rcases List.mem_cons.mp h₂ with e2 | m2
    · rw [← e1] at e2; exact (Prod.mk.inj e2).2.symm
    · exfalso; apply h.1; rw [← e1]; exact List.mem_map.mpr ⟨_, m2, rfl⟩
    · exfalso; apply h.1; rw [← e2]; exact List.mem_map.mpr ⟨_, m1, rfl⟩
    · exact ih h.2 m1 m2

/-- `filterMap` over a map with a function that is `none` off the key `t`: nothing when `t` is absent … -/
theorem filterMap_absent {β} {l : List (String × Edge)} {t : String} (h : String × Edge → Option β)
    (hne : ∀ x ∈ l, x.1 ≠ t → h x = none) (habs : ∀ x ∈ l, x.1 ≠ t) : l.filterMap h = [] := by
  rw [List.filterMap_eq_nil_iff]
  intro x hx
  exact hne x hx (habs x hx)

/-- … and exactly the image of `t`'s entry when it is present. -/
theorem filterMap_present {β} {l : List (String × Edge)} {t : String} {e : Edge} (h : String × Edge → Option β)
    (hnd : (l.map (·.1)).Nodup) (hne : ∀ x ∈ l, x.1 ≠ t → h x = none) (hmem : (t, e) ∈ l) :
    l.filterMap h = (h (t, e)).toList := by
  induction l with
  | nil => cases hmem
  | cons x rest ih =>
    simp only [List.map_cons, List.nodup_cons] at hnd
    rcases List.mem_cons.mp hmem with e1 | m1
    · subst e1
      have : rest.filterMap h = [] := by
        apply filterMap_absent h (fun y hy => hne y (List.mem_cons_of_mem _ hy))
        intro y hy hyt
        apply hnd.1
        rw [← hyt]
        exact List.mem_map.mpr ⟨y, hy, rfl⟩
      rw [List.filterMap_cons]
      cases hh : h (t, e) <;> simp [this]
    · have hx : x.1 ≠ t := by
        intro hxt
        apply hnd.1
        rw [hxt]
        exact List.mem_map.mpr ⟨_, m1, rfl⟩
      rw [List.filterMap_cons, hne x (List.mem_cons_self ..) hx]
      exact ih hnd.2 (fun y hy => hne y (List.mem_cons_of_mem _ hy)) m1

/-! ### `forkKeys` -/

theorem mem_forkKeys {dbrps : List (String × String)} {ms : List String} {db rp m : String} :
    (db, rp, m) ∈ forkKeys dbrps ms ↔ (db, rp) ∈ dbrps ∧ m ∈ ms := by
  unfold forkKeys
  simp only [List.mem_flatMap, List.mem_map]
  constructor
  · rintro ⟨d, hd, m', hm', heq⟩
    simp only [Prod.mk.injEq] at heq
    obtain ⟨h1, h2, h3⟩ := heq
    subst h3
    refine ⟨?_, hm'⟩
    have : d = (db, rp) := by rw [← h1, ← h2]
    rw [← this]; exact hd
  · rintro ⟨hd, hm⟩
    exact ⟨(db, rp), hd, m, hm, rfl⟩

/-! ### closed forms of the loops -/

theorem registerKeys_forks (id : String) (e : Edge) (keys : List Key)
    (st : (Key → List (String × Edge)) × (String → List Key)) (k : Key) :
    (registerKeys id e keys st).1 k = if k ∈ keys then insertTask (st.1 k) id e else st.1 k := by
  unfold registerKeys
  induction keys generalizing st with
  | nil => simp
  | cons key rest ih =>
    rw [List.foldl_cons, ih]
    by_cases hk : k = key
    · subst hk
      by_cases hr : k ∈ rest
      · simp [hr, upd, insertTask_idem]
      · simp [hr, upd]
    · by_cases hr : k ∈ rest
      · simp [hr, hk, upd]
      · simp [hr, hk, upd]

theorem registerKeys_keysOf (id : String) (e : Edge) (keys : List Key)
    (st : (Key → List (String × Edge)) × (String → List Key)) (id' : String) :
    (registerKeys id e keys st).2 id' = if id' = id then st.2 id ++ keys else st.2 id' := by
  unfold registerKeys
  induction keys generalizing st with
  | nil => by_cases h : id' = id <;> simp [h]
  | cons key rest ih =>
    rw [List.foldl_cons, ih]
    by_cases h : id' = id
    · simp [h, upd]
    · simp [h, upd]

theorem delForkLoop_forks (id : String) (keys : List Key)
    (st : (Key → List (String × Edge)) × List Edge × Bool) (k : Key) :
    (delForkLoop id keys st).1 k = if k ∈ keys then eraseTask (st.1 k) id else st.1 k := by
  unfold delForkLoop
  induction keys generalizing st with
  | nil => simp
  | cons key rest ih =>
    rw [List.foldl_cons, ih]
    cases hf : (st.1 key).find? (fun x => x.1 == id) with
    | none =>
      simp only []
      by_cases hk : k = key
      · subst hk
        by_cases hr : k ∈ rest
        · simp [hr]
        · simp [hr, eraseTask_of_find_none hf]
      · by_cases hr : k ∈ rest <;> simp [hr, hk]
    | some x =>
      simp only []
      by_cases hk : k = key
      · subst hk
        by_cases hr : k ∈ rest
        · simp [hr, upd, eraseTask_idem]
        · simp [hr, upd]
      · by_cases hr : k ∈ rest <;> simp [hr, hk, upd]

/-- Every edge `delFork` closes was registered for that id. -/
theorem delForkLoop_closed (id : String) (keys : List Key)
    (st : (Key → List (String × Edge)) × List Edge × Bool) (e : Edge)
    (h : e ∈ (delForkLoop id keys st).2.1) : e ∈ st.2.1 ∨ ∃ k, (id, e) ∈ st.1 k := by
  unfold delForkLoop at h
  induction keys generalizing st with
  | nil => left; simpa using h
  | cons key rest ih =>
    rw [List.foldl_cons] at h
    cases hf : (st.1 key).find? (fun x => x.1 == id) with
    | none =>
      rw [hf] at h
      exact ih _ h
    | some x =>
      rw [hf] at h
      have hx := List.find?_some hf
      have hxm := List.mem_of_find?_eq_some hf
      simp only [beq_iff_eq] at hx
      rcases ih _ h with h1 | ⟨k, hk⟩
      · simp only [] at h1
        by_cases hc : st.2.2 = true
        · simp [hc] at h1; left; exact h1
        · simp [hc] at h1
          rcases h1 with h1 | h1
          · left; exact h1
          · right; refine ⟨key, ?_⟩
            rw [h1, ← hx]; exact hxm
      · right
        simp only [upd] at hk
        by_cases hkk : k = key
        · subst hkk
          simp at hk
          exact ⟨k, (mem_eraseTask.mp hk).1⟩
        · simp [hkk] at hk
          exact ⟨k, hk⟩

end Kap.C02
