/-
Helper lemmas for C02, part 6: with bounded edges the forking goroutine never blocks (every registered edge has a reader), so the
bounded model coincides with the unbounded one on every history.
-/
import Kap.Proofs.C02Closed
import Kap.Model.C02Bounded
namespace Kap.C02

theorem collect_tasks (s : TM) (e : Edge) (p : Point) : (collect s e p).tasks = s.tasks := rfl

theorem collectB_reader {cap : Nat} {s : TM} {e : Edge} (p : Point) (h : s.tasks e.task.id = some e) :
    collectB cap ⟨s, false⟩ e p = ⟨collect s e p, false⟩ := by
  simp [collectB, hasReader, h]

theorem foldl_collectB (cap : Nat) (p : Point) (l : List (String × Edge)) :
    ∀ s : TM, (∀ x ∈ l, s.tasks x.2.task.id = some x.2) →
      l.foldl (fun b x => collectB cap b x.2 p) ⟨s, false⟩ = ⟨l.foldl (fun s x => collect s x.2 p) s, false⟩ := by
  induction l with
  | nil => intro s _; rfl
  | cons x rest ih =>
    intro s h
    rw [List.foldl_cons, List.foldl_cons, collectB_reader p (h x (List.mem_cons_self ..))]
    exact ih _ (fun y hy => by rw [collect_tasks]; exact h y (List.mem_cons_of_mem _ hy))

theorem foldl_collectB_guard (cap : Nat) (p : Point) (c : String × Edge → Bool) (l : List (String × Edge)) :
    ∀ s : TM, (∀ x ∈ l, s.tasks x.2.task.id = some x.2) →
      l.foldl (fun b x => if c x then b else collectB cap b x.2 p) ⟨s, false⟩ =
        ⟨l.foldl (fun s x => if c x then s else collect s x.2 p) s, false⟩ := by
  induction l with
  | nil => intro s _; rfl
  | cons x rest ih =>
    intro s h
    rw [List.foldl_cons, List.foldl_cons]
    by_cases hc : c x = true
    · simp only [hc, if_true]
      exact ih _ (fun y hy => h y (List.mem_cons_of_mem _ hy))
    · simp only [hc, Bool.false_eq_true, if_false]
      rw [collectB_reader p (h x (List.mem_cons_self ..))]
      exact ih _ (fun y hy => by rw [collect_tasks]; exact h y (List.mem_cons_of_mem _ hy))

/-- Under the table invariant every registered edge is read by the executing task of its id. -/
theorem Inv.reader {s : TM} (hi : Inv s) (k : Key) : ∀ x ∈ s.forks k, s.tasks x.2.task.id = some x.2 := by
  intro x hx
  have h1 := (hi.entry k x.1 x.2 hx).1
  rw [hi.owner x.1 x.2 h1]; exact h1

theorem foldl_collect_tasks (p : Point) (l : List (String × Edge)) (s : TM) :
    (l.foldl (fun s x => collect s x.2 p) s).tasks = s.tasks := by
  rw [foldl_collect]; rfl

theorem forkPointB_eq {cap : Nat} {s : TM} (hi : Inv s) (p : Point) :
    forkPointB cap ⟨s, false⟩ p = ⟨forkPoint s p, false⟩ := by
  unfold forkPointB forkPoint
  simp only []
  rw [foldl_collectB cap p _ s (hi.reader _)]
  exact foldl_collectB_guard cap p _ _ _ (fun x hx => by rw [foldl_collect_tasks]; exact hi.reader _ x hx)

theorem forkBatchB {cap : Nat} {db rp : String} (pts : List RawPoint) :
    ∀ s : TM, Inv s →
      pts.foldl (fun b r => forkPointB cap b (mkPoint db rp r)) ⟨s, false⟩ =
        ⟨pts.foldl (fun s r => forkPoint s (mkPoint db rp r)) s, false⟩ := by
  induction pts with
  | nil => intro s _; rfl
  | cons r rest ih =>
    intro s hi
    rw [List.foldl_cons, List.foldl_cons, forkPointB_eq hi]
    exact ih _ (hi.forkPoint _)

theorem stepB_eq {cap : Nat} {s : TM} (hi : Inv s) (op : Op) : stepB cap ⟨s, false⟩ op = ⟨step s op, false⟩ := by
  cases op with
  | start d => simp [stepB, stepBWith, step, stepWith]
  | startfail d => simp [stepB, stepBWith, step, stepWith]
  | stop id => simp [stepB, stepBWith, step, stepWith]
  | delete id => simp [stepB, stepBWith, step, stepWith]
  | drain => simp [stepB, stepBWith, step, stepWith]
  | write db rp pts =>
    simp only [stepB, stepBWith, step, stepWith, writePointsWith, Bool.false_eq_true, if_false]
    exact forkBatchB pts s hi

theorem foldB_eq (cap : Nat) (ops : List Op) :
    ∀ s : TM, Inv s → ops.foldl (stepB cap) ⟨s, false⟩ = ⟨ops.foldl step s, false⟩ := by
  induction ops with
  | nil => intro s _; rfl
  | cons op rest ih =>
    intro s hi
    rw [List.foldl_cons, List.foldl_cons, stepB_eq hi]
    exact ih _ (hi.step op)

end Kap.C02
