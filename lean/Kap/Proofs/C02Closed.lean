/-
Helper lemmas for C02, part 5: `forkPoint` never collects on a closed edge (in Go: `send on closed channel`, a panic of the
forking goroutine that would take the whole process down).
-/
import Kap.Proofs.C02Sim
namespace Kap.C02

structure InvC (s : TM) : Prop where
  /-- every registered edge is open -/
  openE : ∀ k id e, (id, e) ∈ s.forks k → e ∉ s.closed
  /-- edge numbers are below the counter -/
  bound : ∀ k id e, (id, e) ∈ s.forks k → e.eid < s.nextEdge
  fresh : ∀ e ∈ s.closed, e.eid < s.nextEdge
  good : s.sentOnClosed = false

theorem InvC.init (rp : String) : InvC (init rp) := by
  constructor <;> simp [Kap.C02.init]

theorem events_registered (s : TM) (p : Point) : ∀ ep ∈ events s p, ∃ k id, (id, ep.1) ∈ s.forks k := by
  intro ep hep
  unfold events at hep
  simp only [List.mem_append, List.mem_map] at hep
  rcases hep with ⟨x, hx, rfl⟩ | ⟨x, hx, rfl⟩
  · exact ⟨_, x.1, hx⟩
  · exact ⟨_, x.1, (List.mem_filter.mp hx).1⟩

theorem InvC.forkPoint {s : TM} (h : InvC s) (p : Point) : InvC (forkPoint s p) := by
  rw [forkPoint_eq]
  constructor
  · exact h.openE
  · exact h.bound
  · exact h.fresh
  · show (s.sentOnClosed || (events s p).any (fun ep => s.closed.contains ep.1)) = false
    rw [h.good, Bool.false_or, List.any_eq_false]
    intro ep hep
    obtain ⟨k, id, hm⟩ := events_registered s p ep hep
    simpa using h.openE k id ep.1 hm

theorem startTask_closed (s : TM) (d : TaskDef) : (startTask s d).closed = s.closed := by
  unfold startTask
  by_cases h : d.dbrps.isEmpty = true <;> by_cases h2 : s.isLive d.id = true <;> simp [h, h2, newFork]

theorem startTask_sent (s : TM) (d : TaskDef) : (startTask s d).sentOnClosed = s.sentOnClosed := by
  unfold startTask
  by_cases h : d.dbrps.isEmpty = true <;> by_cases h2 : s.isLive d.id = true <;> simp [h, h2, newFork]

theorem startTask_nextEdge {s : TM} {d : TaskDef} (h : d.dbrps ≠ []) (hn : s.isLive d.id = false) :
    (startTask s d).nextEdge = s.nextEdge + 1 := by
  have : d.dbrps.isEmpty = false := by simpa using h
  simp [startTask, this, hn, newFork]

theorem InvC.startTask {s : TM} (h : InvC s) (d : TaskDef) : InvC (Kap.C02.startTask s d) := by
  by_cases hd : d.dbrps = []
  · rw [startTask_nodbrp hd]; exact h
  cases hx : s.isLive d.id with
  | true => rw [startTask_executing hx]; exact h
  | false =>
  have hn := hx
  constructor
  · intro k id e hm
    rw [startTask_closed]
    rcases (mem_startTask_forks hd hn).mp hm with ⟨hm', _⟩ | ⟨_, heq⟩
    · exact h.openE k id e hm'
    · obtain ⟨_, rfl⟩ := Prod.mk.inj heq
      intro hc
      have := h.fresh _ hc
      simp at this
  · intro k id e hm
    rw [startTask_nextEdge hd hn]
    rcases (mem_startTask_forks hd hn).mp hm with ⟨hm', _⟩ | ⟨_, heq⟩
    · exact Nat.lt_succ_of_lt (h.bound k id e hm')
    · obtain ⟨_, rfl⟩ := Prod.mk.inj heq
      simp
  · intro e he
    rw [startTask_closed] at he
    rw [startTask_nextEdge hd hn]
    exact Nat.lt_succ_of_lt (h.fresh e he)
  · rw [startTask_sent]; exact h.good

theorem stopTask_nextEdge (s : TM) (id : String) : (stopTask s id).nextEdge = s.nextEdge := by
  unfold stopTask
  cases h : s.tasks id <;> simp [delFork]

theorem stopTask_sent (s : TM) (id : String) : (stopTask s id).sentOnClosed = s.sentOnClosed := by
  unfold stopTask
  cases h : s.tasks id <;> simp [delFork]

theorem stopTask_closed_mem {s : TM} {id : String} {e : Edge} (he : e ∈ (stopTask s id).closed) :
    e ∈ s.closed ∨ ∃ k, (id, e) ∈ s.forks k := by
  unfold stopTask at he
  cases h : s.tasks id with
  | none => rw [h] at he; left; exact he
  | some e0 =>
    rw [h] at he
    simp only [delFork] at he
    exact delForkLoop_closed id _ _ e he

theorem InvC.stopTask {s : TM} (hi : Inv s) (h : InvC s) (id : String) : InvC (stopTask s id) := by
  cases ht : s.tasks id with
  | none => rw [stopTask_idle ht]; exact h
  | some e0 =>
    constructor
    · intro k id1 e hm hc
      obtain ⟨hm', hne⟩ := (mem_stopTask_forks hi ht).mp hm
      rcases stopTask_closed_mem hc with hc | ⟨k', hk'⟩
      · exact h.openE k id1 e hm' hc
      · -- `e` would be the input edge of two different executing tasks
        have h1 := hi.owner id1 e (hi.entry k id1 e hm').1
        have h2 := hi.owner id e (hi.entry k' id e hk').1
        exact hne (h1.symm.trans h2)
    · intro k id1 e hm
      rw [stopTask_nextEdge]
      exact h.bound k id1 e ((mem_stopTask_forks hi ht).mp hm).1
    · intro e he
      rw [stopTask_nextEdge]
      rcases stopTask_closed_mem he with hc | ⟨k', hk'⟩
      · exact h.fresh e hc
      · exact h.bound k' id e hk'
    · rw [stopTask_sent]; exact h.good

theorem delFork_closed_mem {s : TM} {id : String} {e : Edge} (he : e ∈ (delFork s id).closed) :
    e ∈ s.closed ∨ ∃ k, (id, e) ∈ s.forks k := by
  simp only [delFork] at he
  exact delForkLoop_closed id _ _ e he

theorem InvC.delFork {s : TM} (hi : Inv s) (h : InvC s) (id : String) : InvC (Kap.C02.delFork s id) := by
  constructor
  · intro k id1 e hm hc
    obtain ⟨hm', hne⟩ := (mem_delFork_forks hi id).mp hm
    rcases delFork_closed_mem hc with hc | ⟨k', hk'⟩
    · exact h.openE k id1 e hm' hc
    · have h1 := hi.owner id1 e (hi.entry k id1 e hm').1
      have h2 := hi.owner id e (hi.entry k' id e hk').1
      exact hne (h1.symm.trans h2)
  · intro k id1 e hm
    rw [delFork_nextEdge]
    exact h.bound k id1 e ((mem_delFork_forks hi id).mp hm).1
  · intro e he
    rw [delFork_nextEdge]
    rcases delFork_closed_mem he with hc | ⟨k', hk'⟩
    · exact h.fresh e hc
    · exact h.bound k' id e hk'
  · rw [delFork_sent]; exact h.good

theorem InvC.startTaskFail {s : TM} (hi : Inv s) (h : InvC s) (d : TaskDef) : InvC (Kap.C02.startTaskFail s d) := by
  by_cases hd : d.dbrps = []
  · have : Kap.C02.startTaskFail s d = s := by simp [Kap.C02.startTaskFail, hd]
    rw [this]; exact h
  cases hl : s.isLive d.id with
  | true => rw [startTaskFail_executing hl]; exact h
  | false =>
    rw [startTaskFail_eq hd hl]
    have h1 := (h.startTask d).delFork (hi.startTask hl) d.id
    exact ⟨h1.openE, h1.bound, h1.fresh, h1.good⟩

theorem foldl_delFork_invC (l : List String) : ∀ s : TM, Inv s → InvC s → InvC (l.foldl Kap.C02.delFork s) := by
  induction l with
  | nil => intro s _ hc; exact hc
  | cons id rest ih => intro s hi hc; exact ih _ (hi.delFork id) (hc.delFork hi id)

theorem forkBatch_invC {db rp : String} (pts : List RawPoint) :
    ∀ s : TM, InvC s → InvC (pts.foldl (fun s r => forkPoint s (mkPoint db rp r)) s) := by
  induction pts with
  | nil => intro s h; exact h
  | cons r rest ih => intro s h; exact ih _ (h.forkPoint _)

/-- Reached states keep every registered edge open and have never collected on a closed edge. -/
theorem invC_fold (ops : List Op) : ∀ (s : TM), Inv s → InvC s → InvC (ops.foldl step s) := by
  induction ops with
  | nil => intro s _ hc; exact hc
  | cons op rest ih =>
    intro s hi hc
    rw [List.foldl_cons]
    refine ih _ (hi.step op) ?_
    cases op with
    | start d => exact hc.startTask d
    | startfail d => exact hc.startTaskFail hi d
    | stop id => exact hc.stopTask hi id
    | delete id => exact hc.stopTask hi id
    | drain => exact foldl_delFork_invC _ s hi hc
    | write db rp pts => exact forkBatch_invC pts s hc

theorem run_invC (drp : String) (ops : List Op) : InvC (run drp ops) :=
  invC_fold ops (init drp) (Inv.init drp) (InvC.init drp)

end Kap.C02
