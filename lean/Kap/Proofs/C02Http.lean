/-
Helper lemmas for C02, part 7: the `/write` handler model `serveWrite`.
-/
import Kap.Spec.C02
namespace Kap.C02

/-- The point a well-formed line stands for: the time stamp scaled by the precision. -/
def lineAsWritten (precision : String) : Line → Option RawPoint
  | .point r ts => some { r with pl := { r.pl with time := ts * precisionMult precision } }
  | _ => none

theorem safeCalcTime_some {ts : Int} {p : String} {t : Int} (h : safeCalcTime ts p = some t) : t = ts * precisionMult p := by
  unfold safeCalcTime at h
  simp only [] at h
  split at h
  · cases h
  · exact (Option.some.inj h).symm

/-- When no line fails, what is written is every point line, in body order, stamped `ts × precision`. -/
theorem parsed_all_good (p : String) : ∀ lines : List Line,
    (lines.filterMap (parseLine p)).any (·.isNone) = false →
      (lines.filterMap (parseLine p)).filterMap id = lines.filterMap (lineAsWritten p) := by
  intro lines
  induction lines with
  | nil => intro _; rfl
  | cons l rest ih =>
    intro h
    cases l with
    | skip =>
      simp only [List.filterMap_cons, parseLine, lineAsWritten] at h ⊢
      exact ih h
    | bad =>
      simp [parseLine] at h
    | point r ts =>
      simp only [List.filterMap_cons, parseLine, lineAsWritten] at h ⊢
      cases hs : safeCalcTime ts p with
      | none => simp [hs] at h
      | some t =>
        simp only [hs, Option.map_some, List.any_cons, Option.isNone_some, Bool.false_or] at h
        simp only [Option.map_some, id, safeCalcTime_some hs, ih h]

/-- `serveWriteLine` once the body has been read. -/
def serveCore (db rp precision : String) (lines : List Line) (closed : Bool) : Nat × Option Op :=
  if (lines.filterMap (parseLine (if precision == "" then "n" else precision))).any (·.isNone) then (400, none)
  else if db == "" then (400, none)
  else if closed then (500, none)
  else (204, some (.write db rp ((lines.filterMap (parseLine (if precision == "" then "n" else precision))).filterMap id)))

theorem serveWrite_readable {enc : BodyEnc} (h : enc = .plain ∨ enc = .gzip) (db rp precision : String) (lines : List Line)
    (closed : Bool) : serveWrite enc db rp precision lines closed = serveCore db rp precision lines closed := by
  rcases h with rfl | rfl <;> rfl

theorem serveWrite_unreadable {enc : BodyEnc} (h : enc = .gzipBadHeader ∨ enc = .gzipTruncated) (db rp precision : String)
    (lines : List Line) (closed : Bool) : serveWrite enc db rp precision lines closed = (400, none) := by
  rcases h with rfl | rfl <;> rfl

theorem serveCore_all_or_nothing (db rp precision : String) (lines : List Line) (closed : Bool) :
    ((serveCore db rp precision lines closed).1 = 204 ∧
      (serveCore db rp precision lines closed).2 =
        some (.write db rp (lines.filterMap (lineAsWritten (if precision == "" then "n" else precision))))) ∨
    (((serveCore db rp precision lines closed).1 = 400 ∨ (serveCore db rp precision lines closed).1 = 500) ∧
      (serveCore db rp precision lines closed).2 = none) := by
  unfold serveCore
  by_cases h1 : ((lines.filterMap (parseLine (if precision == "" then "n" else precision))).any (·.isNone)) = true
  · rw [if_pos h1]; right; exact ⟨Or.inl rfl, rfl⟩
  · rw [if_neg h1]
    by_cases h2 : (db == "") = true
    · rw [if_pos h2]; right; exact ⟨Or.inl rfl, rfl⟩
    · rw [if_neg h2]
      by_cases h3 : closed = true
      · rw [if_pos h3]; right; exact ⟨Or.inr rfl, rfl⟩
      · rw [if_neg h3]; left
        refine ⟨rfl, ?_⟩
        rw [parsed_all_good _ _ (by simpa using h1)]

theorem serveCore_accepted_iff (db rp precision : String) (lines : List Line) (closed : Bool) :
    (serveCore db rp precision lines closed).1 = 204 ↔
      (db ≠ "" ∧ closed = false ∧ ∀ l ∈ lines, parseLine (if precision == "" then "n" else precision) l ≠ some none) := by
  unfold serveCore
  by_cases h1 : ((lines.filterMap (parseLine (if precision == "" then "n" else precision))).any (·.isNone)) = true
  · rw [if_pos h1]
    constructor
    · intro h; cases h
    · rintro ⟨_, _, hall⟩
      exfalso
      obtain ⟨x, hx, hn⟩ := List.any_eq_true.mp h1
      obtain ⟨l, hl, hpl⟩ := List.mem_filterMap.mp hx
      cases x with
      | some _ => simp at hn
      | none => exact hall l hl hpl
  · rw [if_neg h1]
    have hall : ∀ l ∈ lines, parseLine (if precision == "" then "n" else precision) l ≠ some none := by
      intro l hl hpl
      apply h1
      exact List.any_eq_true.mpr ⟨none, List.mem_filterMap.mpr ⟨l, hl, hpl⟩, rfl⟩
    by_cases h2 : (db == "") = true
    · rw [if_pos h2]
      constructor
      · intro h; cases h
      · rintro ⟨hdb, _⟩; exact absurd (by simpa using h2) hdb
    · rw [if_neg h2]
      by_cases h3 : closed = true
      · rw [if_pos h3]
        constructor
        · intro h; cases h
        · rintro ⟨_, hc, _⟩; rw [h3] at hc; cases hc
      · rw [if_neg h3]
        simp only [true_iff]
        exact ⟨by simpa using h2, by simpa using h3, hall⟩

end Kap.C02
