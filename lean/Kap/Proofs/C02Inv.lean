/-
Helper lemmas for C02, part 2: closed form of `forkPoint`, the table invariant and its preservation by every operation.
-/
import Kap.Proofs.C02
namespace Kap.C02

/-! ### `forkPoint` = append the events -/

/-- The Collect events one `forkPoint` performs. -/
def events (s : TM) (p : Point) : List (Edge × Point) :=
  let exact := s.forks (p.db, p.rp, p.name)
  let wild := s.forks (p.db, p.rp, "")
  exact.map (fun x => (x.2, p)) ++
    (wild.filter (fun x => !exact.any (fun y => y.1 == x.1))).map (fun x => (x.2, p))

/-- `s` with more Collect events. -/
def TM.withEvents (s : TM) (evs : List (Edge × Point)) : TM :=
  { s with log := s.log ++ evs,
           sentOnClosed := s.sentOnClosed || evs.any (fun ep => s.closed.contains ep.1) }

theorem withEvents_nil (s : TM) : s.withEvents [] = s := by
  cases s; simp [TM.withEvents]

theorem withEvents_withEvents (s : TM) (a b : List (Edge × Point)) :
    (s.withEvents a).withEvents b = s.withEvents (a ++ b) := by
  cases s; simp [TM.withEvents, List.append_assoc, Bool.or_assoc]

theorem collect_eq (s : TM) (e : Edge) (p : Point) : collect s e p = s.withEvents [(e, p)] := by
  cases s; simp [collect, TM.withEvents]

theorem foldl_collect (l : List (String × Edge)) (p : Point) (s : TM) :
    l.foldl (fun s x => collect s x.2 p) s = s.withEvents (l.map (fun x => (x.2, p))) := by
  induction l generalizing s with
  | nil => simp [withEvents_nil]
  | cons x rest ih =>
    rw [List.foldl_cons, ih, collect_eq, withEvents_withEvents]
    simp

theorem foldl_collect_guard (c : String × Edge → Bool) (l : List (String × Edge)) (p : Point) (s : TM) :
    l.foldl (fun s x => if c x then s else collect s x.2 p) s =
      s.withEvents ((l.filter (fun x => !c x)).map (fun x => (x.2, p))) := by
  induction l generalizing s with
  | nil => simp [withEvents_nil]
  | cons x rest ih =>
    rw [List.foldl_cons, ih]
    by_cases hc : c x = true
    · simp [hc]
    · have hc' : c x = false := by simpa using hc
      simp only [hc', Bool.false_eq_true, if_false]
      rw [collect_eq, withEvents_withEvents]
      simp [hc']

theorem forkPoint_eq (s : TM) (p : Point) : forkPoint s p = s.withEvents (events s p) := by
  unfold forkPoint events
  simp only []
  rw [foldl_collect_guard (fun x => (s.forks (p.db, p.rp, p.name)).any (fun y => y.1 == x.1)), foldl_collect,
    withEvents_withEvents]

@[simp] theorem withEvents_forks (s : TM) (evs) : (s.withEvents evs).forks = s.forks := rfl
@[simp] theorem withEvents_tasks (s : TM) (evs) : (s.withEvents evs).tasks = s.tasks := rfl
@[simp] theorem withEvents_keysOf (s : TM) (evs) : (s.withEvents evs).forkKeysOf = s.forkKeysOf := rfl
@[simp] theorem withEvents_defaultRP (s : TM) (evs) : (s.withEvents evs).defaultRP = s.defaultRP := rfl
@[simp] theorem withEvents_closed (s : TM) (evs) : (s.withEvents evs).closed = s.closed := rfl
@[simp] theorem withEvents_nextEdge (s : TM) (evs) : (s.withEvents evs).nextEdge = s.nextEdge := rfl
@[simp] theorem withEvents_log (s : TM) (evs) : (s.withEvents evs).log = s.log ++ evs := rfl

/-- The recording function of the sink under from-node #`i` of task `t`, seen through `g`. -/
def rec {β : Type} (g : TaskDef → Nat → Point → β) (t : String) (i : Nat) (ep : Edge × Point) : Option β :=
  if ep.1.task.id == t && sinkGets ep.1.task i ep.2 then some (g ep.1.task i ep.2) else none

theorem delivered_eq {β : Type} (g : TaskDef → Nat → Point → β) (s : TM) (t : String) (i : Nat) :
    s.deliveredWith g t i = s.log.filterMap (rec g t i) := rfl

theorem delivered_withEvents {β : Type} (g : TaskDef → Nat → Point → β) (s : TM) (evs) (t : String) (i : Nat) :
    (s.withEvents evs).deliveredWith g t i = s.deliveredWith g t i ++ evs.filterMap (rec g t i) := by
  simp [delivered_eq, List.filterMap_append]

/-! ### the table invariant -/

structure Inv (s : TM) : Prop where
  /-- an entry of the fork table belongs to the executing task of that id, under one of that task's keys -/
  entry : ∀ k id e, (id, e) ∈ s.forks k → s.tasks id = some e ∧ k ∈ e.task.keys
  /-- the executing task stored under `id` has that id -/
  owner : ∀ id e, s.tasks id = some e → e.task.id = id
  /-- a LIVE task (one that still has fork keys) is registered under every one of its keys -/
  reg : ∀ id e, s.tasks id = some e → s.forkKeysOf id ≠ [] → ∀ k ∈ e.task.keys, (id, e) ∈ s.forks k
  /-- inner maps are maps -/
  nodup : ∀ k, ((s.forks k).map (·.1)).Nodup
  /-- `taskToForkKeys` lists every key under which the id is registered -/
  listed : ∀ k id e, (id, e) ∈ s.forks k → k ∈ s.forkKeysOf id
  /-- ids with fork keys have been through `newFork` -/
  dom : ∀ id, s.forkKeysOf id ≠ [] → id ∈ s.everForked
  /-- only ids in `tm.tasks` hold fork keys -/
  keysTask : ∀ id, s.forkKeysOf id ≠ [] → s.tasks id ≠ none

theorem Inv.init (rp : String) : Inv (init rp) := by
  constructor <;> simp [Kap.C02.init]

theorem Inv.withEvents {s : TM} (h : Inv s) (evs) : Inv (s.withEvents evs) := by
  constructor
  · exact h.entry
  · exact h.owner
  · exact h.reg
  · exact h.nodup
  · exact h.listed
  · exact h.dom
  · exact h.keysTask

theorem Inv.forkPoint {s : TM} (h : Inv s) (p : Point) : Inv (Kap.C02.forkPoint s p) := by
  rw [forkPoint_eq]; exact h.withEvents _

/-- No entry for an id that is not live. -/
theorem Inv.no_entry {s : TM} (h : Inv s) {id : String} (hn : s.isLive id = false) (k : Key) :
    ∀ x ∈ s.forks k, x.1 ≠ id := by
  intro x hx hxi
  have h1 := (h.entry k x.1 x.2 hx).1
  have h2 := h.listed k x.1 x.2 hx
  rw [hxi] at h1 h2
  simp only [TM.isLive, h1, Option.isSome_some, Bool.true_and, Bool.not_eq_false', List.isEmpty_iff] at hn
  rw [hn] at h2
  cases h2

/-- An id that is not live holds no fork keys. -/
theorem Inv.notLive_keys {s : TM} (h : Inv s) {id : String} (hn : s.isLive id = false) : s.forkKeysOf id = [] := by
  cases hk : s.forkKeysOf id with
  | nil => rfl
  | cons a b =>
    exfalso
    have h1 := h.keysTask id (by simp [hk])
    cases ht : s.tasks id with
    | none => exact h1 ht
    | some e => simp [TM.isLive, ht, hk] at hn

/-! ### `startTask` -/

theorem startTask_nodbrp {s : TM} {d : TaskDef} (h : d.dbrps = []) : startTask s d = s := by
  simp [startTask, h]

theorem startTask_executing {s : TM} {d : TaskDef} (h : s.isLive d.id = true) : startTask s d = s := by
  unfold startTask
  by_cases hd : d.dbrps.isEmpty = true <;> simp [hd, h]

theorem startTask_forks {s : TM} {d : TaskDef} (h : d.dbrps ≠ []) (hn : s.isLive d.id = false) (k : Key) :
    (startTask s d).forks k =
      if k ∈ d.keys then insertTask (s.forks k) d.id ⟨s.nextEdge, d⟩ else s.forks k := by
  have : d.dbrps.isEmpty = false := by simpa using h
  simp [startTask, this, hn, newFork, registerKeys_forks]

theorem startTask_tasks {s : TM} {d : TaskDef} (h : d.dbrps ≠ []) (hn : s.isLive d.id = false) :
    (startTask s d).tasks = upd s.tasks d.id (some ⟨s.nextEdge, d⟩) := by
  have : d.dbrps.isEmpty = false := by simpa using h
  simp [startTask, this, hn, newFork]

theorem startTask_keysOf {s : TM} {d : TaskDef} (h : d.dbrps ≠ []) (hn : s.isLive d.id = false) (id : String) :
    (startTask s d).forkKeysOf id = if id = d.id then s.forkKeysOf d.id ++ d.keys else s.forkKeysOf id := by
  have : d.dbrps.isEmpty = false := by simpa using h
  simp [startTask, this, hn, newFork, registerKeys_keysOf]

theorem startTask_everForked {s : TM} {d : TaskDef} (h : d.dbrps ≠ []) (hn : s.isLive d.id = false) :
    (startTask s d).everForked = s.everForked ++ [d.id] := by
  have : d.dbrps.isEmpty = false := by simpa using h
  simp [startTask, this, hn, newFork]

theorem startTask_log (s : TM) (d : TaskDef) : (startTask s d).log = s.log := by
  unfold startTask
  by_cases h : d.dbrps.isEmpty = true <;> by_cases h2 : s.isLive d.id = true <;> simp [h, h2, newFork]

theorem startTask_defaultRP (s : TM) (d : TaskDef) : (startTask s d).defaultRP = s.defaultRP := by
  unfold startTask
  by_cases h : d.dbrps.isEmpty = true <;> by_cases h2 : s.isLive d.id = true <;> simp [h, h2, newFork]

theorem mem_startTask_forks {s : TM} {d : TaskDef} (h : d.dbrps ≠ []) (hn : s.isLive d.id = false) {k : Key} {x : String × Edge} :
    x ∈ (startTask s d).forks k ↔
      (x ∈ s.forks k ∧ (k ∈ d.keys → x.1 ≠ d.id)) ∨ (k ∈ d.keys ∧ x = (d.id, ⟨s.nextEdge, d⟩)) := by
  rw [startTask_forks h hn]
  by_cases hk : k ∈ d.keys
  · simp [hk, mem_insertTask]
  · simp [hk]

theorem Inv.startTask {s : TM} (hi : Inv s) {d : TaskDef} (hn : s.isLive d.id = false) : Inv (Kap.C02.startTask s d) := by
  by_cases hd : d.dbrps = []
  · rw [startTask_nodbrp hd]; exact hi
  have hold : ∀ k, ∀ x ∈ s.forks k, x.1 ≠ d.id := fun k => hi.no_entry hn k
  constructor
  · intro k id e hm
    rw [startTask_tasks hd hn]
    rcases (mem_startTask_forks hd hn).mp hm with ⟨hm', _⟩ | ⟨hk, heq⟩
    · have hne : id ≠ d.id := hold k _ hm'
      have := hi.entry k id e hm'
      simp [upd, hne, this]
    · obtain ⟨rfl, rfl⟩ := Prod.mk.inj heq
      simp [upd, hk]
  · intro id e ht
    rw [startTask_tasks hd hn] at ht
    by_cases hid : id = d.id
    · subst hid
      simp [upd] at ht
      rw [← ht]
    · simp [upd, hid] at ht
      exact hi.owner id e ht
  · intro id e ht hk0 k hk
    rw [startTask_tasks hd hn] at ht
    apply (mem_startTask_forks hd hn).mpr
    by_cases hid : id = d.id
    · subst hid
      simp [upd] at ht
      subst ht
      right; exact ⟨hk, rfl⟩
    · simp [upd, hid] at ht
      rw [startTask_keysOf hd hn] at hk0
      simp only [hid, if_false] at hk0
      left
      exact ⟨hi.reg id e ht hk0 k hk, fun _ => hid⟩
  · intro k
    rw [startTask_forks hd hn]
    by_cases hk : k ∈ d.keys
    · simp only [hk, if_true]; exact keys_nodup_insertTask _ _ (hi.nodup k)
    · simp only [hk, if_false]; exact hi.nodup k
  · intro k id e hm
    rw [startTask_keysOf hd hn]
    rcases (mem_startTask_forks hd hn).mp hm with ⟨hm', _⟩ | ⟨hk, heq⟩
    · have hne : id ≠ d.id := hold k _ hm'
      simp [hne]; exact hi.listed k id e hm'
    · obtain ⟨rfl, rfl⟩ := Prod.mk.inj heq
      simp [hk]
  · intro id hk0
    rw [startTask_everForked hd hn]
    rw [startTask_keysOf hd hn] at hk0
    by_cases hid : id = d.id
    · simp [hid]
    · simp only [hid, if_false] at hk0
      exact List.mem_append_left _ (hi.dom id hk0)
  · intro id hk0
    rw [startTask_tasks hd hn]
    rw [startTask_keysOf hd hn] at hk0
    by_cases hid : id = d.id
    · simp [hid, upd]
    · simp only [hid, if_false] at hk0
      simp only [upd, hid, if_false]
      exact hi.keysTask id hk0

/-! ### `delFork` and `stopTask` -/

theorem delFork_forks (s : TM) (id : String) (k : Key) :
    (delFork s id).forks k = if k ∈ s.forkKeysOf id then eraseTask (s.forks k) id else s.forks k := by
  simp [delFork, delForkLoop_forks]

theorem delFork_keysOf (s : TM) (id : String) : (delFork s id).forkKeysOf = upd s.forkKeysOf id [] := rfl
theorem delFork_tasks (s : TM) (id : String) : (delFork s id).tasks = s.tasks := rfl
theorem delFork_log (s : TM) (id : String) : (delFork s id).log = s.log := rfl
theorem delFork_defaultRP (s : TM) (id : String) : (delFork s id).defaultRP = s.defaultRP := rfl
theorem delFork_everForked (s : TM) (id : String) : (delFork s id).everForked = s.everForked := rfl
theorem delFork_nextEdge (s : TM) (id : String) : (delFork s id).nextEdge = s.nextEdge := rfl
theorem delFork_sent (s : TM) (id : String) : (delFork s id).sentOnClosed = s.sentOnClosed := rfl

/-- After `delFork`, the table holds exactly the entries of the other ids. -/
theorem mem_delFork_forks {s : TM} (hi : Inv s) (id : String) {k : Key} {x : String × Edge} :
    x ∈ (delFork s id).forks k ↔ x ∈ s.forks k ∧ x.1 ≠ id := by
  rw [delFork_forks]
  by_cases hk : k ∈ s.forkKeysOf id
  · simp [hk, mem_eraseTask]
  · simp only [hk, if_false]
    constructor
    · intro hx
      refine ⟨hx, fun hxi => hk ?_⟩
      have := hi.listed k x.1 x.2 hx
      rwa [hxi] at this
    · exact fun hx => hx.1

theorem Inv.delFork {s : TM} (hi : Inv s) (id : String) : Inv (Kap.C02.delFork s id) := by
  constructor
  · intro k id1 e hm
    obtain ⟨hm', _⟩ := (mem_delFork_forks hi id).mp hm
    rw [delFork_tasks]; exact hi.entry k id1 e hm'
  · intro id1 e h1
    rw [delFork_tasks] at h1; exact hi.owner id1 e h1
  · intro id1 e h1 hk0 k hk
    rw [delFork_tasks] at h1
    rw [delFork_keysOf] at hk0
    by_cases hid : id1 = id
    · simp [upd, hid] at hk0
    · simp only [upd, hid, if_false] at hk0
      exact (mem_delFork_forks hi id).mpr ⟨hi.reg id1 e h1 hk0 k hk, hid⟩
  · intro k
    rw [delFork_forks]
    by_cases hk : k ∈ s.forkKeysOf id
    · simp only [hk, if_true]; exact keys_nodup_filter _ (hi.nodup k)
    · simp only [hk, if_false]; exact hi.nodup k
  · intro k id1 e hm
    obtain ⟨hm', hne⟩ := (mem_delFork_forks hi id).mp hm
    have hne' : id1 ≠ id := hne
    rw [delFork_keysOf]
    simp [upd, hne']; exact hi.listed k id1 e hm'
  · intro id1 hk0
    rw [delFork_everForked]
    rw [delFork_keysOf] at hk0
    by_cases hid : id1 = id
    · simp [upd, hid] at hk0
    · simp only [upd, hid, if_false] at hk0
      exact hi.dom id1 hk0
  · intro id1 hk0
    rw [delFork_tasks]
    rw [delFork_keysOf] at hk0
    by_cases hid : id1 = id
    · simp [upd, hid] at hk0
    · simp only [upd, hid, if_false] at hk0
      exact hi.keysTask id1 hk0

theorem stopTask_idle {s : TM} {id : String} (h : s.tasks id = none) : stopTask s id = s := by
  simp [stopTask, h]

theorem stopTask_forks {s : TM} {id : String} {e : Edge} (h : s.tasks id = some e) (k : Key) :
    (stopTask s id).forks k = if k ∈ s.forkKeysOf id then eraseTask (s.forks k) id else s.forks k := by
  simp [stopTask, h, delFork, delForkLoop_forks]

theorem stopTask_tasks {s : TM} {id : String} {e : Edge} (h : s.tasks id = some e) :
    (stopTask s id).tasks = upd s.tasks id none := by
  simp [stopTask, h, delFork]

theorem stopTask_keysOf {s : TM} {id : String} {e : Edge} (h : s.tasks id = some e) :
    (stopTask s id).forkKeysOf = upd s.forkKeysOf id [] := by
  simp [stopTask, h, delFork]

theorem stopTask_everForked (s : TM) (id : String) : (stopTask s id).everForked = s.everForked := by
  unfold stopTask
  cases h : s.tasks id <;> simp [delFork]

theorem stopTask_log (s : TM) (id : String) : (stopTask s id).log = s.log := by
  unfold stopTask
  cases h : s.tasks id <;> simp [delFork]

theorem stopTask_defaultRP (s : TM) (id : String) : (stopTask s id).defaultRP = s.defaultRP := by
  unfold stopTask
  cases h : s.tasks id <;> simp [delFork]

/-- After `stopTask`, the table holds exactly the entries of the other ids. -/
theorem mem_stopTask_forks {s : TM} (hi : Inv s) {id : String} {e : Edge} (h : s.tasks id = some e) {k : Key}
    {x : String × Edge} : x ∈ (stopTask s id).forks k ↔ x ∈ s.forks k ∧ x.1 ≠ id := by
  rw [stopTask_forks h]
  by_cases hk : k ∈ s.forkKeysOf id
  · simp [hk, mem_eraseTask]
  · simp only [hk, if_false]
    constructor
    · intro hx
      refine ⟨hx, fun hxi => hk ?_⟩
      have := hi.listed k x.1 x.2 hx
      rwa [hxi] at this
    · exact fun hx => hx.1

theorem Inv.stopTask {s : TM} (hi : Inv s) (id : String) : Inv (Kap.C02.stopTask s id) := by
  cases ht : s.tasks id with
  | none => rw [stopTask_idle ht]; exact hi
  | some e0 =>
    constructor
    · intro k id1 e hm
      obtain ⟨hm', hne⟩ := (mem_stopTask_forks hi ht).mp hm
      rw [stopTask_tasks ht]
      have := hi.entry k id1 e hm'
      have hne' : id1 ≠ id := hne
      simp [upd, hne', this]
    · intro id1 e h1
      rw [stopTask_tasks ht] at h1
      by_cases hid : id1 = id
      · simp [upd, hid] at h1
      · simp [upd, hid] at h1; exact hi.owner id1 e h1
    · intro id1 e h1 hk0 k hk
      rw [stopTask_tasks ht] at h1
      rw [stopTask_keysOf ht] at hk0
      by_cases hid : id1 = id
      · simp [upd, hid] at h1
      · simp [upd, hid] at h1
        simp only [upd, hid, if_false] at hk0
        exact (mem_stopTask_forks hi ht).mpr ⟨hi.reg id1 e h1 hk0 k hk, hid⟩
    · intro k
      rw [stopTask_forks ht]
      by_cases hk : k ∈ s.forkKeysOf id
      · simp only [hk, if_true]; exact keys_nodup_filter _ (hi.nodup k)
      · simp only [hk, if_false]; exact hi.nodup k
    · intro k id1 e hm
      obtain ⟨hm', hne⟩ := (mem_stopTask_forks hi ht).mp hm
      have hne' : id1 ≠ id := hne
      rw [stopTask_keysOf ht]
      simp [upd, hne']; exact hi.listed k id1 e hm'
    · intro id1 hk0
      rw [stopTask_everForked]
      rw [stopTask_keysOf ht] at hk0
      by_cases hid : id1 = id
      · simp [upd, hid] at hk0
      · simp only [upd, hid, if_false] at hk0
        exact hi.dom id1 hk0
    · intro id1 hk0
      rw [stopTask_tasks ht]
      rw [stopTask_keysOf ht] at hk0
      by_cases hid : id1 = id
      · simp [upd, hid] at hk0
      · simp only [upd, hid, if_false] at hk0 ⊢
        exact hi.keysTask id1 hk0

/-! ### `drain` -/

theorem foldl_delFork_inv (l : List String) : ∀ s : TM, Inv s → Inv (l.foldl delFork s) := by
  induction l with
  | nil => intro s hi; exact hi
  | cons id rest ih => intro s hi; exact ih _ (hi.delFork id)

theorem foldl_delFork_keysOf (l : List String) (id : String) :
    ∀ s : TM, (l.foldl delFork s).forkKeysOf id = if id ∈ l then [] else s.forkKeysOf id := by
  induction l with
  | nil => intro s; simp
  | cons x rest ih =>
    intro s
    rw [List.foldl_cons, ih, delFork_keysOf]
    by_cases h1 : id ∈ rest
    · simp [h1]
    · by_cases h2 : id = x
      · simp [h2, upd]
      · simp [h1, h2, upd]

theorem foldl_delFork_fields (l : List String) :
    ∀ s : TM, (l.foldl delFork s).tasks = s.tasks ∧ (l.foldl delFork s).log = s.log ∧
      (l.foldl delFork s).defaultRP = s.defaultRP ∧ (l.foldl delFork s).everForked = s.everForked ∧
      (l.foldl delFork s).nextEdge = s.nextEdge ∧ (l.foldl delFork s).sentOnClosed = s.sentOnClosed := by
  induction l with
  | nil => intro s; simp
  | cons x rest ih => intro s; rw [List.foldl_cons]; exact ih _

theorem Inv.drain {s : TM} (hi : Inv s) : Inv (Kap.C02.drain s) := foldl_delFork_inv _ s hi

/-- After a drain nobody holds a fork key: no id is live. -/
theorem drain_keysOf {s : TM} (hi : Inv s) (id : String) : (drain s).forkKeysOf id = [] := by
  unfold drain
  rw [foldl_delFork_keysOf]
  by_cases h : id ∈ s.everForked
  · simp [h]
  · simp only [h, if_false]
    cases hk : s.forkKeysOf id with
    | nil => rfl
    | cons a b => exact absurd (hi.dom id (by simp [hk])) h

end Kap.C02
