/-
C02 — what the read lock of `forkPoint` buys (model: Kap/Model/C02Lock.lean).

* `locked_never_sends_on_closed`   : with the loop under the lock, NO schedule of forks / delForks / newForks makes a Collect hit
  a closed edge.
* `locked_keeper_unaffected`       : a task that is never deleted receives exactly the points forked so far
  (`List.range (min n (forks sched))`: each once, in order), whatever the add/del events of the other tasks are (full statement,
  for every n, every duplicate-free initial table and every schedule without `.del k`; `.add k` needs no exclusion: it is a no-op).
* `snapshot_variant_can_send_on_closed`, `snapshot_variant_starves_keeper` : counterexamples for "collect after releasing tm.mu".
Core tactics only.
-/
import Kap.Model.C02Lock
namespace Kap.C02.Lock

/-- invariant of the locked variant -/
def Inv (s : State) : Prop :=
  s.panicked = false ∧ s.subs.Nodup ∧ ∀ t, t ∈ s.subs → t ∉ s.closed

/-- the loop of `forkPoint` over open edges just appends one delivery per entry -/
theorem foldl_collect (p : Nat) : ∀ (l : List Nat) (s : State), s.panicked = false → (∀ t, t ∈ l → t ∉ s.closed) →
    l.foldl (fun a t => collect t p a) s = { s with log := s.log ++ l.map (fun t => (t, p)) } := by
  intro l
  induction l with
  | nil => intro s _ _; simp
  | cons a l ih =>
    intro s hp hc
    have ha : a ∉ s.closed := hc a (by simp)
    have h1 : collect a p s = { s with log := s.log ++ [(a, p)] } := by simp [collect, hp, ha]
    rw [List.foldl_cons, h1, ih]
    · simp
    · exact hp
    · intro t ht; exact hc t (by simp [ht])

theorem forkLocked_eq (s : State) (h : Inv s) :
    forkLocked s = { s with log := s.log ++ s.subs.map (fun t => (t, s.pc)), pc := s.pc + 1 } := by
  unfold forkLocked
  simp only []
  rw [foldl_collect s.pc s.subs s h.1 h.2.2]

/-- what one pass over a duplicate-free table delivers to `k` -/
theorem delivered_map (p k : Nat) : ∀ (l : List Nat), l.Nodup →
    ((l.map (fun t => (t, p))).filter (fun e => e.1 == k)).map (·.2) = if k ∈ l then [p] else [] := by
  intro l
  induction l with
  | nil => intro _; simp
  | cons a l ih =>
    intro hn
    have hn' := List.nodup_cons.mp hn
    by_cases hak : a = k
    · subst hak
      have := ih hn'.2
      simp [hn'.1] at this ⊢
      exact this
    · have := ih hn'.2
      have hka : ¬ k = a := fun h => hak h.symm
      simp [hak, hka] at this ⊢
      exact this

theorem step_locked_inv (n : Nat) (s : State) (e : Ev) (h : Inv s) : Inv (step .locked n s e) := by
  obtain ⟨hp, hn, hd⟩ := h
  unfold step
  simp only [hp, Bool.false_eq_true, ↓reduceIte]
  cases e with
  | fork =>
    by_cases hlt : s.pc < n
    · simp only [hlt, if_true]
      rw [forkLocked_eq s ⟨hp, hn, hd⟩]
      exact ⟨hp, hn, hd⟩
    · simp [hlt]; exact ⟨hp, hn, hd⟩
  | del t =>
    by_cases ht : t ∈ s.subs
    · simp only [ht, if_true]
      refine ⟨rfl, List.Nodup.sublist List.erase_sublist hn, ?_⟩
      intro u hu
      have hu' := (List.Nodup.mem_erase_iff hn).mp hu
      simp [hu'.1, hd u hu'.2]
    · simp [ht]; exact ⟨hp, hn, hd⟩
  | add t =>
    by_cases ht : t ∈ s.subs ∨ t ∈ s.closed
    · simp [ht]; exact ⟨hp, hn, hd⟩
    · simp only [ht, if_false]
      have ht' : t ∉ s.subs ∧ t ∉ s.closed := by simpa [not_or] using ht
      refine ⟨rfl, ?_, ?_⟩
      · simp only []
        rw [List.nodup_append]
        refine ⟨hn, by simp, ?_⟩
        intro a ha b hb
        simp at hb
        subst hb
        intro hab; subst hab; exact ht'.1 ha
      · intro u hu
        simp at hu
        cases hu with
        | inl hu => exact hd u hu
        | inr hu => subst hu; exact ht'.2

theorem foldl_locked_inv (n : Nat) : ∀ (sched : List Ev) (s : State), Inv s → Inv (sched.foldl (step .locked n) s) := by
  intro sched
  induction sched with
  | nil => intro s h; exact h
  | cons e r ih => intro s h; exact ih _ (step_locked_inv n s e h)

/-- 1. The loop under the read lock never sends on a closed edge: for EVERY schedule. -/
theorem locked_never_sends_on_closed (n : Nat) (subs : List Nat) (hn : subs.Nodup) (sched : List Ev) :
    (run .locked n subs sched).panicked = false := by
  have : Inv (run .locked n subs sched) := by
    unfold run
    apply foldl_locked_inv
    exact ⟨rfl, hn, by simp⟩
  exact this.1

example : (run .locked 2 [0, 1, 2] [.fork, .del 1, .add 3, .fork, .del 0, .fork]).panicked = false
    ∧ (run .locked 2 [0, 1, 2] [.fork, .del 1, .add 3, .fork, .del 0, .fork]).log
        = [(0, 0), (1, 0), (2, 0), (0, 1), (2, 1), (3, 1)] := by decide

/-- keeper invariant: subscribed, and has received exactly the points forked so far -/
def Keep (k : Nat) (s : State) : Prop :=
  k ∈ s.subs ∧ deliveredTo s k = List.range s.pc

theorem step_locked_keep (n k : Nat) (s : State) (e : Ev) (h : Inv s) (hk : Keep k s) (hle : s.pc ≤ n) (he : e ≠ .del k) :
    Keep k (step .locked n s e) ∧ (step .locked n s e).pc ≤ n
      ∧ (step .locked n s e).pc = min n (s.pc + forks [e]) := by
  obtain ⟨hp, hn, hd⟩ := h
  obtain ⟨hks, hkd⟩ := hk
  unfold step
  simp only [hp, Bool.false_eq_true, ↓reduceIte]
  cases e with
  | fork =>
    by_cases hlt : s.pc < n
    · simp only [hlt, if_true]
      rw [forkLocked_eq s ⟨hp, hn, hd⟩]
      refine ⟨⟨hks, ?_⟩, ?_, ?_⟩
      · have := delivered_map s.pc k s.subs hn
        simp only [hks, if_true] at this
        unfold deliveredTo at hkd ⊢
        simp only [List.filter_append, List.map_append, this, hkd]
        exact List.range_succ.symm
      · simp only []; omega
      · simp only [forks]; omega
    · simp only [hlt, if_false, forks]
      exact ⟨⟨hks, hkd⟩, hle, by omega⟩
  | del t =>
    have htk : t ≠ k := fun h => he (by rw [h])
    by_cases ht : t ∈ s.subs
    · simp only [ht, if_true, forks]
      refine ⟨⟨?_, hkd⟩, hle, by omega⟩
      exact (List.mem_erase_of_ne (fun h => htk h.symm)).mpr hks
    · simp only [ht, if_false, forks]
      exact ⟨⟨hks, hkd⟩, hle, by omega⟩
  | add t =>
    by_cases ht : t ∈ s.subs ∨ t ∈ s.closed
    · simp only [ht, if_true, forks]
      exact ⟨⟨hks, hkd⟩, hle, by omega⟩
    · simp only [ht, if_false, forks]
      refine ⟨⟨?_, hkd⟩, hle, by omega⟩
      simp [hks]

theorem forks_cons (e : Ev) (r : List Ev) : forks (e :: r) = forks [e] + forks r := by
  cases e <;> simp [forks] <;> omega

theorem foldl_locked_keep (n k : Nat) : ∀ (sched : List Ev) (s : State), Inv s → Keep k s → s.pc ≤ n →
    (∀ e, e ∈ sched → e ≠ .del k) →
    Keep k (sched.foldl (step .locked n) s) ∧ (sched.foldl (step .locked n) s).pc = min n (s.pc + forks sched) := by
  intro sched
  induction sched with
  | nil => intro s _ hk hle _; exact ⟨hk, by simp [forks]; omega⟩
  | cons e r ih =>
    intro s h hk hle hne
    have h1 := step_locked_keep n k s e h hk hle (hne e (by simp))
    have h2 := ih (step .locked n s e) (step_locked_inv n s e h) h1.1 h1.2.1 (fun e' he' => hne e' (by simp [he']))
    refine ⟨h2.1, ?_⟩
    have := forks_cons e r
    rw [List.foldl_cons, h2.2, h1.2.2]
    omega

/-- 2. A task that is never deleted receives exactly the points forked so far — `List.range (min n (forks sched))`: each once,
in order — for every n, every duplicate-free table containing it and EVERY schedule without `.del k` (the adds and deletes of the
other tasks, and `.add k`, are irrelevant). -/
theorem locked_keeper_unaffected (n : Nat) (subs : List Nat) (k : Nat) (hn : subs.Nodup) (hk : k ∈ subs)
    (sched : List Ev) (hs : ∀ e, e ∈ sched → e ≠ .del k) :
    deliveredTo (run .locked n subs sched) k = List.range (min n (forks sched)) := by
  have h := foldl_locked_keep n k sched { subs := subs } ⟨rfl, hn, by simp⟩ ⟨hk, by simp [deliveredTo]⟩
    (Nat.zero_le n) hs
  unfold run
  rw [h.1.2, h.2]
  simp

example : deliveredTo (run .locked 3 [0, 1, 2] [.fork, .del 1, .add 3, .fork, .del 2, .add 0, .fork, .fork]) 0 = [0, 1, 2]
    ∧ deliveredTo (run .locked 3 [0, 1, 2] [.fork, .del 1, .add 3, .fork, .del 2, .add 0, .fork, .fork]) 3 = [1, 2] := by decide

/-- 3. Collecting after the lock is released: copy taken, task 1 stopped, Collect into 0, Collect into 1 = closed channel. -/
theorem snapshot_variant_can_send_on_closed : ∃ sched, (run .snapshot 1 [0, 1] sched).panicked = true :=
  ⟨[.fork, .del 1, .fork, .fork], by decide⟩

/-- 4. The panic kills the process: keeper 0, never deleted, never gets point 1 under the snapshot variant, while the locked
variant delivers [0, 1] to it under the same schedule. -/
theorem snapshot_variant_starves_keeper : ∃ sched, (∀ e, e ∈ sched → e ≠ .del 0)
    ∧ 2 ≤ forks sched
    ∧ deliveredTo (run .snapshot 2 [0, 1] sched) 0 = [0]
    ∧ (run .snapshot 2 [0, 1] sched).panicked = true
    ∧ deliveredTo (run .locked 2 [0, 1] sched) 0 = [0, 1]
    ∧ (run .locked 2 [0, 1] sched).panicked = false :=
  ⟨[.fork, .del 1, .fork, .fork, .fork, .fork, .fork, .fork], by decide⟩

end Kap.C02.Lock
