/-
Helper lemmas for C02, part 7: loopback nodes. The model's loopback feed is the documented one; a history with loopback steps runs
like the plain history `flat` makes of it.
-/
import Kap.Proofs.C02Opts
import Kap.Spec.C02Loop
namespace Kap.C02

/-! ### the feed of a loopback node -/

theorem loopOut_none_of_not_gets {d : TaskDef} {i k : Nat} {p : Point} (h : sinkGets d i p = false) : loopOut d i k p = none := by
  have hc : chainEmits d.froms (i + 1) i p = none := by
    have := chainEmits_isSome d.froms p (i + 1) i
    unfold sinkGets at h
    rw [h] at this
    cases hc : chainEmits d.froms (i + 1) i p with
    | none => rfl
    | some m => simp [hc] at this
  unfold loopOut
  cases d.loopAt i k with
  | none => rfl
  | some L => by_cases hv : L.valid = true <;> simp [hv, hc]

/-- The feed is what the sink under the same from-node records, seen through the loopback node. -/
theorem loopFeed_eq_with (s : TM) (t : String) (i k : Nat) :
    s.loopFeed t i k = (s.deliveredWith (fun d i p => loopOut d i k p) t i).filterMap id := by
  unfold TM.loopFeed TM.deliveredWith
  rw [List.filterMap_filterMap]
  congr 1
  funext ep
  by_cases hid : (ep.1.task.id == t) = true
  · cases hg : sinkGets ep.1.task i ep.2 with
    | true => simp [hid]
    | false => simp [hid, loopOut_none_of_not_gets hg]
  · simp [hid]

theorem loopPoint_doc {d : TaskDef} {i : Nat} {L : Loop} {w : WEv} {m : Msg} (hv : L.valid = true)
    (hm : chainEmits d.froms (i + 1) i (mkPoint w.db w.rp w.pt) = some m) :
    L.point (mkPoint w.db w.rp w.pt) m = docLoopWrite d.froms i L w := by
  obtain ⟨htime, _⟩ := chainEmits_doc d.froms _ _ _ _ hm
  unfold Loop.valid at hv
  simp only [Bool.and_eq_true, bne_iff_ne, ne_eq] at hv
  unfold Loop.point docLoopWrite
  have hdb : (L.db != "") = true := by simpa using hv.1
  have hrp : (L.rp != "") = true := by simpa using hv.2
  simp only [hdb, hrp, if_true, htime, docRec, mkPoint]
  by_cases hn : L.name = ""
  · simp [hn]
  · have : (L.name != "") = true := by simpa using hn
    simp [hn, this]

/-- **The model's loopback feed is the documented one**, for every plain history. -/
theorem run_loopFeed_eq_spec (drp : String) (ops : List Op) (t : String) (i k : Nat) :
    (run drp ops).loopFeed t i k = specFeed drp t i k ops := by
  rw [loopFeed_eq_with, run_deliveredWith_eq_spec]
  unfold specFeed
  generalize writeEvents drp t none ops = l
  induction l with
  | nil => rfl
  | cons w rest ih =>
    rw [List.filter_cons, List.filterMap_cons]
    by_cases hq : qualifies i w = true
    · obtain ⟨d, hd⟩ := qualifies_enabled hq
      have hsel : selectedBy d.froms (i + 1) i w.db w.rp w.pt = true := by
        unfold qualifies at hq
        simp only [hd, Bool.and_eq_true] at hq
        exact hq.2
      rw [selectedBy_eq_chainGets, ← chainEmits_isSome] at hsel
      obtain ⟨m, hm⟩ := Option.isSome_iff_exists.mp hsel
      have hone : (seenAs (fun d i p => loopOut d i k p) i w).bind id = specLoopOut i k w := by
        simp only [seenAs, specLoopOut, hq, hd, if_true, Option.map_some, Option.bind_some, id, loopOut]
        cases hl : d.loopAt i k with
        | none => rfl
        | some L =>
          by_cases hv : L.valid = true
          · simp only [hv, if_true, hm, Option.map_some, Option.bind_some, loopPoint_doc hv hm]
          · simp [hv]
      simp only [hq, if_true, List.filterMap_cons]
      cases hs : seenAs (fun d i p => loopOut d i k p) i w with
      | none =>
        rw [hs] at hone
        simp only [Option.bind_none] at hone
        simp only [← hone, ih]
      | some o =>
        rw [hs] at hone
        simp only [Option.bind_some, id] at hone
        cases o with
        | none => simp [← hone, ih]
        | some q => simp [← hone, ih]
    · have : specLoopOut i k w = none := by simp [specLoopOut, hq]
      simp [hq, this, ih]

theorem specLoopOut_rp {i k : Nat} {w : WEv} {q : Point} (h : specLoopOut i k w = some q) : q.rp ≠ "" := by
  unfold specLoopOut at h
  by_cases hq : qualifies i w = true
  · simp only [hq, if_true] at h
    cases he : w.enabled with
    | none => simp [he] at h
    | some d =>
      simp only [he, Option.bind_some] at h
      cases hl : d.loopAt i k with
      | none => simp [hl] at h
      | some L =>
        simp only [hl, Option.bind_some] at h
        by_cases hv : L.valid = true
        · simp only [hv, if_true, Option.some.injEq] at h
          subst h
          unfold Loop.valid at hv
          simp only [Bool.and_eq_true, bne_iff_ne, ne_eq] at hv
          exact hv.2
        · simp [hv] at h
  · simp [hq] at h

theorem specFeed_rp {drp t : String} {i k : Nat} {hist : List Op} {q : Point} (h : q ∈ specFeed drp t i k hist) : q.rp ≠ "" := by
  unfold specFeed at h
  obtain ⟨w, _, hw⟩ := List.mem_filterMap.mp h
  exact specLoopOut_rp hw

/-- The feed only grows when the history is extended. -/
theorem specFeed_append (drp t : String) (i k : Nat) (xs ys : List Op) :
    ∃ more, specFeed drp t i k (xs ++ ys) = specFeed drp t i k xs ++ more := by
  obtain ⟨cur', h⟩ := writeEvents_append drp t xs ys none
  exact ⟨(writeEvents drp t cur' ys).filterMap (specLoopOut i k), by unfold specFeed; rw [h, List.filterMap_append]⟩

/-! ### a point written back is forked like a written point -/

theorem step_asWrite (s : TM) (q : Point) (h : q.rp ≠ "") : step s (asWrite q) = forkPoint s q := by
  have : (q.rp == "") = false := by simpa using h
  simp [asWrite, step, stepWith, writePointsWith, this, mkPoint, rawOf]

theorem foldl_step_asWrite (pts : List Point) : ∀ (s : TM), (∀ q ∈ pts, q.rp ≠ "") →
    (pts.map asWrite).foldl step s = forkAll s pts := by
  induction pts with
  | nil => intro s _; rfl
  | cons q rest ih =>
    intro s h
    simp only [List.map_cons, List.foldl_cons, forkAll]
    rw [step_asWrite s q (h q (List.mem_cons_self ..)), ih _ (fun x hx => h x (List.mem_cons_of_mem _ hx))]
    rfl

theorem run_append (drp : String) (xs ys : List Op) : run drp (xs ++ ys) = ys.foldl step (run drp xs) := by
  simp [run, List.foldl_append]

theorem batchPoint_doc (L : Loop) (bname : String) (r : RawPoint) : L.batchPoint bname r = docBatchWrite L bname r := by
  unfold Loop.batchPoint docBatchWrite
  by_cases hn : L.name = ""
  · simp [hn]
  · have : (L.name != "") = true := by simpa using hn
    simp [hn, this]

/-! ### the simulation of the second layer -/

/-- the model state and the flattening state agree -/
structure Agree (drp : String) (s : LTM) (f : FSt) : Prop where
  tm : s.tm = run drp f.hist
  done : s.done = f.done
  closed : s.closed = f.closed

theorem hist_append (f : FSt) (more : List (Who × Op)) :
    ({ f with thist := f.thist ++ more } : FSt).hist = f.hist ++ more.map (·.2) := by
  simp [FSt.hist]

theorem Agree.ext_plain {drp : String} {s : LTM} {f : FSt} (ha : Agree drp s f) (op : Op) :
    Agree drp { s with tm := step s.tm op } { f with thist := f.thist ++ [(none, op)] } := by
  refine ⟨?_, ha.done, ha.closed⟩
  show step s.tm op = run drp ({ f with thist := f.thist ++ [(none, op)] } : FSt).hist
  rw [hist_append, run_append, ← ha.tm]
  rfl

theorem Agree.step {drp : String} {s : LTM} {f : FSt} (ha : Agree drp s f) (op : LOp) :
    Agree drp (lstep s op) (fstep drp f op) := by
  cases op with
  | ext op =>
    cases op with
    | start d =>
      simp only [lstep, fstep]
      by_cases hl : d.selfLoop = true
      · simp only [hl, if_true]; exact ha
      · simp only [hl]; exact ha.ext_plain _
    | startfail d =>
      simp only [lstep, fstep]
      by_cases hl : d.selfLoop = true
      · simp only [hl, if_true]; exact ha
      · simp only [hl]; exact ha.ext_plain _
    | stop id => exact ha.ext_plain _
    | delete id => exact ha.ext_plain _
    | drain =>
      have := ha.ext_plain .drain
      exact ⟨this.tm, this.done, rfl⟩
    | write db rp pts => exact ha.ext_plain _
  | loop t i k n =>
    simp only [lstep, fstep]
    have hfeed : s.tm.loopFeed t i k = specFeed drp t i k f.hist := by
      rw [ha.tm, run_loopFeed_eq_spec]
    rw [hfeed, ha.done, ha.closed]
    refine ⟨?_, rfl, rfl⟩
    by_cases hc : f.closed = true
    · simp only [hc, if_true]; exact ha.tm
    · have hc' : f.closed = false := by simpa using hc
      simp only [hc', Bool.false_eq_true, if_false]
      show forkAll s.tm _ = run drp (FSt.hist { f with thist := _ })
      rw [hist_append, run_append, ← ha.tm, List.map_map]
      have hrp : ∀ q ∈ List.take n (List.drop (f.done (t, i, k)) (specFeed drp t i k f.hist)), q.rp ≠ "" :=
        fun q hq => specFeed_rp (List.mem_of_mem_drop (List.mem_of_mem_take hq))
      rw [← foldl_step_asWrite _ _ hrp]
      rfl
  | batch t L bname pts =>
    simp only [lstep, fstep]
    rw [ha.closed]
    by_cases hc : (f.closed || !L.valid) = true
    · simp only [hc, if_true]; exact ha
    · have hc' : (f.closed || !L.valid) = false := by simpa using hc
      simp only [hc', Bool.false_eq_true, if_false]
      refine ⟨?_, ha.done, rfl⟩
      show forkAll s.tm _ = run drp (FSt.hist { f with thist := _ })
      rw [hist_append, run_append, ← ha.tm, List.map_map]
      have hv : L.rp ≠ "" := by
        simp only [Bool.or_eq_true, Bool.not_eq_true', not_or, Bool.not_eq_false] at hc
        have := hc.2
        unfold Loop.valid at this
        simp only [Bool.and_eq_true, bne_iff_ne, ne_eq] at this
        exact this.2
      have hrp : ∀ q ∈ pts.map (L.batchPoint bname), q.rp ≠ "" := by
        intro q hq
        obtain ⟨r, _, rfl⟩ := List.mem_map.mp hq
        exact hv
      rw [← foldl_step_asWrite _ _ hrp]
      have hdoc : L.batchPoint bname = docBatchWrite L bname := funext (batchPoint_doc L bname)
      rw [hdoc]
      rfl

theorem agree_fold (drp : String) (h : List LOp) : ∀ (s : LTM) (f : FSt), Agree drp s f →
    Agree drp (h.foldl lstep s) (h.foldl (fstep drp) f) := by
  induction h with
  | nil => intro s f ha; exact ha
  | cons op rest ih => intro s f ha; exact ih _ _ (ha.step op)

/-- **A history with loopback steps runs like the plain history `flat` makes of it.** -/
theorem lrun_agree (drp : String) (h : List LOp) : Agree drp (lrun drp h) (frun drp h) :=
  agree_fold drp h (linit drp) {} ⟨rfl, rfl, rfl⟩

end Kap.C02
