/-
Helper lemmas for C02, part 6: the from() options — Go's `time.Truncate/Round` (model: `Kap.C16.goTruncate/goRound`) against the
documented "last multiple not after" / "nearest multiple", `sort.Strings` (insertion sort of the model) against the sorted
permutation, and what `chainEmits` forwards against the documented point `docRec`.
-/
import Kap.Proofs.C02Sim
import Kap.Proofs.C06
namespace Kap.C02

/-! ### time -/

theorem zeroOff_eq : C16.zeroOff = goZero := rfl

theorem filterMap_congr' {α β : Type} {f g : α → Option β} : ∀ {l : List α}, (∀ a ∈ l, f a = g a) → l.filterMap f = l.filterMap g
  | [], _ => rfl
  | a :: l, h => by
    have ha := h a List.mem_cons_self
    have hl := filterMap_congr' (l := l) (fun x hx => h x (List.mem_cons_of_mem _ hx))
    simp only [List.filterMap_cons, ha, hl]

theorem docTruncate_pos {d : Int} (hd : 0 < d) (t : Int) : docTruncate d t = t - (t + goZero) % d := by
  unfold docTruncate
  rw [if_neg (Int.not_le.mpr hd)]
  have h := Int.emod_def (t + goZero) d
  rw [Int.mul_comm ((t + goZero) / d) d]
  omega

/-- The guarded call of `FromNode.Point` is the documented truncation (Go's `Truncate` is the identity for `d ≤ 0`). -/
theorem stampTruncate_eq (d t : Int) : (if (d != 0) = true then C16.goTruncate t d else t) = docTruncate d t := by
  by_cases h0 : d = 0
  · subst h0; simp [docTruncate]
  · have hne : (d != 0) = true := by simpa using h0
    rw [if_pos hne]
    by_cases hd : 0 < d
    · rw [docTruncate_pos hd, C16.goTruncate, if_neg (Int.not_le.mpr hd), zeroOff_eq]
    · have : d ≤ 0 := Int.not_lt.mp hd
      simp [C16.goTruncate, docTruncate, this]

theorem docRound_pos {d : Int} (hd : 0 < d) (t : Int) :
    docRound d t = if (t + goZero) % d + (t + goZero) % d < d then t - (t + goZero) % d else t + (d - (t + goZero) % d) := by
  unfold docRound
  rw [if_neg (Int.not_le.mpr hd)]
  generalize ha : t + goZero = a
  have hdef := Int.emod_def a d            -- a % d = a - d * (a / d)
  have hr0 : 0 ≤ a % d := Int.emod_nonneg a (Int.ne_of_gt hd)
  have hr1 : a % d < d := Int.emod_lt_of_pos a hd
  have h2d : 0 < 2 * d := by omega
  have hm : 2 * d * (a / d) = 2 * (d * (a / d)) := Int.mul_assoc 2 d (a / d)
  by_cases hlt : a % d + a % d < d
  · rw [if_pos hlt]
    have hq : (2 * a + d) / (2 * d) = a / d ∧ (2 * a + d) % (2 * d) = 2 * (a % d) + d :=
      (Int.ediv_emod_unique h2d).mpr ⟨by omega, by omega, by omega⟩
    rw [hq.1, Int.mul_comm (a / d) d]
    omega
  · rw [if_neg hlt]
    have hm1 : 2 * d * (a / d + 1) = 2 * (d * (a / d)) + 2 * d := by rw [Int.mul_add, hm]; omega
    have hq : (2 * a + d) / (2 * d) = a / d + 1 ∧ (2 * a + d) % (2 * d) = 2 * (a % d) - d :=
      (Int.ediv_emod_unique h2d).mpr ⟨by omega, by omega, by omega⟩
    rw [hq.1, Int.add_mul, Int.mul_comm (a / d) d]
    omega

theorem stampRound_eq (d t : Int) : (if (d != 0) = true then C16.goRound t d else t) = docRound d t := by
  by_cases h0 : d = 0
  · subst h0; simp [docRound]
  · have hne : (d != 0) = true := by simpa using h0
    rw [if_pos hne]
    by_cases hd : 0 < d
    · rw [docRound_pos hd]
      simp only [C16.goRound, if_neg (Int.not_le.mpr hd), zeroOff_eq]
      rfl
    · have : d ≤ 0 := Int.not_lt.mp hd
      simp [C16.goRound, docRound, this]

/-- `docTruncate` is THE last multiple not after `t`. -/
theorem docTruncate_isTruncation (d t : Int) : IsTruncation d t (docTruncate d t) := by
  unfold IsTruncation
  by_cases hd : 0 < d
  · rw [if_neg (Int.not_le.mpr hd), docTruncate_pos hd]
    have hr0 : 0 ≤ (t + goZero) % d := Int.emod_nonneg _ (Int.ne_of_gt hd)
    have hr1 : (t + goZero) % d < d := Int.emod_lt_of_pos _ hd
    refine ⟨?_, by omega, by omega⟩
    have : t - (t + goZero) % d + goZero = (t + goZero) - (t + goZero) % d := by omega
    rw [this]
    exact Int.emod_eq_zero_of_dvd (Int.dvd_self_sub_emod)
  · have hle : d ≤ 0 := Int.not_lt.mp hd
    simp [hle, docTruncate]

/-- Two multiples of `d` less than `d` apart are the same. -/
theorem multiples_close {d x y : Int} (hd : 0 < d) (hx : x % d = 0) (hy : y % d = 0) (h1 : x - y < d) (h2 : y - x < d) :
    x = y := by
  have hdx : d ∣ x := Int.dvd_of_emod_eq_zero hx
  have hdy : d ∣ y := Int.dvd_of_emod_eq_zero hy
  obtain ⟨k, hk⟩ := Int.dvd_sub hdx hdy
  have hk' : x - y = d * k := hk
  by_cases hk0 : k = 0
  · subst hk0; omega
  · exfalso
    rcases Int.lt_or_gt_of_ne hk0 with hneg | hpos
    · have : d * k ≤ d * (-1) := Int.mul_le_mul_of_nonneg_left (by omega) (Int.le_of_lt hd)
      omega
    · have : d * 1 ≤ d * k := Int.mul_le_mul_of_nonneg_left (by omega) (Int.le_of_lt hd)
      omega

theorem isTruncation_unique {d t r : Int} (h : IsTruncation d t r) : r = docTruncate d t := by
  have h' := docTruncate_isTruncation d t
  unfold IsTruncation at h h'
  by_cases hd : 0 < d
  · rw [if_neg (Int.not_le.mpr hd)] at h h'
    have := multiples_close hd h.1 h'.1 (by omega) (by omega)
    omega
  · have hle : d ≤ 0 := Int.not_lt.mp hd
    rw [if_pos hle] at h h'
    omega

theorem docRound_isRounding (d t : Int) : IsRounding d t (docRound d t) := by
  unfold IsRounding
  by_cases hd : 0 < d
  · rw [if_neg (Int.not_le.mpr hd), docRound_pos hd]
    have hr0 : 0 ≤ (t + goZero) % d := Int.emod_nonneg _ (Int.ne_of_gt hd)
    have hr1 : (t + goZero) % d < d := Int.emod_lt_of_pos _ hd
    have hmul : ((t + goZero) - (t + goZero) % d) % d = 0 := Int.emod_eq_zero_of_dvd (Int.dvd_self_sub_emod)
    by_cases hlt : (t + goZero) % d + (t + goZero) % d < d
    · rw [if_pos hlt]
      refine ⟨?_, by omega, by omega⟩
      have : t - (t + goZero) % d + goZero = (t + goZero) - (t + goZero) % d := by omega
      rw [this]; exact hmul
    · rw [if_neg hlt]
      refine ⟨?_, by omega, by omega⟩
      have : t + (d - (t + goZero) % d) + goZero = ((t + goZero) - (t + goZero) % d) + d := by omega
      rw [this, Int.add_emod_right]; exact hmul
  · have hle : d ≤ 0 := Int.not_lt.mp hd
    simp [hle, docRound]

theorem isRounding_unique {d t r : Int} (h : IsRounding d t r) : r = docRound d t := by
  have h' := docRound_isRounding d t
  unfold IsRounding at h h'
  by_cases hd : 0 < d
  · rw [if_neg (Int.not_le.mpr hd)] at h h'
    have := multiples_close hd h.1 h'.1 (by omega) (by omega)
    omega
  · have hle : d ≤ 0 := Int.not_lt.mp hd
    rw [if_pos hle] at h h'
    omega

/-! ### `sort.Strings` -/

theorem insertSorted_perm (a : String) : ∀ l : List String, (insertSorted a l).Perm (a :: l)
  | [] => List.Perm.refl _
  | b :: l => by
    unfold insertSorted
    by_cases h : a ≤ b
    · rw [if_pos h]
    · rw [if_neg h]
      exact ((insertSorted_perm a l).cons b).trans (List.Perm.swap a b l)

theorem sortStrings_perm : ∀ l : List String, (sortStrings l).Perm l
  | [] => List.Perm.refl _
  | a :: l => (insertSorted_perm a (sortStrings l)).trans ((sortStrings_perm l).cons a)

theorem insertSorted_sorted (a : String) : ∀ l : List String, l.Pairwise (· ≤ ·) → (insertSorted a l).Pairwise (· ≤ ·)
  | [], _ => by simp [insertSorted]
  | b :: l, h => by
    unfold insertSorted
    have hb := List.pairwise_cons.mp h
    by_cases hab : a ≤ b
    · rw [if_pos hab]
      refine List.pairwise_cons.mpr ⟨?_, h⟩
      intro x hx
      rcases List.mem_cons.mp hx with rfl | hx
      · exact hab
      · exact String.le_trans hab (hb.1 x hx)
    · rw [if_neg hab]
      refine List.pairwise_cons.mpr ⟨?_, insertSorted_sorted a l hb.2⟩
      intro x hx
      rcases List.mem_cons.mp ((insertSorted_perm a l).mem_iff.mp hx) with rfl | hx
      · rcases String.le_total x b with h1 | h1
        · exact absurd h1 hab
        · exact h1
      · exact hb.1 x hx

theorem sortStrings_sorted : ∀ l : List String, (sortStrings l).Pairwise (· ≤ ·)
  | [] => List.Pairwise.nil
  | a :: l => insertSorted_sorted a _ (sortStrings_sorted l)

/-- A list has ONE sorted permutation. -/
theorem sorted_perm_unique {l r₁ r₂ : List String} (h₁ : IsSortedPermOf l r₁) (h₂ : IsSortedPermOf l r₂) : r₁ = r₂ :=
  List.Perm.eq_of_pairwise (le := (· ≤ ·)) (fun _ _ _ _ hab hba => String.le_antisymm hab hba) h₁.1 h₂.1
    (h₁.2.trans h₂.2.symm)

theorem sortStrings_isSortedPerm (l : List String) : IsSortedPermOf l (sortStrings l) :=
  ⟨sortStrings_sorted l, sortStrings_perm l⟩

theorem mergeSort_isSortedPerm (l : List String) : IsSortedPermOf l (l.mergeSort (fun a b => decide (a ≤ b))) := by
  refine ⟨?_, List.mergeSort_perm l _⟩
  have := List.pairwise_mergeSort (le := fun (a b : String) => decide (a ≤ b))
    (fun a b c hab hbc => by simp only [decide_eq_true_eq] at *; exact String.le_trans hab hbc)
    (fun a b => by
      rcases String.le_total a b with h | h <;> simp [h]) l
  exact this.imp (fun h => by simpa using h)

theorem sortStrings_eq_mergeSort (l : List String) : sortStrings l = l.mergeSort (fun a b => decide (a ≤ b)) :=
  sorted_perm_unique (sortStrings_isSortedPerm l) (mergeSort_isSortedPerm l)

/-- The two transcriptions of `sort.Strings` (this file's and C06's) are the same function. -/
theorem insertSorted_eq_c06 (a : String) : ∀ l : List String, insertSorted a l = C06.insertSorted a l
  | [] => rfl
  | b :: l => by
    unfold insertSorted C06.insertSorted
    rw [insertSorted_eq_c06 a l]

theorem sortStrings_eq_c06 : ∀ l : List String, sortStrings l = C06.sortStrings l
  | [] => rfl
  | a :: l => by
    show insertSorted a (sortStrings l) = C06.insertSorted a (C06.sortStrings l)
    rw [sortStrings_eq_c06 l, insertSorted_eq_c06]

/-- the sorted dimension list with repetitions dropped is strictly increasing and has the listed members -/
theorem uniqueSorted_sort_isListing (l : List String) : IsSortedListingOf l (C06.uniqueSorted (sortStrings l)) := by
  refine ⟨?_, ?_⟩
  · rw [sortStrings_eq_c06]
    exact C06.pairwise_of_sortedLt _ (C06.sortedLt_uniqueSorted _ (C06.sortedLe_sortStrings l))
  · intro t
    rw [C06.mem_uniqueSorted]
    exact (sortStrings_perm l).mem_iff

/-- A list has ONE strictly increasing listing. -/
theorem sorted_listing_unique {l r₁ r₂ : List String} (h₁ : IsSortedListingOf l r₁) (h₂ : IsSortedListingOf l r₂) : r₁ = r₂ :=
  C06.pairwise_lt_ext r₁ r₂ h₁.1 h₂.1 (fun t => (h₁.2 t).trans (h₂.2 t).symm)

/-- What `FromNode.Point` computes as tag names is the documented list. -/
theorem computeTagNames_doc (o : FromOpts) (tags : List (String × String)) :
    computeTagNames tags o.determineTagNames.1 o.determineTagNames.2 = docTagNames o tags := by
  unfold computeTagNames docTagNames FromOpts.determineTagNames
  by_cases hs : o.star = true
  · simp only [hs, if_true]; exact sortStrings_eq_mergeSort _
  · have : o.star = false := by simpa using hs
    simp only [this, Bool.false_eq_true, if_false]; rw [sortStrings_eq_mergeSort]

/-! ### what a from-node forwards -/

theorem stamp_time (f : From) (p : Point) (c : Msg) :
    (f.stamp p c).time = docRound f.opts.round (docTruncate f.opts.truncate c.time) := by
  unfold From.stamp
  simp only []
  rw [← stampRound_eq, ← stampTruncate_eq]
  by_cases h1 : (f.opts.truncate != 0) = true <;> by_cases h2 : (f.opts.round != 0) = true <;> simp [h1, h2]

theorem stamp_dims (f : From) (p : Point) (c : Msg) :
    (f.stamp p c).byName = f.opts.byName ∧ (f.stamp p c).tagNames = docTagNames f.opts p.pl.tags := by
  unfold From.stamp
  exact ⟨rfl, computeTagNames_doc _ _⟩

theorem point_fst (f : From) (p : Point) (m : Msg) :
    (f.point p m).1 = if f.matches p then some (f.stamp p m) else none := by
  unfold From.point; by_cases h : f.matches p = true <;> simp [h]

/-- A from-node forwards something iff the routing model says its sink gets the point. -/
theorem chainEmits_isSome (froms : List From) (p : Point) :
    ∀ fuel i, (chainEmits froms fuel i p).isSome = chainGets froms fuel i p := by
  intro fuel
  induction fuel with
  | zero => intro i; rfl
  | succ n ih =>
    intro i
    simp only [chainEmits, chainGets]
    cases hf : froms[i]? with
    | none => rfl
    | some f =>
      simp only []
      cases hp : f.parent with
      | none =>
        simp only [point_fst]
        by_cases hm : f.matches p = true <;> simp [hm]
      | some j =>
        simp only []
        rw [← ih j]
        cases hc : chainEmits froms n j p with
        | none => simp
        | some m =>
          simp only [point_fst]
          by_cases hm : f.matches p = true <;> simp [hm]

/-- What from-node #`i` forwards carries the documented time and the documented dimensions of from-node #`i`. -/
theorem chainEmits_doc (froms : List From) (p : Point) :
    ∀ fuel i m, chainEmits froms fuel i p = some m →
      m.time = docTime froms fuel i p.pl.time ∧
      ∃ f, froms[i]? = some f ∧ m.byName = f.opts.byName ∧ m.tagNames = docTagNames f.opts p.pl.tags := by
  intro fuel
  induction fuel with
  | zero => intro i m h; simp [chainEmits] at h
  | succ n ih =>
    intro i m h
    simp only [chainEmits] at h
    simp only [docTime]
    cases hf : froms[i]? with
    | none => simp [hf] at h
    | some f =>
      simp only [hf] at h ⊢
      cases hp : f.parent with
      | none =>
        simp only [hp, point_fst] at h ⊢
        by_cases hm : f.matches p = true
        · simp only [hm, if_true, Option.some.injEq] at h
          subst h
          exact ⟨stamp_time f p p.msg, f, rfl, stamp_dims f p p.msg⟩
        · simp [hm] at h
      | some j =>
        simp only [hp] at h ⊢
        cases hc : chainEmits froms n j p with
        | none => simp [hc] at h
        | some m' =>
          simp only [hc, point_fst] at h
          by_cases hm : f.matches p = true
          · simp only [hm, if_true, Option.some.injEq] at h
            subst h
            refine ⟨?_, f, rfl, stamp_dims f p m'⟩
            rw [stamp_time, (ih j m' hc).1]
          · simp [hm] at h

/-- The recorded points of the model, as an instance of `deliveredWith`. -/
theorem deliveredPts_eq_with (s : TM) (t : String) (i : Nat) :
    s.deliveredPts t i =
      s.deliveredWith (fun d i p => mkRec p ((chainEmits d.froms (i + 1) i p).getD p.msg)) t i := by
  unfold TM.deliveredPts TM.deliveredWith
  congr 1
  funext ep
  have hs := chainEmits_isSome ep.1.task.froms ep.2 (i + 1) i
  unfold sinkGets
  rw [← hs]
  by_cases hid : (ep.1.task.id == t) = true
  · cases hc : chainEmits ep.1.task.froms (i + 1) i ep.2 <;> simp [hid, hc]
  · simp [hid]

/-- **The model's recorded points are the documented ones**, for every history. -/
theorem run_deliveredPts_eq_spec (drp : String) (ops : List Op) (t : String) (i : Nat) :
    (run drp ops).deliveredPts t i = specDeliveredPts drp t i ops := by
  rw [deliveredPts_eq_with, run_deliveredWith_eq_spec]
  unfold specDeliveredPts
  apply filterMap_congr'
  intro w hw
  have hq := (List.mem_filter.mp hw).2
  obtain ⟨d, hd⟩ := qualifies_enabled hq
  simp only [seenAs, hd, Option.map_some, Option.some.injEq]
  -- the from-node forwards the point (it qualifies), and what it forwards is documented
  have hsel : selectedBy d.froms (i + 1) i w.db w.rp w.pt = true := by
    unfold qualifies at hq
    simp only [hd, Bool.and_eq_true] at hq
    exact hq.2
  rw [selectedBy_eq_chainGets, ← chainEmits_isSome] at hsel
  obtain ⟨m, hm⟩ := Option.isSome_iff_exists.mp hsel
  obtain ⟨htime, f, hf, hby, htn⟩ := chainEmits_doc d.froms _ _ _ _ hm
  rw [hm]
  simp only [Option.getD_some, mkRec, docRec, hf, htime, hby, htn]
  rfl

theorem deliveredWith_map {β γ : Type} (g : TaskDef → Nat → Point → β) (h : β → γ) (s : TM) (t : String) (i : Nat) :
    (s.deliveredWith g t i).map h = s.deliveredWith (fun d i p => h (g d i p)) t i := by
  unfold TM.deliveredWith
  rw [List.map_filterMap]
  congr 1
  funext ep
  by_cases hc : (ep.1.task.id == t && sinkGets ep.1.task i ep.2) = true <;> simp [hc]

/-! ### the shared message -/

/-- Handing ONE message to the children one after the other gives every child what it would forward if it were alone, and leaves
the message as it was. -/
theorem fanOut_point (children : List From) (p : Point) (m : Msg) :
    ∀ acc : List (Option Msg),
      children.foldl (fun acc f => ((acc.1 ++ [(f.point p acc.2).1]), (f.point p acc.2).2)) (acc, m) =
        (acc ++ children.map (fun f => (f.point p m).1), m) := by
  induction children with
  | nil => intro acc; simp
  | cons f rest ih =>
    intro acc
    have h2 : (f.point p m).2 = m := by unfold From.point; by_cases h : f.matches p = true <;> simp [h]
    simp only [List.foldl_cons, h2, ih, List.map_cons, List.append_assoc, List.singleton_append]

/-- What from-node #`i` forwards is a function of the from-nodes on ITS chain only. -/
theorem chainEmits_chain_only (froms froms' : List From) (p : Point) :
    ∀ fuel i, (∀ j, onChain froms fuel i j = true → froms'[j]? = froms[j]?) →
      chainEmits froms' fuel i p = chainEmits froms fuel i p := by
  intro fuel
  induction fuel with
  | zero => intro i _; rfl
  | succ n ih =>
    intro i h
    have hi : froms'[i]? = froms[i]? := h i (by simp [onChain])
    simp only [chainEmits, hi]
    cases hf : froms[i]? with
    | none => rfl
    | some f =>
      simp only []
      cases hp : f.parent with
      | none => rfl
      | some k =>
        simp only []
        rw [ih k (fun j hj => h j (by simp [onChain, hf, hp, hj]))]

end Kap.C02
