/-
Helper lemmas for C02, part 3: what one `forkPoint` delivers to one sink, and the simulation of the history spec.
-/
import Kap.Proofs.C02Inv
namespace Kap.C02

/-! ### selection -/

theorem selects_eq_matches (f : From) (db rp : String) (r : RawPoint) :
    selects f db rp r = f.matches (mkPoint db rp r) := by
  unfold selects From.matches mkPoint
  rw [show (f.db == db) = (db == f.db) from BEq.comm, show (f.rp == rp) = (rp == f.rp) from BEq.comm,
    show (f.name == r.name) = (r.name == f.name) from BEq.comm]
  simp only [bne]
  cases (f.db == "") <;> cases (db == f.db) <;> cases (f.rp == "") <;> cases (rp == f.rp) <;>
    cases (f.name == "") <;> cases (r.name == f.name) <;> simp <;> cases f.wh <;> rfl

theorem selectedBy_eq_chainGets (froms : List From) (db rp : String) (r : RawPoint) :
    ∀ fuel i, selectedBy froms fuel i db rp r = chainGets froms fuel i (mkPoint db rp r) := by
  intro fuel
  induction fuel with
  | zero => intro i; rfl
  | succ n ih =>
    intro i
    simp only [selectedBy, chainGets]
    cases froms[i]? with
    | none => rfl
    | some f =>
      simp only [selects_eq_matches]
      cases f.parent with
      | none => rfl
      | some j => simp only [ih]

/-- A from-node that gets the point matches it itself … -/
theorem sinkGets_self {d : TaskDef} {i : Nat} {p : Point} (h : sinkGets d i p = true) :
    ∃ f, d.froms[i]? = some f ∧ f.matches p = true := by
  unfold sinkGets chainGets at h
  cases hf : d.froms[i]? with
  | none => simp [hf] at h
  | some f =>
    simp only [hf, Bool.and_eq_true] at h
    exact ⟨f, rfl, h.1⟩

/-- … so it names the point's measurement or none: the task is subscribed to the point. -/
theorem sinkGets_measurement {d : TaskDef} {i : Nat} {p : Point} (h : sinkGets d i p = true) :
    p.name ∈ d.measurements ∨ "" ∈ d.measurements := by
  obtain ⟨f, hf, h⟩ := sinkGets_self h
  have hmem : f ∈ d.froms := List.mem_of_getElem? hf
  unfold From.matches at h
  by_cases hn : f.name = ""
  · right; exact List.mem_map.mpr ⟨f, hmem, hn⟩
  · left
    by_cases hpn : p.name = f.name
    · rw [hpn]; exact List.mem_map.mpr ⟨f, hmem, rfl⟩
    · exfalso
      have hn' : (f.name != "") = true := by simpa using hn
      have hpn' : (p.name != f.name) = true := by simpa using hpn
      simp only [hn', hpn', Bool.and_self, if_true] at h
      split at h
      · cases h
      · split at h <;> cases h

/-! ### one `forkPoint`, seen from one sink -/

theorem rec_entry {β : Type} (g : TaskDef → Nat → Point → β) {s : TM} (hi : Inv s) (t : String) (i : Nat) (p : Point) (k : Key) :
    ∀ x ∈ s.forks k, x.1 ≠ t → rec g t i (x.2, p) = none := by
  intro x hx hne
  have h1 := (hi.entry k x.1 x.2 hx).1
  have h2 := hi.owner x.1 x.2 h1
  have : (x.2.task.id == t) = false := by
    rw [h2]; simpa using hne
  simp [rec, this]

/-- The input edge of `t` if `t` is live. -/
def TM.liveEdge (s : TM) (t : String) : Option Edge := if s.isLive t then s.tasks t else none

theorem liveEdge_none {s : TM} {t : String} (h : s.liveEdge t = none) : s.isLive t = false := by
  unfold TM.liveEdge at h
  by_cases hl : s.isLive t = true
  · simp only [hl, if_true] at h
    simp [TM.isLive, h] at hl
  · simpa using hl

theorem liveEdge_some {s : TM} {t : String} {e : Edge} (h : s.liveEdge t = some e) :
    s.tasks t = some e ∧ s.forkKeysOf t ≠ [] := by
  unfold TM.liveEdge at h
  by_cases hl : s.isLive t = true
  · simp only [hl, if_true] at h
    refine ⟨h, ?_⟩
    simp only [TM.isLive, Bool.and_eq_true, Bool.not_eq_true', List.isEmpty_eq_false_iff] at hl
    exact hl.2
  · simp [hl] at h

/-- **Routing of one point to one sink.** Under the table invariant, `forkPoint` hands `p` to the sink under from-node #`i`
of task `t` exactly once when `t` is live, declares `p`'s (db, rp) and the from-node (chain) matches — and not at all otherwise. -/
theorem fork_one {β : Type} (g : TaskDef → Nat → Point → β) {s : TM} (hi : Inv s) (t : String) (i : Nat) (p : Point) :
    (events s p).filterMap (rec g t i) =
      match s.liveEdge t with
      | some e => if decide ((p.db, p.rp) ∈ e.task.dbrps) && sinkGets e.task i p then [g e.task i p] else []
      | none => [] := by
  unfold events
  simp only [List.filterMap_append, List.filterMap_map]
  let h : String × Edge → Option β := fun x => rec g t i (x.2, p)
  have hcomp : (rec g t i ∘ fun x : String × Edge => (x.2, p)) = h := rfl
  rw [hcomp]
  have hneE := rec_entry g hi t i p (p.db, p.rp, p.name)
  have hneW := rec_entry g hi t i p (p.db, p.rp, "")
  have hneW' : ∀ x ∈ (s.forks (p.db, p.rp, "")).filter
      (fun x => !(s.forks (p.db, p.rp, p.name)).any (fun y => y.1 == x.1)), x.1 ≠ t → h x = none :=
    fun x hx => hneW x (List.mem_filter.mp hx).1
  cases hl : s.liveEdge t with
  | none =>
    simp only []
    have hnl := liveEdge_none hl
    rw [filterMap_absent h hneE (hi.no_entry hnl _),
      filterMap_absent h hneW' (fun x hx => hi.no_entry hnl _ x (List.mem_filter.mp hx).1)]
    rfl
  | some e0 =>
    simp only []
    obtain ⟨ht, hk0⟩ := liveEdge_some hl
    have hid : e0.task.id = t := hi.owner t e0 ht
    have hrec : h (t, e0) = if sinkGets e0.task i p then some (g e0.task i p) else none := by
      simp [h, rec, hid]
    by_cases hE : (p.db, p.rp, p.name) ∈ e0.task.keys
    · -- served under the exact key; the second loop skips it
      have hmem := hi.reg t e0 ht hk0 _ hE
      rw [filterMap_present h (hi.nodup _) hneE hmem]
      rw [filterMap_absent h hneW' (by
        intro x hx hxt
        have := (List.mem_filter.mp hx).2
        simp only [Bool.not_eq_true', List.any_eq_false, beq_iff_eq] at this
        exact this (t, e0) hmem hxt.symm)]
      have hd : (p.db, p.rp) ∈ e0.task.dbrps := (mem_forkKeys.mp hE).1
      rw [hrec]
      by_cases hg : sinkGets e0.task i p = true <;> simp [hg, hd]
    · have habsE : ∀ x ∈ s.forks (p.db, p.rp, p.name), x.1 ≠ t := by
        intro x hx hxt
        have h1 := hi.entry _ x.1 x.2 hx
        rw [hxt, ht] at h1
        have : e0 = x.2 := Option.some.inj h1.1
        exact hE (this ▸ h1.2)
      rw [filterMap_absent h hneE habsE]
      by_cases hW : (p.db, p.rp, "") ∈ e0.task.keys
      · -- served under the empty-measurement key only
        have hmem := hi.reg t e0 ht hk0 _ hW
        have hmem' : (t, e0) ∈ (s.forks (p.db, p.rp, "")).filter
            (fun x => !(s.forks (p.db, p.rp, p.name)).any (fun y => y.1 == x.1)) := by
          refine List.mem_filter.mpr ⟨hmem, ?_⟩
          simp only [Bool.not_eq_true', List.any_eq_false, beq_iff_eq]
          intro y hy hyt
          exact habsE y hy hyt
        rw [filterMap_present h (keys_nodup_filter _ (hi.nodup _)) hneW' hmem']
        have hd : (p.db, p.rp) ∈ e0.task.dbrps := (mem_forkKeys.mp hW).1
        rw [hrec]
        by_cases hg : sinkGets e0.task i p = true <;> simp [hg, hd]
      · -- not subscribed: no from-node of the task can match a declared point
        have habsW : ∀ x ∈ (s.forks (p.db, p.rp, "")).filter
            (fun x => !(s.forks (p.db, p.rp, p.name)).any (fun y => y.1 == x.1)), x.1 ≠ t := by
          intro x hx hxt
          have h1 := hi.entry _ x.1 x.2 (List.mem_filter.mp hx).1
          rw [hxt, ht] at h1
          have : e0 = x.2 := Option.some.inj h1.1
          exact hW (this ▸ h1.2)
        rw [filterMap_absent h hneW' habsW]
        by_cases hd : (p.db, p.rp) ∈ e0.task.dbrps
        · by_cases hg : sinkGets e0.task i p = true
          · exfalso
            rcases sinkGets_measurement hg with hm | hm
            · exact hE (mem_forkKeys.mpr ⟨hd, hm⟩)
            · exact hW (mem_forkKeys.mpr ⟨hd, hm⟩)
          · simp [hg]
        · simp [hd]

end Kap.C02
