/-
Helper lemmas for C02, part 4: the model simulates the history spec (induction over the operations of a well-formed history).
-/
import Kap.Proofs.C02Route
namespace Kap.C02

/-- Does the sink under from-node #`i` of `t` have to record the raw point, given who is executing? -/
def wants (tasks : String → Option Edge) (t : String) (i : Nat) (db rp : String) (r : RawPoint) : Bool :=
  match tasks t with
  | some e => decide ((db, rp) ∈ e.task.dbrps) && sinkGets e.task i (mkPoint db rp r)
  | none => false

theorem wants_eq_qualifies (tasks : String → Option Edge) (t : String) (i : Nat) (db rp : String) (r : RawPoint) :
    wants tasks t i db rp r = qualifies i { enabled := (tasks t).map (·.task), db := db, rp := rp, pt := r } := by
  unfold wants qualifies
  cases tasks t with
  | none => rfl
  | some e =>
    simp only [Option.map_some, sinkGets, selectedBy_eq_chainGets]

/-- Forking a batch of points: the tables do not move, the sink gets exactly the wanted points, in order. -/
theorem forkBatch {db rp : String} (t : String) (i : Nat) (pts : List RawPoint) :
    ∀ s : TM, Inv s →
      let s' := pts.foldl (fun s r => forkPoint s (mkPoint db rp r)) s
      Inv s' ∧ s'.tasks = s.tasks ∧ s'.defaultRP = s.defaultRP ∧
      s'.delivered t i = s.delivered t i ++ (pts.filter (wants s.tasks t i db rp)).map (·.id) := by
  induction pts with
  | nil => intro s hi; simp [hi]
  | cons r rest ih =>
    intro s hi
    simp only [List.foldl_cons]
    have hi1 : Inv (forkPoint s (mkPoint db rp r)) := hi.forkPoint _
    obtain ⟨h1, h2, h3, h4⟩ := ih _ hi1
    refine ⟨h1, ?_, ?_, ?_⟩
    · rw [h2, forkPoint_eq]; rfl
    · rw [h3, forkPoint_eq]; rfl
    · rw [h4]
      have ht : (forkPoint s (mkPoint db rp r)).tasks = s.tasks := by rw [forkPoint_eq]; rfl
      rw [ht, forkPoint_eq, delivered_withEvents, fork_one hi, List.append_assoc]
      congr 1
      rw [List.filter_cons]
      unfold wants
      cases s.tasks t with
      | none => simp
      | some e =>
        simp only []
        have : (mkPoint db rp r).db = db ∧ (mkPoint db rp r).rp = rp ∧ (mkPoint db rp r).id = r.id := ⟨rfl, rfl, rfl⟩
        rw [this.1, this.2.1, this.2.2]
        by_cases hc : (decide ((db, rp) ∈ e.task.dbrps) && sinkGets e.task i (mkPoint db rp r)) = true
        · simp [hc]
        · simp [hc]

theorem stopTask_tasks_apply (s : TM) (id id' : String) :
    (stopTask s id).tasks id' = if id' = id then none else s.tasks id' := by
  cases h : s.tasks id with
  | none =>
    rw [stopTask_idle h]
    by_cases hid : id' = id
    · simp [hid, h]
    · simp [hid]
  | some e =>
    rw [stopTask_tasks h]
    simp [upd]

/-- A start that fails after `newFork` (and cleans up) = a start followed by a stop, when the id was not executing. -/
theorem startTaskFail_eq {s : TM} {d : TaskDef} (hn : s.tasks d.id = none) :
    startTaskFail s d = stopTask (startTask s d) d.id := by
  by_cases hd : d.dbrps = []
  · rw [startTask_nodbrp hd, stopTask_idle hn]; simp [startTaskFail, hd]
  · have hde : d.dbrps.isEmpty = false := by simpa using hd
    have hfun : upd (upd s.tasks d.id (some (⟨s.nextEdge, d⟩ : Edge))) d.id none = s.tasks := by
      funext x
      by_cases hx : x = d.id
      · simp [upd, hx, hn]
      · simp [upd, hx]
    simp [startTaskFail, startTask, stopTask, hde, hn, newFork, upd, delFork]
    simpa [upd] using hfun.symm

theorem startTaskFail_executing {s : TM} {d : TaskDef} (h : (s.tasks d.id).isSome = true) : startTaskFail s d = s := by
  unfold startTaskFail
  by_cases hd : d.dbrps.isEmpty = true <;> simp [hd, h]

theorem startTaskFail_tasks (s : TM) (d : TaskDef) : (startTaskFail s d).tasks = s.tasks := by
  unfold startTaskFail
  by_cases h : d.dbrps.isEmpty = true <;> by_cases h2 : (s.tasks d.id).isSome = true <;> simp [h, h2, newFork, delFork]

theorem startTaskFail_log (s : TM) (d : TaskDef) : (startTaskFail s d).log = s.log := by
  unfold startTaskFail
  by_cases h : d.dbrps.isEmpty = true <;> by_cases h2 : (s.tasks d.id).isSome = true <;> simp [h, h2, newFork, delFork]

theorem startTaskFail_defaultRP (s : TM) (d : TaskDef) : (startTaskFail s d).defaultRP = s.defaultRP := by
  unfold startTaskFail
  by_cases h : d.dbrps.isEmpty = true <;> by_cases h2 : (s.tasks d.id).isSome = true <;> simp [h, h2, newFork, delFork]

theorem Inv.startTaskFail {s : TM} (hi : Inv s) (d : TaskDef) : Inv (Kap.C02.startTaskFail s d) := by
  cases hx : s.tasks d.id with
  | none => rw [startTaskFail_eq hx]; exact (hi.startTask hx).stopTask d.id
  | some e => rw [startTaskFail_executing (by simp [hx])]; exact hi

/-- `startTask` keeps the invariant from ANY state (an executing id is refused). -/
theorem Inv.startTask' {s : TM} (hi : Inv s) (d : TaskDef) : Inv (Kap.C02.startTask s d) := by
  cases hx : s.tasks d.id with
  | none => exact hi.startTask hx
  | some e => rw [startTask_executing (by simp [hx])]; exact hi

theorem Inv.step {s : TM} (hi : Inv s) (op : Op) : Inv (Kap.C02.step s op) := by
  cases op with
  | start d => exact hi.startTask' d
  | startfail d => exact hi.startTaskFail d
  | stop id => exact hi.stopTask id
  | delete id => exact hi.stopTask id
  | write db rp pts =>
    exact (forkBatch (db := db) (rp := if (rp == "") = true then s.defaultRP else rp) "" 0 pts s hi).1

/-- **Simulation.** From any state satisfying the invariant, running ANY continuation appends to the sink under from-node #`i` of
task `t` exactly what the history spec prescribes. -/
theorem sim (drp t : String) (i : Nat) (ops : List Op) :
    ∀ (s : TM), Inv s → s.defaultRP = drp →
      (ops.foldl step s).delivered t i =
        s.delivered t i ++ ((writeEvents drp t ((s.tasks t).map (·.task)) ops).filter (qualifies i)).map (·.pt.id) := by
  induction ops with
  | nil => intro s _ _; simp [writeEvents]
  | cons op rest ih =>
    intro s hi hrp
    rw [List.foldl_cons]
    have hi' := hi.step op
    cases op with
    | start d =>
      simp only [step, stepWith] at hi' ⊢
      rw [ih _ hi' ((startTask_defaultRP s d).trans hrp)]
      have hdel : (startTask s d).delivered t i = s.delivered t i := by
        simp [delivered_eq, startTask_log]
      rw [hdel]
      congr 3
      simp only [writeEvents, enabledAfter]
      by_cases hd : d.dbrps = []
      · rw [startTask_nodbrp hd]; simp [hd]
      · cases hx : s.tasks d.id with
        | some e =>
          rw [startTask_executing (by simp [hx])]
          by_cases hid : d.id = t
          · subst hid; simp [hx]
          · simp [hid]
        | none =>
          rw [startTask_tasks hd hx]
          by_cases hid : d.id = t
          · subst hid; simp [upd, hd, hx]
          · have : ¬ t = d.id := fun h => hid h.symm
            simp [upd, hid, this]
    | startfail d =>
      simp only [step, stepWith] at hi' ⊢
      rw [ih _ hi' ((startTaskFail_defaultRP s d).trans hrp)]
      have hdel : (startTaskFail s d).delivered t i = s.delivered t i := by
        simp [delivered_eq, startTaskFail_log]
      rw [hdel, startTaskFail_tasks]
      simp only [writeEvents, enabledAfter]
    | stop id =>
      simp only [step, stepWith] at hi' ⊢
      rw [ih _ hi' ((stopTask_defaultRP s id).trans hrp)]
      have hdel : (stopTask s id).delivered t i = s.delivered t i := by
        simp [delivered_eq, stopTask_log]
      rw [hdel, stopTask_tasks_apply]
      simp only [writeEvents, enabledAfter]
      by_cases hid : id = t
      · subst hid; simp
      · have : ¬ t = id := fun h => hid h.symm
        simp [hid, this]
    | delete id =>
      simp only [step, stepWith] at hi' ⊢
      rw [ih _ hi' ((stopTask_defaultRP s id).trans hrp)]
      have hdel : (stopTask s id).delivered t i = s.delivered t i := by
        simp [delivered_eq, stopTask_log]
      rw [hdel, stopTask_tasks_apply]
      simp only [writeEvents, enabledAfter]
      by_cases hid : id = t
      · subst hid; simp
      · have : ¬ t = id := fun h => hid h.symm
        simp [hid, this]
    | write db rp pts =>
      simp only [step, stepWith, writePointsWith] at hi' ⊢
      obtain ⟨h1, h2, h3, h4⟩ := forkBatch (db := db) (rp := if (rp == "") = true then s.defaultRP else rp) t i pts s hi
      rw [ih _ h1 (h3.trans hrp), h4, h2, List.append_assoc]
      congr 1
      simp only [writeEvents, List.filter_append, List.map_append]
      congr 1
      rw [List.filter_map, List.map_map]
      have hrp' : (if (rp == "") = true then s.defaultRP else rp) = writtenRP drp rp := by
        unfold writtenRP; rw [hrp]; by_cases h : rp = "" <;> simp [h]
      rw [hrp']
      have hf : (qualifies i ∘ fun p => ({ enabled := Option.map (·.task) (s.tasks t), db := db, rp := writtenRP drp rp, pt := p } : WEv))
          = wants s.tasks t i db (writtenRP drp rp) := by
        funext r
        simp only [Function.comp, wants_eq_qualifies]
      rw [hf]
      apply List.map_congr_left
      intro r _
      rfl

/-- Every reachable state satisfies the table invariant. -/
theorem inv_fold (ops : List Op) : ∀ (s : TM), Inv s → Inv (ops.foldl step s) := by
  induction ops with
  | nil => intro s hi; exact hi
  | cons op rest ih => intro s hi; exact ih _ (hi.step op)

/-- The model refines the history spec (used by `Kap.Props.C02.route_refines_spec`). -/
theorem run_delivered_eq_spec (drp : String) (ops : List Op) (t : String) (i : Nat) :
    (run drp ops).delivered t i = specDelivered drp t i ops := by
  have := sim drp t i ops (init drp) (Inv.init drp) rfl
  simpa [run, specDelivered, init, TM.delivered] using this

theorem run_inv (drp : String) (ops : List Op) : Inv (run drp ops) :=
  inv_fold ops (init drp) (Inv.init drp)

/-! ### facts about the spec alone -/

/-- The spec of task `t` does not look at other tasks' operations. -/
theorem writeEvents_filter_relevant (drp t : String) (ops : List Op) :
    ∀ cur, writeEvents drp t cur (ops.filter (relevant t)) = writeEvents drp t cur ops := by
  induction ops with
  | nil => intro cur; rfl
  | cons op rest ih =>
    intro cur
    cases op with
    | start d =>
      by_cases h : d.id = t
      · simp [relevant, h, writeEvents, ih]
      · simp [relevant, h, writeEvents, enabledAfter, ih]
    | startfail d =>
      by_cases h : d.id = t
      · simp [relevant, h, writeEvents, enabledAfter, ih]
      · simp [relevant, h, writeEvents, enabledAfter, ih]
    | stop id =>
      by_cases h : id = t
      · simp [relevant, h, writeEvents, ih]
      · simp [relevant, h, writeEvents, enabledAfter, ih]
    | delete id =>
      by_cases h : id = t
      · simp [relevant, h, writeEvents, ih]
      · simp [relevant, h, writeEvents, enabledAfter, ih]
    | write db rp pts =>
      simp [List.filter_cons, relevant, writeEvents, ih]

/-- The write events of a history are its written points, in write order. -/
theorem writeEvents_ids (drp t : String) (ops : List Op) :
    ∀ cur, (writeEvents drp t cur ops).map (·.pt.id) = writtenIds ops := by
  induction ops with
  | nil => intro cur; rfl
  | cons op rest ih =>
    intro cur
    cases op with
    | start d => simp [writeEvents, writtenIds, ih]
    | startfail d => simp [writeEvents, writtenIds, ih]
    | stop id => simp [writeEvents, writtenIds, ih]
    | delete id => simp [writeEvents, writtenIds, ih]
    | write db rp pts => simp [writeEvents, writtenIds, ih, List.map_map, Function.comp_def]

/-- One `WritePoints` call with the points `a ++ b` is, for the spec, two calls with `a` and with `b`. -/
theorem writeEvents_write_append (drp t : String) (cur : Option TaskDef) (db rp : String) (a b : List RawPoint) (rest : List Op) :
    writeEvents drp t cur (.write db rp (a ++ b) :: rest) = writeEvents drp t cur (.write db rp a :: .write db rp b :: rest) := by
  simp [writeEvents, List.map_append, List.append_assoc]

theorem writeEvents_append (drp t : String) (xs ys : List Op) :
    ∀ cur, ∃ cur', writeEvents drp t cur (xs ++ ys) = writeEvents drp t cur xs ++ writeEvents drp t cur' ys := by
  induction xs with
  | nil => intro cur; exact ⟨cur, by simp [writeEvents]⟩
  | cons op rest ih =>
    intro cur
    cases op with
    | start d => obtain ⟨c, h⟩ := ih (enabledAfter t cur (.start d)); exact ⟨c, by simp [writeEvents, h]⟩
    | startfail d => obtain ⟨c, h⟩ := ih (enabledAfter t cur (.startfail d)); exact ⟨c, by simp [writeEvents, h]⟩
    | stop id => obtain ⟨c, h⟩ := ih (enabledAfter t cur (.stop id)); exact ⟨c, by simp [writeEvents, h]⟩
    | delete id => obtain ⟨c, h⟩ := ih (enabledAfter t cur (.delete id)); exact ⟨c, by simp [writeEvents, h]⟩
    | write db rp pts => obtain ⟨c, h⟩ := ih cur; exact ⟨c, by simp [writeEvents, h, List.append_assoc]⟩

end Kap.C02
