/-
Helper lemmas for C02, part 4: the model simulates the history spec (induction over the operations of a well-formed history).
-/
import Kap.Proofs.C02Route
namespace Kap.C02

/-- Does the sink under from-node #`i` of `t` have to record the raw point, given who is live? -/
def wants (live : Option Edge) (i : Nat) (db rp : String) (r : RawPoint) : Bool :=
  match live with
  | some e => decide ((db, rp) ∈ e.task.dbrps) && sinkGets e.task i (mkPoint db rp r)
  | none => false

theorem wants_eq_qualifies (live : Option Edge) (i : Nat) (db rp : String) (r : RawPoint) :
    wants live i db rp r = qualifies i { enabled := live.map (·.task), db := db, rp := rp, pt := r } := by
  unfold wants qualifies
  cases live with
  | none => rfl
  | some e =>
    simp only [Option.map_some, sinkGets, selectedBy_eq_chainGets]

theorem forkPoint_liveEdge (s : TM) (p : Point) (t : String) : (forkPoint s p).liveEdge t = s.liveEdge t := by
  rw [forkPoint_eq]; rfl

/-- Forking a batch of points: the tables do not move, the sink gets exactly the wanted points, in order. -/
theorem forkBatch {β : Type} (g : TaskDef → Nat → Point → β) {db rp : String} (t : String) (i : Nat) (pts : List RawPoint) :
    ∀ s : TM, Inv s →
      let s' := pts.foldl (fun s r => forkPoint s (mkPoint db rp r)) s
      Inv s' ∧ s'.liveEdge t = s.liveEdge t ∧ s'.defaultRP = s.defaultRP ∧
      s'.deliveredWith g t i = s.deliveredWith g t i ++
        (pts.filter (wants (s.liveEdge t) i db rp)).filterMap
          (fun r => (s.liveEdge t).map (fun e => g e.task i (mkPoint db rp r))) := by
  induction pts with
  | nil => intro s hi; simp [hi]
  | cons r rest ih =>
    intro s hi
    simp only [List.foldl_cons]
    have hi1 : Inv (forkPoint s (mkPoint db rp r)) := hi.forkPoint _
    obtain ⟨h1, h2, h3, h4⟩ := ih _ hi1
    refine ⟨h1, ?_, ?_, ?_⟩
    · rw [h2, forkPoint_liveEdge]
    · rw [h3, forkPoint_eq]; rfl
    · rw [h4, forkPoint_liveEdge, forkPoint_eq, delivered_withEvents, fork_one g hi, List.append_assoc]
      congr 1
      rw [List.filter_cons]
      unfold wants
      cases s.liveEdge t with
      | none => simp
      | some e =>
        simp only []
        have : (mkPoint db rp r).db = db ∧ (mkPoint db rp r).rp = rp := ⟨rfl, rfl⟩
        rw [this.1, this.2]
        by_cases hc : (decide ((db, rp) ∈ e.task.dbrps) && sinkGets e.task i (mkPoint db rp r)) = true
        · simp [hc]
        · simp [hc]

theorem stopTask_tasks_apply (s : TM) (id id' : String) :
    (stopTask s id).tasks id' = if id' = id then none else s.tasks id' := by
  cases h : s.tasks id with
  | none =>
    rw [stopTask_idle h]
    by_cases hid : id' = id
    · simp [hid, h]
    · simp [hid]
  | some e =>
    rw [stopTask_tasks h]
    simp [upd]

theorem stopTask_keysOf_apply (s : TM) (id id' : String) (hne : id' ≠ id) :
    (stopTask s id).forkKeysOf id' = s.forkKeysOf id' := by
  cases h : s.tasks id with
  | none => rw [stopTask_idle h]
  | some e => rw [stopTask_keysOf h]; simp [upd, hne]

theorem stopTask_liveEdge (s : TM) (id t : String) :
    (stopTask s id).liveEdge t = if t = id then none else s.liveEdge t := by
  unfold TM.liveEdge TM.isLive
  by_cases hid : t = id
  · subst hid; simp [stopTask_tasks_apply]
  · simp [hid, stopTask_tasks_apply, stopTask_keysOf_apply s id t hid]

/-- A start that fails after `newFork` (and cleans up) changes nothing but the edge counter and the closed edges. -/
theorem startTaskFail_executing {s : TM} {d : TaskDef} (h : s.isLive d.id = true) : startTaskFail s d = s := by
  unfold startTaskFail
  by_cases hd : d.dbrps.isEmpty = true <;> simp [hd, h]

theorem startTaskFail_tasks (s : TM) (d : TaskDef) : (startTaskFail s d).tasks = s.tasks := by
  unfold startTaskFail
  by_cases h : d.dbrps.isEmpty = true <;> by_cases h2 : s.isLive d.id = true <;> simp [h, h2, newFork, delFork]

theorem startTaskFail_log (s : TM) (d : TaskDef) : (startTaskFail s d).log = s.log := by
  unfold startTaskFail
  by_cases h : d.dbrps.isEmpty = true <;> by_cases h2 : s.isLive d.id = true <;> simp [h, h2, newFork, delFork]

theorem startTaskFail_defaultRP (s : TM) (d : TaskDef) : (startTaskFail s d).defaultRP = s.defaultRP := by
  unfold startTaskFail
  by_cases h : d.dbrps.isEmpty = true <;> by_cases h2 : s.isLive d.id = true <;> simp [h, h2, newFork, delFork]

/-- `newFork` alone (registered, `tm.tasks` not yet set) as a state of its own: what `startTaskFail` cleans up. It equals the
successful start except for `tasks`. -/
theorem startTaskFail_eq {s : TM} {d : TaskDef} (hd : d.dbrps ≠ []) (hn : s.isLive d.id = false) :
    startTaskFail s d = { delFork (startTask s d) d.id with tasks := s.tasks } := by
  have hde : d.dbrps.isEmpty = false := by simpa using hd
  simp [startTaskFail, startTask, hde, hn, newFork, delFork]

theorem Inv.startTaskFail {s : TM} (hi : Inv s) (d : TaskDef) : Inv (Kap.C02.startTaskFail s d) := by
  by_cases hd : d.dbrps = []
  · have : Kap.C02.startTaskFail s d = s := by simp [Kap.C02.startTaskFail, hd]
    rw [this]; exact hi
  cases hl : s.isLive d.id with
  | true => rw [startTaskFail_executing hl]; exact hi
  | false =>
    -- the state after start + delFork satisfies the invariant; putting the old `tasks` back keeps it: no entry of `d.id` is left
    have h1 : Inv (Kap.C02.delFork (Kap.C02.startTask s d) d.id) := (hi.startTask hl).delFork d.id
    have hne : ∀ k, ∀ x ∈ (Kap.C02.delFork (Kap.C02.startTask s d) d.id).forks k, x.1 ≠ d.id :=
      fun k x hx => ((mem_delFork_forks (hi.startTask hl) d.id).mp hx).2
    have hkeys : ∀ id, (Kap.C02.delFork (Kap.C02.startTask s d) d.id).forkKeysOf id = if id = d.id then [] else s.forkKeysOf id := by
      intro id
      rw [delFork_keysOf]
      by_cases hid : id = d.id
      · simp [upd, hid]
      · simp [upd, hid, startTask_keysOf hd hl]
    have htasks : ∀ id, id ≠ d.id → (Kap.C02.delFork (Kap.C02.startTask s d) d.id).tasks id = s.tasks id := by
      intro id hid
      rw [delFork_tasks, startTask_tasks hd hl]; simp [upd, hid]
    rw [startTaskFail_eq hd hl]
    constructor
    · intro k id e hm
      have hid : id ≠ d.id := hne k _ hm
      have := h1.entry k id e hm
      rw [htasks id hid] at this
      exact this
    · intro id e ht; exact hi.owner id e ht
    · intro id e ht hk0 k hk
      have hk0' : (Kap.C02.delFork (Kap.C02.startTask s d) d.id).forkKeysOf id ≠ [] := hk0
      rw [hkeys] at hk0'
      by_cases hid : id = d.id
      · simp [hid] at hk0'
      · exact h1.reg id e (by rw [htasks id hid]; exact ht) hk0 k hk
    · exact h1.nodup
    · exact h1.listed
    · exact h1.dom
    · intro id hk0
      have hk0' : (Kap.C02.delFork (Kap.C02.startTask s d) d.id).forkKeysOf id ≠ [] := hk0
      rw [hkeys] at hk0'
      by_cases hid : id = d.id
      · simp [hid] at hk0'
      · simp only [hid, if_false] at hk0'
        exact hi.keysTask id hk0'

/-- `startTask` keeps the invariant from ANY state (a live id is refused). -/
theorem Inv.startTask' {s : TM} (hi : Inv s) (d : TaskDef) : Inv (Kap.C02.startTask s d) := by
  cases hl : s.isLive d.id with
  | false => exact hi.startTask hl
  | true => rw [startTask_executing hl]; exact hi

theorem Inv.step {s : TM} (hi : Inv s) (op : Op) : Inv (Kap.C02.step s op) := by
  cases op with
  | start d => exact hi.startTask' d
  | startfail d => exact hi.startTaskFail d
  | stop id => exact hi.stopTask id
  | delete id => exact hi.stopTask id
  | drain => exact hi.drain
  | write db rp pts =>
    exact (forkBatch (fun _ _ p => p.id) (db := db) (rp := if (rp == "") = true then s.defaultRP else rp) "" 0 pts s hi).1

theorem startTaskFail_liveEdge {s : TM} (hi : Inv s) (d : TaskDef) (t : String) :
    (startTaskFail s d).liveEdge t = s.liveEdge t := by
  by_cases hd : d.dbrps = []
  · have : startTaskFail s d = s := by simp [startTaskFail, hd]
    rw [this]
  cases hl : s.isLive d.id with
  | true => rw [startTaskFail_executing hl]
  | false =>
    unfold TM.liveEdge TM.isLive
    rw [startTaskFail_tasks]
    have hk : (startTaskFail s d).forkKeysOf t = if t = d.id then [] else s.forkKeysOf t := by
      rw [startTaskFail_eq hd hl]
      show (delFork (startTask s d) d.id).forkKeysOf t = _
      rw [delFork_keysOf]
      by_cases hid : t = d.id
      · simp [upd, hid]
      · simp [upd, hid, startTask_keysOf hd hl]
    rw [hk]
    by_cases hid : t = d.id
    · subst hid
      simp [hi.notLive_keys hl]
    · simp [hid]

/-- How the spec sees the point of a write event through `g`: under the definition the task is enabled with. -/
def seenAs {β : Type} (g : TaskDef → Nat → Point → β) (i : Nat) (w : WEv) : Option β :=
  w.enabled.map (fun d => g d i (mkPoint w.db w.rp w.pt))

theorem qualifies_enabled {i : Nat} {w : WEv} (h : qualifies i w = true) : ∃ d, w.enabled = some d := by
  unfold qualifies at h
  cases he : w.enabled with
  | none => simp [he] at h
  | some d => exact ⟨d, rfl⟩

/-- **Simulation.** From any state satisfying the invariant, running ANY continuation appends to the sink under from-node #`i` of
task `t` exactly what the history spec prescribes. -/
theorem sim {β : Type} (g : TaskDef → Nat → Point → β) (drp t : String) (i : Nat) (ops : List Op) :
    ∀ (s : TM), Inv s → s.defaultRP = drp →
      (ops.foldl step s).deliveredWith g t i =
        s.deliveredWith g t i ++ ((writeEvents drp t ((s.liveEdge t).map (·.task)) ops).filter (qualifies i)).filterMap
          (seenAs g i) := by
  induction ops with
  | nil => intro s _ _; simp [writeEvents]
  | cons op rest ih =>
    intro s hi hrp
    rw [List.foldl_cons]
    have hi' := hi.step op
    cases op with
    | start d =>
      simp only [step, stepWith] at hi' ⊢
      rw [ih _ hi' ((startTask_defaultRP s d).trans hrp)]
      have hdel : (startTask s d).deliveredWith g t i = s.deliveredWith g t i := by
        simp [delivered_eq g, startTask_log]
      rw [hdel]
      congr 3
      simp only [writeEvents, enabledAfter]
      by_cases hd : d.dbrps = []
      · rw [startTask_nodbrp hd]; simp [hd]
      · cases hl : s.isLive d.id with
        | true =>
          rw [startTask_executing hl]
          by_cases hid : d.id = t
          · subst hid
            have hsome : s.tasks d.id ≠ none := by
              intro h; simp [TM.isLive, h] at hl
            simp [TM.liveEdge, hl, hsome]
          · simp [hid]
        | false =>
          have hle : (startTask s d).liveEdge t =
              if t = d.id then (if d.keys = [] then none else some ⟨s.nextEdge, d⟩) else s.liveEdge t := by
            unfold TM.liveEdge TM.isLive
            rw [startTask_tasks hd hl, startTask_keysOf hd hl]
            by_cases hid : t = d.id
            · subst hid
              have hk0 : s.forkKeysOf d.id = [] := hi.notLive_keys hl
              by_cases hk : d.keys = [] <;> simp [upd, hk0, hk]
            · simp [upd, hid]
          rw [hle]
          by_cases hid : d.id = t
          · subst hid
            have hcur : s.liveEdge d.id = none := by simp [TM.liveEdge, hl]
            have hkeys : d.keys = [] ↔ d.froms = [] := by
              unfold TaskDef.keys forkKeys TaskDef.measurements
              cases hdd : d.dbrps with
              | nil => exact absurd hdd hd
              | cons x xs => cases hf : d.froms <;> simp
            by_cases hf : d.froms = []
            · simp [hcur, hd, hf, hkeys.mpr hf]
            · have : ¬ d.keys = [] := fun h => hf (hkeys.mp h)
              simp [hcur, hd, hf, this]
          · have : ¬ t = d.id := fun h => hid h.symm
            simp [hid, this]
    | startfail d =>
      simp only [step, stepWith] at hi' ⊢
      rw [ih _ hi' ((startTaskFail_defaultRP s d).trans hrp)]
      have hdel : (startTaskFail s d).deliveredWith g t i = s.deliveredWith g t i := by
        simp [delivered_eq g, startTaskFail_log]
      rw [hdel, startTaskFail_liveEdge hi]
      simp only [writeEvents, enabledAfter]
    | stop id =>
      simp only [step, stepWith] at hi' ⊢
      rw [ih _ hi' ((stopTask_defaultRP s id).trans hrp)]
      have hdel : (stopTask s id).deliveredWith g t i = s.deliveredWith g t i := by
        simp [delivered_eq g, stopTask_log]
      rw [hdel, stopTask_liveEdge]
      simp only [writeEvents, enabledAfter]
      by_cases hid : id = t
      · subst hid; simp
      · have : ¬ t = id := fun h => hid h.symm
        simp [hid, this]
    | delete id =>
      simp only [step, stepWith] at hi' ⊢
      rw [ih _ hi' ((stopTask_defaultRP s id).trans hrp)]
      have hdel : (stopTask s id).deliveredWith g t i = s.deliveredWith g t i := by
        simp [delivered_eq g, stopTask_log]
      rw [hdel, stopTask_liveEdge]
      simp only [writeEvents, enabledAfter]
      by_cases hid : id = t
      · subst hid; simp
      · have : ¬ t = id := fun h => hid h.symm
        simp [hid, this]
    | drain =>
      simp only [step, stepWith] at hi' ⊢
      have hf := foldl_delFork_fields s.everForked s
      rw [ih _ hi' (hf.2.2.1.trans hrp)]
      have hdel : (drain s).deliveredWith g t i = s.deliveredWith g t i := by
        simp [delivered_eq g, drain, hf.2.1]
      have hle : (drain s).liveEdge t = none := by
        simp [TM.liveEdge, TM.isLive, drain_keysOf hi]
      rw [hdel, hle]
      simp only [writeEvents, enabledAfter, Option.map_none]
    | write db rp pts =>
      simp only [step, stepWith, writePointsWith] at hi' ⊢
      obtain ⟨h1, h2, h3, h4⟩ := forkBatch g (db := db) (rp := if (rp == "") = true then s.defaultRP else rp) t i pts s hi
      rw [ih _ h1 (h3.trans hrp), h4, h2, List.append_assoc]
      congr 1
      simp only [writeEvents, List.filter_append, List.filterMap_append]
      congr 1
      rw [List.filter_map, List.filterMap_map]
      have hrp' : (if (rp == "") = true then s.defaultRP else rp) = writtenRP drp rp := by
        unfold writtenRP; rw [hrp]; by_cases h : rp = "" <;> simp [h]
      rw [hrp']
      have hf : (qualifies i ∘ fun p => ({ enabled := Option.map (·.task) (s.liveEdge t), db := db, rp := writtenRP drp rp, pt := p } : WEv))
          = wants (s.liveEdge t) i db (writtenRP drp rp) := by
        funext r
        simp only [Function.comp, wants_eq_qualifies]
      rw [hf]
      congr 1
      funext r
      simp only [Function.comp, seenAs, Option.map_map]
      rfl

/-- Every reachable state satisfies the table invariant. -/
theorem inv_fold (ops : List Op) : ∀ (s : TM), Inv s → Inv (ops.foldl step s) := by
  induction ops with
  | nil => intro s hi; exact hi
  | cons op rest ih => intro s hi; exact ih _ (hi.step op)

/-- The model refines the history spec, whatever is looked at of the recorded points. -/
theorem run_deliveredWith_eq_spec {β : Type} (g : TaskDef → Nat → Point → β) (drp : String) (ops : List Op) (t : String) (i : Nat) :
    (run drp ops).deliveredWith g t i = ((writeEvents drp t none ops).filter (qualifies i)).filterMap (seenAs g i) := by
  have := sim g drp t i ops (init drp) (Inv.init drp) rfl
  simpa [run, init, TM.deliveredWith, TM.liveEdge, TM.isLive] using this

/-- The model refines the history spec (used by `Kap.Props.C02.route_refines_spec`). -/
theorem run_delivered_eq_spec (drp : String) (ops : List Op) (t : String) (i : Nat) :
    (run drp ops).delivered t i = specDelivered drp t i ops := by
  unfold TM.delivered specDelivered
  rw [run_deliveredWith_eq_spec]
  generalize (writeEvents drp t none ops) = l
  induction l with
  | nil => rfl
  | cons w rest ih =>
    rw [List.filter_cons]
    by_cases hq : qualifies i w = true
    · obtain ⟨d, hd⟩ := qualifies_enabled hq
      simp [hq, seenAs, hd, mkPoint, ih]
    · simp [hq, ih]

theorem run_inv (drp : String) (ops : List Op) : Inv (run drp ops) :=
  inv_fold ops (init drp) (Inv.init drp)

/-! ### facts about the spec alone -/

/-- The spec of task `t` does not look at other tasks' operations. -/
theorem writeEvents_filter_relevant (drp t : String) (ops : List Op) :
    ∀ cur, writeEvents drp t cur (ops.filter (relevant t)) = writeEvents drp t cur ops := by
  induction ops with
  | nil => intro cur; rfl
  | cons op rest ih =>
    intro cur
    cases op with
    | start d =>
      by_cases h : d.id = t
      · simp [relevant, h, writeEvents, ih]
      · simp [relevant, h, writeEvents, enabledAfter, ih]
    | startfail d =>
      by_cases h : d.id = t
      · simp [relevant, h, writeEvents, enabledAfter, ih]
      · simp [relevant, h, writeEvents, enabledAfter, ih]
    | stop id =>
      by_cases h : id = t
      · simp [relevant, h, writeEvents, ih]
      · simp [relevant, h, writeEvents, enabledAfter, ih]
    | delete id =>
      by_cases h : id = t
      · simp [relevant, h, writeEvents, ih]
      · simp [relevant, h, writeEvents, enabledAfter, ih]
    | drain => simp [List.filter_cons, relevant, writeEvents, ih]
    | write db rp pts =>
      simp [List.filter_cons, relevant, writeEvents, ih]

/-- The write events of a history are its written points, in write order. -/
theorem writeEvents_ids (drp t : String) (ops : List Op) :
    ∀ cur, (writeEvents drp t cur ops).map (·.pt.id) = writtenIds ops := by
  induction ops with
  | nil => intro cur; rfl
  | cons op rest ih =>
    intro cur
    cases op with
    | start d => simp [writeEvents, writtenIds, ih]
    | startfail d => simp [writeEvents, writtenIds, ih]
    | stop id => simp [writeEvents, writtenIds, ih]
    | delete id => simp [writeEvents, writtenIds, ih]
    | drain => simp [writeEvents, writtenIds, ih]
    | write db rp pts => simp [writeEvents, writtenIds, ih, List.map_map, Function.comp_def]

/-- One `WritePoints` call with the points `a ++ b` is, for the spec, two calls with `a` and with `b`. -/
theorem writeEvents_write_append (drp t : String) (cur : Option TaskDef) (db rp : String) (a b : List RawPoint) (rest : List Op) :
    writeEvents drp t cur (.write db rp (a ++ b) :: rest) = writeEvents drp t cur (.write db rp a :: .write db rp b :: rest) := by
  simp [writeEvents, List.map_append, List.append_assoc]

theorem writeEvents_append (drp t : String) (xs ys : List Op) :
    ∀ cur, ∃ cur', writeEvents drp t cur (xs ++ ys) = writeEvents drp t cur xs ++ writeEvents drp t cur' ys := by
  induction xs with
  | nil => intro cur; exact ⟨cur, by simp [writeEvents]⟩
  | cons op rest ih =>
    intro cur
    cases op with
    | start d => obtain ⟨c, h⟩ := ih (enabledAfter t cur (.start d)); exact ⟨c, by simp [writeEvents, h]⟩
    | startfail d => obtain ⟨c, h⟩ := ih (enabledAfter t cur (.startfail d)); exact ⟨c, by simp [writeEvents, h]⟩
    | stop id => obtain ⟨c, h⟩ := ih (enabledAfter t cur (.stop id)); exact ⟨c, by simp [writeEvents, h]⟩
    | delete id => obtain ⟨c, h⟩ := ih (enabledAfter t cur (.delete id)); exact ⟨c, by simp [writeEvents, h]⟩
    | drain => obtain ⟨c, h⟩ := ih (enabledAfter t cur .drain); exact ⟨c, by simp [writeEvents, h]⟩
    | write db rp pts => obtain ⟨c, h⟩ := ih cur; exact ⟨c, by simp [writeEvents, h, List.append_assoc]⟩

end Kap.C02
