/-
Helper lemmas for C02, part 9: the UDP listener (`Kap/Model/C02Udp.lean`): the invariant "a queued packet lives at a private
address the receive buffer never reaches" and what every step does to `calls ++ pending`.
-/
import Kap.Model.C02Udp
import Kap.Spec.C02Udp
import Kap.Proofs.C02Http
namespace Kap.C02.Udp
open Kap.C02

theorem filterMap_congr' {α β : Type} {f g : α → Option β} : ∀ {l : List α}, (∀ a ∈ l, f a = g a) → l.filterMap f = l.filterMap g
  | [], _ => rfl
  | a :: l, h => by
    have ha := h a (List.mem_cons_self ..)
    have hl := filterMap_congr' (l := l) (fun x hx => h x (List.mem_cons_of_mem _ hx))
    simp only [List.filterMap_cons, ha, hl]

theorem precisionMult_n : precisionMult "n" = 1 := by decide

theorem parse_any_fails (dg : Datagram) : (dg.filterMap (parseLine "n")).any (·.isNone) = dg.any lineFails := by
  induction dg with
  | nil => rfl
  | cons l rest ih =>
    cases l with
    | skip => simpa [parseLine, lineFails] using ih
    | bad => simp [parseLine, lineFails]
    | point r ts =>
      simp only [List.filterMap_cons, parseLine, List.any_cons, lineFails, ih]
      congr 1
      unfold safeCalcTime
      simp only [precisionMult_n, Int.mul_one]
      split <;> simp_all

theorem lineAsWritten_n (l : Line) : lineAsWritten "n" l = linePoint l := by
  cases l <;> simp [lineAsWritten, linePoint, precisionMult_n]

/-- the library's parse of a datagram is the documented reading of it -/
theorem writeOf_eq_docPacket (dg : Datagram) : writeOf dg = docPacket dg := by
  unfold writeOf docPacket
  simp only [parse_any_fails]
  by_cases h : dg.any lineFails = true
  · simp [h]
  · have h' : (dg.filterMap (parseLine "n")).any (·.isNone) = false := by
      rw [parse_any_fails]; simpa using h
    have hf : lineAsWritten "n" = linePoint := funext lineAsWritten_n
    simp [h, parsed_all_good "n" dg h', hf]

theorem pointsOf_of_writeOf {dg : Datagram} {pts : List RawPoint} (h : writeOf dg = some pts) : pointsOf dg = pts := by
  unfold writeOf at h
  simp only [] at h
  split at h
  · cases h
  · exact Option.some.inj h

/-- the `WritePoints` calls still to come from what is parsed / queued (a queued packet that does not parse contributes none) -/
def pending (s : Svc) : List (List RawPoint) := (s.cur.toList ++ s.packets).filterMap (fun a => writeOf (s.mem a))

/-- queued packets that will be counted by points_parse_fail -/
def pendingBad (s : Svc) : Nat := (s.packets.filter (fun a => (writeOf (s.mem a)).isNone)).length

structure Inv (s : Svc) : Prop where
  pos : 0 < s.next
  addr : ∀ a ∈ s.cur.toList ++ s.packets, 0 < a ∧ a < s.next
  curOK : ∀ a, s.cur = some a → ∃ pts, writeOf (s.mem a) = some pts

theorem inv_init : Inv ({} : Svc) := ⟨by decide, by simp, by simp⟩

def emits : Step → List (List RawPoint)
  | .recv dg => (writeOf dg).toList
  | _ => []

def emitsBad : Step → Nat
  | .recv dg => if (writeOf dg).isNone then 1 else 0
  | _ => 0

theorem step_copy (s : Svc) (h : Inv s) (st : Step) :
    Inv (step .copy s st) ∧
    (step .copy s st).calls ++ pending (step .copy s st) = s.calls ++ pending s ++ emits st ∧
    (step .copy s st).parseFail + pendingBad (step .copy s st) = s.parseFail + pendingBad s + emitsBad st := by
  cases st with
  | recv dg =>
    have hpos := h.pos
    have hmem : ∀ a ∈ s.cur.toList ++ s.packets, upd (upd s.mem 0 dg) s.next dg a = s.mem a := by
      intro a ha
      have := h.addr a ha
      unfold upd
      rw [if_neg (by omega), if_neg (by omega)]
    have hnext : upd (upd s.mem 0 dg) s.next dg s.next = dg := by simp [upd]
    refine ⟨⟨?_, ?_, ?_⟩, ?_, ?_⟩
    · simp only [step]; omega
    · intro a ha
      simp only [step, List.mem_append, List.mem_singleton] at ha
      rcases ha with ha | ha | ha
      · have := h.addr a (List.mem_append_left _ ha); simp only [step]; omega
      · have := h.addr a (List.mem_append_right _ ha); simp only [step]; omega
      · simp only [step]; omega
    · intro a ha
      simp only [step] at ha ⊢
      have hin : a ∈ s.cur.toList ++ s.packets := List.mem_append_left _ (by simp [ha])
      rw [hmem a hin]
      exact h.curOK a ha
    · simp only [step, pending, emits]
      rw [← List.append_assoc s.cur.toList, List.filterMap_append]
      have : (s.cur.toList ++ s.packets).filterMap (fun a => writeOf (upd (upd s.mem 0 dg) s.next dg a)) =
          (s.cur.toList ++ s.packets).filterMap (fun a => writeOf (s.mem a)) :=
        filterMap_congr' (fun a ha => by rw [hmem a ha])
      rw [this]
      simp only [List.filterMap_cons, List.filterMap_nil, hnext, List.append_assoc]
      cases writeOf dg <;> rfl
    · simp only [step, pendingBad, emitsBad]
      rw [List.filter_append, List.length_append]
      have : s.packets.filter (fun a => (writeOf (upd (upd s.mem 0 dg) s.next dg a)).isNone) =
          s.packets.filter (fun a => (writeOf (s.mem a)).isNone) :=
        List.filter_congr (fun a ha => by rw [hmem a (List.mem_append_right _ ha)])
      rw [this]
      simp only [List.filter_cons, List.filter_nil, hnext]
      cases writeOf dg <;> simp <;> omega
  | parse =>
    cases hc : s.cur with
    | some c =>
      have : step .copy s .parse = s := by simp [step, hc]
      rw [this]; exact ⟨h, by simp [emits], by simp [emitsBad]⟩
    | none =>
      cases hp : s.packets with
      | nil =>
        have : step .copy s .parse = s := by simp [step, hc, hp]
        rw [this]; exact ⟨h, by simp [emits], by simp [emitsBad]⟩
      | cons a rest =>
        cases hw : writeOf (s.mem a) with
        | none =>
          have hs : step .copy s .parse = { s with packets := rest, parseFail := s.parseFail + 1 } := by
            simp [step, hc, hp, hw]
          rw [hs]
          refine ⟨⟨h.pos, ?_, ?_⟩, ?_, ?_⟩
          · intro x hx
            apply h.addr x
            simp only [hc, hp, Option.toList_none, List.nil_append, List.mem_cons] at hx ⊢
            exact Or.inr hx
          · intro x hx; simp [hc] at hx
          · simp [pending, hc, hp, hw, emits]
          · simp [pendingBad, hp, hw, emitsBad]; omega
        | some pts =>
          have hs : step .copy s .parse = { s with packets := rest, cur := some a } := by
            simp [step, hc, hp, hw]
          rw [hs]
          refine ⟨⟨h.pos, ?_, ?_⟩, ?_, ?_⟩
          · intro x hx
            apply h.addr x
            simpa [hc, hp] using hx
          · intro x hx
            simp only [Option.some.injEq] at hx
            subst hx
            exact ⟨pts, hw⟩
          · simp [pending, hc, hp, hw, emits]
          · simp [pendingBad, hp, hw, emitsBad]
  | write =>
    cases hc : s.cur with
    | none =>
      have : step .copy s .write = s := by simp [step, hc]
      rw [this]; exact ⟨h, by simp [emits], by simp [emitsBad]⟩
    | some a =>
      obtain ⟨pts, hw⟩ := h.curOK a hc
      have hs : step .copy s .write = { s with cur := none, calls := s.calls ++ [pointsOf (s.mem a)] } := by
        simp [step, hc]
      rw [hs]
      refine ⟨⟨h.pos, ?_, ?_⟩, ?_, ?_⟩
      · intro x hx
        apply h.addr x
        simp only [Option.toList_none, List.nil_append] at hx
        exact List.mem_append_right _ hx
      · intro x hx; simp at hx
      · simp [pending, hc, hw, pointsOf_of_writeOf hw, emits]
      · simp [pendingBad, emitsBad]

/-- every schedule: what was handed on so far, followed by what the queued packets will hand on, is the parse of what was read -/
theorem runFrom_copy (steps : List Step) : ∀ s : Svc, Inv s →
    Inv (runFrom .copy s steps) ∧
    (runFrom .copy s steps).calls ++ pending (runFrom .copy s steps) = s.calls ++ pending s ++ (received steps).filterMap writeOf ∧
    (runFrom .copy s steps).parseFail + pendingBad (runFrom .copy s steps) =
      s.parseFail + pendingBad s + ((received steps).filter (fun dg => (writeOf dg).isNone)).length := by
  induction steps with
  | nil => intro s h; exact ⟨h, by simp [runFrom, received], by simp [runFrom, received]⟩
  | cons st rest ih =>
    intro s h
    obtain ⟨h1, h2, h3⟩ := step_copy s h st
    obtain ⟨i1, i2, i3⟩ := ih (step .copy s st) h1
    have hr : runFrom .copy s (st :: rest) = runFrom .copy (step .copy s st) rest := rfl
    rw [hr]
    refine ⟨i1, ?_, ?_⟩
    · rw [i2, h2]
      cases st with
      | recv dg => cases hw : writeOf dg <;> simp [emits, received, hw]
      | parse => simp [emits, received]
      | write => simp [emits, received]
    · rw [i3, h3]
      cases st with
      | recv dg => cases hw : writeOf dg <;> simp [emitsBad, received, hw] <;> omega
      | parse => simp [emitsBad, received]
      | write => simp [emitsBad, received]

theorem pending_quiet {s : Svc} (h : s.quiet = true) : pending s = [] ∧ pendingBad s = 0 := by
  unfold Svc.quiet at h
  simp only [Bool.and_eq_true, Option.isNone_iff_eq_none, List.isEmpty_iff] at h
  simp [pending, pendingBad, h.1, h.2]

end Kap.C02.Udp
