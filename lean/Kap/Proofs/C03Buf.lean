/-
C03 — helper lemmas: the ring buffer over arbitrary insert/purge histories (no window around it).
-/
import Kap.Proofs.C03Time
set_option linter.unusedSimpArgs false
set_option linter.unusedVariables false
namespace Kap.C03

/-- an operation on a `windowTimeBuffer` -/
inductive BOp where
  | ins (p : Pt)
  | purge (oldest : Int)
deriving DecidableEq, Repr, Inhabited

/-- run a history of operations (all purges with the same `inclusive` flag, as `windowByTime` does) -/
def runBuf (incl : Bool) (b : Buf) : List BOp → Buf
  | [] => b
  | .ins p :: r => runBuf incl (b.insert p) r
  | .purge o :: r => runBuf incl (b.purge o incl) r

/-- is time `t` included by the last purge bound (if any)? -/
def incBy (incl : Bool) (bound : Option Int) (t : Int) : Bool :=
  match bound with
  | none => true
  | some o => includes o incl t

/-- Well-formed histories — conditions on the INPUT only: inserted times never decrease, purge bounds never
decrease, and an inserted point is not already expired with respect to the last purge bound. -/
def wfFrom (incl : Bool) : Option Int → Option Int → List BOp → Bool
  | _, _, [] => true
  | lt, bd, .ins p :: r =>
    (match lt with | none => true | some t => decide (t ≤ p.t)) && incBy incl bd p.t && wfFrom incl (some p.t) bd r
  | lt, bd, .purge o :: r =>
    (match bd with | none => true | some o' => decide (o' ≤ o)) && wfFrom incl lt (some o) r

def insertedOf : List BOp → List Pt
  | [] => []
  | .ins p :: r => p :: insertedOf r
  | .purge _ :: r => insertedOf r

def boundOf : Option Int → List BOp → Option Int
  | bd, [] => bd
  | bd, .ins _ :: r => boundOf bd r
  | _, .purge o :: r => boundOf (some o) r

/-- ring against history, with an optional bound -/
def RingOpt (incl : Bool) (hist : List Pt) (bd : Option Int) (b : Buf) : Prop :=
  ∃ live stale, Ring b live stale ∧ live = hist.filter (fun q => incBy incl bd q.t) ∧
    ∀ q ∈ stale, incBy incl bd q.t = false

theorem ringopt_insert {incl : Bool} {hist : List Pt} {bd : Option Int} {b : Buf} (p : Pt)
    (h : RingOpt incl hist bd b) (hin : incBy incl bd p.t = true) :
    RingOpt incl (hist ++ [p]) bd (b.insert p) := by
  obtain ⟨live, stale, hr, hl, hs⟩ := h
  obtain ⟨stale', hr', hsub⟩ := ring_insert nilPt p hr
  refine ⟨live ++ [p], stale', hr', ?_, fun q hq => hs q (hsub q hq)⟩
  rw [List.filter_append, hl]
  simp [hin]

theorem ringopt_purge {incl : Bool} {hist : List Pt} {bd : Option Int} {b : Buf} (o : Int)
    (h : RingOpt incl hist bd b) (hsorted : SortedT hist)
    (hle : ∀ o', bd = some o' → o' ≤ o) :
    RingOpt incl hist (some o) (b.purge o incl) := by
  obtain ⟨live, stale, hr, hl, hs⟩ := h
  have hst : ∀ q ∈ stale, includes o incl q.t = false := by
    intro q hq
    cases bd with
    | none => have := hs q hq; simp [incBy] at this
    | some o' => exact includes_antitone o' o incl q.t (hle o' rfl) (hs q hq)
  have hsl : SortedT live := by rw [hl]; exact sortedT_filter _ hsorted
  obtain ⟨stale', hr', hs'⟩ := ring_purge o incl hr hst hsl
  refine ⟨_, stale', hr', ?_, hs'⟩
  rw [hl, List.filter_filter]
  apply List.filter_congr
  intro q _
  simp only [incBy]
  cases bd with
  | none => simp
  | some o' =>
    simp only
    by_cases hq : includes o incl q.t = true
    · have : includes o' incl q.t = true := by
        by_cases hw : includes o' incl q.t = true
        · exact hw
        · have hw' : includes o' incl q.t = false := by simpa using hw
          have := includes_antitone o' o incl q.t (hle o' rfl) hw'
          rw [this] at hq; cases hq
      simp [hq, this]
    · have hq' : includes o incl q.t = false := by simpa using hq
      simp [hq']

theorem runBuf_inv (incl : Bool) (ops : List BOp) :
    ∀ (b : Buf) (hist : List Pt) (lt bd : Option Int),
      RingOpt incl hist bd b → SortedT hist →
      (∀ q ∈ hist, match lt with | none => False | some t => q.t ≤ t) →
      wfFrom incl lt bd ops = true →
      RingOpt incl (hist ++ insertedOf ops) (boundOf bd ops) (runBuf incl b ops) := by
  induction ops with
  | nil => intro b hist lt bd h _ _ _; simpa [insertedOf, boundOf, runBuf] using h
  | cons op ops ih =>
    intro b hist lt bd h hs hlt hwf
    cases op with
    | ins p =>
      simp only [wfFrom, Bool.and_eq_true] at hwf
      obtain ⟨⟨h1, h2⟩, h3⟩ := hwf
      have hle : ∀ q ∈ hist, q.t ≤ p.t := by
        intro q hq
        have := hlt q hq
        cases lt with
        | none => exact absurd this id
        | some t =>
          simp only at this h1
          have h1' : t ≤ p.t := by simpa using h1
          omega
      have := ih (b.insert p) (hist ++ [p]) (some p.t) bd (ringopt_insert p h h2) (sortedT_snoc hs hle)
        (by
          intro q hq
          rcases List.mem_append.mp hq with hq | hq
          · exact hle q hq
          · simp at hq; subst hq; exact Int.le_refl _) h3
      simpa [insertedOf, boundOf, runBuf, List.append_assoc] using this
    | purge o =>
      simp only [wfFrom, Bool.and_eq_true] at hwf
      obtain ⟨h1, h3⟩ := hwf
      have hle : ∀ o', bd = some o' → o' ≤ o := by
        intro o' hb; subst hb; simpa using h1
      have := ih (b.purge o incl) hist lt (some o) (ringopt_purge o h hs hle) hs hlt h3
      simpa [insertedOf, boundOf, runBuf] using this

end Kap.C03
