/-
C03 — helper lemmas: the count window (`windowByCount`) against the history spec.
-/
import Kap.Proofs.C03Ring
import Kap.Spec.C03
set_option linter.unusedSimpArgs false
set_option linter.unusedVariables false
namespace Kap.C03

/-! ### the emission counter -/

/-- `n` is the least count of the form `first + j·E` that is greater than `k`. -/
structure SchedInv (first E k n : Nat) : Prop where
  gt : k < n
  ge : first ≤ n
  md : (n - first) % E = 0
  near : n = first ∨ n ≤ k + E

theorem sched_due_iff (first E k n : Nat) (hE : 1 ≤ E) (h : SchedInv first E k n) :
    (first ≤ k + 1 ∧ (k + 1 - first) % E = 0) ↔ k + 1 = n := by
  obtain ⟨gt, ge, md, near⟩ := h
  constructor
  · rintro ⟨h1, h2⟩
    by_cases hn : n = k + 1
    · exact hn.symm
    · exfalso
      have hgt : k + 1 < n := by omega
      rcases near with h | h
      · omega
      · have d1 : E ∣ (n - first) := Nat.dvd_of_mod_eq_zero md
        have d2 : E ∣ (k + 1 - first) := Nat.dvd_of_mod_eq_zero h2
        have d3 : E ∣ (n - first) - (k + 1 - first) := Nat.dvd_sub d1 d2
        have e : (n - first) - (k + 1 - first) = n - (k + 1) := by omega
        rw [e] at d3
        have := Nat.le_of_dvd (by omega) d3
        omega
  · intro h; subst h; exact ⟨ge, md⟩

theorem sched_step_emit (first E k n : Nat) (hE : 1 ≤ E) (h : SchedInv first E k n) (hk : k + 1 = n) :
    SchedInv first E (k + 1) (n + E) := by
  obtain ⟨gt, ge, md, near⟩ := h
  refine ⟨by omega, by omega, ?_, by omega⟩
  have : n + E - first = (n - first) + E := by omega
  rw [this, Nat.add_mod_right]; exact md

theorem sched_step_hold (first E k n : Nat) (h : SchedInv first E k n) (hk : k + 1 ≠ n) :
    SchedInv first E (k + 1) n := by
  obtain ⟨gt, ge, md, near⟩ := h
  exact ⟨by omega, ge, md, by omega⟩

/-! ### the count ring -/

theorem lastN_all (l : List Pt) (n : Nat) (h : l.length ≤ n) : lastN n l = l := by
  unfold lastN
  rw [show l.length - n = 0 by omega]; rfl

theorem lastN_length (l : List Pt) (n : Nat) (h : n ≤ l.length) : (lastN n l).length = n := by
  unfold lastN; simp; omega

theorem lastN_snoc (l : List Pt) (p : Pt) (n : Nat) (hn : 1 ≤ n) (h : n ≤ l.length) :
    lastN n (l ++ [p]) = (lastN n l).drop 1 ++ [p] := by
  unfold lastN
  rw [List.drop_drop]
  have e : (l ++ [p]).length - n = l.length - n + 1 := by simp; omega
  rw [e, List.drop_append_of_le_length (by omega)]

/-- the shapes of the count ring after the points `hist` -/
inductive CRing (P : Nat) (hist : List Pt) (w : CW) : Prop
  | filling (rest : List Pt) (hk : hist.length < P) (hb : w.buf = hist ++ rest) (hr : rest.length = P - hist.length)
      (hs : w.start = 0) (he : w.stop = hist.length) (hz : w.size = hist.length)
  | full (A B : List Pt) (hk : P ≤ hist.length) (hl : lastN P hist = A ++ B) (hb : w.buf = B ++ A)
      (hs : w.start = B.length) (he : w.stop = B.length) (hz : w.size = P) (hB : B.length < P)

/-- `points()` of the count ring = the last `min k period` points. -/
theorem cring_points {P : Nat} {hist : List Pt} {w : CW} (hP : 1 ≤ P) (h : CRing P hist w) :
    w.points = lastN (min hist.length P) hist := by
  obtain ⟨buf, start, stop, period, every, nextEmit, size, count⟩ := w
  cases h with
  | filling rest hk hb hr hs he hz =>
    simp only at hb hs he hz
    subst hb hs he hz
    unfold CW.points
    simp only
    rw [Nat.min_eq_left (by omega), lastN_all _ _ (Nat.le_refl _)]
    by_cases h0 : hist = []
    · subst h0; simp
    · have : hist.length ≠ 0 := by simpa using h0
      have hpos : hist.length > 0 := by omega
      simp [h0, hpos, slice_zero]
  | full A B hk hl hb hs he hz hB =>
    simp only at hb hs he hz
    subst hb hs he
    unfold CW.points
    simp only
    rw [Nat.min_eq_right hk, hl]
    have hP0 : ¬ (P = 0) := by omega
    have hlen : (A ++ B).length = P := by rw [← hl]; exact lastN_length _ _ hk
    have e1 : slice (B ++ A) B.length (B ++ A).length = A := slice_tail B A
    have e2 : slice (B ++ A) 0 B.length = B := slice_zero B A
    have hz0 : ¬ (size = 0) := by omega
    simp only [beq_iff_eq, hz0, if_false, gt_iff_lt, Nat.lt_irrefl, e1, e2]

/-- the ring part of `windowByCount.Point` (everything before the emission test) -/
def CW.push (w : CW) (p : Pt) : CW :=
  let w := { w with buf := w.buf.set w.stop p }
  let w := { w with stop := (w.stop + 1) % w.period }
  let w := if w.size == w.period then { w with start := (w.start + 1) % w.period }
           else { w with size := w.size + 1 }
  { w with count := w.count + 1 }

theorem point_eq_push (w : CW) (p : Pt) :
    w.point p =
      if (w.push p).count == (w.push p).nextEmit then
        ({ w.push p with nextEmit := (w.push p).nextEmit + (w.push p).every },
         some ({ w.push p with nextEmit := (w.push p).nextEmit + (w.push p).every } : CW).batch)
      else (w.push p, none) := by
  unfold CW.point CW.push; rfl

theorem cring_congr {P : Nat} {hist : List Pt} {w w' : CW} (h : CRing P hist w)
    (hb : w'.buf = w.buf) (hs : w'.start = w.start) (he : w'.stop = w.stop) (hz : w'.size = w.size) :
    CRing P hist w' := by
  cases h with
  | filling rest hk hb' hr hs' he' hz' =>
    exact CRing.filling rest hk (hb.trans hb') hr (hs.trans hs') (he.trans he') (hz.trans hz')
  | full A B hk hl hb' hs' he' hz' hB =>
    exact CRing.full A B hk hl (hb.trans hb') (hs.trans hs') (he.trans he') (hz.trans hz') hB

theorem set_mid' (a r : List Pt) (x p : Pt) : (a ++ x :: r).set a.length p = a ++ p :: r := by
  simp [List.set_append]

theorem push_fields (w : CW) (p : Pt) :
    (w.push p).period = w.period ∧ (w.push p).every = w.every ∧ (w.push p).nextEmit = w.nextEmit ∧
    (w.push p).count = w.count + 1 := by
  unfold CW.push
  simp only
  split <;> simp

/-- the ring after one more point -/
theorem cring_push {P : Nat} {hist : List Pt} {w : CW} (p : Pt) (hP : 1 ≤ P) (hper : w.period = P)
    (h : CRing P hist w) : CRing P (hist ++ [p]) (w.push p) := by
  obtain ⟨buf, start, stop, period, every, nextEmit, size, count⟩ := w
  simp only at hper
  subst hper
  cases h with
  | filling rest hk hb hr hs he hz =>
    simp only at hb hs he hz
    subst hb hs he hz
    have hrne : rest ≠ [] := by
      intro h; subst h; simp at hr; omega
    obtain ⟨x, rest', rfl⟩ := List.exists_cons_of_ne_nil hrne
    have hne : ¬ (hist.length = period) := by omega
    unfold CW.push
    simp only [set_mid', beq_iff_eq, hne, if_false]
    by_cases hlast : hist.length + 1 = period
    · -- the ring becomes full
      have hr' : rest' = [] := List.eq_nil_of_length_eq_zero (by simp at hr; omega)
      subst hr'
      have hmod : (hist.length + 1) % period = 0 := by rw [hlast]; exact Nat.mod_self _
      refine CRing.full (hist ++ [p]) [] (by simp; omega) ?_ ?_ ?_ ?_ ?_ ?_
      · rw [lastN_all _ _ (by simp; omega)]; simp
      · simp
      · simp
      · simp [hmod]
      · simp; omega
      · simp; omega
    · have hmod : (hist.length + 1) % period = hist.length + 1 := Nat.mod_eq_of_lt (by omega)
      refine CRing.filling rest' (by simp; omega) ?_ ?_ ?_ ?_ ?_
      · simp
      · simp at hr ⊢; omega
      · simp
      · simp [hmod]
      · simp
  | full A B hk hl hb hs he hz hB =>
    simp only at hb hs he hz
    subst hb hs he hz
    have hlen : (A ++ B).length = size := by rw [← hl]; exact lastN_length _ _ hk
    have hAne : A ≠ [] := by
      intro h; subst h; simp at hlen; omega
    obtain ⟨a, A', rfl⟩ := List.exists_cons_of_ne_nil hAne
    have hl' : lastN size (hist ++ [p]) = A' ++ B ++ [p] := by
      rw [lastN_snoc _ _ _ hP hk, hl]; simp
    unfold CW.push
    simp only [set_mid', beq_self_eq_true, if_true]
    by_cases hlast : B.length + 1 = size
    · have hA' : A' = [] := List.eq_nil_of_length_eq_zero (by simp at hlen; omega)
      subst hA'
      have hmod : (B.length + 1) % size = 0 := by rw [hlast]; exact Nat.mod_self _
      refine CRing.full (B ++ [p]) [] (by simp; omega) ?_ ?_ ?_ ?_ ?_ ?_
      · rw [hl']; simp
      · simp
      · simp [hmod]
      · simp [hmod]
      · simp
      · simp; omega
    · have hmod : (B.length + 1) % size = B.length + 1 := Nat.mod_eq_of_lt (by omega)
      refine CRing.full A' (B ++ [p]) (by simp; omega) ?_ ?_ ?_ ?_ ?_ ?_
      · rw [hl']; simp
      · simp
      · simp [hmod]
      · simp [hmod]
      · simp
      · simp; omega

/-! ### the invariant of a count window after the points `hist` -/

structure CInv (P E : Nat) (fill : Bool) (hist : List Pt) (w : CW) : Prop where
  per : w.period = P
  ev : w.every = E
  cnt : w.count = hist.length
  ring : CRing P hist w
  sched : SchedInv (if fill then P else E) E hist.length w.nextEmit

theorem cinv_init (P E : Nat) (fill : Bool) (hP : 1 ≤ P) (hE : 1 ≤ E) : CInv P E fill [] (CW.init P E fill) := by
  refine ⟨rfl, rfl, rfl, ?_, ?_⟩
  · exact CRing.filling (List.replicate P nilPt) (by simp; omega) (by simp [CW.init]) (by simp) rfl rfl rfl
  · unfold CW.init
    cases fill <;> simp <;> exact ⟨by omega, Nat.le_refl _, by simp, Or.inl rfl⟩

theorem cw_step (P E : Nat) (fill : Bool) (hist : List Pt) (w : CW) (p : Pt) (hP : 1 ≤ P) (hE : 1 ≤ E)
    (h : CInv P E fill hist w) :
    (w.point p).2 = specCountOut P E fill (hist ++ [p]) ∧ CInv P E fill (hist ++ [p]) (w.point p).1 := by
  obtain ⟨hper, hev, hcnt, hring, hsched⟩ := h
  obtain ⟨fp, fe, fn, fc⟩ := push_fields w p
  have hring' := cring_push p hP hper hring
  have hdue := sched_due_iff _ E hist.length w.nextEmit hE hsched
  rw [point_eq_push]
  by_cases hem : hist.length + 1 = w.nextEmit
  · have hc : ((w.push p).count == (w.push p).nextEmit) = true := by
      rw [fc, fn, hcnt]; simpa using hem
    rw [if_pos hc]
    simp only
    have hring'' : CRing P (hist ++ [p]) { w.push p with nextEmit := (w.push p).nextEmit + (w.push p).every } :=
      cring_congr hring' rfl rfl rfl rfl
    refine ⟨?_, ⟨fp.trans hper, fe.trans hev, ?_, hring'', ?_⟩⟩
    · unfold specCountOut countDue
      have hd := hdue.mpr hem
      simp only [List.length_append, List.length_singleton]
      have : (decide ((if fill then P else E) ≤ hist.length + 1) &&
              decide ((hist.length + 1 - if fill then P else E) % E = 0)) = true := by
        simp [hd.1, hd.2]
      rw [if_pos this]
      unfold CW.batch
      rw [cring_points hP hring'']
      simp
    · simp only [fc, hcnt]; simp
    · simp only [fn, fe, hev, List.length_append, List.length_singleton]
      exact sched_step_emit _ E _ _ hE hsched hem
  · have hc : ¬ (((w.push p).count == (w.push p).nextEmit) = true) := by
      rw [fc, fn, hcnt]; simpa using hem
    rw [if_neg hc]
    refine ⟨?_, ⟨fp.trans hper, fe.trans hev, ?_, hring', ?_⟩⟩
    · unfold specCountOut countDue
      simp only [List.length_append, List.length_singleton]
      have : ¬ ((decide ((if fill then P else E) ≤ hist.length + 1) &&
              decide ((hist.length + 1 - if fill then P else E) % E = 0)) = true) := by
        intro hh
        simp only [Bool.and_eq_true, decide_eq_true_eq] at hh
        exact hem (hdue.mp hh)
      rw [if_neg this]
    · simp only [fc, hcnt]; simp
    · simp only [fn, List.length_append, List.length_singleton]
      exact sched_step_hold _ E _ _ hsched hem

/-- whole runs of the count window -/
theorem count_run (P E : Nat) (fill : Bool) (hP : 1 ≤ P) (hE : 1 ≤ E) (ps : List Pt) :
    ∀ (hist : List Pt) (w : CW), CInv P E fill hist w →
      countViolationFrom P E fill hist (ps.zip (CW.runFrom w ps)) = none := by
  induction ps with
  | nil => intro hist w _; simp [CW.runFrom, countViolationFrom]
  | cons p ps ih =>
    intro hist w h
    obtain ⟨h1, h2⟩ := cw_step P E fill hist w p hP hE h
    simp only [CW.runFrom, List.zip_cons_cons, countViolationFrom, h1, if_true]
    exact ih _ _ h2

/-- `countViolationFrom = none` means: every step emitted exactly what the spec requires. -/
theorem cvf_none_steps (P E : Nat) (fill : Bool) (tr : List (Pt × Option Batch)) :
    ∀ (pre : List Pt), countViolationFrom P E fill pre tr = none →
      ∀ (k : Nat) (p : Pt) (o : Option Batch), tr[k]? = some (p, o) →
        o = specCountOut P E fill (pre ++ (tr.take k).map (·.1) ++ [p]) := by
  induction tr with
  | nil => intro pre _ k p o hk; simp at hk
  | cons x tr ih =>
    intro pre h k p o hk
    obtain ⟨p0, o0⟩ := x
    simp only [countViolationFrom] at h
    by_cases he : o0 = specCountOut P E fill (pre ++ [p0])
    · rw [if_pos he] at h
      cases k with
      | zero =>
        simp at hk
        obtain ⟨rfl, rfl⟩ := hk
        simpa using he
      | succ k =>
        simp at hk
        have := ih _ h k p o hk
        simpa using this
    · rw [if_neg he] at h; simp at h

end Kap.C03
