/-
C03 — helper lemmas: the ring buffer `windowTimeBuffer` refines a plain list.

`Ring b live stale` describes EVERY shape the code can leave the buffer in, by an explicit decomposition of
the slice: `live` are the buffered points oldest first, `stale` are the slots outside the live region (points
that were purged earlier but still sit in the slice — the Go code reads them when it inspects `window[l-1]`
of a drained ring and when it scans `window[0:stop]` of one).
-/
import Kap.Model.C03
set_option linter.unusedSimpArgs false
set_option linter.unusedVariables false
namespace Kap.C03

/-! ### lists -/

theorem slice_mid (a l b : List Pt) : slice (a ++ l ++ b) a.length (a.length + l.length) = l := by
  unfold slice
  rw [List.append_assoc, List.take_append, List.drop_append]
  simp

theorem slice_zero (l b : List Pt) : slice (l ++ b) 0 l.length = l := by
  have := slice_mid [] l b
  simpa using this

theorem slice_tail (a l : List Pt) : slice (a ++ l) a.length (a ++ l).length = l := by
  have := slice_mid a l []
  simpa using this

theorem slice_mid_n (a l b : List Pt) : slice (a ++ (l ++ b)) a.length (a.length + l.length) = l := by
  rw [← List.append_assoc]; exact slice_mid a l b

theorem slice_wr1 (s2 m s1 : List Pt) :
    slice (s2 ++ (m ++ s1)) (s2.length + m.length) (s2.length + (m.length + s1.length)) = s1 := by
  have := slice_tail (s2 ++ m) s1
  simpa [List.append_assoc, Nat.add_assoc] using this

theorem scanAux_spec (inc : Int → Bool) (L A B : List Pt) :
    scanAux (A ++ L ++ B) inc L.length A.length
      = A.length + (L.takeWhile (fun q => !inc q.t)).length := by
  induction L generalizing A with
  | nil => simp [scanAux]
  | cons x L ih =>
    have hx : (A ++ x :: L ++ B).getD A.length nilPt = x := by
      simp [List.getD]
    simp only [List.length_cons, scanAux, hx]
    by_cases h : inc x.t = true
    · simp [h]
    · have h' : inc x.t = false := by simpa using h
      have e : A ++ x :: L ++ B = (A ++ [x]) ++ L ++ B := by simp
      have := ih (A ++ [x])
      rw [← e] at this
      simp only [List.length_append, List.length_cons, List.length_nil] at this
      rw [if_neg h, Nat.zero_add] at *
      rw [this, List.takeWhile_cons]
      simp [h']
      omega

theorem scan_spec (inc : Int → Bool) (L A B : List Pt) :
    scan (A ++ L ++ B) inc A.length (A.length + L.length)
      = A.length + (L.takeWhile (fun q => !inc q.t)).length := by
  unfold scan
  rw [show A.length + L.length - A.length = L.length by omega]
  exact scanAux_spec inc L A B

/-- monotone inclusion: once a time is included, every later time is -/
def MonoInc (inc : Int → Bool) : Prop := ∀ a b : Int, a ≤ b → inc a = true → inc b = true

theorem includes_mono (o : Int) (i : Bool) : MonoInc (includes o i) := by
  intro a b hab h
  unfold includes at *
  cases i <;> simp at * <;> omega

/-- a later bound excludes whatever an earlier bound excluded -/
theorem includes_antitone (o o' : Int) (i : Bool) (t : Int) (h : o ≤ o') (hx : includes o i t = false) :
    includes o' i t = false := by
  unfold includes at *
  cases i <;> simp at * <;> omega

def SortedT (l : List Pt) : Prop := l.Pairwise (fun a b => a.t ≤ b.t)

theorem dropWhile_eq_filter (inc : Int → Bool) (hm : MonoInc inc) (l : List Pt) (hs : SortedT l) :
    l.dropWhile (fun q => !inc q.t) = l.filter (fun q => inc q.t) := by
  induction l with
  | nil => rfl
  | cons x l ih =>
    have hs' := List.pairwise_cons.mp hs
    by_cases h : inc x.t = true
    · have hall : ∀ q ∈ l, inc q.t = true := fun q hq => hm _ _ (hs'.1 q hq) h
      simp [h]
      exact (List.filter_eq_self.mpr (by simpa using hall)).symm
    · have h' : inc x.t = false := by simpa using h
      simp [h', ih hs'.2]

theorem takeWhile_append_dropWhile_len (f : Pt → Bool) (l : List Pt) :
    (l.takeWhile f).length + (l.dropWhile f).length = l.length := by
  induction l with
  | nil => rfl
  | cons x l ih =>
    by_cases h : f x = true
    · simp [List.takeWhile_cons, List.dropWhile_cons, h]; omega
    · simp [List.takeWhile_cons, List.dropWhile_cons, h]

theorem takeWhile_excluded (inc : Int → Bool) (l : List Pt) :
    ∀ q ∈ l.takeWhile (fun q => !inc q.t), inc q.t = false := by
  induction l with
  | nil => intro q hq; simp at hq
  | cons x l ih =>
    intro q hq
    by_cases h : inc x.t = true
    · simp [List.takeWhile_cons, h] at hq
    · have h' : inc x.t = false := by simpa using h
      simp [List.takeWhile_cons, h'] at hq
      rcases hq with rfl | hq
      · exact h'
      · exact ih q hq

theorem dropWhile_nil_all (f : Pt → Bool) (l : List Pt) (h : l.dropWhile f = []) : ∀ q ∈ l, f q = true := by
  induction l with
  | nil => intro q hq; simp at hq
  | cons x l ih =>
    by_cases hx : f x = true
    · simp [List.dropWhile_cons, hx] at h
      intro q hq
      rcases List.mem_cons.mp hq with rfl | hq
      · exact hx
      · exact ih h q hq
    · simp [List.dropWhile_cons, hx] at h

/-- in a sorted list whose last element is excluded, everything is excluded -/
theorem all_excluded_of_last (inc : Int → Bool) (hm : MonoInc inc) (l : List Pt) (hs : SortedT l)
    (x : Pt) (hl : l.getLast? = some x) (hx : inc x.t = false) : ∀ q ∈ l, inc q.t = false := by
  intro q hq
  by_cases h : inc q.t = true
  · have hle : q.t ≤ x.t := by
      obtain ⟨l', rfl⟩ : ∃ l', l = l' ++ [x] := by
        have := List.getLast?_eq_some_iff.mp hl
        exact this
      rcases List.mem_append.mp hq with h1 | h1
      · exact (List.pairwise_append.mp hs).2.2 q h1 x (by simp)
      · simp at h1; rw [h1]; exact Int.le_refl _
    have := hm _ _ hle h
    rw [hx] at this; cases this
  · simpa using h

/-- in a sorted list whose last element is included, `dropWhile (excluded)` is not empty -/
theorem dropWhile_ne_nil_of_last (inc : Int → Bool) (l : List Pt) (x : Pt) (hl : l.getLast? = some x)
    (hx : inc x.t = true) : l.dropWhile (fun q => !inc q.t) ≠ [] := by
  intro h
  have hall := dropWhile_nil_all _ _ h
  have hxm : x ∈ l := List.mem_of_getLast? hl
  have := hall x hxm
  simp [hx] at this

/-! ### the ring relation -/

/-- Every shape of the buffer: `lin` — the live points are one run `window[start:stop]` (possibly empty,
anywhere in the slice); `wr` — wrapped: `window[start:len] ++ window[0:stop]`, both runs non-empty, the
slice is at capacity. `stale` = the slots outside the live region. -/
inductive Ring (b : Buf) (live stale : List Pt) : Prop
  | lin (pre post : List Pt)
      (hw : b.window = pre ++ live ++ post) (hs : b.start = pre.length)
      (he : b.stop = pre.length + live.length) (hz : b.size = live.length)
      (hc : b.window.length ≤ b.cap) (hst : stale = pre ++ post) (hp : b.panicked = false)
  | wr (seg1 mid seg2 : List Pt)
      (hw : b.window = seg2 ++ mid ++ seg1) (he : b.stop = seg2.length)
      (hs : b.start = seg2.length + mid.length) (hz : b.size = seg1.length + seg2.length)
      (hc : b.window.length = b.cap) (hl : live = seg1 ++ seg2) (h1 : seg1 ≠ []) (h2 : seg2 ≠ [])
      (hst : stale = mid) (hp : b.panicked = false)

theorem ring_init : Ring {} [] [] := by
  refine Ring.lin [] [] ?_ ?_ ?_ ?_ ?_ ?_ ?_ <;> simp

theorem ring_size {b : Buf} {live stale : List Pt} (h : Ring b live stale) : b.size = live.length := by
  cases h with
  | lin pre post hw hs he hz hc hst hp => exact hz
  | wr seg1 mid seg2 hw he hs hz hc hl h1 h2 hst hp => rw [hz, hl]; simp

theorem ring_panicked {b : Buf} {live stale : List Pt} (h : Ring b live stale) : b.panicked = false := by
  cases h with
  | lin pre post hw hs he hz hc hst hp => exact hp
  | wr seg1 mid seg2 hw he hs hz hc hl h1 h2 hst hp => exact hp

/-- `points()` returns the live points, oldest first — for every shape. -/
theorem ring_points {b : Buf} {live stale : List Pt} (h : Ring b live stale) : b.points = live := by
  obtain ⟨window, cap, start, stop, size, panicked⟩ := b
  cases h with
  | lin pre post hw hs he hz hc hst hp =>
    simp only at hw hs he hz hc hp
    subst hw hs he hz
    unfold Buf.points
    simp only
    by_cases hl : live = []
    · subst hl; simp
    · have : live.length ≠ 0 := by simpa using hl
      have h2 : pre.length + live.length > pre.length := by omega
      simp [hl, h2, slice_mid_n]
  | wr seg1 mid seg2 hw he hs hz hc hl h1 h2 hst hp =>
    simp only at hw hs he hz hc hp
    subst hw hs he hz hl
    unfold Buf.points
    simp only
    have n1 : seg1.length ≠ 0 := by simpa using h1
    have hne : ¬ (seg1.length + seg2.length = 0) := by omega
    have hgt : ¬ (seg2.length > seg2.length + mid.length) := by omega
    have e1 : slice (seg2 ++ mid ++ seg1) (seg2.length + mid.length) (seg2 ++ mid ++ seg1).length = seg1 := by
      have := slice_tail (seg2 ++ mid) seg1
      simpa using this
    have e2 : slice (seg2 ++ mid ++ seg1) 0 seg2.length = seg2 := by
      have := slice_zero seg2 (mid ++ seg1)
      simpa using this
    simp [h1, hgt, slice_wr1, slice_zero]

/-! ### insert -/

theorem goCopy_zero (nil : Pt) (l : List Pt) (k : Nat) :
    goCopy (List.replicate (l.length + k) nil) 0 l = (l ++ List.replicate k nil, l.length) := by
  unfold goCopy
  simp [List.drop_replicate]

theorem goCopy_at (nil : Pt) (a l : List Pt) (k : Nat) :
    goCopy (a ++ List.replicate (l.length + k) nil) a.length l = (a ++ l ++ List.replicate k nil, l.length) := by
  unfold goCopy
  simp [List.drop_replicate, List.drop_append]

theorem set_mid (a r : List Pt) (x p : Pt) : (a ++ x :: r).set a.length p = a ++ p :: r := by
  simp [List.set_append]

/-- The growth step on a full ring: the live points are copied to the front of a slice of twice the size
(plus one), oldest first, followed by one nil slot. -/
theorem grow_eq {b : Buf} {live stale : List Pt} (nil : Pt) (h : Ring b live stale) (hfull : b.size = b.cap) :
    b.growWith nil = { window := live ++ [nil], cap := 2 * (live.length + 1), start := 0,
                       stop := live.length, size := live.length, panicked := false } := by
  obtain ⟨window, cap, start, stop, size, panicked⟩ := b
  cases h with
  | lin pre post hw hs he hz hc hst hp =>
    simp only at hw hs he hz hc hp hfull
    subst hw hs he hz hp
    have hpre : pre = [] := by
      apply List.eq_nil_of_length_eq_zero
      simp at hc; omega
    have hpost : post = [] := by
      apply List.eq_nil_of_length_eq_zero
      simp at hc; omega
    subst hpre hpost
    unfold Buf.growWith
    by_cases hl : live = []
    · subst hl; simp
    · have hn : live.length ≠ 0 := by simpa using hl
      have hpos : 0 < live.length := by omega
      have hs : slice live 0 live.length = live := by
        have := slice_zero live []; simpa using this
      simp [hl, hpos, hs, goCopy_zero]
  | wr seg1 mid seg2 hw he hs hz hc hl h1 h2 hst hp =>
    simp only at hw hs he hz hc hp hfull
    subst hw hs he hz hp hl
    have hmid : mid = [] := by
      apply List.eq_nil_of_length_eq_zero
      simp at hc; omega
    subst hmid
    unfold Buf.growWith
    have e1 : slice (seg2 ++ seg1) seg2.length (seg2.length + seg1.length) = seg1 := by
      have := slice_tail seg2 seg1; simpa using this
    have e2 : slice (seg2 ++ seg1) 0 seg2.length = seg2 := slice_zero seg2 seg1
    have c1 : goCopy (List.replicate (seg1.length + seg2.length + 1) nil) 0 seg1
        = (seg1 ++ List.replicate (seg2.length + 1) nil, seg1.length) := by
      have := goCopy_zero nil seg1 (seg2.length + 1)
      rwa [← Nat.add_assoc] at this
    have c2 : goCopy (seg1 ++ List.replicate (seg2.length + 1) nil) seg1.length seg2
        = (seg1 ++ seg2 ++ List.replicate 1 nil, seg2.length) := goCopy_at nil seg1 seg2 1
    simp [h1, e1, e2, c1, c2]

/-- `put` on a freshly grown ring overwrites the nil slot. -/
theorem put_grown (nil p : Pt) (live : List Pt) :
    Buf.put Buf.wrap { window := live ++ [nil], cap := 2 * (live.length + 1), start := 0,
                       stop := live.length, size := live.length, panicked := false } p
    = { window := live ++ [p], cap := 2 * (live.length + 1), start := 0,
        stop := live.length + 1, size := live.length + 1, panicked := false } := by
  unfold Buf.put Buf.wrap
  have h1 : ¬ (live.length + 1 = 2 * (live.length + 1)) := by omega
  simp [h1, List.set_append]

/-- the last step of `put`: store the point at `stop` -/
def store (b : Buf) (p : Pt) : Buf :=
  let b := if b.stop == b.window.length then { b with window := b.window ++ [p] }
           else { b with window := b.window.set b.stop p }
  { b with size := b.size + 1, stop := b.stop + 1 }

theorem put_eq (wrapF : Buf → Buf) (b : Buf) (p : Pt) : Buf.put wrapF b p = store (wrapF b) p := rfl

theorem store_append (b : Buf) (p : Pt) (h : b.stop = b.window.length) :
    store b p = { b with window := b.window ++ [p], size := b.size + 1, stop := b.stop + 1 } := by
  unfold store; simp [h]

theorem store_set (b : Buf) (p : Pt) (h : b.stop ≠ b.window.length) :
    store b p = { b with window := b.window.set b.stop p, size := b.size + 1, stop := b.stop + 1 } := by
  unfold store; simp [h]

theorem wrap_none (b : Buf) (h : ¬ (b.window.length = b.cap ∧ b.stop = b.window.length)) : b.wrap = b := by
  unfold Buf.wrap
  have : ¬ ((b.window.length == b.cap && b.stop == b.window.length) = true) := by simpa using h
  rw [if_neg this]

theorem wrap_drained (b : Buf) (h1 : b.window.length = b.cap) (h2 : b.stop = b.window.length)
    (h3 : b.start = b.window.length) : b.wrap = { b with stop := 0, start := 0 } := by
  unfold Buf.wrap
  have : (b.window.length == b.cap && b.stop == b.window.length) = true := by simp [h1, h2]
  rw [if_pos this]; simp [h3]

theorem wrap_wrapped (b : Buf) (h1 : b.window.length = b.cap) (h2 : b.stop = b.window.length)
    (h3 : b.start ≠ b.window.length) : b.wrap = { b with stop := 0 } := by
  unfold Buf.wrap
  have : (b.window.length == b.cap && b.stop == b.window.length) = true := by simp [h1, h2]
  rw [if_pos this]; simp [h3]

/-- `put` (wrap-around check + store) on a ring that is not full. -/
theorem put_ring {b : Buf} {live stale : List Pt} (p : Pt) (h : Ring b live stale) (hroom : b.size < b.cap) :
    ∃ stale', Ring (Buf.put Buf.wrap b p) (live ++ [p]) stale' ∧ ∀ q ∈ stale', q ∈ stale := by
  obtain ⟨window, cap, start, stop, size, panicked⟩ := b
  rw [put_eq]
  cases h with
  | lin pre post hw hs he hz hc hst hp =>
    simp only at hw hs he hz hc hp hroom
    subst hw hs he hz hp hst
    simp only [List.length_append] at hc
    by_cases hwrap : (pre ++ live ++ post).length = cap ∧ pre.length + live.length = (pre ++ live ++ post).length
    · -- stop is at the end of a slice at capacity
      obtain ⟨hcap, hend⟩ := hwrap
      simp only [List.length_append] at hcap hend
      have hpost : post = [] := List.eq_nil_of_length_eq_zero (by omega)
      subst hpost
      have hprene : pre ≠ [] := by
        intro hh; subst hh; simp at hcap hroom; omega
      obtain ⟨x, pre', rfl⟩ := List.exists_cons_of_ne_nil hprene
      by_cases hlive : live = []
      · -- drained with start at the end: start wraps too
        subst hlive
        rw [wrap_drained _ (by simp at hcap ⊢; omega) (by simp <;> omega) (by simp <;> omega), store_set _ _ (by simp)]
        refine ⟨pre', ?_, ?_⟩
        · refine Ring.lin [] pre' ?_ ?_ ?_ ?_ ?_ ?_ ?_ <;> (try simp) <;> (try simp at hcap) <;> (try omega)
        · intro q hq; simp [hq]
      · have hl0 : live.length ≠ 0 := by simpa using hlive
        rw [wrap_wrapped _ (by simp at hcap ⊢; omega) (by simp <;> omega) (by simp <;> omega), store_set _ _ (by simp)]
        refine ⟨pre', ?_, ?_⟩
        · refine Ring.wr live pre' [p] ?_ ?_ ?_ ?_ ?_ ?_ hlive ?_ ?_ ?_ <;> (try simp) <;> (try simp at hcap) <;> (try omega)
        · intro q hq; simp [hq]
    · rw [wrap_none _ (by simpa using hwrap)]
      simp only [List.length_append] at hwrap
      by_cases hend : post = []
      · subst hend
        rw [store_append _ _ (by simp)]
        refine ⟨pre, ?_, ?_⟩
        · refine Ring.lin pre [] ?_ ?_ ?_ ?_ ?_ ?_ ?_ <;> (try simp) <;> (try simp at hc hwrap) <;> (try omega)
        · intro q hq; simp at hq ⊢; exact hq
      · obtain ⟨x, post', rfl⟩ := List.exists_cons_of_ne_nil hend
        have hset : (pre ++ live ++ x :: post').set (pre.length + live.length) p = pre ++ live ++ p :: post' := by
          have := set_mid (pre ++ live) post' x p
          simpa using this
        rw [store_set _ _ (by simp), hset]
        refine ⟨pre ++ post', ?_, ?_⟩
        · refine Ring.lin pre post' ?_ ?_ ?_ ?_ ?_ ?_ ?_ <;> (try simp) <;> (try simp at hc) <;> (try omega)
        · intro q hq; simp at hq ⊢; rcases hq with h | h
          · left; exact h
          · right; right; exact h
  | wr seg1 mid seg2 hw he hs hz hc hl h1 h2 hst hp =>
    simp only at hw hs he hz hc hp hroom
    subst hw hs he hz hp hl
    have hmid : mid ≠ [] := by
      intro hh; subst hh; simp at hc; omega
    obtain ⟨x, mid', rfl⟩ := List.exists_cons_of_ne_nil hmid
    have n1 : seg1.length ≠ 0 := by simpa using h1
    have hset : (seg2 ++ x :: mid' ++ seg1).set seg2.length p = seg2 ++ [p] ++ mid' ++ seg1 := by
      have := set_mid seg2 (mid' ++ seg1) x p
      simpa using this
    rw [wrap_none _ (by simp <;> omega), store_set _ _ (by simp <;> omega), hset]
    refine ⟨mid', ?_, ?_⟩
    · refine Ring.wr seg1 mid' (seg2 ++ [p]) ?_ ?_ ?_ ?_ ?_ ?_ h1 ?_ ?_ ?_ <;> (try simp) <;> (try simp at hc) <;> (try omega)
    · intro q hq; rw [hst]; simp [hq]

/-- **insert refines append**: for every shape of the ring, `insert` keeps the ring relation and appends
the point to the live list; no previously purged point becomes live again. -/
theorem ring_insert {b : Buf} {live stale : List Pt} (nil p : Pt) (h : Ring b live stale) :
    ∃ stale', Ring (b.insertWith nil p) (live ++ [p]) stale' ∧ ∀ q ∈ stale', q ∈ stale := by
  unfold Buf.insertWith Buf.insertCore
  by_cases hfull : b.size = b.cap
  · have : (b.size == b.cap) = true := by simpa using hfull
    rw [if_pos this, grow_eq nil h hfull, put_grown]
    refine ⟨[], ?_, by simp⟩
    refine Ring.lin [] [] ?_ ?_ ?_ ?_ ?_ ?_ ?_ <;> simp <;> omega
  · have hb : ¬ ((b.size == b.cap) = true) := by simpa using hfull
    rw [if_neg hb]
    have hle : b.size ≤ b.cap := by
      cases h with
      | lin pre post hw hs he hz hc hst hp => rw [hz]; rw [hw] at hc; simp at hc; omega
      | wr seg1 mid seg2 hw he hs hz hc hl h1 h2 hst hp => rw [hz, ← hc, hw]; simp; omega
    exact put_ring p h (by omega)

/-- The placeholder that stands for Go's nil slots never influences the result. -/
theorem insertWith_nil_irrelevant {b : Buf} {live stale : List Pt} (n1 n2 p : Pt) (h : Ring b live stale) :
    b.insertWith n1 p = b.insertWith n2 p := by
  unfold Buf.insertWith Buf.insertCore
  by_cases hfull : b.size = b.cap
  · have : (b.size == b.cap) = true := by simpa using hfull
    rw [if_pos this, if_pos this, grow_eq n1 h hfull, grow_eq n2 h hfull, put_grown, put_grown]
  · have hb : ¬ ((b.size == b.cap) = true) := by simpa using hfull
    rw [if_neg hb, if_neg hb]

/-! ### purge -/

theorem purge_nil (b : Buf) (o : Int) (i : Bool) (h : b.window.length = 0) : b.purge o i = b := by
  unfold Buf.purge; simp [h]

theorem purge_lin (b : Buf) (o : Int) (i : Bool) (h0 : b.window.length ≠ 0) (h : b.start < b.stop) :
    b.purge o i = { b with start := scan b.window (includes o i) b.start b.stop,
                           size := b.stop - scan b.window (includes o i) b.start b.stop } := by
  unfold Buf.purge; simp [h0, h]

theorem purge_tail_in (b : Buf) (o : Int) (i : Bool) (h0 : b.window.length ≠ 0) (h : ¬ b.start < b.stop)
    (hin : includes o i (b.window.getD (b.window.length - 1) nilPt).t = true) :
    b.purge o i = { b with start := scan b.window (includes o i) b.start b.window.length,
                           size := b.window.length - scan b.window (includes o i) b.start b.window.length + b.stop } := by
  unfold Buf.purge
  simp only [beq_iff_eq, h0, h, hin, if_false, if_true, ↓reduceIte]

theorem purge_tail_out (b : Buf) (o : Int) (i : Bool) (h0 : b.window.length ≠ 0) (h : ¬ b.start < b.stop)
    (hout : includes o i (b.window.getD (b.window.length - 1) nilPt).t = false) :
    b.purge o i = { b with start := scan b.window (includes o i) 0 b.stop,
                           size := b.stop - scan b.window (includes o i) 0 b.stop } := by
  unfold Buf.purge
  simp only [beq_iff_eq, h0, h, hout, if_false, if_true, ↓reduceIte, Bool.false_eq_true]

theorem getD_last (a : List Pt) (x d : Pt) : (a ++ [x]).getD ((a ++ [x]).length - 1) d = x := by
  simp [List.getD]

theorem getD_mem (w : List Pt) (k : Nat) (d : Pt) (h : k < w.length) : w.getD k d ∈ w := by
  simp [List.getD, List.getElem?_eq_getElem h]

theorem takeWhile_eq_self_of_all (f : Pt → Bool) (l : List Pt) (h : ∀ q ∈ l, f q = true) : l.takeWhile f = l := by
  induction l with
  | nil => rfl
  | cons x l ih =>
    have hx := h x (by simp)
    simp [List.takeWhile_cons, hx]
    exact ih (fun q hq => h q (by simp [hq]))

theorem filter_nil_of_all_excluded (inc : Int → Bool) (l : List Pt) (h : ∀ q ∈ l, inc q.t = false) :
    l.filter (fun q => inc q.t) = [] := by
  apply List.filter_eq_nil_iff.mpr
  intro q hq; simp [h q hq]

theorem sortedT_append_left {a b : List Pt} (h : SortedT (a ++ b)) : SortedT a :=
  (List.pairwise_append.mp h).1
theorem sortedT_append_right {a b : List Pt} (h : SortedT (a ++ b)) : SortedT b :=
  (List.pairwise_append.mp h).2.1

attribute [local irreducible] scan

/-- **purge refines filter**: on a time-sorted ring whose stale slots are all excluded by the bound, `purge`
keeps the ring relation, keeps exactly the included live points (in order), and every slot that is stale
afterwards is excluded by the bound. Holds for every shape, including the drained ring whose `window[l-1]`
and `window[0:stop]` the code reads although they are not live. -/
theorem ring_purge {b : Buf} {live stale : List Pt} (o : Int) (i : Bool) (h : Ring b live stale)
    (hstale : ∀ q ∈ stale, includes o i q.t = false) (hsorted : SortedT live) :
    ∃ stale', Ring (b.purge o i) (live.filter (fun q => includes o i q.t)) stale' ∧
      ∀ q ∈ stale', includes o i q.t = false := by
  have hm := includes_mono o i
  obtain ⟨window, cap, start, stop, size, panicked⟩ := b
  cases h with
  | lin pre post hw hs he hz hc hst hp =>
    simp only at hw hs he hz hc hp
    subst hw hs he hz hp hst
    by_cases h0 : (pre ++ live ++ post).length = 0
    · rw [purge_nil _ _ _ h0]
      have hl : live = [] := List.eq_nil_of_length_eq_zero (by simp only [List.length_append] at h0; omega)
      subst hl
      exact ⟨pre ++ post, Ring.lin pre post rfl rfl rfl rfl hc rfl rfl, hstale⟩
    · by_cases hl : live = []
      · -- a drained ring: the code inspects window[l-1] and window[0:stop], all stale
        subst hl
        simp only [List.append_nil, List.length_nil, Nat.add_zero] at h0 hc hstale ⊢
        have hpos : (pre ++ post).length - 1 < (pre ++ post).length := by omega
        have hmem : (pre ++ post).getD ((pre ++ post).length - 1) nilPt ∈ pre ++ post := getD_mem _ _ _ hpos
        have hlast : includes o i ((pre ++ post).getD ((pre ++ post).length - 1) nilPt).t = false :=
          hstale _ hmem
        have hnlt : ¬ (pre.length < pre.length) := Nat.lt_irrefl _
        have hscan : scan (pre ++ post) (includes o i) 0 pre.length = pre.length := by
          have := scan_spec (includes o i) pre [] post
          simp only [List.nil_append, List.length_nil, Nat.zero_add] at this
          have htw : pre.takeWhile (fun q => !includes o i q.t) = pre :=
            takeWhile_eq_self_of_all _ _ (fun q hq => by simp [hstale q (by simp [hq])])
          rw [htw] at this
          exact this
        have hp := purge_tail_out { window := pre ++ post, cap := cap, start := pre.length, stop := pre.length,
                                    size := 0, panicked := false } o i h0 hnlt hlast
        simp only [hscan, Nat.sub_self] at hp
        simp only [List.filter_nil]
        rw [hp]
        exact ⟨pre ++ post, Ring.lin pre post (by simp) rfl (by simp) rfl hc rfl rfl, hstale⟩
      · have hlt : pre.length < pre.length + live.length := by
          have : live.length ≠ 0 := by simpa using hl
          omega
        have hc' := hc
        simp only [List.length_append] at hc'
        rw [purge_lin _ _ _ h0 hlt]
        simp only
        rw [scan_spec, ← dropWhile_eq_filter _ hm live hsorted]
        have hlen := takeWhile_append_dropWhile_len (fun q => !includes o i q.t) live
        have hsplit := List.takeWhile_append_dropWhile (p := fun q => !includes o i q.t) (l := live)
        refine ⟨pre ++ live.takeWhile (fun q => !includes o i q.t) ++ post, ?_, ?_⟩
        · refine Ring.lin (pre ++ live.takeWhile (fun q => !includes o i q.t)) post ?_ ?_ ?_ ?_ hc rfl rfl
          · simp only
            conv => lhs; rw [← hsplit]
            simp [List.append_assoc]
          · simp
          · simp only [List.length_append]; omega
          · simp only; omega
        · intro q hq
          simp only [List.mem_append] at hq
          rcases hq with (hq | hq) | hq
          · exact hstale q (by simp [hq])
          · exact takeWhile_excluded _ _ q hq
          · exact hstale q (by simp [hq])
  | wr seg1 mid seg2 hw he hs hz hc hl h1 h2 hst hp =>
    simp only at hw hs he hz hc hp
    subst hw hs he hz hp hl
    have h0 : (seg2 ++ mid ++ seg1).length ≠ 0 := by
      have : seg1.length ≠ 0 := by simpa using h1
      simp only [List.length_append]; omega
    have hnlt : ¬ (seg2.length + mid.length < seg2.length) := by omega
    obtain ⟨s1', x, rfl⟩ : ∃ s1' x, seg1 = s1' ++ [x] := by
      rcases List.eq_nil_or_concat seg1 with h | ⟨l, a, h⟩
      · exact absurd h h1
      · exact ⟨l, a, by simpa using h⟩
    have hlastx : (seg2 ++ mid ++ (s1' ++ [x])).getD ((seg2 ++ mid ++ (s1' ++ [x])).length - 1) nilPt = x := by
      have := getD_last (seg2 ++ mid ++ s1') x nilPt
      simpa [List.append_assoc] using this
    have hs1 : SortedT (s1' ++ [x]) := sortedT_append_left hsorted
    have hs2 : SortedT seg2 := sortedT_append_right hsorted
    have hcross : ∀ q ∈ seg2, x.t ≤ q.t := fun q hq =>
      (List.pairwise_append.mp hsorted).2.2 x (by simp) q hq
    by_cases hin : includes o i x.t = true
    · rw [purge_tail_in _ _ _ h0 hnlt (by rw [hlastx]; exact hin)]
      simp only
      have hscan : scan (seg2 ++ mid ++ (s1' ++ [x])) (includes o i) (seg2.length + mid.length)
            (seg2 ++ mid ++ (s1' ++ [x])).length
          = (seg2 ++ mid).length + ((s1' ++ [x]).takeWhile (fun q => !includes o i q.t)).length := by
        have := scan_spec (includes o i) (s1' ++ [x]) (seg2 ++ mid) []
        simp only [List.append_nil, List.length_append] at this ⊢
        rw [← this]
      rw [hscan]
      have hdne := dropWhile_ne_nil_of_last (includes o i) (s1' ++ [x]) x (by simp) hin
      have hlen := takeWhile_append_dropWhile_len (fun q => !includes o i q.t) (s1' ++ [x])
      have hsplit := List.takeWhile_append_dropWhile (p := fun q => !includes o i q.t) (l := s1' ++ [x])
      have hf1 := dropWhile_eq_filter _ hm (s1' ++ [x]) hs1
      have hf2 : seg2.filter (fun q => includes o i q.t) = seg2 :=
        List.filter_eq_self.mpr (fun q hq => hm _ _ (hcross q hq) hin)
      refine ⟨mid ++ (s1' ++ [x]).takeWhile (fun q => !includes o i q.t), ?_, ?_⟩
      · refine Ring.wr ((s1' ++ [x]).dropWhile (fun q => !includes o i q.t))
          (mid ++ (s1' ++ [x]).takeWhile (fun q => !includes o i q.t)) seg2 ?_ ?_ ?_ ?_ hc ?_ hdne h2 rfl rfl
        · simp only
          conv => lhs; rw [← hsplit]
          simp [List.append_assoc]
        · simp
        · simp only [List.length_append]; omega
        · simp only [List.length_append] at hlen ⊢; omega
        · rw [List.filter_append, hf2, hf1]
      · intro q hq
        rcases List.mem_append.mp hq with hq | hq
        · exact hstale q (by rw [hst]; exact hq)
        · exact takeWhile_excluded _ _ q hq
    · have hout : includes o i x.t = false := by simpa using hin
      rw [purge_tail_out _ _ _ h0 hnlt (by rw [hlastx]; exact hout)]
      simp only
      have hall1 := all_excluded_of_last _ hm (s1' ++ [x]) hs1 x (by simp) hout
      have hscan : scan (seg2 ++ mid ++ (s1' ++ [x])) (includes o i) 0 seg2.length
          = (seg2.takeWhile (fun q => !includes o i q.t)).length := by
        have := scan_spec (includes o i) seg2 [] (mid ++ (s1' ++ [x]))
        simpa [List.append_assoc] using this
      rw [hscan]
      have hlen := takeWhile_append_dropWhile_len (fun q => !includes o i q.t) seg2
      have hsplit := List.takeWhile_append_dropWhile (p := fun q => !includes o i q.t) (l := seg2)
      have hf2 := dropWhile_eq_filter _ hm seg2 hs2
      have hf1 := filter_nil_of_all_excluded _ _ hall1
      refine ⟨seg2.takeWhile (fun q => !includes o i q.t) ++ (mid ++ (s1' ++ [x])), ?_, ?_⟩
      · rw [List.filter_append, hf1, List.nil_append, ← hf2]
        refine Ring.lin (seg2.takeWhile (fun q => !includes o i q.t)) (mid ++ (s1' ++ [x])) ?_ ?_ ?_ ?_ ?_ rfl rfl
        · simp only
          conv => lhs; rw [← hsplit]
          simp [List.append_assoc]
        · simp
        · simp only; omega
        · simp only; omega
        · simp only; omega
      · intro q hq
        rcases List.mem_append.mp hq with hq | hq
        · exact takeWhile_excluded _ _ q hq
        · rcases List.mem_append.mp hq with hq | hq
          · exact hstale q (by rw [hst]; exact hq)
          · exact hall1 q hq

end Kap.C03
