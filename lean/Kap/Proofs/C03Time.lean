/-
C03 — helper lemmas: the time window (`windowByTime`) against the history spec.
Invariant `TInv` ties the model state after a trace to the plain history: the ring holds exactly the received
points not yet excluded by the last purge bound (`wm`), every stale slot is excluded by `wm`, `nextEmit` is the
spec's due time, and (every ≠ 0) every message so far is earlier than `nextEmit`.
-/
import Kap.Proofs.C03Ring
import Kap.Spec.C03
set_option linter.unusedSimpArgs false
set_option linter.unusedVariables false
namespace Kap.C03

/-! ### arithmetic of the schedule -/

theorem truncate_eq_floorMultiple (x d : Int) (hd : 0 < d) : truncate x d = floorMultiple x d := by
  unfold truncate floorMultiple
  have h1 : ¬ d ≤ 0 := by omega
  rw [if_neg h1]
  have := Int.emod_add_mul_ediv (x + goEpochOffset) d
  have hc : d * ((x + goEpochOffset) / d) = (x + goEpochOffset) / d * d := Int.mul_comm _ _
  omega

theorem floorMultiple_gt (x d : Int) (hd : 0 < d) : x - d < floorMultiple x d := by
  rw [← truncate_eq_floorMultiple x d hd]
  unfold truncate
  have h1 : ¬ d ≤ 0 := by omega
  rw [if_neg h1]
  have := Int.emod_lt_of_pos (x + goEpochOffset) hd
  omega

theorem floorMultiple_le (x d : Int) (hd : 0 < d) : floorMultiple x d ≤ x := by
  rw [← truncate_eq_floorMultiple x d hd]
  unfold truncate
  have h1 : ¬ d ≤ 0 := by omega
  rw [if_neg h1]
  have := Int.emod_nonneg (x + goEpochOffset) (by omega : d ≠ 0)
  omega

theorem nextMultiple_eq (x d : Int) : nextMultiple x d = floorMultiple x d + d := by
  unfold nextMultiple floorMultiple
  rw [Int.add_mul]; omega

/-- the model's computation of the next due time after a trigger at `t` is the spec's `dueAfter` -/
theorem model_dueAfter (c : TCfg) (t : Int) (he : 0 < c.every) :
    (if c.align then truncate (t + c.every) c.every else t + c.every) = dueAfter c t := by
  unfold dueAfter
  have : ¬ c.every = 0 := by omega
  rw [if_neg this]
  cases c.align <;> simp [truncate_eq_floorMultiple _ _ he]

theorem dueAfter_gt (c : TCfg) (t : Int) (he : 0 < c.every) : t < dueAfter c t := by
  unfold dueAfter
  have : ¬ c.every = 0 := by omega
  rw [if_neg this]
  split
  · have := floorMultiple_gt (t + c.every) c.every he; omega
  · omega

theorem dueAfter_zero (c : TCfg) (t : Int) (he : c.every = 0) : dueAfter c t = t := by
  unfold dueAfter; rw [if_pos he]

/-- `newWindowByTime` computes the spec's first due time. -/
theorem init_nextEmit (c : TCfg) (t0 : Int) (he : 0 ≤ c.every) : (TW.init c t0).nextEmit = firstDue c t0 := by
  obtain ⟨period, every, align, fill⟩ := c
  simp only at he
  unfold TW.init firstDue
  simp only
  by_cases h0 : every = 0
  · subst h0
    cases fill <;> cases align <;> simp [truncate]
  · have hpos : 0 < every := by omega
    rw [if_neg h0]
    cases fill <;> cases align <;> simp only [truncate_eq_floorMultiple _ _ hpos, nextMultiple_eq] <;> simp
    have := floorMultiple_le (t0 + period) every hpos
    intro h; omega

theorem firstDue_gt (c : TCfg) (t0 : Int) (hp : 0 < c.period) (he : 0 < c.every) : t0 < firstDue c t0 := by
  obtain ⟨period, every, align, fill⟩ := c
  simp only at hp he
  unfold firstDue
  have h0 : ¬ every = 0 := by omega
  simp only [if_neg h0]
  cases fill <;> cases align <;> simp only [nextMultiple_eq]
  · omega
  · have := floorMultiple_gt (t0 + every) every he; omega
  · omega
  · have := floorMultiple_gt (t0 + period) every he; omega

/-! ### traces -/

def histOf (tr : Trace) : List Pt := received (tr.map (·.1))

def lastT (t0 : Int) (tr : Trace) : Int := (tr.getLast?.map (·.1.t)).getD t0

def msgPts : Msg → List Pt
  | .point p => [p]
  | .barrier _ => []

theorem received_append (a b : List Msg) : received (a ++ b) = received a ++ received b := by
  induction a with
  | nil => rfl
  | cons m a ih => cases m <;> simp [received, ih]

theorem received_single (m : Msg) : received [m] = msgPts m := by
  cases m <;> rfl

theorem histOf_snoc (tr : Trace) (m : Msg) (o : Option Batch) : histOf (tr ++ [(m, o)]) = histOf tr ++ msgPts m := by
  unfold histOf
  rw [List.map_append, received_append]
  simp [received_single]

theorem lastT_snoc (t0 : Int) (tr : Trace) (m : Msg) (o : Option Batch) : lastT t0 (tr ++ [(m, o)]) = m.t := by
  unfold lastT; simp

theorem lastTrigger_snoc (tr : Trace) (m : Msg) (o : Option Batch) :
    lastTrigger (tr ++ [(m, o)]) = if o.isSome then some m.t else lastTrigger tr := by
  induction tr with
  | nil => simp [lastTrigger]
  | cons x tr ih =>
    obtain ⟨m', o'⟩ := x
    simp only [List.cons_append, lastTrigger, ih]
    cases o with
    | none => simp
    | some b => simp

theorem due_snoc_none (c : TCfg) (t0 : Int) (tr : Trace) (m : Msg) :
    due c t0 (tr ++ [(m, none)]) = due c t0 tr := by
  unfold due; rw [lastTrigger_snoc]; simp

theorem due_snoc_some (c : TCfg) (t0 : Int) (tr : Trace) (m : Msg) (b : Batch) :
    due c t0 (tr ++ [(m, some b)]) = dueAfter c m.t := by
  unfold due; rw [lastTrigger_snoc]; simp

/-! ### the ring against the history -/

/-- The ring holds exactly the points of `hist` that the bound `wm` includes; stale slots are excluded. -/
def RingSt (incl : Bool) (hist : List Pt) (wm : Int) (b : Buf) : Prop :=
  ∃ live stale, Ring b live stale ∧ live = hist.filter (fun q => includes wm incl q.t) ∧
    ∀ q ∈ stale, includes wm incl q.t = false

theorem ringst_insert {incl : Bool} {hist : List Pt} {wm : Int} {b : Buf} (p : Pt)
    (h : RingSt incl hist wm b) (hin : includes wm incl p.t = true) :
    RingSt incl (hist ++ [p]) wm (b.insert p) := by
  obtain ⟨live, stale, hr, hl, hs⟩ := h
  obtain ⟨stale', hr', hsub⟩ := ring_insert nilPt p hr
  refine ⟨live ++ [p], stale', hr', ?_, fun q hq => hs q (hsub q hq)⟩
  rw [List.filter_append, hl]
  simp [hin]

theorem sortedT_filter {l : List Pt} (f : Pt → Bool) (h : SortedT l) : SortedT (l.filter f) :=
  List.Pairwise.sublist List.filter_sublist h

theorem ringst_purge {incl : Bool} {hist : List Pt} {wm : Int} {b : Buf} (o : Int)
    (h : RingSt incl hist wm b) (hsorted : SortedT hist) (hle : wm ≤ o) :
    RingSt incl hist o (b.purge o incl) ∧ (b.purge o incl).points = hist.filter (fun q => includes o incl q.t) := by
  obtain ⟨live, stale, hr, hl, hs⟩ := h
  have hst : ∀ q ∈ stale, includes o incl q.t = false := fun q hq => includes_antitone wm o incl q.t hle (hs q hq)
  have hsl : SortedT live := by rw [hl]; exact sortedT_filter _ hsorted
  obtain ⟨stale', hr', hs'⟩ := ring_purge o incl hr hst hsl
  have hfilt : live.filter (fun q => includes o incl q.t) = hist.filter (fun q => includes o incl q.t) := by
    rw [hl, List.filter_filter]
    apply List.filter_congr
    intro q _
    by_cases hq : includes o incl q.t = true
    · have : includes wm incl q.t = true := by
        by_cases hw : includes wm incl q.t = true
        · exact hw
        · have hw' : includes wm incl q.t = false := by simpa using hw
          have := includes_antitone wm o incl q.t hle hw'
          rw [this] at hq; cases hq
      simp [hq, this]
    · have hq' : includes o incl q.t = false := by simpa using hq
      simp [hq']
  refine ⟨⟨_, stale', hr', hfilt, hs'⟩, ?_⟩
  rw [ring_points hr', hfilt]

theorem ringst_panicked {incl : Bool} {hist : List Pt} {wm : Int} {b : Buf} (h : RingSt incl hist wm b) :
    b.panicked = false := by
  obtain ⟨live, stale, hr, _, _⟩ := h
  exact ring_panicked hr

/-! ### the invariant of a window after a trace -/

structure TInv (c : TCfg) (t0 : Int) (tr : Trace) (w : TW) : Prop where
  cfg : w.cfg = c
  ne : w.nextEmit = due c t0 tr
  ring : ∃ wm, RingSt (c.every != 0) (histOf tr) wm w.buf ∧ wm + c.period ≤ lastT t0 tr
  hist_le : ∀ q ∈ histOf tr, q.t ≤ lastT t0 tr
  sorted : SortedT (histOf tr)
  ahead : c.every ≠ 0 → lastT t0 tr < w.nextEmit

theorem tinv_init (c : TCfg) (t0 : Int) (hp : 0 < c.period) (he : 0 ≤ c.every) : TInv c t0 [] (TW.init c t0) := by
  refine ⟨rfl, ?_, ⟨t0 - c.period, ⟨[], [], ring_init, rfl, by simp⟩, ?_⟩, ?_, ?_, ?_⟩
  · rw [init_nextEmit c t0 he]; rfl
  · simp [lastT]
  · intro q hq; simp [histOf, received] at hq
  · simp [histOf, received, SortedT]
  · intro h0
    rw [init_nextEmit c t0 he]
    simp only [lastT, List.getLast?_nil, Option.map_none, Option.getD_none]
    exact firstDue_gt c t0 hp (by omega)

theorem sortedT_snoc {l : List Pt} {p : Pt} (h : SortedT l) (hle : ∀ q ∈ l, q.t ≤ p.t) : SortedT (l ++ [p]) := by
  unfold SortedT
  rw [List.pairwise_append]
  refine ⟨h, by simp, ?_⟩
  intro a ha b hb
  simp at hb; subst hb; exact hle a ha

/-- history facts after one more message whose time is not before the last one -/
theorem hist_step {t0 : Int} {tr : Trace} (m : Msg) (o : Option Batch)
    (hle : ∀ q ∈ histOf tr, q.t ≤ lastT t0 tr) (hs : SortedT (histOf tr)) (hm : lastT t0 tr ≤ m.t) :
    (∀ q ∈ histOf (tr ++ [(m, o)]), q.t ≤ lastT t0 (tr ++ [(m, o)])) ∧ SortedT (histOf (tr ++ [(m, o)])) := by
  rw [histOf_snoc, lastT_snoc]
  cases m with
  | point p =>
    simp only [msgPts, Msg.t] at *
    refine ⟨?_, sortedT_snoc hs (fun q hq => Int.le_trans (hle q hq) hm)⟩
    intro q hq
    rcases List.mem_append.mp hq with h | h
    · exact Int.le_trans (hle q h) hm
    · simp at h; subst h; exact Int.le_refl _
  | barrier t =>
    simp only [msgPts, Msg.t, List.append_nil] at *
    exact ⟨fun q hq => Int.le_trans (hle q hq) hm, hs⟩

/-! ### evaluation of one model step -/

theorem neg_one_mul_sub (a b : Int) : a + -1 * b = a - b := by omega

theorem point_en_emit (w : TW) (p : Pt) (h0 : w.cfg.every ≠ 0) (h : ¬ p.t < w.nextEmit) :
    w.point p =
      ({ cfg := w.cfg,
         nextEmit := if w.cfg.align then truncate (p.t + w.cfg.every) w.cfg.every else p.t + w.cfg.every,
         buf := (w.buf.purge (w.nextEmit - w.cfg.period) true).insert p },
       some ⟨w.nextEmit, (w.buf.purge (w.nextEmit - w.cfg.period) true).points⟩) := by
  unfold TW.point TW.pointWith
  have h0' : (w.cfg.every == 0) = false := by simpa using h0
  simp only [h0', Bool.false_eq_true, if_false, h, decide_false, Bool.not_false, if_true, TW.batch, neg_one_mul_sub]

theorem point_en_hold (w : TW) (p : Pt) (h0 : w.cfg.every ≠ 0) (h : p.t < w.nextEmit) :
    w.point p = ({ w with buf := w.buf.insert p }, none) := by
  unfold TW.point TW.pointWith
  have h0' : (w.cfg.every == 0) = false := by simpa using h0
  simp only [h0', Bool.false_eq_true, if_false, h, decide_true, Bool.not_true]

theorem point_e0_emit (w : TW) (p : Pt) (h0 : w.cfg.every = 0) (h : ¬ p.t < w.nextEmit) :
    w.point p =
      ({ cfg := w.cfg, nextEmit := p.t, buf := (w.buf.insert p).purge (p.t - w.cfg.period) false },
       some ⟨p.t, ((w.buf.insert p).purge (p.t - w.cfg.period) false).points⟩) := by
  unfold TW.point TW.pointWith
  have h0' : (w.cfg.every == 0) = true := by simpa using h0
  simp only [h0', if_true, h, decide_false, Bool.not_false, TW.batch, neg_one_mul_sub]

theorem point_e0_hold (w : TW) (p : Pt) (h0 : w.cfg.every = 0) (h : p.t < w.nextEmit) :
    w.point p = ({ w with buf := w.buf.insert p }, none) := by
  unfold TW.point TW.pointWith
  have h0' : (w.cfg.every == 0) = true := by simpa using h0
  simp only [h0', if_true, h, decide_true, Bool.not_true, Bool.false_eq_true, if_false]

theorem barrier_en_emit (w : TW) (t : Int) (h0 : w.cfg.every ≠ 0) (h : ¬ t < w.nextEmit) :
    w.barrier t =
      ({ cfg := w.cfg,
         nextEmit := if w.cfg.align then truncate (t + w.cfg.every) w.cfg.every else t + w.cfg.every,
         buf := w.buf.purge (w.nextEmit - w.cfg.period) true },
       some ⟨w.nextEmit, (w.buf.purge (w.nextEmit - w.cfg.period) true).points⟩) := by
  unfold TW.barrier TW.barrierWith
  have h0' : (w.cfg.every == 0) = false := by simpa using h0
  simp only [h0', Bool.false_eq_true, if_false, h, decide_false, Bool.not_false, if_true, TW.batch, neg_one_mul_sub]

theorem barrier_e0_emit (w : TW) (t : Int) (h0 : w.cfg.every = 0) (h : ¬ t < w.nextEmit) :
    w.barrier t =
      ({ cfg := w.cfg, nextEmit := t, buf := w.buf.purge (t - w.cfg.period) false },
       some ⟨t, (w.buf.purge (t - w.cfg.period) false).points⟩) := by
  unfold TW.barrier TW.barrierWith
  have h0' : (w.cfg.every == 0) = true := by simpa using h0
  simp only [h0', if_true, h, decide_false, Bool.not_false, TW.batch, neg_one_mul_sub]

theorem barrier_hold (w : TW) (t : Int) (h : t < w.nextEmit) : w.barrier t = (w, none) := by
  unfold TW.barrier TW.barrierWith
  by_cases h0 : w.cfg.every = 0
  · have h0' : (w.cfg.every == 0) = true := by simpa using h0
    simp only [h0', if_true, h, decide_true, Bool.not_true, Bool.false_eq_true, if_false]
  · have h0' : (w.cfg.every == 0) = false := by simpa using h0
    simp only [h0', Bool.false_eq_true, if_false, h, decide_true, Bool.not_true]

/-! ### the spec's verdict on one step -/

theorem sv_none (c : TCfg) (t0 : Int) (tr : Trace) (m : Msg) (h : m.t < due c t0 tr) :
    stepViolation c t0 tr m none = none := by
  unfold stepViolation; simp [h]

theorem sv_some (c : TCfg) (t0 : Int) (tr : Trace) (m : Msg) (b : Batch) (h : ¬ m.t < due c t0 tr)
    (hT : b.tmax = if c.every = 0 then m.t else due c t0 tr)
    (hpts : b.pts = specContent c b.tmax (histOf tr ++ msgPts m)) :
    stepViolation c t0 tr m (some b) = none := by
  unfold stepViolation
  have hrec : received (List.map (fun x => x.1) tr ++ [m]) = histOf tr ++ msgPts m := by
    rw [received_append, received_single]; rfl
  simp only [h, if_false, hrec, ← hT, ne_eq, not_true_eq_false, ← hpts]

theorem content_en (c : TCfg) (T : Int) (hist extra : List Pt) (he : c.every ≠ 0)
    (h1 : ∀ q ∈ hist, q.t < T) (h2 : ∀ q ∈ extra, T ≤ q.t) :
    hist.filter (fun q => includes (T - c.period) true q.t) = specContent c T (hist ++ extra) := by
  unfold specContent
  rw [if_neg he, List.filter_append]
  have e2 : extra.filter (fun q => decide (T - c.period ≤ q.t) && decide (q.t < T)) = [] := by
    apply List.filter_eq_nil_iff.mpr
    intro q hq; have := h2 q hq; simp; omega
  rw [e2, List.append_nil]
  apply List.filter_congr
  intro q hq
  have := h1 q hq
  unfold includes
  simp only [if_true, this, decide_true, Bool.and_true]
  by_cases hx : q.t < T - c.period
  · have : ¬ (T - c.period ≤ q.t) := by omega
    simp [hx, this]
  · have : T - c.period ≤ q.t := by omega
    simp [hx, this]

theorem content_e0 (c : TCfg) (T : Int) (hist : List Pt) (he : c.every = 0) (h1 : ∀ q ∈ hist, q.t ≤ T) :
    hist.filter (fun q => includes (T - c.period) false q.t) = specContent c T hist := by
  unfold specContent
  rw [if_pos he]
  apply List.filter_congr
  intro q hq
  have := h1 q hq
  unfold includes
  simp [this]

/-! ### one step preserves the invariant and satisfies the property -/

theorem step_ok (c : TCfg) (t0 : Int) (tr : Trace) (w : TW) (m : Msg) (hp : 0 < c.period) (he : 0 ≤ c.every)
    (hinv : TInv c t0 tr w) (hm : lastT t0 tr ≤ m.t) :
    stepViolation c t0 tr m (w.step m).2 = none ∧ TInv c t0 (tr ++ [(m, (w.step m).2)]) (w.step m).1 := by
  obtain ⟨hcfg, hne, ⟨wm, hring, hwm⟩, hle, hsorted, hahead⟩ := hinv
  have hcp : w.cfg.period = c.period := by rw [hcfg]
  have hce : w.cfg.every = c.every := by rw [hcfg]
  have hca : w.cfg.align = c.align := by rw [hcfg]
  by_cases h0 : c.every = 0
  · -- every = 0: right-closed window (t - period, t], the point is inserted first
    have hincl : (c.every != 0) = false := by simp [h0]
    rw [hincl] at hring
    have h0w : w.cfg.every = 0 := by rw [hce]; exact h0
    cases m with
    | point p =>
      simp only [Msg.t] at hm
      have hinp : includes wm false p.t = true := by unfold includes; simp; omega
      have hring1 := ringst_insert p hring hinp
      by_cases hlt : p.t < w.nextEmit
      · have hs : w.step (.point p) = ({ w with buf := w.buf.insert p }, none) := point_e0_hold w p h0w hlt
        rw [hs]
        obtain ⟨hle', hsorted'⟩ := hist_step (t0 := t0) (.point p) none hle hsorted hm
        refine ⟨sv_none _ _ _ _ (by rw [← hne]; exact hlt), hcfg, ?_, ⟨wm, ?_, ?_⟩, hle', hsorted', fun h => absurd h0 h⟩
        · rw [due_snoc_none]; exact hne
        · rw [hincl, histOf_snoc]; exact hring1
        · rw [lastT_snoc]; simp only [Msg.t]; omega
      · have hs := point_e0_emit w p h0w hlt
        rw [show w.step (.point p) = w.point p from rfl, hs]
        simp only
        obtain ⟨hle', hsorted'⟩ := hist_step (t0 := t0) (.point p)
          (some ⟨p.t, ((w.buf.insert p).purge (p.t - w.cfg.period) false).points⟩) hle hsorted hm
        rw [histOf_snoc, lastT_snoc] at hle'
        rw [histOf_snoc] at hsorted'
        simp only [msgPts, Msg.t] at hle' hsorted'
        obtain ⟨hring2, hpts⟩ := ringst_purge (p.t - w.cfg.period) hring1 hsorted' (by rw [hcp]; omega)
        refine ⟨?_, hcfg, ?_, ⟨p.t - w.cfg.period, ?_, ?_⟩, ?_, ?_, fun h => absurd h0 h⟩
        · apply sv_some
          · rw [← hne]; exact hlt
          · simp [h0, Msg.t]
          · simp only [msgPts]
            rw [hpts, hcp]
            exact content_e0 c p.t _ h0 hle'
        · rw [due_snoc_some, dueAfter_zero c _ h0]; rfl
        · rw [hincl, histOf_snoc]; exact hring2
        · rw [lastT_snoc, hcp]; simp only [Msg.t]; omega
        · rw [histOf_snoc, lastT_snoc]; exact hle'
        · rw [histOf_snoc]; exact hsorted'
    | barrier t =>
      simp only [Msg.t] at hm
      by_cases hlt : t < w.nextEmit
      · have hs : w.step (.barrier t) = (w, none) := barrier_hold w t hlt
        rw [hs]
        obtain ⟨hle', hsorted'⟩ := hist_step (t0 := t0) (.barrier t) none hle hsorted hm
        refine ⟨sv_none _ _ _ _ (by rw [← hne]; exact hlt), hcfg, ?_, ⟨wm, ?_, ?_⟩, hle', hsorted', fun h => absurd h0 h⟩
        · rw [due_snoc_none]; exact hne
        · rw [hincl, histOf_snoc]; simpa [msgPts] using hring
        · rw [lastT_snoc]; simp only [Msg.t]; omega
      · have hs := barrier_e0_emit w t h0w hlt
        rw [show w.step (.barrier t) = w.barrier t from rfl, hs]
        simp only
        obtain ⟨hle', hsorted'⟩ := hist_step (t0 := t0) (.barrier t)
          (some ⟨t, (w.buf.purge (t - w.cfg.period) false).points⟩) hle hsorted hm
        rw [histOf_snoc, lastT_snoc] at hle'
        rw [histOf_snoc] at hsorted'
        simp only [msgPts, Msg.t, List.append_nil] at hle' hsorted'
        obtain ⟨hring2, hpts⟩ := ringst_purge (t - w.cfg.period) hring hsorted (by rw [hcp]; omega)
        refine ⟨?_, hcfg, ?_, ⟨t - w.cfg.period, ?_, ?_⟩, ?_, ?_, fun h => absurd h0 h⟩
        · apply sv_some
          · rw [← hne]; exact hlt
          · simp [h0, Msg.t]
          · simp only [msgPts, List.append_nil]
            rw [hpts, hcp]
            exact content_e0 c t _ h0 hle'
        · rw [due_snoc_some, dueAfter_zero c _ h0]; rfl
        · rw [hincl, histOf_snoc]; simpa [msgPts] using hring2
        · rw [lastT_snoc, hcp]; simp only [Msg.t]; omega
        · rw [histOf_snoc, lastT_snoc]; simpa [msgPts, Msg.t] using hle'
        · rw [histOf_snoc]; simpa [msgPts] using hsorted'
  · -- every ≠ 0: left-closed window [T - period, T), the point is inserted after the emission
    have hepos : 0 < c.every := by omega
    have hincl : (c.every != 0) = true := by simp [h0]
    rw [hincl] at hring
    have h0w : w.cfg.every ≠ 0 := by rw [hce]; exact h0
    have hah := hahead h0
    have hnext : ∀ t : Int, (if w.cfg.align then truncate (t + w.cfg.every) w.cfg.every else t + w.cfg.every)
        = dueAfter c t := by
      intro t; rw [hca, hce]; exact model_dueAfter c t hepos
    cases m with
    | point p =>
      simp only [Msg.t] at hm
      have hinp : includes wm true p.t = true := by unfold includes; simp; omega
      by_cases hlt : p.t < w.nextEmit
      · have hs : w.step (.point p) = ({ w with buf := w.buf.insert p }, none) := point_en_hold w p h0w hlt
        rw [hs]
        obtain ⟨hle', hsorted'⟩ := hist_step (t0 := t0) (.point p) none hle hsorted hm
        refine ⟨sv_none _ _ _ _ (by rw [← hne]; exact hlt), hcfg, ?_, ⟨wm, ?_, ?_⟩, hle', hsorted', ?_⟩
        · rw [due_snoc_none]; exact hne
        · rw [hincl, histOf_snoc]; exact ringst_insert p hring hinp
        · rw [lastT_snoc]; simp only [Msg.t]; omega
        · intro _; rw [lastT_snoc]; exact hlt
      · have hs := point_en_emit w p h0w hlt
        rw [show w.step (.point p) = w.point p from rfl, hs, hnext]
        simp only
        obtain ⟨hle', hsorted'⟩ := hist_step (t0 := t0) (.point p)
          (some ⟨w.nextEmit, (w.buf.purge (w.nextEmit - w.cfg.period) true).points⟩) hle hsorted hm
        obtain ⟨hring2, hpts⟩ := ringst_purge (w.nextEmit - w.cfg.period) hring hsorted (by rw [hcp]; omega)
        have hinp2 : includes (w.nextEmit - w.cfg.period) true p.t = true := by
          unfold includes; simp; rw [hcp]; omega
        refine ⟨?_, hcfg, ?_, ⟨w.nextEmit - w.cfg.period, ?_, ?_⟩, hle', hsorted', ?_⟩
        · apply sv_some
          · rw [← hne]; exact hlt
          · simp [h0, hne]
          · simp only [msgPts]
            rw [hpts, hcp]
            exact content_en c w.nextEmit _ [p] h0
              (fun q hq => Int.lt_of_le_of_lt (hle q hq) hah)
              (fun q hq => by simp at hq; subst hq; omega)
        · rw [due_snoc_some]; rfl
        · rw [hincl, histOf_snoc]; exact ringst_insert p hring2 hinp2
        · rw [lastT_snoc, hcp]; simp only [Msg.t]; omega
        · intro _; rw [lastT_snoc]; exact dueAfter_gt c p.t hepos
    | barrier t =>
      simp only [Msg.t] at hm
      by_cases hlt : t < w.nextEmit
      · have hs : w.step (.barrier t) = (w, none) := barrier_hold w t hlt
        rw [hs]
        obtain ⟨hle', hsorted'⟩ := hist_step (t0 := t0) (.barrier t) none hle hsorted hm
        refine ⟨sv_none _ _ _ _ (by rw [← hne]; exact hlt), hcfg, ?_, ⟨wm, ?_, ?_⟩, hle', hsorted', ?_⟩
        · rw [due_snoc_none]; exact hne
        · rw [hincl, histOf_snoc]; simpa [msgPts] using hring
        · rw [lastT_snoc]; simp only [Msg.t]; omega
        · intro _; rw [lastT_snoc]; exact hlt
      · have hs := barrier_en_emit w t h0w hlt
        rw [show w.step (.barrier t) = w.barrier t from rfl, hs, hnext]
        simp only
        obtain ⟨hle', hsorted'⟩ := hist_step (t0 := t0) (.barrier t)
          (some ⟨w.nextEmit, (w.buf.purge (w.nextEmit - w.cfg.period) true).points⟩) hle hsorted hm
        obtain ⟨hring2, hpts⟩ := ringst_purge (w.nextEmit - w.cfg.period) hring hsorted (by rw [hcp]; omega)
        refine ⟨?_, hcfg, ?_, ⟨w.nextEmit - w.cfg.period, ?_, ?_⟩, hle', hsorted', ?_⟩
        · apply sv_some
          · rw [← hne]; exact hlt
          · simp [h0, hne]
          · simp only [msgPts]
            rw [hpts, hcp]
            exact content_en c w.nextEmit _ [] h0
              (fun q hq => Int.lt_of_le_of_lt (hle q hq) hah)
              (fun q hq => by simp at hq)
        · rw [due_snoc_some]; rfl
        · rw [hincl, histOf_snoc]; simpa [msgPts] using hring2
        · rw [lastT_snoc, hcp]; simp only [Msg.t]; omega
        · intro _; rw [lastT_snoc]; exact dueAfter_gt c t hepos

/-! ### whole runs -/

/-- the window after the messages `ms` -/
def TW.after (w : TW) : List Msg → TW
  | [] => w
  | m :: ms => TW.after (w.step m).1 ms

/-- the trace (message, emitted batch) of a run -/
def TW.traceFrom (w : TW) (ms : List Msg) : Trace := ms.zip (TW.runFrom Buf.insert w ms)

theorem traceFrom_cons (w : TW) (m : Msg) (ms : List Msg) :
    TW.traceFrom w (m :: ms) = (m, (w.step m).2) :: TW.traceFrom (w.step m).1 ms := by
  unfold TW.traceFrom
  simp only [TW.runFrom]
  rfl

theorem run_inv (c : TCfg) (t0 : Int) (hp : 0 < c.period) (he : 0 ≤ c.every) (ms : List Msg) :
    ∀ (tr : Trace) (w : TW), TInv c t0 tr w → nondecreasing (lastT t0 tr :: ms.map Msg.t) = true →
      TInv c t0 (tr ++ TW.traceFrom w ms) (TW.after w ms) ∧
      traceViolationFrom c t0 tr (TW.traceFrom w ms) = none := by
  induction ms with
  | nil =>
    intro tr w hinv _
    simp [TW.traceFrom, TW.after, TW.runFrom, traceViolationFrom, hinv]
  | cons m ms ih =>
    intro tr w hinv hmono
    simp only [List.map_cons, nondecreasing, Bool.and_eq_true, decide_eq_true_eq] at hmono
    obtain ⟨hsv, hinv'⟩ := step_ok c t0 tr w m hp he hinv hmono.1
    have hmono' : nondecreasing (lastT t0 (tr ++ [(m, (w.step m).2)]) :: ms.map Msg.t) = true := by
      rw [lastT_snoc]; exact hmono.2
    obtain ⟨h1, h2⟩ := ih _ _ hinv' hmono'
    rw [traceFrom_cons]
    refine ⟨?_, ?_⟩
    · simp only [TW.after]
      rw [show tr ++ (m, (w.step m).2) :: TW.traceFrom (w.step m).1 ms
            = (tr ++ [(m, (w.step m).2)]) ++ TW.traceFrom (w.step m).1 ms by simp]
      exact h1
    · simp only [traceViolationFrom, hsv]
      exact h2

/-- `traceViolationFrom = none` means: no step violates any clause. -/
theorem tvf_none_steps (c : TCfg) (t0 : Int) (tr : Trace) :
    ∀ (pre : Trace), traceViolationFrom c t0 pre tr = none →
      ∀ (k : Nat) (m : Msg) (o : Option Batch), tr[k]? = some (m, o) →
        stepViolation c t0 (pre ++ tr.take k) m o = none := by
  induction tr with
  | nil => intro pre _ k m o hk; simp at hk
  | cons x tr ih =>
    intro pre h k m o hk
    obtain ⟨m0, o0⟩ := x
    simp only [traceViolationFrom] at h
    cases hsv : stepViolation c t0 pre m0 o0 with
    | some cl => rw [hsv] at h; simp at h
    | none =>
      rw [hsv] at h
      simp only at h
      cases k with
      | zero =>
        simp at hk
        obtain ⟨rfl, rfl⟩ := hk
        simpa using hsv
      | succ k =>
        simp at hk
        have := ih _ h k m o hk
        simpa using this

theorem steps_tvf_none (c : TCfg) (t0 : Int) (tr : Trace) :
    ∀ (pre : Trace),
      (∀ (k : Nat) (m : Msg) (o : Option Batch), tr[k]? = some (m, o) →
        stepViolation c t0 (pre ++ tr.take k) m o = none) →
      traceViolationFrom c t0 pre tr = none := by
  induction tr with
  | nil => intro pre _; rfl
  | cons x tr ih =>
    intro pre h
    obtain ⟨m0, o0⟩ := x
    have h0 := h 0 m0 o0 (by simp)
    simp only [List.take_zero, List.append_nil] at h0
    simp only [traceViolationFrom, h0]
    apply ih
    intro k m o hk
    have := h (k + 1) m o (by simpa using hk)
    simpa using this

/-- The executable oracle the driver runs on the implementation's output decides `TimeWindowOK`. -/
theorem timeWindowOK_iff (c : TCfg) (tr : Trace) : TimeWindowOK c tr ↔ traceViolation c tr = none := by
  unfold TimeWindowOK traceViolation
  cases tr with
  | nil => simp
  | cons x tr =>
    obtain ⟨m0, o0⟩ := x
    simp only
    constructor
    · intro h
      apply steps_tvf_none
      intro k m o hk
      have := h k m0 o0 m o (by simp) hk
      simpa using this
    · intro h k m0' o0' m o h0 hk
      simp at h0
      obtain ⟨rfl, rfl⟩ := h0
      have := tvf_none_steps c _ _ [] h k m o hk
      simpa using this

/-- what `stepViolation … (some b) = none` says -/
theorem sv_some_inv (c : TCfg) (t0 : Int) (tr : Trace) (m : Msg) (b : Batch)
    (h : stepViolation c t0 tr m (some b) = none) :
    ¬ m.t < due c t0 tr ∧ b.tmax = (if c.every = 0 then m.t else due c t0 tr) ∧
    b.pts = specContent c b.tmax (received (tr.map (·.1) ++ [m])) := by
  unfold stepViolation at h
  simp only at h
  by_cases h1 : m.t < due c t0 tr
  · simp [h1] at h
  · simp only [h1, if_false] at h
    by_cases h2 : b.tmax = if c.every = 0 then m.t else due c t0 tr
    · simp only [h2, ne_eq, not_true_eq_false, if_false] at h
      by_cases h3 : b.pts = specContent c (if c.every = 0 then m.t else due c t0 tr) (received (tr.map (·.1) ++ [m]))
      · exact ⟨h1, h2, by rw [h2]; exact h3⟩
      · simp [h3] at h
    · simp [h2] at h

theorem sv_none_inv (c : TCfg) (t0 : Int) (tr : Trace) (m : Msg)
    (h : stepViolation c t0 tr m none = none) : m.t < due c t0 tr := by
  unfold stepViolation at h
  simp only at h
  by_cases h1 : m.t < due c t0 tr
  · exact h1
  · simp [h1] at h

theorem zip_run_head (c : TCfg) (m : Msg) (ms : List Msg) :
    ((m :: ms).zip (runTime c (m :: ms)))[0]? = some (m, ((TW.init c m.t).step m).2) := by
  show ((m :: ms).zip (TW.runFrom Buf.insert (TW.init c m.t) (m :: ms)))[0]? = _
  simp only [TW.runFrom, List.zip_cons_cons, List.getElem?_cons_zero]
  rfl

/-- the invariant holds after every non-decreasing history -/
theorem tinv_after (c : TCfg) (m0 : Msg) (ms : List Msg) (hp : 0 < c.period) (he : 0 ≤ c.every)
    (hmono : nondecreasing ((m0 :: ms).map Msg.t) = true) :
    TInv c m0.t (TW.traceFrom (TW.init c m0.t) (m0 :: ms)) (TW.after (TW.init c m0.t) (m0 :: ms)) := by
  have hinit := tinv_init c m0.t hp he
  have hm : nondecreasing (lastT m0.t [] :: (m0 :: ms).map Msg.t) = true := by
    simp only [lastT, List.getLast?_nil, Option.map_none, Option.getD_none, List.map_cons, nondecreasing,
      Bool.and_eq_true, decide_eq_true_eq]
    exact ⟨Int.le_refl _, by simpa [nondecreasing] using hmono⟩
  have := (run_inv c m0.t hp he (m0 :: ms) [] _ hinit hm).1
  simpa using this

theorem histOf_traceFrom (w : TW) (ms : List Msg) : histOf (TW.traceFrom w ms) = received ms := by
  unfold histOf TW.traceFrom
  congr 1
  have : ∀ (w : TW) (l : List Msg), (TW.runFrom Buf.insert w l).length = l.length := by
    intro w l; induction l generalizing w with
    | nil => rfl
    | cons a l ih => simp [TW.runFrom, ih]
  rw [List.map_fst_zip (by rw [this]; exact Nat.le_refl _)]

end Kap.C03
