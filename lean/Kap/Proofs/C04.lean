/-
C04 — helper lemmas, part 1: the regenerated operator table against the documented matrix.

`canon e` is a decidable check on ONE extracted entry: the `EvalX` methods are those of the key's types, the
declared return type is the filled result field and the documented result type, the control shape is the
short circuit of AND / OR and plain otherwise, and the result expression and zero guard are the canonical Go
expression for that key (`canonR`). `canon_sound` lifts the check to semantics once and for all: a canonical
entry computes `refBinop` on every pair of values of its key types, and never panics. The theorems in
`Kap/Props/C04.lean` then only have to `decide` `canon` over the regenerated table.
-/
import Kap.Spec.C04
namespace Kap.C04

/-- the canonical result expression and zero guard for a key of the documented matrix. -/
def canonR (op : BOp) (lt rt : Ty) : Option (RExp × Bool) :=
  let cmp (c : GoOp) : Option (RExp × Bool) :=
    if lt == .int && rt == .float then some (.bin c (.conv .toFloat .left) .right, false)
    else if lt == .float && rt == .int then some (.bin c .left (.conv .toFloat .right), false)
    else some (.bin c .left .right, false)
  match binType op lt rt with
  | none => none
  | some _ =>
    match op with
    | .and => some (.bin .land .left .right, false)
    | .or => some (.bin .lor .left .right, false)
    | .eq => cmp .eq | .ne => cmp .ne | .lt => cmp .lt | .le => cmp .le | .gt => cmp .gt | .ge => cmp .ge
    | .reEq => some (.matchRL, false)
    | .reNe => some (.not .matchRL, false)
    | .plus => some (.bin .add .left .right, false)
    | .minus => some (.bin .sub .left .right, false)
    | .mult =>
      if lt == rt then some (.bin .mul .left .right, false)
      else if lt == .duration && rt == .int then some (.bin .mul .left (.conv .toDur .right), false)
      else if lt == .int && rt == .duration then some (.bin .mul (.conv .toDur .left) .right, false)
      else if lt == .duration && rt == .float then some (.conv .toDur (.bin .mul (.conv .toFloat .left) .right), false)
      else some (.conv .toDur (.bin .mul .left (.conv .toFloat .right)), false)
    | .div =>
      if lt == .float then some (.bin .quo .left .right, false)
      else if lt == .int then some (.bin .quo .left .right, true)
      else if rt == .int then some (.bin .quo .left (.conv .toDur .right), true)
      else if rt == .float then some (.conv .toDur (.bin .quo (.conv .toFloat .left) .right), false)
      else some (.conv .toInt (.bin .quo .left .right), true)
    | .mod => some (.bin .rem .left .right, true)

def canon (e : Entry) : Bool :=
  e.lm == e.lt && e.rm == e.rt && e.ret == e.res && binType e.op e.lt e.rt == some e.ret &&
  (e.shape == (match e.op with | .and => .andSC | .or => .orSC | _ => .plain)) &&
  canonR e.op e.lt e.rt == some (e.rexp, e.zeroGuard)

section
variable {F : Type} (ops : FOps F) (reMatch : Bytes → Bytes → Option Bool)

theorem canon_sound (e : Entry) (h : canon e = true) (vl vr : Value F) (hl : vl.ty = e.lt) (hr : vr.ty = e.rt) :
    e.compute ops reMatch vl vr = refBinop ops reMatch e.op vl vr ∧ e.compute ops reMatch vl vr ≠ .trap := by
  obtain ⟨op, lt, rt, lm, rm, shape, zg, res, rexp, ret⟩ := e
  simp only [canon, Bool.and_eq_true, beq_iff_eq] at h
  obtain ⟨⟨⟨⟨⟨-, -⟩, hret⟩, hbt⟩, -⟩, hc⟩ := h
  subst hret
  simp only at hl hr hbt hc
  subst hl hr
  cases op <;> cases vl <;> cases vr <;>
    simp [canonR, binType, Value.ty] at hbt hc <;>
    (try obtain ⟨rfl, rfl⟩ := hc) <;>
    (try subst hbt) <;>
    simp [Entry.compute, isZeroV, RExp.eval, goBin, goConv, goQuo, goRem, refBinop, refCmp, refDiv, refMod, Value.ty] <;>
    (try (split <;> simp_all)) <;>
    (try (rename_i s p; cases hre : reMatch p s <;> simp [hre, Value.ty]))
end
end Kap.C04
