/-
C04 — helper lemmas, part 2: the specialisation cache is transparent.
`Inv e c`: every binary node of `e` whose operands are both non-dynamic holds, in the cache `c`, exactly the
function chosen at construction (`lookup` for the constant operand types); nothing is required of nodes with
a dynamic operand (their cached types and function may be arbitrary and stale).
-/
import Kap.Model.C04
namespace Kap.C04

section
variable {F : Type} (ctx : Ctx F)

def Inv : Expr F → Cache → Prop
  | .un _ e, c => Inv e c.k1
  | .bin op l r, c =>
    ((isDyn ctx l || isDyn ctx r) = true ∨ c.fn = lookup ctx.tbl op (constType ctx l) (constType ctx r)) ∧
      Inv l c.k1 ∧ Inv r c.k2
  | .call1 _ a, c => Inv a c.k1
  | .call2 _ a b, c => Inv a c.k1 ∧ Inv b c.k2
  | .call3 _ a b d, c => Inv a c.k1 ∧ Inv b c.k2 ∧ Inv d c.k3
  | .call4 _ a b d e, c => Inv a c.k1 ∧ Inv b c.k2 ∧ Inv d c.k3a ∧ Inv e c.k3b
  | .lam _ e, c => Inv e c.k1
  | _, _ => True

@[simp] theorem k1_setK1 (c k : Cache) : (c.setK1 k).k1 = k := rfl
@[simp] theorem k2_setK1 (c k : Cache) : (c.setK1 k).k2 = c.k2 := rfl
@[simp] theorem k3_setK1 (c k : Cache) : (c.setK1 k).k3 = c.k3 := rfl
@[simp] theorem fn_setK1 (c k : Cache) : (c.setK1 k).fn = c.fn := rfl
@[simp] theorem k1_setK2 (c k : Cache) : (c.setK2 k).k1 = c.k1 := rfl
@[simp] theorem k2_setK2 (c k : Cache) : (c.setK2 k).k2 = k := rfl
@[simp] theorem k3_setK2 (c k : Cache) : (c.setK2 k).k3 = c.k3 := rfl
@[simp] theorem fn_setK2 (c k : Cache) : (c.setK2 k).fn = c.fn := rfl
@[simp] theorem k1_setK3 (c k : Cache) : (c.setK3 k).k1 = c.k1 := rfl
@[simp] theorem k2_setK3 (c k : Cache) : (c.setK3 k).k2 = c.k2 := rfl
@[simp] theorem k3_setK3 (c k : Cache) : (c.setK3 k).k3 = k := rfl
@[simp] theorem fn_setK3 (c k : Cache) : (c.setK3 k).fn = c.fn := rfl
@[simp] theorem k1_node (a b : Ty) (f : Option Entry) (x y z : Cache) : (Cache.node a b f x y z).k1 = x := rfl
@[simp] theorem k2_node (a b : Ty) (f : Option Entry) (x y z : Cache) : (Cache.node a b f x y z).k2 = y := rfl
@[simp] theorem k3_node (a b : Ty) (f : Option Entry) (x y z : Cache) : (Cache.node a b f x y z).k3 = z := rfl
@[simp] theorem k3a_setK1 (c k : Cache) : (c.setK1 k).k3a = c.k3a := rfl
@[simp] theorem k3b_setK1 (c k : Cache) : (c.setK1 k).k3b = c.k3b := rfl
@[simp] theorem k3a_setK2 (c k : Cache) : (c.setK2 k).k3a = c.k3a := rfl
@[simp] theorem k3b_setK2 (c k : Cache) : (c.setK2 k).k3b = c.k3b := rfl
@[simp] theorem k1_setK3a (c k : Cache) : (c.setK3a k).k1 = c.k1 := rfl
@[simp] theorem k2_setK3a (c k : Cache) : (c.setK3a k).k2 = c.k2 := rfl
@[simp] theorem k3a_setK3a (c k : Cache) : (c.setK3a k).k3a = k := rfl
@[simp] theorem k3b_setK3a (c k : Cache) : (c.setK3a k).k3b = c.k3b := rfl
@[simp] theorem k1_setK3b (c k : Cache) : (c.setK3b k).k1 = c.k1 := rfl
@[simp] theorem k2_setK3b (c k : Cache) : (c.setK3b k).k2 = c.k2 := rfl
@[simp] theorem k3a_setK3b (c k : Cache) : (c.setK3b k).k3a = c.k3a := rfl
@[simp] theorem k3b_setK3b (c k : Cache) : (c.setK3b k).k3b = k := rfl
@[simp] theorem k3a_node (a b : Ty) (f : Option Entry) (x y z : Cache) : (Cache.node a b f x y z).k3a = z.k1 := rfl
@[simp] theorem k3b_node (a b : Ty) (f : Option Entry) (x y z : Cache) : (Cache.node a b f x y z).k3b = z.k2 := rfl
@[simp] theorem fn_node (a b : Ty) (f : Option Entry) (x y z : Cache) : (Cache.node a b f x y z).fn = f := rfl

/-- the cache right after construction satisfies the invariant. -/
theorem compile_inv (e : Expr F) : Inv ctx e (compileCache ctx e) := by
  induction e with
  | bin op l r ihl ihr =>
    simp only [compileCache]
    split
    · rename_i h; exact ⟨Or.inl h, by simpa using ihl, by simpa using ihr⟩
    · exact ⟨Or.inr (by simp), by simpa using ihl, by simpa using ihr⟩
  | un op e ih => simpa [compileCache, Inv] using ih
  | lam i e ih => simpa [compileCache, Inv] using ih
  | call1 fn a ih => simpa [compileCache, Inv] using ih
  | call2 fn a b iha ihb => exact ⟨by simpa [compileCache] using iha, by simpa [compileCache] using ihb⟩
  | call3 fn a b d iha ihb ihd =>
    exact ⟨by simpa [compileCache] using iha, by simpa [compileCache] using ihb, by simpa [compileCache] using ihd⟩
  | call4 fn a b d e iha ihb ihd ihe =>
    exact ⟨by simpa [compileCache] using iha, by simpa [compileCache] using ihb, by simpa [compileCache] using ihd,
      by simpa [compileCache] using ihe⟩
  | _ => simp [Inv]

variable (σ : Scope F)

/-- `Type()` keeps the invariant (it writes cached TYPES only). -/
theorem typeW_inv (e : Expr F) : ∀ c, Inv ctx e c → Inv ctx e (typeW ctx σ e c) := by
  induction e with
  | bin op l r ihl ihr =>
    intro c h
    obtain ⟨h1, h2, h3⟩ := h
    simp only [typeW]
    split
    · exact ⟨h1, h2, h3⟩
    · split
      · exact ⟨by simpa using h1, by simpa using ihl _ h2, by simpa using h3⟩
      · exact ⟨by simpa using h1, by simpa using ihl _ h2, by simpa using ihr _ h3⟩
  | un op e ih =>
    intro c h
    simp only [typeW]
    split
    · exact h
    · simpa [Inv] using ih _ h
  | lam i e ih =>
    intro c h
    simp only [typeW]
    split
    · exact h
    · simpa [Inv] using ih _ h
  | call1 fn a ih => intro c h; simpa [typeW, Inv] using ih _ h
  | call2 fn a b iha ihb =>
    intro c h
    obtain ⟨h1, h2⟩ := h
    simp only [typeW]
    split
    · exact ⟨by simpa using iha _ h1, by simpa using ihb _ h2⟩
    · exact ⟨by simpa using iha _ h1, by simpa using h2⟩
  | call3 fn a b d iha ihb ihd =>
    intro c h
    obtain ⟨h1, h2, h3⟩ := h
    simp only [typeW]
    split
    · split
      · exact ⟨by simpa using iha _ h1, by simpa using ihb _ h2, by simpa using ihd _ h3⟩
      · exact ⟨by simpa using iha _ h1, by simpa using ihb _ h2, by simpa using h3⟩
    · exact ⟨by simpa using iha _ h1, by simpa using h2, by simpa using h3⟩
  | call4 fn a b d e iha ihb ihd ihe =>
    intro c h
    obtain ⟨h1, h2, h3, h4⟩ := h
    simp only [typeW]
    split
    · split
      · split
        · exact ⟨by simpa using iha _ h1, by simpa using ihb _ h2, by simpa using ihd _ h3, by simpa using ihe _ h4⟩
        · exact ⟨by simpa using iha _ h1, by simpa using ihb _ h2, by simpa using ihd _ h3, by simpa using h4⟩
      · exact ⟨by simpa using iha _ h1, by simpa using ihb _ h2, by simpa using h3, by simpa using h4⟩
    · exact ⟨by simpa using iha _ h1, by simpa using h2, by simpa using h3, by simpa using h4⟩
  | _ => intro c h; simp [Inv]


/-- `argEval` and `argEvalN` agree when the recursive evaluations agree. -/

theorem argEval_eq (tp : Option Ty) (m : Bool) (k : Cache) (st : FnState F)
    (rc : Ty → Outcome (Value F) × Cache × FnState F) (rn : Ty → Outcome (Value F) × FnState F)
    (P : Cache → Prop) (hk : P k)
    (h : ∀ t, (rc t).1 = (rn t).1 ∧ (rc t).2.2 = (rn t).2 ∧ P (rc t).2.1) :
    (argEval tp m k st rc).1 = (argEvalN tp m st rn).1 ∧ (argEval tp m k st rc).2.2 = (argEvalN tp m st rn).2 ∧
      P (argEval tp m k st rc).2.1 := by
  unfold argEval argEvalN
  split <;> (try split) <;> simp_all

theorem evalC_eq_evalN (e : Expr F) : ∀ (w : Ty) (c : Cache) (st : FnState F), Inv ctx e c →
    (evalC ctx σ w e c st).1 = (evalN ctx σ w e st).1 ∧
    (evalC ctx σ w e c st).2.2 = (evalN ctx σ w e st).2 ∧
    Inv ctx e (evalC ctx σ w e c st).2.1 := by
  induction e with
  | lit v => intro w c st h; simp [evalC, evalN, Inv]
  | ref n => intro w c st h; simp only [evalC, evalN]; split <;> simp [Inv]
  | call0 fn => intro w c st h; simp [evalC, evalN, Inv]
  | callMany fn => intro w c st h; simp [evalC, evalN, Inv]
  | lam i e ih =>
    intro w c st h
    have hc1 := typeW_inv ctx σ (.lam i e) c h
    have hi := ih w (typeW ctx σ (.lam i e) c).k1 (st.enter i) hc1
    simp only [evalC, evalN]
    split
    · exact ⟨rfl, rfl, hc1⟩
    · split
      · obtain ⟨h1, h2, h3⟩ := hi
        refine ⟨?_, ?_, ?_⟩
        · simp only [h1]
        · simp only [h2]
        · simpa [Inv] using h3
      · exact ⟨rfl, rfl, hc1⟩
  | un op e ih =>
    intro w c st h
    have hc1 := typeW_inv ctx σ (.un op e) c h
    have hi := ih w (typeW ctx σ (.un op e) c).k1 st hc1
    simp only [evalC, evalN]
    split
    · split
      · exact ⟨rfl, rfl, hc1⟩
      · split
        · split
          · exact ⟨rfl, rfl, hc1⟩
          · obtain ⟨h1, h2, h3⟩ := hi
            refine ⟨?_, ?_, ?_⟩
            · simp only [h1]
            · simp only [h2]
            · simpa [Inv] using h3
        · exact ⟨rfl, rfl, hc1⟩
    · exact ⟨rfl, rfl, h⟩
  | call1 fn a ih =>
    intro w c st h
    have hk := typeW_inv ctx σ a c.k1 h
    have ha := argEval_eq (typeP ctx σ a) (missOk a) (typeW ctx σ a c.k1) st
      (fun t => evalC ctx σ t a (typeW ctx σ a c.k1) st) (fun t => evalN ctx σ t a st) (Inv ctx a) hk
      (fun t => ih t _ st hk)
    simp only [evalC, evalN]
    rcases hC : argEval (typeP ctx σ a) (missOk a) (typeW ctx σ a c.k1) st
      (fun t => evalC ctx σ t a (typeW ctx σ a c.k1) st) with ⟨r1, k1, s1⟩
    rcases hN : argEvalN (typeP ctx σ a) (missOk a) st (fun t => evalN ctx σ t a st) with ⟨r1n, s1n⟩
    rw [hC, hN] at ha
    obtain ⟨h1, h2, h3⟩ := ha
    simp only at h1 h2 h3
    subst h1 h2
    cases r1 <;> simpa [Inv] using h3
  | call2 fn a b iha ihb =>
    intro w c st h
    obtain ⟨hia, hib⟩ := h
    have hka := typeW_inv ctx σ a c.k1 hia
    have hkb := typeW_inv ctx σ b c.k2 hib
    have ha := argEval_eq (typeP ctx σ a) (missOk a) (typeW ctx σ a c.k1) st
      (fun t => evalC ctx σ t a (typeW ctx σ a c.k1) st) (fun t => evalN ctx σ t a st) (Inv ctx a) hka
      (fun t => iha t _ st hka)
    simp only [evalC, evalN]
    rcases hC : argEval (typeP ctx σ a) (missOk a) (typeW ctx σ a c.k1) st
      (fun t => evalC ctx σ t a (typeW ctx σ a c.k1) st) with ⟨r1, k1, s1⟩
    rcases hN : argEvalN (typeP ctx σ a) (missOk a) st (fun t => evalN ctx σ t a st) with ⟨r1n, s1n⟩
    rw [hC, hN] at ha
    obtain ⟨h1, h2, h3⟩ := ha
    simp only at h1 h2 h3
    subst h1 h2
    cases r1 with
    | ok v1 =>
      simp only
      have hb := argEval_eq (typeP ctx σ b) (missOk b) (typeW ctx σ b c.k2) s1
        (fun t => evalC ctx σ t b (typeW ctx σ b c.k2) s1) (fun t => evalN ctx σ t b s1) (Inv ctx b) hkb
        (fun t => ihb t _ s1 hkb)
      rcases hC2 : argEval (typeP ctx σ b) (missOk b) (typeW ctx σ b c.k2) s1
        (fun t => evalC ctx σ t b (typeW ctx σ b c.k2) s1) with ⟨r2, k2, s2⟩
      rcases hN2 : argEvalN (typeP ctx σ b) (missOk b) s1 (fun t => evalN ctx σ t b s1) with ⟨r2n, s2n⟩
      rw [hC2, hN2] at hb
      obtain ⟨g1, g2, g3⟩ := hb
      simp only at g1 g2 g3
      subst g1 g2
      cases r2 <;> simp [Inv, h3, g3]
    | err => simp [Inv, h3, hib]
    | trap => simp [Inv, h3, hib]
  | call3 fn a b d iha ihb ihd =>
    intro w c st h
    obtain ⟨hia, hib, hid⟩ := h
    have hka := typeW_inv ctx σ a c.k1 hia
    have hkb := typeW_inv ctx σ b c.k2 hib
    have hkd := typeW_inv ctx σ d c.k3 hid
    have ha := argEval_eq (typeP ctx σ a) (missOk a) (typeW ctx σ a c.k1) st
      (fun t => evalC ctx σ t a (typeW ctx σ a c.k1) st) (fun t => evalN ctx σ t a st) (Inv ctx a) hka
      (fun t => iha t _ st hka)
    simp only [evalC, evalN]
    rcases hC : argEval (typeP ctx σ a) (missOk a) (typeW ctx σ a c.k1) st
      (fun t => evalC ctx σ t a (typeW ctx σ a c.k1) st) with ⟨r1, k1, s1⟩
    rcases hN : argEvalN (typeP ctx σ a) (missOk a) st (fun t => evalN ctx σ t a st) with ⟨r1n, s1n⟩
    rw [hC, hN] at ha
    obtain ⟨h1, h2, h3⟩ := ha
    simp only at h1 h2 h3
    subst h1 h2
    cases r1 with
    | ok v1 =>
      simp only
      have hb := argEval_eq (typeP ctx σ b) (missOk b) (typeW ctx σ b c.k2) s1
        (fun t => evalC ctx σ t b (typeW ctx σ b c.k2) s1) (fun t => evalN ctx σ t b s1) (Inv ctx b) hkb
        (fun t => ihb t _ s1 hkb)
      rcases hC2 : argEval (typeP ctx σ b) (missOk b) (typeW ctx σ b c.k2) s1
        (fun t => evalC ctx σ t b (typeW ctx σ b c.k2) s1) with ⟨r2, k2, s2⟩
      rcases hN2 : argEvalN (typeP ctx σ b) (missOk b) s1 (fun t => evalN ctx σ t b s1) with ⟨r2n, s2n⟩
      rw [hC2, hN2] at hb
      obtain ⟨g1, g2, g3⟩ := hb
      simp only at g1 g2 g3
      subst g1 g2
      cases r2 with
      | ok v2 =>
        simp only
        have hd := argEval_eq (typeP ctx σ d) (missOk d) (typeW ctx σ d c.k3) s2
          (fun t => evalC ctx σ t d (typeW ctx σ d c.k3) s2) (fun t => evalN ctx σ t d s2) (Inv ctx d) hkd
          (fun t => ihd t _ s2 hkd)
        rcases hC3 : argEval (typeP ctx σ d) (missOk d) (typeW ctx σ d c.k3) s2
          (fun t => evalC ctx σ t d (typeW ctx σ d c.k3) s2) with ⟨r3, k3, s3⟩
        rcases hN3 : argEvalN (typeP ctx σ d) (missOk d) s2 (fun t => evalN ctx σ t d s2) with ⟨r3n, s3n⟩
        rw [hC3, hN3] at hd
        obtain ⟨f1, f2, f3⟩ := hd
        simp only at f1 f2 f3
        subst f1 f2
        cases r3 <;> simp [Inv, h3, g3, f3]
      | err => simp [Inv, h3, g3, hid]
      | trap => simp [Inv, h3, g3, hid]
    | err => simp [Inv, h3, hib, hid]
    | trap => simp [Inv, h3, hib, hid]
  | call4 fn a b d e iha ihb ihd ihe =>
    intro w c st h
    obtain ⟨hia, hib, hid, hie⟩ := h
    have hka := typeW_inv ctx σ a c.k1 hia
    have hkb := typeW_inv ctx σ b c.k2 hib
    have hkd := typeW_inv ctx σ d c.k3a hid
    have hke := typeW_inv ctx σ e c.k3b hie
    have ha := argEval_eq (typeP ctx σ a) (missOk a) (typeW ctx σ a c.k1) st
      (fun t => evalC ctx σ t a (typeW ctx σ a c.k1) st) (fun t => evalN ctx σ t a st) (Inv ctx a) hka
      (fun t => iha t _ st hka)
    simp only [evalC, evalN]
    rcases hC : argEval (typeP ctx σ a) (missOk a) (typeW ctx σ a c.k1) st
      (fun t => evalC ctx σ t a (typeW ctx σ a c.k1) st) with ⟨r1, k1, s1⟩
    rcases hN : argEvalN (typeP ctx σ a) (missOk a) st (fun t => evalN ctx σ t a st) with ⟨r1n, s1n⟩
    rw [hC, hN] at ha
    obtain ⟨h1, h2, h3⟩ := ha
    simp only at h1 h2 h3
    subst h1 h2
    cases r1 with
    | ok v1 =>
      simp only
      have hb := argEval_eq (typeP ctx σ b) (missOk b) (typeW ctx σ b c.k2) s1
        (fun t => evalC ctx σ t b (typeW ctx σ b c.k2) s1) (fun t => evalN ctx σ t b s1) (Inv ctx b) hkb
        (fun t => ihb t _ s1 hkb)
      rcases hC2 : argEval (typeP ctx σ b) (missOk b) (typeW ctx σ b c.k2) s1
        (fun t => evalC ctx σ t b (typeW ctx σ b c.k2) s1) with ⟨r2, k2, s2⟩
      rcases hN2 : argEvalN (typeP ctx σ b) (missOk b) s1 (fun t => evalN ctx σ t b s1) with ⟨r2n, s2n⟩
      rw [hC2, hN2] at hb
      obtain ⟨g1, g2, g3⟩ := hb
      simp only at g1 g2 g3
      subst g1 g2
      cases r2 with
      | ok v2 =>
        simp only
        have hd := argEval_eq (typeP ctx σ d) (missOk d) (typeW ctx σ d c.k3a) s2
          (fun t => evalC ctx σ t d (typeW ctx σ d c.k3a) s2) (fun t => evalN ctx σ t d s2) (Inv ctx d) hkd
          (fun t => ihd t _ s2 hkd)
        rcases hC3 : argEval (typeP ctx σ d) (missOk d) (typeW ctx σ d c.k3a) s2
          (fun t => evalC ctx σ t d (typeW ctx σ d c.k3a) s2) with ⟨r3, k3, s3⟩
        rcases hN3 : argEvalN (typeP ctx σ d) (missOk d) s2 (fun t => evalN ctx σ t d s2) with ⟨r3n, s3n⟩
        rw [hC3, hN3] at hd
        obtain ⟨f1, f2, f3⟩ := hd
        simp only at f1 f2 f3
        subst f1 f2
        cases r3 with
        | ok v3 =>
          simp only
          have he := argEval_eq (typeP ctx σ e) (missOk e) (typeW ctx σ e c.k3b) s3
            (fun t => evalC ctx σ t e (typeW ctx σ e c.k3b) s3) (fun t => evalN ctx σ t e s3) (Inv ctx e) hke
            (fun t => ihe t _ s3 hke)
          rcases hC4 : argEval (typeP ctx σ e) (missOk e) (typeW ctx σ e c.k3b) s3
            (fun t => evalC ctx σ t e (typeW ctx σ e c.k3b) s3) with ⟨r4, k4, s4⟩
          rcases hN4 : argEvalN (typeP ctx σ e) (missOk e) s3 (fun t => evalN ctx σ t e s3) with ⟨r4n, s4n⟩
          rw [hC4, hN4] at he
          obtain ⟨e1, e2, e3⟩ := he
          simp only at e1 e2 e3
          subst e1 e2
          cases r4 <;> simp [Inv, h3, g3, f3, e3]
        | err => simp [Inv, h3, g3, f3, hie]
        | trap => simp [Inv, h3, g3, f3, hie]
      | err => simp [Inv, h3, g3, hid, hie]
      | trap => simp [Inv, h3, g3, hid, hie]
    | err => simp [Inv, h3, hib, hid, hie]
    | trap => simp [Inv, h3, hib, hid, hie]
  | bin op l r ihl ihr =>
    intro w c st h
    have hspec : (specC ctx σ op l r c).1 = (specN ctx σ op l r).1 ∧
        (specC ctx σ op l r c).2.1 = (specN ctx σ op l r).2 ∧ Inv ctx (.bin op l r) (specC ctx σ op l r c).2.2 := by
      obtain ⟨h1, h2, h3⟩ := h
      unfold specC specN
      split
      · rename_i hd
        cases typeP ctx σ l with
        | none => exact ⟨rfl, rfl, Or.inl hd, by simpa using typeW_inv ctx σ l _ h2, by simpa using h3⟩
        | some tl =>
          cases typeP ctx σ r with
          | none => exact ⟨rfl, rfl, Or.inl hd, by simpa using typeW_inv ctx σ l _ h2, by simpa using typeW_inv ctx σ r _ h3⟩
          | some tr => exact ⟨rfl, rfl, Or.inl hd, by simpa using typeW_inv ctx σ l _ h2, by simpa using typeW_inv ctx σ r _ h3⟩
      · rename_i hd
        refine ⟨rfl, ?_, h1, h2, h3⟩
        rcases h1 with h1 | h1
        · exact absurd h1 hd
        · exact h1
    simp only [evalC, evalN]
    rcases hsC : specC ctx σ op l r c with ⟨bC, fnC, cS⟩
    rcases hsN : specN ctx σ op l r with ⟨bN, fnN⟩
    rw [hsC, hsN] at hspec
    obtain ⟨e1, e2, hS⟩ := hspec
    simp only at e1 e2 hS
    subst e1 e2
    obtain ⟨hS1, hSl, hSr⟩ := hS
    split
    · split
      · exact ⟨rfl, rfl, hS1, hSl, hSr⟩
      · cases fnC with
        | none => exact ⟨rfl, rfl, hS1, hSl, hSr⟩
        | some ent =>
          simp only
          obtain ⟨a1, a2, a3⟩ := ihl ent.lm cS.k1 st hSl
          rcases hl : evalC ctx σ ent.lm l cS.k1 st with ⟨rl, k1', st1⟩
          rcases hln : evalN ctx σ ent.lm l st with ⟨rln, st1n⟩
          rw [hl, hln] at a1 a2
          rw [hl] at a3
          simp only at a1 a2 a3
          subst a1 a2
          cases rl with
          | ok vl =>
            simp only
            split
            · exact ⟨rfl, rfl, by simpa using hS1, by simpa using a3, by simpa using hSr⟩
            · split
              · exact ⟨rfl, rfl, by simpa using hS1, by simpa using a3, by simpa using hSr⟩
              · obtain ⟨b1, b2, b3⟩ := ihr ent.rm cS.k2 st1 hSr
                rcases hr : evalC ctx σ ent.rm r cS.k2 st1 with ⟨rr, k2', st2⟩
                rcases hrn : evalN ctx σ ent.rm r st1 with ⟨rrn, st2n⟩
                rw [hr, hrn] at b1 b2
                rw [hr] at b3
                simp only at b1 b2 b3
                subst b1 b2
                cases rr <;> exact ⟨rfl, rfl, by simpa using hS1, by simpa using a3, by simpa using b3⟩
          | err => exact ⟨rfl, rfl, by simpa using hS1, by simpa using a3, by simpa using hSr⟩
          | trap => exact ⟨rfl, rfl, by simpa using hS1, by simpa using a3, by simpa using hSr⟩
    · exact ⟨rfl, rfl, h⟩

/-- the four entry paths agree with their cache-erased versions and keep the invariant. -/
theorem runPath_eq (p : Path) (e : Expr F) (c : Cache) (st : FnState F) (h : Inv ctx e c) :
    (runPath ctx σ p e c st).1 = (runPathN ctx σ p e st).1 ∧
    (runPath ctx σ p e c st).2.2 = (runPathN ctx σ p e st).2 ∧
    Inv ctx e (runPath ctx σ p e c st).2.1 := by
  have hW := typeW_inv ctx σ e c h
  cases p with
  | eval =>
    simp only [runPath, runPathN, evalTop, evalTopN]
    split
    · exact ⟨rfl, rfl, hW⟩
    · split
      · rename_i t _ _
        obtain ⟨a1, a2, a3⟩ := evalC_eq_evalN ctx σ e t _ st hW
        rcases hc : evalC ctx σ t e (typeW ctx σ e c) st with ⟨r, c2, s2⟩
        rcases hn : evalN ctx σ t e st with ⟨rn, s2n⟩
        rw [hc, hn] at a1 a2
        rw [hc] at a3
        simp only at a1 a2 a3
        subst a1 a2
        exact ⟨rfl, rfl, a3⟩
      · exact ⟨rfl, rfl, hW⟩
  | pred =>
    simp only [runPath, runPathN, evalPred, evalPredN]
    split
    · exact ⟨rfl, rfl, hW⟩
    · exact evalC_eq_evalN ctx σ e .bool _ st hW
  | direct w => exact evalC_eq_evalN ctx σ e w c st h
  | type => exact ⟨rfl, rfl, hW⟩

/-- every cache reachable from `NewExpression` by any evaluations satisfies the invariant. -/
theorem reach_inv (e : Expr F) (pre : List (Path × Scope F × FnState F)) : Inv ctx e (reach ctx e pre) := by
  unfold reach
  suffices h : ∀ c, Inv ctx e c → Inv ctx e (pre.foldl (fun c x => (runPath ctx x.2.1 x.1 e c x.2.2).2.1) c) from
    h _ (compile_inv ctx e)
  induction pre with
  | nil => intro c h; exact h
  | cons x xs ih => intro c h; exact ih _ (runPath_eq ctx x.2.1 x.1 e c x.2.2 h).2.2

end
end Kap.C04
