/-
C04 — helper lemmas, part 0: the natively defined builtins return values of their declared type.
-/
import Kap.Model.C04Lib
namespace Kap.C04.Lib
section
variable {F : Type} (ops : FOps F)

theorem strFn_ret (fn : String) (args : List (Value F)) (r : Option Bytes) (h : strFn fn args = some r) :
    builtinRet fn = some .string := by
  unfold strFn at h
  repeat' split at h
  all_goals first | (cases h; done) | (subst_vars; decide)

theorem intFn_ret (fn : String) (args : List (Value F)) (r : Option Int) (h : intFn ops fn args = some r) :
    builtinRet fn = some .int := by
  unfold intFn at h
  repeat' split at h
  all_goals first | (cases h; done) | (subst_vars; decide)

theorem boolFn_ret (fn : String) (args : List (Value F)) (r : Option Bool) (h : boolFn ops fn args = some r) :
    builtinRet fn = some .bool := by
  unfold boolFn at h
  repeat' split at h
  all_goals first | (cases h; done) | (subst_vars; decide)

theorem floatFn_ret (fn : String) (args : List (Value F)) (r : Option F) (h : floatFn ops fn args = some r) :
    builtinRet fn = some .float := by
  unfold floatFn at h
  repeat' split at h
  all_goals first | (cases h; done) | (subst_vars; decide)

theorem durFn_ret (fn : String) (args : List (Value F)) (r : Option Int) (h : durFn ops fn args = some r) :
    builtinRet fn = some .duration := by
  unfold durFn at h
  repeat' split at h
  all_goals first | (cases h; done) | (subst_vars; decide)

/-- a natively defined builtin returns a value of its declared type. -/
theorem builtin_ty (fn : String) (args : List (Value F)) (v : Value F) (h : builtin ops fn args = some (some v)) :
    builtinRet fn = some v.ty := by
  unfold builtin at h
  split at h
  · rename_i r hr
    cases r <;> simp at h
    subst h; exact strFn_ret fn args _ hr
  · split at h
    · rename_i r hr
      cases r <;> simp at h
      subst h; exact intFn_ret ops fn args _ hr
    · split at h
      · rename_i r hr
        cases r <;> simp at h
        subst h; exact boolFn_ret ops fn args _ hr
      · split at h
        · rename_i r hr
          cases r <;> simp at h
          subst h; exact floatFn_ret ops fn args _ hr
        · split at h
          · rename_i r hr
            cases r <;> simp at h
            subst h; exact durFn_ret ops fn args _ hr
          · cases h
end
end Kap.C04.Lib
