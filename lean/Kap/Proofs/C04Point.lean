/-
C04 — helper lemmas, part 5: `fillScope` of the root package against `denote` (what a reference denotes at a point).
-/
import Kap.Spec.C04
namespace Kap.C04
section
variable {F : Type}

theorem assoc_eq {α : Type} (l : List (String × α)) (n : String) : assoc l n = (l.find? (fun x => x.1 == n)).map (·.2) := by
  unfold assoc; cases l.find? (fun x => x.1 == n) <;> rfl

theorem get_cons (σ : Scope F) (m n : String) (v : Value F) :
    Scope.get ((m, v) :: σ) n = if m = n then some v else Scope.get σ n := by
  unfold Scope.get
  by_cases h : m = n
  · simp [h]
  · simp [h]

/-- `fillScope` fails exactly when a reference is ambiguous, and otherwise binds every reference to what it denotes. -/
theorem fillScope_spec (refs : List String) (p : Point F) :
    (fillScope refs p = none ↔ ∃ n ∈ refs, denote p n = none) ∧
    (∀ σ, fillScope refs p = some σ → ∀ n ∈ refs, Scope.get σ n = denote p n) := by
  induction refs with
  | nil => simp [fillScope]
  | cons m rest ih =>
    obtain ⟨ih1, ih2⟩ := ih
    have hden : ∀ v, denote p m = some v →
        ((fillScope rest p).map (fun σ => (m, v) :: σ) = none ↔ ∃ n ∈ m :: rest, denote p n = none) ∧
        (∀ σ, (fillScope rest p).map (fun σ => (m, v) :: σ) = some σ → ∀ n ∈ m :: rest, Scope.get σ n = denote p n) := by
      intro v hv
      constructor
      · simp only [Option.map_eq_none_iff, ih1, List.mem_cons, exists_eq_or_imp, hv]
        simp
      · intro σ hσ n hn
        cases hf : fillScope rest p with
        | none => simp [hf] at hσ
        | some σ' =>
          simp [hf] at hσ
          subst hσ
          rw [get_cons]
          by_cases hmn : m = n
          · simp [hmn, ← hv]
          · simp only [hmn, if_false]
            rcases List.mem_cons.mp hn with rfl | hn'
            · exact absurd rfl hmn
            · exact ih2 σ' hf n hn'
    by_cases ht : m = "time"
    · simp only [fillScope, ht, if_true]
      have := hden (.time p.time) (by simp [denote, ht])
      simpa [ht] using this
    · simp only [fillScope, ht, if_false, assoc_eq]
      cases hf : p.fields.find? (fun x => x.1 == m) <;> cases hg : p.tags.find? (fun x => x.1 == m)
      · have := hden .missing (by simp [denote, ht, hf, hg])
        simpa using this
      · rename_i tg
        have := hden (.str tg.2) (by simp [denote, ht, hf, hg])
        simpa using this
      · rename_i fl
        have := hden fl.2 (by simp [denote, ht, hf, hg])
        simpa using this
      · simp only [Option.map_some]
        constructor
        · simp only [true_iff]
          exact ⟨m, List.mem_cons_self .., by simp [denote, ht, hf, hg]⟩
        · intro σ hσ; cases hσ
end
end Kap.C04
