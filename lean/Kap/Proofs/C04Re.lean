/-
C04 — helper lemmas about the defined regex fragment: the scanning matcher `Re.matchB` decides the declarative
search semantics `Re.Matches`; what literals and anchors mean under that semantics.
-/
import Kap.Spec.C04Re
namespace Kap.C04.Re

theorem matchHere_iff (as : List Atom) (l r : Bytes) : matchHere as l.isEmpty r = true ↔ Der as l r := by
  induction as generalizing l r with
  | nil => simp [matchHere]; exact Der.nil l r
  | cons a as ih =>
    cases a with
    | bol =>
      constructor
      · intro h
        simp only [matchHere, Bool.and_eq_true] at h
        obtain ⟨h1, h2⟩ := h
        have hl : l = [] := by simpa using h1
        subst hl
        exact Der.bol as r ((ih [] r).1 h2)
      · intro h
        cases h with
        | bol _ _ h' => simp only [matchHere, Bool.and_eq_true]; exact ⟨rfl, (ih [] r).2 h'⟩
    | eol =>
      constructor
      · intro h
        simp only [matchHere, Bool.and_eq_true] at h
        obtain ⟨h1, h2⟩ := h
        have hr : r = [] := by simpa using h1
        subst hr
        exact Der.eol as l ((ih l []).1 h2)
      · intro h
        cases h with
        | eol _ _ h' => simp only [matchHere, Bool.and_eq_true]; exact ⟨rfl, (ih l []).2 h'⟩
    | ch b =>
      cases r with
      | nil =>
        constructor
        · intro h; simp [matchHere] at h
        · intro h; cases h
      | cons c r =>
        have hne : (l ++ [b]).isEmpty = false := by simp
        constructor
        · intro h
          simp only [matchHere, Bool.and_eq_true, beq_iff_eq] at h
          obtain ⟨h1, h2⟩ := h
          subst h1
          rw [← hne] at h2
          exact Der.ch b as l r ((ih (l ++ [b]) r).1 h2)
        · intro h
          cases h with
          | ch _ _ _ _ h' =>
            simp only [matchHere, Bool.and_eq_true, beq_iff_eq]
            refine ⟨trivial, ?_⟩
            have := (ih (l ++ [b]) r).2 h'
            rwa [hne] at this

theorem searchFrom_iff (as : List Atom) (l r : Bytes) :
    searchFrom as l.isEmpty r = true ↔ ∃ r1 r2, r = r1 ++ r2 ∧ Der as (l ++ r1) r2 := by
  induction r generalizing l with
  | nil =>
    simp only [searchFrom]
    rw [matchHere_iff]
    constructor
    · intro h; exact ⟨[], [], rfl, by simpa using h⟩
    · rintro ⟨r1, r2, e, d⟩
      have e' := e.symm
      rw [List.append_eq_nil_iff] at e'
      obtain ⟨rfl, rfl⟩ := e'
      simpa using d
  | cons c r ih =>
    have hne : (l ++ [c]).isEmpty = false := by simp
    simp only [searchFrom, Bool.or_eq_true]
    constructor
    · rintro (h | h)
      · exact ⟨[], c :: r, rfl, by simpa using (matchHere_iff as l (c :: r)).1 h⟩
      · rw [← hne] at h
        obtain ⟨r1, r2, e, d⟩ := (ih (l ++ [c])).1 h
        exact ⟨c :: r1, r2, by simp [e], by simpa using d⟩
    · rintro ⟨r1, r2, e, d⟩
      cases r1 with
      | nil =>
        left
        simp only [List.nil_append] at e
        subst e
        exact (matchHere_iff as l _).2 (by simpa using d)
      | cons x r1 =>
        right
        simp only [List.cons_append, List.cons.injEq] at e
        obtain ⟨rfl, e⟩ := e
        have := (ih (l ++ [c])).2 ⟨r1, r2, e, by simpa using d⟩
        rwa [hne] at this

/-- the scanning matcher decides the declarative search semantics. -/
theorem matchB_iff (as : List Atom) (s : Bytes) : matchB as s = true ↔ Matches as s := by
  have := searchFrom_iff as [] s
  simpa [matchB, Matches] using this

instance (as : List Atom) (s : Bytes) : Decidable (Matches as s) := decidable_of_iff _ (matchB_iff as s)

/-- a literal inside a pattern consumes exactly its bytes. -/
theorem der_lits (w : Bytes) (rest : List Atom) (l r : Bytes) :
    Der (lits w ++ rest) l r ↔ ∃ r', r = w ++ r' ∧ Der rest (l ++ w) r' := by
  induction w generalizing l r with
  | nil => simp [lits]
  | cons b w ih =>
    have hl : lits (b :: w) ++ rest = Atom.ch b :: (lits w ++ rest) := by simp [lits]
    rw [hl]
    constructor
    · intro h
      cases h with
      | ch _ _ _ r0 h' =>
        obtain ⟨r', e, d⟩ := (ih (l ++ [b]) r0).1 h'
        exact ⟨r', by simp [e], by simpa using d⟩
    · rintro ⟨r', e, d⟩
      subst e
      exact Der.ch b _ l (w ++ r') ((ih (l ++ [b]) (w ++ r')).2 ⟨r', rfl, by simpa using d⟩)

theorem der_eol (l r : Bytes) : Der [Atom.eol] l r ↔ r = [] := by
  constructor
  · intro h; cases h; rfl
  · rintro rfl; exact Der.eol [] l (Der.nil l [])

theorem der_bol (as : List Atom) (l r : Bytes) : Der (Atom.bol :: as) l r ↔ l = [] ∧ Der as [] r := by
  constructor
  · intro h; cases h with | bol _ _ h' => exact ⟨rfl, h'⟩
  · rintro ⟨rfl, h⟩; exact Der.bol as r h

/-- `/lit/`: substring. -/
theorem matches_lits (w s : Bytes) : Matches (lits w) s ↔ w <:+: s := by
  unfold Matches
  constructor
  · rintro ⟨l, r, e, d⟩
    have := (der_lits w [] l r).1 (by simpa using d)
    obtain ⟨r', e', _⟩ := this
    exact ⟨l, r', by simp [e, e']⟩
  · rintro ⟨a, b, e⟩
    refine ⟨a, w ++ b, by simp [← e], ?_⟩
    have := (der_lits w [] a (w ++ b)).2 ⟨b, rfl, Der.nil _ _⟩
    simpa using this

/-- `/^lit/`: prefix. -/
theorem matches_bol_lits (w s : Bytes) : Matches (Atom.bol :: lits w) s ↔ w <+: s := by
  unfold Matches
  constructor
  · rintro ⟨l, r, e, d⟩
    obtain ⟨rfl, d2⟩ := (der_bol _ l r).1 d
    obtain ⟨r', e', _⟩ := (der_lits w [] [] r).1 (by simpa using d2)
    exact ⟨r', by simp [e, e']⟩
  · rintro ⟨b, e⟩
    refine ⟨[], w ++ b, by simp [← e], ?_⟩
    refine (der_bol _ _ _).2 ⟨rfl, ?_⟩
    have := (der_lits w [] [] (w ++ b)).2 ⟨b, rfl, Der.nil _ _⟩
    simpa using this

/-- `/lit$/`: suffix. -/
theorem matches_lits_eol (w s : Bytes) : Matches (lits w ++ [Atom.eol]) s ↔ w <:+ s := by
  unfold Matches
  constructor
  · rintro ⟨l, r, e, d⟩
    obtain ⟨r', e', d'⟩ := (der_lits w [Atom.eol] l r).1 d
    have hr := (der_eol _ _).1 d'
    subst hr
    exact ⟨l, by simp [e, e']⟩
  · rintro ⟨a, e⟩
    refine ⟨a, w, e.symm, ?_⟩
    exact (der_lits w [Atom.eol] a w).2 ⟨[], by simp, (der_eol _ _).2 rfl⟩

/-- `/^lit$/`: equality. -/
theorem matches_bol_lits_eol (w s : Bytes) : Matches (Atom.bol :: (lits w ++ [Atom.eol])) s ↔ s = w := by
  unfold Matches
  constructor
  · rintro ⟨l, r, e, d⟩
    obtain ⟨rfl, d2⟩ := (der_bol _ l r).1 d
    obtain ⟨r', e', d'⟩ := (der_lits w [Atom.eol] [] r).1 d2
    have hr := (der_eol _ _).1 d'
    subst hr
    simp [e, e']
  · rintro rfl
    refine ⟨[], s, by simp, ?_⟩
    refine (der_bol _ _ _).2 ⟨rfl, ?_⟩
    exact (der_lits s [Atom.eol] [] s).2 ⟨[], by simp, (der_eol _ _).2 rfl⟩

/-- the atoms of a pattern `[^] literal [$]`. -/
def ofShape (st : Bool) (w : Bytes) (en : Bool) : List Atom :=
  (if st then [Atom.bol] else []) ++ lits w ++ (if en then [Atom.eol] else [])

theorem shape_sound (as : List Atom) (st en : Bool) (w : Bytes) (h : shape as = some (st, w, en)) :
    as = ofShape st w en := by
  induction as generalizing st en w with
  | nil => simp [shape] at h; obtain ⟨rfl, rfl, rfl⟩ := h; simp [ofShape, lits]
  | cons a as ih =>
    cases a with
    | bol =>
      simp only [shape] at h
      split at h
      · rename_i l e hs
        simp at h
        obtain ⟨rfl, rfl, rfl⟩ := h
        rw [ih false e l hs]
        simp [ofShape]
      · cases h
    | ch b =>
      simp only [shape] at h
      split at h
      · rename_i l e hs
        simp at h
        obtain ⟨rfl, rfl, rfl⟩ := h
        rw [ih false e l hs]
        simp [ofShape, lits]
      · cases h
    | eol =>
      cases as with
      | nil => simp [shape] at h; obtain ⟨rfl, rfl, rfl⟩ := h; simp [ofShape, lits]
      | cons _ _ => simp [shape] at h

end Kap.C04.Re
