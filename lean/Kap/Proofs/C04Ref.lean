/-
C04 — helper lemmas, part 4: the evaluator against the reference semantics.
`callFn_refCall`: the builtins' incremental state (`FnState`) simulates the reference's history (`Hist`) under
`StateRel`, with equal results. `constType_typeRef`, `typeP_typeRef`, `constType_nondyn`: `Type()` and the
constant types agree with the reference typing `typeRef` on well-typed points. `evalN_valRef`: on a
well-typed point the (cache-erased) evaluator returns the outcome of the big-step reference `valRef`.
-/
import Kap.Proofs.C04Trap
import Kap.Proofs.C04
import Kap.Proofs.C04Lib
namespace Kap.C04
section
variable {F : Type} (ctx : Ctx F)

/-- the incremental state of one instance each of the stateful builtins represents a history of their arguments. -/
def BaseRel (b : FnBase F) (h : HistBase F) : Prop :=
  b.count = wrap h.counts ∧
  b.spMin = h.spreads.foldl (fun m y => if ctx.ops.lt y m then y else m) ctx.ops.posInf ∧
  b.spMax = h.spreads.foldl (fun m y => if ctx.ops.gt y m then y else m) ctx.ops.negInf ∧
  (b.sN, b.sMean, b.sM2) = h.sigmas.foldl (welford ctx) (ctx.ops.ofInt 0, ctx.ops.ofInt 0, ctx.ops.ofInt 0)

/-- the state an evaluation sees (the functions it was handed and those of the lambda nodes) represents the history of
one group (of the expression's own functions and of those inside each nested lambda). -/
def StateRel (st : FnState F) (h : Hist F) : Prop :=
  st.count = wrap h.counts ∧
  st.spMin = h.spreads.foldl (fun m y => if ctx.ops.lt y m then y else m) ctx.ops.posInf ∧
  st.spMax = h.spreads.foldl (fun m y => if ctx.ops.gt y m then y else m) ctx.ops.negInf ∧
  (st.sN, st.sMean, st.sM2) = h.sigmas.foldl (welford ctx) (ctx.ops.ofInt 0, ctx.ops.ofInt 0, ctx.ops.ofInt 0) ∧
  ∀ i, BaseRel ctx (st.lams i) (h.lams i)

theorem stateRel_iff (st : FnState F) (h : Hist F) :
    StateRel ctx st h ↔ BaseRel ctx st.toFnBase h.toHistBase ∧ ∀ i, BaseRel ctx (st.lams i) (h.lams i) := by
  unfold StateRel BaseRel
  constructor
  · rintro ⟨a, b, c, d, e⟩; exact ⟨⟨a, b, c, d⟩, e⟩
  · rintro ⟨⟨a, b, c, d⟩, e⟩; exact ⟨a, b, c, d, e⟩

theorem baseRel_init : BaseRel ctx (FnBase.init ctx.ops) {} := by
  simp [BaseRel, FnBase.init, wrap]

theorem stateRel_init : StateRel ctx (FnState.init ctx.ops) {} := by
  rw [stateRel_iff]
  exact ⟨baseRel_init ctx, fun _ => baseRel_init ctx⟩

/-- entering the body of lambda node `i` … -/
theorem stateRel_enter {st : FnState F} {h : Hist F} (hr : StateRel ctx st h) (i : Nat) :
    StateRel ctx (st.enter i) (h.enter i) := by
  rw [stateRel_iff] at hr ⊢
  exact ⟨hr.2 i, hr.2⟩

/-- … and leaving it keep the simulation. -/
theorem stateRel_leave {st inner : FnState F} {h hin : Hist F} (hr : StateRel ctx st h) (hi : StateRel ctx inner hin)
    (i : Nat) : StateRel ctx (st.leave inner i) (h.leave hin i) := by
  rw [stateRel_iff] at hr hi ⊢
  refine ⟨hr.1, fun j => ?_⟩
  simp only [FnState.leave, Hist.leave]
  by_cases hj : j = i
  · simp only [hj, if_true]; exact hi.1
  · simp only [hj, if_false]; exact hi.2 j

theorem hist_leave_enter (h : Hist F) (i : Nat) : h.leave (h.enter i) i = h := by
  cases h with
  | mk b l =>
    simp only [Hist.leave, Hist.enter]
    congr 1
    funext j
    by_cases hj : j = i <;> simp [hj]

theorem wrap_wrap_succ (a : Int) : wrap (wrap a + 1) = wrap (a + 1) := by
  unfold wrap; omega

theorem callFn_refCall (fn : String) (args : List (Value F)) (st : FnState F) (h : Hist F)
    (hr : StateRel ctx st h) :
    (callFn ctx fn args st).1 = (refCall ctx fn args h).1 ∧
    StateRel ctx (callFn ctx fn args st).2 (refCall ctx fn args h).2 := by
  have hr0 := hr
  obtain ⟨hc, hmin, hmax, hsig, hl⟩ := hr
  unfold callFn refCall
  by_cases h1 : fn = "count"
  · simp only [h1, if_true]
    refine ⟨?_, ?_, hmin, hmax, hsig, hl⟩
    · simp [hc, wrap_wrap_succ]
    · simp [hc, wrap_wrap_succ]
  simp only [h1, if_false]
  by_cases h2 : fn = "sigma"
  · simp only [h2, if_true]
    split
    · rename_i x
      have hf : (h.sigmas ++ [x]).foldl (welford ctx) (ctx.ops.ofInt 0, ctx.ops.ofInt 0, ctx.ops.ofInt 0)
          = welford ctx (st.sN, st.sMean, st.sM2) x := by
        rw [List.foldl_append, ← hsig]; rfl
      refine ⟨?_, hc, hmin, hmax, ?_, hl⟩
      · simp [refSigma, hf, welford]
      · simp [hf, welford]
    · rename_i hne
      split
      · rename_i x; exact absurd rfl (hne x)
      · exact ⟨rfl, hr0⟩
  simp only [h2, if_false]
  by_cases h3 : fn = "spread"
  · simp only [h3, if_true]
    split
    · rename_i x
      refine ⟨?_, hc, ?_, ?_, hsig, hl⟩
      · simp [refSpread, List.foldl_append, ← hmin, ← hmax]
      · simp [List.foldl_append, ← hmin]
      · simp [List.foldl_append, ← hmax]
    · rename_i hne
      split
      · rename_i x; exact absurd rfl (hne x)
      · exact ⟨rfl, hr0⟩
  simp only [h3, if_false]
  by_cases h4 : fn = "if"
  · simp only [h4, if_true]
    split
    · rename_i c a b
      by_cases hab : a.ty = b.ty
      · simp [hab]; exact hr0
      · simp [hab]; exact hr0
    · rename_i hne
      split
      · rename_i c a b; exact absurd rfl (hne c a b)
      · exact ⟨rfl, hr0⟩
  simp only [h4, if_false]
  by_cases h5 : fn = "isPresent"
  · simp only [h5, if_true]
    split
    · simp; exact hr0
    · rename_i hne
      split
      · rename_i v; exact absurd rfl (hne v)
      · exact ⟨rfl, hr0⟩
  simp only [h5, if_false]
  cases hb : Lib.builtin ctx.ops fn args with
  | some r => cases r <;> exact ⟨rfl, hr0⟩
  | none =>
    simp only []
    split
    · generalize ctx.call fn args = oc
      rcases oc with _ | (v | _) <;> exact ⟨rfl, hr0⟩
    · exact ⟨rfl, hr0⟩

/-! ### typing: `Type()` against the reference typing -/

def isValTy (t : Ty) : Bool := t == .int || t == .float || t == .string || t == .bool || t == .duration

theorem binType_facts (op : BOp) (a b : Ty) :
    (match binType op a b with | some t => isValTy t | none => true) = true ∧
    ((!(op.isComp || op.isLogical)) || (binType op a b == none || binType op a b == some .bool)) = true ∧
    binType op .invalid b = none ∧ binType op a .invalid = none := by
  cases op <;> cases a <;> cases b <;> exact ⟨rfl, rfl, rfl, rfl⟩

theorem binType_val {op : BOp} {a b t : Ty} (h : binType op a b = some t) : isValTy t = true := by
  have := (binType_facts op a b).1; rw [h] at this; exact this

theorem binType_comp {op : BOp} {a b t : Ty} (hc : (op.isComp || op.isLogical) = true) (h : binType op a b = some t) :
    t = .bool := by
  have := (binType_facts op a b).2.1
  rw [h, hc] at this
  simpa using this.symm

/-- what the proofs need from the operator table (both are theorems about the regenerated table). -/
structure TblOK (tbl : List Entry) : Prop where
  complete : ∀ op tl tr, (lookup tbl op tl tr).map (·.ret) = binType op tl tr
  canonical : ∀ e ∈ tbl, canon e = true

theorem lookup_of_binType {tbl : List Entry} (hT : TblOK tbl) {op : BOp} {a b t : Ty} (h : binType op a b = some t) :
    ∃ ent, lookup tbl op a b = some ent ∧ ent.ret = t := by
  have := hT.complete op a b
  rw [h] at this
  cases hl : lookup tbl op a b with
  | none => rw [hl] at this; cases this
  | some ent => rw [hl] at this; exact ⟨ent, rfl, by simpa using this⟩

theorem lookup_none_of_binType {tbl : List Entry} (hT : TblOK tbl) {op : BOp} {a b : Ty} (h : binType op a b = none) :
    lookup tbl op a b = none := by
  have := hT.complete op a b
  rw [h] at this
  cases hl : lookup tbl op a b with
  | none => rfl
  | some ent => rw [hl] at this; cases this

theorem lookup_key {tbl : List Entry} {op : BOp} {a b : Ty} {ent : Entry} (h : lookup tbl op a b = some ent) :
    ent.op = op ∧ ent.lt = a ∧ ent.rt = b := by
  have := List.find?_some h
  simpa [Bool.and_eq_true, and_assoc] using this

variable (σ : Scope F)

/-- a lambda node is well typed when its body is, with a type other than time (`EvalLambdaNode.EvalTime` refuses). -/
theorem typeRef_lam {i : Nat} {e : Expr F} {t : Ty} (h : typeRef ctx σ (.lam i e) = some t) :
    typeRef ctx σ e = some t ∧ t ≠ .time := by
  simp only [typeRef] at h
  split at h
  · cases h
  · rename_i hne
    refine ⟨h, fun ht => ?_⟩
    subst ht
    exact hne h

theorem constType_typeRef (hT : TblOK ctx.tbl) (e : Expr F) :
    ∀ t, typeRef ctx σ e = some t → constType ctx e = .invalid ∨ constType ctx e = t := by
  induction e with
  | lit v => intro t h; right; simp only [typeRef] at h; simp only [constType]; exact Option.some.inj h
  | ref n => intro t h; left; simp [constType]
  | un op e ih =>
    intro t h
    cases op with
    | not =>
      right
      simp only [typeRef] at h
      split at h
      · simp only [constType]; exact Option.some.inj h
      · cases h
    | neg =>
      simp only [constType]
      simp only [typeRef] at h
      split at h <;> first | (cases h; done) | (rename_i he; cases h; exact ih _ he)
  | bin op l r ihl ihr =>
    intro t h
    simp only [typeRef] at h
    cases hl : typeRef ctx σ l with
    | none => simp [hl] at h
    | some tl =>
      cases hr : typeRef ctx σ r with
      | none => simp [hl, hr] at h
      | some tr =>
        simp only [hl, hr] at h
        simp only [constType]
        split
        · rename_i hc; right; exact (binType_comp hc h).symm
        · rcases ihl tl hl with el | el
          · left; rw [el, lookup_none_of_binType hT (binType_facts op tl (constType ctx r)).2.2.1]
          · rcases ihr tr hr with er | er
            · left; rw [er, lookup_none_of_binType hT (binType_facts op (constType ctx l) tr).2.2.2]
            · right
              obtain ⟨ent, he, hret⟩ := lookup_of_binType hT h
              rw [el, er, he]; exact hret
  | call0 fn => intro t h; left; simp [constType]
  | call1 fn a ih => intro t h; left; simp [constType]
  | call2 fn a b iha ihb => intro t h; left; simp [constType]
  | call3 fn a b d iha ihb ihd => intro t h; left; simp [constType]
  | call4 fn a b d e iha ihb ihd ihe => intro t h; left; simp [constType]
  | callMany fn => intro t h; left; simp [constType]
  | lam i e ih =>
    intro t h
    simp only [constType]
    exact ih t (typeRef_lam ctx σ h).1

theorem isValTy_ne_invalid {t : Ty} (h : isValTy t = true) : t ≠ .invalid := by
  intro e; subst e; cases h

/-- `Type()` answers the reference type on every well-typed point. -/
theorem typeP_typeRef (hT : TblOK ctx.tbl) (e : Expr F) : ∀ t, typeRef ctx σ e = some t → typeP ctx σ e = some t := by
  induction e with
  | lit v => intro t h; simpa [typeRef, typeP] using h
  | ref n =>
    intro t h
    simp only [typeRef] at h
    simp only [typeP]
    cases hg : σ.get n with
    | none => simp [hg] at h
    | some v => simpa [hg] using h
  | un op e ih =>
    intro t h
    have h2 := constType_typeRef ctx σ hT (.un op e) t h
    simp only [typeP]
    split
    · rename_i hne
      rcases h2 with h2 | h2
      · exact absurd h2 hne
      · rw [h2]
    · rename_i hinv
      cases op with
      | not => simp [constType] at hinv
      | neg =>
        simp only [typeRef] at h
        split at h <;> first | (cases h; done) | (rename_i he; cases h; exact ih _ he)
  | bin op l r ihl ihr =>
    intro t h
    have h2 := constType_typeRef ctx σ hT (.bin op l r) t h
    simp only [typeP]
    split
    · rename_i hne
      rcases h2 with h2 | h2
      · exact absurd h2 hne
      · rw [h2]
    · simp only [typeRef] at h
      cases hl : typeRef ctx σ l with
      | none => simp [hl] at h
      | some tl =>
        cases hr : typeRef ctx σ r with
        | none => simp [hl, hr] at h
        | some tr =>
          simp only [hl, hr] at h
          obtain ⟨ent, he, hret⟩ := lookup_of_binType hT h
          simp only [ihl tl hl, ihr tr hr, he]
          have := isValTy_ne_invalid (binType_val h)
          simp [hret, this]
  | call0 fn => intro t h; simpa [typeRef, typeP] using h
  | call1 fn a ih =>
    intro t h
    simp only [typeRef] at h
    simp only [typeP]
    cases ha : typeRef ctx σ a with
    | none => simp [ha] at h
    | some ta => simp only [ih ta ha]; simpa [ha] using h
  | call2 fn a b iha ihb =>
    intro t h
    simp only [typeRef] at h
    simp only [typeP]
    cases ha : typeRef ctx σ a with
    | none => simp [ha] at h
    | some ta =>
      cases hb : typeRef ctx σ b with
      | none => simp [ha, hb] at h
      | some tb => simp only [iha ta ha, ihb tb hb]; simpa [ha, hb] using h
  | call3 fn a b d iha ihb ihd =>
    intro t h
    simp only [typeRef] at h
    simp only [typeP]
    cases ha : typeRef ctx σ a with
    | none => simp [ha] at h
    | some ta =>
      cases hb : typeRef ctx σ b with
      | none => simp [ha, hb] at h
      | some tb =>
        cases hd : typeRef ctx σ d with
        | none => simp [ha, hb, hd] at h
        | some td => simp only [iha ta ha, ihb tb hb, ihd td hd]; simpa [ha, hb, hd] using h
  | call4 fn a b d e iha ihb ihd ihe =>
    intro t h
    simp only [typeRef] at h
    simp only [typeP]
    cases ha : typeRef ctx σ a with
    | none => simp [ha] at h
    | some ta =>
      cases hb : typeRef ctx σ b with
      | none => simp [ha, hb] at h
      | some tb =>
        cases hd : typeRef ctx σ d with
        | none => simp [ha, hb, hd] at h
        | some td =>
          cases he : typeRef ctx σ e with
          | none => simp [ha, hb, hd, he] at h
          | some te => simp only [iha ta ha, ihb tb hb, ihd td hd, ihe te he]; simpa [ha, hb, hd, he] using h
  | callMany fn => intro t h; simp [typeRef] at h
  | lam i e ih =>
    intro t h
    have h2 := constType_typeRef ctx σ hT (.lam i e) t h
    simp only [typeP]
    split
    · rename_i hne
      rcases h2 with h2 | h2
      · exact absurd h2 hne
      · rw [h2]
    · exact ih t (typeRef_lam ctx σ h).1

/-- a well-typed non-dynamic expression has its reference type as constant type. -/
theorem constType_nondyn (hT : TblOK ctx.tbl) (e : Expr F) :
    ∀ t, typeRef ctx σ e = some t → isDyn ctx e = false → constType ctx e = t := by
  induction e with
  | lit v => intro t h _; simp only [typeRef] at h; simp only [constType]; exact Option.some.inj h
  | ref n => intro t h hd; simp [isDyn] at hd
  | un op e ih =>
    intro t h hd
    rcases constType_typeRef ctx σ hT (.un op e) t h with h2 | h2
    · cases op with
      | not => simp [constType] at h2
      | neg =>
        simp only [isDyn, h2] at hd
        simp only [constType] at h2 ⊢
        simp only [typeRef] at h
        split at h <;> first | (cases h; done) | (rename_i he; cases h; exact ih _ he (by simpa using hd))
    · exact h2
  | bin op l r ihl ihr =>
    intro t h hd
    rcases constType_typeRef ctx σ hT (.bin op l r) t h with h2 | h2
    · simp only [isDyn, h2] at hd
      have hd' : isDyn ctx l = false ∧ isDyn ctx r = false := by simpa using hd
      simp only [typeRef] at h
      cases hl : typeRef ctx σ l with
      | none => simp [hl] at h
      | some tl =>
        cases hr : typeRef ctx σ r with
        | none => simp [hl, hr] at h
        | some tr =>
          simp only [hl, hr] at h
          simp only [constType]
          split
          · rename_i hc; exact (binType_comp hc h).symm
          · obtain ⟨ent, he, hret⟩ := lookup_of_binType hT h
            rw [ihl tl hl hd'.1, ihr tr hr hd'.2, he]; exact hret
    · exact h2
  | call0 fn => intro t h hd; simp [isDyn] at hd
  | call1 fn a ih => intro t h hd; simp [isDyn] at hd
  | call2 fn a b iha ihb => intro t h hd; simp [isDyn] at hd
  | call3 fn a b d iha ihb ihd => intro t h hd; simp [isDyn] at hd
  | call4 fn a b d e iha ihb ihd ihe => intro t h hd; simp [isDyn] at hd
  | callMany fn => intro t h hd; simp [isDyn] at hd
  | lam i e ih =>
    intro t h hd
    simp only [constType]
    exact ih t (typeRef_lam ctx σ h).1 (by simpa [isDyn] using hd)

/-! ### the evaluator against the big-step reference -/

/-- TICKscript has no literal for a missing value. -/
def noMissingLit : Expr F → Bool
  | .lit .missing => false
  | .un _ e => noMissingLit e
  | .bin _ l r => noMissingLit l && noMissingLit r
  | .call1 _ a => noMissingLit a
  | .call2 _ a b => noMissingLit a && noMissingLit b
  | .call3 _ a b d => noMissingLit a && noMissingLit b && noMissingLit d
  | .call4 _ a b d e => noMissingLit a && noMissingLit b && noMissingLit d && noMissingLit e
  | .lam _ e => noMissingLit e
  | _ => true

/-- the signature of a builtin the model defines itself declares the type the builtin returns (`Lib.builtinRet`
for the stateless ones); no builtin returns a missing or invalid value. -/
def nativeSigOK (s : Sig) : Bool :=
  (s.name != "count" || s.ret == .int) && (s.name != "sigma" || s.ret == .float) &&
  (s.name != "spread" || s.ret == .float) && (s.name != "isPresent" || s.ret == .bool) &&
  (s.name != "if" || s.dom == [.bool, s.ret, s.ret]) && s.ret != .missing && s.ret != .invalid &&
  (match Lib.builtinRet s.name with | some r => s.ret == r | none => true)

/-- what the proofs need from the builtins: signatures as above, and library functions return values of the
type their signature declares. -/
structure FnOK : Prop where
  sigs : ∀ s ∈ ctx.sigs, nativeSigOK s = true
  oracle : ∀ fn args v t, ctx.call fn args = some (.ok v) → sigType ctx fn (args.map Value.ty) = some t → v.ty = t

theorem sigType_mem {fn : String} {tys : List Ty} {t : Ty} (h : sigType ctx fn tys = some t) :
    ∃ s ∈ ctx.sigs, s.name = fn ∧ s.dom = tys ∧ s.ret = t := by
  unfold sigType at h
  split at h
  · rename_i s hs
    have h1 := List.find?_some hs
    have h2 := List.mem_of_find?_eq_some hs
    simp only [Bool.and_eq_true, beq_iff_eq] at h1
    exact ⟨s, h2, h1.1, h1.2, Option.some.inj h⟩
  · cases h

theorem chk_id (w : Ty) (o : Outcome (Value F)) (h : ∀ v, o = .ok v → v.ty = w) : chk w o = o := by
  unfold chk
  split
  · rename_i v; simp [h v rfl]
  · rfl

theorem call_ty (hF : FnOK ctx) (fn : String) (args : List (Value F)) (st : FnState F) (t : Ty) (v : Value F)
    (hs : sigType ctx fn (args.map Value.ty) = some t) (hv : (callFn ctx fn args st).1 = .ok v) : v.ty = t := by
  obtain ⟨s, hmem, hname, hdom, hret⟩ := sigType_mem ctx hs
  have hok := hF.sigs s hmem
  simp only [nativeSigOK, Bool.and_eq_true, Bool.or_eq_true, bne_iff_ne, beq_iff_eq, ne_eq] at hok
  obtain ⟨⟨⟨⟨⟨⟨⟨o1, o2⟩, o3⟩, o4⟩, o5⟩, _⟩, _⟩, o8⟩ := hok
  rw [hname] at o1 o2 o3 o4 o5 o8
  unfold callFn at hv
  by_cases h1 : fn = "count"
  · simp only [h1, if_true] at hv
    cases hv
    rcases o1 with o1 | o1
    · exact absurd h1 o1
    · simp [Value.ty, ← hret, o1]
  simp only [h1, if_false] at hv
  by_cases h2 : fn = "sigma"
  · simp only [h2, if_true] at hv
    split at hv
    · cases hv
      rcases o2 with o2 | o2
      · exact absurd h2 o2
      · simp [Value.ty, ← hret, o2]
    · cases hv
  simp only [h2, if_false] at hv
  by_cases h3 : fn = "spread"
  · simp only [h3, if_true] at hv
    split at hv
    · cases hv
      rcases o3 with o3 | o3
      · exact absurd h3 o3
      · simp [Value.ty, ← hret, o3]
    · cases hv
  simp only [h3, if_false] at hv
  by_cases h4 : fn = "if"
  · simp only [h4, if_true] at hv
    split at hv
    · rename_i c a b
      split at hv
      · rename_i hab
        cases hv
        rcases o5 with o5 | o5
        · exact absurd h4 o5
        · rw [o5] at hdom
          simp only [List.map, List.cons.injEq] at hdom
          obtain ⟨_, ha, hb, _⟩ := hdom
          rw [hret] at ha hb
          split <;> simp [← ha, ← hb]
      · cases hv
    · cases hv
  simp only [h4, if_false] at hv
  by_cases h5 : fn = "isPresent"
  · simp only [h5, if_true] at hv
    split at hv
    · cases hv
      rcases o4 with o4 | o4
      · exact absurd h5 o4
      · simp [Value.ty, ← hret, o4]
    · cases hv
  simp only [h5, if_false] at hv
  cases hb : Lib.builtin ctx.ops fn args with
  | some r =>
    simp only [hb] at hv
    cases r with
    | none => cases hv
    | some v0 =>
      cases hv
      have := Lib.builtin_ty ctx.ops fn args v hb
      rw [this] at o8
      have o9 : t = v.ty := by simpa [hret] using o8
      exact o9.symm
  | none =>
    simp only [hb] at hv
    split at hv
    · split at hv
      · rename_i v0 hcall
        cases hv
        exact hF.oracle _ _ _ _ hcall hs
      · cases hv
    · cases hv

theorem ty_ne_invalid (v : Value F) : v.ty ≠ .invalid := by cases v <;> simp [Value.ty]

/-- a well-typed expression never has the invalid type, and has the missing type only when it is a
reference to a missing field. -/
theorem typeRef_shape (hF : FnOK ctx) (e : Expr F) : ∀ (t : Ty), noMissingLit e = true → typeRef ctx σ e = some t →
    t ≠ .invalid ∧ (t = .missing → missOk e = true ∧ ∀ h : Hist F, valRef ctx σ e h = (.ok .missing, h)) := by
  have hsig : ∀ (t : Ty) fn tys, sigType ctx fn tys = some t → t ≠ .invalid ∧ t ≠ .missing := by
    intro t fn tys hs
    obtain ⟨s, hmem, _, _, hret⟩ := sigType_mem ctx hs
    have hok := hF.sigs s hmem
    simp only [nativeSigOK, Bool.and_eq_true, bne_iff_ne, ne_eq] at hok
    rw [hret] at hok
    exact ⟨hok.1.2, hok.1.1.2⟩
  induction e with
  | lit v =>
    intro t hwf h
    simp only [typeRef] at h
    cases h
    refine ⟨ty_ne_invalid v, fun hm => ?_⟩
    cases v <;> simp [Value.ty, noMissingLit] at hm hwf
  | ref n =>
    intro t hwf h
    simp only [typeRef] at h
    cases hg : σ.get n with
    | none => simp [hg] at h
    | some v =>
      simp [hg] at h
      subst h
      refine ⟨ty_ne_invalid v, fun hm => ?_⟩
      cases v <;> simp [Value.ty] at hm
      exact ⟨by simp [missOk], fun h' => by simp [valRef, hg]⟩
  | un op e _ =>
    intro t hwf h
    cases op with
    | not =>
      simp only [typeRef] at h
      split at h <;> cases h
      exact ⟨by simp, by simp⟩
    | neg =>
      simp only [typeRef] at h
      split at h <;> cases h <;> exact ⟨by simp, by simp⟩
  | bin op l r _ _ =>
    intro t hwf h
    simp only [typeRef] at h
    cases hl : typeRef ctx σ l with
    | none => simp [hl] at h
    | some tl =>
      cases hr : typeRef ctx σ r with
      | none => simp [hl, hr] at h
      | some tr =>
        simp only [hl, hr] at h
        have := binType_val h
        cases t <;> simp [isValTy] at this <;> exact ⟨by simp, by simp⟩
  | call0 fn =>
    intro t hwf h
    simp only [typeRef] at h
    have := hsig _ _ _ h
    exact ⟨this.1, fun hm => absurd hm this.2⟩
  | call1 fn a _ =>
    intro t hwf h
    simp only [typeRef] at h
    cases ha : typeRef ctx σ a with
    | none => simp [ha] at h
    | some ta =>
      simp [ha] at h
      have := hsig _ _ _ h
      exact ⟨this.1, fun hm => absurd hm this.2⟩
  | call2 fn a b _ _ =>
    intro t hwf h
    simp only [typeRef] at h
    cases ha : typeRef ctx σ a with
    | none => simp [ha] at h
    | some ta =>
      cases hb : typeRef ctx σ b with
      | none => simp [ha, hb] at h
      | some tb =>
        simp [ha, hb] at h
        have := hsig _ _ _ h
        exact ⟨this.1, fun hm => absurd hm this.2⟩
  | call3 fn a b d _ _ _ =>
    intro t hwf h
    simp only [typeRef] at h
    cases ha : typeRef ctx σ a with
    | none => simp [ha] at h
    | some ta =>
      cases hb : typeRef ctx σ b with
      | none => simp [ha, hb] at h
      | some tb =>
        cases hd : typeRef ctx σ d with
        | none => simp [ha, hb, hd] at h
        | some td =>
          simp [ha, hb, hd] at h
          have := hsig _ _ _ h
          exact ⟨this.1, fun hm => absurd hm this.2⟩
  | call4 fn a b d e _ _ _ _ =>
    intro t hwf h
    simp only [typeRef] at h
    cases ha : typeRef ctx σ a with
    | none => simp [ha] at h
    | some ta =>
      cases hb : typeRef ctx σ b with
      | none => simp [ha, hb] at h
      | some tb =>
        cases hd : typeRef ctx σ d with
        | none => simp [ha, hb, hd] at h
        | some td =>
          cases he : typeRef ctx σ e with
          | none => simp [ha, hb, hd, he] at h
          | some te =>
            simp [ha, hb, hd, he] at h
            have := hsig _ _ _ h
            exact ⟨this.1, fun hm => absurd hm this.2⟩
  | callMany fn => intro t hwf h; simp [typeRef] at h
  | lam i e ih =>
    intro t hwf h
    obtain ⟨hte, _⟩ := typeRef_lam ctx σ h
    obtain ⟨h1, h2⟩ := ih t (by simpa [noMissingLit] using hwf) hte
    refine ⟨h1, fun hm => ?_⟩
    obtain ⟨m1, m2⟩ := h2 hm
    refine ⟨by simpa [missOk] using m1, fun h' => ?_⟩
    simp only [valRef, m2, hist_leave_enter]

/-- the statement proved by induction: on a well-typed point the evaluator asked for the reference type
returns the reference outcome and keeps the state simulation. -/
def Agree (e : Expr F) : Prop :=
  ∀ (t : Ty) (st : FnState F) (h : Hist F), StateRel ctx st h → typeRef ctx σ e = some t →
    (evalN ctx σ t e st).1 = (valRef ctx σ e h).1 ∧ StateRel ctx (evalN ctx σ t e st).2 (valRef ctx σ e h).2

/-- evaluation of one function argument (`Type`, then the `EvalX` of that type; a missing reference is a value). -/
theorem arg_agree (hT : TblOK ctx.tbl) (hF : FnOK ctx) (a : Expr F) (ta : Ty) (st : FnState F) (h : Hist F)
    (hwf : noMissingLit a = true) (hr : StateRel ctx st h) (ht : typeRef ctx σ a = some ta) (ih : Agree ctx σ a) :
    (argEvalN (typeP ctx σ a) (missOk a) st (fun t => evalN ctx σ t a st)).1 = (valRef ctx σ a h).1 ∧
    StateRel ctx (argEvalN (typeP ctx σ a) (missOk a) st (fun t => evalN ctx σ t a st)).2 (valRef ctx σ a h).2 ∧
    (∀ v, (valRef ctx σ a h).1 = .ok v → v.ty = ta) := by
  rw [typeP_typeRef ctx σ hT a ta ht]
  obtain ⟨hne, hmiss⟩ := typeRef_shape ctx σ hF a ta hwf ht
  by_cases hm : ta = .missing
  · obtain ⟨hmo, hval⟩ := hmiss hm
    subst hm
    simp [argEvalN, hmo, hval, hr, Value.ty]
  · obtain ⟨a1, a2⟩ := ih ta st h hr ht
    have : argEvalN (some ta) (missOk a) st (fun t => evalN ctx σ t a st) = evalN ctx σ ta a st := by
      cases ta <;> simp_all [argEvalN]
    rw [this]
    refine ⟨a1, a2, fun v hv => ?_⟩
    exact evalN_ty ctx σ a ta st v (by rw [a1, hv])

theorem canon_fields (e : Entry) (h : canon e = true) :
    e.lm = e.lt ∧ e.rm = e.rt ∧ e.ret = e.res ∧
    e.shape = (match e.op with | .and => .andSC | .or => .orSC | _ => .plain) := by
  simp only [canon, Bool.and_eq_true, beq_iff_eq] at h
  exact ⟨h.1.1.1.1.1, h.1.1.1.1.2, h.1.1.1.2, h.1.2⟩

theorem compute_ty (e : Entry) (vl vr v : Value F) (h : e.compute ctx.ops ctx.reMatch vl vr = .ok v) : v.ty = e.res := by
  unfold Entry.compute at h
  cases hz : (e.zeroGuard && isZeroV vr) with
  | true => simp [hz] at h
  | false =>
    simp only [hz] at h
    cases hr : RExp.eval ctx.ops ctx.reMatch vl vr e.rexp with
    | ok u =>
      simp only [hr] at h
      by_cases hu : u.ty = e.res
      · simp [hu] at h; subst h; exact hu
      · simp [hu] at h
    | err => simp [hr] at h
    | trap => simp [hr] at h

theorem agree_all (hT : TblOK ctx.tbl) (hF : FnOK ctx) (e : Expr F) : noMissingLit e = true → Agree ctx σ e := by
  induction e with
  | lit v =>
    intro _ t st h hr ht
    simp only [typeRef] at ht
    cases ht
    simp [evalN, valRef, chk, hr]
  | ref n =>
    intro _ t st h hr ht
    simp only [typeRef] at ht
    cases hg : σ.get n with
    | none => simp [hg] at ht
    | some v =>
      simp [hg] at ht
      subst ht
      simp [evalN, valRef, chk, hg, hr]
  | call0 fn =>
    intro _ t st h hr ht
    simp only [typeRef] at ht
    obtain ⟨c1, c2⟩ := callFn_refCall ctx fn [] st h hr
    simp only [evalN, valRef]
    rw [chk_id t _ (fun v hv => call_ty ctx hF fn [] st t v (by simpa using ht) hv)]
    exact ⟨c1, c2⟩
  | callMany fn => intro _ t st h hr ht; simp [typeRef] at ht
  | lam i e ih =>
    intro hwf t st h hr ht
    have ihe := ih (by simpa [noMissingLit] using hwf)
    have htp := typeP_typeRef ctx σ hT (.lam i e) t ht
    obtain ⟨hte, hnt⟩ := typeRef_lam ctx σ ht
    obtain ⟨a1, a2⟩ := ihe t (st.enter i) (h.enter i) (stateRel_enter ctx hr i) hte
    simp only [evalN, valRef, htp]
    rw [if_pos ⟨trivial, hnt⟩]
    exact ⟨a1, stateRel_leave ctx hr a2 i⟩
  | un op e ih =>
    intro hwf t st h hr ht
    have ihe := ih (by simpa [noMissingLit] using hwf)
    have htp := typeP_typeRef ctx σ hT (.un op e) t ht
    cases op with
    | not =>
      simp only [typeRef] at ht
      split at ht
      · rename_i hte
        cases ht
        obtain ⟨a1, a2⟩ := ihe .bool st h hr hte
        simp only [evalN, valRef, htp]
        rcases hv : valRef ctx σ e h with ⟨ro, h'⟩
        rcases hn : evalN ctx σ .bool e st with ⟨r, st'⟩
        rw [hv, hn] at a1 a2
        simp only at a1 a2
        subst a1
        cases r with
        | ok v =>
          have hty := evalN_ty ctx σ e .bool st v (by rw [hn])
          cases v <;> simp [Value.ty] at hty
          simp [negate, a2]
        | err => simp [a2]
        | trap => simp [a2]
      · cases ht
    | neg =>
      simp only [typeRef] at ht
      have key : ∀ t', typeRef ctx σ e = some t' → t' = t → (t = .int ∨ t = .float ∨ t = .duration) →
          (evalN ctx σ t (.un .neg e) st).1 = (valRef ctx σ (.un .neg e) h).1 ∧
          StateRel ctx (evalN ctx σ t (.un .neg e) st).2 (valRef ctx σ (.un .neg e) h).2 := by
        intro t' hte htt hcase
        subst htt
        obtain ⟨a1, a2⟩ := ihe t' st h hr hte
        have hw : (t' = .bool ∨ t' = .int ∨ t' = .float ∨ t' = .duration) := Or.inr hcase
        have hnb : ¬ (t' = .bool ∧ UOp.neg ≠ UOp.not) := by
          rcases hcase with rfl | rfl | rfl <;> simp
        simp only [evalN, valRef, htp, hw, hnb, if_true, if_false]
        rcases hv : valRef ctx σ e h with ⟨ro, h'⟩
        rcases hn : evalN ctx σ t' e st with ⟨r, st'⟩
        rw [hv, hn] at a1 a2
        simp only at a1 a2
        subst a1
        cases r with
        | ok v =>
          have hty := evalN_ty ctx σ e t' st v (by rw [hn])
          rcases hcase with rfl | rfl | rfl <;> cases v <;> simp [Value.ty] at hty <;>
            simp [negate, a2, Int.neg_one_mul]
        | err => simp [a2]
        | trap => simp [a2]
      split at ht
      · rename_i he; cases ht; exact key _ he rfl (Or.inl rfl)
      · rename_i he; cases ht; exact key _ he rfl (Or.inr (Or.inl rfl))
      · rename_i he; cases ht; exact key _ he rfl (Or.inr (Or.inr rfl))
      · cases ht
  | call1 fn a iha =>
    intro hwf t st h hr ht
    have wa : noMissingLit a = true := by simpa [noMissingLit] using hwf
    simp only [typeRef] at ht
    cases hta : typeRef ctx σ a with
    | none => simp [hta] at ht
    | some ta =>
      simp [hta] at ht
      obtain ⟨a1, a2, a3⟩ := arg_agree ctx σ hT hF a ta st h wa hr hta (iha wa)
      simp only [evalN, valRef]
      rcases hv : valRef ctx σ a h with ⟨ro, h1⟩
      rcases hn : argEvalN (typeP ctx σ a) (missOk a) st (fun t => evalN ctx σ t a st) with ⟨r1, s1⟩
      rw [hv, hn] at a1 a2
      rw [hv] at a3
      simp only at a1 a2 a3
      subst a1
      cases r1 with
      | ok v1 =>
        simp only
        obtain ⟨c1, c2⟩ := callFn_refCall ctx fn [v1] s1 h1 a2
        have hs : sigType ctx fn ([v1].map Value.ty) = some t := by simpa [a3 v1 rfl] using ht
        rw [chk_id t _ (fun v hv => call_ty ctx hF fn [v1] s1 t v hs hv)]
        exact ⟨c1, c2⟩
      | err => exact ⟨rfl, a2⟩
      | trap => exact ⟨rfl, a2⟩
  | call2 fn a b iha ihb =>
    intro hwf t st h hr ht
    have w : noMissingLit a = true ∧ noMissingLit b = true := by simpa [noMissingLit] using hwf
    simp only [typeRef] at ht
    cases hta : typeRef ctx σ a with
    | none => simp [hta] at ht
    | some ta =>
      cases htb : typeRef ctx σ b with
      | none => simp [hta, htb] at ht
      | some tb =>
        simp [hta, htb] at ht
        obtain ⟨a1, a2, a3⟩ := arg_agree ctx σ hT hF a ta st h w.1 hr hta (iha w.1)
        simp only [evalN, valRef]
        rcases hv : valRef ctx σ a h with ⟨ro, h1⟩
        rcases hn : argEvalN (typeP ctx σ a) (missOk a) st (fun t => evalN ctx σ t a st) with ⟨r1, s1⟩
        rw [hv, hn] at a1 a2
        rw [hv] at a3
        simp only at a1 a2 a3
        subst a1
        cases r1 with
        | ok v1 =>
          simp only
          obtain ⟨b1, b2, b3⟩ := arg_agree ctx σ hT hF b tb s1 h1 w.2 a2 htb (ihb w.2)
          rcases hv2 : valRef ctx σ b h1 with ⟨ro2, h2⟩
          rcases hn2 : argEvalN (typeP ctx σ b) (missOk b) s1 (fun t => evalN ctx σ t b s1) with ⟨r2, s2⟩
          rw [hv2, hn2] at b1 b2
          rw [hv2] at b3
          simp only at b1 b2 b3
          subst b1
          cases r2 with
          | ok v2 =>
            simp only
            obtain ⟨c1, c2⟩ := callFn_refCall ctx fn [v1, v2] s2 h2 b2
            have hs : sigType ctx fn ([v1, v2].map Value.ty) = some t := by simpa [a3 v1 rfl, b3 v2 rfl] using ht
            rw [chk_id t _ (fun v hv => call_ty ctx hF fn [v1, v2] s2 t v hs hv)]
            exact ⟨c1, c2⟩
          | err => exact ⟨rfl, b2⟩
          | trap => exact ⟨rfl, b2⟩
        | err => exact ⟨rfl, a2⟩
        | trap => exact ⟨rfl, a2⟩
  | call3 fn a b d iha ihb ihd =>
    intro hwf t st h hr ht
    have w : (noMissingLit a = true ∧ noMissingLit b = true) ∧ noMissingLit d = true := by simpa [noMissingLit] using hwf
    simp only [typeRef] at ht
    cases hta : typeRef ctx σ a with
    | none => simp [hta] at ht
    | some ta =>
      cases htb : typeRef ctx σ b with
      | none => simp [hta, htb] at ht
      | some tb =>
        cases htd : typeRef ctx σ d with
        | none => simp [hta, htb, htd] at ht
        | some td =>
          simp [hta, htb, htd] at ht
          obtain ⟨a1, a2, a3⟩ := arg_agree ctx σ hT hF a ta st h w.1.1 hr hta (iha w.1.1)
          simp only [evalN, valRef]
          rcases hv : valRef ctx σ a h with ⟨ro, h1⟩
          rcases hn : argEvalN (typeP ctx σ a) (missOk a) st (fun t => evalN ctx σ t a st) with ⟨r1, s1⟩
          rw [hv, hn] at a1 a2
          rw [hv] at a3
          simp only at a1 a2 a3
          subst a1
          cases r1 with
          | ok v1 =>
            simp only
            obtain ⟨b1, b2, b3⟩ := arg_agree ctx σ hT hF b tb s1 h1 w.1.2 a2 htb (ihb w.1.2)
            rcases hv2 : valRef ctx σ b h1 with ⟨ro2, h2⟩
            rcases hn2 : argEvalN (typeP ctx σ b) (missOk b) s1 (fun t => evalN ctx σ t b s1) with ⟨r2, s2⟩
            rw [hv2, hn2] at b1 b2
            rw [hv2] at b3
            simp only at b1 b2 b3
            subst b1
            cases r2 with
            | ok v2 =>
              simp only
              obtain ⟨d1, d2, d3⟩ := arg_agree ctx σ hT hF d td s2 h2 w.2 b2 htd (ihd w.2)
              rcases hv3 : valRef ctx σ d h2 with ⟨ro3, h3⟩
              rcases hn3 : argEvalN (typeP ctx σ d) (missOk d) s2 (fun t => evalN ctx σ t d s2) with ⟨r3, s3⟩
              rw [hv3, hn3] at d1 d2
              rw [hv3] at d3
              simp only at d1 d2 d3
              subst d1
              cases r3 with
              | ok v3 =>
                simp only
                obtain ⟨c1, c2⟩ := callFn_refCall ctx fn [v1, v2, v3] s3 h3 d2
                have hs : sigType ctx fn ([v1, v2, v3].map Value.ty) = some t := by
                  simpa [a3 v1 rfl, b3 v2 rfl, d3 v3 rfl] using ht
                rw [chk_id t _ (fun v hv => call_ty ctx hF fn [v1, v2, v3] s3 t v hs hv)]
                exact ⟨c1, c2⟩
              | err => exact ⟨rfl, d2⟩
              | trap => exact ⟨rfl, d2⟩
            | err => exact ⟨rfl, b2⟩
            | trap => exact ⟨rfl, b2⟩
          | err => exact ⟨rfl, a2⟩
          | trap => exact ⟨rfl, a2⟩
  | call4 fn a b d e iha ihb ihd ihe =>
    intro hwf t st h hr ht
    have w : ((noMissingLit a = true ∧ noMissingLit b = true) ∧ noMissingLit d = true) ∧ noMissingLit e = true := by
      simpa [noMissingLit] using hwf
    simp only [typeRef] at ht
    cases hta : typeRef ctx σ a with
    | none => simp [hta] at ht
    | some ta =>
      cases htb : typeRef ctx σ b with
      | none => simp [hta, htb] at ht
      | some tb =>
        cases htd : typeRef ctx σ d with
        | none => simp [hta, htb, htd] at ht
        | some td =>
          cases hte : typeRef ctx σ e with
          | none => simp [hta, htb, htd, hte] at ht
          | some te =>
            simp [hta, htb, htd, hte] at ht
            obtain ⟨a1, a2, a3⟩ := arg_agree ctx σ hT hF a ta st h w.1.1.1 hr hta (iha w.1.1.1)
            simp only [evalN, valRef]
            rcases hv : valRef ctx σ a h with ⟨ro, h1⟩
            rcases hn : argEvalN (typeP ctx σ a) (missOk a) st (fun t => evalN ctx σ t a st) with ⟨r1, s1⟩
            rw [hv, hn] at a1 a2
            rw [hv] at a3
            simp only at a1 a2 a3
            subst a1
            cases r1 with
            | ok v1 =>
              simp only
              obtain ⟨b1, b2, b3⟩ := arg_agree ctx σ hT hF b tb s1 h1 w.1.1.2 a2 htb (ihb w.1.1.2)
              rcases hv2 : valRef ctx σ b h1 with ⟨ro2, h2⟩
              rcases hn2 : argEvalN (typeP ctx σ b) (missOk b) s1 (fun t => evalN ctx σ t b s1) with ⟨r2, s2⟩
              rw [hv2, hn2] at b1 b2
              rw [hv2] at b3
              simp only at b1 b2 b3
              subst b1
              cases r2 with
              | ok v2 =>
                simp only
                obtain ⟨d1, d2, d3⟩ := arg_agree ctx σ hT hF d td s2 h2 w.1.2 b2 htd (ihd w.1.2)
                rcases hv3 : valRef ctx σ d h2 with ⟨ro3, h3⟩
                rcases hn3 : argEvalN (typeP ctx σ d) (missOk d) s2 (fun t => evalN ctx σ t d s2) with ⟨r3, s3⟩
                rw [hv3, hn3] at d1 d2
                rw [hv3] at d3
                simp only at d1 d2 d3
                subst d1
                cases r3 with
                | ok v3 =>
                  simp only
                  obtain ⟨e1, e2, e3⟩ := arg_agree ctx σ hT hF e te s3 h3 w.2 d2 hte (ihe w.2)
                  rcases hv4 : valRef ctx σ e h3 with ⟨ro4, h4⟩
                  rcases hn4 : argEvalN (typeP ctx σ e) (missOk e) s3 (fun t => evalN ctx σ t e s3) with ⟨r4, s4⟩
                  rw [hv4, hn4] at e1 e2
                  rw [hv4] at e3
                  simp only at e1 e2 e3
                  subst e1
                  cases r4 with
                  | ok v4 =>
                    simp only
                    obtain ⟨c1, c2⟩ := callFn_refCall ctx fn [v1, v2, v3, v4] s4 h4 e2
                    have hs : sigType ctx fn ([v1, v2, v3, v4].map Value.ty) = some t := by
                      simpa [a3 v1 rfl, b3 v2 rfl, d3 v3 rfl, e3 v4 rfl] using ht
                    rw [chk_id t _ (fun v hv => call_ty ctx hF fn [v1, v2, v3, v4] s4 t v hs hv)]
                    exact ⟨c1, c2⟩
                  | err => exact ⟨rfl, e2⟩
                  | trap => exact ⟨rfl, e2⟩
                | err => exact ⟨rfl, d2⟩
                | trap => exact ⟨rfl, d2⟩
              | err => exact ⟨rfl, b2⟩
              | trap => exact ⟨rfl, b2⟩
            | err => exact ⟨rfl, a2⟩
            | trap => exact ⟨rfl, a2⟩
  | bin op l r ihl ihr =>
    intro hwf t st h hr ht
    have w : noMissingLit l = true ∧ noMissingLit r = true := by simpa [noMissingLit] using hwf
    simp only [typeRef] at ht
    cases htl : typeRef ctx σ l with
    | none => simp [htl] at ht
    | some tl =>
      cases htr : typeRef ctx σ r with
      | none => simp [htl, htr] at ht
      | some tr =>
        simp only [htl, htr] at ht
        obtain ⟨ent, hent, hret⟩ := lookup_of_binType hT ht
        have hspec : specN ctx σ op l r = (false, some ent) := by
          unfold specN
          split
          · simp [typeP_typeRef ctx σ hT l tl htl, typeP_typeRef ctx σ hT r tr htr, hent]
          · rename_i hd
            have hd' : isDyn ctx l = false ∧ isDyn ctx r = false := by simpa using hd
            rw [constType_nondyn ctx σ hT l tl htl hd'.1, constType_nondyn ctx σ hT r tr htr hd'.2, hent]
        have hcan := hT.canonical ent (lookup_mem _ _ _ _ _ hent)
        obtain ⟨k1, k2, k3⟩ := lookup_key hent
        obtain ⟨c1, c2, c3, c4⟩ := canon_fields ent hcan
        have hlm : ent.lm = tl := c1.trans k2
        have hrm : ent.rm = tr := c2.trans k3
        have hres : ent.res = t := c3.symm.trans hret
        rw [k1] at c4
        have hw : t = .bool ∨ t = .int ∨ t = .float ∨ t = .string ∨ t = .duration := by
          have := binType_val ht
          cases t <;> simp [isValTy] at this <;> simp
        simp only [evalN, hspec, hw, if_true, hlm, hrm]
        simp only [valRef]
        obtain ⟨a1, a2⟩ := ihl w.1 tl st h hr htl
        rcases hvl : valRef ctx σ l h with ⟨ol, h1⟩
        rcases hnl : evalN ctx σ tl l st with ⟨rl, st1⟩
        rw [hvl, hnl] at a1 a2
        simp only at a1 a2
        subst a1
        cases rl with
        | err => exact ⟨rfl, a2⟩
        | trap => exact ⟨rfl, a2⟩
        | ok vl =>
          have hvlty : vl.ty = tl := evalN_ty ctx σ l tl st vl (by rw [hnl])
          -- the general (no short circuit) continuation
          have cont :
              ((match (evalN ctx σ tr r st1).fst with
                | .ok vr => (chk t (ent.compute ctx.ops ctx.reMatch vl vr), (evalN ctx σ tr r st1).snd)
                | o => (o, (evalN ctx σ tr r st1).snd)) : Outcome (Value F) × FnState F).1 =
                (match valRef ctx σ r h1 with
                 | (.ok vr, h2) => (refBinop ctx.ops ctx.reMatch op vl vr, h2)
                 | x => x).1 ∧
              StateRel ctx ((match (evalN ctx σ tr r st1).fst with
                | .ok vr => (chk t (ent.compute ctx.ops ctx.reMatch vl vr), (evalN ctx σ tr r st1).snd)
                | o => (o, (evalN ctx σ tr r st1).snd)) : Outcome (Value F) × FnState F).2
                (match valRef ctx σ r h1 with
                 | (.ok vr, h2) => (refBinop ctx.ops ctx.reMatch op vl vr, h2)
                 | x => x).2 := by
            obtain ⟨b1, b2⟩ := ihr w.2 tr st1 h1 a2 htr
            rcases hvr : valRef ctx σ r h1 with ⟨or_, h2⟩
            rcases hnr : evalN ctx σ tr r st1 with ⟨rr, st2⟩
            rw [hvr, hnr] at b1 b2
            simp only at b1 b2
            subst b1
            cases rr with
            | err => exact ⟨rfl, b2⟩
            | trap => exact ⟨rfl, b2⟩
            | ok vr =>
              have hvrty : vr.ty = tr := evalN_ty ctx σ r tr st1 vr (by rw [hnr])
              have hcs := (canon_sound ctx.ops ctx.reMatch ent hcan vl vr (hvlty.trans k2.symm) (hvrty.trans k3.symm)).1
              simp only
              rw [chk_id t _ (fun v hv => (compute_ty ctx ent vl vr v hv).trans hres), hcs, k1]
              exact ⟨rfl, b2⟩
          simp only [Bool.false_eq_true, if_false]
          cases op <;> simp only at c4
          all_goals first
            | (simp only [c4]; exact cont)
            | skip
          · have ht' : t = .bool := binType_comp rfl ht
            cases vl with
            | bool b =>
              cases b with
              | false => subst ht'; simp [c4, chk, Value.ty, a2]
              | true => simp only [c4]; exact cont
            | _ => simp only [c4]; exact cont
          · have ht' : t = .bool := binType_comp rfl ht
            cases vl with
            | bool b =>
              cases b with
              | true => subst ht'; simp [c4, chk, Value.ty, a2]
              | false => simp only [c4]; exact cont
            | _ => simp only [c4]; exact cont

/-- `Expression.Eval` and `Type`+`EvalBool` (cache erased) on a well-typed point of value type. -/
theorem runPathN_agree (hT : TblOK ctx.tbl) (hF : FnOK ctx) (e : Expr F) (p : Path) (t : Ty) (st : FnState F) (h : Hist F)
    (hwf : noMissingLit e = true) (hr : StateRel ctx st h) (ht : typeRef ctx σ e = some t)
    (hp : (p = .eval ∧ isValTy t = true) ∨ (p = .pred ∧ t = .bool) ∨ p = .direct t) :
    (runPathN ctx σ p e st).1 = (valRef ctx σ e h).1 ∧ StateRel ctx (runPathN ctx σ p e st).2 (valRef ctx σ e h).2 := by
  have hag := agree_all ctx σ hT hF e hwf t st h hr ht
  have htp := typeP_typeRef ctx σ hT e t ht
  have hnt : TblNoTrap ctx := by
    intro ent hm vl vr hl hr'
    have hc := hT.canonical ent hm
    obtain ⟨c1, c2, _, _⟩ := canon_fields ent hc
    exact (canon_sound ctx.ops ctx.reMatch ent hc vl vr (hl.trans c1) (hr'.trans c2)).2
  rcases hp with ⟨rfl, hv⟩ | ⟨rfl, rfl⟩ | rfl
  · have hw : t = .int ∨ t = .float ∨ t = .string ∨ t = .bool ∨ t = .duration := by
      cases t <;> simp [isValTy] at hv <;> simp
    simp only [runPathN, evalTopN, htp, hw, if_true]
    have hne := evalN_trap ctx σ hnt e t st
    rcases hn : evalN ctx σ t e st with ⟨r, st'⟩
    rw [hn] at hag hne
    cases r with
    | trap => exact absurd rfl hne
    | ok v => exact hag
    | err => exact hag
  · simp only [runPathN, evalPredN, htp]; exact hag
  · exact hag
end
end Kap.C04
