/-
C04 — helper lemmas, part 4: the evaluator against the reference semantics.
`callFn_refCall`: the builtins' incremental state (`FnState`) simulates the reference's history (`Hist`) under
`StateRel`, with equal results. `constType_typeRef`, `typeP_typeRef`, `constType_nondyn`: `Type()` and the
constant types agree with the reference typing `typeRef` on well-typed points. `evalN_valRef`: on a
well-typed point the (cache-erased) evaluator returns the outcome of the big-step reference `valRef`.
-/
import Kap.Proofs.C04Trap
import Kap.Proofs.C04
namespace Kap.C04
section
variable {F : Type} (ctx : Ctx F)

/-- the incremental state of the stateful builtins represents a history of their arguments. -/
def StateRel (st : FnState F) (h : Hist F) : Prop :=
  st.count = wrap h.counts ∧
  st.spMin = h.spreads.foldl (fun m y => if ctx.ops.lt y m then y else m) ctx.ops.posInf ∧
  st.spMax = h.spreads.foldl (fun m y => if ctx.ops.gt y m then y else m) ctx.ops.negInf ∧
  (st.sN, st.sMean, st.sM2) = h.sigmas.foldl (welford ctx) (ctx.ops.ofInt 0, ctx.ops.ofInt 0, ctx.ops.ofInt 0)

theorem stateRel_init : StateRel ctx (FnState.init ctx.ops) {} := by
  simp [StateRel, FnState.init, wrap]

theorem wrap_wrap_succ (a : Int) : wrap (wrap a + 1) = wrap (a + 1) := by
  unfold wrap; omega

theorem callFn_refCall (fn : String) (args : List (Value F)) (st : FnState F) (h : Hist F)
    (hr : StateRel ctx st h) :
    (callFn ctx fn args st).1 = (refCall ctx fn args h).1 ∧
    StateRel ctx (callFn ctx fn args st).2 (refCall ctx fn args h).2 := by
  have hr0 := hr
  obtain ⟨hc, hmin, hmax, hsig⟩ := hr
  unfold callFn refCall
  by_cases h1 : fn = "count"
  · simp only [h1, if_true]
    refine ⟨?_, ?_, hmin, hmax, hsig⟩
    · simp [hc, wrap_wrap_succ]
    · simp [hc, wrap_wrap_succ]
  simp only [h1, if_false]
  by_cases h2 : fn = "sigma"
  · simp only [h2, if_true]
    split
    · rename_i x
      have hf : (h.sigmas ++ [x]).foldl (welford ctx) (ctx.ops.ofInt 0, ctx.ops.ofInt 0, ctx.ops.ofInt 0)
          = welford ctx (st.sN, st.sMean, st.sM2) x := by
        rw [List.foldl_append, ← hsig]; rfl
      refine ⟨?_, hc, hmin, hmax, ?_⟩
      · simp [refSigma, hf, welford]
      · simp [hf, welford]
    · rename_i hne
      split
      · rename_i x; exact absurd rfl (hne x)
      · exact ⟨rfl, hr0⟩
  simp only [h2, if_false]
  by_cases h3 : fn = "spread"
  · simp only [h3, if_true]
    split
    · rename_i x
      refine ⟨?_, hc, ?_, ?_, hsig⟩
      · simp [refSpread, List.foldl_append, ← hmin, ← hmax]
      · simp [List.foldl_append, ← hmin]
      · simp [List.foldl_append, ← hmax]
    · rename_i hne
      split
      · rename_i x; exact absurd rfl (hne x)
      · exact ⟨rfl, hr0⟩
  simp only [h3, if_false]
  by_cases h4 : fn = "if"
  · simp only [h4, if_true]
    split
    · rename_i c a b
      by_cases hab : a.ty = b.ty
      · simp [hab]; exact hr0
      · simp [hab]; exact hr0
    · rename_i hne
      split
      · rename_i c a b; exact absurd rfl (hne c a b)
      · exact ⟨rfl, hr0⟩
  simp only [h4, if_false]
  by_cases h5 : fn = "isPresent"
  · simp only [h5, if_true]
    split
    · simp; exact hr0
    · rename_i hne
      split
      · rename_i v; exact absurd rfl (hne v)
      · exact ⟨rfl, hr0⟩
  simp only [h5, if_false]
  by_cases h6 : fn = "strSubstring"
  · simp only [h6, if_true]
    split
    · rename_i s start stop
      by_cases hin : 0 ≤ start ∧ start ≤ stop ∧ stop ≤ (s.utf8ByteSize : Int)
      · have g1 : ¬ start < 0 := by omega
        have g2 : ¬ stop < 0 := by omega
        have g3 : ¬ stop > (s.utf8ByteSize : Int) := by omega
        have g4 : ¬ start > stop := by omega
        simp only [g1, g2, g3, g4, hin, if_false, if_true, and_self]
        generalize ctx.call "strSubstring" [Value.str s, Value.int start, Value.int stop] = oc
        rcases oc with _ | (v | _) <;> exact ⟨rfl, hr0⟩
      · simp only [hin, if_false]
        refine ⟨?_, ?_⟩ <;> (repeat' split) <;> first | rfl | exact hr0 | (exfalso; omega)
    · rename_i hne
      split
      · rename_i s a b; exact absurd rfl (hne s a b)
      · exact ⟨rfl, hr0⟩
  simp only [h6, if_false]
  split
  · generalize ctx.call fn args = oc
    rcases oc with _ | (v | _) <;> exact ⟨rfl, hr0⟩
  · exact ⟨rfl, hr0⟩

/-! ### typing: `Type()` against the reference typing -/

def isValTy (t : Ty) : Bool := t == .int || t == .float || t == .string || t == .bool || t == .duration

theorem binType_facts (op : BOp) (a b : Ty) :
    (match binType op a b with | some t => isValTy t | none => true) = true ∧
    ((!(op.isComp || op.isLogical)) || (binType op a b == none || binType op a b == some .bool)) = true ∧
    binType op .invalid b = none ∧ binType op a .invalid = none := by
  cases op <;> cases a <;> cases b <;> exact ⟨rfl, rfl, rfl, rfl⟩

theorem binType_val {op : BOp} {a b t : Ty} (h : binType op a b = some t) : isValTy t = true := by
  have := (binType_facts op a b).1; rw [h] at this; exact this

theorem binType_comp {op : BOp} {a b t : Ty} (hc : (op.isComp || op.isLogical) = true) (h : binType op a b = some t) :
    t = .bool := by
  have := (binType_facts op a b).2.1
  rw [h, hc] at this
  simpa using this.symm

/-- what the proofs need from the operator table (both are theorems about the regenerated table). -/
structure TblOK (tbl : List Entry) : Prop where
  complete : ∀ op tl tr, (lookup tbl op tl tr).map (·.ret) = binType op tl tr
  canonical : ∀ e ∈ tbl, canon e = true

theorem lookup_of_binType {tbl : List Entry} (hT : TblOK tbl) {op : BOp} {a b t : Ty} (h : binType op a b = some t) :
    ∃ ent, lookup tbl op a b = some ent ∧ ent.ret = t := by
  have := hT.complete op a b
  rw [h] at this
  cases hl : lookup tbl op a b with
  | none => rw [hl] at this; cases this
  | some ent => rw [hl] at this; exact ⟨ent, rfl, by simpa using this⟩

theorem lookup_none_of_binType {tbl : List Entry} (hT : TblOK tbl) {op : BOp} {a b : Ty} (h : binType op a b = none) :
    lookup tbl op a b = none := by
  have := hT.complete op a b
  rw [h] at this
  cases hl : lookup tbl op a b with
  | none => rfl
  | some ent => rw [hl] at this; cases this

theorem lookup_key {tbl : List Entry} {op : BOp} {a b : Ty} {ent : Entry} (h : lookup tbl op a b = some ent) :
    ent.op = op ∧ ent.lt = a ∧ ent.rt = b := by
  have := List.find?_some h
  simpa [Bool.and_eq_true, and_assoc] using this

variable (σ : Scope F)

theorem constType_typeRef (hT : TblOK ctx.tbl) (e : Expr F) :
    ∀ t, typeRef ctx σ e = some t → constType ctx e = .invalid ∨ constType ctx e = t := by
  induction e with
  | lit v => intro t h; right; simp only [typeRef] at h; simp only [constType]; exact Option.some.inj h
  | ref n => intro t h; left; simp [constType]
  | un op e ih =>
    intro t h
    cases op with
    | not =>
      right
      simp only [typeRef] at h
      split at h
      · simp only [constType]; exact Option.some.inj h
      · cases h
    | neg =>
      simp only [constType]
      simp only [typeRef] at h
      split at h <;> first | (cases h; done) | (rename_i he; cases h; exact ih _ he)
  | bin op l r ihl ihr =>
    intro t h
    simp only [typeRef] at h
    cases hl : typeRef ctx σ l with
    | none => simp [hl] at h
    | some tl =>
      cases hr : typeRef ctx σ r with
      | none => simp [hl, hr] at h
      | some tr =>
        simp only [hl, hr] at h
        simp only [constType]
        split
        · rename_i hc; right; exact (binType_comp hc h).symm
        · rcases ihl tl hl with el | el
          · left; rw [el, lookup_none_of_binType hT (binType_facts op tl (constType ctx r)).2.2.1]
          · rcases ihr tr hr with er | er
            · left; rw [er, lookup_none_of_binType hT (binType_facts op (constType ctx l) tr).2.2.2]
            · right
              obtain ⟨ent, he, hret⟩ := lookup_of_binType hT h
              rw [el, er, he]; exact hret
  | call0 fn => intro t h; left; simp [constType]
  | call1 fn a ih => intro t h; left; simp [constType]
  | call2 fn a b iha ihb => intro t h; left; simp [constType]
  | call3 fn a b d iha ihb ihd => intro t h; left; simp [constType]
  | callMany fn => intro t h; left; simp [constType]

theorem isValTy_ne_invalid {t : Ty} (h : isValTy t = true) : t ≠ .invalid := by
  intro e; subst e; cases h

/-- `Type()` answers the reference type on every well-typed point. -/
theorem typeP_typeRef (hT : TblOK ctx.tbl) (e : Expr F) : ∀ t, typeRef ctx σ e = some t → typeP ctx σ e = some t := by
  induction e with
  | lit v => intro t h; simpa [typeRef, typeP] using h
  | ref n =>
    intro t h
    simp only [typeRef] at h
    simp only [typeP]
    cases hg : σ.get n with
    | none => simp [hg] at h
    | some v => simpa [hg] using h
  | un op e ih =>
    intro t h
    have h2 := constType_typeRef ctx σ hT (.un op e) t h
    simp only [typeP]
    split
    · rename_i hne
      rcases h2 with h2 | h2
      · exact absurd h2 hne
      · rw [h2]
    · rename_i hinv
      cases op with
      | not => simp [constType] at hinv
      | neg =>
        simp only [typeRef] at h
        split at h <;> first | (cases h; done) | (rename_i he; cases h; exact ih _ he)
  | bin op l r ihl ihr =>
    intro t h
    have h2 := constType_typeRef ctx σ hT (.bin op l r) t h
    simp only [typeP]
    split
    · rename_i hne
      rcases h2 with h2 | h2
      · exact absurd h2 hne
      · rw [h2]
    · simp only [typeRef] at h
      cases hl : typeRef ctx σ l with
      | none => simp [hl] at h
      | some tl =>
        cases hr : typeRef ctx σ r with
        | none => simp [hl, hr] at h
        | some tr =>
          simp only [hl, hr] at h
          obtain ⟨ent, he, hret⟩ := lookup_of_binType hT h
          simp only [ihl tl hl, ihr tr hr, he]
          have := isValTy_ne_invalid (binType_val h)
          simp [hret, this]
  | call0 fn => intro t h; simpa [typeRef, typeP] using h
  | call1 fn a ih =>
    intro t h
    simp only [typeRef] at h
    simp only [typeP]
    cases ha : typeRef ctx σ a with
    | none => simp [ha] at h
    | some ta => simp only [ih ta ha]; simpa [ha] using h
  | call2 fn a b iha ihb =>
    intro t h
    simp only [typeRef] at h
    simp only [typeP]
    cases ha : typeRef ctx σ a with
    | none => simp [ha] at h
    | some ta =>
      cases hb : typeRef ctx σ b with
      | none => simp [ha, hb] at h
      | some tb => simp only [iha ta ha, ihb tb hb]; simpa [ha, hb] using h
  | call3 fn a b d iha ihb ihd =>
    intro t h
    simp only [typeRef] at h
    simp only [typeP]
    cases ha : typeRef ctx σ a with
    | none => simp [ha] at h
    | some ta =>
      cases hb : typeRef ctx σ b with
      | none => simp [ha, hb] at h
      | some tb =>
        cases hd : typeRef ctx σ d with
        | none => simp [ha, hb, hd] at h
        | some td => simp only [iha ta ha, ihb tb hb, ihd td hd]; simpa [ha, hb, hd] using h
  | callMany fn => intro t h; simp [typeRef] at h

/-- a well-typed non-dynamic expression has its reference type as constant type. -/
theorem constType_nondyn (hT : TblOK ctx.tbl) (e : Expr F) :
    ∀ t, typeRef ctx σ e = some t → isDyn ctx e = false → constType ctx e = t := by
  induction e with
  | lit v => intro t h _; simp only [typeRef] at h; simp only [constType]; exact Option.some.inj h
  | ref n => intro t h hd; simp [isDyn] at hd
  | un op e ih =>
    intro t h hd
    rcases constType_typeRef ctx σ hT (.un op e) t h with h2 | h2
    · cases op with
      | not => simp [constType] at h2
      | neg =>
        simp only [isDyn, h2] at hd
        simp only [constType] at h2 ⊢
        simp only [typeRef] at h
        split at h <;> first | (cases h; done) | (rename_i he; cases h; exact ih _ he (by simpa using hd))
    · exact h2
  | bin op l r ihl ihr =>
    intro t h hd
    rcases constType_typeRef ctx σ hT (.bin op l r) t h with h2 | h2
    · simp only [isDyn, h2] at hd
      have hd' : isDyn ctx l = false ∧ isDyn ctx r = false := by simpa using hd
      simp only [typeRef] at h
      cases hl : typeRef ctx σ l with
      | none => simp [hl] at h
      | some tl =>
        cases hr : typeRef ctx σ r with
        | none => simp [hl, hr] at h
        | some tr =>
          simp only [hl, hr] at h
          simp only [constType]
          split
          · rename_i hc; exact (binType_comp hc h).symm
          · obtain ⟨ent, he, hret⟩ := lookup_of_binType hT h
            rw [ihl tl hl hd'.1, ihr tr hr hd'.2, he]; exact hret
    · exact h2
  | call0 fn => intro t h hd; simp [isDyn] at hd
  | call1 fn a ih => intro t h hd; simp [isDyn] at hd
  | call2 fn a b iha ihb => intro t h hd; simp [isDyn] at hd
  | call3 fn a b d iha ihb ihd => intro t h hd; simp [isDyn] at hd
  | callMany fn => intro t h hd; simp [isDyn] at hd
end
end Kap.C04
