/-
C04 — helper lemmas, part 3: typed results and absence of panics.
`evalN_ty`: `EvalX` only ever returns a value of type X. `evalN_trap`: if no table entry panics on operands
of the types it asks for (`TblNoTrap`), no evaluation panics — the builtins modelled here never do.
-/
import Kap.Proofs.C04Cache
namespace Kap.C04
section
variable {F : Type} (ctx : Ctx F) (σ : Scope F)

theorem chk_ty (w : Ty) (o : Outcome (Value F)) (v : Value F) (h : chk w o = .ok v) : v.ty = w := by
  unfold chk at h
  split at h
  · split at h
    · cases h; assumption
    · cases h
  · rename_i hne; subst h; exact absurd rfl (hne v)

theorem chk_trap (w : Ty) (o : Outcome (Value F)) (h : o ≠ .trap) : chk w o ≠ .trap := by
  unfold chk
  split
  · split <;> simp
  · exact h

theorem negate_ty (ops : FOps F) (v u : Value F) (h : negate ops v = .ok u) : u.ty = v.ty := by
  cases v <;> simp [negate] at h <;> subst h <;> rfl

theorem negate_trap (ops : FOps F) (v : Value F) : negate ops v ≠ .trap := by
  cases v <;> simp [negate]

theorem callFn_trap (fn : String) (args : List (Value F)) (st : FnState F) : (callFn ctx fn args st).1 ≠ .trap := by
  unfold callFn
  repeat' split
  all_goals first | (simp; done) | (dsimp only; split <;> simp)

theorem argEvalN_ok (tp : Option Ty) (m : Bool) (st : FnState F) (rn : Ty → Outcome (Value F) × FnState F)
    (h : ∀ t, (rn t).1 ≠ .trap) : (argEvalN tp m st rn).1 ≠ .trap := by
  unfold argEvalN
  split <;> (try split) <;> simp_all

/-- `EvalX` returns a value of type X. -/
theorem evalN_ty (e : Expr F) : ∀ (w : Ty) (st : FnState F) (v : Value F), (evalN ctx σ w e st).1 = .ok v → v.ty = w := by
  induction e with
  | lit v0 => intro w st v h; simp only [evalN] at h; exact chk_ty w _ v (by simpa using h)
  | ref n =>
    intro w st v h; simp only [evalN] at h
    split at h
    · exact chk_ty w _ v (by simpa using h)
    · cases h
  | un op e ih =>
    intro w st v h
    simp only [evalN] at h
    split at h
    · split at h
      · cases h
      · split at h
        · split at h
          · cases h
          · rcases hr : evalN ctx σ w e st with ⟨r, st'⟩
            rw [hr] at h
            cases r with
            | ok u =>
              have := ih w st u (by rw [hr])
              have h2 := negate_ty ctx.ops u v h
              rw [h2, this]
            | err => cases h
            | trap => cases h
        · cases h
    · cases h
  | bin op l r ihl ihr =>
    intro w st v h
    simp only [evalN] at h
    split at h
    · split at h
      · cases h
      · split at h
        · cases h
        · rename_i ent _
          rcases hl : evalN ctx σ ent.lm l st with ⟨rl, st1⟩
          rw [hl] at h
          cases rl with
          | ok vl =>
            simp only at h
            split at h
            · exact chk_ty w _ v (by simpa using h)
            · split at h
              · cases h
              · rcases hr : evalN ctx σ ent.rm r st1 with ⟨rr, st2⟩
                rw [hr] at h
                cases rr with
                | ok vr => exact chk_ty w _ v (by simpa using h)
                | err => cases h
                | trap => cases h
          | err => cases h
          | trap => cases h
    · cases h
  | call0 fn => intro w st v h; simp only [evalN] at h; exact chk_ty w _ v (by simpa using h)
  | callMany fn => intro w st v h; simp only [evalN] at h; exact chk_ty w _ v (by simpa using h)
  | lam i e ih =>
    intro w st v h
    simp only [evalN] at h
    split at h
    · cases h
    · split at h
      · exact ih w (st.enter i) v h
      · cases h
  | call1 fn a ih =>
    intro w st v h
    simp only [evalN] at h
    rcases ha : argEvalN (typeP ctx σ a) (missOk a) st (fun t => evalN ctx σ t a st) with ⟨r1, s1⟩
    rw [ha] at h
    cases r1 with
    | ok v1 => exact chk_ty w _ v (by simpa using h)
    | err => simp at h
    | trap => simp at h
  | call2 fn a b iha ihb =>
    intro w st v h
    simp only [evalN] at h
    rcases ha : argEvalN (typeP ctx σ a) (missOk a) st (fun t => evalN ctx σ t a st) with ⟨r1, s1⟩
    rw [ha] at h
    cases r1 with
    | ok v1 =>
      simp only at h
      rcases hb : argEvalN (typeP ctx σ b) (missOk b) s1 (fun t => evalN ctx σ t b s1) with ⟨r2, s2⟩
      rw [hb] at h
      cases r2 with
      | ok v2 => exact chk_ty w _ v (by simpa using h)
      | err => simp at h
      | trap => simp at h
    | err => simp at h
    | trap => simp at h
  | call3 fn a b d iha ihb ihd =>
    intro w st v h
    simp only [evalN] at h
    rcases ha : argEvalN (typeP ctx σ a) (missOk a) st (fun t => evalN ctx σ t a st) with ⟨r1, s1⟩
    rw [ha] at h
    cases r1 with
    | ok v1 =>
      simp only at h
      rcases hb : argEvalN (typeP ctx σ b) (missOk b) s1 (fun t => evalN ctx σ t b s1) with ⟨r2, s2⟩
      rw [hb] at h
      cases r2 with
      | ok v2 =>
        simp only at h
        rcases hd : argEvalN (typeP ctx σ d) (missOk d) s2 (fun t => evalN ctx σ t d s2) with ⟨r3, s3⟩
        rw [hd] at h
        cases r3 with
        | ok v3 => exact chk_ty w _ v (by simpa using h)
        | err => simp at h
        | trap => simp at h
      | err => simp at h
      | trap => simp at h
    | err => simp at h
    | trap => simp at h
  | call4 fn a b d e iha ihb ihd ihe =>
    intro w st v h
    simp only [evalN] at h
    rcases ha : argEvalN (typeP ctx σ a) (missOk a) st (fun t => evalN ctx σ t a st) with ⟨r1, s1⟩
    rw [ha] at h
    cases r1 with
    | ok v1 =>
      simp only at h
      rcases hb : argEvalN (typeP ctx σ b) (missOk b) s1 (fun t => evalN ctx σ t b s1) with ⟨r2, s2⟩
      rw [hb] at h
      cases r2 with
      | ok v2 =>
        simp only at h
        rcases hd : argEvalN (typeP ctx σ d) (missOk d) s2 (fun t => evalN ctx σ t d s2) with ⟨r3, s3⟩
        rw [hd] at h
        cases r3 with
        | ok v3 =>
          simp only at h
          rcases he : argEvalN (typeP ctx σ e) (missOk e) s3 (fun t => evalN ctx σ t e s3) with ⟨r4, s4⟩
          rw [he] at h
          cases r4 with
          | ok v4 => exact chk_ty w _ v (by simpa using h)
          | err => simp at h
          | trap => simp at h
        | err => simp at h
        | trap => simp at h
      | err => simp at h
      | trap => simp at h
    | err => simp at h
    | trap => simp at h

/-- the table never panics on operands of the types its entries ask for. -/
def TblNoTrap : Prop :=
  ∀ ent ∈ ctx.tbl, ∀ vl vr : Value F, vl.ty = ent.lm → vr.ty = ent.rm →
    ent.compute ctx.ops ctx.reMatch vl vr ≠ .trap

theorem lookup_mem (tbl : List Entry) (op : BOp) (a b : Ty) (ent : Entry) (h : lookup tbl op a b = some ent) : ent ∈ tbl :=
  List.mem_of_find?_eq_some h

theorem specN_mem (op : BOp) (l r : Expr F) (ent : Entry) (h : (specN ctx σ op l r).2 = some ent) : ent ∈ ctx.tbl := by
  unfold specN at h
  split at h
  · split at h
    · cases h
    · split at h
      · cases h
      · exact lookup_mem _ _ _ _ _ h
  · exact lookup_mem _ _ _ _ _ h

/-- `EvalX` never panics when the table does not. -/
theorem evalN_trap (ht : TblNoTrap ctx) (e : Expr F) : ∀ (w : Ty) (st : FnState F), (evalN ctx σ w e st).1 ≠ .trap := by
  induction e with
  | lit v0 => intro w st; simp only [evalN]; exact chk_trap w (.ok v0) (by simp)
  | ref n =>
    intro w st; simp only [evalN]
    split
    · exact chk_trap w (.ok _) (by simp)
    · simp
  | un op e ih =>
    intro w st
    simp only [evalN]
    split
    · split
      · simp
      · split
        · split
          · simp
          · rcases hr : evalN ctx σ w e st with ⟨r, st'⟩
            have := ih w st
            rw [hr] at this
            cases r with
            | ok u => exact negate_trap ctx.ops u
            | err => simp
            | trap => exact absurd rfl this
        · simp
    · simp
  | bin op l r ihl ihr =>
    intro w st
    simp only [evalN]
    split
    · split
      · simp
      · split
        · simp
        · rename_i ent hent
          have hmem := specN_mem ctx σ op l r ent hent
          rcases hl : evalN ctx σ ent.lm l st with ⟨rl, st1⟩
          have hlt := ihl ent.lm st
          have hly := evalN_ty ctx σ l ent.lm st
          rw [hl] at hlt hly
          cases rl with
          | ok vl =>
            simp only
            split
            · exact chk_trap w (.ok _) (by simp)
            · split
              · simp
              · rcases hr : evalN ctx σ ent.rm r st1 with ⟨rr, st2⟩
                have hrt := ihr ent.rm st1
                have hry := evalN_ty ctx σ r ent.rm st1
                rw [hr] at hrt hry
                cases rr with
                | ok vr => exact chk_trap w _ (ht ent hmem vl vr (hly vl rfl) (hry vr rfl))
                | err => simp
                | trap => exact absurd rfl hrt
          | err => simp
          | trap => exact absurd rfl hlt
    · simp
  | call0 fn => intro w st; simp only [evalN]; exact chk_trap w _ (callFn_trap ctx fn _ st)
  | callMany fn => intro w st; simp only [evalN]; exact chk_trap w _ (callFn_trap ctx fn _ st)
  | lam i e ih =>
    intro w st
    simp only [evalN]
    split
    · simp
    · split
      · exact ih w (st.enter i)
      · simp
  | call1 fn a ih =>
    intro w st
    simp only [evalN]
    have ha := argEvalN_ok (typeP ctx σ a) (missOk a) st (fun t => evalN ctx σ t a st) (fun t => ih t st)
    rcases hA : argEvalN (typeP ctx σ a) (missOk a) st (fun t => evalN ctx σ t a st) with ⟨r1, s1⟩
    rw [hA] at ha
    cases r1 with
    | ok v1 => exact chk_trap w _ (callFn_trap ctx fn _ s1)
    | err => simp
    | trap => exact absurd rfl ha
  | call2 fn a b iha ihb =>
    intro w st
    simp only [evalN]
    have ha := argEvalN_ok (typeP ctx σ a) (missOk a) st (fun t => evalN ctx σ t a st) (fun t => iha t st)
    rcases hA : argEvalN (typeP ctx σ a) (missOk a) st (fun t => evalN ctx σ t a st) with ⟨r1, s1⟩
    rw [hA] at ha
    cases r1 with
    | ok v1 =>
      simp only
      have hb := argEvalN_ok (typeP ctx σ b) (missOk b) s1 (fun t => evalN ctx σ t b s1) (fun t => ihb t s1)
      rcases hB : argEvalN (typeP ctx σ b) (missOk b) s1 (fun t => evalN ctx σ t b s1) with ⟨r2, s2⟩
      rw [hB] at hb
      cases r2 with
      | ok v2 => exact chk_trap w _ (callFn_trap ctx fn _ s2)
      | err => simp
      | trap => exact absurd rfl hb
    | err => simp
    | trap => exact absurd rfl ha
  | call3 fn a b d iha ihb ihd =>
    intro w st
    simp only [evalN]
    have ha := argEvalN_ok (typeP ctx σ a) (missOk a) st (fun t => evalN ctx σ t a st) (fun t => iha t st)
    rcases hA : argEvalN (typeP ctx σ a) (missOk a) st (fun t => evalN ctx σ t a st) with ⟨r1, s1⟩
    rw [hA] at ha
    cases r1 with
    | ok v1 =>
      simp only
      have hb := argEvalN_ok (typeP ctx σ b) (missOk b) s1 (fun t => evalN ctx σ t b s1) (fun t => ihb t s1)
      rcases hB : argEvalN (typeP ctx σ b) (missOk b) s1 (fun t => evalN ctx σ t b s1) with ⟨r2, s2⟩
      rw [hB] at hb
      cases r2 with
      | ok v2 =>
        simp only
        have hd := argEvalN_ok (typeP ctx σ d) (missOk d) s2 (fun t => evalN ctx σ t d s2) (fun t => ihd t s2)
        rcases hD : argEvalN (typeP ctx σ d) (missOk d) s2 (fun t => evalN ctx σ t d s2) with ⟨r3, s3⟩
        rw [hD] at hd
        cases r3 with
        | ok v3 => exact chk_trap w _ (callFn_trap ctx fn _ s3)
        | err => simp
        | trap => exact absurd rfl hd
      | err => simp
      | trap => exact absurd rfl hb
    | err => simp
    | trap => exact absurd rfl ha
  | call4 fn a b d e iha ihb ihd ihe =>
    intro w st
    simp only [evalN]
    have ha := argEvalN_ok (typeP ctx σ a) (missOk a) st (fun t => evalN ctx σ t a st) (fun t => iha t st)
    rcases hA : argEvalN (typeP ctx σ a) (missOk a) st (fun t => evalN ctx σ t a st) with ⟨r1, s1⟩
    rw [hA] at ha
    cases r1 with
    | ok v1 =>
      simp only
      have hb := argEvalN_ok (typeP ctx σ b) (missOk b) s1 (fun t => evalN ctx σ t b s1) (fun t => ihb t s1)
      rcases hB : argEvalN (typeP ctx σ b) (missOk b) s1 (fun t => evalN ctx σ t b s1) with ⟨r2, s2⟩
      rw [hB] at hb
      cases r2 with
      | ok v2 =>
        simp only
        have hd := argEvalN_ok (typeP ctx σ d) (missOk d) s2 (fun t => evalN ctx σ t d s2) (fun t => ihd t s2)
        rcases hD : argEvalN (typeP ctx σ d) (missOk d) s2 (fun t => evalN ctx σ t d s2) with ⟨r3, s3⟩
        rw [hD] at hd
        cases r3 with
        | ok v3 =>
          simp only
          have he := argEvalN_ok (typeP ctx σ e) (missOk e) s3 (fun t => evalN ctx σ t e s3) (fun t => ihe t s3)
          rcases hE : argEvalN (typeP ctx σ e) (missOk e) s3 (fun t => evalN ctx σ t e s3) with ⟨r4, s4⟩
          rw [hE] at he
          cases r4 with
          | ok v4 => exact chk_trap w _ (callFn_trap ctx fn _ s4)
          | err => simp
          | trap => exact absurd rfl he
        | err => simp
        | trap => exact absurd rfl hd
      | err => simp
      | trap => exact absurd rfl hb
    | err => simp
    | trap => exact absurd rfl ha

theorem runPathN_trap (ht : TblNoTrap ctx) (p : Path) (e : Expr F) (st : FnState F) :
    (runPathN ctx σ p e st).1 ≠ .trap := by
  cases p with
  | eval =>
    simp only [runPathN, evalTopN]
    split
    · simp
    · split
      · rename_i t _ _
        rcases hr : evalN ctx σ t e st with ⟨r, s⟩
        cases r <;> simp
      · simp
  | pred =>
    simp only [runPathN, evalPredN]
    split
    · simp
    · exact evalN_trap ctx σ ht e .bool st
  | direct w => exact evalN_trap ctx σ ht e w st
  | type => simp only [runPathN]; split <;> simp
end
end Kap.C04
