/-
C04 — helper lemmas, part 6: lambda nodes and the groups that share them.
`evalN_pres`: a generic "the state only moves along R" induction over the evaluator; instances
`evalN_stateless` (an expression without stateful functions leaves the whole state as it was) and
`evalN_lams_fixed` (when no lambda node has a stateful body, no lambda node's state ever changes).
`World.run` (what the code does since 8ed14ac: every `CopyReset` copy its own functions, lambda nodes and the node
evaluators above them; everything else shared) against `refRun` (every group its own histories): they agree for every
interleaving of the groups (`world_agree`); `mix_inv`: what a copy sees is a cache the evaluator can be in.
-/
import Kap.Proofs.C04Ref
namespace Kap.C04
section
variable {F : Type} (ctx : Ctx F) (σ : Scope F)

section pres
variable (R : FnState F → FnState F → Prop) (hrefl : ∀ s, R s s) (htrans : ∀ a b c, R a b → R b c → R a c)
include hrefl htrans

omit htrans in
theorem argEvalN_pres (tp : Option Ty) (m : Bool) (st : FnState F) (rn : Ty → Outcome (Value F) × FnState F)
    (h : ∀ t, R st (rn t).2) : R st (argEvalN tp m st rn).2 := by
  unfold argEvalN
  split
  · exact hrefl st
  · split <;> exact hrefl st
  · exact hrefl st
  · exact h _

/-- how the syntactic side condition `ok` decomposes. -/
structure OkSpec (ok : Expr F → Bool) (okFn : String → Bool) : Prop where
  un : ∀ op e, ok (.un op e) = true → ok e = true
  bin : ∀ op l r, ok (.bin op l r) = true → ok l = true ∧ ok r = true
  call0 : ∀ fn, ok (.call0 fn) = true → okFn fn = true
  callMany : ∀ fn, ok (.callMany fn) = true → okFn fn = true
  call1 : ∀ fn a, ok (.call1 fn a) = true → okFn fn = true ∧ ok a = true
  call2 : ∀ fn a b, ok (.call2 fn a b) = true → okFn fn = true ∧ ok a = true ∧ ok b = true
  call3 : ∀ fn a b d, ok (.call3 fn a b d) = true → okFn fn = true ∧ ok a = true ∧ ok b = true ∧ ok d = true
  call4 : ∀ fn a b d e, ok (.call4 fn a b d e) = true →
    okFn fn = true ∧ ok a = true ∧ ok b = true ∧ ok d = true ∧ ok e = true

theorem evalN_pres (ok : Expr F → Bool) (okFn : String → Bool) (hs : OkSpec ok okFn)
    (hcall : ∀ fn args st, okFn fn = true → R st (callFn ctx fn args st).2)
    (hlam : ∀ i body, ok (.lam i body) = true → (ok body = true → ∀ w st, R st (evalN ctx σ w body st).2) →
      ∀ w st, R st (evalN ctx σ w (.lam i body) st).2)
    (e : Expr F) : ok e = true → ∀ (w : Ty) (st : FnState F), R st (evalN ctx σ w e st).2 := by
  induction e with
  | lit v0 => intro _ w st; simp only [evalN]; exact hrefl st
  | ref n => intro _ w st; simp only [evalN]; split <;> exact hrefl st
  | lam i e ih => intro ho; exact hlam i e ho ih
  | un op e ih =>
    intro ho w st
    have he := hs.un _ _ ho
    simp only [evalN]
    split
    · split
      · exact hrefl st
      · split
        · split
          · exact hrefl st
          · exact ih he w st
        · exact hrefl st
    · exact hrefl st
  | bin op l r ihl ihr =>
    intro ho w st
    obtain ⟨hl, hr⟩ := hs.bin _ _ _ ho
    simp only [evalN]
    split
    · split
      · exact hrefl st
      · split
        · exact hrefl st
        · rename_i ent _
          rcases hL : evalN ctx σ ent.lm l st with ⟨rl, st1⟩
          have h1 : R st st1 := by have := ihl hl ent.lm st; rw [hL] at this; exact this
          cases rl with
          | ok vl =>
            simp only
            split
            · exact h1
            · split
              · exact h1
              · rcases hRr : evalN ctx σ ent.rm r st1 with ⟨rr, st2⟩
                have h2 : R st1 st2 := by have := ihr hr ent.rm st1; rw [hRr] at this; exact this
                cases rr <;> exact htrans _ _ _ h1 h2
          | err => exact h1
          | trap => exact h1
    · exact hrefl st
  | call0 fn => intro ho w st; simp only [evalN]; exact hcall fn _ st (hs.call0 _ ho)
  | callMany fn => intro ho w st; simp only [evalN]; exact hcall fn _ st (hs.callMany _ ho)
  | call1 fn a ih =>
    intro ho w st
    obtain ⟨hf, ha⟩ := hs.call1 _ _ ho
    simp only [evalN]
    have pa := argEvalN_pres R hrefl (typeP ctx σ a) (missOk a) st (fun t => evalN ctx σ t a st) (fun t => ih ha t st)
    rcases hA : argEvalN (typeP ctx σ a) (missOk a) st (fun t => evalN ctx σ t a st) with ⟨r1, s1⟩
    rw [hA] at pa
    cases r1 with
    | ok v1 => exact htrans _ _ _ pa (hcall fn _ s1 hf)
    | err => exact pa
    | trap => exact pa
  | call2 fn a b iha ihb =>
    intro ho w st
    obtain ⟨hf, ha, hb⟩ := hs.call2 _ _ _ ho
    simp only [evalN]
    have pa := argEvalN_pres R hrefl (typeP ctx σ a) (missOk a) st (fun t => evalN ctx σ t a st) (fun t => iha ha t st)
    rcases hA : argEvalN (typeP ctx σ a) (missOk a) st (fun t => evalN ctx σ t a st) with ⟨r1, s1⟩
    rw [hA] at pa
    cases r1 with
    | ok v1 =>
      simp only
      have pb := argEvalN_pres R hrefl (typeP ctx σ b) (missOk b) s1 (fun t => evalN ctx σ t b s1) (fun t => ihb hb t s1)
      rcases hB : argEvalN (typeP ctx σ b) (missOk b) s1 (fun t => evalN ctx σ t b s1) with ⟨r2, s2⟩
      rw [hB] at pb
      have p2 := htrans _ _ _ pa pb
      cases r2 with
      | ok v2 => exact htrans _ _ _ p2 (hcall fn _ s2 hf)
      | err => exact p2
      | trap => exact p2
    | err => exact pa
    | trap => exact pa
  | call3 fn a b d iha ihb ihd =>
    intro ho w st
    obtain ⟨hf, ha, hb, hd⟩ := hs.call3 _ _ _ _ ho
    simp only [evalN]
    have pa := argEvalN_pres R hrefl (typeP ctx σ a) (missOk a) st (fun t => evalN ctx σ t a st) (fun t => iha ha t st)
    rcases hA : argEvalN (typeP ctx σ a) (missOk a) st (fun t => evalN ctx σ t a st) with ⟨r1, s1⟩
    rw [hA] at pa
    cases r1 with
    | ok v1 =>
      simp only
      have pb := argEvalN_pres R hrefl (typeP ctx σ b) (missOk b) s1 (fun t => evalN ctx σ t b s1) (fun t => ihb hb t s1)
      rcases hB : argEvalN (typeP ctx σ b) (missOk b) s1 (fun t => evalN ctx σ t b s1) with ⟨r2, s2⟩
      rw [hB] at pb
      have p2 := htrans _ _ _ pa pb
      cases r2 with
      | ok v2 =>
        simp only
        have pd := argEvalN_pres R hrefl (typeP ctx σ d) (missOk d) s2 (fun t => evalN ctx σ t d s2) (fun t => ihd hd t s2)
        rcases hD : argEvalN (typeP ctx σ d) (missOk d) s2 (fun t => evalN ctx σ t d s2) with ⟨r3, s3⟩
        rw [hD] at pd
        have p3 := htrans _ _ _ p2 pd
        cases r3 with
        | ok v3 => exact htrans _ _ _ p3 (hcall fn _ s3 hf)
        | err => exact p3
        | trap => exact p3
      | err => exact p2
      | trap => exact p2
    | err => exact pa
    | trap => exact pa
  | call4 fn a b d e iha ihb ihd ihe =>
    intro ho w st
    obtain ⟨hf, ha, hb, hd, he⟩ := hs.call4 _ _ _ _ _ ho
    simp only [evalN]
    have pa := argEvalN_pres R hrefl (typeP ctx σ a) (missOk a) st (fun t => evalN ctx σ t a st) (fun t => iha ha t st)
    rcases hA : argEvalN (typeP ctx σ a) (missOk a) st (fun t => evalN ctx σ t a st) with ⟨r1, s1⟩
    rw [hA] at pa
    cases r1 with
    | ok v1 =>
      simp only
      have pb := argEvalN_pres R hrefl (typeP ctx σ b) (missOk b) s1 (fun t => evalN ctx σ t b s1) (fun t => ihb hb t s1)
      rcases hB : argEvalN (typeP ctx σ b) (missOk b) s1 (fun t => evalN ctx σ t b s1) with ⟨r2, s2⟩
      rw [hB] at pb
      have p2 := htrans _ _ _ pa pb
      cases r2 with
      | ok v2 =>
        simp only
        have pd := argEvalN_pres R hrefl (typeP ctx σ d) (missOk d) s2 (fun t => evalN ctx σ t d s2) (fun t => ihd hd t s2)
        rcases hD : argEvalN (typeP ctx σ d) (missOk d) s2 (fun t => evalN ctx σ t d s2) with ⟨r3, s3⟩
        rw [hD] at pd
        have p3 := htrans _ _ _ p2 pd
        cases r3 with
        | ok v3 =>
          simp only
          have pe := argEvalN_pres R hrefl (typeP ctx σ e) (missOk e) s3 (fun t => evalN ctx σ t e s3) (fun t => ihe he t s3)
          rcases hE : argEvalN (typeP ctx σ e) (missOk e) s3 (fun t => evalN ctx σ t e s3) with ⟨r4, s4⟩
          rw [hE] at pe
          have p4 := htrans _ _ _ p3 pe
          cases r4 with
          | ok v4 => exact htrans _ _ _ p4 (hcall fn _ s4 hf)
          | err => exact p4
          | trap => exact p4
        | err => exact p3
        | trap => exact p3
      | err => exact p2
      | trap => exact p2
    | err => exact pa
    | trap => exact pa

end pres

/-! ### the two instances -/

theorem callFn_stateless (fn : String) (args : List (Value F)) (st : FnState F)
    (h1 : fn ≠ "count") (h2 : fn ≠ "sigma") (h3 : fn ≠ "spread") : (callFn ctx fn args st).2 = st := by
  unfold callFn
  simp only [h1, h2, h3, if_false]
  repeat' split
  all_goals rfl

/-- no builtin touches the state of a lambda node. -/
theorem callFn_lams (fn : String) (args : List (Value F)) (st : FnState F) : (callFn ctx fn args st).2.lams = st.lams := by
  unfold callFn
  repeat' split
  all_goals first | rfl | (dsimp only; split <;> rfl)

theorem fnState_leave_enter (st : FnState F) (i : Nat) : st.leave (st.enter i) i = st := by
  cases st with
  | mk b l =>
    simp only [FnState.leave, FnState.enter]
    congr 1
    funext j
    by_cases hj : j = i <;> simp [hj]

/-- an expression that calls no stateful function (nested lambdas included) leaves the whole state as it was. -/
theorem evalN_stateless (e : Expr F) (hs : stateful e = false) (w : Ty) (st : FnState F) : (evalN ctx σ w e st).2 = st := by
  refine evalN_pres ctx σ (fun a b => b = a) (fun _ => rfl) (fun a b c h1 h2 => h2.trans h1)
    (fun e => !stateful e) (fun fn => !(fn == "count" || fn == "sigma" || fn == "spread")) ?_ ?_ ?_ e (by simp [hs]) w st
  · constructor <;> intros <;> simp_all [stateful]
  · intro fn args st hf
    have : (fn ≠ "count" ∧ fn ≠ "sigma") ∧ fn ≠ "spread" := by simpa using hf
    exact callFn_stateless ctx fn args st this.1.1 this.1.2 this.2
  · intro i body ho ih w st
    have hb : (!stateful body) = true := by simpa [stateful] using ho
    simp only [evalN]
    split
    · rfl
    · split
      · simp only [ih hb w (st.enter i), fnState_leave_enter]
      · rfl

/-- when no lambda node has a stateful body, no evaluation changes the state of any lambda node. -/
theorem evalN_lams_fixed (e : Expr F) (hs : statefulLam e = false) (w : Ty) (st : FnState F) :
    (evalN ctx σ w e st).2.lams = st.lams := by
  refine evalN_pres ctx σ (fun a b => b.lams = a.lams) (fun _ => rfl) (fun a b c h1 h2 => h2.trans h1)
    (fun e => !statefulLam e) (fun _ => true) ?_ ?_ ?_ e (by simp [hs]) w st
  · constructor <;> intros <;> simp_all [statefulLam]
  · intro fn args st _
    exact callFn_lams ctx fn args st
  · intro i body ho _ w st
    have hb : stateful body = false := by simpa [statefulLam] using ho
    simp only [evalN]
    split
    · rfl
    · split
      · simp only [evalN_stateless ctx σ body hb w (st.enter i), fnState_leave_enter]
      · rfl

theorem runPathN_lams_fixed (e : Expr F) (hs : statefulLam e = false) (p : Path) (st : FnState F) :
    (runPathN ctx σ p e st).2.lams = st.lams := by
  cases p with
  | eval =>
    simp only [runPathN, evalTopN]
    split
    · rfl
    · split
      · exact evalN_lams_fixed ctx σ e hs _ st
      · rfl
  | pred =>
    simp only [runPathN, evalPredN]
    split
    · rfl
    · exact evalN_lams_fixed ctx σ e hs _ st
  | direct w => exact evalN_lams_fixed ctx σ e hs w st
  | type => rfl
end

/-! ### groups sharing one compiled expression -/
section
variable {F : Type} (ctx : Ctx F)

/-- a question (group, entry path, scope). -/
abbrev Question (F : Type) := Nat × Path × Scope F

/-- The reference answers to a sequence of questions: every group has its own history — of the expression's own
stateful functions and of those inside each nested lambda. -/
def refRun (e : Expr F) : (Nat → Hist F) → List (Question F) → List (Outcome (Value F))
  | _, [] => []
  | hs, q :: rest =>
    (valRef ctx q.2.2 e (hs q.1)).1 ::
      refRun e (fun j => if j = q.1 then (valRef ctx q.2.2 e (hs q.1)).2 else hs j) rest

/-- the point is well typed in the reference typing and the entry path asks for its type (`Expression.Eval` for any
value type, the predicate path for a boolean, a direct `EvalX` for X). -/
def askable (e : Expr F) (q : Question F) : Bool :=
  match typeRef ctx q.2.2 e with
  | some t => (match q.2.1 with | .eval => isValTy t | .pred => t == .bool | .direct w => w == t | .type => false)
  | none => false

theorem askable_spec {e : Expr F} {q : Question F} (h : askable ctx e q = true) :
    ∃ t, typeRef ctx q.2.2 e = some t ∧
      ((q.2.1 = .eval ∧ isValTy t = true) ∨ (q.2.1 = .pred ∧ t = .bool) ∨ q.2.1 = .direct t) := by
  unfold askable at h
  split at h
  · rename_i t ht
    refine ⟨t, ht, ?_⟩
    split at h
    · rename_i hp; exact Or.inl ⟨hp, h⟩
    · rename_i hp; exact Or.inr (Or.inl ⟨hp, by simpa using h⟩)
    · rename_i w hp; have : w = t := by simpa using h
      exact Or.inr (Or.inr (this ▸ hp))
    · cases h
  · cases h

/-- what one copy sees is a cache the evaluator can be in: the invariant of `cache_transparent` holds position by
position, whichever of the two trees a position is read from. -/
theorem mix_inv (e : Expr F) : ∀ own sh : Cache, Inv ctx e own → Inv ctx e sh → Inv ctx e (mixCache e own sh) := by
  induction e with
  | lit v => intro _ _ _ _; trivial
  | ref n => intro _ _ _ _; trivial
  | call0 fn => intro _ _ _ _; trivial
  | callMany fn => intro _ _ _ _; trivial
  | lam i e ih =>
    intro own sh ho hs
    simp only [mixCache, Inv, k1_node] at ho hs ⊢
    exact ih _ _ ho hs
  | un op e ih =>
    intro own sh ho hs
    simp only [mixCache]
    split
    · simp only [Inv, k1_node] at ho hs ⊢
      exact ih _ _ ho hs
    · exact hs
  | bin op l r ihl ihr =>
    intro own sh ho hs
    simp only [mixCache]
    split
    · simp only [Inv, k1_node, k2_node, fn_node] at ho hs ⊢
      exact ⟨ho.1, ihl _ _ ho.2.1 hs.2.1, ihr _ _ ho.2.2 hs.2.2⟩
    · exact hs
  | call1 fn a ih =>
    intro own sh ho hs
    simp only [mixCache]
    split
    · simp only [Inv, k1_node] at ho hs ⊢
      exact ih _ _ ho hs
    · exact hs
  | call2 fn a b iha ihb =>
    intro own sh ho hs
    simp only [mixCache]
    split
    · simp only [Inv, k1_node, k2_node] at ho hs ⊢
      exact ⟨iha _ _ ho.1 hs.1, ihb _ _ ho.2 hs.2⟩
    · exact hs
  | call3 fn a b d iha ihb ihd =>
    intro own sh ho hs
    simp only [mixCache]
    split
    · simp only [Inv, k1_node, k2_node, k3_node] at ho hs ⊢
      exact ⟨iha _ _ ho.1 hs.1, ihb _ _ ho.2.1 hs.2.1, ihd _ _ ho.2.2 hs.2.2⟩
    · exact hs
  | call4 fn a b d e iha ihb ihd ihe =>
    intro own sh ho hs
    simp only [mixCache]
    split
    · simp only [Inv, k1_node, k2_node, k3a_node, k3b_node] at ho hs ⊢
      exact ⟨iha _ _ ho.1 hs.1, ihb _ _ ho.2.1 hs.2.1, ihd _ _ ho.2.2.1 hs.2.2.1, ihe _ _ ho.2.2.2 hs.2.2.2⟩
    · exact hs

/-- the invariant of a world: every tree it keeps is a cache the evaluator can be in. -/
def WInv (e : Expr F) (w : World F) : Prop := Inv ctx e w.shared ∧ ∀ g, Inv ctx e (w.own g)

/-- the functions copy `g` evaluates with. -/
def World.state (w : World F) (g : Nat) : FnState F := { toFnBase := w.groups g, lams := w.lams g }

theorem world_cacheOf_inv (e : Expr F) (w : World F) (h : WInv ctx e w) (g : Nat) : Inv ctx e (w.cacheOf e g) :=
  mix_inv ctx e _ _ (h.2 g) h.1

/-- one question asked of a world whose asking copy is in step with its reference history: the answer is the
reference's, the world stays well formed, the asking copy stays in step and NO OTHER copy's functions move. -/
theorem world_step_agree (hT : TblOK ctx.tbl) (hF : FnOK ctx) (e : Expr F) (hwf : noMissingLit e = true)
    (w : World F) (q : Question F) (h : Hist F) (hinv : WInv ctx e w)
    (hr : StateRel ctx (w.state q.1) h) (hq : askable ctx e q = true) :
    (w.step ctx e q.1 q.2.1 q.2.2).1 = (valRef ctx q.2.2 e h).1 ∧
    WInv ctx e (w.step ctx e q.1 q.2.1 q.2.2).2 ∧
    StateRel ctx ((w.step ctx e q.1 q.2.1 q.2.2).2.state q.1) (valRef ctx q.2.2 e h).2 ∧
    ∀ g, g ≠ q.1 → (w.step ctx e q.1 q.2.1 q.2.2).2.state g = w.state g := by
  obtain ⟨t, ht, hp⟩ := askable_spec ctx hq
  have hc := world_cacheOf_inv ctx e w hinv q.1
  obtain ⟨p1, p2, p3⟩ := runPath_eq ctx q.2.2 q.2.1 e (w.cacheOf e q.1) (w.state q.1) hc
  obtain ⟨q1, q2⟩ := runPathN_agree ctx q.2.2 hT hF e q.2.1 t _ h hwf hr ht hp
  refine ⟨p1.trans q1, ⟨p3, ?_⟩, ?_, ?_⟩
  · intro g
    simp only [World.step]
    split
    · exact p3
    · exact hinv.2 g
  · simp only [World.step, World.state, if_true]
    rw [← p2] at q2
    exact q2
  · intro g hg
    simp only [World.step, World.state, hg, if_false]

/-- the copies answer as the reference — every group its own histories — for ANY interleaving of the groups. -/
theorem world_agree (hT : TblOK ctx.tbl) (hF : FnOK ctx) (e : Expr F) (hwf : noMissingLit e = true)
    (qs : List (Question F)) : (∀ q ∈ qs, askable ctx e q = true) →
    ∀ (w : World F) (hs : Nat → Hist F), WInv ctx e w → (∀ g, StateRel ctx (w.state g) (hs g)) →
      World.run ctx e w qs = refRun ctx e hs qs := by
  induction qs with
  | nil => intro _ w hs _ _; rfl
  | cons q rest ih =>
    intro hq w hs hinv hr
    obtain ⟨a1, a2, a3, a4⟩ := world_step_agree ctx hT hF e hwf w q (hs q.1) hinv (hr q.1) (hq q (List.mem_cons_self ..))
    simp only [World.run, refRun]
    rw [a1]
    congr 1
    apply ih (fun x hx => hq x (List.mem_cons_of_mem _ hx)) _ _ a2
    intro g
    by_cases hg : g = q.1
    · subst hg
      simp only [if_true]
      exact a3
    · rw [a4 g hg]
      simp only [hg, if_false]
      exact hr g

theorem world_init_inv (e : Expr F) : WInv ctx e (World.init ctx e) :=
  ⟨compile_inv ctx e, fun _ => compile_inv ctx e⟩

theorem world_init_rel (e : Expr F) (g : Nat) : StateRel ctx ((World.init ctx e).state g) ({} : Hist F) :=
  stateRel_init ctx

/-- `CopyReset` at any time keeps the world well formed and puts the new copy in step with the empty history. -/
theorem world_copy_inv (e : Expr F) (w : World F) (k : Nat) (h : WInv ctx e w) : WInv ctx e (w.copy ctx k) := by
  refine ⟨h.1, fun g => ?_⟩
  simp only [World.copy]
  split
  · exact h.2 0
  · exact h.2 g

theorem world_copy_rel (w : World F) (k : Nat) : StateRel ctx ((w.copy ctx k).state k) ({} : Hist F) := by
  simp only [World.copy, World.state, if_true]
  exact stateRel_init ctx

/-- The reference answers to questions and `CopyReset`s: a copy made by `CopyReset` starts with empty histories. -/
def refRunOps (e : Expr F) : (Nat → Hist F) → List (WOp F) → List (Outcome (Value F))
  | _, [] => []
  | hs, .ask q :: rest =>
    (valRef ctx q.2.2 e (hs q.1)).1 ::
      refRunOps e (fun j => if j = q.1 then (valRef ctx q.2.2 e (hs q.1)).2 else hs j) rest
  | hs, .copy k :: rest => refRunOps e (fun j => if j = k then {} else hs j) rest

def WOp.askable (e : Expr F) : WOp F → Bool
  | .ask q => Kap.C04.askable ctx e q
  | .copy _ => true

/-- `world_agree` with `CopyReset` at any time. -/
theorem world_agree_ops (hT : TblOK ctx.tbl) (hF : FnOK ctx) (e : Expr F) (hwf : noMissingLit e = true)
    (ops : List (WOp F)) : (∀ o ∈ ops, o.askable ctx e = true) →
    ∀ (w : World F) (hs : Nat → Hist F), WInv ctx e w → (∀ g, StateRel ctx (w.state g) (hs g)) →
      World.runOps ctx e w ops = refRunOps ctx e hs ops := by
  induction ops with
  | nil => intro _ w hs _ _; rfl
  | cons o rest ih =>
    intro hq w hs hinv hr
    cases o with
    | ask q =>
      have hqa : askable ctx e q = true := hq (.ask q) (List.mem_cons_self ..)
      obtain ⟨a1, a2, a3, a4⟩ := world_step_agree ctx hT hF e hwf w q (hs q.1) hinv (hr q.1) hqa
      simp only [World.runOps, refRunOps]
      rw [a1]
      congr 1
      apply ih (fun x hx => hq x (List.mem_cons_of_mem _ hx)) _ _ a2
      intro g
      by_cases hg : g = q.1
      · subst hg
        simp only [if_true]
        exact a3
      · rw [a4 g hg]
        simp only [hg, if_false]
        exact hr g
    | copy k =>
      simp only [World.runOps, refRunOps]
      apply ih (fun x hx => hq x (List.mem_cons_of_mem _ hx)) _ _ (world_copy_inv ctx e w k hinv)
      intro g
      by_cases hg : g = k
      · subst hg
        simp only [if_true]
        exact world_copy_rel ctx w g
      · simp only [World.copy, World.state, hg, if_false]
        exact hr g

end
end Kap.C04
