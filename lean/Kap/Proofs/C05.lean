/-
C05 — helper lemmas: the scanner primitives (`next`, `peek`, `backup`, `emit` …) under the cursor
invariant `0 ≤ start ≤ pos ≤ len`, the per-state step lemma, and the run lemma.
-/
import Kap.Model.C05
namespace Kap.C05

theorem dec2_width (b0 : Nat) (r : Bytes) : 1 ≤ (dec2 b0 r).2 ∧ (dec2 b0 r).2 ≤ r.length + 1 := by
  unfold dec2; split <;> (try split) <;> simp
theorem dec3_width (b0 : Nat) (r : Bytes) : 1 ≤ (dec3 b0 r).2 ∧ (dec3 b0 r).2 ≤ r.length + 1 := by
  unfold dec3; split <;> (try split) <;> simp
theorem dec4_width (b0 : Nat) (r : Bytes) : 1 ≤ (dec4 b0 r).2 ∧ (dec4 b0 r).2 ≤ r.length + 1 := by
  unfold dec4; split <;> (try split) <;> simp

/-- `utf8.DecodeRuneInString` consumes at least one and at most all of the remaining bytes. -/
theorem decodeRune_width (bs : Bytes) (h : bs ≠ []) :
    1 ≤ (decodeRune bs).2 ∧ (decodeRune bs).2 ≤ bs.length := by
  cases bs with
  | nil => exact absurd rfl h
  | cons b0 rest =>
    have h2 := dec2_width b0 rest
    have h3 := dec3_width b0 rest
    have h4 := dec4_width b0 rest
    simp only [decodeRune]
    repeat' split
    all_goals (first | (simp; done) | (simp; omega) | omega)

/-- Everything the proofs need to know about one `l.next()` from an in-range cursor. -/
structure NextOK (c : Ctx) (l : Lx) (r : Int) (l' : Lx) : Prop where
  start : l'.start = l.start
  toks : l'.toks = l.toks
  trapped : l'.trapped = l.trapped
  pos : l'.pos = l.pos + l'.width
  wnn : 0 ≤ l'.width
  le : l'.pos ≤ c.len
  eofw : r = -1 → l'.width = 0
  adv : r ≠ -1 → 1 ≤ l'.width
  rge : -1 ≤ r

theorem next_ok (c : Ctx) (l : Lx) (h0 : 0 ≤ l.pos) (h1 : l.pos ≤ c.len) :
    NextOK c l (next c l).1 (next c l).2 := by
  unfold next
  by_cases hge : l.pos ≥ c.len
  · simp only [hge, if_true]
    constructor <;> simp [eof] <;> omega
  · have hlt : ¬ l.pos < 0 := by omega
    simp only [hge, hlt, if_false]
    have hne : c.inp.drop l.pos.toNat ≠ [] := by
      intro h
      have := congrArg List.length h
      simp [Ctx.len] at this hge
      omega
    have hw := decodeRune_width _ hne
    simp [Ctx.len] at hw hge h1
    constructor <;> simp [Ctx.len] <;> omega

/-- The rune `next` returns depends on the cursor position only. -/
theorem next_fst_congr (c : Ctx) (l l' : Lx) (h : l.pos = l'.pos) : (next c l).1 = (next c l').1 := by
  unfold next; rw [h]; split <;> (try split) <;> rfl

/-- The repaired `peek` leaves the scanner exactly as it was. -/
theorem peek_snd (c : Ctx) (l : Lx) (hf : c.fixed = true) (h0 : 0 ≤ l.pos) : (peek c l).2 = l := by
  unfold peek next backup
  by_cases hge : l.pos ≥ c.len
  · simp [hge, hf]
  · have hlt : ¬ l.pos < 0 := by omega
    simp [hge, hlt, hf]

theorem peek_fst (c : Ctx) (l : Lx) : (peek c l).1 = (next c l).1 := rfl


/-! ### The invariant -/

def tlen (t : Tok) : Int := t.len.getD 0

/-- Tokens emitted so far (newest first) lie inside `[0, bound]`, in order, without overlap. -/
structure TokInv (toks : List Tok) (bound : Int) : Prop where
  tb : ∀ t ∈ toks, 0 ≤ t.pos ∧ 0 ≤ tlen t ∧ t.pos + tlen t ≤ bound
  srt : toks.Pairwise (fun newer older => older.pos + tlen older ≤ newer.pos)

theorem TokInv.mono {toks : List Tok} {b b' : Int} (h : TokInv toks b) (hb : b ≤ b') : TokInv toks b' :=
  ⟨fun t ht => by have := h.tb t ht; omega, h.srt⟩

theorem TokInv.push {toks : List Tok} {b : Int} (h : TokInv toks b) (t : Tok) (h0 : b ≤ t.pos) (h1 : 0 ≤ tlen t) :
    TokInv (t :: toks) (t.pos + tlen t) := by
  constructor
  · intro u hu
    rcases List.mem_cons.mp hu with rfl | hu
    · have : 0 ≤ b := by
        cases toks with
        | nil => omega
        | cons x xs => have := h.tb x (List.mem_cons_self); omega
      omega
    · have := h.tb u hu; omega
  · exact List.pairwise_cons.mpr ⟨fun u hu => by have := h.tb u hu; omega, h.srt⟩

/-- The cursor invariant: not trapped, `0 ≤ start ≤ pos ≤ len`, tokens in order below `start`. -/
structure Good (c : Ctx) (l : Lx) : Prop where
  nt : l.trapped = false
  s0 : 0 ≤ l.start
  sp : l.start ≤ l.pos
  pl : l.pos ≤ c.len
  ti : TokInv l.toks l.start

/-- What holds of the scanner when a state function returns nil. -/
structure Final (c : Ctx) (l : Lx) : Prop where
  nt : l.trapped = false
  ti : TokInv l.toks c.len

theorem good_move {c : Ctx} {l l' : Lx} (hg : Good c l) (ht : l'.toks = l.toks) (htr : l'.trapped = l.trapped)
    (h1 : l.start ≤ l'.start) (h2 : l'.start ≤ l'.pos) (h3 : l'.pos ≤ c.len) : Good c l' :=
  ⟨by rw [htr]; exact hg.nt, by have := hg.s0; omega, h2, h3, by rw [ht]; exact hg.ti.mono h1⟩

theorem emit_good {c : Ctx} {l : Lx} (hg : Good c l) (t : Nat) :
    Good c (emit c l t) ∧ (emit c l t).pos = l.pos ∧ (emit c l t).start = l.pos := by
  have hr : inRange c l = true := by
    simp [inRange]; exact ⟨⟨hg.s0, hg.sp⟩, hg.pl⟩
  unfold emit
  simp only [hr, if_true]
  refine ⟨⟨hg.nt, ?_, ?_, hg.pl, ?_⟩, rfl, rfl⟩
  · show 0 ≤ l.pos
    have := hg.s0; have := hg.sp; omega
  · show l.pos ≤ l.pos
    omega
  · show TokInv (⟨t, l.start, some (l.pos - l.start)⟩ :: l.toks) l.pos
    have hp := hg.ti.push ⟨t, l.start, some (l.pos - l.start)⟩ (by simp) (by simp [tlen]; have := hg.sp; omega)
    simp [tlen] at hp
    have e : l.start + (l.pos - l.start) = l.pos := by omega
    rw [e] at hp
    exact hp

theorem errorf_final {c : Ctx} {l : Lx} (hg : Good c l) : Final c (errorf l) := by
  refine ⟨hg.nt, ?_⟩
  show TokInv (⟨tError, l.start, none⟩ :: l.toks) c.len
  have hp := hg.ti.push ⟨tError, l.start, none⟩ (by simp) (by simp [tlen])
  simp [tlen] at hp
  exact hp.mono (by have := hg.sp; have := hg.pl; omega)

theorem good_final {c : Ctx} {l : Lx} (hg : Good c l) : Final c l :=
  ⟨hg.nt, hg.ti.mono (by have := hg.sp; have := hg.pl; omega)⟩

theorem chk_good {c : Ctx} {l : Lx} (hg : Good c l) : chk c l = l := by
  have hr : inRange c l = true := by
    simp [inRange]; exact ⟨⟨hg.s0, hg.sp⟩, hg.pl⟩
  simp [chk, hr]

/-! ### Termination measure -/

def rank : St → Int
  | .commentNL => 9 | .commentBody => 9
  | .ident => 8 | .number _ false => 8 | .regexOpSp => 8
  | .reference => 8 | .strInner _ _ => 8 | .regexBody => 8
  | .binopSp => 7 | .binopMain => 6 | .token => 5
  | .unary => 4 | .number _ true => 4 | .strOuter _ => 4 | .commentStart => 4 | .regexStart => 4

def mu (c : Ctx) (l : Lx) (s : St) : Int := 10 * (c.len - l.pos) + rank s

/-- State-specific invariant: `lexNumberOrDurationOrDot` is entered on a digit or a dot. -/
def StInv (c : Ctx) (l : Lx) : St → Prop
  | .number _ true => (isDigit c (next c l).1 || (next c l).1 == 0x2E) = true
  | _ => True

def StepOK (c : Ctx) (l : Lx) (s : St) : Step → Prop
  | .cont l' s' => Good c l' ∧ StInv c l' s' ∧ mu c l' s' < mu c l s
  | .done l' => Final c l'

theorem emitTo_ok {c : Ctx} {l l' : Lx} {s s' : St} (t : Nat) (hg : Good c l') (hs : ∀ l'', StInv c l'' s')
    (hmu : 10 * (c.len - l'.pos) + rank s' < mu c l s) : StepOK c l s (emitTo c l' t s') := by
  obtain ⟨h1, h2, _⟩ := emit_good hg t
  exact ⟨h1, hs _, by unfold mu; rw [h2]; exact hmu⟩

/-! Classes are false of EOF. -/
theorem isSpace_eof (c : Ctx) (r : Int) (h : isSpace c r = true) : r ≠ -1 := by
  intro e; subst e; simp [isSpace] at h
theorem isDigit_eof (c : Ctx) (r : Int) (h : isDigit c r = true) : r ≠ -1 := by
  intro e; subst e; simp [isDigit] at h
theorem isLetter_eof (c : Ctx) (r : Int) (h : isLetter c r = true) : r ≠ -1 := by
  intro e; subst e; simp [isLetter] at h
theorem isValidIdent_eof (c : Ctx) (r : Int) (h : isValidIdent c r = true) : r ≠ -1 := by
  intro e; subst e; simp [isValidIdent, isDigit, isLetter] at h

end Kap.C05
