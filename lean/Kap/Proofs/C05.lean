/-
C05 — helper lemmas: the scanner primitives (`next`, `peek`, `backup`, `emit` …) under the cursor
invariant `0 ≤ start ≤ pos ≤ len`, the per-state step lemma, and the run lemma.
-/
import Kap.Model.C05
import Lean
namespace Kap.C05

theorem dec2_width (b0 : Nat) (r : Bytes) : 1 ≤ (dec2 b0 r).2 ∧ (dec2 b0 r).2 ≤ r.length + 1 := by
  unfold dec2; split <;> (try split) <;> simp
theorem dec3_width (b0 : Nat) (r : Bytes) : 1 ≤ (dec3 b0 r).2 ∧ (dec3 b0 r).2 ≤ r.length + 1 := by
  unfold dec3; split <;> (try split) <;> simp
theorem dec4_width (b0 : Nat) (r : Bytes) : 1 ≤ (dec4 b0 r).2 ∧ (dec4 b0 r).2 ≤ r.length + 1 := by
  unfold dec4; split <;> (try split) <;> simp

/-- `utf8.DecodeRuneInString` consumes at least one and at most all of the remaining bytes. -/
theorem decodeRune_width (bs : Bytes) (h : bs ≠ []) :
    1 ≤ (decodeRune bs).2 ∧ (decodeRune bs).2 ≤ bs.length := by
  cases bs with
  | nil => exact absurd rfl h
  | cons b0 rest =>
    have h2 := dec2_width b0 rest
    have h3 := dec3_width b0 rest
    have h4 := dec4_width b0 rest
    simp only [decodeRune]
    repeat' split
    all_goals (first | (simp; done) | (simp; omega) | omega)

/-- Rune boundaries of the input: offsets reached from 0 by decoding one rune after the other
(used by the stated-only `lexer_rune_boundaries_stmt`). -/
inductive Bnd (inp : Bytes) : Int → Prop
  | zero : Bnd inp 0
  | step {p : Int} : Bnd inp p → 0 ≤ p → p < inp.length → Bnd inp (p + (decodeRune (inp.drop p.toNat)).2)

/-- Everything the proofs need to know about one `l.next()` from an in-range cursor. -/
structure NextOK (c : Ctx) (l : Lx) (r : Int) (l' : Lx) : Prop where
  start : l'.start = l.start
  toks : l'.toks = l.toks
  trapped : l'.trapped = l.trapped
  pos : l'.pos = l.pos + l'.width
  wnn : 0 ≤ l'.width
  le : l'.pos ≤ c.len
  eofw : r = -1 → l'.width = 0
  adv : r ≠ -1 → 1 ≤ l'.width
  rge : -1 ≤ r

theorem next_ok (c : Ctx) (l : Lx) (h0 : 0 ≤ l.pos) (h1 : l.pos ≤ c.len) :
    NextOK c l (next c l).1 (next c l).2 := by
  unfold next
  by_cases hge : l.pos ≥ c.len
  · simp only [hge, if_true]
    constructor <;> simp [eof] <;> omega
  · have hlt : ¬ l.pos < 0 := by omega
    simp only [hge, hlt, if_false]
    have hne : c.inp.drop l.pos.toNat ≠ [] := by
      intro h
      have := congrArg List.length h
      simp [Ctx.len] at this hge
      omega
    have hw := decodeRune_width _ hne
    simp [Ctx.len] at hw hge h1
    constructor <;> simp [Ctx.len] <;> omega

/-- The rune `next` returns depends on the cursor position only. -/
theorem next_fst_congr (c : Ctx) (l l' : Lx) (h : l.pos = l'.pos) : (next c l).1 = (next c l').1 := by
  unfold next; rw [h]; split <;> (try split) <;> rfl

/-- The repaired `peek` leaves the scanner exactly as it was. -/
theorem peek_snd (c : Ctx) (l : Lx) (hf : c.fixed = true) (h0 : 0 ≤ l.pos) : (peek c l).2 = l := by
  unfold peek next backup
  by_cases hge : l.pos ≥ c.len
  · simp [hge, hf]
  · have hlt : ¬ l.pos < 0 := by omega
    simp [hge, hlt, hf]

theorem peek_fst (c : Ctx) (l : Lx) : (peek c l).1 = (next c l).1 := rfl


/-! ### The invariant -/

def tlen (t : Tok) : Int := t.len.getD 0

/-- Tokens emitted so far (newest first) lie inside `[0, bound]`, in order, without overlap. -/
structure TokInv (toks : List Tok) (bound : Int) : Prop where
  tb : ∀ t ∈ toks, 0 ≤ t.pos ∧ 0 ≤ tlen t ∧ t.pos + tlen t ≤ bound
  srt : toks.Pairwise (fun newer older => older.pos + tlen older ≤ newer.pos)

theorem TokInv.mono {toks : List Tok} {b b' : Int} (h : TokInv toks b) (hb : b ≤ b') : TokInv toks b' :=
  ⟨fun t ht => by have := h.tb t ht; omega, h.srt⟩

theorem TokInv.push {toks : List Tok} {b : Int} (h : TokInv toks b) (t : Tok) (hb : 0 ≤ b) (h0 : b ≤ t.pos) (h1 : 0 ≤ tlen t) :
    TokInv (t :: toks) (t.pos + tlen t) := by
  constructor
  · intro u hu
    rcases List.mem_cons.mp hu with rfl | hu
    · omega
    · have := h.tb u hu; omega
  · exact List.pairwise_cons.mpr ⟨fun u hu => by have := h.tb u hu; omega, h.srt⟩

/-- The cursor invariant: not trapped, `0 ≤ start ≤ pos ≤ len`, tokens in order below `start`. -/
structure Good (c : Ctx) (l : Lx) : Prop where
  nt : l.trapped = false
  s0 : 0 ≤ l.start
  sp : l.start ≤ l.pos
  pl : l.pos ≤ c.len
  ti : TokInv l.toks l.start

/-- What holds of the scanner when a state function returns nil. -/
structure Final (c : Ctx) (l : Lx) : Prop where
  nt : l.trapped = false
  ti : TokInv l.toks c.len

theorem good_move {c : Ctx} {l l' : Lx} (hg : Good c l) (ht : l'.toks = l.toks) (htr : l'.trapped = l.trapped)
    (h1 : l.start ≤ l'.start) (h2 : l'.start ≤ l'.pos) (h3 : l'.pos ≤ c.len) : Good c l' :=
  ⟨by rw [htr]; exact hg.nt, by have := hg.s0; omega, h2, h3, by rw [ht]; exact hg.ti.mono h1⟩

theorem emit_good {c : Ctx} {l : Lx} (hg : Good c l) (t : Nat) :
    Good c (emit c l t) ∧ (emit c l t).pos = l.pos ∧ (emit c l t).start = l.pos := by
  have hr : inRange c l = true := by
    simp [inRange]; exact ⟨⟨hg.s0, hg.sp⟩, hg.pl⟩
  unfold emit
  simp only [hr, if_true]
  refine ⟨⟨hg.nt, ?_, ?_, hg.pl, ?_⟩, ?_, ?_⟩ <;> try trivial
  · show 0 ≤ l.pos
    have := hg.s0; have := hg.sp; omega
  · show l.pos ≤ l.pos
    omega
  · show TokInv (⟨t, l.start, some (l.pos - l.start)⟩ :: l.toks) l.pos
    have hp := hg.ti.push ⟨t, l.start, some (l.pos - l.start)⟩ hg.s0 (by simp) (by simp [tlen]; have := hg.sp; omega)
    simp [tlen] at hp
    have e : l.start + (l.pos - l.start) = l.pos := by omega
    rw [e] at hp
    exact hp

theorem errorf_final {c : Ctx} {l : Lx} (hg : Good c l) : Final c (errorf l) := by
  refine ⟨hg.nt, ?_⟩
  show TokInv (⟨tError, l.start, none⟩ :: l.toks) c.len
  have hp := hg.ti.push ⟨tError, l.start, none⟩ hg.s0 (by simp) (by simp [tlen])
  simp [tlen] at hp
  exact hp.mono (by have := hg.sp; have := hg.pl; omega)

theorem good_final {c : Ctx} {l : Lx} (hg : Good c l) : Final c l :=
  ⟨hg.nt, hg.ti.mono (by have := hg.sp; have := hg.pl; omega)⟩

theorem chk_good {c : Ctx} {l : Lx} (hg : Good c l) : chk c l = l := by
  have hr : inRange c l = true := by
    simp [inRange]; exact ⟨⟨hg.s0, hg.sp⟩, hg.pl⟩
  simp [chk, hr]

/-! ### Termination measure -/

def rank : St → Int
  | .commentNL => 9 | .commentBody => 9
  | .ident => 8 | .number _ false => 8 | .regexOpSp => 8
  | .reference => 8 | .strInner _ _ => 8 | .regexBody => 8
  | .binopSp => 7 | .binopMain => 6 | .token => 5
  | .unary => 4 | .number _ true => 4 | .strOuter _ => 4 | .commentStart => 4 | .regexStart => 4

def mu (c : Ctx) (l : Lx) (s : St) : Int := 10 * (c.len - l.pos) + rank s

/-- State-specific invariant: `lexNumberOrDurationOrDot` is entered on a digit or a dot. -/
def StInv (c : Ctx) (l : Lx) : St → Prop
  | .number _ true => (isDigit c (next c l).1 || (next c l).1 == 0x2E) = true
  | _ => True

def StepOK (c : Ctx) (l : Lx) (s : St) : Step → Prop
  | .cont l' s' => Good c l' ∧ StInv c l' s' ∧ mu c l' s' < mu c l s
  | .done l' => Final c l'

theorem emitTo_ok {c : Ctx} {l l' : Lx} {s s' : St} (t : Nat) (hg : Good c l') (hs : ∀ l'', StInv c l'' s')
    (hmu : 10 * (c.len - l'.pos) + rank s' < mu c l s) : StepOK c l s (emitTo c l' t s') := by
  obtain ⟨h1, h2, _⟩ := emit_good hg t
  exact ⟨h1, hs _, by unfold mu; rw [h2]; exact hmu⟩

/-! Classes are false of EOF. -/
theorem isSpace_eof (c : Ctx) (r : Int) (h : isSpace c r = true) : r ≠ -1 := by
  intro e; subst e; simp [isSpace] at h
theorem isDigit_eof (c : Ctx) (r : Int) (h : isDigit c r = true) : r ≠ -1 := by
  intro e; subst e; simp [isDigit] at h
theorem isLetter_eof (c : Ctx) (r : Int) (h : isLetter c r = true) : r ≠ -1 := by
  intro e; subst e; simp [isLetter] at h
theorem isValidIdent_eof (c : Ctx) (r : Int) (h : isValidIdent c r = true) : r ≠ -1 := by
  intro e; subst e; simp [isValidIdent, isDigit, isLetter] at h


/-! ### One step of every state function preserves the invariant and decreases the measure -/

open Lean Elab Tactic Meta in
/-- Case-split on the condition of the first (outermost) `if` in the goal and rewrite it away. -/
elab "ite_cases" : tactic => withMainContext do
  let g ← getMainGoal
  let t ← instantiateMVars (← g.getType)
  let some e := t.find? (fun e => e.isAppOfArity ``ite 5) | throwError "no ite"
  let cond := e.getArg! 1
  let stx ← Tactic.runTermElab (Term.exprToSyntax cond)
  evalTactic (← `(tactic| by_cases hc : $stx <;> first | rw [if_pos hc] | rw [if_neg hc]))

macro "fin" : tactic => `(tactic| first
  | trivial
  | omega
  | (simp only [ignore, backup, mu, rank, StInv] ; omega)
  | (simp only [ignore, backup, *] ; done)
  | (simp only [ignore, backup, StInv, *] ; done))

macro "cls" : tactic => `(tactic| (
  try (have := isSpace_eof _ _ ‹isSpace _ _ = true›)
  try (have := isDigit_eof _ _ ‹isDigit _ _ = true›)
  try (have := isLetter_eof _ _ ‹isLetter _ _ = true›)
  try (have := isValidIdent_eof _ _ ‹isValidIdent _ _ = true›)))

macro "branch" : tactic => `(tactic| (
  simp only [StepOK]
  simp only [Bool.or_eq_true, Bool.and_eq_true, beq_iff_eq, bne_iff_ne, Bool.not_eq_true', ne_eq, not_or, not_and, eof] at *
  cls
  first
  | (refine ⟨good_move ‹Good _ _› ?_ ?_ ?_ ?_ ?_, ?_, ?_⟩ <;> fin)
  | (refine emitTo_ok _ (good_move ‹Good _ _› ?_ ?_ ?_ ?_ ?_) (fun _ => trivial) ?_ <;> fin)
  | (refine errorf_final (good_move ‹Good _ _› ?_ ?_ ?_ ?_ ?_) <;> fin)
  | (refine good_final (emit_good (good_move ‹Good _ _› ?_ ?_ ?_ ?_ ?_) _).1 <;> fin)))

theorem step_token (c : Ctx) (l : Lx) (hf : c.fixed = true) (hg : Good c l) :
    StepOK c l .token (step c l .token) := by
  have := hg.s0; have := hg.sp; have := hg.pl
  obtain ⟨hs1, ht1, hr1, hp1, hw1, hl1, he1, ha1, hg1⟩ := next_ok c l (by omega) (by omega)
  have hpk := peek_snd c (next c l).2 hf (by omega)
  have hnum : (next c (backup (next c l).2)).1 = (next c l).1 :=
    next_fst_congr c _ _ (by simp only [backup]; omega)
  simp only [step, hpk, peek_fst]
  generalize (next c (next c l).2).1 = r2 at *
  generalize (next c l).1 = r at *
  generalize (next c l).2 = l1 at *
  repeat' ite_cases
  all_goals (try branch)
  rename_i hu hd
  simp only [StepOK]
  refine ⟨good_move hg ?_ ?_ ?_ ?_ ?_, ?_, ?_⟩
  · fin
  · fin
  · fin
  · fin
  · fin
  · simp only [StInv, hnum]
    simp only [isUnaryChar, Bool.or_eq_true, beq_iff_eq, not_or] at hu hd ⊢
    rcases hd with (h | h) | h
    · exact Or.inl h
    · exact absurd h hu.1
    · exact Or.inr h
  · fin

theorem step_unary (c : Ctx) (l : Lx) (hg : Good c l) : StepOK c l .unary (step c l .unary) := by
  have := hg.s0; have := hg.sp; have := hg.pl
  obtain ⟨hs1, ht1, hr1, hp1, hw1, hl1, he1, ha1, hg1⟩ := next_ok c l (by omega) (by omega)
  simp only [step]
  repeat' ite_cases
  all_goals branch

theorem step_binopSp (c : Ctx) (l : Lx) (hg : Good c l) : StepOK c l .binopSp (step c l .binopSp) := by
  have := hg.s0; have := hg.sp; have := hg.pl
  obtain ⟨hs1, ht1, hr1, hp1, hw1, hl1, he1, ha1, hg1⟩ := next_ok c l (by omega) (by omega)
  simp only [step]
  repeat' ite_cases
  all_goals branch

theorem step_binopMain (c : Ctx) (l : Lx) (hf : c.fixed = true) (hg : Good c l) :
    StepOK c l .binopMain (step c l .binopMain) := by
  have := hg.s0; have := hg.sp; have := hg.pl
  obtain ⟨hs1, ht1, hr1, hp1, hw1, hl1, he1, ha1, hg1⟩ := next_ok c l (by omega) (by omega)
  obtain ⟨hs2, ht2, hr2, hp2, hw2, hl2, he2, ha2, hg2⟩ := next_ok c (next c l).2 (by omega) (by omega)
  have hpk := peek_snd c (next c l).2 hf (by omega)
  simp only [step, hpk, peek_fst]
  generalize (next c (next c l).2).1 = r2 at *
  generalize (next c (next c l).2).2 = l2 at *
  generalize (next c l).1 = r at *
  generalize (next c l).2 = l1 at *
  repeat' ite_cases
  all_goals branch


theorem step_regexOpSp (c : Ctx) (l : Lx) (hf : c.fixed = true) (hg : Good c l) :
    StepOK c l .regexOpSp (step c l .regexOpSp) := by
  have := hg.s0; have := hg.sp; have := hg.pl
  obtain ⟨hs1, ht1, hr1, hp1, hw1, hl1, he1, ha1, hg1⟩ := next_ok c l (by omega) (by omega)
  have hpk := peek_snd c (backup (next c l).2) hf (by simp only [backup]; omega)
  simp only [step, hpk, peek_fst]
  generalize (next c (backup (next c l).2)).1 = r2 at *
  generalize (next c l).1 = r at *
  generalize (next c l).2 = l1 at *
  repeat' ite_cases
  all_goals branch

theorem step_ident (c : Ctx) (l : Lx) (hg : Good c l) : StepOK c l .ident (step c l .ident) := by
  have := hg.s0; have := hg.sp; have := hg.pl
  obtain ⟨hs1, ht1, hr1, hp1, hw1, hl1, he1, ha1, hg1⟩ := next_ok c l (by omega) (by omega)
  have hgb : Good c (backup (next c l).2) := by
    refine good_move hg ?_ ?_ ?_ ?_ ?_ <;> fin
  have hchk := chk_good hgb
  obtain ⟨hs2, ht2, hr2, hp2, hw2, hl2, he2, ha2, hg2⟩ :=
    next_ok c (backup (next c l).2) (by simp only [backup]; omega) (by simp only [backup]; omega)
  simp only [step, hchk]
  generalize (next c (backup (next c l).2)).1 = r2 at *
  generalize (next c (backup (next c l).2)).2 = l2 at *
  generalize keywordOf (cur c (backup (next c l).2)) = kw at *
  generalize (next c l).1 = r at *
  generalize (next c l).2 = l1 at *
  simp only [backup] at hs2 ht2 hr2 hp2
  repeat' ite_cases
  all_goals branch

theorem step_reference (c : Ctx) (l : Lx) (hf : c.fixed = true) (hg : Good c l) :
    StepOK c l .reference (step c l .reference) := by
  have := hg.s0; have := hg.sp; have := hg.pl
  obtain ⟨hs1, ht1, hr1, hp1, hw1, hl1, he1, ha1, hg1⟩ := next_ok c l (by omega) (by omega)
  obtain ⟨hs2, ht2, hr2, hp2, hw2, hl2, he2, ha2, hg2⟩ := next_ok c (next c l).2 (by omega) (by omega)
  have hpk := peek_snd c (next c l).2 hf (by omega)
  simp only [step, hpk, peek_fst]
  generalize (next c (next c l).2).1 = r2 at *
  generalize (next c (next c l).2).2 = l2 at *
  generalize (next c l).1 = r at *
  generalize (next c l).2 = l1 at *
  repeat' ite_cases
  all_goals branch

theorem step_regexStart (c : Ctx) (l : Lx) (hg : Good c l) : StepOK c l .regexStart (step c l .regexStart) := by
  have := hg.s0; have := hg.sp; have := hg.pl
  obtain ⟨hs1, ht1, hr1, hp1, hw1, hl1, he1, ha1, hg1⟩ := next_ok c l (by omega) (by omega)
  simp only [step]
  repeat' ite_cases
  all_goals branch

theorem step_regexBody (c : Ctx) (l : Lx) (hf : c.fixed = true) (hg : Good c l) :
    StepOK c l .regexBody (step c l .regexBody) := by
  have := hg.s0; have := hg.sp; have := hg.pl
  obtain ⟨hs1, ht1, hr1, hp1, hw1, hl1, he1, ha1, hg1⟩ := next_ok c l (by omega) (by omega)
  obtain ⟨hs2, ht2, hr2, hp2, hw2, hl2, he2, ha2, hg2⟩ := next_ok c (next c l).2 (by omega) (by omega)
  have hpk := peek_snd c (next c l).2 hf (by omega)
  simp only [step, hpk, peek_fst]
  generalize (next c (next c l).2).1 = r2 at *
  generalize (next c (next c l).2).2 = l2 at *
  generalize (next c l).1 = r at *
  generalize (next c l).2 = l1 at *
  repeat' ite_cases
  all_goals branch

theorem step_commentStart (c : Ctx) (l : Lx) (hf : c.fixed = true) (hg : Good c l) :
    StepOK c l .commentStart (step c l .commentStart) := by
  have := hg.s0; have := hg.sp; have := hg.pl
  obtain ⟨hs1, ht1, hr1, hp1, hw1, hl1, he1, ha1, hg1⟩ := next_ok c l (by omega) (by omega)
  have hpk := peek_snd c l hf (by omega)
  simp only [step, hpk, peek_fst]
  generalize (next c l).1 = r at *
  generalize (next c l).2 = l1 at *
  repeat' ite_cases
  all_goals branch

theorem step_commentBody (c : Ctx) (l : Lx) (hg : Good c l) : StepOK c l .commentBody (step c l .commentBody) := by
  have := hg.s0; have := hg.sp; have := hg.pl
  obtain ⟨hs1, ht1, hr1, hp1, hw1, hl1, he1, ha1, hg1⟩ := next_ok c l (by omega) (by omega)
  simp only [step]
  generalize (next c l).1 = r at *
  generalize (next c l).2 = l1 at *
  repeat' ite_cases
  all_goals branch

theorem step_commentNL (c : Ctx) (l : Lx) (hg : Good c l) : StepOK c l .commentNL (step c l .commentNL) := by
  have := hg.s0; have := hg.sp; have := hg.pl
  obtain ⟨hs1, ht1, hr1, hp1, hw1, hl1, he1, ha1, hg1⟩ := next_ok c l (by omega) (by omega)
  simp only [step]
  generalize (next c l).1 = r at *
  generalize (next c l).2 = l1 at *
  repeat' ite_cases
  · rename_i hc
    have hsp : isSpace c r = true := by
      simp only [Bool.and_eq_true] at hc; exact hc.2
    branch
  all_goals branch


theorem step_number (c : Ctx) (l : Lx) (hf : c.fixed = true) (hg : Good c l) (fd first : Bool)
    (hsi : StInv c l (.number fd first)) : StepOK c l (.number fd first) (step c l (.number fd first)) := by
  have := hg.s0; have := hg.sp; have := hg.pl
  obtain ⟨hs1, ht1, hr1, hp1, hw1, hl1, he1, ha1, hg1⟩ := next_ok c l (by omega) (by omega)
  obtain ⟨hs2, ht2, hr2, hp2, hw2, hl2, he2, ha2, hg2⟩ := next_ok c (next c l).2 (by omega) (by omega)
  have hpk := peek_snd c (next c l).2 hf (by omega)
  cases first <;> cases fd <;> simp only [step, apply_ite Prod.fst, apply_ite Prod.snd, hpk, peek_fst, ite_self,
    Bool.false_eq_true, if_false, if_true, Bool.false_and, Bool.true_and, Bool.not_false, Bool.not_true]
  all_goals generalize (next c (next c l).2).1 = r2 at *
  all_goals generalize (next c (next c l).2).2 = l2 at *
  all_goals generalize hr : (next c l).1 = r at *
  all_goals generalize (next c l).2 = l1 at *
  all_goals repeat' ite_cases
  all_goals (try branch)
  all_goals (
    exfalso
    simp only [StInv, Bool.or_eq_true, beq_iff_eq] at hsi
    simp only [Bool.or_eq_true, Bool.and_eq_true, beq_iff_eq, bne_iff_ne, Bool.not_eq_true', ne_eq, not_or, not_and] at *
    rcases hsi with h | h
    · simp_all
    · omega)


theorem step_strOuter (c : Ctx) (l : Lx) (hf : c.fixed = true) (hg : Good c l) (count : Nat) :
    StepOK c l (.strOuter count) (step c l (.strOuter count)) := by
  have := hg.s0; have := hg.sp; have := hg.pl
  obtain ⟨hs1, ht1, hr1, hp1, hw1, hl1, he1, ha1, hg1⟩ := next_ok c l (by omega) (by omega)
  obtain ⟨hs2, ht2, hr2, hp2, hw2, hl2, he2, ha2, hg2⟩ := next_ok c (next c l).2 (by omega) (by omega)
  obtain ⟨hs3, ht3, hr3, hp3, hw3, hl3, he3, ha3, hg3⟩ := next_ok c (next c (next c l).2).2 (by omega) (by omega)
  have hpk1 := peek_snd c (next c l).2 hf (by omega)
  have hpk2 := peek_snd c (next c (next c l).2).2 hf (by omega)
  simp only [step, apply_ite Prod.fst, apply_ite Prod.snd, hpk1, hpk2, peek_fst, ite_self]
  generalize (next c (next c (next c l).2).2).1 = r3 at *
  generalize (next c (next c (next c l).2).2).2 = l3 at *
  generalize (next c (next c l).2).1 = r2 at *
  generalize (next c (next c l).2).2 = l2 at *
  generalize (next c l).1 = r at *
  generalize (next c l).2 = l1 at *
  repeat' ite_cases
  all_goals branch

theorem step_strInner (c : Ctx) (l : Lx) (hf : c.fixed = true) (hg : Good c l) (count total : Nat) :
    StepOK c l (.strInner count total) (step c l (.strInner count total)) := by
  have := hg.s0; have := hg.sp; have := hg.pl
  obtain ⟨hs1, ht1, hr1, hp1, hw1, hl1, he1, ha1, hg1⟩ := next_ok c l (by omega) (by omega)
  obtain ⟨hs2, ht2, hr2, hp2, hw2, hl2, he2, ha2, hg2⟩ := next_ok c (next c l).2 (by omega) (by omega)
  have hpk1 := peek_snd c (next c l).2 hf (by omega)
  simp only [step, apply_ite Prod.fst, apply_ite Prod.snd, hpk1, peek_fst, ite_self]
  generalize (next c (next c l).2).1 = r2 at *
  generalize (next c (next c l).2).2 = l2 at *
  generalize (next c l).1 = r at *
  generalize (next c l).2 = l1 at *
  repeat' ite_cases
  all_goals branch

/-- **Every step of every state function**: from an in-range cursor the step does not trap, keeps the
cursor in range and the tokens in order, and strictly decreases the measure. -/
theorem step_ok (c : Ctx) (hf : c.fixed = true) (l : Lx) (s : St) (hg : Good c l) (hsi : StInv c l s) :
    StepOK c l s (step c l s) := by
  cases s with
  | token => exact step_token c l hf hg
  | unary => exact step_unary c l hg
  | binopSp => exact step_binopSp c l hg
  | binopMain => exact step_binopMain c l hf hg
  | regexOpSp => exact step_regexOpSp c l hf hg
  | ident => exact step_ident c l hg
  | number fd first => exact step_number c l hf hg fd first hsi
  | reference => exact step_reference c l hf hg
  | strOuter n => exact step_strOuter c l hf hg n
  | strInner n t => exact step_strInner c l hf hg n t
  | regexStart => exact step_regexStart c l hg
  | regexBody => exact step_regexBody c l hf hg
  | commentStart => exact step_commentStart c l hf hg
  | commentBody => exact step_commentBody c l hg
  | commentNL => exact step_commentNL c l hg

theorem rank_nonneg (s : St) : 0 ≤ rank s := by
  cases s <;> simp [rank] <;> (try split) <;> omega

/-- The run lemma: with more fuel than the measure, the scanner ends in `done` with ordered in-range tokens. -/
theorem run_ok (c : Ctx) (hf : c.fixed = true) :
    ∀ (k : Nat) (l : Lx) (s : St), Good c l → StInv c l s → mu c l s < k →
      ∃ l', runFrom c k l s = .done l'.toks.reverse ∧ Final c l' := by
  intro k
  induction k with
  | zero =>
    intro l s hg _ hk
    have := rank_nonneg s; have := hg.pl
    simp only [mu] at hk; omega
  | succ k ih =>
    intro l s hg hsi hk
    have h := step_ok c hf l s hg hsi
    unfold runFrom
    cases hst : step c l s with
    | cont l' s' =>
      rw [hst] at h
      obtain ⟨hg', hsi', hmu⟩ := h
      simp only [hg'.nt]
      exact ih l' s' hg' hsi' (by omega)
    | done l' =>
      rw [hst] at h
      simp only [h.nt]
      exact ⟨l', rfl, h⟩

end Kap.C05
