/-
C05 — the rune-boundary invariant of the scanner: `start`, `pos` and both ends of every token are
offsets reached from 0 by decoding one rune after the other (`Bnd`). A second pass over the state
functions, next to the cursor invariant of Kap/Proofs/C05.lean.
-/
import Kap.Proofs.C05
namespace Kap.C05

theorem bnd_cast {inp : Bytes} {p q : Int} (h : Bnd inp p) (e : p = q) : Bnd inp q := e ▸ h

/-- `next` moves from a rune boundary to a rune boundary. -/
theorem next_bnd (c : Ctx) (l : Lx) (h0 : 0 ≤ l.pos) (hb : Bnd c.inp l.pos) : Bnd c.inp (next c l).2.pos := by
  unfold next
  by_cases hge : l.pos ≥ c.len
  · simp only [hge, if_true]; exact hb
  · have hlt : ¬ l.pos < 0 := by omega
    simp only [hge, hlt, if_false]
    exact Bnd.step hb h0 (by simp [Ctx.len] at hge; omega)

def TokBnd (inp : Bytes) (toks : List Tok) : Prop := ∀ t ∈ toks, Bnd inp t.pos ∧ Bnd inp (t.pos + tlen t)

/-- The boundary invariant. -/
structure B (c : Ctx) (l : Lx) : Prop where
  bs : Bnd c.inp l.start
  bp : Bnd c.inp l.pos
  bt : TokBnd c.inp l.toks

theorem B_move {c : Ctx} {l l' : Lx} (hB : B c l) (ht : l'.toks = l.toks)
    (h1 : Bnd c.inp l'.start) (h2 : Bnd c.inp l'.pos) : B c l' :=
  ⟨h1, h2, by rw [ht]; exact hB.bt⟩

theorem emit_B {c : Ctx} {l : Lx} (hB : B c l) (t : Nat) : B c (emit c l t) := by
  unfold emit
  split
  · refine ⟨hB.bp, hB.bp, ?_⟩
    intro u hu
    rcases List.mem_cons.mp hu with rfl | hu
    · exact ⟨hB.bs, bnd_cast hB.bp (by simp [tlen]; omega)⟩
    · exact hB.bt u hu
  · exact ⟨hB.bs, hB.bp, hB.bt⟩

theorem errorf_B {c : Ctx} {l : Lx} (hB : B c l) : B c (errorf l) := by
  refine ⟨hB.bs, hB.bp, ?_⟩
  intro u hu
  rcases List.mem_cons.mp hu with rfl | hu
  · exact ⟨hB.bs, bnd_cast hB.bs (by simp [tlen])⟩
  · exact hB.bt u hu

theorem chk_B {c : Ctx} {l : Lx} (hB : B c l) : B c (chk c l) := by
  unfold chk; split
  · exact hB
  · exact ⟨hB.bs, hB.bp, hB.bt⟩

/-- The scanner state a step ends in. -/
def Step.st : Step → Lx
  | .cont l _ => l
  | .done l => l

set_option hygiene false in
/-- close `Bnd c.inp e` from one of the boundary facts in scope -/
macro "bndfin" : tactic => `(tactic| (
  try simp only [ignore, backup]
  first
  | exact bnd_cast hbS (by omega)
  | exact bnd_cast hb0 (by omega)
  | exact bnd_cast hb1 (by omega)
  | exact bnd_cast hb2 (by omega)
  | exact bnd_cast hb3 (by omega)))

macro "tk" : tactic => `(tactic| first | rfl | (simp only [ignore, backup, *] ; done))

set_option hygiene false in
macro "bbranch" : tactic => `(tactic| (
  simp only [Step.st, emitTo]
  first
  | (refine B_move hB ?_ ?_ ?_ <;> first | tk | bndfin)
  | (refine emit_B (B_move hB ?_ ?_ ?_) _ <;> first | tk | bndfin)
  | (refine errorf_B (B_move hB ?_ ?_ ?_) <;> first | tk | bndfin)))

theorem bstep_token (c : Ctx) (l : Lx) (hf : c.fixed = true) (hg : Good c l) (hB : B c l) :
    B c (step c l .token).st := by
  have := hg.s0; have := hg.sp; have := hg.pl
  have hbS := hB.bs; have hb0 := hB.bp
  have hb1 := next_bnd c l (by omega) hb0
  obtain ⟨hs1, ht1, hr1, hp1, hw1, hl1, he1, ha1, hg1⟩ := next_ok c l (by omega) (by omega)
  have hpk := peek_snd c (next c l).2 hf (by omega)
  simp only [step, hpk, peek_fst]
  generalize (next c (next c l).2).1 = r2 at *
  generalize (next c l).1 = r at *
  generalize (next c l).2 = l1 at *
  repeat' ite_cases
  all_goals bbranch

theorem bstep_unary (c : Ctx) (l : Lx) (hg : Good c l) (hB : B c l) :
    B c (step c l .unary).st := by
  have := hg.s0; have := hg.sp; have := hg.pl
  have hbS := hB.bs; have hb0 := hB.bp
  have hb1 := next_bnd c l (by omega) hb0
  obtain ⟨hs1, ht1, hr1, hp1, hw1, hl1, he1, ha1, hg1⟩ := next_ok c l (by omega) (by omega)
  simp only [step]
  generalize (next c l).1 = r at *
  generalize (next c l).2 = l1 at *
  repeat' ite_cases
  all_goals bbranch

theorem bstep_binopSp (c : Ctx) (l : Lx) (hg : Good c l) (hB : B c l) :
    B c (step c l .binopSp).st := by
  have := hg.s0; have := hg.sp; have := hg.pl
  have hbS := hB.bs; have hb0 := hB.bp
  have hb1 := next_bnd c l (by omega) hb0
  obtain ⟨hs1, ht1, hr1, hp1, hw1, hl1, he1, ha1, hg1⟩ := next_ok c l (by omega) (by omega)
  simp only [step]
  generalize (next c l).1 = r at *
  generalize (next c l).2 = l1 at *
  repeat' ite_cases
  all_goals bbranch

theorem bstep_binopMain (c : Ctx) (l : Lx) (hf : c.fixed = true) (hg : Good c l) (hB : B c l) :
    B c (step c l .binopMain).st := by
  have := hg.s0; have := hg.sp; have := hg.pl
  have hbS := hB.bs; have hb0 := hB.bp
  have hb1 := next_bnd c l (by omega) hb0
  obtain ⟨hs1, ht1, hr1, hp1, hw1, hl1, he1, ha1, hg1⟩ := next_ok c l (by omega) (by omega)
  have hb2 := next_bnd c (next c l).2 (by omega) hb1
  obtain ⟨hs2, ht2, hr2, hp2, hw2, hl2, he2, ha2, hg2⟩ := next_ok c (next c l).2 (by omega) (by omega)
  have hpk := peek_snd c (next c l).2 hf (by omega)
  simp only [step, hpk, peek_fst]
  generalize (next c (next c l).2).1 = r2 at *
  generalize (next c (next c l).2).2 = l2 at *
  generalize (next c l).1 = r at *
  generalize (next c l).2 = l1 at *
  repeat' ite_cases
  all_goals bbranch

theorem bstep_regexOpSp (c : Ctx) (l : Lx) (hf : c.fixed = true) (hg : Good c l) (hB : B c l) :
    B c (step c l .regexOpSp).st := by
  have := hg.s0; have := hg.sp; have := hg.pl
  have hbS := hB.bs; have hb0 := hB.bp
  have hb1 := next_bnd c l (by omega) hb0
  obtain ⟨hs1, ht1, hr1, hp1, hw1, hl1, he1, ha1, hg1⟩ := next_ok c l (by omega) (by omega)
  have hpk := peek_snd c (backup (next c l).2) hf (by simp only [backup]; omega)
  simp only [step, hpk, peek_fst]
  generalize (next c (backup (next c l).2)).1 = r2 at *
  generalize (next c l).1 = r at *
  generalize (next c l).2 = l1 at *
  repeat' ite_cases
  all_goals bbranch

theorem bstep_ident (c : Ctx) (l : Lx) (hg : Good c l) (hB : B c l) :
    B c (step c l .ident).st := by
  have := hg.s0; have := hg.sp; have := hg.pl
  have hbS := hB.bs; have hb0 := hB.bp
  have hb1 := next_bnd c l (by omega) hb0
  obtain ⟨hs1, ht1, hr1, hp1, hw1, hl1, he1, ha1, hg1⟩ := next_ok c l (by omega) (by omega)
  have hbk : Bnd c.inp (backup (next c l).2).pos := bnd_cast hb0 (by simp only [backup]; omega)
  have hb2 := next_bnd c (backup (next c l).2) (by simp only [backup]; omega) hbk
  obtain ⟨hs2, ht2, hr2, hp2, hw2, hl2, he2, ha2, hg2⟩ :=
    next_ok c (backup (next c l).2) (by simp only [backup]; omega) (by simp only [backup]; omega)
  have hgb : Good c (backup (next c l).2) := by
    refine good_move hg ?_ ?_ ?_ ?_ ?_ <;> fin
  have hchk := chk_good hgb
  simp only [step, hchk]
  generalize (next c (backup (next c l).2)).1 = r2 at *
  generalize (next c (backup (next c l).2)).2 = l2 at *
  generalize keywordOf (cur c (backup (next c l).2)) = kw at *
  generalize (next c l).1 = r at *
  generalize (next c l).2 = l1 at *
  simp only [backup] at hs2 ht2 hr2 hp2
  repeat' ite_cases
  all_goals bbranch

theorem bstep_reference (c : Ctx) (l : Lx) (hf : c.fixed = true) (hg : Good c l) (hB : B c l) :
    B c (step c l .reference).st := by
  have := hg.s0; have := hg.sp; have := hg.pl
  have hbS := hB.bs; have hb0 := hB.bp
  have hb1 := next_bnd c l (by omega) hb0
  obtain ⟨hs1, ht1, hr1, hp1, hw1, hl1, he1, ha1, hg1⟩ := next_ok c l (by omega) (by omega)
  have hb2 := next_bnd c (next c l).2 (by omega) hb1
  obtain ⟨hs2, ht2, hr2, hp2, hw2, hl2, he2, ha2, hg2⟩ := next_ok c (next c l).2 (by omega) (by omega)
  have hpk := peek_snd c (next c l).2 hf (by omega)
  simp only [step, hpk, peek_fst]
  generalize (next c (next c l).2).1 = r2 at *
  generalize (next c (next c l).2).2 = l2 at *
  generalize (next c l).1 = r at *
  generalize (next c l).2 = l1 at *
  repeat' ite_cases
  all_goals bbranch

theorem bstep_regexStart (c : Ctx) (l : Lx) (hg : Good c l) (hB : B c l) :
    B c (step c l .regexStart).st := by
  have := hg.s0; have := hg.sp; have := hg.pl
  have hbS := hB.bs; have hb0 := hB.bp
  have hb1 := next_bnd c l (by omega) hb0
  obtain ⟨hs1, ht1, hr1, hp1, hw1, hl1, he1, ha1, hg1⟩ := next_ok c l (by omega) (by omega)
  simp only [step]
  generalize (next c l).1 = r at *
  generalize (next c l).2 = l1 at *
  repeat' ite_cases
  all_goals bbranch

theorem bstep_regexBody (c : Ctx) (l : Lx) (hf : c.fixed = true) (hg : Good c l) (hB : B c l) :
    B c (step c l .regexBody).st := by
  have := hg.s0; have := hg.sp; have := hg.pl
  have hbS := hB.bs; have hb0 := hB.bp
  have hb1 := next_bnd c l (by omega) hb0
  obtain ⟨hs1, ht1, hr1, hp1, hw1, hl1, he1, ha1, hg1⟩ := next_ok c l (by omega) (by omega)
  have hb2 := next_bnd c (next c l).2 (by omega) hb1
  obtain ⟨hs2, ht2, hr2, hp2, hw2, hl2, he2, ha2, hg2⟩ := next_ok c (next c l).2 (by omega) (by omega)
  have hpk := peek_snd c (next c l).2 hf (by omega)
  simp only [step, hpk, peek_fst]
  generalize (next c (next c l).2).1 = r2 at *
  generalize (next c (next c l).2).2 = l2 at *
  generalize (next c l).1 = r at *
  generalize (next c l).2 = l1 at *
  repeat' ite_cases
  all_goals bbranch

theorem bstep_commentStart (c : Ctx) (l : Lx) (hf : c.fixed = true) (hg : Good c l) (hB : B c l) :
    B c (step c l .commentStart).st := by
  have := hg.s0; have := hg.sp; have := hg.pl
  have hbS := hB.bs; have hb0 := hB.bp
  have hb1 := next_bnd c l (by omega) hb0
  obtain ⟨hs1, ht1, hr1, hp1, hw1, hl1, he1, ha1, hg1⟩ := next_ok c l (by omega) (by omega)
  have hpk := peek_snd c l hf (by omega)
  simp only [step, hpk, peek_fst]
  generalize (next c l).1 = r at *
  generalize (next c l).2 = l1 at *
  repeat' ite_cases
  all_goals bbranch

theorem bstep_commentBody (c : Ctx) (l : Lx) (hg : Good c l) (hB : B c l) :
    B c (step c l .commentBody).st := by
  have := hg.s0; have := hg.sp; have := hg.pl
  have hbS := hB.bs; have hb0 := hB.bp
  have hb1 := next_bnd c l (by omega) hb0
  obtain ⟨hs1, ht1, hr1, hp1, hw1, hl1, he1, ha1, hg1⟩ := next_ok c l (by omega) (by omega)
  simp only [step]
  generalize (next c l).1 = r at *
  generalize (next c l).2 = l1 at *
  repeat' ite_cases
  all_goals bbranch

theorem bstep_commentNL (c : Ctx) (l : Lx) (hg : Good c l) (hB : B c l) :
    B c (step c l .commentNL).st := by
  have := hg.s0; have := hg.sp; have := hg.pl
  have hbS := hB.bs; have hb0 := hB.bp
  have hb1 := next_bnd c l (by omega) hb0
  obtain ⟨hs1, ht1, hr1, hp1, hw1, hl1, he1, ha1, hg1⟩ := next_ok c l (by omega) (by omega)
  simp only [step]
  generalize (next c l).1 = r at *
  generalize (next c l).2 = l1 at *
  repeat' ite_cases
  all_goals bbranch

theorem bstep_number (c : Ctx) (l : Lx) (hf : c.fixed = true) (hg : Good c l) (hB : B c l) (fd first : Bool) :
    B c (step c l (.number fd first)).st := by
  have := hg.s0; have := hg.sp; have := hg.pl
  have hbS := hB.bs; have hb0 := hB.bp
  have hb1 := next_bnd c l (by omega) hb0
  obtain ⟨hs1, ht1, hr1, hp1, hw1, hl1, he1, ha1, hg1⟩ := next_ok c l (by omega) (by omega)
  have hb2 := next_bnd c (next c l).2 (by omega) hb1
  obtain ⟨hs2, ht2, hr2, hp2, hw2, hl2, he2, ha2, hg2⟩ := next_ok c (next c l).2 (by omega) (by omega)
  have hpk := peek_snd c (next c l).2 hf (by omega)
  cases first <;> cases fd <;> simp only [step, apply_ite Prod.fst, apply_ite Prod.snd, hpk, peek_fst, ite_self,
    Bool.false_eq_true, if_false, if_true, Bool.false_and, Bool.true_and, Bool.not_false, Bool.not_true]
  all_goals generalize (next c (next c l).2).1 = r2 at *
  all_goals generalize (next c (next c l).2).2 = l2 at *
  all_goals generalize (next c l).1 = r at *
  all_goals generalize (next c l).2 = l1 at *
  all_goals repeat' ite_cases
  all_goals bbranch

theorem bstep_strOuter (c : Ctx) (l : Lx) (hf : c.fixed = true) (hg : Good c l) (hB : B c l) (count : Nat) :
    B c (step c l (.strOuter count)).st := by
  have := hg.s0; have := hg.sp; have := hg.pl
  have hbS := hB.bs; have hb0 := hB.bp
  have hb1 := next_bnd c l (by omega) hb0
  obtain ⟨hs1, ht1, hr1, hp1, hw1, hl1, he1, ha1, hg1⟩ := next_ok c l (by omega) (by omega)
  have hb2 := next_bnd c (next c l).2 (by omega) hb1
  obtain ⟨hs2, ht2, hr2, hp2, hw2, hl2, he2, ha2, hg2⟩ := next_ok c (next c l).2 (by omega) (by omega)
  have hb3 := next_bnd c (next c (next c l).2).2 (by omega) hb2
  obtain ⟨hs3, ht3, hr3, hp3, hw3, hl3, he3, ha3, hg3⟩ := next_ok c (next c (next c l).2).2 (by omega) (by omega)
  have hpk1 := peek_snd c (next c l).2 hf (by omega)
  have hpk2 := peek_snd c (next c (next c l).2).2 hf (by omega)
  simp only [step, apply_ite Prod.fst, apply_ite Prod.snd, hpk1, hpk2, peek_fst, ite_self]
  generalize (next c (next c (next c l).2).2).1 = r3 at *
  generalize (next c (next c (next c l).2).2).2 = l3 at *
  generalize (next c (next c l).2).1 = r2 at *
  generalize (next c (next c l).2).2 = l2 at *
  generalize (next c l).1 = r at *
  generalize (next c l).2 = l1 at *
  repeat' ite_cases
  all_goals bbranch

theorem bstep_strInner (c : Ctx) (l : Lx) (hf : c.fixed = true) (hg : Good c l) (hB : B c l) (count total : Nat) :
    B c (step c l (.strInner count total)).st := by
  have := hg.s0; have := hg.sp; have := hg.pl
  have hbS := hB.bs; have hb0 := hB.bp
  have hb1 := next_bnd c l (by omega) hb0
  obtain ⟨hs1, ht1, hr1, hp1, hw1, hl1, he1, ha1, hg1⟩ := next_ok c l (by omega) (by omega)
  have hb2 := next_bnd c (next c l).2 (by omega) hb1
  obtain ⟨hs2, ht2, hr2, hp2, hw2, hl2, he2, ha2, hg2⟩ := next_ok c (next c l).2 (by omega) (by omega)
  have hpk1 := peek_snd c (next c l).2 hf (by omega)
  simp only [step, apply_ite Prod.fst, apply_ite Prod.snd, hpk1, peek_fst, ite_self]
  generalize (next c (next c l).2).1 = r2 at *
  generalize (next c (next c l).2).2 = l2 at *
  generalize (next c l).1 = r at *
  generalize (next c l).2 = l1 at *
  repeat' ite_cases
  all_goals bbranch

/-- **Every step keeps the cursor and the tokens on rune boundaries.** -/
theorem bstep_ok (c : Ctx) (hf : c.fixed = true) (l : Lx) (s : St) (hg : Good c l) (hB : B c l) :
    B c (step c l s).st := by
  cases s with
  | token => exact bstep_token c l hf hg hB
  | unary => exact bstep_unary c l hg hB
  | binopSp => exact bstep_binopSp c l hg hB
  | binopMain => exact bstep_binopMain c l hf hg hB
  | regexOpSp => exact bstep_regexOpSp c l hf hg hB
  | ident => exact bstep_ident c l hg hB
  | number fd first => exact bstep_number c l hf hg hB fd first
  | reference => exact bstep_reference c l hf hg hB
  | strOuter n => exact bstep_strOuter c l hf hg hB n
  | strInner n t => exact bstep_strInner c l hf hg hB n t
  | regexStart => exact bstep_regexStart c l hg hB
  | regexBody => exact bstep_regexBody c l hf hg hB
  | commentStart => exact bstep_commentStart c l hf hg hB
  | commentBody => exact bstep_commentBody c l hg hB
  | commentNL => exact bstep_commentNL c l hg hB

/-- The run lemma with the boundary invariant. -/
theorem run_bnd (c : Ctx) (hf : c.fixed = true) :
    ∀ (k : Nat) (l : Lx) (s : St), Good c l → StInv c l s → B c l → mu c l s < k →
      ∃ l', runFrom c k l s = .done l'.toks.reverse ∧ Final c l' ∧ B c l' := by
  intro k
  induction k with
  | zero =>
    intro l s hg _ _ hk
    have := rank_nonneg s; have := hg.pl
    simp only [mu] at hk; omega
  | succ k ih =>
    intro l s hg hsi hB hk
    have h := step_ok c hf l s hg hsi
    have hb := bstep_ok c hf l s hg hB
    unfold runFrom
    cases hst : step c l s with
    | cont l' s' =>
      rw [hst] at h hb
      obtain ⟨hg', hsi', hmu⟩ := h
      simp only [hg'.nt]
      exact ih l' s' hg' hsi' hb (by omega)
    | done l' =>
      rw [hst] at h hb
      simp only [h.nt]
      exact ⟨l', rfl, h, hb⟩

end Kap.C05
