/-
C05 — the evaluator model (Kap/Model/C05Eval.lean):
  * never reaches `trap`, for EVERY tree, scope, predefined vars and oracle whose library answers are not
    panics, provided the closure of `evalFunc` defers a `rec` that recovers every panic (`Prot`);
  * on the trees the parser builds (`parserShaped`) it never pops the empty stack: an expression node leaves
    exactly one more value on the stack (the stack-depth invariant), a statement leaves none or one, and the
    program loop pops behind `Len() > 0`.
-/
import Kap.Model.C05Eval
namespace Kap.C05.Ev
open Kap.C05
set_option linter.unusedVariables false
set_option linter.unusedSimpArgs false

/-- What `eval` answered, without the state. -/
inductive Out where
  | ok | err | empty | trap
deriving DecidableEq, Repr, Inhabited

def R.out {α : Type} : R α → Out
  | .ok _ _ => .ok
  | .err => .err
  | .empty => .empty
  | .trap => .trap

theorem R.out_trap {α : Type} {r : R α} : r.out = .trap ↔ r = .trap := by
  cases r <;> simp [R.out]

theorem R.out_empty {α : Type} {r : R α} : r.out = .empty ↔ r = .empty := by
  cases r <;> simp [R.out]

/-! ### Hypotheses on the environment -/

/-- No library call outside the closure of `evalFunc` answers with a panic (decidable). -/
def noLibPanic (E : Env) : Bool := E.lib.all fun a => match a with | .panic _ => false | _ => true

/-- The closure built by `evalFunc` defers `rec`, and `rec` turns every panic into a return. -/
structure Prot (E : Env) : Prop where
  defers : E.defersRec = true
  recovers : ∀ v, ∃ e, runDeferred E.recShape (.panics v) = .returns e
  lib : noLibPanic E = true

/-! ### `≠ trap` -/

theorem bind_nt {α β : Type} {r : R α} {f : α → St → R β} (h : r ≠ .trap) (hf : ∀ a s, f a s ≠ .trap) :
    r.bind f ≠ .trap := by
  cases r with
  | ok a s => exact hf a s
  | err => simp [R.bind]
  | empty => simp [R.bind]
  | trap => exact absurd rfl h

theorem push_nt (v : Val) (s : St) : push v s ≠ .trap := by simp [push]

theorem pop_nt (s : St) : pop s ≠ .trap := by
  unfold pop
  split
  · rename_i h
    have h1 : s.stk.length - 1 < s.stk.length := by omega
    simp only [List.getElem?_eq_getElem h1]
    rw [if_pos (by omega)]
    simp
  · simp

theorem resolveIdent_nt (a : Val) (s : St) : resolveIdent a s ≠ .trap := by
  unfold resolveIdent; split
  · split <;> simp
  · simp

theorem callRefl_nt {E : Env} (h : Prot E) (s : St) : callRefl E s ≠ .trap := by
  unfold callRefl
  split
  · simp
  · simp
  · rename_i v _
    rw [if_pos h.defers]
    obtain ⟨e, he⟩ := h.recovers v
    rw [he]; simp

theorem lib_get {E : Env} (h : Prot E) (i : Nat) (v : PanicVal) : (E.lib[i]?).getD .err ≠ .panic v := by
  cases hg : E.lib[i]? with
  | none => simp
  | some a =>
    have hm : a ∈ E.lib := List.mem_of_getElem? hg
    have := List.all_eq_true.mp h.lib a hm
    intro he
    simp at he
    rw [he] at this
    simp at this

theorem callLib_nt {E : Env} (h : Prot E) (s : St) : callLib E s ≠ .trap := by
  unfold callLib
  split
  · simp
  · simp
  · rename_i v hv
    exact absurd hv (lib_get h _ v)

theorem callU_nt {E : Env} (h : Prot E) (ft : FT) (name : String) (obj : Val) (s : St) :
    callU E ft name obj s ≠ .trap := by
  unfold callU
  split
  · split
    · simp
    · split
      · simp
      · simp
      · exact callRefl_nt h s
  · exact callRefl_nt h s

theorem copyLoop_some (n : Nat) : ∀ k i, i + k ≤ n → copyLoop n n k i = some () := by
  intro k
  induction k with
  | zero => intro i _; rfl
  | succ k ih =>
    intro i hi
    unfold copyLoop
    rw [if_pos ⟨by omega, by omega⟩]
    exact ih (i + 1) (by omega)

theorem convertVarToValue_some (p : PVar) (actual : VT) (d : Val) : convertVarToValue p actual d ≠ none := by
  unfold convertVarToValue
  split
  · split
    · simp
    · rename_i a n _
      rw [copyLoop_some n n 0 (by omega)]; simp
  · simp

theorem convertValueToVar_some (v : Val) : convertValueToVar v ≠ none := by
  unfold convertValueToVar
  split
  · rename_i n
    rw [copyLoop_some n n 0 (by omega)]; simp
  · simp

theorem fromPre_nt (p : PVar) (actual : VT) (d : Val) (s : St) : fromPre p actual d s ≠ .trap := by
  unfold fromPre
  split
  · simp
  · split
    · rename_i h; exact absurd h (convertVarToValue_some p actual d)
    · simp
    · simp

theorem evalTypeDecl_nt (E : Env) (name ty : String) (s : St) : evalTypeDecl E name ty s ≠ .trap := by
  unfold evalTypeDecl
  split
  · simp
  · split
    · exact bind_nt (fromPre_nt _ _ _ _) (fun _ _ => by simp)
    · split <;> simp

theorem evalDeclGo_nt (E : Env) (name : String) (s : St) : evalDecl.evalDeclGo E name s ≠ .trap := by
  unfold evalDecl.evalDeclGo
  refine bind_nt (pop_nt s) fun value s => ?_
  refine bind_nt (resolveIdent_nt _ _) fun value s => ?_
  simp only
  split
  · rename_i h
    split at h
    · exact absurd h (convertValueToVar_some _)
    · simp at h
  · split
    · exact bind_nt (fromPre_nt _ _ _ _) (fun _ _ => by simp)
    · simp

theorem evalDecl_nt (E : Env) (name : String) (s : St) : evalDecl E name s ≠ .trap := by
  unfold evalDecl
  split
  · split
    · simp
    · exact evalDeclGo_nt E name s
  · exact evalDeclGo_nt E name s

theorem evalUnary_nt (op : Nat) (s : St) : evalUnary op s ≠ .trap := by
  unfold evalUnary
  refine bind_nt (pop_nt s) fun v s => ?_
  split
  · refine bind_nt (resolveIdent_nt _ _) fun v s => ?_
    split <;> simp [push]
  · split
    · refine bind_nt (resolveIdent_nt _ _) fun v s => ?_
      split <;> simp [push]
    · simp

theorem evalChain_nt {E : Env} (h : Prot E) (s : St) : evalChain E s ≠ .trap := by
  unfold evalChain
  refine bind_nt (pop_nt s) fun r s => ?_
  refine bind_nt (pop_nt s) fun l s => ?_
  refine bind_nt (resolveIdent_nt _ _) fun l s => ?_
  split
  · exact bind_nt (callU_nt h _ _ _ _) (fun _ _ => push_nt _ _)
  · refine bind_nt (callLib_nt h _) fun v s => ?_
    split <;> simp [push]
  · simp

theorem evalFunc_nt (ft : FT) (name : String) (args : List Val) (s : St) : evalFunc ft name args s ≠ .trap := by
  unfold evalFunc
  split
  · rename_i h
    cases args with
    | nil => simp at h
    | cons a t => simp [push]
  · exact push_nt _ _

theorem resolveElem_nt {E : Env} (h : Prot E) (isArgs : Bool) (a : Val) (s : St) :
    resolveElem E isArgs a s ≠ .trap := by
  unfold resolveElem
  split
  · split <;> simp
  · split
    · exact callU_nt h _ _ _ _
    · simp
  · simp

mutual
theorem resolveIdents_nt (s : St) : ∀ a : Ast, resolveIdents s a ≠ .trap
  | .ident name => by
    unfold resolveIdents
    split
    · simp
    · split <;> simp
  | .unary _ x => by unfold resolveIdents; exact resolveIdents_nt s x
  | .binary l r => by
    unfold resolveIdents
    have h1 := resolveIdents_nt s l
    have h2 := resolveIdents_nt s r
    cases hl : resolveIdents s l <;> simp [RI.andThen, hl] at h1 ⊢
    exact h2
  | .func _ _ args => by unfold resolveIdents; exact resolveIdentsL_nt s args.length 0 args (by omega)
  | .program xs => by unfold resolveIdents; exact resolveIdentsL_nt s xs.length 0 xs (by omega)
  | .lit _ => by simp [resolveIdents]
  | .lambda _ => by simp [resolveIdents]
  | .list _ => by simp [resolveIdents]
  | .typeDecl _ _ => by simp [resolveIdents]
  | .decl _ _ => by simp [resolveIdents]
  | .chain _ _ => by simp [resolveIdents]
  | .other => by simp [resolveIdents]
theorem resolveIdentsL_nt (s : St) (n : Nat) : ∀ (i : Nat) (xs : AstL), i + xs.length ≤ n → resolveIdentsL s n i xs ≠ .trap
  | _, .nil, _ => by simp [resolveIdentsL]
  | i, .cons x xs, h => by
    unfold resolveIdentsL
    have h1 := resolveIdents_nt s x
    simp only [AstL.length] at h
    split
    · rw [if_pos (by omega)]
      exact resolveIdentsL_nt s n (i + 1) xs (by omega)
    · rename_i r hr
      exact h1
end

mutual
theorem eval_nt {E : Env} (h : Prot E) : ∀ (a : Ast) (s : St), eval E a s ≠ .trap
  | .lit t, s => by simp [eval, push]
  | .unary op x, s => by
    unfold eval; exact bind_nt (eval_nt h x s) (fun _ s => evalUnary_nt op s)
  | .binary l r, s => by
    unfold eval
    have h1 := resolveIdents_nt s (.binary l r)
    split
    · simp
    · rename_i ht; exact absurd ht h1
    · refine bind_nt (callLib_nt h _) fun _ s => ?_
      exact bind_nt (callLib_nt h _) (fun _ _ => push_nt _ _)
  | .lambda x, s => by
    unfold eval
    have h1 := resolveIdents_nt s x
    split
    · simp
    · rename_i ht; exact absurd ht h1
    · exact push_nt _ _
  | .list xs, s => by
    unfold eval
    exact bind_nt (evalElems_nt h false 0 xs _ s (by simp)) (fun _ _ => push_nt _ _)
  | .typeDecl name ty, s => by unfold eval; exact evalTypeDecl_nt E name ty s
  | .decl name right, s => by
    unfold eval; exact bind_nt (eval_nt h right s) (fun _ s => evalDecl_nt E name s)
  | .chain l r, s => by
    unfold eval
    refine bind_nt (eval_nt h l s) fun _ s => ?_
    exact bind_nt (eval_nt h r s) (fun _ s => evalChain_nt h s)
  | .func ft name args, s => by
    unfold eval
    exact bind_nt (evalElems_nt h true 0 args _ s (by simp)) (fun _ _ => evalFunc_nt _ _ _ _)
  | .program xs, s => by unfold eval; exact evalProg_nt h xs s
  | .ident name, s => by simp [eval, push]
  | .other, s => by simp [eval, push]
theorem evalElems_nt {E : Env} (h : Prot E) (isArgs : Bool) :
    ∀ (i : Nat) (xs : AstL) (acc : List Val) (s : St), i + xs.length ≤ acc.length → evalElems E isArgs i xs acc s ≠ .trap
  | _, .nil, acc, s, _ => by simp [evalElems]
  | i, .cons x xs, acc, s, hi => by
    unfold evalElems
    simp only [AstL.length] at hi
    refine bind_nt (eval_nt h x s) fun _ s => ?_
    refine bind_nt (pop_nt s) fun a s => ?_
    refine bind_nt (resolveElem_nt h _ _ _) fun a s => ?_
    rw [if_pos (by omega)]
    exact evalElems_nt h isArgs (i + 1) xs _ s (by simp; omega)
theorem evalProg_nt {E : Env} (h : Prot E) : ∀ (xs : AstL) (s : St), evalProg E xs s ≠ .trap
  | .nil, s => by simp [evalProg]
  | .cons x xs, s => by
    unfold evalProg
    refine bind_nt (eval_nt h x s) fun _ s => ?_
    split
    · refine bind_nt (pop_nt s) fun ret s => ?_
      split
      · exact bind_nt (callU_nt h _ _ _ _) (fun _ s => evalProg_nt h xs s)
      · exact evalProg_nt h xs s
    · exact evalProg_nt h xs s
end

/-! ### The stack-depth invariant -/

/-- The outcome is not `empty`, and an `ok` outcome leaves the stack `d` deep. -/
def Dp {α : Type} (d : Nat) : R α → Prop
  | .ok _ s => s.stk.length = d
  | .empty => False
  | _ => True

theorem Dp.bind {α β : Type} {d d' : Nat} {r : R α} {f : α → St → R β} (h : Dp d r)
    (hf : ∀ a s, s.stk.length = d → Dp d' (f a s)) : Dp d' (r.bind f) := by
  cases r with
  | ok a s => exact hf a s h
  | err => trivial
  | empty => exact h
  | trap => trivial

theorem Dp.ne {α : Type} {d : Nat} {r : R α} (h : Dp d r) : r ≠ .empty := by
  intro he; rw [he] at h; exact h

theorem push_dp (v : Val) (s : St) : Dp (s.stk.length + 1) (push v s) := by simp [push, Dp]

theorem push_dp' (v : Val) (s : St) (d : Nat) (h : s.stk.length = d) : Dp (d + 1) (push v s) := h ▸ push_dp v s

theorem pop_dp (s : St) (d : Nat) (h : s.stk.length = d + 1) : Dp d (pop s) := by
  unfold pop
  rw [if_pos (by omega)]
  have h1 : s.stk.length - 1 < s.stk.length := by omega
  simp only [List.getElem?_eq_getElem h1]
  rw [if_pos (by omega)]
  simp [Dp]; omega

theorem resolveIdent_dp (a : Val) (s : St) : Dp s.stk.length (resolveIdent a s) := by
  unfold resolveIdent; split
  · split <;> simp [Dp]
  · simp [Dp]

theorem callRefl_dp (E : Env) (s : St) : Dp s.stk.length (callRefl E s) := by
  unfold callRefl
  split
  · simp [Dp]
  · simp [Dp]
  · split
    · split <;> simp [Dp]
    · simp [Dp]

theorem callLib_dp (E : Env) (s : St) : Dp s.stk.length (callLib E s) := by
  unfold callLib
  split <;> simp [Dp]

theorem callU_dp (E : Env) (ft : FT) (name : String) (obj : Val) (s : St) : Dp s.stk.length (callU E ft name obj s) := by
  unfold callU
  split
  · split
    · simp [Dp]
    · split
      · simp [Dp]
      · simp [Dp]
      · exact callRefl_dp E s
  · exact callRefl_dp E s

theorem fromPre_dp (p : PVar) (actual : VT) (dv : Val) (s : St) : Dp s.stk.length (fromPre p actual dv s) := by
  unfold fromPre
  split
  · simp [Dp]
  · split <;> simp [Dp]

theorem scopeSet_len (name : String) (v : Val) (s : St) : (scopeSet name v s).stk.length = s.stk.length := rfl

theorem evalTypeDecl_dp (E : Env) (name ty : String) (s : St) : Dp s.stk.length (evalTypeDecl E name ty s) := by
  unfold evalTypeDecl
  split
  · simp [Dp]
  · split
    · exact Dp.bind (fromPre_dp _ _ _ _) (fun _ s hs => by simp [Dp, scopeSet_len, hs])
    · split <;> simp [Dp, scopeSet_len]

theorem evalDeclGo_dp (E : Env) (name : String) (s : St) (d : Nat) (h : s.stk.length = d + 1) :
    Dp d (evalDecl.evalDeclGo E name s) := by
  unfold evalDecl.evalDeclGo
  refine Dp.bind (pop_dp s d h) fun value s hs => ?_
  refine Dp.bind (hs ▸ resolveIdent_dp _ _) fun value s hs => ?_
  simp only
  split
  · trivial
  · split
    · exact Dp.bind (hs ▸ fromPre_dp _ _ _ _) (fun _ s hs => by simp [Dp, scopeSet_len, hs])
    · simp [Dp, scopeSet_len, hs]

theorem evalDecl_dp (E : Env) (name : String) (s : St) (d : Nat) (h : s.stk.length = d + 1) :
    Dp d (evalDecl E name s) := by
  unfold evalDecl
  split
  · split
    · trivial
    · exact evalDeclGo_dp E name s d h
  · exact evalDeclGo_dp E name s d h

theorem evalUnary_dp (op : Nat) (hop : op = tMinus ∨ op = tNot) (s : St) (d : Nat) (h : s.stk.length = d + 1) :
    Dp (d + 1) (evalUnary op s) := by
  unfold evalUnary
  refine Dp.bind (pop_dp s d h) fun v s hs => ?_
  split
  · refine Dp.bind (hs ▸ resolveIdent_dp _ _) fun v s hs => ?_
    split <;> simp [push, Dp, hs]
  · split
    · refine Dp.bind (hs ▸ resolveIdent_dp _ _) fun v s hs => ?_
      split <;> simp [push, Dp, hs]
    · rename_i h1 h2; rcases hop with h | h <;> contradiction

theorem evalChain_dp (E : Env) (s : St) (d : Nat) (h : s.stk.length = d + 2) : Dp (d + 1) (evalChain E s) := by
  unfold evalChain
  refine Dp.bind (pop_dp s (d + 1) h) fun r s hs => ?_
  refine Dp.bind (pop_dp s d hs) fun l s hs => ?_
  refine Dp.bind (hs ▸ resolveIdent_dp _ _) fun l s hs => ?_
  split
  · exact Dp.bind (hs ▸ callU_dp _ _ _ _ _) (fun _ s hs => push_dp' _ s _ hs)
  · refine Dp.bind (hs ▸ callLib_dp _ _) fun v s hs => ?_
    split
    · trivial
    · exact push_dp' _ s _ hs
  · trivial

theorem evalFunc_dp (ft : FT) (name : String) (args : List Val) (s : St) : Dp (s.stk.length + 1) (evalFunc ft name args s) := by
  unfold evalFunc
  split
  · split
    · trivial
    · exact push_dp _ _
  · exact push_dp _ _

theorem resolveElem_dp (E : Env) (isArgs : Bool) (a : Val) (s : St) : Dp s.stk.length (resolveElem E isArgs a s) := by
  unfold resolveElem
  split
  · split <;> simp [Dp]
  · split
    · exact callU_dp _ _ _ _ _
    · simp [Dp]
  · simp [Dp]

mutual
/-- **An expression node pushes exactly one value** (and never pops the empty stack). -/
theorem eval_expr_dp (E : Env) : ∀ (a : Ast) (s : St), isExpr a = true → Dp (s.stk.length + 1) (eval E a s)
  | .lit t, s, _ => by simp [eval, push, Dp]
  | .unary op x, s, h => by
    unfold eval
    simp only [isExpr, Bool.and_eq_true, Bool.or_eq_true, beq_iff_eq] at h
    exact Dp.bind (eval_expr_dp E x s h.2) (fun _ s hs => evalUnary_dp op h.1 s _ hs)
  | .binary l r, s, _ => by
    unfold eval
    split
    · trivial
    · trivial
    · refine Dp.bind (callLib_dp E s) fun _ s hs => ?_
      exact Dp.bind (hs ▸ callLib_dp E s) (fun _ s hs => push_dp' _ s _ hs)
  | .lambda x, s, _ => by
    unfold eval
    split
    · trivial
    · trivial
    · exact push_dp _ _
  | .list xs, s, h => by
    unfold eval
    simp only [isExpr] at h
    exact Dp.bind (evalElems_dp E false 0 xs _ s h) (fun _ s hs => push_dp' _ s _ hs)
  | .chain l r, s, h => by
    unfold eval
    simp only [isExpr, Bool.and_eq_true] at h
    refine Dp.bind (eval_expr_dp E l s h.1) fun _ s1 hs1 => ?_
    refine Dp.bind (eval_expr_dp E r s1 h.2) fun _ s2 hs2 => ?_
    exact evalChain_dp E s2 _ (by omega)
  | .func ft name args, s, h => by
    unfold eval
    simp only [isExpr] at h
    exact Dp.bind (evalElems_dp E true 0 args _ s h) (fun _ s hs => hs ▸ evalFunc_dp _ _ _ _)
  | .ident name, s, _ => by simp [eval, push, Dp]
  | .other, s, _ => by simp [eval, push, Dp]
  | .typeDecl _ _, _, h => by simp [isExpr] at h
  | .decl _ _, _, h => by simp [isExpr] at h
  | .program _, _, h => by simp [isExpr] at h
/-- The argument / list loops leave the stack as deep as they found it. -/
theorem evalElems_dp (E : Env) (isArgs : Bool) :
    ∀ (i : Nat) (xs : AstL) (acc : List Val) (s : St), allExpr xs = true → Dp s.stk.length (evalElems E isArgs i xs acc s)
  | _, .nil, acc, s, _ => by simp [evalElems, Dp]
  | i, .cons x xs, acc, s, h => by
    unfold evalElems
    simp only [allExpr, Bool.and_eq_true] at h
    refine Dp.bind (eval_expr_dp E x s h.1) fun _ s1 hs1 => ?_
    refine Dp.bind (pop_dp s1 _ hs1) fun a s2 hs2 => ?_
    refine Dp.bind (hs2 ▸ resolveElem_dp E isArgs a s2) fun a s3 hs3 => ?_
    split
    · exact hs3 ▸ evalElems_dp E isArgs (i + 1) xs _ s3 h.2
    · trivial
end

/-- A statement never pops the empty stack (it leaves the stack as it was, or one deeper). -/
theorem eval_stmt_ne (E : Env) (a : Ast) (s : St) (h : isStmt a = true) : eval E a s ≠ .empty := by
  cases a with
  | typeDecl name ty => unfold eval; exact (evalTypeDecl_dp E name ty s).ne
  | decl name right =>
    unfold eval
    simp only [isStmt] at h
    exact (Dp.bind (eval_expr_dp E right s h) (fun _ s1 hs1 => evalDecl_dp E name s1 _ hs1)).ne
  | lit t => exact (eval_expr_dp E _ s h).ne
  | unary op x => exact (eval_expr_dp E _ s h).ne
  | binary l r => exact (eval_expr_dp E _ s h).ne
  | lambda x => exact (eval_expr_dp E _ s h).ne
  | list xs => exact (eval_expr_dp E _ s h).ne
  | chain l r => exact (eval_expr_dp E _ s h).ne
  | func ft name args => exact (eval_expr_dp E _ s h).ne
  | program xs => simp [isStmt, isExpr] at h
  | ident name => exact (eval_expr_dp E _ s h).ne
  | other => exact (eval_expr_dp E _ s h).ne

theorem bind_ne {α β : Type} {r : R α} {f : α → St → R β} (h : r ≠ .empty) (hf : ∀ a s, f a s ≠ .empty) :
    r.bind f ≠ .empty := by
  cases r with
  | ok a s => exact hf a s
  | err => simp [R.bind]
  | empty => exact absurd rfl h
  | trap => simp [R.bind]

/-- The program loop never pops the empty stack: its own `Pop` is behind `Len() > 0`. -/
theorem evalProg_ne (E : Env) : ∀ (xs : AstL) (s : St), allStmt xs = true → evalProg E xs s ≠ .empty
  | .nil, s, _ => by simp [evalProg]
  | .cons x xs, s, h => by
    unfold evalProg
    simp only [allStmt, Bool.and_eq_true] at h
    refine bind_ne (eval_stmt_ne E x s h.1) fun _ s1 => ?_
    split
    · rename_i hl
      obtain ⟨d, hd⟩ : ∃ d, s1.stk.length = d + 1 := ⟨s1.stk.length - 1, by omega⟩
      refine bind_ne (pop_dp s1 d hd).ne fun ret s2 => ?_
      split
      · exact bind_ne (callU_dp _ _ _ _ _).ne (fun _ s3 => evalProg_ne E xs s3 h.2)
      · exact evalProg_ne E xs s2 h.2
    · exact evalProg_ne E xs s1 h.2

theorem evalTop_ne (E : Env) (root : Ast) (scope : List (String × Val)) (h : parserShaped root = true) :
    evalTop E root scope ≠ .empty := by
  cases root with
  | program xs => unfold evalTop eval; exact evalProg_ne E xs _ h
  | _ => simp [parserShaped] at h

end Kap.C05.Ev
