/-
C05 — the JSON decoder model establishes the well-formedness that evaluation needs.
-/
import Kap.Model.C05
namespace Kap.C05

theorem decodeList_wf (dec : JV → Option ENode) (hd : ∀ j n, dec j = some n → n.wf = true) :
    ∀ (f : Nat) (j : JV) (n : ENode), decodeList dec f j = some n → n.wf = true := by
  intro f
  induction f with
  | zero =>
    intro j n h
    cases j <;> simp [decodeList] at h <;> subst h <;> rfl
  | succ f ih =>
    intro j n h
    cases j with
    | null => simp [decodeList] at h; subst h; rfl
    | anil => simp [decodeList] at h; subst h; rfl
    | acons hd' tl =>
      simp only [decodeList] at h
      split at h
      · rename_i h' t' hh ht
        simp only [Option.some.injEq] at h
        subst h
        simp [ENode.wf, hd _ _ hh, ih _ _ ht]
      · cases h
    | _ => simp [decodeList] at h

theorem decField_wf (dec : JV → Option ENode) (hd : ∀ j n, dec j = some n → n.wf = true)
    (j : JV) (f : String) (n : ENode) (h : decField dec j f = some n) : n.wf = true := by
  unfold decField at h
  split at h
  · exact hd _ _ h
  · cases h

theorem decListField_wf (dec : JV → Option ENode) (hd : ∀ j n, dec j = some n → n.wf = true)
    (k : Nat) (j : JV) (f : String) (n : ENode) (h : decListField dec k j f = some n) : n.wf = true := by
  unfold decListField at h
  split at h
  · exact decodeList_wf dec hd _ _ _ h
  · cases h

theorem decodeJ_wf : ∀ (k : Nat) (j : JV) (n : ENode), decodeJ false false k j = some n → n.wf = true := by
  intro k
  induction k with
  | zero => intro j n h; simp [decodeJ] at h
  | succ k ih =>
    intro j n h
    have hd : ∀ j n, (fun x => decodeJ false false k x) j = some n → n.wf = true := fun j n h => ih j n h
    unfold decodeJ at h
    cases j with
    | null => simp at h
    | ocons key v rest =>
      simp only at h
      split at h
      · split at h
        · split at h
          · simp only [Option.some.injEq] at h; subst h; rfl
          · simp at h
          · cases h
        · split at h
          · split at h
            · rename_i x hx
              simp only [Option.some.injEq] at h; subst h
              simpa [ENode.wf] using decField_wf _ hd _ _ _ hx
            · cases h
          · split at h
            · split at h
              · rename_i op l r _ hlft hrgt
                simp only [Option.some.injEq] at h; subst h
                simp [ENode.wf, decField_wf _ hd _ _ _ hlft, decField_wf _ hd _ _ _ hrgt]
              · cases h
            · split at h
              · split at h
                · rename_i a ha
                  simp only [Option.some.injEq] at h; subst h
                  simpa [ENode.wf] using decListField_wf _ hd _ _ _ _ ha
                · cases h
              · split at h
                · split at h
                  · rename_i a ha
                    simp only [Option.some.injEq] at h; subst h
                    simpa [ENode.wf] using decListField_wf _ hd _ _ _ _ ha
                  · cases h
                · split at h
                  · split at h
                    · rename_i e he
                      simp only [Option.some.injEq] at h; subst h
                      simpa [ENode.wf] using decField_wf _ hd _ _ _ he
                    · cases h
                  · split at h
                    · simp only [Option.some.injEq] at h; subst h; rfl
                    · cases h
      · cases h
    | _ => simp [getField] at h

theorem wf_no_trap : ∀ n : ENode, n.wf = true → n.evalTraps = false := by
  intro n
  induction n with
  | nilNode => intro h; simp [ENode.wf] at h
  | leaf _ => intro _; rfl
  | regex _ => intro _; rfl
  | unary n ih => intro h; simp only [ENode.wf] at h; simp [ENode.evalTraps, ih h]
  | binary op l r ihl ihr =>
    intro h
    simp only [ENode.wf, Bool.and_eq_true] at h
    simp only [ENode.evalTraps, ihl h.1, ihr h.2, Bool.false_or]
    cases r with
    | regex re =>
      cases re with
      | none => simp [ENode.wf] at h
      | some s => simp
    | _ => simp
  | func a ih => intro h; simp only [ENode.wf] at h; simp [ENode.evalTraps, ih h]
  | list a ih => intro h; simp only [ENode.wf] at h; simp [ENode.evalTraps, ih h]
  | lambda e ih => intro h; simp only [ENode.wf] at h; simp [ENode.evalTraps, ih h]
  | anil => intro _; rfl
  | acons hd tl ih1 ih2 =>
    intro h
    simp only [ENode.wf, Bool.and_eq_true] at h
    simp [ENode.evalTraps, ih1 h.1, ih2 h.2]

end Kap.C05
