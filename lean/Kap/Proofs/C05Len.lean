/-
C05 — the delimited tokens are long enough: every string, regex and reference token the scanner emits has
at least two bytes of text (its opening and its closing delimiter). A sixth pass over the state functions.
Consequence: `txt[1 : len(txt)-1]` in `newString` / `newRegex` / `newReference` never slices out of range.
-/
import Kap.Proofs.C05Typ
namespace Kap.C05
set_option linter.unusedVariables false
set_option linter.unusedSimpArgs false

/-- Token types whose text the node constructors strip of delimiters. -/
def isLenTy (t : Nat) : Bool := t == tString || t == tRegex || t == tReference

def W (toks : List Tok) : Prop := ∀ t ∈ toks, isLenTy t.typ = true → 2 ≤ tlen t

/-- States entered after the opening delimiter has been consumed. -/
def LenSt : St → Bool
  | .reference => true
  | .strInner _ _ => true
  | .regexBody => true
  | _ => false

def LI (l : Lx) (s : St) : Prop := LenSt s = true → l.start + 1 ≤ l.pos

def StepW : Step → Prop
  | .cont l' s' => W l'.toks ∧ LI l' s'
  | .done l' => W l'.toks

theorem W_of_eq {a b : List Tok} (h : W b) (e : a = b) : W a := e ▸ h

theorem emit_W {c : Ctx} {l : Lx} (h : W l.toks) (t : Nat) (ht : isLenTy t = true → l.start + 2 ≤ l.pos) :
    W (emit c l t).toks := by
  unfold emit; split
  · intro u hu
    rcases List.mem_cons.mp hu with rfl | hu
    · intro hty
      have := ht hty
      simp only [tlen, Option.getD_some]; omega
    · exact h u hu
  · exact h

theorem errorf_W {l : Lx} (h : W l.toks) : W (errorf l).toks := by
  intro u hu
  rcases List.mem_cons.mp hu with rfl | hu
  · intro hty
    have h2 : isLenTy tError = true := hty
    exact absurd h2 (by decide)
  · exact h u hu

theorem opOf_notLen (s : Bytes) : isLenTy (opOf s) = false := by
  unfold opOf; split <;> decide

theorem keywordOf_notLen (s : Bytes) : isLenTy (keywordOf s) = false := by
  unfold keywordOf; split <;> decide

macro "wty" : tactic => `(tactic| first
  | (intro h; exact absurd h (by decide))
  | (intro h; rw [opOf_notLen] at h; exact absurd h (by decide))
  | (intro h; rw [keywordOf_notLen] at h; exact absurd h (by decide))
  | (intro _; (try simp only [ignore, backup]); omega))

macro "wli" : tactic => `(tactic| first
  | (intro h; exact absurd h (by decide))
  | (intro _; (try simp only [ignore, backup]); omega))

set_option hygiene false in
macro "wbranch" : tactic => `(tactic| (
  simp only [StepW, emitTo, LI]
  simp only [Bool.or_eq_true, Bool.and_eq_true, beq_iff_eq, bne_iff_ne, Bool.not_eq_true', ne_eq, not_or, not_and, eof] at *
  first
  | (refine ⟨W_of_eq hQ ?_, ?_⟩ <;> first | tk2 | wli)
  | (refine ⟨emit_W (W_of_eq hQ ?_) _ ?_, ?_⟩ <;> first | tk2 | wty | wli)
  | (refine errorf_W (W_of_eq hQ ?_) ; tk2)
  | (refine emit_W (W_of_eq hQ ?_) _ ?_ <;> first | tk2 | wty)))

theorem wstep_token (c : Ctx) (l : Lx) (hf : c.fixed = true) (hg : Good c l) (hQ : W l.toks) (hLI : LI l .token) :
    StepW (step c l .token) := by
  have := hg.s0; have := hg.sp; have := hg.pl
  obtain ⟨hs1, ht1, hr1, hp1, hw1, hl1, he1, ha1, hg1⟩ := next_ok c l (by omega) (by omega)
  have hpk := peek_snd c (next c l).2 hf (by omega)
  simp only [step, hpk, peek_fst]
  repeat' ite_cases
  all_goals wbranch

theorem wstep_unary (c : Ctx) (l : Lx) (hg : Good c l) (hQ : W l.toks) (hLI : LI l .unary) :
    StepW (step c l .unary) := by
  have := hg.s0; have := hg.sp; have := hg.pl
  obtain ⟨hs1, ht1, hr1, hp1, hw1, hl1, he1, ha1, hg1⟩ := next_ok c l (by omega) (by omega)
  simp only [step]
  repeat' ite_cases
  all_goals wbranch

theorem wstep_binopSp (c : Ctx) (l : Lx) (hg : Good c l) (hQ : W l.toks) (hLI : LI l .binopSp) :
    StepW (step c l .binopSp) := by
  have := hg.s0; have := hg.sp; have := hg.pl
  obtain ⟨hs1, ht1, hr1, hp1, hw1, hl1, he1, ha1, hg1⟩ := next_ok c l (by omega) (by omega)
  simp only [step]
  generalize (next c l).1 = r at *
  generalize (next c l).2 = l1 at *
  repeat' ite_cases
  all_goals wbranch

theorem wstep_binopMain (c : Ctx) (l : Lx) (hf : c.fixed = true) (hg : Good c l) (hQ : W l.toks) (hLI : LI l .binopMain) :
    StepW (step c l .binopMain) := by
  have := hg.s0; have := hg.sp; have := hg.pl
  obtain ⟨hs1, ht1, hr1, hp1, hw1, hl1, he1, ha1, hg1⟩ := next_ok c l (by omega) (by omega)
  obtain ⟨hs2, ht2, hr2, hp2, hw2, hl2, he2, ha2, hg2⟩ := next_ok c (next c l).2 (by omega) (by omega)
  have hpk := peek_snd c (next c l).2 hf (by omega)
  simp only [step, hpk, peek_fst]
  repeat' ite_cases
  all_goals wbranch

theorem wstep_regexOpSp (c : Ctx) (l : Lx) (hf : c.fixed = true) (hg : Good c l) (hQ : W l.toks) (hLI : LI l .regexOpSp) :
    StepW (step c l .regexOpSp) := by
  have := hg.s0; have := hg.sp; have := hg.pl
  obtain ⟨hs1, ht1, hr1, hp1, hw1, hl1, he1, ha1, hg1⟩ := next_ok c l (by omega) (by omega)
  have hpk := peek_snd c (backup (next c l).2) hf (by simp only [backup]; omega)
  simp only [step, hpk, peek_fst]
  repeat' ite_cases
  all_goals wbranch

theorem wstep_ident (c : Ctx) (l : Lx) (hg : Good c l) (hQ : W l.toks) (hLI : LI l .ident) :
    StepW (step c l .ident) := by
  have := hg.s0; have := hg.sp; have := hg.pl
  obtain ⟨hs1, ht1, hr1, hp1, hw1, hl1, he1, ha1, hg1⟩ := next_ok c l (by omega) (by omega)
  obtain ⟨hs2, ht2, hr2, hp2, hw2, hl2, he2, ha2, hg2⟩ :=
    next_ok c (backup (next c l).2) (by simp only [backup]; omega) (by simp only [backup]; omega)
  have hgb : Good c (backup (next c l).2) := by
    refine good_move hg ?_ ?_ ?_ ?_ ?_ <;> fin
  have hchk := chk_good hgb
  simp only [step, hchk]
  have e2 : (next c (backup (next c l).2)).2.toks = l.toks := by rw [ht2]; exact ht1
  repeat' ite_cases
  all_goals (try wbranch)
  all_goals (
    simp only [StepW, emitTo, LI]
    refine ⟨emit_W (W_of_eq hQ ?_) _ ?_, ?_⟩
    · first | exact e2 | exact ht1
    · wty
    · wli)

theorem wstep_reference (c : Ctx) (l : Lx) (hf : c.fixed = true) (hg : Good c l) (hQ : W l.toks) (hLI : LI l .reference) :
    StepW (step c l .reference) := by
  have hli : l.start + 1 ≤ l.pos := hLI rfl
  have := hg.s0; have := hg.sp; have := hg.pl
  obtain ⟨hs1, ht1, hr1, hp1, hw1, hl1, he1, ha1, hg1⟩ := next_ok c l (by omega) (by omega)
  obtain ⟨hs2, ht2, hr2, hp2, hw2, hl2, he2, ha2, hg2⟩ := next_ok c (next c l).2 (by omega) (by omega)
  have hpk := peek_snd c (next c l).2 hf (by omega)
  simp only [step, hpk, peek_fst]
  repeat' ite_cases
  all_goals wbranch

theorem wstep_regexStart (c : Ctx) (l : Lx) (hg : Good c l) (hQ : W l.toks) (hLI : LI l .regexStart) :
    StepW (step c l .regexStart) := by
  have := hg.s0; have := hg.sp; have := hg.pl
  obtain ⟨hs1, ht1, hr1, hp1, hw1, hl1, he1, ha1, hg1⟩ := next_ok c l (by omega) (by omega)
  simp only [step]
  repeat' ite_cases
  all_goals wbranch

theorem wstep_regexBody (c : Ctx) (l : Lx) (hf : c.fixed = true) (hg : Good c l) (hQ : W l.toks) (hLI : LI l .regexBody) :
    StepW (step c l .regexBody) := by
  have hli : l.start + 1 ≤ l.pos := hLI rfl
  have := hg.s0; have := hg.sp; have := hg.pl
  obtain ⟨hs1, ht1, hr1, hp1, hw1, hl1, he1, ha1, hg1⟩ := next_ok c l (by omega) (by omega)
  obtain ⟨hs2, ht2, hr2, hp2, hw2, hl2, he2, ha2, hg2⟩ := next_ok c (next c l).2 (by omega) (by omega)
  have hpk := peek_snd c (next c l).2 hf (by omega)
  simp only [step, hpk, peek_fst]
  repeat' ite_cases
  all_goals wbranch

theorem wstep_commentStart (c : Ctx) (l : Lx) (hf : c.fixed = true) (hg : Good c l) (hQ : W l.toks) (hLI : LI l .commentStart) :
    StepW (step c l .commentStart) := by
  have := hg.s0; have := hg.sp; have := hg.pl
  obtain ⟨hs1, ht1, hr1, hp1, hw1, hl1, he1, ha1, hg1⟩ := next_ok c l (by omega) (by omega)
  have hpk := peek_snd c l hf (by omega)
  simp only [step, hpk, peek_fst]
  repeat' ite_cases
  all_goals wbranch

theorem wstep_commentBody (c : Ctx) (l : Lx) (hg : Good c l) (hQ : W l.toks) (hLI : LI l .commentBody) :
    StepW (step c l .commentBody) := by
  have := hg.s0; have := hg.sp; have := hg.pl
  obtain ⟨hs1, ht1, hr1, hp1, hw1, hl1, he1, ha1, hg1⟩ := next_ok c l (by omega) (by omega)
  simp only [step]
  repeat' ite_cases
  all_goals wbranch

theorem wstep_commentNL (c : Ctx) (l : Lx) (hg : Good c l) (hQ : W l.toks) (hLI : LI l .commentNL) :
    StepW (step c l .commentNL) := by
  have := hg.s0; have := hg.sp; have := hg.pl
  obtain ⟨hs1, ht1, hr1, hp1, hw1, hl1, he1, ha1, hg1⟩ := next_ok c l (by omega) (by omega)
  simp only [step]
  repeat' ite_cases
  all_goals wbranch

theorem wstep_number (c : Ctx) (l : Lx) (hf : c.fixed = true) (hg : Good c l) (hQ : W l.toks) (fd first : Bool) (hLI : LI l (.number fd first)) :
    StepW (step c l (.number fd first)) := by
  have := hg.s0; have := hg.sp; have := hg.pl
  obtain ⟨hs1, ht1, hr1, hp1, hw1, hl1, he1, ha1, hg1⟩ := next_ok c l (by omega) (by omega)
  obtain ⟨hs2, ht2, hr2, hp2, hw2, hl2, he2, ha2, hg2⟩ := next_ok c (next c l).2 (by omega) (by omega)
  have hpk := peek_snd c (next c l).2 hf (by omega)
  cases first <;> cases fd <;> simp only [step, apply_ite Prod.fst, apply_ite Prod.snd, hpk, peek_fst, ite_self,
    Bool.false_eq_true, if_false, if_true, Bool.false_and, Bool.true_and, Bool.not_false, Bool.not_true]
  all_goals repeat' ite_cases
  all_goals wbranch

theorem wstep_strOuter (c : Ctx) (l : Lx) (hf : c.fixed = true) (hg : Good c l) (hQ : W l.toks) (count : Nat) (hLI : LI l (.strOuter count)) :
    StepW (step c l (.strOuter count)) := by
  have := hg.s0; have := hg.sp; have := hg.pl
  obtain ⟨hs1, ht1, hr1, hp1, hw1, hl1, he1, ha1, hg1⟩ := next_ok c l (by omega) (by omega)
  obtain ⟨hs2, ht2, hr2, hp2, hw2, hl2, he2, ha2, hg2⟩ := next_ok c (next c l).2 (by omega) (by omega)
  obtain ⟨hs3, ht3, hr3, hp3, hw3, hl3, he3, ha3, hg3⟩ := next_ok c (next c (next c l).2).2 (by omega) (by omega)
  have hpk1 := peek_snd c (next c l).2 hf (by omega)
  have hpk2 := peek_snd c (next c (next c l).2).2 hf (by omega)
  simp only [step, apply_ite Prod.fst, apply_ite Prod.snd, hpk1, hpk2, peek_fst, ite_self]
  repeat' ite_cases
  all_goals wbranch

theorem wstep_strInner (c : Ctx) (l : Lx) (hf : c.fixed = true) (hg : Good c l) (hQ : W l.toks) (count total : Nat) (hLI : LI l (.strInner count total)) :
    StepW (step c l (.strInner count total)) := by
  have hli : l.start + 1 ≤ l.pos := hLI rfl
  have := hg.s0; have := hg.sp; have := hg.pl
  obtain ⟨hs1, ht1, hr1, hp1, hw1, hl1, he1, ha1, hg1⟩ := next_ok c l (by omega) (by omega)
  obtain ⟨hs2, ht2, hr2, hp2, hw2, hl2, he2, ha2, hg2⟩ := next_ok c (next c l).2 (by omega) (by omega)
  have hpk1 := peek_snd c (next c l).2 hf (by omega)
  simp only [step, apply_ite Prod.fst, apply_ite Prod.snd, hpk1, peek_fst, ite_self]
  repeat' ite_cases
  all_goals wbranch


theorem wstep_ok (c : Ctx) (hf : c.fixed = true) (l : Lx) (s : St) (hg : Good c l) (hQ : W l.toks) (hLI : LI l s) :
    StepW (step c l s) := by
  cases s with
  | token => exact wstep_token c l hf hg hQ hLI
  | unary => exact wstep_unary c l hg hQ hLI
  | binopSp => exact wstep_binopSp c l hg hQ hLI
  | binopMain => exact wstep_binopMain c l hf hg hQ hLI
  | regexOpSp => exact wstep_regexOpSp c l hf hg hQ hLI
  | ident => exact wstep_ident c l hg hQ hLI
  | number fd first => exact wstep_number c l hf hg hQ fd first hLI
  | reference => exact wstep_reference c l hf hg hQ hLI
  | strOuter n => exact wstep_strOuter c l hf hg hQ n hLI
  | strInner n t => exact wstep_strInner c l hf hg hQ n t hLI
  | regexStart => exact wstep_regexStart c l hg hQ hLI
  | regexBody => exact wstep_regexBody c l hf hg hQ hLI
  | commentStart => exact wstep_commentStart c l hf hg hQ hLI
  | commentBody => exact wstep_commentBody c l hg hQ hLI
  | commentNL => exact wstep_commentNL c l hg hQ hLI

/-- The run lemma: every string / regex / reference token of a finished run has at least two bytes. -/
theorem run_len (c : Ctx) (hf : c.fixed = true) :
    ∀ (k : Nat) (l : Lx) (s : St), Good c l → StInv c l s → W l.toks → LI l s → mu c l s < k →
      ∃ l' : Lx, runFrom c k l s = .done l'.toks.reverse ∧ W l'.toks := by
  intro k
  induction k with
  | zero =>
    intro l s hg _ _ _ hk
    have := rank_nonneg s; have := hg.pl
    simp only [mu] at hk; omega
  | succ k ih =>
    intro l s hg hsi hQ hLI hk
    have h := step_ok c hf l s hg hsi
    have hq := wstep_ok c hf l s hg hQ hLI
    unfold runFrom
    cases hst : step c l s with
    | cont l' s' =>
      rw [hst] at h hq
      obtain ⟨hg', hsi', hmu⟩ := h
      simp only [hg'.nt]
      exact ih l' s' hg' hsi' hq.1 hq.2 (by omega)
    | done l' =>
      rw [hst] at h hq
      simp only [h.nt]
      exact ⟨l', rfl, hq⟩

end Kap.C05
