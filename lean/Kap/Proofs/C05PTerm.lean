/-
C05 — the parser model (Kap/Model/C05Parse.lean) never answers `fuel` when the depth argument is at least
`2 * (number of tokens) + 16`.

The measure is `nu s` = the number of pending tokens of non-zero type (`np s`, buffer then channel): a `next`
of a token of non-zero type decreases it by exactly one, a `next` of a type-0 token (the error token, the zero
token of the closed channel), a `peek` and a `next`+`backup` pair leave it unchanged.

`Tm nf r Q` = if `r` is `ok a s` then `Q a s`, and `r` is `fuel` only if the bound `nf` fails (`err` / `trap`
are of no interest here). Every production is shown `Tm (2 * nu s + c ≤ k) (P e k s) (post)` by induction on
the depth `k`, where the post re-establishes `Inv` and says by how much `nu` went down:
  lfunction 1, primary 2, function 2, lparameters 3, precedence 3, expression 3, inner 4, parameters 4, chain 4
are the offsets `c`; `primary`, `expression`, `function`, `lfunction` consume at least one token; `precedence`
consumes at least one when the token it peeks first is an operator of sufficient precedence (`Strict`) — the
situation in which the inner loop calls it.
-/
import Kap.Proofs.C05Parse
namespace Kap.C05
set_option linter.unusedVariables false
set_option linter.unusedSimpArgs false

/-! ### Outcomes -/

def Tm {α : Type} (nf : Prop) (r : PR α) (Q : α → PS → Prop) : Prop :=
  match r with
  | .ok a s => Q a s
  | .fuel => ¬ nf
  | _ => True

theorem Tm.bind {α β : Type} {nf : Prop} {r : PR α} {f : α → PS → PR β} {Q : α → PS → Prop} {P : β → PS → Prop}
    (h : Tm nf r Q) (hf : ∀ a s, Q a s → Tm nf (f a s) P) : Tm nf (r.bind f) P := by
  cases r with
  | ok a s => exact hf a s h
  | err => trivial
  | trap => trivial
  | fuel => exact h

theorem Tm.mono {α : Type} {nf : Prop} {r : PR α} {Q P : α → PS → Prop} (h : Tm nf r Q) (hf : ∀ a s, Q a s → P a s) :
    Tm nf r P := by
  cases r with
  | ok a s => exact hf a s h
  | err => trivial
  | trap => trivial
  | fuel => exact h

/-- A callee's bound follows from the caller's. -/
theorem Tm.weaken {α : Type} {nf nf' : Prop} {r : PR α} {Q : α → PS → Prop} (hn : nf → nf') (h : Tm nf' r Q) :
    Tm nf r Q := by
  cases r with
  | ok a s => exact h
  | err => trivial
  | trap => trivial
  | fuel => exact fun x => h (hn x)

theorem Tm.ofSafe {α : Type} {nf : Prop} {r : PR α} {Q : α → PS → Prop} (h : Safe r Q) (hf : r ≠ .fuel) : Tm nf r Q := by
  cases r with
  | ok a s => exact h
  | err => trivial
  | trap => trivial
  | fuel => exact absurd rfl hf

theorem Tm.not_fuel {α : Type} {nf : Prop} {r : PR α} {Q : α → PS → Prop} (h : Tm nf r Q) (hn : nf) : r.out ≠ .fuel := by
  cases r with
  | ok a s => simp [PR.out]
  | err => simp [PR.out]
  | trap => simp [PR.out]
  | fuel => exact absurd hn h

/-! ### The measure -/

/-- The number of pending tokens of non-zero type. -/
def nu (s : PS) : Nat := (np s).length

theorem NextPost.len_le {e : PEnv} {s s' : PS} {T : PTok} (h : NextPost e s T s') : nu s' ≤ nu s ∧ nu s ≤ nu s' + 1 := by
  have := congrArg List.length h.npe
  rw [List.length_append, nz_single] at this
  unfold nu
  split at this <;> simp at this <;> omega

theorem NextPost.len_nz {e : PEnv} {s s' : PS} {T : PTok} (h : NextPost e s T s') (hT : T.typ ≠ 0) :
    nu s = nu s' + 1 := by
  have := congrArg List.length h.npe
  rw [List.length_append, nz_single, if_neg hT] at this
  unfold nu
  simp at this; omega

theorem PeekPost.len {e : PEnv} {s s' : PS} {T : PTok} (h : PeekPost e s T s') : nu s' = nu s := by
  unfold nu; rw [h.npe]

theorem nu_init_le (toks : List PTok) : nu { rest := toks } ≤ toks.length := by
  simp only [nu, np, pending, nz, if_true, List.nil_append]
  exact List.length_filter_le _ _

/-- The post of a production: the invariant again, and at least `d` tokens (of non-zero type) consumed. -/
structure TP (e : PEnv) (d : Nat) (s s' : PS) : Prop where
  inv : Inv e s'
  len : nu s' + d ≤ nu s

/-! ### `next`, `peek`, `backup`, … -/

theorem pnext_ne_fuel (s : PS) : pnext s ≠ .fuel := by
  unfold pnext
  simp only []
  repeat' split
  all_goals (intro h; cases h)

theorem ppeek_ne_fuel (s : PS) : ppeek s ≠ .fuel := by
  unfold ppeek
  repeat' split
  all_goals (intro h; cases h)

theorem pnext_tm {nf : Prop} {e : PEnv} {s : PS} (h : Inv e s) : Tm nf (pnext s) (NextPost e s) :=
  Tm.ofSafe (pnext_safe h) (pnext_ne_fuel s)

/-- A `peek` when a token `U` is already in the lookahead buffer answers `U` and changes nothing. -/
theorem ppeek_of_peeked {s : PS} {U : PTok} (h : Peeked s U) : ppeek s = .ok U s := by
  unfold ppeek
  rcases h with ⟨hp, ht⟩ | ⟨hp, ht⟩
  · simp [hp, ht]
  · simp [hp, ht]

theorem ppeek_tm {nf : Prop} {e : PEnv} {s : PS} (h : Inv e s) :
    Tm nf (ppeek s) (fun T s' => PeekPost e s T s' ∧ ∀ U, Peeked s U → T = U) := by
  have h1 := ppeek_safe h
  cases hr : ppeek s with
  | ok T s' =>
    rw [hr] at h1
    refine ⟨h1, ?_⟩
    intro U hU
    rw [ppeek_of_peeked hU] at hr
    cases hr; rfl
  | err => trivial
  | trap => trivial
  | fuel => exact absurd hr (ppeek_ne_fuel s)

theorem consumeComment_tm {nf : Prop} {s : PS} : Tm nf (consumeComment s) (fun _ s' => s = s') := by
  unfold consumeComment; split
  · exact rfl
  · trivial

theorem posd_tm {nf : Prop} {e : PEnv} {p : Int} {s : PS} : Tm nf (posd e p s) (fun _ s' => s = s') := by
  unfold posd; split
  · exact rfl
  · trivial

theorem hasNL_tm {nf : Prop} {e : PEnv} {a b : Int} {s : PS} : Tm nf (hasNL e a b s) (fun _ s' => s = s') := by
  unfold hasNL; split
  · exact rfl
  · trivial

theorem mk_tm {nf : Prop} {e : PEnv} {p : Int} {k : NK} {s : PS} : Tm nf (mk e p k s) (fun _ s' => s = s') := by
  unfold mk
  refine Tm.bind posd_tm ?_
  rintro _ _ rfl
  exact rfl

theorem mkC_tm {nf : Prop} {e : PEnv} {p : Int} {k : NK} {s : PS} : Tm nf (mkC e p k s) (fun _ s' => s = s') := by
  unfold mkC
  refine Tm.bind posd_tm ?_
  rintro _ _ rfl
  refine Tm.bind consumeComment_tm ?_
  rintro _ _ rfl
  exact rfl

theorem unexpected_tm {α : Type} {nf : Prop} {e : PEnv} {T : PTok} (P : α → PS → Prop) :
    Tm nf (unexpected e T : PR α) P := by
  unfold unexpected
  simp only []
  repeat' split
  all_goals trivial

theorem expect_tm {nf : Prop} {e : PEnv} {s : PS} (ty : Nat) (h : Inv e s) :
    Tm nf (expect e ty s) (fun T s' => NextPost e s T s' ∧ T.typ = ty) := by
  unfold expect
  refine Tm.bind (pnext_tm h) ?_
  intro T s1 h1
  split
  · rename_i hty; exact ⟨h1, hty⟩
  · exact unexpected_tm _

/-- `expect` of a real token type consumes one token. -/
theorem expect1_tm {nf : Prop} {e : PEnv} {s : PS} (ty : Nat) (hty : ty ≠ 0) (h : Inv e s) :
    Tm nf (expect e ty s) (fun _ s' => TP e 1 s s') := by
  refine Tm.mono (expect_tm ty h) ?_
  rintro T s1 ⟨h1, hT⟩
  have := h1.len_nz (by rw [hT]; exact hty)
  exact ⟨h1.inv, by omega⟩

/-! ### Leaf productions -/

theorem identifier_tm {nf : Prop} {e : PEnv} {s : PS} (h : Inv e s) : Tm nf (identifier e s) (fun _ s' => TP e 1 s s') := by
  unfold identifier
  refine Tm.bind (expect1_tm tIdent (by decide) h) ?_
  intro T s1 h1
  refine Tm.mono mkC_tm ?_
  rintro n s' rfl
  exact h1

theorem star_tm {nf : Prop} {e : PEnv} {s : PS} (h : Inv e s) : Tm nf (star e s) (fun _ s' => TP e 1 s s') := by
  unfold star
  refine Tm.bind (expect1_tm tStar (by decide) h) ?_
  intro T s1 h1
  refine Tm.mono mkC_tm ?_
  rintro n s' rfl
  exact h1

theorem boolean_tm {nf : Prop} {e : PEnv} {s : PS} (h : Inv e s) {U : PTok} (hp : Peeked s U) (hU : U.typ ≠ 0) :
    Tm nf (boolean e s) (fun _ s' => TP e 1 s s') := by
  unfold boolean
  refine Tm.bind (pnext_tm h) ?_
  intro T s1 h1
  have hT : T = U := h1.same U hp
  have := h1.len_nz (by rw [hT]; exact hU)
  refine Tm.mono mkC_tm ?_
  rintro n s' rfl
  exact ⟨h1.inv, by omega⟩

/-- the tail shared by the literal productions: `position`, `consumeComment`, then a node, an error or a trap
in the same state -/
theorem lit_tail_tm {nf : Prop} {e : PEnv} {s s1 : PS} {p : Int} (h1 : TP e 1 s s1) (body : PS → PR Node)
    (hb : ∀ s, Tm nf (body s) (fun _ s' => s = s')) :
    Tm nf ((posd e p s1).bind fun _ s => (consumeComment s).bind fun _ s2 => body s2) (fun _ s' => TP e 1 s s') := by
  refine Tm.bind posd_tm ?_
  rintro _ _ rfl
  refine Tm.bind consumeComment_tm ?_
  rintro _ _ rfl
  refine Tm.mono (hb _) ?_
  rintro n s' rfl
  exact h1

theorem pstring_tm {nf : Prop} {e : PEnv} {s : PS} (h : Inv e s) : Tm nf (pstring e s) (fun _ s' => TP e 1 s s') := by
  unfold pstring
  refine Tm.bind (expect1_tm tString (by decide) h) ?_
  intro T s1 h1
  refine lit_tail_tm h1 _ ?_
  intro s2
  split
  · exact rfl
  · trivial

theorem reference_tm {nf : Prop} {e : PEnv} {s : PS} (h : Inv e s) : Tm nf (reference e s) (fun _ s' => TP e 1 s s') := by
  unfold reference
  refine Tm.bind (expect1_tm tReference (by decide) h) ?_
  intro T s1 h1
  refine lit_tail_tm h1 _ ?_
  intro s2
  split
  · trivial
  · split
    · exact rfl
    · trivial

theorem regex_tm {nf : Prop} {e : PEnv} {s : PS} (h : Inv e s) : Tm nf (regex e s) (fun _ s' => TP e 1 s s') := by
  unfold regex
  refine Tm.bind (expect1_tm tRegex (by decide) h) ?_
  intro T s1 h1
  refine lit_tail_tm h1 _ ?_
  intro s2
  split
  · trivial
  · split
    · trivial
    · split
      · exact rfl
      · trivial

theorem number_tm {nf : Prop} {e : PEnv} {s : PS} (h : Inv e s) : Tm nf (number e s) (fun _ s' => TP e 1 s s') := by
  unfold number
  refine Tm.bind (expect1_tm tNumber (by decide) h) ?_
  intro T s1 h1
  refine lit_tail_tm h1 _ ?_
  intro s2
  split
  · trivial
  · split
    · exact rfl
    · trivial

theorem duration_tm {nf : Prop} {e : PEnv} {s : PS} (h : Inv e s) : Tm nf (duration e s) (fun _ s' => TP e 1 s s') := by
  unfold duration
  refine Tm.bind (expect1_tm tDuration (by decide) h) ?_
  intro T s1 h1
  refine lit_tail_tm h1 _ ?_
  intro s2
  split
  · exact rfl
  · trivial

theorem stringItem_tm {nf : Prop} {e : PEnv} {s : PS} (h : Inv e s) : Tm nf (stringItem e s) (fun _ s' => TP e 1 s s') := by
  unfold stringItem
  refine Tm.bind (ppeek_tm h) ?_
  rintro T s1 ⟨h1, _⟩
  have l1 := h1.len
  have pre : ∀ (n : Node) s', TP e 1 s1 s' → TP e 1 s s' := fun n s' hp => ⟨hp.inv, by have := hp.len; omega⟩
  split
  · exact (identifier_tm h1.inv).mono pre
  · split
    · exact (pstring_tm h1.inv).mono pre
    · split
      · exact (star_tm h1.inv).mono pre
      · exact unexpected_tm _

theorem stringListLoop_tm {e : PEnv} :
    ∀ k s, Inv e s → Tm (nu s + 1 ≤ k) (stringListLoop e k s) (fun _ s' => TP e 0 s s') := by
  intro k
  induction k with
  | zero => intro s h; exact fun hn => by omega
  | succ k ih =>
    intro s h
    simp only [stringListLoop]
    refine Tm.bind (ppeek_tm h) ?_
    rintro T s1 ⟨h1, _⟩
    have l1 := h1.len
    split
    · exact ⟨h1.inv, by omega⟩
    · refine Tm.bind (stringItem_tm h1.inv) ?_
      intro _ s2 h2
      have l2 := h2.len
      refine Tm.bind (pnext_tm h2.inv) ?_
      intro T2 s3 h3
      split
      · have hb := backup_spec h3.inv h3.last h2.inv h3.npe
        have l3 : nu (pbackup s3) = nu s2 := by unfold nu; rw [hb.2]
        exact ⟨hb.1, by omega⟩
      · rename_i hc
        have hT2 : T2.typ ≠ 0 := by
          have : T2.typ = tComma := Decidable.not_not.mp hc
          rw [this]; decide
        have l3 := h3.len_nz hT2
        refine Tm.mono (Tm.weaken (fun hn => by omega) (ih s3 h3.inv)) ?_
        intro _ s' hp
        exact ⟨hp.inv, by have := hp.len; omega⟩

theorem stringList_tm {e : PEnv} (k : Nat) {s : PS} (h : Inv e s) :
    Tm (nu s ≤ k) (stringList e k s) (fun _ s' => TP e 1 s s') := by
  unfold stringList
  refine Tm.bind (expect1_tm tLSBracket (by decide) h) ?_
  intro T s1 h1
  have l1 := h1.len
  refine Tm.bind consumeComment_tm ?_
  rintro _ _ rfl
  refine Tm.bind (Tm.weaken (fun hn => by omega) (stringListLoop_tm k s1 h1.inv)) ?_
  intro _ s2 h2
  have l2 := h2.len
  refine Tm.bind (expect_tm tRSBracket h2.inv) ?_
  rintro T3 s3 ⟨h3, _⟩
  have l3 := h3.len_le
  refine Tm.mono mk_tm ?_
  rintro n s' rfl
  exact ⟨h3.inv, by omega⟩

/-! ### The mutually recursive productions: induction on the depth -/

/-- The token in the lookahead buffer is an operator that `precedence … minP` consumes. -/
def Strict (s : PS) (minP : Nat) : Prop :=
  ∃ U pl, Peeked s U ∧ isExprOperator 25 47 U.typ = true ∧ precAt U.typ = some pl ∧ pl ≥ minP

structure AllT (e : PEnv) (k : Nat) : Prop where
  ex : ∀ s, Inv e s → Tm (2 * nu s + 3 ≤ k) (expression e k s) (fun _ s' => TP e 1 s s')
  ch : ∀ lhs s, Inv e s → Tm (2 * nu s + 4 ≤ k) (chain e k lhs s) (fun _ s' => TP e 0 s s')
  fn : ∀ s, Inv e s → Tm (2 * nu s + 2 ≤ k) (function e k s) (fun _ s' => TP e 1 s s')
  ps : ∀ s, Inv e s → Tm (2 * nu s + 4 ≤ k) (parameters e k s) (fun _ s' => TP e 0 s s')
  pr : ∀ lhs minP s, Inv e s → Tm (2 * nu s + 3 ≤ k) (precedence e k lhs minP s)
    (fun _ s' => TP e 0 s s' ∧ (Strict s minP → nu s' + 1 ≤ nu s))
  inn : ∀ rhs po s, Inv e s → Tm (2 * nu s + 4 ≤ k) (inner e k rhs po s) (fun _ s' => TP e 0 s s')
  lf : ∀ s, Inv e s → Tm (2 * nu s + 1 ≤ k) (lfunction e k s) (fun _ s' => TP e 1 s s')
  lps : ∀ s, Inv e s → Tm (2 * nu s + 3 ≤ k) (lparameters e k s) (fun _ s' => TP e 0 s s')
  pm : ∀ s, Inv e s → Tm (2 * nu s + 2 ≤ k) (primary e k s) (fun _ s' => TP e 1 s s')

theorem allT_zero (e : PEnv) : AllT e 0 := by
  constructor <;> intros <;> simp only [expression, chain, function, parameters, precedence, inner, lfunction,
    lparameters, primary] <;> exact fun hn => by omega

/-- the tail shared by `function` and `lfunction` -/
theorem func_tail_tm {nf : Prop} {e : PEnv} {s s4 : PS} {I : PTok} {args : List Int} (h4 : TP e 1 s s4) :
    Tm nf (match args.getLast? with
      | none => mk e I.pos .other s4
      | some q => (hasNL e I.pos q s4).bind fun _ s => mk e I.pos .other s) (fun _ s' => TP e 1 s s') := by
  split
  · refine Tm.mono mk_tm ?_
    rintro n s' rfl; exact h4
  · refine Tm.bind hasNL_tm ?_
    rintro _ _ rfl
    refine Tm.mono mk_tm ?_
    rintro n s' rfl; exact h4

theorem function_succT {e : PEnv} {k : Nat} (ih : AllT e k) :
    ∀ s, Inv e s → Tm (2 * nu s + 2 ≤ k + 1) (function e (k + 1) s) (fun _ s' => TP e 1 s s') := by
  intro s hs
  simp only [function]
  refine Tm.bind (expect1_tm tIdent (by decide) hs) ?_
  intro I s1 h1
  have l1 := h1.len
  refine Tm.bind consumeComment_tm ?_
  rintro _ _ rfl
  refine Tm.bind (expect1_tm tLParen (by decide) h1.inv) ?_
  intro _ s2 h2
  have l2 := h2.len
  refine Tm.bind (Tm.weaken (fun hn => by omega) (ih.ps s2 h2.inv)) ?_
  intro args s3 h3
  have l3 := h3.len
  refine Tm.bind (expect_tm tRParen h3.inv) ?_
  rintro _ s4 ⟨h4, _⟩
  have l4 := h4.len_le
  exact func_tail_tm ⟨h4.inv, by omega⟩

theorem lfunction_succT {e : PEnv} {k : Nat} (ih : AllT e k) :
    ∀ s, Inv e s → Tm (2 * nu s + 1 ≤ k + 1) (lfunction e (k + 1) s) (fun _ s' => TP e 1 s s') := by
  intro s hs
  simp only [lfunction]
  refine Tm.bind (expect1_tm tIdent (by decide) hs) ?_
  intro I s1 h1
  have l1 := h1.len
  refine Tm.bind (expect1_tm tLParen (by decide) h1.inv) ?_
  intro _ s2 h2
  have l2 := h2.len
  refine Tm.bind (Tm.weaken (fun hn => by omega) (ih.lps s2 h2.inv)) ?_
  intro args s3 h3
  have l3 := h3.len
  refine Tm.bind (expect_tm tRParen h3.inv) ?_
  rintro _ s4 ⟨h4, _⟩
  have l4 := h4.len_le
  exact func_tail_tm ⟨h4.inv, by omega⟩

/-- the tail shared by `parameters` and `lparameters`: one argument was parsed from `s` to `s2`; the recursive
call comes after that argument and a comma -/
theorem params_tail_tm {nf : Prop} {e : PEnv} {s s2 : PS} {a : Node} (rec : PS → PR (List Int))
    (hrec : ∀ s3, Inv e s3 → nu s3 + 2 ≤ nu s → Tm nf (rec s3) (fun _ s' => TP e 0 s3 s'))
    (h2 : TP e 1 s s2) :
    Tm nf ((pnext s2).bind fun T2 s =>
      if T2.typ ≠ tComma then .ok [a.pos] (pbackup s)
      else (rec s).bind fun rest s => .ok (a.pos :: rest) s) (fun _ s' => TP e 0 s s') := by
  have l2 := h2.len
  refine Tm.bind (pnext_tm h2.inv) ?_
  intro T2 s3 h3
  split
  · have hb := backup_spec h3.inv h3.last h2.inv h3.npe
    have l3 : nu (pbackup s3) = nu s2 := by unfold nu; rw [hb.2]
    exact ⟨hb.1, by omega⟩
  · rename_i hc
    have hT2 : T2.typ ≠ 0 := by
      have : T2.typ = tComma := Decidable.not_not.mp hc
      rw [this]; decide
    have l3 := h3.len_nz hT2
    refine Tm.bind (hrec s3 h3.inv (by omega)) ?_
    intro rest s4 h4
    exact ⟨h4.inv, by have := h4.len; omega⟩

theorem parameters_succT {e : PEnv} {k : Nat} (ih : AllT e k) :
    ∀ s, Inv e s → Tm (2 * nu s + 4 ≤ k + 1) (parameters e (k + 1) s) (fun _ s' => TP e 0 s s') := by
  intro s hs
  simp only [parameters]
  refine Tm.bind (ppeek_tm hs) ?_
  rintro T s1 ⟨h1, _⟩
  have l1 := h1.len
  split
  · exact ⟨h1.inv, by omega⟩
  · refine Tm.bind (Tm.weaken (fun hn => by omega) (ih.ex s1 h1.inv)) ?_
    intro a s2 h2
    have l2 := h2.len
    exact params_tail_tm (parameters e k) (fun s3 h3 hl => Tm.weaken (fun hn => by omega) (ih.ps s3 h3))
      ⟨h2.inv, by omega⟩

theorem lparameters_succT {e : PEnv} {k : Nat} (ih : AllT e k) :
    ∀ s, Inv e s → Tm (2 * nu s + 3 ≤ k + 1) (lparameters e (k + 1) s) (fun _ s' => TP e 0 s s') := by
  intro s hs
  simp only [lparameters]
  refine Tm.bind (ppeek_tm hs) ?_
  rintro T s1 ⟨h1, _⟩
  have l1 := h1.len
  split
  · exact ⟨h1.inv, by omega⟩
  · refine Tm.bind (Tm.weaken (fun hn => by omega) (ih.pm s1 h1.inv)) ?_
    intro n s2 h2
    have l2 := h2.len
    refine Tm.bind (ppeek_tm h2.inv) ?_
    rintro T1 s3 ⟨h3, _⟩
    have l3 := h3.len
    refine Tm.bind (Q := fun _ s' => TP e 1 s s') ?_ ?_
    · split
      · refine Tm.mono (Tm.weaken (fun hn => by omega) (ih.pr n 0 s3 h3.inv)) ?_
        rintro a s' ⟨hp, _⟩
        exact ⟨hp.inv, by have := hp.len; omega⟩
      · exact ⟨h3.inv, by omega⟩
    · intro a s4 h4
      exact params_tail_tm (lparameters e k) (fun s5 h5 hl => Tm.weaken (fun hn => by omega) (ih.lps s5 h5)) h4

theorem inner_succT {e : PEnv} {k : Nat} (ih : AllT e k) :
    ∀ rhs po s, Inv e s → Tm (2 * nu s + 4 ≤ k + 1) (inner e (k + 1) rhs po s) (fun _ s' => TP e 0 s s') := by
  intro rhs po s hs
  simp only [inner]
  refine Tm.bind (ppeek_tm hs) ?_
  rintro look s1 ⟨h1, _⟩
  have l1 := h1.len
  have hself : TP e 0 s s1 := ⟨h1.inv, by omega⟩
  split
  · rename_i hop
    split
    · trivial
    · rename_i pl hpl
      split
      · -- `precedence` re-reads `look`, an operator of precedence `pl ≥ pl`: it consumes it
        refine Tm.bind (Tm.weaken (fun hn => by omega) (ih.pr rhs pl s1 h1.inv)) ?_
        rintro rhs2 s2 ⟨h2, hst⟩
        have l2 := hst ⟨look, pl, h1.pk, hop, hpl, Nat.le_refl _⟩
        refine Tm.mono (Tm.weaken (fun hn => by omega) (ih.inn rhs2 po s2 h2.inv)) ?_
        intro n s' hp
        exact ⟨hp.inv, by have := hp.len; omega⟩
      · exact hself
  · exact hself

theorem precedence_succT {e : PEnv} {k : Nat} (ih : AllT e k) :
    ∀ lhs minP s, Inv e s → Tm (2 * nu s + 3 ≤ k + 1) (precedence e (k + 1) lhs minP s)
      (fun _ s' => TP e 0 s s' ∧ (Strict s minP → nu s' + 1 ≤ nu s)) := by
  intro lhs minP s hs
  simp only [precedence]
  refine Tm.bind (ppeek_tm hs) ?_
  rintro look s1 ⟨h1, hsame⟩
  have l1 := h1.len
  split
  · rename_i hop
    have hlook := exprOp_ne_zero hop
    split
    · trivial
    · rename_i pl hpl
      split
      · refine Tm.bind (pnext_tm h1.inv) ?_
        intro op s2 h2
        have hop' : op = look := h2.same _ h1.pk
        have l2 := h2.len_nz (by rw [hop']; exact hlook)
        refine Tm.bind consumeComment_tm ?_
        rintro _ _ rfl
        refine Tm.bind (Tm.weaken (fun hn => by omega) (ih.pm s2 h2.inv)) ?_
        intro rhs s3 h3
        have l3 := h3.len
        split
        · trivial
        · refine Tm.bind (Tm.weaken (fun hn => by omega) (ih.inn rhs _ s3 h3.inv)) ?_
          intro rhs' s4 h4
          have l4 := h4.len
          split
          · trivial
          · refine Tm.bind hasNL_tm ?_
            rintro _ _ rfl
            refine Tm.bind mk_tm ?_
            rintro n _ rfl
            refine Tm.mono (Tm.weaken (fun hn => by omega) (ih.pr _ minP s4 h4.inv)) ?_
            rintro n' s' ⟨h5, _⟩
            have l5 := h5.len
            exact ⟨⟨h5.inv, by omega⟩, fun _ => by omega⟩
      · rename_i hlt
        refine ⟨⟨h1.inv, by omega⟩, ?_⟩
        rintro ⟨U, pl', hU, hop', hpl', hge⟩
        have hlu : look = U := hsame U hU
        rw [← hlu, hpl] at hpl'
        cases hpl'
        exact absurd hge hlt
  · rename_i hop
    refine ⟨⟨h1.inv, by omega⟩, ?_⟩
    rintro ⟨U, pl', hU, hop', hpl', hge⟩
    have hlu : look = U := hsame U hU
    rw [← hlu] at hop'
    exact absurd hop' hop

theorem primary_succT {e : PEnv} {k : Nat} (ih : AllT e k) :
    ∀ s, Inv e s → Tm (2 * nu s + 2 ≤ k + 1) (primary e (k + 1) s) (fun _ s' => TP e 1 s s') := by
  intro s hs
  simp only [primary]
  refine Tm.bind (ppeek_tm hs) ?_
  rintro tok s1 ⟨h1, _⟩
  have l1 := h1.len
  have pre : ∀ (n : Node) s', TP e 1 s1 s' → TP e 1 s s' := fun n s' hp => ⟨hp.inv, by have := hp.len; omega⟩
  split
  · -- ( expr )
    rename_i hc
    have htok : tok.typ ≠ 0 := by rw [hc]; decide
    refine Tm.bind (pnext_tm h1.inv) ?_
    intro T s2 h2
    have hT : T = tok := h2.same _ h1.pk
    have l2 := h2.len_nz (by rw [hT]; exact htok)
    refine Tm.bind consumeComment_tm ?_
    rintro _ _ rfl
    refine Tm.bind (Tm.weaken (fun hn => by omega) (ih.pm s2 h2.inv)) ?_
    intro n s3 h3
    have l3 := h3.len
    refine Tm.bind (Tm.weaken (fun hn => by omega) (ih.pr n 0 s3 h3.inv)) ?_
    rintro n' s4 ⟨h4, _⟩
    have l4 := h4.len
    refine Tm.bind (expect_tm tRParen h4.inv) ?_
    rintro _ s5 ⟨h5, _⟩
    have l5 := h5.len_le
    exact ⟨h5.inv, by omega⟩
  · split
    · exact (number_tm h1.inv).mono pre
    · split
      · exact (pstring_tm h1.inv).mono pre
      · split
        · rename_i hc
          refine (boolean_tm h1.inv h1.pk ?_).mono pre
          rcases hc with h | h <;> rw [h] <;> decide
        · split
          · exact (duration_tm h1.inv).mono pre
          · split
            · exact (regex_tm h1.inv).mono pre
            · split
              · exact (star_tm h1.inv).mono pre
              · split
                · exact (reference_tm h1.inv).mono pre
                · split
                  · -- identifier or function call
                    refine Tm.bind (pnext_tm h1.inv) ?_
                    intro T2 s2 h2
                    refine Tm.bind (ppeek_tm h2.inv) ?_
                    rintro T3 s3 ⟨h3, _⟩
                    have hb := backup_spec h3.inv (h3.last _ h2.last) h1.inv (by rw [h3.npe]; exact h2.npe)
                    have lb : nu (pbackup s3) = nu s1 := by unfold nu; rw [hb.2]
                    have pre' : ∀ (n : Node) s', TP e 1 (pbackup s3) s' → TP e 1 s s' :=
                      fun n s' hp => ⟨hp.inv, by have := hp.len; omega⟩
                    split
                    · exact (Tm.weaken (fun hn => by omega) (ih.lf _ hb.1)).mono pre'
                    · exact (identifier_tm hb.1).mono pre'
                  · split
                    · -- unary
                      rename_i hc
                      have htok : tok.typ ≠ 0 := by rcases hc with h | h <;> rw [h] <;> decide
                      refine Tm.bind (pnext_tm h1.inv) ?_
                      intro T2 s2 h2
                      have hT : T2 = tok := h2.same _ h1.pk
                      have l2 := h2.len_nz (by rw [hT]; exact htok)
                      refine Tm.bind posd_tm ?_
                      rintro _ _ rfl
                      refine Tm.bind (Tm.weaken (fun hn => by omega) (ih.pm s2 h2.inv)) ?_
                      intro n s3 h3
                      have l3 := h3.len
                      refine Tm.bind consumeComment_tm ?_
                      rintro _ _ rfl
                      exact ⟨h3.inv, by omega⟩
                    · exact unexpected_tm _

theorem chain_succT {e : PEnv} {k : Nat} (ih : AllT e k) :
    ∀ lhs s, Inv e s → Tm (2 * nu s + 4 ≤ k + 1) (chain e (k + 1) lhs s) (fun _ s' => TP e 0 s s') := by
  intro lhs s hs
  simp only [chain]
  refine Tm.bind (ppeek_tm hs) ?_
  rintro T s1 ⟨h1, _⟩
  have l1 := h1.len
  split
  · rename_i hc
    have hT0 : T.typ ≠ 0 := by rcases hc with h | h | h <;> rw [h] <;> decide
    refine Tm.bind (pnext_tm h1.inv) ?_
    intro op s2 h2
    have hop' : op = T := h2.same _ h1.pk
    have l2 := h2.len_nz (by rw [hop']; exact hT0)
    refine Tm.bind consumeComment_tm ?_
    rintro _ _ rfl
    refine Tm.bind (pnext_tm h2.inv) ?_
    intro _ s3 h3
    -- the right-hand side is parsed from a state `sb` with the pending tokens of `s2`
    have tail : ∀ (sb : PS) (X : PR Node), nu sb = nu s2 →
        Tm (2 * nu s + 4 ≤ k + 1) X (fun _ s' => TP e 1 sb s') →
        Tm (2 * nu s + 4 ≤ k + 1) (X.bind fun _ s => (mk e op.pos .other s).bind fun n s => chain e k n s)
          (fun _ s' => TP e 0 s s') := by
      intro sb X hsb hX
      refine Tm.bind hX ?_
      intro r s4 h4
      have l4 := h4.len
      refine Tm.bind mk_tm ?_
      rintro n _ rfl
      refine Tm.mono (Tm.weaken (fun hn => by omega) (ih.ch _ s4 h4.inv)) ?_
      intro n' s' hp
      exact ⟨hp.inv, by have := hp.len; omega⟩
    split
    · have hb := backup_spec h3.inv h3.last h2.inv h3.npe
      have lb : nu (pbackup s3) = nu s2 := by unfold nu; rw [hb.2]
      exact tail _ _ lb (Tm.weaken (fun hn => by omega) (ih.fn _ hb.1))
    · refine Tm.bind (ppeek_tm h3.inv) ?_
      rintro T2 s4 ⟨h4, _⟩
      have hb := backup_spec h4.inv (h4.last _ h3.last) h2.inv (by rw [h4.npe]; exact h3.npe)
      have lb : nu (pbackup s4) = nu s2 := by unfold nu; rw [hb.2]
      split
      · exact tail _ _ lb (Tm.weaken (fun hn => by omega) (ih.fn _ hb.1))
      · exact tail _ _ lb (identifier_tm hb.1)
  · exact ⟨h1.inv, by omega⟩

theorem expression_succT {e : PEnv} {k : Nat} (ih : AllT e k) :
    ∀ s, Inv e s → Tm (2 * nu s + 3 ≤ k + 1) (expression e (k + 1) s) (fun _ s' => TP e 1 s s') := by
  intro s hs
  simp only [expression]
  refine Tm.bind (ppeek_tm hs) ?_
  rintro T s1 ⟨h1, _⟩
  have l1 := h1.len
  -- `primaryExpr` from a state with no more pending tokens than `s`
  have pexpr : ∀ sb, Inv e sb → nu sb ≤ nu s →
      Tm (2 * nu s + 3 ≤ k + 1) ((primary e k sb).bind fun n s => precedence e k n 0 s)
        (fun _ s' => TP e 1 s s') := by
    intro sb hsb hle
    refine Tm.bind (Tm.weaken (fun hn => by omega) (ih.pm sb hsb)) ?_
    intro n s2 h2
    have l2 := h2.len
    refine Tm.mono (Tm.weaken (fun hn => by omega) (ih.pr n 0 s2 h2.inv)) ?_
    rintro n' s' ⟨hp, _⟩
    exact ⟨hp.inv, by have := hp.len; omega⟩
  split
  · refine Tm.bind (pnext_tm h1.inv) ?_
    intro _ s2 h2
    refine Tm.bind (ppeek_tm h2.inv) ?_
    rintro T2 s3 ⟨h3, _⟩
    have hb := backup_spec h3.inv (h3.last _ h2.last) h1.inv (by rw [h3.npe]; exact h2.npe)
    have lb : nu (pbackup s3) = nu s1 := by unfold nu; rw [hb.2]
    split
    · refine Tm.bind (Tm.weaken (fun hn => by omega) (ih.fn _ hb.1)) ?_
      intro term s4 h4
      have l4 := h4.len
      refine Tm.bind (ppeek_tm h4.inv) ?_
      rintro T3 s5 ⟨h5, _⟩
      have l5 := h5.len
      split
      · refine Tm.mono (Tm.weaken (fun hn => by omega) (ih.ch term s5 h5.inv)) ?_
        intro n s' hp
        exact ⟨hp.inv, by have := hp.len; omega⟩
      · refine Tm.mono (Tm.weaken (fun hn => by omega) (ih.pr term 0 s5 h5.inv)) ?_
        rintro n s' ⟨hp, _⟩
        exact ⟨hp.inv, by have := hp.len; omega⟩
    · split
      · refine Tm.bind (identifier_tm hb.1) ?_
        intro term s4 h4
        have l4 := h4.len
        refine Tm.mono (Tm.weaken (fun hn => by omega) (ih.ch term s4 h4.inv)) ?_
        intro n s' hp
        exact ⟨hp.inv, by have := hp.len; omega⟩
      · exact pexpr _ hb.1 (by omega)
  · split
    · -- lambda
      rename_i hc
      have hT0 : T.typ ≠ 0 := by rw [hc]; decide
      refine Tm.bind (pnext_tm h1.inv) ?_
      intro Lm s2 h2
      have hL' : Lm = T := h2.same _ h1.pk
      have l2 := h2.len_nz (by rw [hL']; exact hT0)
      refine Tm.bind consumeComment_tm ?_
      rintro _ _ rfl
      refine Tm.bind (Tm.weaken (fun hn => by omega) (ih.pm s2 h2.inv)) ?_
      intro n0 s3 h3
      have l3 := h3.len
      refine Tm.bind (Tm.weaken (fun hn => by omega) (ih.pr n0 0 s3 h3.inv)) ?_
      rintro _ s4 ⟨h4, _⟩
      have l4 := h4.len
      refine Tm.mono mk_tm ?_
      rintro n s' rfl
      exact ⟨h4.inv, by omega⟩
    · split
      · refine Tm.mono (Tm.weaken (fun hn => by omega) (stringList_tm k h1.inv)) ?_
        intro n s' hp
        exact ⟨hp.inv, by have := hp.len; omega⟩
      · exact pexpr s1 h1.inv (by omega)

theorem allT_succ {e : PEnv} {k : Nat} (ih : AllT e k) : AllT e (k + 1) :=
  ⟨expression_succT ih, chain_succT ih, function_succT ih, parameters_succT ih, precedence_succT ih, inner_succT ih,
   lfunction_succT ih, lparameters_succT ih, primary_succT ih⟩

theorem allT (e : PEnv) : ∀ k, AllT e k := by
  intro k
  induction k with
  | zero => exact allT_zero e
  | succ k ih => exact allT_succ ih

/-! ### Statements, program, entry points -/

theorem declaration_tm {e : PEnv} (k : Nat) {s : PS} (hs : Inv e s) :
    Tm (2 * nu s + 3 ≤ k) (declaration e k s) (fun _ s' => TP e 1 s s') := by
  unfold declaration
  refine Tm.bind (expect1_tm tVar (by decide) hs) ?_
  intro V s1 h1
  have l1 := h1.len
  refine Tm.bind consumeComment_tm ?_
  rintro _ _ rfl
  refine Tm.bind (identifier_tm h1.inv) ?_
  intro _ s2 h2
  have l2 := h2.len
  refine Tm.bind (ppeek_tm h2.inv) ?_
  rintro T s3 ⟨h3, _⟩
  have l3 := h3.len
  split
  · refine Tm.bind (expect_tm tAsgn h3.inv) ?_
    rintro _ s4 ⟨h4, _⟩
    have l4 := h4.len_le
    refine Tm.bind (Tm.weaken (fun hn => by omega) ((allT e k).ex s4 h4.inv)) ?_
    intro _ s5 h5
    have l5 := h5.len
    refine Tm.mono mk_tm ?_
    rintro n s' rfl
    exact ⟨h5.inv, by omega⟩
  · refine Tm.bind (identifier_tm h3.inv) ?_
    intro _ s4 h4
    have l4 := h4.len
    refine Tm.mono mk_tm ?_
    rintro n s' rfl
    exact ⟨h4.inv, by omega⟩

theorem dbrp_tm {nf : Prop} {e : PEnv} {s : PS} (hs : Inv e s) : Tm nf (dbrp e s) (fun _ s' => TP e 1 s s') := by
  unfold dbrp
  refine Tm.bind (expect1_tm tDBRP (by decide) hs) ?_
  intro D s1 h1
  have l1 := h1.len
  refine Tm.bind consumeComment_tm ?_
  rintro _ _ rfl
  refine Tm.bind (reference_tm h1.inv) ?_
  intro db s2 h2
  have l2 := h2.len
  refine Tm.bind (expect_tm tDot h2.inv) ?_
  rintro _ s3 ⟨h3, _⟩
  have l3 := h3.len_le
  refine Tm.bind (reference_tm h3.inv) ?_
  intro rp s4 h4
  have l4 := h4.len
  refine Tm.bind posd_tm ?_
  rintro _ _ rfl
  split
  · exact ⟨h4.inv, by omega⟩
  · trivial

theorem statement_tm {e : PEnv} (k : Nat) {s : PS} (hs : Inv e s) :
    Tm (2 * nu s + 3 ≤ k) (statement e k s) (fun _ s' => TP e 1 s s') := by
  unfold statement
  refine Tm.bind (ppeek_tm hs) ?_
  rintro T s1 ⟨h1, _⟩
  have l1 := h1.len
  have pre : ∀ (n : Node) s', TP e 1 s1 s' → TP e 1 s s' := fun n s' hp => ⟨hp.inv, by have := hp.len; omega⟩
  split
  · exact (Tm.weaken (fun hn => by omega) (declaration_tm k h1.inv)).mono pre
  · split
    · exact (dbrp_tm h1.inv).mono pre
    · exact (Tm.weaken (fun hn => by omega) ((allT e k).ex s1 h1.inv)).mono pre

theorem program_tm {e : PEnv} : ∀ k s, Inv e s → Tm (2 * nu s + 4 ≤ k) (program e k s) (fun _ s' => Inv e s') := by
  intro k
  induction k with
  | zero => intro s h; exact fun hn => by omega
  | succ k ih =>
    intro s hs
    simp only [program]
    refine Tm.bind (ppeek_tm hs) ?_
    rintro T s1 ⟨h1, _⟩
    have l1 := h1.len
    split
    · exact h1.inv
    · refine Tm.bind (Tm.weaken (fun hn => by omega) (statement_tm k h1.inv)) ?_
      intro _ s2 h2
      have l2 := h2.len
      exact Tm.weaken (fun hn => by omega) (ih s2 h2.inv)

/-- `Parse` on a token stream satisfying the invariant finishes within depth `2 * (number of tokens) + 4`. -/
theorem parseToks_nofuel' (e : PEnv) (k : Nat) (toks : List PTok) (h : Inv e { rest := toks })
    (hk : 2 * toks.length + 4 ≤ k) : (parseToks e k toks).out ≠ .fuel := by
  have hl := nu_init_le toks
  refine Tm.not_fuel (nf := 2 * toks.length + 4 ≤ k) (Q := fun _ _ => True) ?_ hk
  unfold parseToks
  refine Tm.bind posd_tm ?_
  rintro _ _ rfl
  refine Tm.bind (Tm.weaken (fun hn => by omega) (program_tm k _ h)) ?_
  intro _ s1 h1
  refine Tm.bind (expect_tm tEOF h1) ?_
  intro _ _ _
  trivial

/-- `ParseLambda` finishes within depth `2 * (number of tokens) + 3`. -/
theorem parseLambdaToks_nofuel' (e : PEnv) (k : Nat) (toks : List PTok) (h : Inv e { rest := toks })
    (hk : 2 * toks.length + 3 ≤ k) : (parseLambdaToks e k toks).out ≠ .fuel := by
  have hl := nu_init_le toks
  refine Tm.not_fuel (nf := 2 * toks.length + 3 ≤ k) (Q := fun _ _ => True) ?_ hk
  unfold parseLambdaToks
  refine Tm.bind (Tm.weaken (fun hn => by omega) ((allT e k).pm _ h)) ?_
  intro n s1 h1
  have l1 := h1.len
  refine Tm.bind (Tm.weaken (fun hn => by omega) ((allT e k).pr n 0 s1 h1.inv)) ?_
  rintro _ s2 ⟨h2, _⟩
  refine Tm.bind posd_tm ?_
  rintro _ _ rfl
  refine Tm.bind (expect_tm tEOF h2.inv) ?_
  intro _ _ _
  trivial

/-- Enough depth never yields `fuel` (`Parse`). -/
theorem parseToks_nofuel (e : PEnv) (k : Nat) (toks : List PTok) (h : Inv e { rest := toks })
    (hk : 2 * toks.length + 16 ≤ k) : (parseToks e k toks).out ≠ .fuel :=
  parseToks_nofuel' e k toks h (by omega)

/-- Enough depth never yields `fuel` (`ParseLambda`). -/
theorem parseLambdaToks_nofuel (e : PEnv) (k : Nat) (toks : List PTok) (h : Inv e { rest := toks })
    (hk : 2 * toks.length + 16 ≤ k) : (parseLambdaToks e k toks).out ≠ .fuel :=
  parseLambdaToks_nofuel' e k toks h (by omega)

end Kap.C05
