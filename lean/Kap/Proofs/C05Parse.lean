/-
C05 — the parser model (Kap/Model/C05Parse.lean) never reaches `trap`.

Hoare-style: `Safe r Q` = the outcome `r` is not `trap`, and if it is `ok a s` then `Q a s`. Every production
is shown `Safe` with a postcondition that re-establishes the invariant `Inv`:
  * `peekCount ≤ 2` (so every `p.token[…]` / `p.comments[…]` index is `< 2`),
  * every token in the buffer or still in the channel lies inside the text, has a real token type (`≤ 45`:
    the precedence table index) and, if it is a string / regex / reference, at least two bytes of text,
  * the pending tokens (buffered and not yet consumed, then the channel) come in non-decreasing position —
    which gives `start ≤ end` for every `p.text[start:end]` built from token / node positions.
The zero tokens read from the closed channel have type 0 and are left out of the ordering (`nz`): no node
position ever comes from a token of type 0.
-/
import Kap.Model.C05Parse
import Kap.Proofs.C05Len
namespace Kap.C05
set_option linter.unusedVariables false
set_option linter.unusedSimpArgs false

/-! ### Outcomes -/

def Safe {α : Type} (r : PR α) (Q : α → PS → Prop) : Prop :=
  match r with
  | .ok a s => Q a s
  | .trap => False
  | _ => True

theorem Safe.bind {α β : Type} {r : PR α} {f : α → PS → PR β} {Q : α → PS → Prop} {P : β → PS → Prop}
    (h : Safe r Q) (hf : ∀ a s, Q a s → Safe (f a s) P) : Safe (r.bind f) P := by
  cases r with
  | ok a s => exact hf a s h
  | err => trivial
  | trap => exact h
  | fuel => trivial

theorem Safe.mono {α : Type} {r : PR α} {Q P : α → PS → Prop} (h : Safe r Q) (hf : ∀ a s, Q a s → P a s) :
    Safe r P := by
  cases r with
  | ok a s => exact hf a s h
  | err => trivial
  | trap => exact h
  | fuel => trivial

theorem Safe.not_trap {α : Type} {r : PR α} {Q : α → PS → Prop} (h : Safe r Q) : r.out ≠ .trap := by
  cases r with
  | ok a s => simp [PR.out]
  | err => simp [PR.out]
  | trap => exact absurd h id
  | fuel => simp [PR.out]

/-! ### The invariant -/

structure TokOK (e : PEnv) (T : PTok) : Prop where
  p0 : 0 ≤ T.pos
  pl : T.pos ≤ e.c.len
  ty : T.typ ≤ 45
  tx : isLenTy T.typ = true → 2 ≤ (T.text e).length

theorem zeroTok_ok (e : PEnv) : TokOK e zeroTok :=
  ⟨by simp [zeroTok], by simp [zeroTok, Ctx.len], by simp [zeroTok], by intro h; exact absurd h (by decide)⟩

/-- Tokens received but not yet consumed (oldest first), then the channel. -/
def pending (s : PS) : List PTok :=
  (if s.pc = 0 then [] else if s.pc = 1 then [s.t0] else [s.t1, s.t0]) ++ s.rest

def nz (l : List PTok) : List PTok := l.filter (fun T => T.typ != 0)

def np (s : PS) : List PTok := nz (pending s)

/-- `L` is a lower bound of the position of every pending token (of non-zero type). -/
def LB (s : PS) (L : Int) : Prop := ∀ T ∈ np s, L ≤ T.pos

def Srt (l : List PTok) : Prop := l.Pairwise (fun a b => a.pos ≤ b.pos)

structure Inv (e : PEnv) (s : PS) : Prop where
  pc : s.pc ≤ 2
  k0 : TokOK e s.t0
  k1 : TokOK e s.t1
  kr : ∀ T ∈ s.rest, TokOK e T
  srt : Srt (np s)

/-- The pending tokens of `s'` are a suffix of those of `s`. -/
def Suf (s s' : PS) : Prop := np s' <:+ np s

theorem Suf.refl (s : PS) : Suf s s := List.suffix_refl _
theorem Suf.trans {a b c : PS} (h1 : Suf a b) (h2 : Suf b c) : Suf a c := List.IsSuffix.trans h2 h1
theorem Suf.of_eq {a b : PS} (h : np b = np a) : Suf a b := by unfold Suf; rw [h]; exact List.suffix_refl _

theorem LB.suf {s s' : PS} {L : Int} (h : LB s L) (hs : Suf s s') : LB s' L :=
  fun T hT => h T (hs.subset hT)

theorem LB.zero {e : PEnv} {s : PS} (h : Inv e s) : LB s 0 := by
  intro T hT
  have hm : T ∈ pending s := (List.mem_filter.mp hT).1
  unfold pending at hm
  rcases List.mem_append.mp hm with hm | hm
  · split at hm
    · cases hm
    · split at hm
      · rcases List.mem_singleton.mp hm with rfl; exact h.k0.p0
      · rcases List.mem_cons.mp hm with rfl | hm
        · exact h.k1.p0
        · rcases List.mem_singleton.mp hm with rfl; exact h.k0.p0
  · exact (h.kr T hm).p0

theorem Srt.suffix {a b : List PTok} (h : Srt a) (hs : b <:+ a) : Srt b := List.Pairwise.sublist hs.sublist h

/-- A `backup` now re-exposes `T`: it sits in the slot `token[peekCount]`. -/
def Last (s : PS) (T : PTok) : Prop := (s.pc = 0 ∧ s.t0 = T) ∨ (s.pc = 1 ∧ s.t1 = T)

/-- The token a `next` now returns is `T` (it was peeked). -/
def Peeked (s : PS) (T : PTok) : Prop := (s.pc = 1 ∧ s.t0 = T) ∨ (s.pc = 2 ∧ s.t1 = T)

theorem nz_single (T : PTok) : nz [T] = if T.typ = 0 then [] else [T] := by
  by_cases h : T.typ = 0 <;> simp [nz, h]

theorem nz_cons (T : PTok) (l : List PTok) : nz (T :: l) = nz [T] ++ nz l := by
  unfold nz; simp [List.filter_cons]; split <;> simp

/-! ### `next`, `peek`, `backup`, `consumeComment` -/

structure NextPost (e : PEnv) (s : PS) (T : PTok) (s' : PS) : Prop where
  inv : Inv e s'
  pc : s'.pc ≤ 1
  npe : np s = nz [T] ++ np s'
  last : Last s' T
  ok : TokOK e T
  same : ∀ U, Peeked s U → T = U

theorem recv_ok {e : PEnv} {r : List PTok} (h : ∀ T ∈ r, TokOK e T) :
    TokOK e (recv r).1 ∧ (∀ T ∈ (recv r).2, TokOK e T) ∧ nz r = nz [(recv r).1] ++ nz (recv r).2 := by
  cases r with
  | nil => exact ⟨zeroTok_ok e, by simp [recv], by simp [recv, nz, zeroTok]⟩
  | cons a r =>
    refine ⟨h a (List.mem_cons_self ..), fun T hT => h T (List.mem_cons_of_mem _ hT), ?_⟩
    simp only [recv]; exact nz_cons a r

theorem pnext_safe {e : PEnv} {s : PS} (h : Inv e s) : Safe (pnext s) (NextPost e s) := by
  obtain ⟨rest, t0, t1, pc⟩ := s
  have hpc : pc = 0 ∨ pc = 1 ∨ pc = 2 := by have := h.pc; simp at this; omega
  obtain ⟨hr1, hr2, hr3⟩ := recv_ok h.kr
  have hsrt := h.srt
  rcases hpc with rfl | rfl | rfl
  · simp only [pnext, Safe, Nat.lt_irrefl, if_false, if_true]
    simp only [np, pending, if_true, List.nil_append] at hsrt hr3 ⊢
    refine ⟨⟨by simp, hr1, h.k1, hr2, ?_⟩, by simp, ?_, Or.inl ⟨rfl, rfl⟩, hr1, ?_⟩
    rotate_left 2
    · intro U hU; rcases hU with ⟨hU, _⟩ | ⟨hU, _⟩ <;> simp at hU
    · simp only [np, pending, if_true, List.nil_append]
      rw [hr3] at hsrt
      exact Srt.suffix hsrt (List.suffix_append _ _)
    · simpa [np, pending] using hr3
  · simp only [pnext, Safe]
    simp only [np, pending] at hsrt ⊢
    refine ⟨⟨by simp, h.k0, h.k1, h.kr, ?_⟩, by simp, ?_, Or.inl ⟨rfl, rfl⟩, h.k0, ?_⟩
    rotate_left 2
    · intro U hU; rcases hU with ⟨_, hU⟩ | ⟨hU, _⟩
      · exact hU
      · simp at hU
    · simp at hsrt ⊢
      rw [nz_cons] at hsrt
      exact Srt.suffix hsrt (List.suffix_append _ _)
    · simp; exact nz_cons _ _
  · simp only [pnext, Safe]
    simp only [np, pending] at hsrt ⊢
    refine ⟨⟨by simp, h.k0, h.k1, h.kr, ?_⟩, by simp, ?_, Or.inr ⟨rfl, rfl⟩, h.k1, ?_⟩
    rotate_left 2
    · intro U hU; rcases hU with ⟨hU, _⟩ | ⟨_, hU⟩
      · simp at hU
      · exact hU
    · simp at hsrt ⊢
      rw [nz_cons] at hsrt
      exact Srt.suffix hsrt (List.suffix_append _ _)
    · simp; exact nz_cons _ _

theorem NextPost.suf {e : PEnv} {s s' : PS} {T : PTok} (h : NextPost e s T s') : Suf s s' := by
  unfold Suf; rw [h.npe]; exact List.suffix_append _ _

/-- After consuming `T`, every pending token lies at or after it. -/
theorem NextPost.lb {e : PEnv} {s s' : PS} {T : PTok} (h : NextPost e s T s') (hs : Inv e s) (hT : T.typ ≠ 0) :
    LB s' T.pos := by
  have := hs.srt
  rw [h.npe, nz_single, if_neg hT] at this
  intro U hU
  exact (List.pairwise_cons.mp this).1 U hU

/-- A consumed token of non-zero type lies at or after every lower bound of the pending tokens. -/
theorem NextPost.lo {e : PEnv} {s s' : PS} {T : PTok} (h : NextPost e s T s') {L : Int} (hL : LB s L)
    (hT : T.typ ≠ 0) : L ≤ T.pos := by
  apply hL; rw [h.npe, nz_single, if_neg hT]; exact List.mem_cons_self ..

structure PeekPost (e : PEnv) (s : PS) (T : PTok) (s' : PS) : Prop where
  inv : Inv e s'
  npe : np s' = np s
  pc1 : s.pc ≤ 1 → s'.pc ≤ 1
  last : ∀ U, Last s U → Last s' U
  ok : TokOK e T
  hd : T.typ ≠ 0 → T ∈ np s'
  pk : Peeked s' T

theorem ppeek_safe {e : PEnv} {s : PS} (h : Inv e s) : Safe (ppeek s) (PeekPost e s) := by
  obtain ⟨rest, t0, t1, pc⟩ := s
  have hpc : pc = 0 ∨ pc = 1 ∨ pc = 2 := by have := h.pc; simp at this; omega
  obtain ⟨hr1, hr2, hr3⟩ := recv_ok h.kr
  have hsrt := h.srt
  rcases hpc with rfl | rfl | rfl
  · simp only [ppeek, Safe, Nat.lt_irrefl, if_false]
    have e1 : np { rest := (recv rest).2, t0 := (recv rest).1, t1 := t0, pc := 1 } = np { rest := rest, t0 := t0, t1 := t1, pc := 0 } := by
      simp [np, pending]; rw [nz_cons, hr3]
    refine ⟨⟨by simp, hr1, h.k0, hr2, ?_⟩, e1, by simp, ?_, hr1, ?_, Or.inl ⟨rfl, rfl⟩⟩
    · rw [e1]; exact hsrt
    · intro U hU
      rcases hU with ⟨_, hU⟩ | ⟨hU, _⟩
      · exact Or.inr ⟨rfl, hU⟩
      · simp at hU
    · intro hT
      simp [np, pending]; rw [nz_cons, nz_single, if_neg hT]; simp
  · simp only [ppeek, Safe]
    refine ⟨h, rfl, fun h => h, fun U hU => hU, h.k0, ?_, Or.inl ⟨rfl, rfl⟩⟩
    intro hT
    simp [np, pending]; rw [nz_cons, nz_single, if_neg hT]; simp
  · simp only [ppeek, Safe]
    refine ⟨h, rfl, fun h => h, fun U hU => hU, h.k1, ?_, Or.inr ⟨rfl, rfl⟩⟩
    intro hT
    simp [np, pending]; rw [nz_cons, nz_single, if_neg hT]; simp

theorem PeekPost.suf {e : PEnv} {s s' : PS} {T : PTok} (h : PeekPost e s T s') : Suf s s' := Suf.of_eq h.npe

theorem PeekPost.lo {e : PEnv} {s s' : PS} {T : PTok} (h : PeekPost e s T s') {L : Int} (hL : LB s L)
    (hT : T.typ ≠ 0) : L ≤ T.pos := by
  apply hL; rw [← h.npe]; exact h.hd hT

/-- `backup` after a `next` that returned `T` (possibly with a `peek` in between): the pending tokens are
again those of the state `s0` before that `next`. -/
theorem backup_spec {e : PEnv} {s s0 : PS} {T : PTok} (h : Inv e s) (hl : Last s T) (h0 : Inv e s0)
    (hnp : np s0 = nz [T] ++ np s) : Inv e (pbackup s) ∧ np (pbackup s) = np s0 := by
  obtain ⟨rest, t0, t1, pc⟩ := s
  have e1 : np (pbackup { rest := rest, t0 := t0, t1 := t1, pc := pc }) = np s0 := by
    rw [hnp]
    rcases hl with ⟨hp, ht⟩ | ⟨hp, ht⟩
    · simp at hp ht; subst hp; subst ht
      simp [np, pending, pbackup]; exact nz_cons _ _
    · simp at hp ht; subst hp; subst ht
      simp [np, pending, pbackup]; rw [nz_cons t1]
  refine ⟨⟨?_, h.k0, h.k1, h.kr, ?_⟩, e1⟩
  · rcases hl with ⟨hp, _⟩ | ⟨hp, _⟩ <;> simp at hp <;> simp [pbackup, hp]
  · rw [e1]; exact h0.srt

theorem consumeComment_safe {s : PS} (hpc : s.pc ≤ 1) : Safe (consumeComment s) (fun _ s' => s = s') := by
  unfold consumeComment; rw [if_pos (by omega)]; exact rfl

theorem posd_safe {e : PEnv} {p : Int} {s : PS} (h0 : 0 ≤ p) (h1 : p ≤ e.c.len) :
    Safe (posd e p s) (fun _ s' => s = s') := by
  unfold posd; rw [if_pos ⟨h0, h1⟩]; exact rfl

theorem hasNL_safe {e : PEnv} {a b : Int} {s : PS} (h0 : 0 ≤ a) (h1 : a ≤ b) (h2 : b ≤ e.c.len) :
    Safe (hasNL e a b s) (fun _ s' => s = s') := by
  unfold hasNL; rw [if_pos ⟨h0, h1, h2⟩]; exact rfl

theorem mk_safe {e : PEnv} {p : Int} {k : NK} {s : PS} (h0 : 0 ≤ p) (h1 : p ≤ e.c.len) :
    Safe (mk e p k s) (fun n s' => n = ⟨p, k⟩ ∧ s = s') := by
  unfold mk
  refine Safe.bind (posd_safe h0 h1) ?_
  rintro _ _ rfl
  exact ⟨rfl, rfl⟩

theorem mkC_safe {e : PEnv} {p : Int} {k : NK} {s : PS} (h0 : 0 ≤ p) (h1 : p ≤ e.c.len) (hpc : s.pc ≤ 1) :
    Safe (mkC e p k s) (fun n s' => n = ⟨p, k⟩ ∧ s = s') := by
  unfold mkC
  refine Safe.bind (posd_safe h0 h1) ?_
  rintro _ _ rfl
  refine Safe.bind (consumeComment_safe hpc) ?_
  rintro _ _ rfl
  exact ⟨rfl, rfl⟩

theorem unexpected_safe {α : Type} {e : PEnv} {T : PTok} (h : TokOK e T) (P : α → PS → Prop) :
    Safe (unexpected e T : PR α) P := by
  have := h.p0; have := h.pl
  unfold unexpected
  by_cases h1 : T.pos - 10 < 0 <;> by_cases h2 : T.pos + 10 > e.c.len <;>
    simp only [h1, h2, if_true, if_false] <;> repeat' split
  all_goals first | trivial | (exfalso; omega)

theorem expect_safe {e : PEnv} {s : PS} (ty : Nat) (h : Inv e s) :
    Safe (expect e ty s) (fun T s' => NextPost e s T s' ∧ T.typ = ty) := by
  unfold expect
  refine Safe.bind (pnext_safe h) ?_
  intro T s1 h1
  split
  · rename_i hty; exact ⟨h1, hty⟩
  · exact unexpected_safe h1.ok _

/-! ### Literal constructors -/

theorem unescLoop_some (lit : Bytes) (q : Nat) :
    ∀ k i last acc, last ≤ i → i ≤ lit.length → (unescLoop lit q k i last acc).isSome = true := by
  intro k
  induction k with
  | zero =>
    intro i last acc h1 h2
    unfold unescLoop; rw [if_pos (by omega)]; rfl
  | succ k ih =>
    intro i last acc h1 h2
    unfold unescLoop
    by_cases hlt : i + 1 < lit.length
    · rw [if_pos hlt]
      have e1 : lit[i]? = some lit[i] := List.getElem?_eq_getElem (by omega)
      have e2 : lit[i+1]? = some lit[i+1] := List.getElem?_eq_getElem hlt
      rw [e1, e2]
      simp only []
      split
      · rw [if_pos ⟨h1, h2⟩]; exact ih _ _ _ (by omega) (by omega)
      · exact ih _ _ _ (by omega) (by omega)
    · rw [if_neg hlt, if_pos (by omega)]; rfl

theorem unescape_some (lit : Bytes) (q : Nat) : (unescape lit q).isSome = true :=
  unescLoop_some lit q _ 0 0 [] (Nat.le_refl _) (Nat.zero_le _)

theorem inner1_some {txt : Bytes} (h : 2 ≤ txt.length) : ∃ lit, inner1 txt = some lit := by
  unfold inner1; rw [if_neg (by omega)]; exact ⟨_, rfl⟩

/-- `newString` on a text of at least two bytes evaluates no slice / index out of range. -/
theorem newStringOk_true {txt : Bytes} (h : 2 ≤ txt.length) : newStringOk txt = true := by
  unfold newStringOk
  split
  · rfl
  · obtain ⟨lit, hl⟩ := inner1_some h
    rw [hl]
    cases txt with
    | nil => simp at h
    | cons a r => simp only [List.head?_cons]; exact unescape_some _ _

/-! ### Postconditions of the productions -/

structure Post (e : PEnv) (m : Nat) (base : List Int) (s : PS) (n : Node) (s' : PS) : Prop where
  inv : Inv e s'
  pc : s'.pc ≤ m
  suf : Suf s s'
  p0 : 0 ≤ n.pos
  pl : n.pos ≤ e.c.len
  lo : ∀ L, LB s L → (∀ b ∈ base, L ≤ b) → L ≤ n.pos

structure PostL (e : PEnv) (s : PS) (ps : List Int) (s' : PS) : Prop where
  inv : Inv e s'
  suf : Suf s s'
  all : ∀ q ∈ ps, 0 ≤ q ∧ q ≤ e.c.len ∧ ∀ L, LB s L → L ≤ q

structure PostU (e : PEnv) (s : PS) (s' : PS) : Prop where
  inv : Inv e s'
  suf : Suf s s'

theorem Post.pre {e : PEnv} {m : Nat} {base : List Int} {s s1 s2 : PS} {n : Node} (h : Post e m base s1 n s2)
    (hs : Suf s s1) : Post e m base s n s2 :=
  ⟨h.inv, h.pc, hs.trans h.suf, h.p0, h.pl, fun L hL hb => h.lo L (hL.suf hs) hb⟩

theorem Post.seq {e : PEnv} {m m' : Nat} {base : List Int} {s s1 s2 s3 : PS} {n1 n2 : Node}
    (h1 : Post e m base s1 n1 s2) (hs : Suf s s1) (h2 : Post e m' [n1.pos] s2 n2 s3) : Post e m' base s n2 s3 :=
  ⟨h2.inv, h2.pc, hs.trans (h1.suf.trans h2.suf), h2.p0, h2.pl, fun L hL hb =>
    h2.lo L ((hL.suf hs).suf h1.suf) (by
      intro b hb'; rcases List.mem_singleton.mp hb' with rfl
      exact h1.lo L (hL.suf hs) hb)⟩

theorem Post.base {e : PEnv} {m : Nat} {base : List Int} {s s' : PS} {n : Node} (h : Post e m [] s n s') :
    Post e m base s n s' :=
  ⟨h.inv, h.pc, h.suf, h.p0, h.pl, fun L hL _ => h.lo L hL (by simp)⟩

theorem Post.le {e : PEnv} {m m' : Nat} {base : List Int} {s s' : PS} {n : Node} (h : Post e m base s n s')
    (hm : m ≤ m') : Post e m' base s n s' :=
  ⟨h.inv, Nat.le_trans h.pc hm, h.suf, h.p0, h.pl, h.lo⟩

theorem Post.self {e : PEnv} {m : Nat} {s s' : PS} {n : Node} (hi : Inv e s') (hpc : s'.pc ≤ m) (hs : Suf s s')
    (h0 : 0 ≤ n.pos) (h1 : n.pos ≤ e.c.len) : Post e m [n.pos] s n s' :=
  ⟨hi, hpc, hs, h0, h1, fun L _ hb => hb _ (List.mem_singleton.mpr rfl)⟩

/-- A node built at the position of a token (of non-zero type) that was just consumed. -/
theorem Post.ofNext {e : PEnv} {s s1 : PS} {T : PTok} {k : NK} (h1 : NextPost e s T s1) (hT : T.typ ≠ 0) :
    Post e 1 [] s ⟨T.pos, k⟩ s1 :=
  ⟨h1.inv, h1.pc, h1.suf, h1.ok.p0, h1.ok.pl, fun L hL _ => h1.lo hL hT⟩

theorem text_len {e : PEnv} {T : PTok} (h : TokOK e T) (hl : isLenTy T.typ = true) : 2 ≤ (T.text e).length := h.tx hl

/-! ### Leaf productions -/

theorem lit_tail {e : PEnv} {s s1 : PS} {T : PTok} {k : NK} (h1 : NextPost e s T s1) (hT : T.typ ≠ 0)
    (body : PS → PR Node) (hb : body s1 = .ok ⟨T.pos, k⟩ s1 ∨ body s1 = .err) :
    Safe ((posd e T.pos s1).bind fun _ s => (consumeComment s).bind fun _ s2 => body s2) (Post e 1 [] s) := by
  refine Safe.bind (posd_safe h1.ok.p0 h1.ok.pl) ?_
  rintro _ _ rfl
  refine Safe.bind (consumeComment_safe h1.pc) ?_
  rintro _ _ rfl
  rcases hb with hb | hb <;> rw [hb]
  · exact Post.ofNext h1 hT
  · trivial

theorem identifier_safe {e : PEnv} {s : PS} (h : Inv e s) : Safe (identifier e s) (Post e 1 [] s) := by
  unfold identifier
  refine Safe.bind (expect_safe tIdent h) ?_
  rintro T s1 ⟨h1, hT⟩
  refine Safe.mono (mkC_safe h1.ok.p0 h1.ok.pl h1.pc) ?_
  rintro n s' ⟨rfl, rfl⟩
  exact Post.ofNext h1 (by rw [hT]; decide)

theorem star_safe {e : PEnv} {s : PS} (h : Inv e s) : Safe (star e s) (Post e 1 [] s) := by
  unfold star
  refine Safe.bind (expect_safe tStar h) ?_
  rintro T s1 ⟨h1, hT⟩
  refine Safe.mono (mkC_safe h1.ok.p0 h1.ok.pl h1.pc) ?_
  rintro n s' ⟨rfl, rfl⟩
  exact Post.ofNext h1 (by rw [hT]; decide)

/-- `boolean` is entered after a `peek` that saw `TRUE` / `FALSE`. -/
theorem boolean_safe {e : PEnv} {s : PS} (h : Inv e s) {U : PTok} (hp : Peeked s U) (hU : U.typ ≠ 0) :
    Safe (boolean e s) (Post e 1 [] s) := by
  unfold boolean
  refine Safe.bind (pnext_safe h) ?_
  intro T s1 h1
  have hT : T = U := h1.same U hp
  refine Safe.mono (mkC_safe h1.ok.p0 h1.ok.pl h1.pc) ?_
  rintro n s' ⟨rfl, rfl⟩
  exact Post.ofNext h1 (by rw [hT]; exact hU)

theorem pstring_safe {e : PEnv} {s : PS} (h : Inv e s) : Safe (pstring e s) (Post e 1 [] s) := by
  unfold pstring
  refine Safe.bind (expect_safe tString h) ?_
  rintro T s1 ⟨h1, hT⟩
  refine lit_tail (k := .other) h1 (by rw [hT]; decide) _ (Or.inl ?_)
  rw [if_pos (newStringOk_true (h1.ok.tx (by rw [hT]; decide)))]

theorem reference_safe {e : PEnv} {s : PS} (h : Inv e s) :
    Safe (reference e s) (fun n s' => Post e 1 [] s n s' ∧ n.kind = .ref) := by
  unfold reference
  refine Safe.bind (expect_safe tReference h) ?_
  rintro T s1 ⟨h1, hT⟩
  obtain ⟨lit, hl⟩ := inner1_some (h1.ok.tx (by rw [hT]; decide))
  refine Safe.bind (posd_safe h1.ok.p0 h1.ok.pl) ?_
  rintro _ _ rfl
  refine Safe.bind (consumeComment_safe h1.pc) ?_
  rintro _ _ rfl
  rw [hl]
  simp only [unescape_some, if_true]
  exact ⟨Post.ofNext h1 (by rw [hT]; decide), rfl⟩

theorem regex_safe {e : PEnv} {s : PS} (h : Inv e s) : Safe (regex e s) (Post e 1 [] s) := by
  unfold regex
  refine Safe.bind (expect_safe tRegex h) ?_
  rintro T s1 ⟨h1, hT⟩
  obtain ⟨lit, hl⟩ := inner1_some (h1.ok.tx (by rw [hT]; decide))
  have hu := unescape_some lit 0x2F
  obtain ⟨u, hu'⟩ := Option.isSome_iff_exists.mp hu
  refine lit_tail (k := .other) h1 (by rw [hT]; decide) _ ?_
  rw [hl]; simp only [hu']
  by_cases hr : e.o.reOk u = true
  · left; rw [if_pos hr]
  · right; rw [if_neg hr]

theorem number_safe {e : PEnv} {s : PS} (h : Inv e s) : Safe (number e s) (Post e 1 [] s) := by
  unfold number
  refine Safe.bind (expect_safe tNumber h) ?_
  rintro T s1 ⟨h1, hT⟩
  refine lit_tail (k := .other) h1 (by rw [hT]; decide) _ ?_
  by_cases h1 : (T.text e).isEmpty = true
  · right; rw [if_pos h1]
  · rw [if_neg h1]
    by_cases h2 : e.o.numOk (T.text e) = true
    · left; rw [if_pos h2]
    · right; rw [if_neg h2]

theorem duration_safe {e : PEnv} {s : PS} (h : Inv e s) : Safe (duration e s) (Post e 1 [] s) := by
  unfold duration
  refine Safe.bind (expect_safe tDuration h) ?_
  rintro T s1 ⟨h1, hT⟩
  refine lit_tail (k := .other) h1 (by rw [hT]; decide) _ ?_
  by_cases h2 : e.o.durOk (T.text e) = true
  · left; rw [if_pos h2]
  · right; rw [if_neg h2]

theorem stringItem_safe {e : PEnv} {s : PS} (h : Inv e s) : Safe (stringItem e s) (Post e 1 [] s) := by
  unfold stringItem
  refine Safe.bind (ppeek_safe h) ?_
  intro T s1 h1
  split
  · exact (identifier_safe h1.inv).mono fun n s' hp => hp.pre h1.suf
  · split
    · exact (pstring_safe h1.inv).mono fun n s' hp => hp.pre h1.suf
    · split
      · exact (star_safe h1.inv).mono fun n s' hp => hp.pre h1.suf
      · exact unexpected_safe h1.ok _

theorem stringListLoop_safe {e : PEnv} : ∀ k s, Inv e s → Safe (stringListLoop e k s) (fun _ s' => PostU e s s') := by
  intro k
  induction k with
  | zero => intro s h; trivial
  | succ k ih =>
    intro s h
    simp only [stringListLoop]
    refine Safe.bind (ppeek_safe h) ?_
    intro T s1 h1
    split
    · exact ⟨h1.inv, h1.suf⟩
    · refine Safe.bind (stringItem_safe h1.inv) ?_
      intro _ s2 h2
      refine Safe.bind (pnext_safe h2.inv) ?_
      intro T2 s3 h3
      split
      · have hb := backup_spec h3.inv h3.last h2.inv h3.npe
        exact ⟨hb.1, h1.suf.trans (h2.suf.trans (Suf.of_eq hb.2))⟩
      · exact (ih s3 h3.inv).mono fun _ s' hp => ⟨hp.inv, h1.suf.trans (h2.suf.trans (h3.suf.trans hp.suf))⟩

theorem stringList_safe {e : PEnv} (k : Nat) {s : PS} (h : Inv e s) : Safe (stringList e k s) (Post e 1 [] s) := by
  unfold stringList
  refine Safe.bind (expect_safe tLSBracket h) ?_
  rintro T s1 ⟨h1, hT⟩
  refine Safe.bind (consumeComment_safe h1.pc) ?_
  rintro _ _ rfl
  refine Safe.bind (stringListLoop_safe k s1 h1.inv) ?_
  intro _ s2 h2
  refine Safe.bind (expect_safe tRSBracket h2.inv) ?_
  rintro T3 s3 ⟨h3, _⟩
  refine Safe.mono (mk_safe h1.ok.p0 h1.ok.pl) ?_
  rintro n s' ⟨rfl, rfl⟩
  exact ⟨h3.inv, h3.pc, h1.suf.trans (h2.suf.trans h3.suf), h1.ok.p0, h1.ok.pl,
    fun L hL _ => h1.lo hL (by rw [hT]; decide)⟩

/-! ### The mutually recursive productions: induction on the fuel -/

theorem precAt_some {e : PEnv} {T : PTok} (h : TokOK e T) : ∃ p, precAt T.typ = some p := by
  have := h.ty
  unfold precAt; rw [if_pos (by omega)]; exact ⟨_, rfl⟩

theorem exprOp_ne_zero {t : Nat} (h : isExprOperator 25 47 t = true) : t ≠ 0 := by
  intro h0; rw [h0] at h; exact absurd h (by decide)

theorem lhsEnd_some (e : PEnv) (lp : Int) :
    ∀ k x, 0 ≤ lp → 0 ≤ x → x ≤ e.c.len → ∃ y, lhsEnd e lp k x = some y ∧ 0 ≤ y ∧ y ≤ x := by
  intro k
  induction k with
  | zero => intro x _ h0 _; exact ⟨x, rfl, h0, Int.le_refl _⟩
  | succ k ih =>
    intro x hl h0 h1
    unfold lhsEnd
    by_cases hx : x > lp
    · rw [if_pos hx, if_pos ⟨by omega, by omega⟩]
      split
      · obtain ⟨y, hy, hy0, hy1⟩ := ih (x - 1) hl (by omega) (by omega)
        exact ⟨y, hy, hy0, by omega⟩
      · exact ⟨x, rfl, h0, Int.le_refl _⟩
    · rw [if_neg hx]; exact ⟨x, rfl, h0, Int.le_refl _⟩

structure All (e : PEnv) (k : Nat) : Prop where
  ex : ∀ s, Inv e s → Safe (expression e k s) (Post e 2 [] s)
  ch : ∀ lhs s, Inv e s → 0 ≤ lhs.pos → lhs.pos ≤ e.c.len → Safe (chain e k lhs s) (Post e 2 [lhs.pos] s)
  fn : ∀ s, Inv e s → Safe (function e k s) (Post e 1 [] s)
  ps : ∀ s, Inv e s → Safe (parameters e k s) (PostL e s)
  pr : ∀ lhs minP s, Inv e s → 0 ≤ lhs.pos → lhs.pos ≤ e.c.len →
    Safe (precedence e k lhs minP s) (Post e 2 [lhs.pos] s)
  inn : ∀ rhs po s, Inv e s → 0 ≤ rhs.pos → rhs.pos ≤ e.c.len → Safe (inner e k rhs po s) (Post e 2 [rhs.pos] s)
  lf : ∀ s, Inv e s → Safe (lfunction e k s) (Post e 1 [] s)
  lps : ∀ s, Inv e s → Safe (lparameters e k s) (PostL e s)
  pm : ∀ s, Inv e s → Safe (primary e k s) (Post e 1 [] s)

theorem all_zero (e : PEnv) : All e 0 := by
  constructor <;> intros <;> simp only [expression, chain, function, parameters, precedence, inner, lfunction,
    lparameters, primary] <;> trivial

/-- the tail shared by `function` and `lfunction` -/
theorem func_tail {e : PEnv} {s s1 s4 : PS} {I : PTok} {args : List Int} (hs : Inv e s) (h1 : NextPost e s I s1)
    (hI : I.typ ≠ 0) (h4 : Inv e s4) (hpc : s4.pc ≤ 1) (hsuf : Suf s1 s4)
    (hall : ∀ q ∈ args, 0 ≤ q ∧ q ≤ e.c.len ∧ I.pos ≤ q) :
    Safe (match args.getLast? with
      | none => mk e I.pos .other s4
      | some q => (hasNL e I.pos q s4).bind fun _ s => mk e I.pos .other s) (Post e 1 [] s) := by
  have hpost : Post e 1 [] s ⟨I.pos, .other⟩ s4 :=
    ⟨h4, hpc, h1.suf.trans hsuf, h1.ok.p0, h1.ok.pl, fun L hL _ => h1.lo hL hI⟩
  split
  · refine Safe.mono (mk_safe h1.ok.p0 h1.ok.pl) ?_
    rintro n s' ⟨rfl, rfl⟩; exact hpost
  · rename_i q hq
    obtain ⟨q0, q1, q2⟩ := hall q (List.mem_of_getLast? hq)
    refine Safe.bind (hasNL_safe h1.ok.p0 q2 q1) ?_
    rintro _ _ rfl
    refine Safe.mono (mk_safe h1.ok.p0 h1.ok.pl) ?_
    rintro n s' ⟨rfl, rfl⟩; exact hpost

theorem function_succ {e : PEnv} {k : Nat} (ih : All e k) : ∀ s, Inv e s → Safe (function e (k + 1) s) (Post e 1 [] s) := by
  intro s hs
  simp only [function]
  refine Safe.bind (expect_safe tIdent hs) ?_
  rintro I s1 ⟨h1, hI⟩
  have hI0 : I.typ ≠ 0 := by rw [hI]; decide
  refine Safe.bind (consumeComment_safe h1.pc) ?_
  rintro _ _ rfl
  refine Safe.bind (expect_safe tLParen h1.inv) ?_
  rintro _ s2 ⟨h2, _⟩
  refine Safe.bind (ih.ps s2 h2.inv) ?_
  intro args s3 h3
  refine Safe.bind (expect_safe tRParen h3.inv) ?_
  rintro _ s4 ⟨h4, _⟩
  refine func_tail hs h1 hI0 h4.inv h4.pc (h2.suf.trans (h3.suf.trans h4.suf)) ?_
  intro q hq
  obtain ⟨q0, q1, q2⟩ := h3.all q hq
  exact ⟨q0, q1, q2 _ ((h1.lb hs hI0).suf h2.suf)⟩

theorem lfunction_succ {e : PEnv} {k : Nat} (ih : All e k) : ∀ s, Inv e s → Safe (lfunction e (k + 1) s) (Post e 1 [] s) := by
  intro s hs
  simp only [lfunction]
  refine Safe.bind (expect_safe tIdent hs) ?_
  rintro I s1 ⟨h1, hI⟩
  have hI0 : I.typ ≠ 0 := by rw [hI]; decide
  refine Safe.bind (expect_safe tLParen h1.inv) ?_
  rintro _ s2 ⟨h2, _⟩
  refine Safe.bind (ih.lps s2 h2.inv) ?_
  intro args s3 h3
  refine Safe.bind (expect_safe tRParen h3.inv) ?_
  rintro _ s4 ⟨h4, _⟩
  refine func_tail hs h1 hI0 h4.inv h4.pc (h2.suf.trans (h3.suf.trans h4.suf)) ?_
  intro q hq
  obtain ⟨q0, q1, q2⟩ := h3.all q hq
  exact ⟨q0, q1, q2 _ ((h1.lb hs hI0).suf h2.suf)⟩

/-- the tail shared by `parameters` and `lparameters`: the argument `a` was parsed from `s1` to `s2` -/
theorem params_tail {e : PEnv} {s s1 s2 : PS} {a : Node} (rec : PS → PR (List Int))
    (hrec : ∀ s, Inv e s → Safe (rec s) (PostL e s)) (hs1 : Suf s s1) (h2 : Post e 2 [] s1 a s2) :
    Safe ((pnext s2).bind fun T2 s =>
      if T2.typ ≠ tComma then .ok [a.pos] (pbackup s)
      else (rec s).bind fun rest s => .ok (a.pos :: rest) s) (PostL e s) := by
  have ha : 0 ≤ a.pos ∧ a.pos ≤ e.c.len ∧ ∀ L, LB s L → L ≤ a.pos :=
    ⟨h2.p0, h2.pl, fun L hL => h2.lo L (hL.suf hs1) (by simp)⟩
  refine Safe.bind (pnext_safe h2.inv) ?_
  intro T2 s3 h3
  split
  · have hb := backup_spec h3.inv h3.last h2.inv h3.npe
    refine ⟨hb.1, hs1.trans (h2.suf.trans (Suf.of_eq hb.2)), ?_⟩
    intro q hq; rcases List.mem_singleton.mp hq with rfl; exact ha
  · refine Safe.bind (hrec s3 h3.inv) ?_
    intro rest s4 h4
    have hsuf : Suf s s3 := hs1.trans (h2.suf.trans h3.suf)
    refine ⟨h4.inv, hsuf.trans h4.suf, ?_⟩
    intro q hq
    rcases List.mem_cons.mp hq with rfl | hq
    · exact ha
    · obtain ⟨q0, q1, q2⟩ := h4.all q hq
      exact ⟨q0, q1, fun L hL => q2 L (hL.suf hsuf)⟩

theorem parameters_succ {e : PEnv} {k : Nat} (ih : All e k) : ∀ s, Inv e s → Safe (parameters e (k + 1) s) (PostL e s) := by
  intro s hs
  simp only [parameters]
  refine Safe.bind (ppeek_safe hs) ?_
  intro T s1 h1
  split
  · exact ⟨h1.inv, h1.suf, by simp⟩
  · refine Safe.bind (ih.ex s1 h1.inv) ?_
    intro a s2 h2
    exact params_tail (parameters e k) ih.ps h1.suf h2

theorem lparameters_succ {e : PEnv} {k : Nat} (ih : All e k) : ∀ s, Inv e s → Safe (lparameters e (k + 1) s) (PostL e s) := by
  intro s hs
  simp only [lparameters]
  refine Safe.bind (ppeek_safe hs) ?_
  intro T s1 h1
  split
  · exact ⟨h1.inv, h1.suf, by simp⟩
  · refine Safe.bind (ih.pm s1 h1.inv) ?_
    intro n s2 h2
    refine Safe.bind (ppeek_safe h2.inv) ?_
    intro T1 s3 h3
    refine Safe.bind (Q := Post e 2 [] s1) ?_ ?_
    · split
      · exact (ih.pr n 0 s3 h3.inv h2.p0 h2.pl).mono fun a s' hp => h2.seq (Suf.refl _) (hp.pre h3.suf)
      · exact (h2.le (m' := 2) (by decide)).seq (Suf.refl _) (Post.self h3.inv (by have := h3.inv.pc; omega) h3.suf h2.p0 h2.pl)
    · intro a s4 h4
      exact params_tail (lparameters e k) ih.lps h1.suf h4

theorem inner_succ {e : PEnv} {k : Nat} (ih : All e k) : ∀ rhs po s, Inv e s → 0 ≤ rhs.pos → rhs.pos ≤ e.c.len →
    Safe (inner e (k + 1) rhs po s) (Post e 2 [rhs.pos] s) := by
  intro rhs po s hs h0 hl
  simp only [inner]
  refine Safe.bind (ppeek_safe hs) ?_
  intro look s1 h1
  have hself : Post e 2 [rhs.pos] s rhs s1 := Post.self h1.inv h1.inv.pc h1.suf h0 hl
  split
  · split
    · rename_i heq; obtain ⟨p, hp⟩ := precAt_some h1.ok; rw [hp] at heq; cases heq
    · split
      · refine Safe.bind (ih.pr rhs _ s1 h1.inv h0 hl) ?_
        intro rhs2 s2 h2
        exact (ih.inn rhs2 po s2 h2.inv h2.p0 h2.pl).mono fun n s' hp => h2.seq h1.suf hp
      · exact hself
  · exact hself

theorem precedence_succ {e : PEnv} {k : Nat} (ih : All e k) : ∀ lhs minP s, Inv e s → 0 ≤ lhs.pos → lhs.pos ≤ e.c.len →
    Safe (precedence e (k + 1) lhs minP s) (Post e 2 [lhs.pos] s) := by
  intro lhs minP s hs h0 hl
  simp only [precedence]
  refine Safe.bind (ppeek_safe hs) ?_
  intro look s1 h1
  have hself : Post e 2 [lhs.pos] s lhs s1 := Post.self h1.inv h1.inv.pc h1.suf h0 hl
  split
  · rename_i hop
    have hlook := exprOp_ne_zero hop
    split
    · rename_i heq; obtain ⟨p, hp⟩ := precAt_some h1.ok; rw [hp] at heq; cases heq
    · split
      · refine Safe.bind (pnext_safe h1.inv) ?_
        intro op s2 h2
        have hop' : op = look := h2.same _ h1.pk
        subst hop'
        refine Safe.bind (consumeComment_safe h2.pc) ?_
        rintro _ _ rfl
        refine Safe.bind (ih.pm s2 h2.inv) ?_
        intro rhs s3 h3
        have hlb2 : LB s2 op.pos := h2.lb h1.inv hlook
        split
        · rename_i heq; obtain ⟨p, hp⟩ := precAt_some h2.ok; rw [hp] at heq; cases heq
        · refine Safe.bind (ih.inn rhs _ s3 h3.inv h3.p0 h3.pl) ?_
          intro rhs' s4 h4
          have hr : op.pos ≤ rhs'.pos := h4.lo _ (hlb2.suf h3.suf) (by
            intro b hb; rcases List.mem_singleton.mp hb with rfl
            exact h3.lo _ hlb2 (by simp))
          split
          · rename_i heq
            obtain ⟨y, hy, _, _⟩ := lhsEnd_some e lhs.pos (e.c.inp.length + 1) op.pos h0 h2.ok.p0 h2.ok.pl
            rw [hy] at heq; cases heq
          · rename_i le heq
            obtain ⟨y, hy, hy0, hy1⟩ := lhsEnd_some e lhs.pos (e.c.inp.length + 1) op.pos h0 h2.ok.p0 h2.ok.pl
            rw [hy] at heq; cases heq
            refine Safe.bind (hasNL_safe hy0 (by omega) h4.pl) ?_
            rintro _ _ rfl
            refine Safe.bind (mk_safe h2.ok.p0 h2.ok.pl) ?_
            rintro n s' ⟨rfl, rfl⟩
            have hsuf : Suf s s4 := h1.suf.trans (h2.suf.trans (h3.suf.trans h4.suf))
            refine (ih.pr _ minP s4 h4.inv h2.ok.p0 h2.ok.pl).mono fun n s' hp => ?_
            exact ⟨hp.inv, hp.pc, hsuf.trans hp.suf, hp.p0, hp.pl, fun L hL hb =>
              hp.lo L (hL.suf hsuf) (by
                intro b hb'; rcases List.mem_singleton.mp hb' with rfl
                exact h2.lo (hL.suf h1.suf) hlook)⟩
      · exact hself
  · exact hself

theorem primary_succ {e : PEnv} {k : Nat} (ih : All e k) : ∀ s, Inv e s → Safe (primary e (k + 1) s) (Post e 1 [] s) := by
  intro s hs
  simp only [primary]
  refine Safe.bind (ppeek_safe hs) ?_
  intro tok s1 h1
  split
  · -- ( expr )
    refine Safe.bind (pnext_safe h1.inv) ?_
    intro _ s2 h2
    refine Safe.bind (consumeComment_safe h2.pc) ?_
    rintro _ _ rfl
    refine Safe.bind (ih.pm s2 h2.inv) ?_
    intro n s3 h3
    refine Safe.bind (ih.pr n 0 s3 h3.inv h3.p0 h3.pl) ?_
    intro n' s4 h4
    refine Safe.bind (expect_safe tRParen h4.inv) ?_
    rintro _ s5 ⟨h5, _⟩
    have h34 : Post e 2 [] s n' s4 := h3.seq (h1.suf.trans h2.suf) h4
    exact ⟨h5.inv, h5.pc, h34.suf.trans h5.suf, h34.p0, h34.pl, h34.lo⟩
  · split
    · exact (number_safe h1.inv).mono fun n s' hp => hp.pre h1.suf
    · split
      · exact (pstring_safe h1.inv).mono fun n s' hp => hp.pre h1.suf
      · split
        · rename_i hc
          refine (boolean_safe h1.inv h1.pk ?_).mono fun n s' hp => hp.pre h1.suf
          rcases hc with h | h <;> rw [h] <;> decide
        · split
          · exact (duration_safe h1.inv).mono fun n s' hp => hp.pre h1.suf
          · split
            · exact (regex_safe h1.inv).mono fun n s' hp => hp.pre h1.suf
            · split
              · exact (star_safe h1.inv).mono fun n s' hp => hp.pre h1.suf
              · split
                · exact (reference_safe h1.inv).mono fun n s' hp => hp.1.pre h1.suf
                · split
                  · -- identifier or function call
                    refine Safe.bind (pnext_safe h1.inv) ?_
                    intro T2 s2 h2
                    refine Safe.bind (ppeek_safe h2.inv) ?_
                    intro T3 s3 h3
                    have hb := backup_spec h3.inv (h3.last _ h2.last) h1.inv (by rw [h3.npe]; exact h2.npe)
                    have hsuf : Suf s (pbackup s3) := Suf.of_eq (hb.2.trans h1.npe)
                    split
                    · exact (ih.lf _ hb.1).mono fun n s' hp => hp.pre hsuf
                    · exact (identifier_safe hb.1).mono fun n s' hp => hp.pre hsuf
                  · split
                    · -- unary
                      rename_i hc
                      have htok : tok.typ ≠ 0 := by rcases hc with h | h <;> rw [h] <;> decide
                      refine Safe.bind (pnext_safe h1.inv) ?_
                      intro T2 s2 h2
                      refine Safe.bind (posd_safe h1.ok.p0 h1.ok.pl) ?_
                      rintro _ _ rfl
                      refine Safe.bind (ih.pm s2 h2.inv) ?_
                      intro n s3 h3
                      refine Safe.bind (consumeComment_safe h3.pc) ?_
                      rintro _ _ rfl
                      exact ⟨h3.inv, h3.pc, h1.suf.trans (h2.suf.trans h3.suf), h1.ok.p0, h1.ok.pl,
                        fun L hL _ => h1.lo hL htok⟩
                    · exact unexpected_safe h1.ok _

theorem chain_succ {e : PEnv} {k : Nat} (ih : All e k) : ∀ lhs s, Inv e s → 0 ≤ lhs.pos → lhs.pos ≤ e.c.len →
    Safe (chain e (k + 1) lhs s) (Post e 2 [lhs.pos] s) := by
  intro lhs s hs h0 hl
  simp only [chain]
  refine Safe.bind (ppeek_safe hs) ?_
  intro T s1 h1
  split
  · rename_i hc
    have hT0 : T.typ ≠ 0 := by rcases hc with h | h | h <;> rw [h] <;> decide
    refine Safe.bind (pnext_safe h1.inv) ?_
    intro op s2 h2
    have hop' : op = T := h2.same _ h1.pk
    subst hop'
    refine Safe.bind (consumeComment_safe h2.pc) ?_
    rintro _ _ rfl
    refine Safe.bind (pnext_safe h2.inv) ?_
    intro _ s3 h3
    -- the right-hand side is parsed from a state `sb` with the pending tokens of `s2`
    have tail : ∀ (sb : PS) (X : PR Node), Suf s2 sb → Safe X (Post e 1 [] sb) →
        Safe (X.bind fun _ s => (mk e op.pos .other s).bind fun n s => chain e k n s) (Post e 2 [lhs.pos] s) := by
      intro sb X hsb hX
      refine Safe.bind hX ?_
      intro r s4 h4
      refine Safe.bind (mk_safe h2.ok.p0 h2.ok.pl) ?_
      rintro n s' ⟨rfl, rfl⟩
      have hsuf : Suf s s4 := h1.suf.trans (h2.suf.trans (hsb.trans h4.suf))
      refine (ih.ch _ s4 h4.inv h2.ok.p0 h2.ok.pl).mono fun n s' hp => ?_
      exact ⟨hp.inv, hp.pc, hsuf.trans hp.suf, hp.p0, hp.pl, fun L hL hb =>
        hp.lo L (hL.suf hsuf) (by
          intro b hb'; rcases List.mem_singleton.mp hb' with rfl
          exact h2.lo (hL.suf h1.suf) hT0)⟩
    split
    · have hb := backup_spec h3.inv h3.last h2.inv h3.npe
      exact tail _ _ (Suf.of_eq hb.2) (ih.fn _ hb.1)
    · refine Safe.bind (ppeek_safe h3.inv) ?_
      intro T2 s4 h4
      have hb := backup_spec h4.inv (h4.last _ h3.last) h2.inv (by rw [h4.npe]; exact h3.npe)
      split
      · exact tail _ _ (Suf.of_eq hb.2) (ih.fn _ hb.1)
      · exact tail _ _ (Suf.of_eq hb.2) (identifier_safe hb.1)
  · exact Post.self h1.inv h1.inv.pc h1.suf h0 hl

theorem expression_succ {e : PEnv} {k : Nat} (ih : All e k) : ∀ s, Inv e s → Safe (expression e (k + 1) s) (Post e 2 [] s) := by
  intro s hs
  simp only [expression]
  refine Safe.bind (ppeek_safe hs) ?_
  intro T s1 h1
  -- `primaryExpr` from a state whose pending tokens are a suffix of those of `s`
  have pexpr : ∀ sb, Inv e sb → Suf s sb →
      Safe ((primary e k sb).bind fun n s => precedence e k n 0 s) (Post e 2 [] s) := by
    intro sb hsb hsuf
    refine Safe.bind (ih.pm sb hsb) ?_
    intro n s2 h2
    exact (ih.pr n 0 s2 h2.inv h2.p0 h2.pl).mono fun n' s' hp => h2.seq hsuf hp
  split
  · refine Safe.bind (pnext_safe h1.inv) ?_
    intro _ s2 h2
    refine Safe.bind (ppeek_safe h2.inv) ?_
    intro T2 s3 h3
    have hb := backup_spec h3.inv (h3.last _ h2.last) h1.inv (by rw [h3.npe]; exact h2.npe)
    have hsuf : Suf s (pbackup s3) := Suf.of_eq (hb.2.trans h1.npe)
    split
    · refine Safe.bind (ih.fn _ hb.1) ?_
      intro term s4 h4
      refine Safe.bind (ppeek_safe h4.inv) ?_
      intro T3 s5 h5
      split
      · exact (ih.ch term s5 h5.inv h4.p0 h4.pl).mono fun n s' hp => h4.seq hsuf (hp.pre h5.suf)
      · exact (ih.pr term 0 s5 h5.inv h4.p0 h4.pl).mono fun n s' hp => h4.seq hsuf (hp.pre h5.suf)
    · split
      · refine Safe.bind (identifier_safe hb.1) ?_
        intro term s4 h4
        exact (ih.ch term s4 h4.inv h4.p0 h4.pl).mono fun n s' hp => h4.seq hsuf hp
      · exact pexpr _ hb.1 hsuf
  · split
    · -- lambda
      rename_i hc
      have hT0 : T.typ ≠ 0 := by rw [hc]; decide
      refine Safe.bind (pnext_safe h1.inv) ?_
      intro Lm s2 h2
      have hL' : Lm = T := h2.same _ h1.pk
      subst hL'
      refine Safe.bind (consumeComment_safe h2.pc) ?_
      rintro _ _ rfl
      refine Safe.bind (ih.pm s2 h2.inv) ?_
      intro n0 s3 h3
      refine Safe.bind (ih.pr n0 0 s3 h3.inv h3.p0 h3.pl) ?_
      intro _ s4 h4
      refine Safe.mono (mk_safe h2.ok.p0 h2.ok.pl) ?_
      rintro n s' ⟨rfl, rfl⟩
      exact ⟨h4.inv, h4.pc, h1.suf.trans (h2.suf.trans (h3.suf.trans h4.suf)), h2.ok.p0, h2.ok.pl,
        fun L hL _ => h2.lo (hL.suf h1.suf) hT0⟩
    · split
      · exact (stringList_safe k h1.inv).mono fun n s' hp => (hp.pre h1.suf).le (by decide)
      · exact pexpr s1 h1.inv h1.suf

theorem all_succ {e : PEnv} {k : Nat} (ih : All e k) : All e (k + 1) :=
  ⟨expression_succ ih, chain_succ ih, function_succ ih, parameters_succ ih, precedence_succ ih, inner_succ ih,
   lfunction_succ ih, lparameters_succ ih, primary_succ ih⟩

theorem all_safe (e : PEnv) : ∀ k, All e k := by
  intro k
  induction k with
  | zero => exact all_zero e
  | succ k ih => exact all_succ ih

/-! ### Statements, program, entry points -/

theorem declaration_safe {e : PEnv} (k : Nat) {s : PS} (hs : Inv e s) :
    Safe (declaration e k s) (fun _ s' => PostU e s s') := by
  unfold declaration
  refine Safe.bind (expect_safe tVar hs) ?_
  rintro V s1 ⟨h1, hV⟩
  refine Safe.bind (consumeComment_safe h1.pc) ?_
  rintro _ _ rfl
  refine Safe.bind (identifier_safe h1.inv) ?_
  intro _ s2 h2
  refine Safe.bind (ppeek_safe h2.inv) ?_
  intro T s3 h3
  have hsuf : Suf s s3 := h1.suf.trans (h2.suf.trans h3.suf)
  split
  · refine Safe.bind (expect_safe tAsgn h3.inv) ?_
    rintro _ s4 ⟨h4, _⟩
    refine Safe.bind ((all_safe e k).ex s4 h4.inv) ?_
    intro _ s5 h5
    refine Safe.mono (mk_safe h1.ok.p0 h1.ok.pl) ?_
    rintro n s' ⟨rfl, rfl⟩
    exact ⟨h5.inv, hsuf.trans (h4.suf.trans h5.suf)⟩
  · refine Safe.bind (identifier_safe h3.inv) ?_
    intro _ s4 h4
    refine Safe.mono (mk_safe h1.ok.p0 h1.ok.pl) ?_
    rintro n s' ⟨rfl, rfl⟩
    exact ⟨h4.inv, hsuf.trans h4.suf⟩

theorem dbrp_safe {e : PEnv} {s : PS} (hs : Inv e s) : Safe (dbrp e s) (fun _ s' => PostU e s s') := by
  unfold dbrp
  refine Safe.bind (expect_safe tDBRP hs) ?_
  rintro D s1 ⟨h1, hD⟩
  refine Safe.bind (consumeComment_safe h1.pc) ?_
  rintro _ _ rfl
  refine Safe.bind (reference_safe h1.inv) ?_
  rintro db s2 ⟨h2, hdb⟩
  refine Safe.bind (expect_safe tDot h2.inv) ?_
  rintro _ s3 ⟨h3, _⟩
  refine Safe.bind (reference_safe h3.inv) ?_
  rintro rp s4 ⟨h4, hrp⟩
  refine Safe.bind (posd_safe h1.ok.p0 h1.ok.pl) ?_
  rintro _ _ rfl
  rw [if_pos ⟨hdb, hrp⟩]
  exact ⟨h4.inv, h1.suf.trans (h2.suf.trans (h3.suf.trans h4.suf))⟩

theorem statement_safe {e : PEnv} (k : Nat) {s : PS} (hs : Inv e s) :
    Safe (statement e k s) (fun _ s' => PostU e s s') := by
  unfold statement
  refine Safe.bind (ppeek_safe hs) ?_
  intro T s1 h1
  split
  · exact (declaration_safe k h1.inv).mono fun _ s' hp => ⟨hp.inv, h1.suf.trans hp.suf⟩
  · split
    · exact (dbrp_safe h1.inv).mono fun _ s' hp => ⟨hp.inv, h1.suf.trans hp.suf⟩
    · exact ((all_safe e k).ex s1 h1.inv).mono fun _ s' hp => ⟨hp.inv, h1.suf.trans hp.suf⟩

theorem program_safe {e : PEnv} : ∀ k s, Inv e s → Safe (program e k s) (fun _ s' => Inv e s') := by
  intro k
  induction k with
  | zero => intro s h; trivial
  | succ k ih =>
    intro s hs
    simp only [program]
    refine Safe.bind (ppeek_safe hs) ?_
    intro T s1 h1
    split
    · exact h1.inv
    · refine Safe.bind (statement_safe k h1.inv) ?_
      intro _ s2 h2
      exact ih s2 h2.inv

/-- The parser on any token stream satisfying the invariant never traps. -/
theorem parseToks_safe {e : PEnv} (k : Nat) (toks : List PTok) (h : Inv e { rest := toks }) :
    (parseToks e k toks).out ≠ .trap := by
  refine Safe.not_trap (Q := fun _ _ => True) ?_
  unfold parseToks
  refine Safe.bind (posd_safe (Int.le_refl 0) (by simp [Ctx.len])) ?_
  rintro _ _ rfl
  refine Safe.bind (program_safe k _ h) ?_
  intro _ s1 h1
  refine Safe.bind (expect_safe tEOF h1) ?_
  intro _ _ _
  trivial

theorem parseLambdaToks_safe {e : PEnv} (k : Nat) (toks : List PTok) (h : Inv e { rest := toks }) :
    (parseLambdaToks e k toks).out ≠ .trap := by
  refine Safe.not_trap (Q := fun _ _ => True) ?_
  unfold parseLambdaToks
  refine Safe.bind ((all_safe e k).pm _ h) ?_
  intro n s1 h1
  refine Safe.bind ((all_safe e k).pr n 0 s1 h1.inv h1.p0 h1.pl) ?_
  intro _ s2 h2
  refine Safe.bind (posd_safe (Int.le_refl 0) (by simp [Ctx.len])) ?_
  rintro _ _ rfl
  refine Safe.bind (expect_safe tEOF h2.inv) ?_
  intro _ _ _
  trivial

/-! ### The token stream of the scanner satisfies the invariant -/

theorem validType_le {t : Nat} (h : validType t = true) : t ≤ 45 := by
  have hall : ∀ u ∈ validTypes, u ≤ 45 := by decide
  exact hall t (by simpa [validType] using h)

theorem init_inv (e : PEnv) (toks : List Tok)
    (hb : ∀ t ∈ toks, 0 ≤ t.pos ∧ 0 ≤ tlen t ∧ t.pos + tlen t ≤ e.c.len)
    (hs : toks.Pairwise (fun a b => a.pos + tlen a ≤ b.pos))
    (hv : ∀ t ∈ toks, validType t.typ = true)
    (hw : ∀ t ∈ toks, isLenTy t.typ = true → 2 ≤ tlen t) : Inv e { rest := pstream toks } := by
  refine ⟨by simp, zeroTok_ok e, zeroTok_ok e, ?_, ?_⟩
  · intro T hT
    simp only [pstream, List.mem_map, List.mem_filter] at hT
    obtain ⟨t, ⟨ht, _⟩, rfl⟩ := hT
    obtain ⟨b0, b1, b2⟩ := hb t ht
    have e1 : (PTok.ofTok t).pos = t.pos := rfl
    have e2 : (PTok.ofTok t).len = tlen t := rfl
    refine ⟨b0, by rw [e1]; omega, validType_le (hv t ht), ?_⟩
    intro hl
    have h2 := hw t ht hl
    simp only [PTok.text, List.length_take, List.length_drop, e1, e2]
    simp only [Ctx.len] at b2
    omega
  · have h1 : toks.Pairwise (fun a b => a.pos ≤ b.pos) := by
      refine List.Pairwise.imp_of_mem ?_ hs
      intro a b ha _ hab
      have := (hb a ha).2.1
      omega
    simp only [np, pending, nz, pstream, if_true, List.nil_append, Srt]
    refine List.Pairwise.filter _ ?_
    rw [List.pairwise_map]
    exact List.Pairwise.filter _ h1

end Kap.C05
