/-
C05 — "tokens partition the input": UTF-8 decoding facts (an ASCII rune is its byte; decoding looks at the
bytes of the rune it returns only), white-space runs, and the fourth pass over the state functions that
carries the spec's own walk (`partitionFrom`) along the scanner run.
-/
import Kap.Proofs.C05Term
import Kap.Spec.C05
namespace Kap.C05

/-- A rune below 0x80 is a single byte, and that byte is the rune. -/
theorem dec2_ge (b0 : Nat) (r : Bytes) (h0 : 0xC2 ≤ b0) (h1 : b0 < 0xE0) : 128 ≤ (dec2 b0 r).1 := by
  unfold dec2; split
  · split
    · simp only; omega
    · simp [runeError]
  · simp [runeError]

theorem dec3_ge (b0 : Nat) (r : Bytes) (h0 : 0xE0 ≤ b0) (h1 : b0 < 0xF0) : 128 ≤ (dec3 b0 r).1 := by
  unfold dec3; split
  · split
    · rename_i h
      simp only [Bool.and_eq_true, decide_eq_true_eq, secondLo, secondHi] at h
      simp only
      by_cases e0 : b0 = 0xE0 <;> by_cases e1 : b0 = 0xED <;> by_cases e2 : b0 = 0xF0 <;> by_cases e3 : b0 = 0xF4 <;>
        (try simp [e0, e1, e2, e3] at h) <;> omega
    · simp [runeError]
  · simp [runeError]

theorem dec4_ge (b0 : Nat) (r : Bytes) (h0 : 0xF0 ≤ b0) (h1 : b0 < 0xF5) : 128 ≤ (dec4 b0 r).1 := by
  unfold dec4; split
  · split
    · rename_i h
      simp only [Bool.and_eq_true, decide_eq_true_eq, secondLo, secondHi] at h
      simp only
      by_cases e0 : b0 = 0xE0 <;> by_cases e1 : b0 = 0xED <;> by_cases e2 : b0 = 0xF0 <;> by_cases e3 : b0 = 0xF4 <;>
        (try simp [e0, e1, e2, e3] at h) <;> omega
    · simp [runeError]
  · simp [runeError]

theorem decodeRune_ascii (bs : Bytes) (hne : bs ≠ []) (h : (decodeRune bs).1 < 128) :
    ∃ tl, bs = (decodeRune bs).1 :: tl ∧ (decodeRune bs).2 = 1 := by
  cases bs with
  | nil => exact absurd rfl hne
  | cons b0 rest =>
    simp only [decodeRune] at h ⊢
    by_cases h1 : b0 < 0x80
    · simp only [h1, if_true] at h ⊢; exact ⟨rest, rfl, trivial⟩
    · exfalso
      simp only [h1, if_false] at h
      by_cases h2 : b0 < 0xC2
      · simp [h2, runeError] at h
      · simp only [h2, if_false] at h
        by_cases h3 : b0 < 0xE0
        · simp only [h3, if_true] at h; have := dec2_ge b0 rest (by omega) h3; omega
        · simp only [h3, if_false] at h
          by_cases h4 : b0 < 0xF0
          · simp only [h4, if_true] at h; have := dec3_ge b0 rest (by omega) h4; omega
          · simp only [h4, if_false] at h
            by_cases h5 : b0 < 0xF5
            · simp only [h5, if_true] at h; have := dec4_ge b0 rest (by omega) h5; omega
            · simp [h5, runeError] at h


theorem dec2_take (b0 : Nat) (r : Bytes) (j : Nat) (h : (dec2 b0 r).2 ≤ j + 1) : dec2 b0 (r.take j) = dec2 b0 r := by
  rcases r with _ | ⟨b1, tl⟩
  · simp
  · rcases j with _ | j
    · simp only [List.take_zero]
      unfold dec2 at h ⊢
      simp only at h ⊢
      split at h
      · simp at h
      · rename_i hc; simp [hc]
    · simp [List.take, dec2]

theorem dec3_take (b0 : Nat) (r : Bytes) (j : Nat) (h : (dec3 b0 r).2 ≤ j + 1) : dec3 b0 (r.take j) = dec3 b0 r := by
  rcases r with _ | ⟨b1, _ | ⟨b2, tl⟩⟩
  · simp
  · rcases j with _ | j <;> simp [List.take, dec3]
  · rcases j with _ | _ | j
    · unfold dec3 at h ⊢
      simp only [List.take_zero] at h ⊢
      split at h
      · simp at h
      · rename_i hc; simp [hc]
    · unfold dec3 at h ⊢
      simp only [List.take] at h ⊢
      split at h
      · simp at h
      · rename_i hc; simp [hc]
    · simp [List.take, dec3]

theorem dec4_take (b0 : Nat) (r : Bytes) (j : Nat) (h : (dec4 b0 r).2 ≤ j + 1) : dec4 b0 (r.take j) = dec4 b0 r := by
  rcases r with _ | ⟨b1, _ | ⟨b2, _ | ⟨b3, tl⟩⟩⟩
  · simp
  · rcases j with _ | j <;> simp [List.take, dec4]
  · rcases j with _ | _ | j <;> simp [List.take, dec4]
  · rcases j with _ | _ | _ | j
    · unfold dec4 at h ⊢
      simp only [List.take_zero] at h ⊢
      split at h
      · simp at h
      · rename_i hc; simp [hc]
    · unfold dec4 at h ⊢
      simp only [List.take] at h ⊢
      split at h
      · simp at h
      · rename_i hc; simp [hc]
    · unfold dec4 at h ⊢
      simp only [List.take] at h ⊢
      split at h
      · simp at h
      · rename_i hc; simp [hc]
    · simp [List.take, dec4]

/-- Decoding looks at the bytes of the rune it returns only: a gap cut at a rune boundary decodes as the
full input does. -/
theorem decodeRune_take (bs : Bytes) (k : Nat) (hk : 1 ≤ k) (h : (decodeRune bs).2 ≤ k) :
    decodeRune (bs.take k) = decodeRune bs := by
  rcases bs with _ | ⟨b0, rest⟩
  · simp
  · obtain ⟨j, rfl⟩ : ∃ j, k = j + 1 := ⟨k - 1, by omega⟩
    simp only [List.take, decodeRune] at h ⊢
    by_cases h1 : b0 < 0x80
    · simp [h1]
    · simp only [h1, if_false] at h ⊢
      by_cases h2 : b0 < 0xC2
      · simp [h2]
      · simp only [h2, if_false] at h ⊢
        by_cases h3 : b0 < 0xE0
        · simp only [h3, if_true] at h ⊢; exact dec2_take b0 rest j h
        · simp only [h3, if_false] at h ⊢
          by_cases h4 : b0 < 0xF0
          · simp only [h4, if_true] at h ⊢; exact dec3_take b0 rest j h
          · simp only [h4, if_false] at h ⊢
            by_cases h5 : b0 < 0xF5
            · simp only [h5, if_true] at h ⊢; exact dec4_take b0 rest j h
            · simp [h5]


/-- A run of white-space runes from byte offset `a` to byte offset `s` (decoded front to back). -/
inductive SpaceRun (c : Ctx) : Nat → Nat → Prop
  | nil (a : Nat) : SpaceRun c a a
  | cons {a s : Nat} : a < c.inp.length → isSpace c ((decodeRune (c.inp.drop a)).1 : Int) = true →
      SpaceRun c (a + (decodeRune (c.inp.drop a)).2) s → SpaceRun c a s

theorem SpaceRun.le {c : Ctx} {a s : Nat} (h : SpaceRun c a s) : a ≤ s := by
  induction h with
  | nil => exact Nat.le_refl _
  | cons _ _ _ ih => omega

theorem SpaceRun.snoc {c : Ctx} {a s : Nat} (h : SpaceRun c a s) (hs : s < c.inp.length)
    (hsp : isSpace c ((decodeRune (c.inp.drop s)).1 : Int) = true) :
    SpaceRun c a (s + (decodeRune (c.inp.drop s)).2) := by
  induction h with
  | nil a => exact SpaceRun.cons hs hsp (SpaceRun.nil _)
  | cons h1 h2 _ ih => exact SpaceRun.cons h1 h2 (ih hs hsp)

theorem spaceOnly_nil (c : Ctx) (k : Nat) : spaceOnly c k [] = true := by
  cases k <;> rfl

theorem SpaceRun.toSpaceOnly {c : Ctx} {a s : Nat} (h : SpaceRun c a s) (hs : s ≤ c.inp.length) :
    ∀ fuel, s - a < fuel → spaceOnly c fuel ((c.inp.drop a).take (s - a)) = true := by
  induction h with
  | nil a => intro fuel _; simp [spaceOnly_nil]
  | @cons a s h1 h2 h3 ih =>
    intro fuel hf
    have hle := h3.le
    have hne : c.inp.drop a ≠ [] := by
      intro e; have := congrArg List.length e; simp at this; omega
    have hw := decodeRune_width _ hne
    obtain ⟨k, rfl⟩ : ∃ k, fuel = k + 1 := ⟨fuel - 1, by omega⟩
    have hg : (c.inp.drop a).take (s - a) ≠ [] := by
      intro e; have := congrArg List.length e; simp at this; omega
    obtain ⟨g0, gt, hgeq⟩ := List.exists_cons_of_ne_nil hg
    have hdec : decodeRune ((c.inp.drop a).take (s - a)) = decodeRune (c.inp.drop a) :=
      decodeRune_take _ _ (by omega) (by omega)
    rw [hgeq]
    unfold spaceOnly
    rw [← hgeq, hdec]
    simp only [h2, Bool.true_and]
    have hm : max (decodeRune (c.inp.drop a)).2 1 = (decodeRune (c.inp.drop a)).2 := by omega
    rw [hm, List.drop_take, List.drop_drop]
    have e1 : s - a - (decodeRune (c.inp.drop a)).2 = s - (a + (decodeRune (c.inp.drop a)).2) := by omega
    rw [e1]
    exact ih hs k (by omega)

/-- `next` inside the input is `utf8.DecodeRuneInString` at the cursor. -/
theorem next_decode (c : Ctx) (l : Lx) (h0 : 0 ≤ l.pos) (h1 : l.pos < c.len) :
    (next c l).1 = ((decodeRune (c.inp.drop l.pos.toNat)).1 : Int) ∧
    (next c l).2.pos = l.pos + ((decodeRune (c.inp.drop l.pos.toNat)).2 : Int) := by
  unfold next
  have hge : ¬ l.pos ≥ c.len := by omega
  have hlt : ¬ l.pos < 0 := by omega
  simp [hge, hlt]


/-! ### The spec's walk, one token at a time -/

theorem gap_ok {c : Ctx} {a : Nat} {pos : Int} (h0 : (a : Int) ≤ pos) (h1 : pos ≤ c.len) (hs : SpaceRun c a pos.toNat) :
    spaceOnly c (((c.inp.drop a).take (pos.toNat - a)).length + 1) ((c.inp.drop a).take (pos.toNat - a)) = true := by
  apply hs.toSpaceOnly (by simp [Ctx.len] at h1; omega)
  simp [Ctx.len] at h1 ⊢
  omega

theorem pf_tok {c : Ctx} {a : Nat} {typ : Nat} {pos len : Int} (rest : List Tok)
    (h0 : (a : Int) ≤ pos) (h1 : pos ≤ c.len) (hs : SpaceRun c a pos.toNat)
    (h2 : 0 ≤ len) (h3 : pos + len ≤ c.len) (h4 : typ ≠ tError) (h5 : typ ≠ tEOF) :
    partitionFrom c a (⟨typ, pos, some len⟩ :: rest) = partitionFrom c (pos + len).toNat rest := by
  have hg := gap_ok h0 h1 hs
  simp only [Ctx.len] at h1 h3
  rw [partitionFrom]
  simp only [hg, Bool.not_true, Bool.false_eq_true, if_false]
  have e1 : ¬ pos < (a : Int) := by omega
  have e2 : ¬ pos > (c.inp.length : Int) := by omega
  have e3 : ¬ (len < 0 ∨ pos + len > (c.inp.length : Int)) := by omega
  have e4 : (typ == tError) = false := by simp [h4]
  have e5 : (typ == tEOF) = false := by simp [h5]
  simp [e1, e2, e3, e4, e5]

theorem pf_err {c : Ctx} {a : Nat} {pos : Int}
    (h0 : (a : Int) ≤ pos) (h1 : pos ≤ c.len) (hs : SpaceRun c a pos.toNat) :
    partitionFrom c a [⟨tError, pos, none⟩] = none := by
  have hg := gap_ok h0 h1 hs
  simp only [Ctx.len] at h1
  rw [partitionFrom]
  simp only [hg, Bool.not_true, Bool.false_eq_true, if_false]
  have e1 : ¬ pos < (a : Int) := by omega
  have e2 : ¬ pos > (c.inp.length : Int) := by omega
  simp [e1, e2]

theorem pf_eof {c : Ctx} {a : Nat} {pos : Int}
    (h0 : (a : Int) ≤ pos) (h1 : pos = c.len) (hs : SpaceRun c a pos.toNat) :
    partitionFrom c a [⟨tEOF, pos, some 0⟩] = none := by
  have hg := gap_ok h0 (by omega) hs
  simp only [Ctx.len] at h1
  rw [partitionFrom]
  simp only [hg, Bool.not_true, Bool.false_eq_true, if_false]
  have e1 : ¬ pos < (a : Int) := by omega
  have e2 : ¬ pos > (c.inp.length : Int) := by omega
  have e3 : a ≤ c.inp.length := by omega
  simp [e1, e2, h1, tEOF, tError, e3]


/-! ### The bytes of `l.current()` in the operator states -/

theorem next_lt (c : Ctx) (l : Lx) (h : (next c l).1 ≠ -1) : l.pos < c.len := by
  unfold next at h
  by_cases hge : l.pos ≥ c.len
  · simp [hge, eof] at h
  · omega

theorem next_start (c : Ctx) (l : Lx) : (next c l).2.start = l.start := by
  unfold next; split <;> (try split) <;> rfl

theorem cur_one (c : Ctx) (l : Lx) (hp : 0 ≤ l.pos) (hS : l.start = l.pos)
    (h0 : 0 ≤ (next c l).1) (h1 : (next c l).1 < 128) :
    cur c (next c l).2 = [(next c l).1.toNat] ∧ (next c l).2.pos = l.pos + 1 ∧
      ∃ tl, c.inp.drop l.pos.toNat = (next c l).1.toNat :: tl := by
  have hlt := next_lt c l (by omega)
  obtain ⟨e1, e2⟩ := next_decode c l hp hlt
  have hne : c.inp.drop l.pos.toNat ≠ [] := by
    intro e; have := congrArg List.length e; simp [Ctx.len] at this hlt; omega
  obtain ⟨tl, htl, hw⟩ := decodeRune_ascii _ hne (by rw [e1] at h1; omega)
  have hst := next_start c l
  refine ⟨?_, by rw [e2, hw]; rfl, tl, by rw [e1]; simpa using htl⟩
  unfold cur
  rw [hst, hS, e2, hw, htl, e1]
  have : (l.pos + 1 - l.pos).toNat = 1 := by omega
  simp [this]

theorem cur_two (c : Ctx) (l : Lx) (hp : 0 ≤ l.pos) (hS : l.start = l.pos)
    (h0 : 0 ≤ (next c l).1) (h1 : (next c l).1 < 128)
    (h2 : 0 ≤ (next c (next c l).2).1) (h3 : (next c (next c l).2).1 < 128) :
    cur c (next c (next c l).2).2 = [(next c l).1.toNat, (next c (next c l).2).1.toNat] := by
  obtain ⟨_, hp1, tl, htl⟩ := cur_one c l hp hS h0 h1
  have hst1 := next_start c l
  have hlt := next_lt c (next c l).2 (by omega)
  obtain ⟨e1, e2⟩ := next_decode c (next c l).2 (by omega) hlt
  have hne : c.inp.drop (next c l).2.pos.toNat ≠ [] := by
    intro e; have := congrArg List.length e; simp [Ctx.len] at this hlt; omega
  obtain ⟨tl2, htl2, hw⟩ := decodeRune_ascii _ hne (by rw [e1] at h3; omega)
  have hst2 := next_start c (next c l).2
  have hd : c.inp.drop (next c l).2.pos.toNat = tl := by
    have : (next c l).2.pos.toNat = l.pos.toNat + 1 := by omega
    rw [this, ← List.drop_drop, htl]; rfl
  unfold cur
  rw [hst2, hst1, hS, e2, hw, hp1, htl]
  have : (l.pos + 1 + ((1 : Nat) : Int) - l.pos).toNat = 2 := by omega
  rw [hd] at htl2 e1
  rw [this, e1]
  conv => lhs; rw [htl2]
  simp


/-! ### The fourth pass: the spec's walk follows the scanner -/

/-- Walking the tokens emitted so far succeeds and leaves the spec's cursor at `a`. -/
def Walk (c : Ctx) (toks : List Tok) (a : Nat) : Prop :=
  ∀ rest, partitionFrom c 0 (toks.reverse ++ rest) = partitionFrom c a rest

/-- … and everything between that cursor and `start` is white space. -/
def PI (c : Ctx) (l : Lx) : Prop :=
  ∃ a : Nat, Walk c l.toks a ∧ (a : Int) ≤ l.start ∧ SpaceRun c a l.start.toNat

/-- The states that begin a token have nothing pending. -/
def SI (l : Lx) : St → Prop
  | .token | .unary | .binopSp | .binopMain | .regexOpSp => l.start = l.pos
  | _ => True

def StepP (c : Ctx) : Step → Prop
  | .cont l s => PI c l ∧ SI l s
  | .done l => partitionFrom c 0 l.toks.reverse = none

theorem PI_move {c : Ctx} {l l' : Lx} (h : PI c l) (ht : l'.toks = l.toks) (hs : l'.start = l.start) : PI c l' := by
  obtain ⟨a, h1, h2, h3⟩ := h
  exact ⟨a, by rw [ht]; exact h1, by rw [hs]; exact h2, by rw [hs]; exact h3⟩

theorem PI_ignore {c : Ctx} {l l' : Lx} (hg : Good c l) (h : PI c l) (hS : l.start = l.pos)
    (hsp : isSpace c (next c l).1 = true) (ht : l'.toks = l.toks) (hs : l'.start = (next c l).2.pos) : PI c l' := by
  obtain ⟨a, h1, h2, h3⟩ := h
  have hp : 0 ≤ l.pos := by have := hg.s0; have := hg.sp; omega
  have hlt := next_lt c l (isSpace_eof c _ hsp)
  obtain ⟨e1, e2⟩ := next_decode c l hp hlt
  refine ⟨a, by rw [ht]; exact h1, ?_, ?_⟩
  · rw [hs, e2]; omega
  · rw [hs, e2]
    rw [hS] at h3
    have := h3.snoc (by simp [Ctx.len] at hlt; omega) (by rw [← e1]; exact hsp)
    have e : (l.pos + ((decodeRune (c.inp.drop l.pos.toNat)).2 : Int)).toNat = l.pos.toNat + (decodeRune (c.inp.drop l.pos.toNat)).2 := by omega
    rw [e]; exact this

theorem emit_PI {c : Ctx} {l : Lx} (hg : Good c l) (h : PI c l) (t : Nat) (h1 : t ≠ tError) (h2 : t ≠ tEOF) :
    PI c (emit c l t) := by
  obtain ⟨a, w, ha, hs⟩ := h
  have := hg.s0; have := hg.sp; have := hg.pl
  obtain ⟨_, hpos, hst⟩ := emit_good hg t
  refine ⟨l.pos.toNat, ?_, by rw [hst]; omega, by rw [hst]; exact SpaceRun.nil _⟩
  intro rest
  rw [emit_toks_good hg t, List.reverse_cons, List.append_assoc, w]
  simp only [List.singleton_append]
  rw [pf_tok rest ha (by omega) hs (by omega) (by omega) h1 h2]
  congr 1
  omega

theorem errorf_P {c : Ctx} {l : Lx} (hg : Good c l) (h : PI c l) :
    partitionFrom c 0 (errorf l).toks.reverse = none := by
  obtain ⟨a, w, ha, hs⟩ := h
  have := hg.s0; have := hg.sp; have := hg.pl
  show partitionFrom c 0 ((⟨tError, l.start, none⟩ :: l.toks).reverse) = none
  have := w [⟨tError, l.start, none⟩]
  rw [List.reverse_cons, this]
  exact pf_err ha (by omega) hs

theorem eof_P {c : Ctx} {l : Lx} (hg : Good c l) (h : PI c l) (hS : l.start = l.pos) (he : l.pos = c.len) :
    partitionFrom c 0 (emit c l tEOF).toks.reverse = none := by
  obtain ⟨a, w, ha, hs⟩ := h
  rw [emit_toks_good hg tEOF, List.reverse_cons, w]
  have e : l.pos - l.start = 0 := by omega
  rw [e]
  exact pf_eof ha (by omega) hs


theorem SI_of_eq {l : Lx} (h : l.start = l.pos) (s : St) : SI l s := by
  cases s <;> first | exact h | trivial

theorem emit_step {c : Ctx} {l' : Lx} {t : Nat} {s' : St} (hg' : Good c l') (hP' : PI c l')
    (h1 : t ≠ tError) (h2 : t ≠ tEOF) : StepP c (emitTo c l' t s') := by
  obtain ⟨_, hpos, hst⟩ := emit_good hg' t
  exact ⟨emit_PI hg' hP' t h1 h2, SI_of_eq (by rw [hpos, hst]) _⟩

macro "tk" : tactic => `(tactic| first | rfl | (simp only [ignore, backup, *] ; done))
macro "sfin" : tactic => `(tactic| first
  | trivial
  | (apply SI_of_eq; simp only [ignore, backup]; omega))
macro "neErr" : tactic => `(tactic| first
  | decide
  | (intro e; simp_all [tError] ; done))
macro "neEof" : tactic => `(tactic| first
  | decide
  | exact opOf_ne_eof _
  | exact keywordOf_ne_eof _)

set_option hygiene false in
macro "pbranch" : tactic => `(tactic| (
  simp only [StepP]
  first
  | (refine ⟨PI_move hP ?_ ?_, ?_⟩ <;> first | tk | sfin)
  | (refine ⟨PI_ignore hg hP hS ‹isSpace _ _ = true› ?_ ?_, ?_⟩ <;> first | tk | sfin)
  | (refine emit_step (good_move hg ?_ ?_ ?_ ?_ ?_) (PI_move hP ?_ ?_) ?_ ?_ <;> first | tk | fin | neErr | neEof)
  | (refine errorf_P (good_move hg ?_ ?_ ?_ ?_ ?_) (PI_move hP ?_ ?_) <;> first | tk | fin)))

theorem pstep_token (c : Ctx) (l : Lx) (hf : c.fixed = true) (hg : Good c l) (hP : PI c l) (hS : l.start = l.pos) :
    StepP c (step c l .token) := by
  have := hg.s0; have := hg.sp; have := hg.pl
  obtain ⟨hs1, ht1, hr1, hp1, hw1, hl1, he1, ha1, hg1⟩ := next_ok c l (by omega) (by omega)
  have hend := next_eof_at_end c l (by omega)
  have hpk := peek_snd c (next c l).2 hf (by omega)
  simp only [step, hpk, peek_fst]
  repeat' ite_cases
  all_goals (try pbranch)
  rename_i heof
  have hr : (next c l).1 = -1 := by simpa [eof] using heof
  have hw := he1 hr
  have hle := hend hr
  have hgood : Good c (next c l).2 := good_move hg ht1 hr1 (by omega) (by omega) (by omega)
  exact eof_P hgood (PI_move hP ht1 hs1) (by omega) (by omega)

theorem pstep_binopSp (c : Ctx) (l : Lx) (hg : Good c l) (hP : PI c l) (hS : l.start = l.pos) :
    StepP c (step c l .binopSp) := by
  have := hg.s0; have := hg.sp; have := hg.pl
  obtain ⟨hs1, ht1, hr1, hp1, hw1, hl1, he1, ha1, hg1⟩ := next_ok c l (by omega) (by omega)
  simp only [step]
  repeat' ite_cases
  all_goals pbranch

theorem pstep_regexOpSp (c : Ctx) (l : Lx) (hf : c.fixed = true) (hg : Good c l) (hP : PI c l) (hS : l.start = l.pos) :
    StepP c (step c l .regexOpSp) := by
  have := hg.s0; have := hg.sp; have := hg.pl
  obtain ⟨hs1, ht1, hr1, hp1, hw1, hl1, he1, ha1, hg1⟩ := next_ok c l (by omega) (by omega)
  have hpk := peek_snd c (backup (next c l).2) hf (by simp only [backup]; omega)
  simp only [step, hpk, peek_fst]
  repeat' ite_cases
  all_goals pbranch

theorem pstep_ident (c : Ctx) (l : Lx) (hg : Good c l) (hP : PI c l) :
    StepP c (step c l .ident) := by
  have := hg.s0; have := hg.sp; have := hg.pl
  obtain ⟨hs1, ht1, hr1, hp1, hw1, hl1, he1, ha1, hg1⟩ := next_ok c l (by omega) (by omega)
  obtain ⟨hs2, ht2, hr2, hp2, hw2, hl2, he2, ha2, hg2⟩ :=
    next_ok c (backup (next c l).2) (by simp only [backup]; omega) (by simp only [backup]; omega)
  have hgb : Good c (backup (next c l).2) := by
    refine good_move hg ?_ ?_ ?_ ?_ ?_ <;> fin
  have hchk := chk_good hgb
  simp only [step, hchk]
  have e2 : (next c (backup (next c l).2)).2.toks = l.toks := by rw [ht2]; exact ht1
  have e3 : (next c (backup (next c l).2)).2.start = l.start := by rw [hs2]; exact hs1
  have e4 : (next c (backup (next c l).2)).2.trapped = l.trapped := by rw [hr2]; exact hr1
  have hb1p : (backup (next c l).2).pos = (next c l).2.pos - (next c l).2.width := rfl
  have hb1s : (backup (next c l).2).start = (next c l).2.start := rfl
  have hb2p : (backup (next c (backup (next c l).2)).2).pos =
      (next c (backup (next c l).2)).2.pos - (next c (backup (next c l).2)).2.width := rfl
  have hb2s : (backup (next c (backup (next c l).2)).2).start = (next c (backup (next c l).2)).2.start := rfl
  repeat' ite_cases
  all_goals pbranch

theorem pstep_reference (c : Ctx) (l : Lx) (hf : c.fixed = true) (hg : Good c l) (hP : PI c l) :
    StepP c (step c l .reference) := by
  have := hg.s0; have := hg.sp; have := hg.pl
  obtain ⟨hs1, ht1, hr1, hp1, hw1, hl1, he1, ha1, hg1⟩ := next_ok c l (by omega) (by omega)
  obtain ⟨hs2, ht2, hr2, hp2, hw2, hl2, he2, ha2, hg2⟩ := next_ok c (next c l).2 (by omega) (by omega)
  have hpk := peek_snd c (next c l).2 hf (by omega)
  simp only [step, hpk, peek_fst]
  repeat' ite_cases
  all_goals pbranch

theorem pstep_regexStart (c : Ctx) (l : Lx) (hg : Good c l) (hP : PI c l) :
    StepP c (step c l .regexStart) := by
  have := hg.s0; have := hg.sp; have := hg.pl
  obtain ⟨hs1, ht1, hr1, hp1, hw1, hl1, he1, ha1, hg1⟩ := next_ok c l (by omega) (by omega)
  simp only [step]
  repeat' ite_cases
  all_goals pbranch

theorem pstep_regexBody (c : Ctx) (l : Lx) (hf : c.fixed = true) (hg : Good c l) (hP : PI c l) :
    StepP c (step c l .regexBody) := by
  have := hg.s0; have := hg.sp; have := hg.pl
  obtain ⟨hs1, ht1, hr1, hp1, hw1, hl1, he1, ha1, hg1⟩ := next_ok c l (by omega) (by omega)
  obtain ⟨hs2, ht2, hr2, hp2, hw2, hl2, he2, ha2, hg2⟩ := next_ok c (next c l).2 (by omega) (by omega)
  have hpk := peek_snd c (next c l).2 hf (by omega)
  simp only [step, hpk, peek_fst]
  repeat' ite_cases
  all_goals pbranch

theorem pstep_commentStart (c : Ctx) (l : Lx) (hf : c.fixed = true) (hg : Good c l) (hP : PI c l) :
    StepP c (step c l .commentStart) := by
  have := hg.s0; have := hg.sp; have := hg.pl
  obtain ⟨hs1, ht1, hr1, hp1, hw1, hl1, he1, ha1, hg1⟩ := next_ok c l (by omega) (by omega)
  have hpk := peek_snd c l hf (by omega)
  simp only [step, hpk, peek_fst]
  repeat' ite_cases
  all_goals pbranch

theorem pstep_commentBody (c : Ctx) (l : Lx) (hg : Good c l) (hP : PI c l) :
    StepP c (step c l .commentBody) := by
  have := hg.s0; have := hg.sp; have := hg.pl
  obtain ⟨hs1, ht1, hr1, hp1, hw1, hl1, he1, ha1, hg1⟩ := next_ok c l (by omega) (by omega)
  simp only [step]
  repeat' ite_cases
  all_goals pbranch

theorem pstep_commentNL (c : Ctx) (l : Lx) (hg : Good c l) (hP : PI c l) :
    StepP c (step c l .commentNL) := by
  have := hg.s0; have := hg.sp; have := hg.pl
  obtain ⟨hs1, ht1, hr1, hp1, hw1, hl1, he1, ha1, hg1⟩ := next_ok c l (by omega) (by omega)
  simp only [step]
  repeat' ite_cases
  all_goals pbranch

theorem pstep_number (c : Ctx) (l : Lx) (hf : c.fixed = true) (hg : Good c l) (hP : PI c l) (fd first : Bool) :
    StepP c (step c l (.number fd first)) := by
  have := hg.s0; have := hg.sp; have := hg.pl
  obtain ⟨hs1, ht1, hr1, hp1, hw1, hl1, he1, ha1, hg1⟩ := next_ok c l (by omega) (by omega)
  obtain ⟨hs2, ht2, hr2, hp2, hw2, hl2, he2, ha2, hg2⟩ := next_ok c (next c l).2 (by omega) (by omega)
  have hpk := peek_snd c (next c l).2 hf (by omega)
  cases first <;> cases fd <;> simp only [step, apply_ite Prod.fst, apply_ite Prod.snd, hpk, peek_fst, ite_self,
    Bool.false_eq_true, if_false, if_true, Bool.false_and, Bool.true_and, Bool.not_false, Bool.not_true]
  all_goals repeat' ite_cases
  all_goals pbranch

theorem pstep_strOuter (c : Ctx) (l : Lx) (hf : c.fixed = true) (hg : Good c l) (hP : PI c l) (count : Nat) :
    StepP c (step c l (.strOuter count)) := by
  have := hg.s0; have := hg.sp; have := hg.pl
  obtain ⟨hs1, ht1, hr1, hp1, hw1, hl1, he1, ha1, hg1⟩ := next_ok c l (by omega) (by omega)
  obtain ⟨hs2, ht2, hr2, hp2, hw2, hl2, he2, ha2, hg2⟩ := next_ok c (next c l).2 (by omega) (by omega)
  obtain ⟨hs3, ht3, hr3, hp3, hw3, hl3, he3, ha3, hg3⟩ := next_ok c (next c (next c l).2).2 (by omega) (by omega)
  have hpk1 := peek_snd c (next c l).2 hf (by omega)
  have hpk2 := peek_snd c (next c (next c l).2).2 hf (by omega)
  simp only [step, apply_ite Prod.fst, apply_ite Prod.snd, hpk1, hpk2, peek_fst, ite_self]
  repeat' ite_cases
  all_goals pbranch

theorem pstep_strInner (c : Ctx) (l : Lx) (hf : c.fixed = true) (hg : Good c l) (hP : PI c l) (count total : Nat) :
    StepP c (step c l (.strInner count total)) := by
  have := hg.s0; have := hg.sp; have := hg.pl
  obtain ⟨hs1, ht1, hr1, hp1, hw1, hl1, he1, ha1, hg1⟩ := next_ok c l (by omega) (by omega)
  obtain ⟨hs2, ht2, hr2, hp2, hw2, hl2, he2, ha2, hg2⟩ := next_ok c (next c l).2 (by omega) (by omega)
  have hpk1 := peek_snd c (next c l).2 hf (by omega)
  simp only [step, apply_ite Prod.fst, apply_ite Prod.snd, hpk1, peek_fst, ite_self]
  repeat' ite_cases
  all_goals pbranch

theorem op1 (r : Int) (h : r = 43 ∨ r = 45 ∨ r = 42 ∨ r = 37 ∨ r = 47 ∨ r = 33 ∨ r = 62 ∨ r = 60) :
    opOf [r.toNat] ≠ tError := by
  rcases h with h | h | h | h | h | h | h | h <;> subst h <;> decide

theorem op2 (r r2 : Int)
    (h : (r = 33 ∧ (r2 = 61 ∨ r2 = 126)) ∨ ((r = 62 ∨ r = 60) ∧ r2 = 61) ∨ (r = 61 ∧ (r2 = 126 ∨ r2 = 61))) :
    opOf [r.toNat, r2.toNat] ≠ tError := by
  rcases h with ⟨h, h' | h'⟩ | ⟨h | h, h'⟩ | ⟨h, h' | h'⟩ <;> subst h <;> subst h' <;> decide

set_option hygiene false in
macro "opbranch" : tactic => `(tactic| (
  simp only [Bool.or_eq_true, beq_iff_eq, not_or] at *
  first
  | (have hcu := (hcur1 (by omega) (by omega)).1
     refine emit_step (good_move hg ht1 hr1 (by omega) (by omega) (by omega)) (PI_move hP ht1 hs1) ?_ (opOf_ne_eof _)
     rw [hcu]; exact op1 _ (by omega))
  | (have hcu := hcur2 (by omega) (by omega) (by omega) (by omega)
     refine emit_step (good_move hg (by rw [ht2]; exact ht1) (by rw [hr2]; exact hr1) (by omega) (by omega) (by omega))
       (PI_move hP (by rw [ht2]; exact ht1) (by rw [hs2]; exact hs1)) ?_ (opOf_ne_eof _)
     rw [hcu]; exact op2 _ _ (by omega))))

theorem pstep_unary (c : Ctx) (l : Lx) (hg : Good c l) (hP : PI c l) (hS : l.start = l.pos) :
    StepP c (step c l .unary) := by
  have := hg.s0; have := hg.sp; have := hg.pl
  obtain ⟨hs1, ht1, hr1, hp1, hw1, hl1, he1, ha1, hg1⟩ := next_ok c l (by omega) (by omega)
  have hcur := cur_one c l (by omega) hS
  simp only [step]
  repeat' ite_cases
  · rename_i hc
    simp only [Bool.or_eq_true, beq_iff_eq] at hc
    have hcu := (hcur (by omega) (by omega)).1
    refine emit_step (good_move hg ht1 hr1 (by omega) (by omega) (by omega)) (PI_move hP ht1 hs1) ?_ (opOf_ne_eof _)
    rw [hcu]; rcases hc with h | h <;> rw [h] <;> decide
  · pbranch

theorem pstep_binopMain (c : Ctx) (l : Lx) (hf : c.fixed = true) (hg : Good c l) (hP : PI c l) (hS : l.start = l.pos) :
    StepP c (step c l .binopMain) := by
  have := hg.s0; have := hg.sp; have := hg.pl
  obtain ⟨hs1, ht1, hr1, hp1, hw1, hl1, he1, ha1, hg1⟩ := next_ok c l (by omega) (by omega)
  obtain ⟨hs2, ht2, hr2, hp2, hw2, hl2, he2, ha2, hg2⟩ := next_ok c (next c l).2 (by omega) (by omega)
  have hcur1 := cur_one c l (by omega) hS
  have hcur2 := cur_two c l (by omega) hS
  have hpk := peek_snd c (next c l).2 hf (by omega)
  simp only [step, hpk, peek_fst]
  repeat' ite_cases
  all_goals (try pbranch)
  all_goals opbranch

theorem pstep_ok (c : Ctx) (hf : c.fixed = true) (l : Lx) (s : St) (hg : Good c l) (hP : PI c l) (hS : SI l s) :
    StepP c (step c l s) := by
  cases s with
  | token => exact pstep_token c l hf hg hP hS
  | unary => exact pstep_unary c l hg hP hS
  | binopSp => exact pstep_binopSp c l hg hP hS
  | binopMain => exact pstep_binopMain c l hf hg hP hS
  | regexOpSp => exact pstep_regexOpSp c l hf hg hP hS
  | ident => exact pstep_ident c l hg hP
  | number fd first => exact pstep_number c l hf hg hP fd first
  | reference => exact pstep_reference c l hf hg hP
  | strOuter n => exact pstep_strOuter c l hf hg hP n
  | strInner n t => exact pstep_strInner c l hf hg hP n t
  | regexStart => exact pstep_regexStart c l hg hP
  | regexBody => exact pstep_regexBody c l hf hg hP
  | commentStart => exact pstep_commentStart c l hf hg hP
  | commentBody => exact pstep_commentBody c l hg hP
  | commentNL => exact pstep_commentNL c l hg hP

/-- The run lemma: the spec's walk accepts the token stream of a finished run. -/
theorem run_part (c : Ctx) (hf : c.fixed = true) :
    ∀ (k : Nat) (l : Lx) (s : St), Good c l → StInv c l s → PI c l → SI l s → mu c l s < k →
      ∃ toks, runFrom c k l s = .done toks ∧ partitionFrom c 0 toks = none := by
  intro k
  induction k with
  | zero =>
    intro l s hg _ _ _ hk
    have := rank_nonneg s; have := hg.pl
    simp only [mu] at hk; omega
  | succ k ih =>
    intro l s hg hsi hP hS hk
    have h := step_ok c hf l s hg hsi
    have hp := pstep_ok c hf l s hg hP hS
    unfold runFrom
    cases hst : step c l s with
    | cont l' s' =>
      rw [hst] at h hp
      obtain ⟨hg', hsi', hmu⟩ := h
      simp only [hg'.nt]
      exact ih l' s' hg' hsi' hp.1 hp.2 (by omega)
    | done l' =>
      rw [hst] at h hp
      simp only [h.nt]
      exact ⟨_, rfl, hp⟩

end Kap.C05
