/-
C05 — no empty tokens: every token the scanner emits that carries text (not the error token) and is not the
EOF token has at least ONE byte. A seventh pass over the state functions (in the style of C05Len.lean).
Consequence (`lexer_token_count`): the token stream of an input of `n` bytes has at most `n + 1` tokens —
the non-terminal tokens are disjoint non-empty slices of the input, plus the one terminal token.
-/
import Kap.Proofs.C05Len
namespace Kap.C05
set_option linter.unusedVariables false
set_option linter.unusedSimpArgs false

/-- Every text-carrying token but EOF is non-empty. -/
def Pz (toks : List Tok) : Prop := ∀ t ∈ toks, t.typ ≠ tEOF → t.len ≠ none → 1 ≤ tlen t

/-- States that are only entered after a rune of the pending token has been consumed AND that may emit
without consuming another one (`backup` / EOF). The other emitting states consume a rune in the emitting
step itself; `number _ true` is covered by `StInv` (the rune at the cursor is a digit or a dot). -/
def PosSt : St → Bool
  | .ident => true
  | .number _ false => true
  | .commentBody => true
  | .commentNL => true
  | _ => false

def PzI (l : Lx) (s : St) : Prop := PosSt s = true → l.start + 1 ≤ l.pos

def StepPz : Step → Prop
  | .cont l' s' => Pz l'.toks ∧ PzI l' s'
  | .done l' => Pz l'.toks

theorem Pz_of_eq {a b : List Tok} (h : Pz b) (e : a = b) : Pz a := e ▸ h

theorem emit_Pz {c : Ctx} {l : Lx} (h : Pz l.toks) (t : Nat) (ht : t ≠ tEOF → l.start + 1 ≤ l.pos) :
    Pz (emit c l t).toks := by
  unfold emit; split
  · intro u hu
    rcases List.mem_cons.mp hu with rfl | hu
    · intro hty _
      have := ht hty
      simp only [tlen, Option.getD_some]; omega
    · exact h u hu
  · exact h

theorem errorf_Pz {l : Lx} (h : Pz l.toks) : Pz (errorf l).toks := by
  intro u hu
  rcases List.mem_cons.mp hu with rfl | hu
  · intro _ hl
    exact absurd rfl hl
  · exact h u hu

macro "pzty" : tactic => `(tactic| first
  | (intro _; (try simp only [ignore, backup]); omega)
  | (intro h; exact absurd (rfl : tEOF = tEOF) h))

macro "pzli" : tactic => `(tactic| first
  | (intro h; exact absurd h (by decide))
  | (intro _; (try simp only [ignore, backup]); omega))

set_option hygiene false in
macro "pzbranch" : tactic => `(tactic| (
  simp only [StepPz, emitTo, PzI]
  simp only [isDurUnit, Bool.or_eq_true, Bool.and_eq_true, beq_iff_eq, bne_iff_ne, Bool.not_eq_true', ne_eq, not_or, not_and, eof] at *
  cls
  first
  | (refine ⟨Pz_of_eq hQ ?_, ?_⟩ <;> first | tk2 | pzli)
  | (refine ⟨emit_Pz (Pz_of_eq hQ ?_) _ ?_, ?_⟩ <;> first | tk2 | pzty | pzli)
  | (refine errorf_Pz (Pz_of_eq hQ ?_) ; tk2)
  | (refine emit_Pz (Pz_of_eq hQ ?_) _ ?_ <;> first | tk2 | pzty)))

theorem pzstep_token (c : Ctx) (l : Lx) (hf : c.fixed = true) (hg : Good c l) (hQ : Pz l.toks) (hLI : PzI l .token) :
    StepPz (step c l .token) := by
  have := hg.s0; have := hg.sp; have := hg.pl
  obtain ⟨hs1, ht1, hr1, hp1, hw1, hl1, he1, ha1, hg1⟩ := next_ok c l (by omega) (by omega)
  have hpk := peek_snd c (next c l).2 hf (by omega)
  simp only [step, hpk, peek_fst]
  repeat' ite_cases
  all_goals pzbranch

theorem pzstep_unary (c : Ctx) (l : Lx) (hg : Good c l) (hQ : Pz l.toks) (hLI : PzI l .unary) :
    StepPz (step c l .unary) := by
  have := hg.s0; have := hg.sp; have := hg.pl
  obtain ⟨hs1, ht1, hr1, hp1, hw1, hl1, he1, ha1, hg1⟩ := next_ok c l (by omega) (by omega)
  simp only [step]
  repeat' ite_cases
  all_goals pzbranch

theorem pzstep_binopSp (c : Ctx) (l : Lx) (hg : Good c l) (hQ : Pz l.toks) (hLI : PzI l .binopSp) :
    StepPz (step c l .binopSp) := by
  have := hg.s0; have := hg.sp; have := hg.pl
  obtain ⟨hs1, ht1, hr1, hp1, hw1, hl1, he1, ha1, hg1⟩ := next_ok c l (by omega) (by omega)
  simp only [step]
  generalize (next c l).1 = r at *
  generalize (next c l).2 = l1 at *
  repeat' ite_cases
  all_goals pzbranch

theorem pzstep_binopMain (c : Ctx) (l : Lx) (hf : c.fixed = true) (hg : Good c l) (hQ : Pz l.toks) (hLI : PzI l .binopMain) :
    StepPz (step c l .binopMain) := by
  have := hg.s0; have := hg.sp; have := hg.pl
  obtain ⟨hs1, ht1, hr1, hp1, hw1, hl1, he1, ha1, hg1⟩ := next_ok c l (by omega) (by omega)
  obtain ⟨hs2, ht2, hr2, hp2, hw2, hl2, he2, ha2, hg2⟩ := next_ok c (next c l).2 (by omega) (by omega)
  have hpk := peek_snd c (next c l).2 hf (by omega)
  simp only [step, hpk, peek_fst]
  repeat' ite_cases
  all_goals pzbranch

theorem pzstep_regexOpSp (c : Ctx) (l : Lx) (hf : c.fixed = true) (hg : Good c l) (hQ : Pz l.toks) (hLI : PzI l .regexOpSp) :
    StepPz (step c l .regexOpSp) := by
  have := hg.s0; have := hg.sp; have := hg.pl
  obtain ⟨hs1, ht1, hr1, hp1, hw1, hl1, he1, ha1, hg1⟩ := next_ok c l (by omega) (by omega)
  have hpk := peek_snd c (backup (next c l).2) hf (by simp only [backup]; omega)
  simp only [step, hpk, peek_fst]
  repeat' ite_cases
  all_goals pzbranch

theorem pzstep_ident (c : Ctx) (l : Lx) (hg : Good c l) (hQ : Pz l.toks) (hLI : PzI l .ident) :
    StepPz (step c l .ident) := by
  have hli : l.start + 1 ≤ l.pos := hLI rfl
  have := hg.s0; have := hg.sp; have := hg.pl
  obtain ⟨hs1, ht1, hr1, hp1, hw1, hl1, he1, ha1, hg1⟩ := next_ok c l (by omega) (by omega)
  obtain ⟨hs2, ht2, hr2, hp2, hw2, hl2, he2, ha2, hg2⟩ :=
    next_ok c (backup (next c l).2) (by simp only [backup]; omega) (by simp only [backup]; omega)
  have hgb : Good c (backup (next c l).2) := by
    refine good_move hg ?_ ?_ ?_ ?_ ?_ <;> fin
  have hchk := chk_good hgb
  simp only [step, hchk]
  have e2 : (next c (backup (next c l).2)).2.toks = l.toks := by rw [ht2]; exact ht1
  have hs2' := hs2
  have hp2' := hp2
  have hw2' := hw2
  simp only [backup] at hs2' hp2' hw2'
  repeat' ite_cases
  all_goals (try pzbranch)
  all_goals (
    simp only [StepPz, emitTo, PzI]
    refine ⟨emit_Pz (Pz_of_eq hQ ?_) _ ?_, ?_⟩
    · first | exact e2 | exact ht1
    · pzty
    · pzli)

theorem pzstep_reference (c : Ctx) (l : Lx) (hf : c.fixed = true) (hg : Good c l) (hQ : Pz l.toks) (hLI : PzI l .reference) :
    StepPz (step c l .reference) := by
  have := hg.s0; have := hg.sp; have := hg.pl
  obtain ⟨hs1, ht1, hr1, hp1, hw1, hl1, he1, ha1, hg1⟩ := next_ok c l (by omega) (by omega)
  obtain ⟨hs2, ht2, hr2, hp2, hw2, hl2, he2, ha2, hg2⟩ := next_ok c (next c l).2 (by omega) (by omega)
  have hpk := peek_snd c (next c l).2 hf (by omega)
  simp only [step, hpk, peek_fst]
  repeat' ite_cases
  all_goals pzbranch

theorem pzstep_regexStart (c : Ctx) (l : Lx) (hg : Good c l) (hQ : Pz l.toks) (hLI : PzI l .regexStart) :
    StepPz (step c l .regexStart) := by
  have := hg.s0; have := hg.sp; have := hg.pl
  obtain ⟨hs1, ht1, hr1, hp1, hw1, hl1, he1, ha1, hg1⟩ := next_ok c l (by omega) (by omega)
  simp only [step]
  repeat' ite_cases
  all_goals pzbranch

theorem pzstep_regexBody (c : Ctx) (l : Lx) (hf : c.fixed = true) (hg : Good c l) (hQ : Pz l.toks) (hLI : PzI l .regexBody) :
    StepPz (step c l .regexBody) := by
  have := hg.s0; have := hg.sp; have := hg.pl
  obtain ⟨hs1, ht1, hr1, hp1, hw1, hl1, he1, ha1, hg1⟩ := next_ok c l (by omega) (by omega)
  obtain ⟨hs2, ht2, hr2, hp2, hw2, hl2, he2, ha2, hg2⟩ := next_ok c (next c l).2 (by omega) (by omega)
  have hpk := peek_snd c (next c l).2 hf (by omega)
  simp only [step, hpk, peek_fst]
  repeat' ite_cases
  all_goals pzbranch

theorem pzstep_commentStart (c : Ctx) (l : Lx) (hf : c.fixed = true) (hg : Good c l) (hQ : Pz l.toks) (hLI : PzI l .commentStart) :
    StepPz (step c l .commentStart) := by
  have := hg.s0; have := hg.sp; have := hg.pl
  obtain ⟨hs1, ht1, hr1, hp1, hw1, hl1, he1, ha1, hg1⟩ := next_ok c l (by omega) (by omega)
  have hpk := peek_snd c l hf (by omega)
  simp only [step, hpk, peek_fst]
  repeat' ite_cases
  all_goals pzbranch

theorem pzstep_commentBody (c : Ctx) (l : Lx) (hg : Good c l) (hQ : Pz l.toks) (hLI : PzI l .commentBody) :
    StepPz (step c l .commentBody) := by
  have hli : l.start + 1 ≤ l.pos := hLI rfl
  have := hg.s0; have := hg.sp; have := hg.pl
  obtain ⟨hs1, ht1, hr1, hp1, hw1, hl1, he1, ha1, hg1⟩ := next_ok c l (by omega) (by omega)
  simp only [step]
  repeat' ite_cases
  all_goals pzbranch

theorem pzstep_commentNL (c : Ctx) (l : Lx) (hg : Good c l) (hQ : Pz l.toks) (hLI : PzI l .commentNL) :
    StepPz (step c l .commentNL) := by
  have hli : l.start + 1 ≤ l.pos := hLI rfl
  have := hg.s0; have := hg.sp; have := hg.pl
  obtain ⟨hs1, ht1, hr1, hp1, hw1, hl1, he1, ha1, hg1⟩ := next_ok c l (by omega) (by omega)
  simp only [step]
  repeat' ite_cases
  all_goals pzbranch

theorem pzstep_number (c : Ctx) (l : Lx) (hf : c.fixed = true) (hg : Good c l) (hQ : Pz l.toks) (fd first : Bool)
    (hsi : StInv c l (.number fd first)) (hLI : PzI l (.number fd first)) :
    StepPz (step c l (.number fd first)) := by
  have := hg.s0; have := hg.sp; have := hg.pl
  obtain ⟨hs1, ht1, hr1, hp1, hw1, hl1, he1, ha1, hg1⟩ := next_ok c l (by omega) (by omega)
  obtain ⟨hs2, ht2, hr2, hp2, hw2, hl2, he2, ha2, hg2⟩ := next_ok c (next c l).2 (by omega) (by omega)
  have hpk := peek_snd c (next c l).2 hf (by omega)
  cases first
  · -- after the first rune: `start < pos` holds on entry
    have hli : l.start + 1 ≤ l.pos := hLI rfl
    cases fd <;> simp only [step, apply_ite Prod.fst, apply_ite Prod.snd, hpk, peek_fst, ite_self,
      Bool.false_eq_true, if_false, if_true, Bool.false_and, Bool.true_and, Bool.not_false, Bool.not_true]
    all_goals repeat' ite_cases
    all_goals pzbranch
  · -- the first rune: a digit or a dot (`StInv`), so the `backup` + `emit TokenNumber` branch is unreachable
    simp only [StInv, Bool.or_eq_true, beq_iff_eq] at hsi
    cases fd <;> simp only [step, apply_ite Prod.fst, apply_ite Prod.snd, hpk, peek_fst, ite_self,
      Bool.false_eq_true, if_false, if_true, Bool.false_and, Bool.true_and, Bool.not_false, Bool.not_true]
    all_goals repeat' ite_cases
    all_goals (try pzbranch)
    all_goals (
      exfalso
      simp only [Bool.or_eq_true, Bool.and_eq_true, beq_iff_eq, bne_iff_ne, Bool.not_eq_true', ne_eq, not_or, not_and] at *
      rcases hsi with h | h
      · first | contradiction | simp_all
      · first | contradiction | omega | simp_all)

theorem pzstep_strOuter (c : Ctx) (l : Lx) (hf : c.fixed = true) (hg : Good c l) (hQ : Pz l.toks) (count : Nat) (hLI : PzI l (.strOuter count)) :
    StepPz (step c l (.strOuter count)) := by
  have := hg.s0; have := hg.sp; have := hg.pl
  obtain ⟨hs1, ht1, hr1, hp1, hw1, hl1, he1, ha1, hg1⟩ := next_ok c l (by omega) (by omega)
  obtain ⟨hs2, ht2, hr2, hp2, hw2, hl2, he2, ha2, hg2⟩ := next_ok c (next c l).2 (by omega) (by omega)
  obtain ⟨hs3, ht3, hr3, hp3, hw3, hl3, he3, ha3, hg3⟩ := next_ok c (next c (next c l).2).2 (by omega) (by omega)
  have hpk1 := peek_snd c (next c l).2 hf (by omega)
  have hpk2 := peek_snd c (next c (next c l).2).2 hf (by omega)
  simp only [step, apply_ite Prod.fst, apply_ite Prod.snd, hpk1, hpk2, peek_fst, ite_self]
  repeat' ite_cases
  all_goals pzbranch

theorem pzstep_strInner (c : Ctx) (l : Lx) (hf : c.fixed = true) (hg : Good c l) (hQ : Pz l.toks) (count total : Nat) (hLI : PzI l (.strInner count total)) :
    StepPz (step c l (.strInner count total)) := by
  have := hg.s0; have := hg.sp; have := hg.pl
  obtain ⟨hs1, ht1, hr1, hp1, hw1, hl1, he1, ha1, hg1⟩ := next_ok c l (by omega) (by omega)
  obtain ⟨hs2, ht2, hr2, hp2, hw2, hl2, he2, ha2, hg2⟩ := next_ok c (next c l).2 (by omega) (by omega)
  have hpk1 := peek_snd c (next c l).2 hf (by omega)
  simp only [step, apply_ite Prod.fst, apply_ite Prod.snd, hpk1, peek_fst, ite_self]
  repeat' ite_cases
  all_goals pzbranch


theorem pzstep_ok (c : Ctx) (hf : c.fixed = true) (l : Lx) (s : St) (hg : Good c l) (hsi : StInv c l s)
    (hQ : Pz l.toks) (hLI : PzI l s) : StepPz (step c l s) := by
  cases s with
  | token => exact pzstep_token c l hf hg hQ hLI
  | unary => exact pzstep_unary c l hg hQ hLI
  | binopSp => exact pzstep_binopSp c l hg hQ hLI
  | binopMain => exact pzstep_binopMain c l hf hg hQ hLI
  | regexOpSp => exact pzstep_regexOpSp c l hf hg hQ hLI
  | ident => exact pzstep_ident c l hg hQ hLI
  | number fd first => exact pzstep_number c l hf hg hQ fd first hsi hLI
  | reference => exact pzstep_reference c l hf hg hQ hLI
  | strOuter n => exact pzstep_strOuter c l hf hg hQ n hLI
  | strInner n t => exact pzstep_strInner c l hf hg hQ n t hLI
  | regexStart => exact pzstep_regexStart c l hg hQ hLI
  | regexBody => exact pzstep_regexBody c l hf hg hQ hLI
  | commentStart => exact pzstep_commentStart c l hf hg hQ hLI
  | commentBody => exact pzstep_commentBody c l hg hQ hLI
  | commentNL => exact pzstep_commentNL c l hg hQ hLI

/-- The run lemma: every text-carrying, non-EOF token of a finished run has at least one byte. -/
theorem run_pos (c : Ctx) (hf : c.fixed = true) :
    ∀ (k : Nat) (l : Lx) (s : St), Good c l → StInv c l s → Pz l.toks → PzI l s → mu c l s < k →
      ∃ l' : Lx, runFrom c k l s = .done l'.toks.reverse ∧ Pz l'.toks := by
  intro k
  induction k with
  | zero =>
    intro l s hg _ _ _ hk
    have := rank_nonneg s; have := hg.pl
    simp only [mu] at hk; omega
  | succ k ih =>
    intro l s hg hsi hQ hLI hk
    have h := step_ok c hf l s hg hsi
    have hq := pzstep_ok c hf l s hg hsi hQ hLI
    unfold runFrom
    cases hst : step c l s with
    | cont l' s' =>
      rw [hst] at h hq
      obtain ⟨hg', hsi', hmu⟩ := h
      simp only [hg'.nt]
      exact ih l' s' hg' hsi' hq.1 hq.2 (by omega)
    | done l' =>
      rw [hst] at h hq
      simp only [h.nt]
      exact ⟨l', rfl, hq⟩

/-! ### The count bound -/

/-- Ordered, pairwise disjoint slices of at least one byte each inside `[0, b]` (newest first): at most
`b` of them. -/
theorem count_le : ∀ (ts : List Tok) (b : Int),
    (∀ t ∈ ts, 0 ≤ t.pos ∧ 1 ≤ tlen t ∧ t.pos + tlen t ≤ b) →
    ts.Pairwise (fun newer older => older.pos + tlen older ≤ newer.pos) →
    0 ≤ b → (ts.length : Int) ≤ b := by
  intro ts
  induction ts with
  | nil =>
    intro b _ _ hb
    simpa using hb
  | cons u rest ih =>
    intro b hb hp _
    obtain ⟨hu, hrest⟩ := List.pairwise_cons.mp hp
    have h0 := hb u (List.mem_cons.mpr (Or.inl rfl))
    have hr : (rest.length : Int) ≤ u.pos := by
      refine ih u.pos ?_ hrest h0.1
      intro t ht
      have h1 := hb t (List.mem_cons.mpr (Or.inr ht))
      have h2 := hu t ht
      exact ⟨h1.1, h1.2.1, h2⟩
    simp only [List.length_cons]
    omega

/-- All the per-run facts on ONE finished run: the token list (newest first) is a terminal token on top of
non-terminal ones, in order inside the input, every non-terminal one non-empty. -/
theorem run_facts (c : Ctx) (hf : c.fixed = true) (toks : List Tok) (h : lexRun c = .done toks) :
    ∃ t ts, toks = (t :: ts).reverse ∧ Q ts ∧ Term c t ∧ TokInv (t :: ts) c.len ∧ Pz (t :: ts) := by
  have hg : Good c {} := ⟨rfl, by simp, by simp, by simp [Ctx.len], ⟨by simp, by simp⟩⟩
  have hQ : Q ({} : Lx).toks := by intro t ht; cases ht
  have hP : Pz ({} : Lx).toks := by intro t ht; cases ht
  have hLI : PzI ({} : Lx) .token := by intro h; exact absurd h (by decide)
  have hk : mu c {} .token < (lexFuel c : Int) := by simp [mu, rank, lexFuel, Ctx.len]
  obtain ⟨l1, h1, hfin⟩ := run_ok c hf (lexFuel c) {} .token hg trivial hk
  obtain ⟨t, ts, h2, hq, hterm⟩ := run_term c hf (lexFuel c) {} .token hg trivial hQ hk
  obtain ⟨l3, h3, hpz⟩ := run_pos c hf (lexFuel c) {} .token hg trivial hP hLI hk
  have e1 : l1.toks = t :: ts := by
    have : LexOut.done l1.toks.reverse = LexOut.done (t :: ts).reverse := by rw [← h1, ← h2]
    exact List.reverse_inj.mp (LexOut.done.inj this)
  have e3 : l3.toks = t :: ts := by
    have : LexOut.done l3.toks.reverse = LexOut.done (t :: ts).reverse := by rw [← h3, ← h2]
    exact List.reverse_inj.mp (LexOut.done.inj this)
  have e : toks = (t :: ts).reverse := by
    have : LexOut.done toks = LexOut.done (t :: ts).reverse := by rw [← h, ← h2]; rfl
    exact LexOut.done.inj this
  exact ⟨t, ts, e, hq, hterm, e1 ▸ hfin.ti, e3 ▸ hpz⟩

/-- **No empty tokens**: every token of the stream that carries text and is not EOF has at least one byte. -/
theorem lexer_tokens_nonempty (c : Ctx) (hf : c.fixed = true) (toks : List Tok) (h : lexRun c = .done toks) :
    ∀ t ∈ toks, t.typ ≠ tEOF → t.len ≠ none → 1 ≤ tlen t := by
  obtain ⟨t, ts, e, _, _, _, hpz⟩ := run_facts c hf toks h
  subst e
  exact fun u hu => hpz u (List.mem_reverse.mp hu)

/-- **The count bound**: an input of `n` bytes yields at most `n + 1` tokens. -/
theorem lexer_token_count (c : Ctx) (hf : c.fixed = true) (toks : List Tok) (h : lexRun c = .done toks) :
    toks.length ≤ c.inp.length + 1 := by
  obtain ⟨t, ts, e, hq, _, hti, hpz⟩ := run_facts c hf toks h
  subst e
  have hts : (ts.length : Int) ≤ c.len := by
    refine count_le ts c.len ?_ (List.pairwise_cons.mp hti.srt).2 (by simp [Ctx.len])
    intro u hu
    have hm : u ∈ t :: ts := List.mem_cons.mpr (Or.inr hu)
    have hb := hti.tb u hm
    have hq' := hq u hu
    exact ⟨hb.1, hpz u hm hq'.2 hq'.1, hb.2.2⟩
  simp only [List.length_reverse, List.length_cons]
  simp only [Ctx.len] at hts
  omega

end Kap.C05
