/-
C05 — helper lemmas for the request / response pairing model of udf.Server (Kap/Model/C05Rr.lean).
-/
import Kap.Model.C05Rr
namespace Kap.C05.Rr

/-- A result a request of kind `k` may have when nothing went wrong: never a trap, and a delivered response
is of kind `k`. -/
def okRes (k : Kind) : Res → Prop
  | .got j _ => j = k
  | .trap _ => False
  | _ => True

theorem perKind_asserts {R : Routing} (h : R.perKind = true) (k : Kind) : R.asserts k = k := by
  have := (List.all_eq_true.mp h) k (Kind.mem_all k)
  simp only [Bool.and_eq_true, beq_iff_eq] at this
  exact this.1

theorem perKind_route {R : Routing} (h : R.perKind = true) {j k : Kind} (e : R.route j = R.reads k) : j = k := by
  have := (List.all_eq_true.mp h) k (Kind.mem_all k)
  simp only [Bool.and_eq_true] at this
  have := (List.all_eq_true.mp this.2) j (Kind.mem_all j)
  simp only [Bool.or_eq_true, bne_iff_ne, ne_eq, beq_iff_eq] at this
  rcases this with h' | h'
  · exact absurd e h'
  · exact h'

theorem deliver_ok {R : Routing} (h : R.perKind = true) {j k : Kind} (tag : Nat) (e : R.route j = R.reads k) :
    okRes k (deliver R k j tag) := by
  have hjk := perKind_route h e
  subst hjk
  simp [deliver, perKind_asserts h, okRes]

structure Inv (R : Routing) (s : St) : Prop where
  slots : ∀ e ∈ s.slots, R.route e.2.1 = e.1
  reqs : ∀ k r, s.reqs k = .done r → okRes k r
  out : ∀ kr ∈ s.out, okRes kr.1 kr.2

theorem inv_init (R : Routing) : Inv R {} :=
  ⟨(by intro e he; cases he), (by intro k r h; cases h), (by intro kr h; cases h)⟩

theorem inv_setReq {R : Routing} {s : St} (hs : Inv R s) (k : Kind) (v : ReqSt)
    (hv : ∀ r, v = .done r → okRes k r) : Inv R (setReq s k v) := by
  refine ⟨hs.slots, ?_, hs.out⟩
  intro k' r hr
  simp only [setReq] at hr
  split at hr
  · next e => subst e; exact hv r hr
  · exact hs.reqs k' r hr

theorem inv_step {R : Routing} (h : R.perKind = true) {s : St} (hs : Inv R s) (st : Step) :
    Inv R (step R s st) := by
  cases st with
  | keepalive => exact hs
  | bad =>
    simp only [step]
    split
    · exact hs
    · refine ⟨hs.slots, ?_, hs.out⟩
      intro k r hr
      simp only at hr
      split at hr
      · cases hr; trivial
      · exact hs.reqs k r hr
  | send j tag =>
    simp only [step]
    split
    · exact hs
    · split
      · next k more hf =>
        have hk : k ∈ Kind.all.filter (fun k => R.reads k == R.route j && s.reqs k == .waiting) := by
          rw [hf]; exact List.mem_cons_self
        have hk2 := (List.mem_filter.mp hk).2
        simp only [Bool.and_eq_true, beq_iff_eq] at hk2
        have := inv_setReq hs k (.done (deliver R k j tag))
          (by intro r hr; cases hr; exact deliver_ok h tag hk2.1.symm)
        exact ⟨this.slots, this.reqs, this.out⟩
      · split
        · exact ⟨hs.slots, hs.reqs, hs.out⟩
        · refine ⟨?_, hs.reqs, hs.out⟩
          intro e he
          rcases List.mem_cons.mp he with he | he
          · subst he; rfl
          · exact hs.slots e he
  | req k =>
    simp only [step]
    split
    · split
      · exact inv_setReq hs k _ (by intro r hr; cases hr; trivial)
      · split
        · next c j tag hf =>
          have hm := List.mem_of_find?_eq_some hf
          have hc := List.find?_some hf
          simp only [beq_iff_eq] at hc
          have hr := hs.slots _ hm
          simp only at hr hc
          have := inv_setReq hs k (.done (deliver R k j tag))
            (by intro r hr'; cases hr'; exact deliver_ok h tag (hr.trans hc))
          refine ⟨?_, this.reqs, this.out⟩
          intro e he
          exact hs.slots e (List.mem_filter.mp he).1
        · exact inv_setReq hs k _ (by intro r hr; cases hr)
    · exact ⟨hs.slots, hs.reqs, hs.out⟩
  | wait k =>
    simp only [step]
    split
    · next r hr =>
      have := inv_setReq hs k .idle (by intro r hr; cases hr)
      refine ⟨this.slots, this.reqs, ?_⟩
      intro kr hkr
      rcases List.mem_cons.mp hkr with e | e
      · subst e; exact hs.reqs k r hr
      · exact hs.out kr e
    · refine ⟨hs.slots, hs.reqs, ?_⟩
      intro kr hkr
      rcases List.mem_cons.mp hkr with e | e
      · subst e; trivial
      · exact hs.out kr e
    · refine ⟨hs.slots, hs.reqs, ?_⟩
      intro kr hkr
      rcases List.mem_cons.mp hkr with e | e
      · subst e; trivial
      · exact hs.out kr e

theorem inv_runFrom {R : Routing} (h : R.perKind = true) (steps : List Step) {s : St} (hs : Inv R s) :
    Inv R (runFrom R s steps) := by
  induction steps generalizing s with
  | nil => exact hs
  | cons st rest ih => exact ih (inv_step h hs st)

theorem finish_ok {R : Routing} {s : St} (hs : Inv R s) : ∀ kr ∈ (finish s).1, okRes kr.1 kr.2 := by
  intro kr hkr
  simp only [finish] at hkr
  rcases List.mem_append.mp hkr with e | e
  · exact hs.out kr (List.mem_reverse.mp e)
  · obtain ⟨k, _, hk⟩ := List.mem_filterMap.mp e
    split at hk
    · cases hk; trivial
    · next r hr => cases hk; exact hs.reqs k r hr
    · cases hk

theorem run_ok {R : Routing} (h : R.perKind = true) (steps : List Step) :
    ∀ kr ∈ (run R steps).1, okRes kr.1 kr.2 :=
  finish_ok (inv_runFrom h steps (inv_init R))

theorem wrapper_no_trap (o : Bool) (es : List WEv) : WRes.trap ∉ wrapper true true o es := by
  induction es generalizing o with
  | nil => simp [wrapper]
  | cons e es ih =>
    cases e <;> simp only [wrapper, List.mem_cons, not_or] <;> refine ⟨?_, ih _⟩
    · intro h; cases h
    · cases o <;> simp
    · cases o <;> simp

end Kap.C05.Rr
