/- C05 — helper lemmas for the tag-set model (Kap/Model/C05Tags.lean). Core Lean only. -/
import Kap.Model.C05Tags
namespace Kap.C05.Tags

theorem setDefaultTags_copy_isSome (tags : GoMap) : ∀ (ds : List (String × String)) (cur : GoMap) (copied : Bool),
    (copied = true → cur.isNil = false) → (setDefaultTags copy tags ds cur copied).isSome = true := by
  intro ds
  induction ds with
  | nil => intro cur copied _; rfl
  | cons d ds ih =>
    intro cur copied h
    obtain ⟨t, v⟩ := d
    unfold setDefaultTags
    split
    · cases copied with
      | true =>
        have hc := h rfl
        cases cur with
        | nil => simp [GoMap.isNil] at hc
        | mk l => simp only [if_true, GoMap.set]; exact ih _ true (fun _ => rfl)
      | false =>
        simp only [Bool.false_eq_true, if_false, copy, GoMap.set]; exact ih _ true (fun _ => rfl)
    · exact ih cur copied h

theorem lookup_filter_ne (t k : String) (hne : t ≠ k) : ∀ l : List (String × String),
    (l.filter (fun e => e.1 != t)).lookup k = l.lookup k := by
  intro l
  induction l with
  | nil => rfl
  | cons e l ih =>
    obtain ⟨a, b⟩ := e
    by_cases hat : a = t
    · subst hat
      have : (k == a) = false := by simpa using fun e => hne e.symm
      simp [List.filter, List.lookup, this, ih]
    · have hf : ((a, b).1 != t) = true := by simpa using hat
      simp only [List.filter, hf, List.lookup]
      split
      · rfl
      · exact ih

theorem get_set_ne (m m' : GoMap) (t v k : String) (h : m.set t v = some m') (hne : t ≠ k) : m'.get k = m.get k := by
  cases m with
  | nil => simp [GoMap.set] at h
  | mk l =>
    simp only [GoMap.set, Option.some.injEq] at h
    subst h
    simp only [GoMap.get, GoMap.entries]
    have h1 : ((t, v) :: l.filter (fun e => e.1 != t)).lookup k = (l.filter (fun e => e.1 != t)).lookup k := by
      simp [List.lookup, show (k == t) = false from by simpa using fun e => hne e.symm]
    rw [h1, lookup_filter_ne t k hne l]

theorem copy_get (m : GoMap) (k : String) : (copy m).get k = m.get k := rfl

/-- a key the point carries with a non-empty value is never defaulted and keeps its value -/
theorem setDefaultTags_keeps (tags : GoMap) (k : String) (hk : tags.get k ≠ "") :
    ∀ (ds : List (String × String)) (cur : GoMap) (copied : Bool) (m : GoMap),
      setDefaultTags copy tags ds cur copied = some m → cur.get k = tags.get k → m.get k = tags.get k := by
  intro ds
  induction ds with
  | nil => intro cur copied m h hc; simp only [setDefaultTags, Option.some.injEq] at h; subst h; exact hc
  | cons d ds ih =>
    intro cur copied m h hc
    obtain ⟨t, v⟩ := d
    unfold setDefaultTags at h
    split at h
    · rename_i ht
      have hne : t ≠ k := by
        intro e; subst e; exact hk (by simpa using ht)
      split at h
      · exact absurd h (by simp)
      · rename_i m1 hset
        refine ih m1 true m h ?_
        cases copied with
        | true => simp only [if_true] at hset; rw [get_set_ne cur m1 t v k hset hne]; exact hc
        | false =>
          simp only [Bool.false_eq_true, if_false] at hset
          rw [get_set_ne (copy cur) m1 t v k hset hne, copy_get]; exact hc
    · exact ih cur copied m h hc

end Kap.C05.Tags
