/-
C05 — the terminal structure of the token stream: every token but the last carries text and is not EOF;
the last one is the error token or the EOF token, and the EOF token ends exactly at the end of the input.
A third pass over the state functions (next to Kap/Proofs/C05.lean and C05Bnd.lean).
-/
import Kap.Proofs.C05Bnd
namespace Kap.C05

theorem opOf_ne_eof (s : Bytes) : opOf s ≠ tEOF := by
  unfold opOf; split <;> decide

theorem keywordOf_ne_eof (s : Bytes) : keywordOf s ≠ tEOF := by
  unfold keywordOf; split <;> decide

/-- `next` answers EOF only at (or beyond) the end of the input. -/
theorem next_eof_at_end (c : Ctx) (l : Lx) (h0 : 0 ≤ l.pos) (h : (next c l).1 = -1) : c.len ≤ l.pos := by
  unfold next at h
  by_cases hge : l.pos ≥ c.len
  · exact hge
  · have hlt : ¬ l.pos < 0 := by omega
    simp only [hge, hlt, if_false] at h
    omega

/-- Non-terminal tokens: text, and not EOF. -/
def Q (toks : List Tok) : Prop := ∀ t ∈ toks, t.len ≠ none ∧ t.typ ≠ tEOF

/-- A terminal token: the error token, or the EOF token ending at the end of the input. -/
def Term (c : Ctx) (t : Tok) : Prop :=
  (t.typ = tError ∧ t.len = none) ∨ (t.typ = tEOF ∧ t.len ≠ none ∧ t.pos + tlen t = c.len)

def StepQ (c : Ctx) : Step → Prop
  | .cont l _ => Q l.toks
  | .done l => ∃ t ts, l.toks = t :: ts ∧ Q ts ∧ Term c t

theorem Q_of_eq {a b : List Tok} (h : Q b) (e : a = b) : Q a := e ▸ h

theorem emit_Q {c : Ctx} {l : Lx} (h : Q l.toks) (t : Nat) (ht : t ≠ tEOF) : Q (emit c l t).toks := by
  unfold emit; split
  · intro u hu
    rcases List.mem_cons.mp hu with rfl | hu
    · exact ⟨by simp, ht⟩
    · exact h u hu
  · exact h

theorem errorf_term {c : Ctx} {l : Lx} (h : Q l.toks) : StepQ c (.done (errorf l)) :=
  ⟨_, _, rfl, h, Or.inl ⟨rfl, rfl⟩⟩

macro "ne_eof" : tactic => `(tactic| first
  | decide
  | exact opOf_ne_eof _
  | exact keywordOf_ne_eof _
  | (intro h; subst h; simp_all [tEOF, tLambda] ; done))

set_option hygiene false in
macro "qbranch" : tactic => `(tactic| (
  simp only [StepQ, emitTo]
  first
  | (refine Q_of_eq hQ ?_ ; first | rfl | (simp only [ignore, backup, *] ; done))
  | (refine emit_Q (Q_of_eq hQ ?_) _ ?_ <;> first | rfl | (simp only [ignore, backup, *] ; done) | ne_eof)
  | (refine errorf_term (Q_of_eq hQ ?_) ; first | rfl | (simp only [ignore, backup, *] ; done))))

theorem emit_toks_good {c : Ctx} {l : Lx} (hg : Good c l) (t : Nat) :
    (emit c l t).toks = ⟨t, l.start, some (l.pos - l.start)⟩ :: l.toks := by
  have hr : inRange c l = true := by
    simp [inRange]; exact ⟨⟨hg.s0, hg.sp⟩, hg.pl⟩
  simp [emit, hr]

theorem qstep_token (c : Ctx) (l : Lx) (hf : c.fixed = true) (hg : Good c l) (hQ : Q l.toks) :
    StepQ c (step c l .token) := by
  have := hg.s0; have := hg.sp; have := hg.pl
  obtain ⟨hs1, ht1, hr1, hp1, hw1, hl1, he1, ha1, hg1⟩ := next_ok c l (by omega) (by omega)
  have hend := next_eof_at_end c l (by omega)
  have hpk := peek_snd c (next c l).2 hf (by omega)
  simp only [step, hpk, peek_fst]
  generalize (next c (next c l).2).1 = r2 at *
  generalize (next c l).1 = r at *
  generalize (next c l).2 = l1 at *
  repeat' ite_cases
  all_goals (try qbranch)
  -- the EOF token
  rename_i heof
  have hr : r = -1 := by simpa [eof] using heof
  have hgood : Good c l1 := by
    refine good_move hg ht1 hr1 ?_ ?_ ?_ <;> omega
  have hw := he1 hr
  have hle := hend hr
  refine ⟨_, _, emit_toks_good hgood tEOF, Q_of_eq hQ ht1, Or.inr ⟨rfl, by simp, ?_⟩⟩
  simp only [tlen, Option.getD_some]
  omega

theorem qstep_unary (c : Ctx) (l : Lx) (hg : Good c l) (hQ : Q l.toks) :
    StepQ c (step c l .unary) := by
  have := hg.s0; have := hg.sp; have := hg.pl
  obtain ⟨hs1, ht1, hr1, hp1, hw1, hl1, he1, ha1, hg1⟩ := next_ok c l (by omega) (by omega)
  simp only [step]
  repeat' ite_cases
  all_goals qbranch

theorem qstep_binopSp (c : Ctx) (l : Lx) (hg : Good c l) (hQ : Q l.toks) :
    StepQ c (step c l .binopSp) := by
  have := hg.s0; have := hg.sp; have := hg.pl
  obtain ⟨hs1, ht1, hr1, hp1, hw1, hl1, he1, ha1, hg1⟩ := next_ok c l (by omega) (by omega)
  simp only [step]
  generalize (next c l).1 = r at *
  generalize (next c l).2 = l1 at *
  repeat' ite_cases
  all_goals qbranch

theorem qstep_binopMain (c : Ctx) (l : Lx) (hf : c.fixed = true) (hg : Good c l) (hQ : Q l.toks) :
    StepQ c (step c l .binopMain) := by
  have := hg.s0; have := hg.sp; have := hg.pl
  obtain ⟨hs1, ht1, hr1, hp1, hw1, hl1, he1, ha1, hg1⟩ := next_ok c l (by omega) (by omega)
  obtain ⟨hs2, ht2, hr2, hp2, hw2, hl2, he2, ha2, hg2⟩ := next_ok c (next c l).2 (by omega) (by omega)
  have hpk := peek_snd c (next c l).2 hf (by omega)
  simp only [step, hpk, peek_fst]
  repeat' ite_cases
  all_goals qbranch

theorem qstep_regexOpSp (c : Ctx) (l : Lx) (hf : c.fixed = true) (hg : Good c l) (hQ : Q l.toks) :
    StepQ c (step c l .regexOpSp) := by
  have := hg.s0; have := hg.sp; have := hg.pl
  obtain ⟨hs1, ht1, hr1, hp1, hw1, hl1, he1, ha1, hg1⟩ := next_ok c l (by omega) (by omega)
  have hpk := peek_snd c (backup (next c l).2) hf (by simp only [backup]; omega)
  simp only [step, hpk, peek_fst]
  repeat' ite_cases
  all_goals qbranch

theorem qstep_ident (c : Ctx) (l : Lx) (hg : Good c l) (hQ : Q l.toks) :
    StepQ c (step c l .ident) := by
  have := hg.s0; have := hg.sp; have := hg.pl
  obtain ⟨hs1, ht1, hr1, hp1, hw1, hl1, he1, ha1, hg1⟩ := next_ok c l (by omega) (by omega)
  obtain ⟨hs2, ht2, hr2, hp2, hw2, hl2, he2, ha2, hg2⟩ :=
    next_ok c (backup (next c l).2) (by simp only [backup]; omega) (by simp only [backup]; omega)
  have hgb : Good c (backup (next c l).2) := by
    refine good_move hg ?_ ?_ ?_ ?_ ?_ <;> fin
  have hchk := chk_good hgb
  simp only [step, hchk]
  have e2 : (next c (backup (next c l).2)).2.toks = l.toks := by rw [ht2]; exact ht1
  repeat' ite_cases
  all_goals (try qbranch)
  all_goals (
    simp only [StepQ, emitTo]
    refine emit_Q (Q_of_eq hQ ?_) _ ?_
    · first | exact e2 | exact ht1
    · ne_eof)

theorem qstep_reference (c : Ctx) (l : Lx) (hf : c.fixed = true) (hg : Good c l) (hQ : Q l.toks) :
    StepQ c (step c l .reference) := by
  have := hg.s0; have := hg.sp; have := hg.pl
  obtain ⟨hs1, ht1, hr1, hp1, hw1, hl1, he1, ha1, hg1⟩ := next_ok c l (by omega) (by omega)
  obtain ⟨hs2, ht2, hr2, hp2, hw2, hl2, he2, ha2, hg2⟩ := next_ok c (next c l).2 (by omega) (by omega)
  have hpk := peek_snd c (next c l).2 hf (by omega)
  simp only [step, hpk, peek_fst]
  repeat' ite_cases
  all_goals qbranch

theorem qstep_regexStart (c : Ctx) (l : Lx) (hg : Good c l) (hQ : Q l.toks) :
    StepQ c (step c l .regexStart) := by
  have := hg.s0; have := hg.sp; have := hg.pl
  obtain ⟨hs1, ht1, hr1, hp1, hw1, hl1, he1, ha1, hg1⟩ := next_ok c l (by omega) (by omega)
  simp only [step]
  repeat' ite_cases
  all_goals qbranch

theorem qstep_regexBody (c : Ctx) (l : Lx) (hf : c.fixed = true) (hg : Good c l) (hQ : Q l.toks) :
    StepQ c (step c l .regexBody) := by
  have := hg.s0; have := hg.sp; have := hg.pl
  obtain ⟨hs1, ht1, hr1, hp1, hw1, hl1, he1, ha1, hg1⟩ := next_ok c l (by omega) (by omega)
  obtain ⟨hs2, ht2, hr2, hp2, hw2, hl2, he2, ha2, hg2⟩ := next_ok c (next c l).2 (by omega) (by omega)
  have hpk := peek_snd c (next c l).2 hf (by omega)
  simp only [step, hpk, peek_fst]
  repeat' ite_cases
  all_goals qbranch

theorem qstep_commentStart (c : Ctx) (l : Lx) (hf : c.fixed = true) (hg : Good c l) (hQ : Q l.toks) :
    StepQ c (step c l .commentStart) := by
  have := hg.s0; have := hg.sp; have := hg.pl
  obtain ⟨hs1, ht1, hr1, hp1, hw1, hl1, he1, ha1, hg1⟩ := next_ok c l (by omega) (by omega)
  have hpk := peek_snd c l hf (by omega)
  simp only [step, hpk, peek_fst]
  repeat' ite_cases
  all_goals qbranch

theorem qstep_commentBody (c : Ctx) (l : Lx) (hg : Good c l) (hQ : Q l.toks) :
    StepQ c (step c l .commentBody) := by
  have := hg.s0; have := hg.sp; have := hg.pl
  obtain ⟨hs1, ht1, hr1, hp1, hw1, hl1, he1, ha1, hg1⟩ := next_ok c l (by omega) (by omega)
  simp only [step]
  repeat' ite_cases
  all_goals qbranch

theorem qstep_commentNL (c : Ctx) (l : Lx) (hg : Good c l) (hQ : Q l.toks) :
    StepQ c (step c l .commentNL) := by
  have := hg.s0; have := hg.sp; have := hg.pl
  obtain ⟨hs1, ht1, hr1, hp1, hw1, hl1, he1, ha1, hg1⟩ := next_ok c l (by omega) (by omega)
  simp only [step]
  repeat' ite_cases
  all_goals qbranch

theorem qstep_number (c : Ctx) (l : Lx) (hf : c.fixed = true) (hg : Good c l) (hQ : Q l.toks) (fd first : Bool) :
    StepQ c (step c l (.number fd first)) := by
  have := hg.s0; have := hg.sp; have := hg.pl
  obtain ⟨hs1, ht1, hr1, hp1, hw1, hl1, he1, ha1, hg1⟩ := next_ok c l (by omega) (by omega)
  obtain ⟨hs2, ht2, hr2, hp2, hw2, hl2, he2, ha2, hg2⟩ := next_ok c (next c l).2 (by omega) (by omega)
  have hpk := peek_snd c (next c l).2 hf (by omega)
  cases first <;> cases fd <;> simp only [step, apply_ite Prod.fst, apply_ite Prod.snd, hpk, peek_fst, ite_self,
    Bool.false_eq_true, if_false, if_true, Bool.false_and, Bool.true_and, Bool.not_false, Bool.not_true]
  all_goals repeat' ite_cases
  all_goals qbranch

theorem qstep_strOuter (c : Ctx) (l : Lx) (hf : c.fixed = true) (hg : Good c l) (hQ : Q l.toks) (count : Nat) :
    StepQ c (step c l (.strOuter count)) := by
  have := hg.s0; have := hg.sp; have := hg.pl
  obtain ⟨hs1, ht1, hr1, hp1, hw1, hl1, he1, ha1, hg1⟩ := next_ok c l (by omega) (by omega)
  obtain ⟨hs2, ht2, hr2, hp2, hw2, hl2, he2, ha2, hg2⟩ := next_ok c (next c l).2 (by omega) (by omega)
  obtain ⟨hs3, ht3, hr3, hp3, hw3, hl3, he3, ha3, hg3⟩ := next_ok c (next c (next c l).2).2 (by omega) (by omega)
  have hpk1 := peek_snd c (next c l).2 hf (by omega)
  have hpk2 := peek_snd c (next c (next c l).2).2 hf (by omega)
  simp only [step, apply_ite Prod.fst, apply_ite Prod.snd, hpk1, hpk2, peek_fst, ite_self]
  repeat' ite_cases
  all_goals qbranch

theorem qstep_strInner (c : Ctx) (l : Lx) (hf : c.fixed = true) (hg : Good c l) (hQ : Q l.toks) (count total : Nat) :
    StepQ c (step c l (.strInner count total)) := by
  have := hg.s0; have := hg.sp; have := hg.pl
  obtain ⟨hs1, ht1, hr1, hp1, hw1, hl1, he1, ha1, hg1⟩ := next_ok c l (by omega) (by omega)
  obtain ⟨hs2, ht2, hr2, hp2, hw2, hl2, he2, ha2, hg2⟩ := next_ok c (next c l).2 (by omega) (by omega)
  have hpk1 := peek_snd c (next c l).2 hf (by omega)
  simp only [step, apply_ite Prod.fst, apply_ite Prod.snd, hpk1, peek_fst, ite_self]
  repeat' ite_cases
  all_goals qbranch

theorem qstep_ok (c : Ctx) (hf : c.fixed = true) (l : Lx) (s : St) (hg : Good c l) (hQ : Q l.toks) :
    StepQ c (step c l s) := by
  cases s with
  | token => exact qstep_token c l hf hg hQ
  | unary => exact qstep_unary c l hg hQ
  | binopSp => exact qstep_binopSp c l hg hQ
  | binopMain => exact qstep_binopMain c l hf hg hQ
  | regexOpSp => exact qstep_regexOpSp c l hf hg hQ
  | ident => exact qstep_ident c l hg hQ
  | number fd first => exact qstep_number c l hf hg hQ fd first
  | reference => exact qstep_reference c l hf hg hQ
  | strOuter n => exact qstep_strOuter c l hf hg hQ n
  | strInner n t => exact qstep_strInner c l hf hg hQ n t
  | regexStart => exact qstep_regexStart c l hg hQ
  | regexBody => exact qstep_regexBody c l hf hg hQ
  | commentStart => exact qstep_commentStart c l hf hg hQ
  | commentBody => exact qstep_commentBody c l hg hQ
  | commentNL => exact qstep_commentNL c l hg hQ

/-- The run lemma: the token list (newest first) of a finished run is a terminal token on top of
non-terminal ones. -/
theorem run_term (c : Ctx) (hf : c.fixed = true) :
    ∀ (k : Nat) (l : Lx) (s : St), Good c l → StInv c l s → Q l.toks → mu c l s < k →
      ∃ t ts, runFrom c k l s = .done (t :: ts).reverse ∧ Q ts ∧ Term c t := by
  intro k
  induction k with
  | zero =>
    intro l s hg _ _ hk
    have := rank_nonneg s; have := hg.pl
    simp only [mu] at hk; omega
  | succ k ih =>
    intro l s hg hsi hQ hk
    have h := step_ok c hf l s hg hsi
    have hq := qstep_ok c hf l s hg hQ
    unfold runFrom
    cases hst : step c l s with
    | cont l' s' =>
      rw [hst] at h hq
      obtain ⟨hg', hsi', hmu⟩ := h
      simp only [hg'.nt]
      exact ih l' s' hg' hsi' hq (by omega)
    | done l' =>
      rw [hst] at h hq
      obtain ⟨t, ts, e, h1, h2⟩ := hq
      simp only [h.nt]
      exact ⟨t, ts, by rw [e]; rfl, h1, h2⟩

end Kap.C05
