/-
C05 — every token the scanner emits has a REAL token type: one of the `TokenType` constants the lexer
uses (never one of the `begin_…/end_…` range markers, never above `TokenRegexNotEqual`). A fifth pass.
Consequence: `precedence[look.typ]` behind `IsExprOperator(look.typ)` in the parser stays inside the table.
-/
import Kap.Proofs.C05Term
namespace Kap.C05

/-- The token types the lexer can emit. -/
def validTypes : List Nat := [tError, tEOF, tVar, tDBRP, tAsgn, tDot, tPipe, tAt, tIdent, tReference, tLambda, tNumber,
  tString, tDuration, tLParen, tRParen, tLSBracket, tRSBracket, tComma, tNot, tTrue, tFalse, tRegex, tComment, tStar,
  tPlus, tMinus, tMult, tDiv, tMod, tAnd, tOr, tEqual, tNotEqual, tLess, tGreater, tLessEqual, tGreaterEqual,
  tRegexEqual, tRegexNotEqual]

def validType (t : Nat) : Bool := validTypes.contains t

theorem opOf_valid (s : Bytes) : validType (opOf s) = true := by
  unfold opOf; split <;> decide

theorem keywordOf_valid (s : Bytes) : validType (keywordOf s) = true := by
  unfold keywordOf; split <;> decide

def V (toks : List Tok) : Prop := ∀ t ∈ toks, validType t.typ = true

theorem V_of_eq {a b : List Tok} (h : V b) (e : a = b) : V a := e ▸ h

theorem emit_V {c : Ctx} {l : Lx} (h : V l.toks) (t : Nat) (ht : validType t = true) : V (emit c l t).toks := by
  unfold emit; split
  · intro u hu
    rcases List.mem_cons.mp hu with rfl | hu
    · exact ht
    · exact h u hu
  · exact h

theorem errorf_V {l : Lx} (h : V l.toks) : V (errorf l).toks := by
  intro u hu
  rcases List.mem_cons.mp hu with rfl | hu
  · show validType tError = true; decide
  · exact h u hu

macro "vty" : tactic => `(tactic| first
  | decide
  | exact opOf_valid _
  | exact keywordOf_valid _)

macro "tk2" : tactic => `(tactic| first | rfl | (simp only [ignore, backup, *] ; done))

set_option hygiene false in
macro "vbranch" : tactic => `(tactic| (
  simp only [Step.st, emitTo]
  first
  | (refine V_of_eq hQ ?_ ; tk2)
  | (refine emit_V (V_of_eq hQ ?_) _ ?_ <;> first | tk2 | vty)
  | (refine errorf_V (V_of_eq hQ ?_) ; tk2)))

theorem vstep_token (c : Ctx) (l : Lx) (hf : c.fixed = true) (hg : Good c l) (hQ : V l.toks) :
    V (step c l .token).st.toks := by
  have := hg.s0; have := hg.sp; have := hg.pl
  obtain ⟨hs1, ht1, hr1, hp1, hw1, hl1, he1, ha1, hg1⟩ := next_ok c l (by omega) (by omega)
  have hpk := peek_snd c (next c l).2 hf (by omega)
  simp only [step, hpk, peek_fst]
  repeat' ite_cases
  all_goals vbranch

theorem vstep_unary (c : Ctx) (l : Lx) (hg : Good c l) (hQ : V l.toks) :
    V (step c l .unary).st.toks := by
  have := hg.s0; have := hg.sp; have := hg.pl
  obtain ⟨hs1, ht1, hr1, hp1, hw1, hl1, he1, ha1, hg1⟩ := next_ok c l (by omega) (by omega)
  simp only [step]
  repeat' ite_cases
  all_goals vbranch

theorem vstep_binopSp (c : Ctx) (l : Lx) (hg : Good c l) (hQ : V l.toks) :
    V (step c l .binopSp).st.toks := by
  have := hg.s0; have := hg.sp; have := hg.pl
  obtain ⟨hs1, ht1, hr1, hp1, hw1, hl1, he1, ha1, hg1⟩ := next_ok c l (by omega) (by omega)
  simp only [step]
  generalize (next c l).1 = r at *
  generalize (next c l).2 = l1 at *
  repeat' ite_cases
  all_goals vbranch

theorem vstep_binopMain (c : Ctx) (l : Lx) (hf : c.fixed = true) (hg : Good c l) (hQ : V l.toks) :
    V (step c l .binopMain).st.toks := by
  have := hg.s0; have := hg.sp; have := hg.pl
  obtain ⟨hs1, ht1, hr1, hp1, hw1, hl1, he1, ha1, hg1⟩ := next_ok c l (by omega) (by omega)
  obtain ⟨hs2, ht2, hr2, hp2, hw2, hl2, he2, ha2, hg2⟩ := next_ok c (next c l).2 (by omega) (by omega)
  have hpk := peek_snd c (next c l).2 hf (by omega)
  simp only [step, hpk, peek_fst]
  repeat' ite_cases
  all_goals vbranch

theorem vstep_regexOpSp (c : Ctx) (l : Lx) (hf : c.fixed = true) (hg : Good c l) (hQ : V l.toks) :
    V (step c l .regexOpSp).st.toks := by
  have := hg.s0; have := hg.sp; have := hg.pl
  obtain ⟨hs1, ht1, hr1, hp1, hw1, hl1, he1, ha1, hg1⟩ := next_ok c l (by omega) (by omega)
  have hpk := peek_snd c (backup (next c l).2) hf (by simp only [backup]; omega)
  simp only [step, hpk, peek_fst]
  repeat' ite_cases
  all_goals vbranch

theorem vstep_ident (c : Ctx) (l : Lx) (hg : Good c l) (hQ : V l.toks) :
    V (step c l .ident).st.toks := by
  have := hg.s0; have := hg.sp; have := hg.pl
  obtain ⟨hs1, ht1, hr1, hp1, hw1, hl1, he1, ha1, hg1⟩ := next_ok c l (by omega) (by omega)
  obtain ⟨hs2, ht2, hr2, hp2, hw2, hl2, he2, ha2, hg2⟩ :=
    next_ok c (backup (next c l).2) (by simp only [backup]; omega) (by simp only [backup]; omega)
  have hgb : Good c (backup (next c l).2) := by
    refine good_move hg ?_ ?_ ?_ ?_ ?_ <;> fin
  have hchk := chk_good hgb
  simp only [step, hchk]
  have e2 : (next c (backup (next c l).2)).2.toks = l.toks := by rw [ht2]; exact ht1
  repeat' ite_cases
  all_goals (try vbranch)
  all_goals (
    simp only [Step.st, emitTo]
    refine emit_V (V_of_eq hQ ?_) _ ?_
    · first | exact e2 | exact ht1
    · vty)

theorem vstep_reference (c : Ctx) (l : Lx) (hf : c.fixed = true) (hg : Good c l) (hQ : V l.toks) :
    V (step c l .reference).st.toks := by
  have := hg.s0; have := hg.sp; have := hg.pl
  obtain ⟨hs1, ht1, hr1, hp1, hw1, hl1, he1, ha1, hg1⟩ := next_ok c l (by omega) (by omega)
  obtain ⟨hs2, ht2, hr2, hp2, hw2, hl2, he2, ha2, hg2⟩ := next_ok c (next c l).2 (by omega) (by omega)
  have hpk := peek_snd c (next c l).2 hf (by omega)
  simp only [step, hpk, peek_fst]
  repeat' ite_cases
  all_goals vbranch

theorem vstep_regexStart (c : Ctx) (l : Lx) (hg : Good c l) (hQ : V l.toks) :
    V (step c l .regexStart).st.toks := by
  have := hg.s0; have := hg.sp; have := hg.pl
  obtain ⟨hs1, ht1, hr1, hp1, hw1, hl1, he1, ha1, hg1⟩ := next_ok c l (by omega) (by omega)
  simp only [step]
  repeat' ite_cases
  all_goals vbranch

theorem vstep_regexBody (c : Ctx) (l : Lx) (hf : c.fixed = true) (hg : Good c l) (hQ : V l.toks) :
    V (step c l .regexBody).st.toks := by
  have := hg.s0; have := hg.sp; have := hg.pl
  obtain ⟨hs1, ht1, hr1, hp1, hw1, hl1, he1, ha1, hg1⟩ := next_ok c l (by omega) (by omega)
  obtain ⟨hs2, ht2, hr2, hp2, hw2, hl2, he2, ha2, hg2⟩ := next_ok c (next c l).2 (by omega) (by omega)
  have hpk := peek_snd c (next c l).2 hf (by omega)
  simp only [step, hpk, peek_fst]
  repeat' ite_cases
  all_goals vbranch

theorem vstep_commentStart (c : Ctx) (l : Lx) (hf : c.fixed = true) (hg : Good c l) (hQ : V l.toks) :
    V (step c l .commentStart).st.toks := by
  have := hg.s0; have := hg.sp; have := hg.pl
  obtain ⟨hs1, ht1, hr1, hp1, hw1, hl1, he1, ha1, hg1⟩ := next_ok c l (by omega) (by omega)
  have hpk := peek_snd c l hf (by omega)
  simp only [step, hpk, peek_fst]
  repeat' ite_cases
  all_goals vbranch

theorem vstep_commentBody (c : Ctx) (l : Lx) (hg : Good c l) (hQ : V l.toks) :
    V (step c l .commentBody).st.toks := by
  have := hg.s0; have := hg.sp; have := hg.pl
  obtain ⟨hs1, ht1, hr1, hp1, hw1, hl1, he1, ha1, hg1⟩ := next_ok c l (by omega) (by omega)
  simp only [step]
  repeat' ite_cases
  all_goals vbranch

theorem vstep_commentNL (c : Ctx) (l : Lx) (hg : Good c l) (hQ : V l.toks) :
    V (step c l .commentNL).st.toks := by
  have := hg.s0; have := hg.sp; have := hg.pl
  obtain ⟨hs1, ht1, hr1, hp1, hw1, hl1, he1, ha1, hg1⟩ := next_ok c l (by omega) (by omega)
  simp only [step]
  repeat' ite_cases
  all_goals vbranch

theorem vstep_number (c : Ctx) (l : Lx) (hf : c.fixed = true) (hg : Good c l) (hQ : V l.toks) (fd first : Bool) :
    V (step c l (.number fd first)).st.toks := by
  have := hg.s0; have := hg.sp; have := hg.pl
  obtain ⟨hs1, ht1, hr1, hp1, hw1, hl1, he1, ha1, hg1⟩ := next_ok c l (by omega) (by omega)
  obtain ⟨hs2, ht2, hr2, hp2, hw2, hl2, he2, ha2, hg2⟩ := next_ok c (next c l).2 (by omega) (by omega)
  have hpk := peek_snd c (next c l).2 hf (by omega)
  cases first <;> cases fd <;> simp only [step, apply_ite Prod.fst, apply_ite Prod.snd, hpk, peek_fst, ite_self,
    Bool.false_eq_true, if_false, if_true, Bool.false_and, Bool.true_and, Bool.not_false, Bool.not_true]
  all_goals repeat' ite_cases
  all_goals vbranch

theorem vstep_strOuter (c : Ctx) (l : Lx) (hf : c.fixed = true) (hg : Good c l) (hQ : V l.toks) (count : Nat) :
    V (step c l (.strOuter count)).st.toks := by
  have := hg.s0; have := hg.sp; have := hg.pl
  obtain ⟨hs1, ht1, hr1, hp1, hw1, hl1, he1, ha1, hg1⟩ := next_ok c l (by omega) (by omega)
  obtain ⟨hs2, ht2, hr2, hp2, hw2, hl2, he2, ha2, hg2⟩ := next_ok c (next c l).2 (by omega) (by omega)
  obtain ⟨hs3, ht3, hr3, hp3, hw3, hl3, he3, ha3, hg3⟩ := next_ok c (next c (next c l).2).2 (by omega) (by omega)
  have hpk1 := peek_snd c (next c l).2 hf (by omega)
  have hpk2 := peek_snd c (next c (next c l).2).2 hf (by omega)
  simp only [step, apply_ite Prod.fst, apply_ite Prod.snd, hpk1, hpk2, peek_fst, ite_self]
  repeat' ite_cases
  all_goals vbranch

theorem vstep_strInner (c : Ctx) (l : Lx) (hf : c.fixed = true) (hg : Good c l) (hQ : V l.toks) (count total : Nat) :
    V (step c l (.strInner count total)).st.toks := by
  have := hg.s0; have := hg.sp; have := hg.pl
  obtain ⟨hs1, ht1, hr1, hp1, hw1, hl1, he1, ha1, hg1⟩ := next_ok c l (by omega) (by omega)
  obtain ⟨hs2, ht2, hr2, hp2, hw2, hl2, he2, ha2, hg2⟩ := next_ok c (next c l).2 (by omega) (by omega)
  have hpk1 := peek_snd c (next c l).2 hf (by omega)
  simp only [step, apply_ite Prod.fst, apply_ite Prod.snd, hpk1, peek_fst, ite_self]
  repeat' ite_cases
  all_goals vbranch

theorem vstep_ok (c : Ctx) (hf : c.fixed = true) (l : Lx) (s : St) (hg : Good c l) (hQ : V l.toks) :
    V (step c l s).st.toks := by
  cases s with
  | token => exact vstep_token c l hf hg hQ
  | unary => exact vstep_unary c l hg hQ
  | binopSp => exact vstep_binopSp c l hg hQ
  | binopMain => exact vstep_binopMain c l hf hg hQ
  | regexOpSp => exact vstep_regexOpSp c l hf hg hQ
  | ident => exact vstep_ident c l hg hQ
  | number fd first => exact vstep_number c l hf hg hQ fd first
  | reference => exact vstep_reference c l hf hg hQ
  | strOuter n => exact vstep_strOuter c l hf hg hQ n
  | strInner n t => exact vstep_strInner c l hf hg hQ n t
  | regexStart => exact vstep_regexStart c l hg hQ
  | regexBody => exact vstep_regexBody c l hf hg hQ
  | commentStart => exact vstep_commentStart c l hf hg hQ
  | commentBody => exact vstep_commentBody c l hg hQ
  | commentNL => exact vstep_commentNL c l hg hQ


/-- The run lemma: every token of a finished run has a real token type. -/
theorem run_valid (c : Ctx) (hf : c.fixed = true) :
    ∀ (k : Nat) (l : Lx) (s : St), Good c l → StInv c l s → V l.toks → mu c l s < k →
      ∃ l' : Lx, runFrom c k l s = .done l'.toks.reverse ∧ V l'.toks := by
  intro k
  induction k with
  | zero =>
    intro l s hg _ _ hk
    have := rank_nonneg s; have := hg.pl
    simp only [mu] at hk; omega
  | succ k ih =>
    intro l s hg hsi hQ hk
    have h := step_ok c hf l s hg hsi
    have hq := vstep_ok c hf l s hg hQ
    unfold runFrom
    cases hst : step c l s with
    | cont l' s' =>
      rw [hst] at h hq
      obtain ⟨hg', hsi', hmu⟩ := h
      simp only [hg'.nt]
      exact ih l' s' hg' hsi' hq (by omega)
    | done l' =>
      rw [hst] at h hq
      simp only [h.nt]
      exact ⟨l', rfl, hq⟩

end Kap.C05
