/-
C05 — helper lemmas for the UDF peer models (`udfRun`, `uvar`, `readFrames`).
-/
import Kap.Model.C05
namespace Kap.C05

theorem udfRun_no_trap (st : Option Nat) (rs : List Resp) : (udfRun true st rs).2 ≠ .trap := by
  induction rs generalizing st with
  | nil => simp [udfRun]
  | cons r rs ih =>
    cases r <;> simp only [udfRun, if_true] <;> (try exact ih _) <;> (try simp)
    · split
      · simp
      · exact ih _
    · cases st <;> simp only <;> exact ih _
    · cases st <;> simp only
      · simp
      · exact ih _

theorem udfRun_prefix (st : Option Nat) (rs rs' : List Resp) :
    (∃ tail, (udfRun true st (rs ++ rs')).1 = (udfRun true st rs).1 ++ tail) ∧
    ((udfRun true st rs).2 ≠ .clean → udfRun true st (rs ++ rs') = udfRun true st rs) := by
  induction rs generalizing st with
  | nil => exact ⟨⟨(udfRun true st rs').1, by simp [udfRun]⟩, by simp [udfRun]⟩
  | cons r rs ih =>
    have stop : ∀ (o : List UOut) (f : UFinal), (∃ tail, o = o ++ tail) ∧ (f ≠ .clean → (o, f) = (o, f)) :=
      fun o f => ⟨⟨[], by simp⟩, fun _ => rfl⟩
    have cons : ∀ (u : UOut) (st' : Option Nat),
        (∃ tail, (u :: (udfRun true st' (rs ++ rs')).1) = (u :: (udfRun true st' rs).1) ++ tail) ∧
        ((udfRun true st' rs).2 ≠ .clean →
          (u :: (udfRun true st' (rs ++ rs')).1, (udfRun true st' (rs ++ rs')).2) =
          (u :: (udfRun true st' rs).1, (udfRun true st' rs).2)) := by
      intro u st'
      obtain ⟨⟨t, ht⟩, h2⟩ := ih st'
      exact ⟨⟨t, by simp [ht]⟩, fun hne => by rw [h2 hne]⟩
    cases r with
    | keepalive => simpa only [List.cons_append, udfRun] using ih st
    | info => simpa only [List.cons_append, udfRun] using ih st
    | init => simpa only [List.cons_append, udfRun] using ih st
    | snapshot => simpa only [List.cons_append, udfRun] using ih st
    | restore => simpa only [List.cons_append, udfRun] using ih st
    | error => simpa only [List.cons_append, udfRun] using stop [] .err
    | garbage => simpa only [List.cons_append, udfRun] using stop [] .err
    | huge n => simpa only [List.cons_append, udfRun, if_true] using stop [] .err
    | nilMsg => simpa only [List.cons_append, udfRun, if_true] using stop [] .err
    | begin size =>
      simp only [List.cons_append, udfRun, if_true]
      split
      · exact stop [] .err
      · exact ih _
    | point =>
      simp only [List.cons_append, udfRun]
      cases st with
      | none => exact cons .p none
      | some n => exact ih _
    | endB =>
      simp only [List.cons_append, udfRun, if_true]
      cases st with
      | none => exact stop [] .err
      | some n => exact cons (.b n) none

theorem udfWrite_total (ks : List FKind) :
    (udfWrite true ks).2 = .clean ∧ (udfWrite true ks).1.length = ks.length := by
  induction ks with
  | nil => simp [udfWrite]
  | cons k ks ih =>
    simp only [udfWrite, if_true]
    split <;> simp [ih.1, ih.2]

/-- `binary.ReadUvarint` consumes at least one byte when it yields a value. -/
theorem uvar_consumes (bs : Bytes) : ∀ (i x s v : Nat) (rest : Bytes), uvar i x s bs = .val v rest → rest.length < bs.length := by
  induction bs with
  | nil => intro i x s v rest h; simp only [uvar] at h; split at h <;> (try split at h) <;> cases h
  | cons b bs ih =>
    intro i x s v rest h
    simp only [uvar] at h
    split at h
    · cases h
    · split at h
      · split at h
        · cases h
        · cases h; simp
      · have := ih _ _ _ _ _ h
        simp; omega

theorem readFrames_no_trap (total : Nat) : ∀ (k : Nat) (bs : Bytes), Frame.trap ∉ readFrames true total k bs := by
  intro k
  induction k with
  | zero => intro bs; simp [readFrames]
  | succ k ih =>
    intro bs
    unfold readFrames
    split <;> (try simp)
    split
    · simp
    · split
      · simp
      · simp only [List.mem_cons, not_or]
        exact ⟨by simp, ih _⟩

theorem readAll_no_trap (bs : Bytes) : Frame.trap ∉ readAll true bs := readFrames_no_trap _ _ _

theorem readFrames_ends (total : Nat) : ∀ (k : Nat) (bs : Bytes), bs.length < k →
    ∃ pre t, readFrames true total k bs = pre ++ [t] ∧ ∀ off, t ≠ .msg off := by
  intro k
  induction k with
  | zero => intro bs h; omega
  | succ k ih =>
    intro bs hk
    unfold readFrames
    split
    · exact ⟨[], .eof, rfl, by simp⟩
    · exact ⟨[], .vtrunc, rfl, by simp⟩
    · exact ⟨[], .vover, rfl, by simp⟩
    · rename_i size rest hv
      have hc := uvar_consumes bs 0 0 0 size rest hv
      simp only [Bool.true_and, Bool.not_true, Bool.false_and, Bool.false_eq_true, if_false]
      split
      · exact ⟨[], .big, rfl, by simp⟩
      · split
        · exact ⟨[], .ueof, rfl, by simp⟩
        · obtain ⟨pre, t, h1, h2⟩ := ih (rest.drop size) (by simp; omega)
          exact ⟨_ :: pre, t, by rw [h1]; rfl, h2⟩

theorem readAll_ends (bs : Bytes) : ∃ pre t, readAll true bs = pre ++ [t] ∧ ∀ off, t ≠ .msg off :=
  readFrames_ends _ _ _ (by omega)

end Kap.C05
