/-
C06 — helper lemmas for group identity: unique parsing of the `ToGroupID` encoding.
-/
import Kap.Spec.C06
namespace Kap.C06

/-- splitting at the first occurrence of a separator that neither prefix contains is unique -/
theorem split_unique {c : Char} : ∀ {a b x y : List Char}, c ∉ a → c ∉ b → a ++ c :: x = b ++ c :: y → a = b ∧ x = y
  | [], [], _, _, _, _, h => by simpa using h
  | [], h' :: b, _, _, _, hb, h => by
    simp only [List.nil_append, List.cons_append, List.cons.injEq] at h
    exact absurd (h.1 ▸ List.mem_cons_self) hb
  | h' :: a, [], _, _, ha, _, h => by
    simp only [List.nil_append, List.cons_append, List.cons.injEq] at h
    exact absurd (h.1 ▸ List.mem_cons_self) ha
  | h1 :: a, h2 :: b, x, y, ha, hb, h => by
    simp only [List.cons_append, List.cons.injEq] at h
    have ha' : c ∉ a := fun m => ha (List.mem_cons_of_mem _ m)
    have hb' : c ∉ b := fun m => hb (List.mem_cons_of_mem _ m)
    obtain ⟨e1, e2⟩ := split_unique ha' hb' h.2
    exact ⟨by rw [h.1, e1], e2⟩

/-- a tail is "separated" when it is empty or starts with the separator -/
def Sep (c : Char) (t : List Char) : Prop := t = [] ∨ ∃ t', t = c :: t'

/-- values without the separator followed by separated tails split uniquely -/
theorem value_unique {c : Char} : ∀ {a b t1 t2 : List Char}, c ∉ a → c ∉ b → Sep c t1 → Sep c t2 →
    a ++ t1 = b ++ t2 → a = b ∧ t1 = t2
  | [], [], _, _, _, _, _, _, h => by simpa using h
  | [], h' :: b, t1, t2, _, hb, s1, _, h => by
    simp only [List.nil_append, List.cons_append] at h
    rcases s1 with e | ⟨t', e⟩
    · rw [e] at h; cases h
    · rw [e] at h; simp only [List.cons.injEq] at h
      exact absurd (h.1 ▸ List.mem_cons_self) hb
  | h' :: a, [], t1, t2, ha, _, _, s2, h => by
    simp only [List.nil_append, List.cons_append] at h
    rcases s2 with e | ⟨t', e⟩
    · rw [e] at h; cases h
    · rw [e] at h; simp only [List.cons.injEq] at h
      exact absurd (h.1 ▸ List.mem_cons_self) ha
  | h1 :: a, h2 :: b, t1, t2, ha, hb, s1, s2, h => by
    simp only [List.cons_append, List.cons.injEq] at h
    have ha' : c ∉ a := fun m => ha (List.mem_cons_of_mem _ m)
    have hb' : c ∉ b := fun m => hb (List.mem_cons_of_mem _ m)
    obtain ⟨e1, e2⟩ := value_unique ha' hb' s1 s2 h.2
    exact ⟨by rw [h.1, e1], e2⟩

theorem encLoop_true_sep (ps : List (List Char × List Char)) : Sep ',' (encLoop true ps) := by
  cases ps with
  | nil => exact Or.inl rfl
  | cons p r => obtain ⟨d, v⟩ := p; exact Or.inr ⟨d ++ '=' :: (v ++ encLoop true r), by simp [encLoop]⟩

theorem encLoop_cons_ne_nil (nz : Bool) (p : List Char × List Char) (r) : encLoop nz (p :: r) ≠ [] := by
  obtain ⟨d, v⟩ := p
  cases nz <;> simp [encLoop]

/-- no '=' in a dimension name, no ',' in a value -/
def CleanPairs (ps : List (List Char × List Char)) : Prop := ∀ p ∈ ps, '=' ∉ p.1 ∧ ',' ∉ p.2

theorem CleanPairs.tail {p} {ps : List (List Char × List Char)} (h : CleanPairs (p :: ps)) : CleanPairs ps :=
  fun q hq => h q (List.mem_cons_of_mem _ hq)

/-- The pair loop is injective on clean pair lists (the dimension lists may differ: `groupBy(*)`). -/
theorem encLoop_inj : ∀ (nz : Bool) (ps qs : List (List Char × List Char)), CleanPairs ps → CleanPairs qs →
    encLoop nz ps = encLoop nz qs → ps = qs
  | _, [], [], _, _, _ => rfl
  | nz, [], q :: qs, _, _, h => absurd h.symm (encLoop_cons_ne_nil nz q qs)
  | nz, p :: ps, [], _, _, h => absurd h (encLoop_cons_ne_nil nz p ps)
  | nz, (d1, v1) :: ps, (d2, v2) :: qs, hp, hq, h => by
    simp only [encLoop] at h
    have h := List.append_cancel_left h
    have c1 : '=' ∉ d1 ∧ ',' ∉ v1 := hp (d1, v1) List.mem_cons_self
    have c2 : '=' ∉ d2 ∧ ',' ∉ v2 := hq (d2, v2) List.mem_cons_self
    obtain ⟨ed, h⟩ := split_unique c1.1 c2.1 h
    obtain ⟨ev, h⟩ := value_unique c1.2 c2.2 (encLoop_true_sep ps) (encLoop_true_sep qs) h
    rw [ed, ev, encLoop_inj true ps qs hp.tail hq.tail h]

/-- With the SAME dimension list only the values matter: no ',' in a value suffices (names are arbitrary). -/
theorem encLoop_inj_same_dims : ∀ (nz : Bool) (dims : List (List Char)) (f g : List Char → List Char),
    (∀ d ∈ dims, ',' ∉ f d ∧ ',' ∉ g d) →
    encLoop nz (dims.map (fun d => (d, f d))) = encLoop nz (dims.map (fun d => (d, g d))) → ∀ d ∈ dims, f d = g d
  | _, [], _, _, _, _ => fun _ hd => by cases hd
  | nz, d :: ds, f, g, hc, h => by
    simp only [List.map_cons, encLoop] at h
    have h := List.append_cancel_left h
    have h := List.append_cancel_left h
    simp only [List.cons.injEq, true_and] at h
    have c := hc d List.mem_cons_self
    obtain ⟨ev, h⟩ := value_unique c.1 c.2 (encLoop_true_sep _) (encLoop_true_sep _) h
    have ih := encLoop_inj_same_dims true ds f g (fun x hx => hc x (List.mem_cons_of_mem _ hx)) h
    intro x hx
    rcases List.mem_cons.mp hx with e | hx
    · rw [e]; exact ev
    · exact ih x hx

/-- `ToGroupID` on characters is injective on clean keys with the same by-name flag. -/
theorem toGroupIDChars_inj (b : Bool) (n1 n2 : List Char) (ps qs : List (List Char × List Char))
    (hn : b = true → '\n' ∉ n1 ∧ '\n' ∉ n2) (hp : CleanPairs ps) (hq : CleanPairs qs)
    (h : toGroupIDChars b n1 ps = toGroupIDChars b n2 qs) : ps = qs ∧ (b = true → n1 = n2) := by
  cases b with
  | false =>
    refine ⟨?_, fun e => by cases e⟩
    cases ps with
    | nil =>
      cases qs with
      | nil => rfl
      | cons q qs => simp only [toGroupIDChars] at h; exact absurd h.symm (by simpa using encLoop_cons_ne_nil false q qs)
    | cons p ps =>
      cases qs with
      | nil => simp only [toGroupIDChars] at h; exact absurd h (by simpa using encLoop_cons_ne_nil false p ps)
      | cons q qs =>
        simp only [toGroupIDChars] at h
        exact encLoop_inj false _ _ hp hq (by simpa using h)
  | true =>
    obtain ⟨h1, h2⟩ := hn rfl
    cases ps with
    | nil =>
      cases qs with
      | nil => simp only [toGroupIDChars] at h; exact ⟨rfl, fun _ => by simpa using h⟩
      | cons q qs =>
        simp only [toGroupIDChars, if_true] at h
        exact absurd (h ▸ (by simp : '\n' ∈ (n2 ++ ['\n']) ++ encLoop false (q :: qs))) h1
    | cons p ps =>
      cases qs with
      | nil =>
        simp only [toGroupIDChars, if_true] at h
        exact absurd (h ▸ (by simp : '\n' ∈ (n1 ++ ['\n']) ++ encLoop false (p :: ps))) h2
      | cons q qs =>
        simp only [toGroupIDChars, if_true, List.append_assoc, List.singleton_append] at h
        obtain ⟨en, h⟩ := split_unique h1 h2 h
        exact ⟨encLoop_inj false _ _ hp hq h, fun _ => en⟩

/-- same dimensions: values without ',' (and names without the delimiter when grouping by name) suffice -/
theorem toGroupIDChars_inj_same_dims (b : Bool) (n1 n2 : List Char) (dims : List (List Char)) (f g : List Char → List Char)
    (hn : b = true → '\n' ∉ n1 ∧ '\n' ∉ n2) (hc : ∀ d ∈ dims, ',' ∉ f d ∧ ',' ∉ g d)
    (h : toGroupIDChars b n1 (dims.map (fun d => (d, f d))) = toGroupIDChars b n2 (dims.map (fun d => (d, g d)))) :
    (b = true → n1 = n2) ∧ ∀ d ∈ dims, f d = g d := by
  cases dims with
  | nil =>
    refine ⟨fun e => ?_, fun _ hd => by cases hd⟩
    subst e
    simpa [toGroupIDChars] using h
  | cons d ds =>
    cases b with
    | false =>
      refine ⟨fun e => (by cases e), ?_⟩
      simp only [List.map_cons, toGroupIDChars] at h
      exact encLoop_inj_same_dims false (d :: ds) f g hc (by simpa using h)
    | true =>
      obtain ⟨h1, h2⟩ := hn rfl
      simp only [List.map_cons, toGroupIDChars, if_true, List.append_assoc, List.singleton_append] at h
      obtain ⟨en, h⟩ := split_unique h1 h2 h
      exact ⟨fun _ => en, encLoop_inj_same_dims false (d :: ds) f g hc (by simpa using h)⟩

/-- a by-name id and a not-by-name id differ when the measurement is non-empty, has no '=' and no "\n", and no
dimension name of the not-by-name key has "\n" -/
theorem toGroupIDChars_mixed_ne (n m : List Char) (ps qs : List (List Char × List Char))
    (hne : n ≠ []) (heq : '=' ∉ n) (hq : CleanPairs qs) (hqn : ∀ p ∈ qs, '\n' ∉ p.1) :
    toGroupIDChars true n ps ≠ toGroupIDChars false m qs := by
  intro h
  cases qs with
  | nil =>
    cases ps with
    | nil => simp [toGroupIDChars] at h; exact hne h
    | cons p r => simp [toGroupIDChars] at h
  | cons q r' =>
    obtain ⟨d, v⟩ := q
    have hd : '=' ∉ d := (hq (d, v) List.mem_cons_self).1
    have hdn : '\n' ∉ d := hqn (d, v) List.mem_cons_self
    cases ps with
    | nil =>
      simp only [toGroupIDChars, encLoop, if_true, Bool.false_eq_true, if_false, List.nil_append] at h
      exact heq (h ▸ (by simp))
    | cons p r =>
      simp only [toGroupIDChars, encLoop, if_true, Bool.false_eq_true, if_false, List.nil_append, List.append_assoc,
        List.singleton_append] at h
      rcases List.append_eq_append_iff.mp h with ⟨u, hu1, hu2⟩ | ⟨u, hu1, hu2⟩
      · cases u with
        | nil => simp at hu2
        | cons c u' =>
          simp only [List.cons_append, List.cons.injEq] at hu2
          exact hdn (hu1 ▸ (by simp [← hu2.1]))
      · cases u with
        | nil => simp at hu2
        | cons c u' =>
          simp only [List.cons_append, List.cons.injEq] at hu2
          exact heq (hu1 ▸ (by simp [← hu2.1]))

/-! ### glue to the `String` level of the spec -/

theorem hasChar_false {c : Char} {s : String} (h : hasChar c s = false) : c ∉ s.toList := by
  intro m
  have : hasChar c s = true := by unfold hasChar; exact List.contains_iff_mem.mpr m
  rw [h] at this; cases this

theorem cleanPoint_pairs {p : GPoint} (h : cleanPoint p = true) : CleanPairs (pairsOf p.tags p.dims) := by
  intro pr hpr
  unfold pairsOf at hpr
  obtain ⟨d, hd, rfl⟩ := List.mem_map.mp hpr
  unfold cleanPoint at h
  simp only [Bool.and_eq_true, List.all_eq_true, Bool.not_eq_true'] at h
  have := h.2 d hd
  exact ⟨hasChar_false this.1, hasChar_false this.2⟩

theorem cleanPoint_name {p : GPoint} (h : cleanPoint p = true) (hb : p.byName = true) : '\n' ∉ p.name.toList := by
  unfold cleanPoint at h
  simp only [Bool.and_eq_true, Bool.or_eq_true, Bool.not_eq_true'] at h
  rcases h.1 with e | e
  · rw [hb] at e; cases e
  · exact hasChar_false e

theorem pairsOf_inj {t1 t2 : Tags} : ∀ {d1 d2 : List String}, pairsOf t1 d1 = pairsOf t2 d2 →
    d1 = d2 ∧ ∀ d ∈ d1, tagVal t1 d = tagVal t2 d
  | [], [], _ => ⟨rfl, fun _ h => by cases h⟩
  | [], _ :: _, h => by simp [pairsOf] at h
  | _ :: _, [], h => by simp [pairsOf] at h
  | a :: d1, b :: d2, h => by
    simp only [pairsOf, List.map_cons, List.cons.injEq, Prod.mk.injEq] at h
    obtain ⟨⟨ea, ev⟩, hr⟩ := h
    have ea := String.toList_inj.mp ea
    subst ea
    obtain ⟨e, hv⟩ := pairsOf_inj (t1 := t1) (t2 := t2) (d1 := d1) (d2 := d2) (by simpa [pairsOf] using hr)
    refine ⟨by rw [e], fun d hd => ?_⟩
    rcases List.mem_cons.mp hd with e' | hd
    · rw [e']; exact String.toList_inj.mp ev
    · exact hv d hd

theorem pairsOf_congr {t1 t2 : Tags} {dims : List String} (h : ∀ d ∈ dims, tagVal t1 d = tagVal t2 d) :
    pairsOf t1 dims = pairsOf t2 dims := by
  unfold pairsOf
  apply List.map_congr_left
  intro d hd
  rw [h d hd]

/-- unfolding `sameGroup` into its clauses -/
theorem sameGroup_iff (p q : GPoint) : sameGroup p q = true ↔
    p.byName = q.byName ∧ p.dims = q.dims ∧ (p.byName = true → p.name = q.name) ∧
    ∀ d ∈ p.dims, tagVal p.tags d = tagVal q.tags d := by
  unfold sameGroup
  simp only [Bool.and_eq_true, beq_iff_eq, Bool.or_eq_true, Bool.not_eq_true', List.all_eq_true]
  constructor
  · rintro ⟨⟨⟨h1, h2⟩, h3⟩, h4⟩
    refine ⟨h1, h2, fun hb => ?_, h4⟩
    rcases h3 with e | e
    · rw [hb] at e; cases e
    · exact e
  · rintro ⟨h1, h2, h3, h4⟩
    refine ⟨⟨⟨h1, h2⟩, ?_⟩, h4⟩
    cases hb : p.byName with
    | false => exact Or.inl rfl
    | true => exact Or.inr (h3 hb)

theorem mem_insertSorted (x : String) : ∀ (l : List String) (t : String), t ∈ insertSorted x l ↔ t = x ∨ t ∈ l := by
  intro l
  induction l with
  | nil => intro t; simp [insertSorted]
  | cons y ys ih =>
    intro t
    unfold insertSorted
    split
    · simp
    · simp only [List.mem_cons, ih]
      constructor
      · rintro (h | h | h) <;> simp [h]
      · rintro (h | h | h) <;> simp [h]

theorem mem_sortStrings : ∀ (l : List String) (t : String), t ∈ sortStrings l ↔ t ∈ l := by
  intro l
  induction l with
  | nil => intro t; simp [sortStrings]
  | cons y ys ih =>
    intro t
    have : sortStrings (y :: ys) = insertSorted y (sortStrings ys) := rfl
    rw [this, mem_insertSorted, ih]; simp

/-- `sortStrings` really sorts (what `sort.Strings` guarantees) -/
theorem sortedLe_insertSorted (x : String) : ∀ (l : List String), sortedLe l = true → sortedLe (insertSorted x l) = true
  | [], _ => by simp [insertSorted, sortedLe]
  | [y], _ => by
    unfold insertSorted
    split
    · rename_i h; simp [sortedLe, h]
    · rename_i h
      have : y ≤ x := (String.le_total x y).resolve_left h
      simp [insertSorted, sortedLe, this]
  | y :: z :: r, hs => by
    have hyz : y ≤ z ∧ sortedLe (z :: r) = true := by simpa [sortedLe] using hs
    unfold insertSorted
    split
    · rename_i h; simp [sortedLe, h, hyz.1, hyz.2]
    · rename_i h
      have hyx : y ≤ x := (String.le_total x y).resolve_left h
      have ih := sortedLe_insertSorted x (z :: r) hyz.2
      unfold insertSorted at ih ⊢
      split
      · rename_i h2; simp [sortedLe, hyx, h2, hyz.2]
      · rename_i h2
        split at ih
        · exact absurd ‹_› h2
        · simp [sortedLe, hyz.1, ih]

theorem sortedLe_sortStrings (l : List String) : sortedLe (sortStrings l) = true := by
  induction l with
  | nil => rfl
  | cons d ds ih => exact sortedLe_insertSorted d _ ih

/-! ### `uniqueSorted` (fix 6ba92e9): same elements, and strictly increasing on a sorted list -/

theorem mem_uniqueAfter : ∀ (l : List String) (last t : String), t ∈ uniqueAfter last l → t ∈ l := by
  intro l
  induction l with
  | nil => intro last t h; simp [uniqueAfter] at h
  | cons s rest ih =>
    intro last t h
    unfold uniqueAfter at h
    split at h
    · exact List.mem_cons_of_mem _ (ih last t h)
    · rcases List.mem_cons.mp h with h | h
      · exact h ▸ List.mem_cons_self ..
      · exact List.mem_cons_of_mem _ (ih s t h)

theorem mem_uniqueAfter_of_mem : ∀ (l : List String) (last t : String), t ∈ l → t = last ∨ t ∈ uniqueAfter last l := by
  intro l
  induction l with
  | nil => intro last t h; cases h
  | cons s rest ih =>
    intro last t h
    unfold uniqueAfter
    split
    · rename_i he
      have he : last = s := by simpa using he
      rcases List.mem_cons.mp h with h | h
      · exact Or.inl (h.trans he.symm)
      · exact ih last t h
    · rcases List.mem_cons.mp h with h | h
      · exact Or.inr (h ▸ List.mem_cons_self ..)
      · rcases ih s t h with h | h
        · exact Or.inr (h ▸ List.mem_cons_self ..)
        · exact Or.inr (List.mem_cons_of_mem _ h)

theorem mem_uniqueSorted (l : List String) (t : String) : t ∈ uniqueSorted l ↔ t ∈ l := by
  cases l with
  | nil => simp [uniqueSorted]
  | cons s rest =>
    simp only [uniqueSorted, List.mem_cons]
    constructor
    · rintro (h | h)
      · exact Or.inl h
      · exact Or.inr (mem_uniqueAfter rest s t h)
    · rintro (h | h)
      · exact Or.inl h
      · exact mem_uniqueAfter_of_mem rest s t h

theorem sortedLt_uniqueAfter : ∀ (l : List String) (last : String), sortedLe (last :: l) = true →
    sortedLt (last :: uniqueAfter last l) = true := by
  intro l
  induction l with
  | nil => intro last _; simp [uniqueAfter, sortedLt]
  | cons s rest ih =>
    intro last h
    have h2 : last ≤ s ∧ sortedLe (s :: rest) = true := by simpa [sortedLe] using h
    unfold uniqueAfter
    split
    · rename_i he
      have he : last = s := by simpa using he
      exact ih last (he ▸ h2.2)
    · rename_i hne
      have hne : last ≠ s := by simpa using hne
      have hlt : last < s := Decidable.byContradiction fun hn => hne (String.le_antisymm h2.1 (String.not_lt.mp hn))
      have := ih s h2.2
      simp only [sortedLt, hlt, decide_true, Bool.true_and]
      exact this

theorem sortedLt_uniqueSorted (l : List String) (h : sortedLe l = true) : sortedLt (uniqueSorted l) = true := by
  cases l with
  | nil => rfl
  | cons s rest => exact sortedLt_uniqueAfter rest s h

theorem pairwise_of_sortedLt : ∀ (l : List String), sortedLt l = true → l.Pairwise (· < ·)
  | [], _ => List.Pairwise.nil
  | [a], _ => List.pairwise_singleton _ a
  | a :: b :: rest, h => by
    have h2 : a < b ∧ sortedLt (b :: rest) = true := by simpa [sortedLt] using h
    have ih := pairwise_of_sortedLt (b :: rest) h2.2
    refine List.Pairwise.cons ?_ ih
    intro x hx
    rcases List.mem_cons.mp hx with hx | hx
    · exact hx ▸ h2.1
    · exact String.lt_trans h2.1 (List.rel_of_pairwise_cons ih hx)

theorem sortedLt_of_pairwise : ∀ (l : List String), l.Pairwise (· < ·) → sortedLt l = true
  | [], _ => rfl
  | [_], _ => rfl
  | a :: b :: rest, h => by
    have h1 : a < b := List.rel_of_pairwise_cons h (List.mem_cons_self ..)
    have ih := sortedLt_of_pairwise (b :: rest) (List.Pairwise.of_cons h)
    simp [sortedLt, h1, ih]

theorem nodup_of_pairwise_lt {l : List String} (h : l.Pairwise (· < ·)) : l.Nodup := by
  unfold List.Nodup
  refine List.Pairwise.imp ?_ h
  intro a b hab he
  exact String.lt_irrefl b (he ▸ hab)

theorem eraseDups_of_nodup : ∀ (l : List String), l.Nodup → l.eraseDups = l := by
  intro l
  induction l with
  | nil => intro _; rfl
  | cons a as ih =>
    intro h
    have ha : a ∉ as := (List.nodup_cons.mp h).1
    have hf : as.filter (fun b => !b == a) = as := by
      apply List.filter_eq_self.mpr
      intro b hb
      have : b ≠ a := fun e => ha (e ▸ hb)
      simp [this]
    rw [List.eraseDups_cons, hf, ih (List.nodup_cons.mp h).2]

/-- the dimension list of a named `groupBy` is strictly increasing: sorted, every dimension once. -/
theorem determineTagNames_pairwise (dims excl : List String) : (determineTagNames dims excl).Pairwise (· < ·) := by
  unfold determineTagNames filterExcluded
  exact (pairwise_of_sortedLt _ (sortedLt_uniqueSorted _ (sortedLe_sortStrings dims))).filter _

/-- a strictly increasing list is determined by its elements. -/
theorem pairwise_lt_ext : ∀ (l1 l2 : List String), l1.Pairwise (· < ·) → l2.Pairwise (· < ·) →
    (∀ t, t ∈ l1 ↔ t ∈ l2) → l1 = l2
  | [], [], _, _, _ => rfl
  | [], b :: _, _, _, h => absurd ((h b).mpr (List.mem_cons_self ..)) (by simp)
  | a :: _, [], _, _, h => absurd ((h a).mp (List.mem_cons_self ..)) (by simp)
  | a :: t1, b :: t2, h1, h2, h => by
    have hab : a = b := by
      rcases List.mem_cons.mp ((h a).mp (List.mem_cons_self ..)) with e | ha
      · exact e
      · rcases List.mem_cons.mp ((h b).mpr (List.mem_cons_self ..)) with e | hb
        · exact e.symm
        · exact absurd (String.lt_trans (List.rel_of_pairwise_cons h2 ha) (List.rel_of_pairwise_cons h1 hb))
            (String.lt_irrefl b)
    subst hab
    congr 1
    apply pairwise_lt_ext t1 t2 (List.Pairwise.of_cons h1) (List.Pairwise.of_cons h2)
    intro t
    constructor
    · intro ht
      rcases List.mem_cons.mp ((h t).mp (List.mem_cons_of_mem _ ht)) with e | ht2
      · exact absurd (e ▸ List.rel_of_pairwise_cons h1 ht) (String.lt_irrefl _)
      · exact ht2
    · intro ht
      rcases List.mem_cons.mp ((h t).mpr (List.mem_cons_of_mem _ ht)) with e | ht1
      · exact absurd (e ▸ List.rel_of_pairwise_cons h2 ht) (String.lt_irrefl _)
      · exact ht1

theorem mem_determineTagNames (dims excl : List String) (t : String) :
    t ∈ determineTagNames dims excl ↔ t ∈ dims ∧ t ∉ excl := by
  unfold determineTagNames filterExcluded
  simp [mem_sortStrings, mem_uniqueSorted, List.mem_filter]

end Kap.C06
