/-
C06 — the demultiplexer refines a per-group semantics: simulation lemmas for `Demux.step(s)`.
-/
import Kap.Model.C06
namespace Kap.C06

variable {Γ σ π ο : Type}

/-- The node-wide state `Γ` is TRANSPARENT: on every node-wide state satisfying the invariant `I`, what a
receiver does (its new per-group state and its output) is given by functions that do not look at `Γ`, and `I` is
preserved. Nodes without node-wide state (`Γ = Unit`) are trivially transparent. -/
structure Transparent (N : Node Γ σ π ο) (I : Γ → Prop) where
  newP : GroupID → Msg π → σ
  recvP : σ → Msg π → σ × List ο
  new_ok : ∀ γ g m, I γ → (N.newGroup γ g m).2 = newP g m ∧ I (N.newGroup γ g m).1
  recv_ok : ∀ γ s m, I γ → (N.recv γ s m).2 = recvP s m ∧ I (N.recv γ s m).1

theorem setGroup_same (f : GroupID → Option σ) (g : GroupID) (a b : Option σ) :
    setGroup (setGroup f g a) g b = setGroup f g b := by
  funext k; unfold setGroup; by_cases h : k = g <;> simp [h]

theorem setGroup_at (f : GroupID → Option σ) (g : GroupID) (a : Option σ) : setGroup f g a g = a := by
  simp [setGroup]

theorem setGroup_other (f : GroupID → Option σ) {g k : GroupID} (a : Option σ) (h : k ≠ g) : setGroup f g a k = f k := by
  simp [setGroup, h]

theorem steps_append (N : Node Γ σ π ο) : ∀ (c : Demux Γ σ) (a b : List (Msg π)),
    Demux.steps N c (a ++ b) =
      ((Demux.steps N (Demux.steps N c a).1 b).1, (Demux.steps N c a).2 ++ (Demux.steps N (Demux.steps N c a).1 b).2)
  | c, [], b => by simp [Demux.steps]
  | c, m :: a, b => by
    simp only [List.cons_append, Demux.steps]
    rw [steps_append N (c.step N m).1 a b]
    simp [List.append_assoc]

/-! ### the per-group (pure) semantics -/

def pDeliver {N : Node Γ σ π ο} {I : Γ → Prop} (T : Transparent N I) (s : Option σ) (g : GroupID) (m : Msg π) : σ × List ο :=
  T.recvP (match s with | some s => s | none => T.newP g m) m

def pBatchTail {N : Node Γ σ π ο} {I : Γ → Prop} (T : Transparent N I) (s : σ) : List π → π → σ × List ο
  | [], e => T.recvP s (.endBatch e)
  | p :: ps, e => ((pBatchTail T (T.recvP s (.batchPoint p)).1 ps e).1,
                   (T.recvP s (.batchPoint p)).2 ++ (pBatchTail T (T.recvP s (.batchPoint p)).1 ps e).2)

/-- what one item does to the state of ITS group and what it emits, with no reference to other groups -/
def pItem {N : Node Γ σ π ο} {I : Γ → Prop} (T : Transparent N I) (s : Option σ) : Item π → Option σ × List ο
  | .point g p => (some (pDeliver T s g (.point g p)).1, (pDeliver T s g (.point g p)).2)
  | .barrier g p => (some (pDeliver T s g (.barrier g p)).1, (pDeliver T s g (.barrier g p)).2)
  | .buffered g p => (some (pDeliver T s g (.buffered g p)).1, (pDeliver T s g (.buffered g p)).2)
  | .delete g p =>
    match s with
    | some s0 => (none, (T.recvP s0 (.delete g p)).2)
    | none => (none, [])
  | .batch g b pts e =>
    (some (pBatchTail T (pDeliver T s g (.begin g b)).1 pts e).1,
     (pDeliver T s g (.begin g b)).2 ++ (pBatchTail T (pDeliver T s g (.begin g b)).1 pts e).2)

/-- result of a simulation step: the demultiplexer changed exactly group `g`'s entry to `v`, kept `current = cur`,
kept the invariant, and emitted `out` labelled `g` -/
structure StepTo (I : Γ → Prop) (c : Demux Γ σ) (r : Demux Γ σ × List (GroupID × ο)) (g : GroupID) (v : Option σ)
    (cur : Option GroupID) (out : List ο) : Prop where
  groups : r.1.groups = setGroup c.groups g v
  current : r.1.current = cur
  inv : I r.1.shared
  out : r.2 = out.map (fun o => (g, o))

theorem deliver_sim {N : Node Γ σ π ο} {I : Γ → Prop} (T : Transparent N I) (c : Demux Γ σ) (g : GroupID) (m : Msg π)
    (hI : I c.shared) :
    StepTo I c (c.deliver N g m) g (some (pDeliver T (c.groups g) g m).1) c.current (pDeliver T (c.groups g) g m).2 := by
  unfold Demux.deliver Demux.getOrCreate pDeliver
  cases hg : c.groups g with
  | some s =>
    obtain ⟨e, i⟩ := T.recv_ok c.shared s m hI
    exact ⟨by simp [← e], rfl, i, by simp [← e]⟩
  | none =>
    obtain ⟨en, i1⟩ := T.new_ok c.shared g m hI
    obtain ⟨e, i⟩ := T.recv_ok (N.newGroup c.shared g m).1 (N.newGroup c.shared g m).2 m i1
    refine ⟨?_, rfl, i, ?_⟩
    · simp only [setGroup_same]; rw [← en, ← e]
    · simp only; rw [← en, ← e]

theorem deliverCurrent_sim {N : Node Γ σ π ο} {I : Γ → Prop} (T : Transparent N I) (c : Demux Γ σ) (g : GroupID) (s : σ)
    (m : Msg π) (hc : c.current = some g) (hg : c.groups g = some s) (hI : I c.shared) :
    StepTo I c (c.deliverCurrent N m) g (some (T.recvP s m).1) (some g) (T.recvP s m).2 := by
  unfold Demux.deliverCurrent
  simp only [hc, hg]
  obtain ⟨e, i⟩ := T.recv_ok c.shared s m hI
  exact ⟨by simp [← e], rfl, i, by simp [← e]⟩

theorem batchTail_sim {N : Node Γ σ π ο} {I : Γ → Prop} (T : Transparent N I) (g : GroupID) (e : π) :
    ∀ (pts : List π) (c : Demux Γ σ) (s : σ), c.current = some g → c.groups g = some s → I c.shared →
    StepTo I c (Demux.steps N c (pts.map .batchPoint ++ [.endBatch e])) g (some (pBatchTail T s pts e).1) none
      (pBatchTail T s pts e).2
  | [], c, s, hc, hg, hI => by
    have h := deliverCurrent_sim T c g s (.endBatch e) hc hg hI
    simp only [List.map_nil, List.nil_append, Demux.steps, Demux.step, pBatchTail, List.append_nil]
    exact ⟨h.groups, rfl, h.inv, h.out⟩
  | p :: ps, c, s, hc, hg, hI => by
    have h := deliverCurrent_sim T c g s (.batchPoint p) hc hg hI
    simp only [List.map_cons, List.cons_append, Demux.steps, Demux.step, pBatchTail]
    have hg' : (c.deliverCurrent N (.batchPoint p)).1.groups g = some (T.recvP s (.batchPoint p)).1 := by
      rw [h.groups, setGroup_at]
    have ih := batchTail_sim T g e ps (c.deliverCurrent N (.batchPoint p)).1 (T.recvP s (.batchPoint p)).1 h.current hg' h.inv
    refine ⟨?_, ih.current, ih.inv, ?_⟩
    · rw [ih.groups, h.groups, setGroup_same]
    · rw [h.out, ih.out, List.map_append]

/-- ONE ITEM through the demultiplexer = the pure semantics applied to the entry of the item's group. -/
theorem item_sim {N : Node Γ σ π ο} {I : Γ → Prop} (T : Transparent N I) (c : Demux Γ σ) (it : Item π)
    (hc : c.current = none) (hI : I c.shared) :
    StepTo I c (Demux.steps N c it.msgs) it.group (pItem T (c.groups it.group) it).1 none
      (pItem T (c.groups it.group) it).2 := by
  cases it with
  | point g p =>
    have h := deliver_sim T c g (.point g p) hI
    simp only [Item.msgs, Demux.steps, Demux.step, Item.group, pItem, List.append_nil]
    exact ⟨h.groups, by rw [h.current, hc], h.inv, h.out⟩
  | barrier g p =>
    have h := deliver_sim T c g (.barrier g p) hI
    simp only [Item.msgs, Demux.steps, Demux.step, Item.group, pItem, List.append_nil]
    exact ⟨h.groups, by rw [h.current, hc], h.inv, h.out⟩
  | buffered g p =>
    have h := deliver_sim T c g (.buffered g p) hI
    simp only [Item.msgs, Demux.steps, Demux.step, Item.group, pItem, List.append_nil]
    exact ⟨h.groups, by rw [h.current, hc], h.inv, h.out⟩
  | delete g p =>
    simp only [Item.msgs, Demux.steps, Demux.step, Item.group, pItem, List.append_nil]
    cases hg : c.groups g with
    | some s =>
      obtain ⟨e, i⟩ := T.recv_ok c.shared s (.delete g p) hI
      exact ⟨rfl, hc, i, by simp [← e]⟩
    | none =>
      refine ⟨?_, hc, hI, rfl⟩
      funext k; unfold setGroup; by_cases hk : k = g
      · simp [hk, hg]
      · simp [hk]
  | batch g b pts e =>
    have h := deliver_sim T c g (.begin g b) hI
    simp only [Item.msgs, Demux.steps, Demux.step, Item.group, pItem]
    have hg' : ({ (c.deliver N g (.begin g b)).1 with current := some g } : Demux Γ σ).groups g
        = some (pDeliver T (c.groups g) g (.begin g b)).1 := by
      simp only; rw [h.groups, setGroup_at]
    have ih := batchTail_sim T g e pts ({ (c.deliver N g (.begin g b)).1 with current := some g } : Demux Γ σ)
      (pDeliver T (c.groups g) g (.begin g b)).1 rfl hg' h.inv
    refine ⟨?_, ih.current, ih.inv, ?_⟩
    · rw [ih.groups]; simp only; rw [h.groups, setGroup_same]
    · rw [h.out, ih.out, List.map_append]

/-- The simulation relation between the run on the full stream and the run on group `g`'s items alone. -/
structure Rel (I : Γ → Prop) (g : GroupID) (c c' : Demux Γ σ) : Prop where
  same : c.groups g = c'.groups g
  cur : c.current = none
  cur' : c'.current = none
  inv : I c.shared
  inv' : I c'.shared

theorem filter_label_same (g : GroupID) (l : List ο) :
    (l.map (fun o => (g, o))).filter (fun o => o.1 == g) = l.map (fun o => (g, o)) := by
  induction l with
  | nil => rfl
  | cons a l ih => simp [ih]

theorem filter_label_other {g g' : GroupID} (h : g' ≠ g) (l : List ο) :
    (l.map (fun o => (g', o))).filter (fun o => o.1 == g) = [] := by
  induction l with
  | nil => rfl
  | cons a l ih => simp [ih, h]

theorem run_sim {N : Node Γ σ π ο} {I : Γ → Prop} (T : Transparent N I) (g : GroupID) :
    ∀ (items : List (Item π)) (c c' : Demux Γ σ), Rel I g c c' →
    (Demux.steps N c (items.flatMap Item.msgs)).2.filter (fun o => o.1 == g) =
      (Demux.steps N c' ((items.filter (fun it => it.group == g)).flatMap Item.msgs)).2
  | [], _, _, _ => by simp [Demux.steps]
  | it :: rest, c, c', r => by
    have hs := item_sim T c it r.cur r.inv
    simp only [List.flatMap_cons, steps_append, List.filter_append]
    by_cases hg : it.group = g
    · have hs' := item_sim T c' it r.cur' r.inv'
      have hf : (it :: rest).filter (fun it => it.group == g) = it :: rest.filter (fun it => it.group == g) := by
        simp [hg]
      rw [hf]
      simp only [List.flatMap_cons, steps_append]
      have same' : c'.groups it.group = c.groups it.group := by rw [hg]; exact r.same.symm
      rw [same'] at hs'
      have rel' : Rel I g (Demux.steps N c it.msgs).1 (Demux.steps N c' it.msgs).1 :=
        ⟨by rw [hs.groups, hs'.groups, ← hg, setGroup_at, setGroup_at], hs.current, hs'.current, hs.inv, hs'.inv⟩
      rw [run_sim T g rest _ _ rel', hs.out, hs'.out, hg, filter_label_same]
    · have hf : (it :: rest).filter (fun it => it.group == g) = rest.filter (fun it => it.group == g) := by
        simp [hg]
      rw [hf]
      have rel' : Rel I g (Demux.steps N c it.msgs).1 c' :=
        ⟨by rw [hs.groups, setGroup_other _ _ (Ne.symm hg)]; exact r.same, hs.current, r.cur', hs.inv, r.inv'⟩
      rw [run_sim T g rest _ _ rel', hs.out, filter_label_other hg, List.nil_append]

/-- `Γ = Unit`: every node is transparent. -/
def Transparent.ofUnit (N : Node Unit σ π ο) : Transparent N (fun _ => True) :=
  { newP := fun g m => (N.newGroup () g m).2,
    recvP := fun s m => (N.recv () s m).2,
    new_ok := fun _ _ _ _ => ⟨rfl, trivial⟩,
    recv_ok := fun _ _ _ _ => ⟨rfl, trivial⟩ }

end Kap.C06
