/-
C06 — the InfluxQL createFn cache: invariant, transparency of the node in its node-wide cache.
-/
import Kap.Proofs.C06Demux
namespace Kap.C06

/-- the cache invariant: a cached createFn is the one `determine…` gives for `currentKind` -/
def CacheOk (m : Method) (c : Cache) : Prop := ∀ f, c.fn = some f → determine m c.cur = some f

theorem getCreateFn_ok (m : Method) (c : Cache) (k : Kind) (h : CacheOk m c) :
    (getCreateFn m c k).2 = determine m k ∧ CacheOk m (getCreateFn m c k).1 := by
  unfold getCreateFn
  split
  · rename_i hc
    simp only [Bool.and_eq_true, beq_iff_eq, Option.isSome_iff_exists] at hc
    obtain ⟨e, f, hf⟩ := hc
    exact ⟨by rw [hf, ← e, h f hf], h⟩
  · cases hd : determine m k with
    | none => exact ⟨rfl, fun f hf => by cases hf⟩
    | some f => exact ⟨rfl, fun f' hf' => by simp only [Option.some.injEq] at hf'; rw [← hf']; exact hd⟩

theorem iqlAggregate_ok (m : Method) (γ : Cache) (st : IqlSt) (p : Pt) (h : CacheOk m γ) :
    (iqlAggregate (getCreateFn m) m γ st p).2 = (iqlAggregate (fun c k => (c, determine m k)) m {} st p).2 ∧
    CacheOk m (iqlAggregate (getCreateFn m) m γ st p).1 := by
  unfold iqlAggregate
  cases st.rc with
  | some c => exact ⟨rfl, h⟩
  | none =>
    cases p.v.kind? with
    | none => exact ⟨rfl, h⟩
    | some k =>
      obtain ⟨e, i⟩ := getCreateFn_ok m γ k h
      simp only [e]
      cases determine m k with
      | none => exact ⟨rfl, i⟩
      | some f => exact ⟨rfl, i⟩

/-- the InfluxQL node (today's code) is transparent in its cache -/
def iqlTransparent (m : Method) : Transparent (iqlNode m) (CacheOk m) :=
  { newP := fun g first => ((iqlNode m).newGroup {} g first).2,
    recvP := fun st msg => ((iqlNodeWith (fun c k => (c, determine m k)) m).recv {} st msg).2,
    new_ok := fun γ g first h => ⟨rfl, h⟩,
    recv_ok := fun γ st msg h => by
      cases msg with
      | point g p =>
        simp only [iqlNode, iqlNodeWith, iqlPoint]
        split
        · obtain ⟨e, i⟩ := iqlAggregate_ok m γ st p h
          exact ⟨by simp [e], i⟩
        · obtain ⟨e, i⟩ := iqlAggregate_ok m γ { st with time := p.time, rc := none } p h
          exact ⟨by simp [e], i⟩
      | _ => exact ⟨rfl, h⟩ }


end Kap.C06
