/-
C06 — (a) non-interference for SETS of groups, (b) an invariant principle for what a node emits, (c) composition of
isolated stages into isolated pipelines, (d) transparency of the InfluxQL batch-side receiver in the createFn cache.
-/
import Kap.Proofs.C06Iql
import Kap.Proofs.C06
namespace Kap.C06

variable {Γ σ π ο : Type}

/-! ### (a) the simulation for a set `S` of groups -/

structure RelS (I : Γ → Prop) (S : GroupID → Bool) (c c' : Demux Γ σ) : Prop where
  same : ∀ k, S k = true → c.groups k = c'.groups k
  cur : c.current = none
  cur' : c'.current = none
  inv : I c.shared
  inv' : I c'.shared

theorem filter_label_in {S : GroupID → Bool} {g : GroupID} (h : S g = true) (l : List ο) :
    (l.map (fun o => (g, o))).filter (fun o => S o.1) = l.map (fun o => (g, o)) := by
  induction l with
  | nil => rfl
  | cons a l ih => simp [ih, h]

theorem filter_label_out {S : GroupID → Bool} {g : GroupID} (h : S g = false) (l : List ο) :
    (l.map (fun o => (g, o))).filter (fun o => S o.1) = [] := by
  induction l with
  | nil => rfl
  | cons a l ih => simp [ih, h]

theorem run_sim_set {N : Node Γ σ π ο} {I : Γ → Prop} (T : Transparent N I) (S : GroupID → Bool) :
    ∀ (items : List (Item π)) (c c' : Demux Γ σ), RelS I S c c' →
    (Demux.steps N c (items.flatMap Item.msgs)).2.filter (fun o => S o.1) =
      (Demux.steps N c' ((items.filter (fun it => S it.group)).flatMap Item.msgs)).2
  | [], _, _, _ => by simp [Demux.steps]
  | it :: rest, c, c', r => by
    have hs := item_sim T c it r.cur r.inv
    simp only [List.flatMap_cons, steps_append, List.filter_append]
    cases hg : S it.group with
    | true =>
      have hs' := item_sim T c' it r.cur' r.inv'
      have hf : (it :: rest).filter (fun it => S it.group) = it :: rest.filter (fun it => S it.group) := by
        simp [hg]
      rw [hf]
      simp only [List.flatMap_cons, steps_append]
      rw [← r.same it.group hg] at hs'
      have rel' : RelS I S (Demux.steps N c it.msgs).1 (Demux.steps N c' it.msgs).1 := by
        refine ⟨fun k hk => ?_, hs.current, hs'.current, hs.inv, hs'.inv⟩
        rw [hs.groups, hs'.groups]
        by_cases e : k = it.group
        · rw [e, setGroup_at, setGroup_at]
        · rw [setGroup_other _ _ e, setGroup_other _ _ e]; exact r.same k hk
      rw [run_sim_set T S rest _ _ rel', hs.out, hs'.out, filter_label_in hg]
    | false =>
      have hf : (it :: rest).filter (fun it => S it.group) = rest.filter (fun it => S it.group) := by
        simp [hg]
      rw [hf]
      have rel' : RelS I S (Demux.steps N c it.msgs).1 c' := by
        refine ⟨fun k hk => ?_, hs.current, r.cur', hs.inv, r.inv'⟩
        have e : k ≠ it.group := fun e => by rw [e, hg] at hk; cases hk
        rw [hs.groups, setGroup_other _ _ e]; exact r.same k hk
      rw [run_sim_set T S rest _ _ rel', hs.out, filter_label_out hg, List.nil_append]

/-- non-interference for a SET of groups: what the node emits for the groups in `S` on the full stream is what it
emits when fed the items of the groups in `S` alone — including the relative order of the outputs of different
groups of `S`. -/
theorem runNode_filter_set {N : Node Γ σ π ο} {I : Γ → Prop} (T : Transparent N I) (γ : Γ) (hγ : I γ)
    (items : List (Item π)) (S : GroupID → Bool) :
    (runNode N γ items).filter (fun o => S o.1) = runNode N γ (items.filter (fun it => S it.group)) :=
  run_sim_set T S items (Demux.init γ) (Demux.init γ) ⟨fun _ _ => rfl, rfl, rfl, hγ, hγ⟩

/-! ### (b) an invariant of the per-group states bounds what is emitted -/

/-- the group a message can CREATE (`getOrCreateGroup` is called for these four; `BatchPoint` / `EndBatch` go to the
current receiver, `DeleteGroup` only looks the group up) -/
def Msg.group? : Msg π → Option GroupID
  | .point g _ | .barrier g _ | .buffered g _ | .begin g _ => some g
  | .batchPoint _ | .endBatch _ | .delete _ _ => none

def GroupsInv (J : GroupID → σ → Prop) (c : Demux Γ σ) : Prop := ∀ g s, c.groups g = some s → J g s

theorem groupsInv_set {J : GroupID → σ → Prop} {f : GroupID → Option σ} {g : GroupID} {v : σ}
    (h : ∀ k s, f k = some s → J k s) (hv : J g v) : ∀ k s, setGroup f g (some v) k = some s → J k s := by
  intro k s hk
  unfold setGroup at hk
  by_cases e : k = g
  · simp only [e, if_true, Option.some.injEq] at hk; rw [e, ← hk]; exact hv
  · simp only [e, if_false] at hk; exact h k s hk

section
variable (N : Node Γ σ π ο) (W : Msg π → Prop) (J : GroupID → σ → Prop) (Q : GroupID → ο → Prop)
  (hnew : ∀ γ g m, W m → m.group? = some g → J g (N.newGroup γ g m).2)
  (hrecv : ∀ γ g s m, J g s → W m → J g (N.recv γ s m).2.1 ∧ ∀ o ∈ (N.recv γ s m).2.2, Q g o)
include hnew hrecv

theorem deliver_inv (c : Demux Γ σ) (g : GroupID) (m : Msg π) (hc : GroupsInv J c) (hm : W m) (hg : m.group? = some g) :
    GroupsInv J (c.deliver N g m).1 ∧ ∀ x ∈ (c.deliver N g m).2, Q x.1 x.2 := by
  unfold Demux.deliver Demux.getOrCreate
  cases hgr : c.groups g with
  | some s =>
    obtain ⟨j, q⟩ := hrecv c.shared g s m (hc g s hgr) hm
    refine ⟨groupsInv_set hc j, ?_⟩
    intro x hx
    obtain ⟨o, ho, rfl⟩ := List.mem_map.mp hx
    exact q o ho
  | none =>
    have j0 := hnew c.shared g m hm hg
    obtain ⟨j, q⟩ := hrecv (N.newGroup c.shared g m).1 g (N.newGroup c.shared g m).2 m j0 hm
    refine ⟨groupsInv_set (groupsInv_set hc j0) j, ?_⟩
    intro x hx
    obtain ⟨o, ho, rfl⟩ := List.mem_map.mp hx
    exact q o ho

omit hnew in
theorem deliverCurrent_inv (c : Demux Γ σ) (m : Msg π) (hc : GroupsInv J c) (hm : W m) :
    GroupsInv J (c.deliverCurrent N m).1 ∧ ∀ x ∈ (c.deliverCurrent N m).2, Q x.1 x.2 := by
  cases hcur : c.current with
  | none =>
    unfold Demux.deliverCurrent; simp only [hcur]
    exact ⟨hc, fun x hx => by cases hx⟩
  | some g =>
    cases hgr : c.groups g with
    | none =>
      unfold Demux.deliverCurrent; simp only [hcur, hgr]
      exact ⟨hc, fun x hx => by cases hx⟩
    | some s =>
      unfold Demux.deliverCurrent; simp only [hcur, hgr]
      obtain ⟨j, q⟩ := hrecv c.shared g s m (hc g s hgr) hm
      refine ⟨groupsInv_set hc j, ?_⟩
      intro x hx
      obtain ⟨o, ho, rfl⟩ := List.mem_map.mp hx
      exact q o ho

theorem step_inv (c : Demux Γ σ) (m : Msg π) (hc : GroupsInv J c) (hm : W m) :
    GroupsInv J (c.step N m).1 ∧ ∀ x ∈ (c.step N m).2, Q x.1 x.2 := by
  cases m with
  | point g p => exact deliver_inv N W J Q hnew hrecv c g _ hc hm rfl
  | barrier g p => exact deliver_inv N W J Q hnew hrecv c g _ hc hm rfl
  | buffered g p => exact deliver_inv N W J Q hnew hrecv c g _ hc hm rfl
  | begin g p =>
    have h := deliver_inv N W J Q hnew hrecv c g (.begin g p) hc hm rfl
    exact ⟨h.1, h.2⟩
  | batchPoint p => exact deliverCurrent_inv N W J Q hrecv c _ hc hm
  | endBatch p =>
    have h := deliverCurrent_inv N W J Q hrecv c (.endBatch p) hc hm
    exact ⟨h.1, h.2⟩
  | delete g p =>
    simp only [Demux.step]
    cases hgr : c.groups g with
    | none => exact ⟨hc, fun x hx => by cases hx⟩
    | some s =>
      obtain ⟨_, q⟩ := hrecv c.shared g s (.delete g p) (hc g s hgr) hm
      refine ⟨?_, ?_⟩
      · intro k s' hk
        simp only [setGroup] at hk
        by_cases e : k = g
        · simp [e] at hk
        · simp only [e, if_false] at hk; exact hc k s' hk
      · intro x hx
        obtain ⟨o, ho, rfl⟩ := List.mem_map.mp hx
        exact q o ho

theorem steps_inv : ∀ (ms : List (Msg π)) (c : Demux Γ σ), GroupsInv J c → (∀ m ∈ ms, W m) →
    ∀ x ∈ (Demux.steps N c ms).2, Q x.1 x.2
  | [], _, _, _ => by intro x hx; cases hx
  | m :: ms, c, hc, hw => by
    obtain ⟨hc', q⟩ := step_inv N W J Q hnew hrecv c m hc (hw m (List.mem_cons_self ..))
    intro x hx
    simp only [Demux.steps, List.mem_append] at hx
    cases hx with
    | inl h => exact q x h
    | inr h => exact steps_inv ms _ hc' (fun m' hm' => hw m' (List.mem_cons_of_mem _ hm')) x h

/-- **what a node emits satisfies every invariant of its per-group states**: if `J` holds of every fresh receiver
state and is kept by every call (on messages satisfying `W`), and calls on `J`-states emit only `Q`-outputs, then
everything emitted on a stream of `W`-messages is `Q`. -/
theorem runNode_outputs (γ : Γ) (items : List (Item π)) (hw : ∀ it ∈ items, ∀ m ∈ it.msgs, W m) :
    ∀ x ∈ runNode N γ items, Q x.1 x.2 := by
  apply steps_inv N W J Q hnew hrecv _ (Demux.init γ)
  · intro g s h; simp [Demux.init] at h
  · intro m hm
    obtain ⟨it, hit, hmi⟩ := List.mem_flatMap.mp hm
    exact hw it hit m hmi
end

/-! ### (d) the InfluxQL batch-side receiver is transparent in the createFn cache -/

/-- the uncached lookup (`determineReduceContextCreateFn` every time), leaving the cache alone -/
def gcfPure (m : Method) : Cache → Kind → Cache × Option Kind := fun c k => (c, determine m k)

theorem iqlBatchStep_pure_fst (m : Method) (tmax : Int) (c : Cache) (x : Option Ctx) (p : Pt) :
    (iqlBatchStep (gcfPure m) m tmax (c, x) p).1 = c := by
  unfold iqlBatchStep gcfPure
  cases x with
  | some _ => rfl
  | none =>
    simp only
    cases p.v.kind? with
    | none => rfl
    | some k => simp only; cases determine m k <;> rfl

theorem iqlBatchStep_ok (m : Method) (tmax : Int) (acc : Cache × Option Ctx) (p : Pt) (h : CacheOk m acc.1) :
    (iqlBatchStep (getCreateFn m) m tmax acc p).2 = (iqlBatchStep (gcfPure m) m tmax ({}, acc.2) p).2 ∧
    CacheOk m (iqlBatchStep (getCreateFn m) m tmax acc p).1 := by
  unfold iqlBatchStep gcfPure
  cases acc.2 with
  | some c => exact ⟨rfl, h⟩
  | none =>
    simp only
    cases p.v.kind? with
    | none => exact ⟨rfl, h⟩
    | some k =>
      obtain ⟨e, i⟩ := getCreateFn_ok m acc.1 k h
      simp only [e]
      cases determine m k with
      | none => exact ⟨rfl, i⟩
      | some f => exact ⟨rfl, i⟩

theorem iqlBatchFold_ok (m : Method) (tmax : Int) : ∀ (pts : List Pt) (acc : Cache × Option Ctx), CacheOk m acc.1 →
    (pts.foldl (iqlBatchStep (getCreateFn m) m tmax) acc).2 = (pts.foldl (iqlBatchStep (gcfPure m) m tmax) ({}, acc.2)).2 ∧
    CacheOk m (pts.foldl (iqlBatchStep (getCreateFn m) m tmax) acc).1
  | [], _, h => ⟨rfl, h⟩
  | p :: ps, acc, h => by
    obtain ⟨e, i⟩ := iqlBatchStep_ok m tmax acc p h
    obtain ⟨e', i'⟩ := iqlBatchFold_ok m tmax ps _ i
    simp only [List.foldl_cons]
    refine ⟨?_, i'⟩
    rw [e', e]
    have : iqlBatchStep (gcfPure m) m tmax ({}, acc.2) p = ({}, (iqlBatchStep (gcfPure m) m tmax ({}, acc.2) p).2) :=
      Prod.ext (iqlBatchStep_pure_fst m tmax {} acc.2 p) rfl
    rw [← this]

theorem iqlBatchFin_ok (m : Method) (tmax : Int) (r : Cache × Option Ctx) (h : CacheOk m r.1) :
    (iqlBatchFin (getCreateFn m) tmax r).2 = (iqlBatchFin (gcfPure m) tmax ({}, r.2)).2 ∧
    CacheOk m (iqlBatchFin (getCreateFn m) tmax r).1 := by
  unfold iqlBatchFin gcfPure
  cases r.2 with
  | some c => exact ⟨rfl, h⟩
  | none =>
    obtain ⟨e, i⟩ := getCreateFn_ok m r.1 .flt h
    exact ⟨by simp only [e], i⟩

theorem iqlOnBatch_ok (m : Method) (γ : Cache) (b : Batch) (h : CacheOk m γ) :
    (iqlOnBatch (getCreateFn m) m γ b).2 = (iqlOnBatch (gcfPure m) m {} b).2 ∧
    CacheOk m (iqlOnBatch (getCreateFn m) m γ b).1 := by
  unfold iqlOnBatch
  obtain ⟨e, i⟩ := iqlBatchFold_ok m b.tmax b.pts (γ, none) h
  obtain ⟨e', i'⟩ := iqlBatchFin_ok m b.tmax _ i
  refine ⟨?_, i'⟩
  simp only [e', e]
  have : (b.pts.foldl (iqlBatchStep (gcfPure m) m b.tmax) ({}, none)) =
      ({}, (b.pts.foldl (iqlBatchStep (gcfPure m) m b.tmax) ({}, none)).2) := by
    refine Prod.ext ?_ rfl
    generalize (none : Option Ctx) = x
    induction b.pts generalizing x with
    | nil => rfl
    | cons p ps ih =>
      simp only [List.foldl_cons]
      have hp : iqlBatchStep (gcfPure m) m b.tmax ({}, x) p = ({}, (iqlBatchStep (gcfPure m) m b.tmax ({}, x) p).2) :=
        Prod.ext (iqlBatchStep_pure_fst m b.tmax {} x p) rfl
      rw [hp]; exact ih _
  rw [← this]

/-- the InfluxQL node, batch side (today's code), is transparent in its cache -/
def iqlBTransparent (m : Method) : Transparent (iqlNodeB m) (CacheOk m) :=
  { newP := fun _ _ => (),
    recvP := fun st msg => ((iqlNodeBWith (gcfPure m) m).recv {} st msg).2,
    new_ok := fun _ _ _ h => ⟨rfl, h⟩,
    recv_ok := fun γ st msg h => by
      cases msg with
      | buffered g b =>
        obtain ⟨e, i⟩ := iqlOnBatch_ok m γ b h
        simp only [iqlNodeB, iqlNodeBWith, batchNode]
        exact ⟨by rw [e], i⟩
      | _ => exact ⟨rfl, h⟩ }

/-! ### the batch-edge id of what a window emits -/

/-- a stream edge (points, barriers, group deletions — what a window node consumes) whose points carry the batch-edge
id `r g` of their group `g` -/
def StreamLabelled (r : GroupID → GroupID) : Msg Pt → Prop
  | .point g p => p.bid = r g
  | .barrier g p => p.bid = r g
  | .delete _ _ => True
  | _ => False

theorem windowCount_bid (pd ev : Nat) (fill : Bool) (r : GroupID → GroupID) (items : List (Item Pt))
    (hw : ∀ it ∈ items, ∀ m ∈ it.msgs, StreamLabelled r m) :
    ∀ x ∈ runNode (windowCountNodeB pd ev fill) () items, x.2.bid = r x.1 := by
  apply runNode_outputs (windowCountNodeB pd ev fill) (StreamLabelled r)
    (fun g w => w.bid = r g ∨ w.nextEmit = 0) (fun g b => b.bid = r g) _ _ () items hw
  · intro _ g m hm hg
    cases m with
    | point g' p =>
      simp only [Msg.group?, Option.some.injEq] at hg
      left; simp only [windowCountNodeB]; rw [← hg]; exact hm
    | barrier g' p => right; rfl
    | delete g' p => cases hg
    | _ => exact absurd hm (by simp [StreamLabelled])
  · intro _ g w m hj hm
    cases m with
    | point g' p =>
      simp only [windowCountNodeB]
      split
      · rename_i hemit
        refine ⟨?_, ?_⟩
        · cases hj with
          | inl h => left; exact h
          | inr h => rw [h] at hemit; simp at hemit
        · intro o ho
          simp only [List.mem_singleton] at ho
          rw [ho]
          cases hj with
          | inl h => exact h
          | inr h => rw [h] at hemit; simp at hemit
      · exact ⟨hj, fun o ho => by cases ho⟩
    | _ => exact ⟨hj, fun o ho => by cases ho⟩

theorem windowTime_bid (c : Kap.C03.TCfg) (r : GroupID → GroupID) (items : List (Item Pt))
    (hw : ∀ it ∈ items, ∀ m ∈ it.msgs, StreamLabelled r m) :
    ∀ x ∈ runNode (windowTimeNodeB c) () items, x.2.bid = r x.1 := by
  apply runNode_outputs (windowTimeNodeB c) (StreamLabelled r)
    (fun g w => w.bid = r g) (fun g b => b.bid = r g) _ _ () items hw
  · intro _ g m hm hg
    cases m with
    | point g' p =>
      simp only [Msg.group?, Option.some.injEq] at hg
      simp only [windowTimeNodeB]; rw [← hg]; exact hm
    | barrier g' p =>
      simp only [Msg.group?, Option.some.injEq] at hg
      simp only [windowTimeNodeB]; rw [← hg]; exact hm
    | delete g' p => cases hg
    | _ => exact absurd hm (by simp [StreamLabelled])
  · intro _ g w m hj hm
    cases m with
    | point g' p =>
      refine ⟨hj, ?_⟩
      intro o ho
      simp only [windowTimeNodeB, Option.mem_toList, Option.map_eq_some_iff] at ho
      obtain ⟨a, _, rfl⟩ := ho
      exact hj
    | barrier g' p =>
      refine ⟨hj, ?_⟩
      intro o ho
      simp only [windowTimeNodeB, Option.mem_toList, Option.map_eq_some_iff] at ho
      obtain ⟨a, _, rfl⟩ := ho
      exact hj
    | _ => exact ⟨hj, fun o ho => by cases ho⟩

/-! ### the two spellings of a group: stream edge (dimension list as configured) and batch edge (duplicates dropped) -/

/-- the point as the batch edge behind a window groups it: `NewBeginBatchMessage` takes the sorted tag KEYS of the
group, so a dimension listed twice appears once -/
def onBatchEdgeDims (p : GPoint) : GPoint := { p with dims := p.dims.eraseDups }

theorem cleanPoint_onBatchEdge {p : GPoint} (h : cleanPoint p = true) : cleanPoint (onBatchEdgeDims p) = true := by
  unfold cleanPoint at *
  simp only [Bool.and_eq_true, List.all_eq_true] at *
  exact ⟨h.1, fun d hd => h.2 d (List.mem_eraseDups.mp hd)⟩

theorem sameGroup_onBatchEdge (p q : GPoint) (hd : p.dims = q.dims) :
    sameGroup (onBatchEdgeDims p) (onBatchEdgeDims q) = sameGroup p q := by
  rw [Bool.eq_iff_iff, sameGroup_iff, sameGroup_iff]
  constructor
  · rintro ⟨h1, _, h3, h4⟩
    exact ⟨h1, hd, h3, fun d hd' => h4 d (List.mem_eraseDups.mpr hd')⟩
  · rintro ⟨h1, h2, h3, h4⟩
    exact ⟨h1, by simp only [onBatchEdgeDims, h2], h3, fun d hd' => h4 d (List.mem_eraseDups.mp hd')⟩

/-! ### (c) composition -/

/-- **Isolated stages compose** (abstract form; a stage is any function from an input list to group-labelled
outputs). Stage A is isolated for the class `cin` of inputs / `cmid` of its output groups, stage B for the class
`cmid'` of ITS input groups / `cout` of its output groups, and the connector `conv` carries A's class to B's
(`cmid' (conv x).group = cmid x.1` on what A actually emits): then the two-stage pipeline is isolated for
`cin` / `cout`. -/
theorem pipe_isolated {α μ μ' ο : Type} (FA : List α → List (GroupID × μ)) (FB : List (Item μ') → List (GroupID × ο))
    (conv : GroupID × μ → Item μ') (cin : α → Bool) (cmid cmid' cout : GroupID → Bool) (xs : List α)
    (hA : (FA xs).filter (fun o => cmid o.1) = FA (xs.filter cin))
    (hB : ∀ mids, (FB mids).filter (fun o => cout o.1) = FB (mids.filter (fun it => cmid' it.group)))
    (hc : ∀ x ∈ FA xs, cmid' (conv x).group = cmid x.1) :
    (FB ((FA xs).map conv)).filter (fun o => cout o.1) = FB ((FA (xs.filter cin)).map conv) := by
  rw [hB, ← hA, List.filter_map]
  congr 2
  apply List.filter_congr
  intro x hx
  exact hc x hx


/-! ### stateless stages that rebuild a point's group identity (helper lemmas for Kap.Props.C06Pipe) -/

theorem tagVal_deleteTags (del : List String) (tags : Tags) (d : String) (h : del.contains d = false) :
    tagVal (deleteTags del tags) d = tagVal tags d := by
  have hm : d ∉ del := by simpa using h
  unfold tagVal deleteTags
  congr 1
  induction tags with
  | nil => rfl
  | cons kv rest ih =>
    by_cases e : kv.1 = d
    · simp [hm, e]
    · by_cases c : kv.1 ∈ del
      · simpa [List.filter_cons, c, e] using ih
      · simpa [List.filter_cons, c, e] using ih

theorem filter_not_deleted_self (del dims : List String) (h : checkForDeletedDimension del dims = false) :
    dims.filter (fun d => !del.contains d) = dims := by
  unfold checkForDeletedDimension at h
  rw [List.filter_eq_self]
  intro d hd
  have := List.any_eq_false.mp h d hd
  simpa using this

/-- `DeleteNode.Point`, both branches, field by field -/
theorem delete_apply_fields (del : List String) (p : GPoint) :
    ((Stage.delete del).apply p).byName = p.byName ∧
    ((Stage.delete del).apply p).dims = p.dims.filter (fun d => !del.contains d) ∧
    ((Stage.delete del).apply p).tags = deleteTags del p.tags ∧ ((Stage.delete del).apply p).name = p.name := by
  unfold Stage.apply deletePointWith deleteDimensions
  cases h : checkForDeletedDimension del p.dims
  · have hf := (filter_not_deleted_self del p.dims h).symm
    simp [h]
    simpa using hf
  · simp [h]

theorem stage_byName (st : Stage) (p q : GPoint) (h : p.byName = q.byName) :
    (st.apply p).byName = (st.apply q).byName := by
  cases st with
  | delete del => rw [(delete_apply_fields del p).1, (delete_apply_fields del q).1, h]
  | groupBy b dims => simp [Stage.apply, h]
  | defaultTag k v =>
    have e : ∀ r : GPoint, ((Stage.defaultTag k v).apply r).byName = r.byName := by
      intro r; simp only [Stage.apply]; split <;> rfl
    rw [e p, e q, h]
  | evalTag k v => simp [Stage.apply, h]

theorem applyStages_byName (sts : List Stage) :
    ∀ (p q : GPoint), p.byName = q.byName → (applyStages sts p).byName = (applyStages sts q).byName := by
  induction sts with
  | nil => intro p q h; exact h
  | cons st rest ih =>
    intro p q h
    show (applyStages rest (st.apply p)).byName = (applyStages rest (st.apply q)).byName
    exact ih _ _ (stage_byName st p q h)

end Kap.C06
