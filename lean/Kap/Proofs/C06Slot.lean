/-
C06 — helper lemmas for the slot table of httpOut (Kap/Model/C06Slot.lean): the numbering part of the invariant
(`recv[k].idx = k`, one series entry per receiver) is kept by every operation.
-/
import Kap.Spec.C06Slot
namespace Kap.C06.Slot

/-- the numbering invariant: the receiver at position k of n.indexes carries idx k, and Series has one entry per
receiver -/
def Numbered (s : St) : Prop := s.recv.map (·.2) = List.range s.recv.length ∧ s.series.length = s.recv.length

theorem numbered_empty : Numbered St.empty := by simp [Numbered, St.empty]

theorem numbered_newGroup (s : St) (g : String) (h : Numbered s) : Numbered (newGroup s g) := by
  obtain ⟨h1, h2⟩ := h
  simp [Numbered, newGroup, h1, h2, List.range_succ]

theorem numbered_update (s : St) (g : String) (r : Row) (h : Numbered s) : Numbered (update s g r) := by
  unfold update
  split
  · exact h
  · split
    · simpa [Numbered] using h
    · exact h

theorem range_splice (n i : Nat) (hi : i < n) :
    (List.range n).take i ++ ((List.range n).drop (i + 1)).map (· - 1) = List.range (n - 1) := by
  apply List.ext_getElem
  · simp; omega
  · intro k h1 h2
    simp at h1 h2
    simp [List.getElem_append]
    omega

theorem numbered_deleteAt (s : St) (i : Nat) (hi : i < s.recv.length) (h : Numbered s) : Numbered (deleteAt s i) := by
  obtain ⟨h1, h2⟩ := h
  refine ⟨?_, ?_⟩
  · have := range_splice s.recv.length i hi
    simp only [deleteAt, List.map_append, List.map_take, List.map_map, List.map_drop] at *
    have hd : List.map ((fun x => x.2) ∘ dec) s.recv = List.map (fun x => x - 1) (List.map (fun x => x.2) s.recv) := by
      simp [dec, Function.comp_def]
    rw [hd, h1, this]
    congr 1
    simp; omega
  · simp [deleteAt, List.length_eraseIdx, h2, hi]; omega

theorem find_lt (s : St) (g : String) (i : Nat) (h : Numbered s) (hf : find s g = some i) : i < s.recv.length := by
  unfold find at hf
  cases hfd : s.recv.find? (fun r => r.1 == g) with
  | none => simp [hfd] at hf
  | some r =>
    simp [hfd] at hf
    have hm : r ∈ s.recv := List.mem_of_find?_eq_some hfd
    have : r.2 ∈ s.recv.map (·.2) := List.mem_map_of_mem hm
    rw [h.1] at this
    simp at this
    omega

theorem numbered_step (s : St) (op : Op) (h : Numbered s) : Numbered (step s op) := by
  cases op with
  | point g v =>
    simp only [step, stepWith]
    split
    · exact numbered_update _ _ _ (numbered_newGroup _ _ h)
    · exact numbered_update _ _ _ h
  | delete g =>
    simp only [step, stepWith]
    split
    · exact h
    · next i hf => exact numbered_deleteAt s i (find_lt s g i h hf) h

theorem numbered_foldl (hs : List Op) (s : St) (h : Numbered s) : Numbered (hs.foldl step s) := by
  induction hs generalizing s with
  | nil => exact h
  | cons op rest ih => exact ih _ (numbered_step s op h)

end Kap.C06.Slot
