/-
C07 — helper lemmas for the buffering join node (Model/C07Buf.lean): `emit` only moves `e` forward and never past the
buffered sets; `emit(false)` emits at least the oldest set; `emitAll` empties the buffer.
-/
import Kap.Model.C07Buf
set_option linter.unusedSimpArgs false
set_option linter.unusedVariables false
namespace Kap.C07.Buf

/-- what `emit` keeps -/
structure Same (s r : J) : Prop where
  n : r.n = s.n
  m : r.m = s.m
  a : r.a = s.a
  b : r.b = s.b
  done : r.done = s.done
  mono : s.e ≤ r.e
  bound : s.e ≤ max s.a s.b → r.e ≤ max s.a s.b

theorem Same.refl (s : J) : Same s s := ⟨rfl, rfl, rfl, rfl, rfl, Nat.le_refl _, fun h => h⟩

theorem Same.trans {s r t : J} (h1 : Same s r) (h2 : Same r t) : Same s t := by
  refine ⟨by rw [h2.n, h1.n], by rw [h2.m, h1.m], by rw [h2.a, h1.a], by rw [h2.b, h1.b], by rw [h2.done, h1.done],
    Nat.le_trans h1.mono h2.mono, ?_⟩
  intro h
  have := h1.bound h
  have h3 := h2.bound (by rw [h1.a, h1.b]; exact this)
  rw [h1.a, h1.b] at h3; exact h3

theorem emit_same : ∀ (f : Nat) (only : Bool) (s : J), Same s (emit f only s) := by
  intro f
  induction f with
  | zero => intro only s; simp only [emit]; exact Same.refl s
  | succ f ih =>
    intro only s
    simp only [emit]
    by_cases h0 : max s.a s.b ≤ s.e
    · simp only [h0, if_true]; exact Same.refl s
    · have hup : Same s { s with e := s.e + 1 } :=
        ⟨rfl, rfl, rfl, rfl, rfl, Nat.le_succ _, fun _ => by show s.e + 1 ≤ max s.a s.b; omega⟩
      cases only with
      | true =>
        by_cases hr : s.e < s.a ∧ s.e < s.b
        · simp [h0, hr]; exact hup
        · simp [h0, hr]
          exact Same.refl s
      | false =>
        simp [h0]
        exact Same.trans hup (ih _ _)

/-- `emit(false)` with something buffered emits at least the oldest set -/
theorem emit_false_progress (f : Nat) (s : J) (h : ¬ max s.a s.b ≤ s.e) : s.e + 1 ≤ (emit (f + 1) false s).e := by
  have := (emit_same f (checkOnly { s with e := s.e + 1 }) { s with e := s.e + 1 }).mono
  simp [emit, h]
  simpa using this

theorem emitAll_same : ∀ (f : Nat) (s : J), Same s (emitAll f s) := by
  intro f
  induction f with
  | zero => intro s; simp only [emitAll]; exact Same.refl s
  | succ f ih =>
    intro s
    simp only [emitAll]
    by_cases h0 : max s.a s.b ≤ s.e
    · simp only [h0, if_true]; exact Same.refl s
    · simp only [h0, if_false]
      exact Same.trans (emit_same _ _ _) (ih _)

/-- `emitAll` empties the buffer: afterwards every set has been emitted -/
theorem emitAll_all : ∀ (f : Nat) (s : J), s.e ≤ max s.a s.b → s.pending ≤ f → (emitAll f s).e = max s.a s.b := by
  intro f
  induction f with
  | zero => intro s h hp; simp only [emitAll]; unfold J.pending at hp; omega
  | succ f ih =>
    intro s h hp
    simp only [emitAll]
    by_cases h0 : max s.a s.b ≤ s.e
    · simp only [h0, if_true]; omega
    · simp only [h0, if_false]
      have hs := emit_same (s.pending + 1) false s
      have hpr := emit_false_progress s.pending s h0
      have hb := hs.bound h
      have := ih (emit (s.pending + 1) false s) (by rw [hs.a, hs.b]; exact hb) (by
        unfold J.pending at *; rw [hs.a, hs.b]; omega)
      rw [this, hs.a, hs.b]

/-- reachable states: nothing is emitted that has not arrived, nothing arrives that was not sent -/
structure Inv (s : J) : Prop where
  e : s.e ≤ max s.a s.b
  a : s.a ≤ s.n
  b : s.b ≤ s.m
  fin : s.done = true → s.a = s.n ∧ s.b = s.m

theorem inv_init (n m : Nat) : Inv (init n m) := ⟨by simp [init], by simp [init], by simp [init], by simp [init]⟩

theorem inv_step {fo : Bool} {s s' : J} {x : Act} (h : step fo s x = some s') (hi : Inv s) : Inv s' := by
  cases x with
  | a =>
    simp only [step] at h
    split at h
    · rename_i hc
      simp only [Option.some.injEq] at h; subst h
      have hs := emit_same ((({ s with a := s.a + 1 } : J).pending) + 1) (checkOnly { s with a := s.a + 1 }) { s with a := s.a + 1 }
      have hb := hs.bound (by show s.e ≤ max (s.a + 1) s.b; have := hi.e; omega)
      refine ⟨by rw [hs.a, hs.b]; exact hb, by rw [hs.a, hs.n]; show s.a + 1 ≤ s.n; omega, by rw [hs.b, hs.m]; exact hi.b, ?_⟩
      intro hd; rw [hs.done] at hd; simp at hc; simp [hc.1] at hd
    · simp at h
  | b =>
    simp only [step] at h
    split at h
    · rename_i hc
      simp only [Option.some.injEq] at h; subst h
      have hs := emit_same ((({ s with b := s.b + 1 } : J).pending) + 1) (checkOnly { s with b := s.b + 1 }) { s with b := s.b + 1 }
      have hb := hs.bound (by show s.e ≤ max s.a (s.b + 1); have := hi.e; omega)
      refine ⟨by rw [hs.a, hs.b]; exact hb, by rw [hs.a, hs.n]; exact hi.a, by rw [hs.b, hs.m]; show s.b + 1 ≤ s.m; omega, ?_⟩
      intro hd; rw [hs.done] at hd; simp at hc; simp [hc.1] at hd
    · simp at h
  | finish =>
    simp only [step] at h
    split at h
    · rename_i hc
      simp only [Option.some.injEq] at h; subst h
      have hs : Same s (if fo = true then emit (s.pending + 1) false s else emitAll (s.pending + 1) s) := by
        cases fo with
        | true => simpa using emit_same _ _ _
        | false => simpa using emitAll_same _ _
      have hb := hs.bound hi.e
      refine ⟨?_, ?_, ?_, ?_⟩
      · show _ ≤ max _ _; simp only []; rw [hs.a, hs.b]; exact hb
      · show _ ≤ _; simp only []; rw [hs.a, hs.n]; exact hi.a
      · show _ ≤ _; simp only []; rw [hs.b, hs.m]; exact hi.b
      · intro _; simp only []; rw [hs.a, hs.b, hs.n, hs.m]; simp at hc; exact ⟨hc.2.1, hc.2.2⟩
    · simp at h

theorem inv_run {fo : Bool} {s : J} (hi : Inv s) (xs : List Act) : Inv (run fo s xs) := by
  induction xs generalizing s with
  | nil => exact hi
  | cons x xs ih =>
    simp only [run]
    split
    · rename_i s' hs; exact ih (inv_step hs hi)
    · exact ih hi

/-- `Finish` of the code as it is flushes everything: a finished node has emitted every set -/
def Flushed (s : J) : Prop := s.done = true → s.e = max s.a s.b

theorem flushed_step {s s' : J} {x : Act} (h : step false s x = some s') (hi : Inv s) (hf : Flushed s) : Flushed s' := by
  cases x with
  | a =>
    simp only [step] at h
    split at h
    · rename_i hc
      simp only [Option.some.injEq] at h; subst h
      have hs := emit_same ((({ s with a := s.a + 1 } : J).pending) + 1) (checkOnly { s with a := s.a + 1 }) { s with a := s.a + 1 }
      intro hd; rw [hs.done] at hd; simp at hc; simp [hc.1] at hd
    · simp at h
  | b =>
    simp only [step] at h
    split at h
    · rename_i hc
      simp only [Option.some.injEq] at h; subst h
      have hs := emit_same ((({ s with b := s.b + 1 } : J).pending) + 1) (checkOnly { s with b := s.b + 1 }) { s with b := s.b + 1 }
      intro hd; rw [hs.done] at hd; simp at hc; simp [hc.1] at hd
    · simp at h
  | finish =>
    simp only [step] at h
    split at h
    · simp only [Option.some.injEq, Bool.false_eq_true, if_false] at h; subst h
      intro _
      have hs := emitAll_same (s.pending + 1) s
      have := emitAll_all (s.pending + 1) s hi.e (Nat.le_succ _)
      show (emitAll (s.pending + 1) s).e = max (emitAll (s.pending + 1) s).a (emitAll (s.pending + 1) s).b
      rw [this, hs.a, hs.b]
    · simp at h

theorem flushed_run {s : J} (hi : Inv s) (hf : Flushed s) (xs : List Act) : Flushed (run false s xs) := by
  induction xs generalizing s with
  | nil => exact hf
  | cons x xs ih =>
    simp only [run]
    split
    · rename_i s' hs; exact ih (inv_step hs hi) (flushed_step hs hi hf)
    · exact ih hi hf

theorem step_nm {fo : Bool} {s s' : J} {x : Act} (h : step fo s x = some s') : s'.n = s.n ∧ s'.m = s.m := by
  cases x with
  | a =>
    simp only [step] at h
    split at h
    · simp only [Option.some.injEq] at h; subst h
      have hs := emit_same ((({ s with a := s.a + 1 } : J).pending) + 1) (checkOnly { s with a := s.a + 1 }) { s with a := s.a + 1 }
      exact ⟨hs.n, hs.m⟩
    · simp at h
  | b =>
    simp only [step] at h
    split at h
    · simp only [Option.some.injEq] at h; subst h
      have hs := emit_same ((({ s with b := s.b + 1 } : J).pending) + 1) (checkOnly { s with b := s.b + 1 }) { s with b := s.b + 1 }
      exact ⟨hs.n, hs.m⟩
    · simp at h
  | finish =>
    simp only [step] at h
    split at h
    · simp only [Option.some.injEq] at h; subst h
      cases fo with
      | true => have hs := emit_same (s.pending + 1) false s; exact ⟨hs.n, hs.m⟩
      | false => have hs := emitAll_same (s.pending + 1) s; exact ⟨hs.n, hs.m⟩
    · simp at h

theorem run_nm {fo : Bool} {s : J} (xs : List Act) : (run fo s xs).n = s.n ∧ (run fo s xs).m = s.m := by
  induction xs generalizing s with
  | nil => exact ⟨rfl, rfl⟩
  | cons x xs ih =>
    simp only [run]
    split
    · rename_i s' hs
      have h1 := step_nm hs
      have h2 := ih (s := s')
      exact ⟨by rw [h2.1, h1.1], by rw [h2.2, h1.2]⟩
    · exact ih

/-- a node that has not finished can always move: the next point arrives, or Finish runs -/
theorem can_move (fo : Bool) (s : J) (hi : Inv s) (hd : s.done = false) : ∃ x, (step fo s x).isSome = true := by
  by_cases ha : s.a < s.n
  · exact ⟨.a, by simp [step, hd, ha]⟩
  · by_cases hb : s.b < s.m
    · exact ⟨.b, by simp [step, hd, hb]⟩
    · refine ⟨.finish, ?_⟩
      have h1 : s.a = s.n := by have := hi.a; omega
      have h2 : s.b = s.m := by have := hi.b; omega
      simp [step, hd, h1, h2]

end Kap.C07.Buf
