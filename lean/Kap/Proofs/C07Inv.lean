/-
C07 — helper lemmas: locality of a node action in the chain, and the conservation (accounting) invariant.
-/
import Kap.Model.C07
namespace Kap.C07

/-! ### A node action touches only node `i` and its child `i+1` -/

theorem stepAt_spec {env : Env} {a : NAct} : ∀ {i : Nat} {ns ns' : List Nd} {l : Bool},
    stepAt env a i ns = some (ns', l) →
    ∃ nd r, ns[i]? = some nd ∧ nodeStep env a nd ns[i+1]? = some r ∧ l = r.looped ∧
      ns'.length = ns.length ∧ ns'[i]? = some r.nd ∧
      (∀ c, ns[i+1]? = some c → ns'[i+1]? = some (r.child.getD c)) ∧
      (∀ k, k ≠ i → k ≠ i + 1 → ns'[k]? = ns[k]?) := by
  intro i ns
  induction ns generalizing i with
  | nil => intro ns' l h; simp [stepAt] at h
  | cons nd rest ih =>
    intro ns' l h
    cases i with
    | zero =>
      cases rest with
      | nil =>
        simp only [stepAt] at h
        split at h
        · rename_i r hr
          simp only [Option.some.injEq, Prod.mk.injEq] at h
          obtain ⟨h1, h2⟩ := h
          subst h1; subst h2
          refine ⟨nd, r, by simp, by simpa using hr, rfl, by simp, by simp, by simp, ?_⟩
          intro k hk0 hk1
          cases k with
          | zero => exact absurd rfl hk0
          | succ k => simp
        · simp at h
      | cons c rest' =>
        simp only [stepAt] at h
        split at h
        · rename_i r hr
          simp only [Option.some.injEq, Prod.mk.injEq] at h
          obtain ⟨h1, h2⟩ := h
          subst h1; subst h2
          refine ⟨nd, r, by simp, by simpa using hr, rfl, by simp, by simp, by simp, ?_⟩
          intro k hk0 hk1
          cases k with
          | zero => exact absurd rfl hk0
          | succ k =>
            cases k with
            | zero => exact absurd rfl hk1
            | succ k => simp
        · simp at h
    | succ i =>
      simp only [stepAt] at h
      split at h
      · rename_i rest' l' hr
        simp only [Option.some.injEq, Prod.mk.injEq] at h
        obtain ⟨h1, h2⟩ := h
        subst h1; subst h2
        obtain ⟨nd0, r, g1, g2, g3, g4, g5, g6, g7⟩ := ih hr
        refine ⟨nd0, r, by simpa using g1, by simpa using g2, g3, by simp [g4], by simpa using g5, ?_, ?_⟩
        · intro c hc
          have := g6 c (by simpa using hc)
          simpa using this
        · intro k hk0 hk1
          cases k with
          | zero => simp
          | succ k =>
            have := g7 k (by omega) (by omega)
            simpa using this
      · simp at h

theorem modifyNth_getElem? (l : List Nd) (i : Nat) (f : Nd → Nd) (k : Nat) :
    (modifyNth l i f)[k]? = if k = i then l[k]?.map f else l[k]? := by
  induction l generalizing i k with
  | nil => simp [modifyNth]
  | cons nd rest ih =>
    cases i with
    | zero => cases k <;> simp [modifyNth]
    | succ i =>
      cases k with
      | zero => simp [modifyNth]
      | succ k => simp [modifyNth, ih]

theorem modifyNth_length (l : List Nd) (i : Nat) (f : Nd → Nd) : (modifyNth l i f).length = l.length := by
  induction l generalizing i with
  | nil => simp [modifyNth]
  | cons nd rest ih => cases i <;> simp [modifyNth, ih]

/-- Case analysis of `nodeStep … = some r`: unfolds, splits every branch, and substitutes the result. -/
macro "nstep" h:ident : tactic =>
  `(tactic| (unfold nodeStep at $h:ident
             repeat' (first | contradiction | split at $h:ident)
             all_goals (first | (simp at $h:ident; done) | (simp only [Option.some.injEq] at $h:ident; subst $h:ident))))

/-! ### Conservation: every accepted point is accounted for, in every reachable state -/

/-- Kinds that pass the message on to the child edge. -/
def forwards : Kind → Bool
  | .influx _ | .loop => false
  | _ => true

/-- input edge: collected = still buffered + taken -/
def balIn (nd : Nd) : Prop := nd.ent = nd.inq + nd.got

/-- output side: taken = handed to the output + pending in the node's buffer + lost there -/
def balOut (nd : Nd) : Prop :=
  match nd.kind with
  | .post | .udf => nd.deliv = nd.got
  | .alert _ => nd.got = nd.buf + nd.deliv + nd.lost
  | .influx _ => nd.got = nd.hand + nd.buf + nd.deliv + nd.lost
  | _ => True

/-- forward side: taken = in hand + collected into the child edge + dropped -/
def balFwd (nd c : Nd) : Prop := forwards nd.kind = true → nd.got = nd.hand + c.ent + nd.dropped

theorem nodeStep_kind {env a nd child r} (h : nodeStep env a nd child = some r) : r.nd.kind = nd.kind := by
  nstep h <;> rfl

theorem nodeStep_ent {env a nd child r} (h : nodeStep env a nd child = some r) : r.nd.ent = nd.ent := by
  nstep h <;> rfl

theorem nodeStep_balIn {env a nd child r} (h : nodeStep env a nd child = some r) (hi : balIn nd) : balIn r.nd := by
  unfold balIn at *
  nstep h <;> simp_all <;> omega

theorem nodeStep_balOut {env a nd child r} (h : nodeStep env a nd child = some r) (hi : balOut nd) : balOut r.nd := by
  unfold balOut at *
  nstep h <;> (try (simp_all; done)) <;> (try (simp_all; omega)) <;> (cases hk : nd.kind <;> simp_all <;> omega)

/-- What a node action can do to its child: nothing, one more message in its input edge, or closing that edge. -/
def ChildEff (c c' : Nd) : Prop :=
  c' = c ∨ c' = { c with inq := c.inq + 1, ent := c.ent + 1 } ∨ c' = closeIn c

theorem nodeStep_child_none {env a nd r} (h : nodeStep env a nd none = some r) : r.child = none := by
  nstep h <;> rfl

theorem nodeStep_child {env a nd c r} (h : nodeStep env a nd (some c) = some r) (hf : balFwd nd c) :
    ∃ c', r.child = some c' ∧ ChildEff c c' ∧ balFwd r.nd c' := by
  unfold balFwd ChildEff at *
  nstep h <;> simp_all [forwards, closeIn] <;> (try omega) <;> (try (split <;> simp_all)) <;> (try omega)

theorem ChildEff.balIn {c c' : Nd} (h : ChildEff c c') (hi : balIn c) : balIn c' := by
  unfold ChildEff Kap.C07.balIn closeIn at *
  rcases h with h | h | h <;> subst h <;> (try split) <;> simp_all <;> omega

theorem ChildEff.balOut {c c' : Nd} (h : ChildEff c c') (hi : balOut c) : balOut c' := by
  unfold ChildEff closeIn at *
  rcases h with h | h | h <;> subst h <;> (try split) <;> simpa [Kap.C07.balOut] using hi

theorem ChildEff.balFwd {c c' g : Nd} (h : ChildEff c c') (hi : balFwd c g) : balFwd c' g := by
  unfold ChildEff closeIn at *
  rcases h with h | h | h <;> subst h <;> (try split) <;> simpa [Kap.C07.balFwd] using hi

end Kap.C07
