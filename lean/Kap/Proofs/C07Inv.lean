/-
C07 — helper lemmas: locality of a node action in the chain, and the conservation (accounting) invariant.
-/
import Kap.Model.C07
set_option linter.unusedSimpArgs false
set_option linter.unusedVariables false
namespace Kap.C07

/-! ### A node action touches only node `i` and its child `i+1` -/

theorem stepAt_spec {env : Env} {a : NAct} : ∀ {i : Nat} {ns ns' : List Nd} {l : Bool},
    stepAt env a i ns = some (ns', l) →
    ∃ nd r, ns[i]? = some nd ∧ nodeStep env a nd ns[i+1]? = some r ∧ l = r.looped ∧
      ns'.length = ns.length ∧ ns'[i]? = some r.nd ∧
      (∀ c, ns[i+1]? = some c → ns'[i+1]? = some (r.child.getD c)) ∧
      (∀ k, k ≠ i → k ≠ i + 1 → ns'[k]? = ns[k]?) := by
  intro i ns
  induction ns generalizing i with
  | nil => intro ns' l h; simp [stepAt] at h
  | cons nd rest ih =>
    intro ns' l h
    cases i with
    | zero =>
      cases rest with
      | nil =>
        simp only [stepAt] at h
        split at h
        · rename_i r hr
          simp only [Option.some.injEq, Prod.mk.injEq] at h
          obtain ⟨h1, h2⟩ := h
          subst h1; subst h2
          refine ⟨nd, r, by simp, by simpa using hr, rfl, by simp, by simp, by simp, ?_⟩
          intro k hk0 hk1
          cases k with
          | zero => exact absurd rfl hk0
          | succ k => simp
        · simp at h
      | cons c rest' =>
        simp only [stepAt] at h
        split at h
        · rename_i r hr
          simp only [Option.some.injEq, Prod.mk.injEq] at h
          obtain ⟨h1, h2⟩ := h
          subst h1; subst h2
          refine ⟨nd, r, by simp, by simpa using hr, rfl, by simp, by simp, by simp, ?_⟩
          intro k hk0 hk1
          cases k with
          | zero => exact absurd rfl hk0
          | succ k =>
            cases k with
            | zero => exact absurd rfl hk1
            | succ k => simp
        · simp at h
    | succ i =>
      simp only [stepAt] at h
      split at h
      · rename_i rest' l' hr
        simp only [Option.some.injEq, Prod.mk.injEq] at h
        obtain ⟨h1, h2⟩ := h
        subst h1; subst h2
        obtain ⟨nd0, r, g1, g2, g3, g4, g5, g6, g7⟩ := ih hr
        refine ⟨nd0, r, by simpa using g1, by simpa using g2, g3, by simp [g4], by simpa using g5, ?_, ?_⟩
        · intro c hc
          have := g6 c (by simpa using hc)
          simpa using this
        · intro k hk0 hk1
          cases k with
          | zero => simp
          | succ k =>
            have := g7 k (by omega) (by omega)
            simpa using this
      · simp at h

theorem modifyNth_getElem? (l : List Nd) (i : Nat) (f : Nd → Nd) (k : Nat) :
    (modifyNth l i f)[k]? = if k = i then l[k]?.map f else l[k]? := by
  induction l generalizing i k with
  | nil => simp [modifyNth]
  | cons nd rest ih =>
    cases i with
    | zero => cases k <;> simp [modifyNth]
    | succ i =>
      cases k with
      | zero => simp [modifyNth]
      | succ k => simp [modifyNth, ih]

theorem modifyNth_length (l : List Nd) (i : Nat) (f : Nd → Nd) : (modifyNth l i f).length = l.length := by
  induction l generalizing i with
  | nil => simp [modifyNth]
  | cons nd rest ih => cases i <;> simp [modifyNth, ih]

/-- Case analysis of `nodeStep … = some r`: unfolds, splits every branch, and substitutes the result. -/
macro "nstep" h:ident : tactic =>
  `(tactic| (unfold nodeStep at $h:ident
             repeat' (first | contradiction | split at $h:ident)
             all_goals (first | (simp at $h:ident; done) | (simp only [Option.some.injEq] at $h:ident; subst $h:ident))))

/-! ### Conservation: every accepted point is accounted for, in every reachable state -/

/-- Kinds that pass the message on to the child edge. -/
def forwards : Kind → Bool
  | .influx _ | .loop => false
  | _ => true

/-- input edge: collected = still buffered + taken -/
def balIn (nd : Nd) : Prop := nd.ent = nd.inq + nd.got

/-- output side: taken = handed to the output + pending in the node's buffer + lost there -/
def balOut (nd : Nd) : Prop :=
  match nd.kind with
  | .post | .udf => nd.deliv = nd.got
  | .alert _ => nd.got = nd.buf + nd.deliv + nd.lost
  | .influx _ => nd.got = nd.hand + nd.buf + nd.deliv + nd.lost
  | _ => True

/-- forward side: taken = in hand + collected into the child edge + dropped -/
def balFwd (nd c : Nd) : Prop := forwards nd.kind = true → nd.got = nd.hand + c.ent + nd.dropped

theorem nodeStep_kind {env a nd child r} (h : nodeStep env a nd child = some r) : r.nd.kind = nd.kind := by
  nstep h <;> rfl

theorem nodeStep_ent {env a nd child r} (h : nodeStep env a nd child = some r) : r.nd.ent = nd.ent := by
  nstep h <;> rfl

theorem nodeStep_balIn {env a nd child r} (h : nodeStep env a nd child = some r) (hi : balIn nd) : balIn r.nd := by
  unfold balIn at *
  nstep h <;> simp_all <;> omega

theorem nodeStep_balOut {env a nd child r} (h : nodeStep env a nd child = some r) (hi : balOut nd) : balOut r.nd := by
  unfold balOut at *
  nstep h <;> (try (simp_all; done)) <;> (try (simp_all; omega)) <;> (cases hk : nd.kind <;> simp_all [exitOk] <;> omega)

@[simp] theorem closeIn_kind (c : Nd) : (closeIn c).kind = c.kind := by unfold closeIn; split <;> rfl
@[simp] theorem closeIn_inq (c : Nd) : (closeIn c).inq = c.inq := by unfold closeIn; split <;> rfl
@[simp] theorem closeIn_ent (c : Nd) : (closeIn c).ent = c.ent := by unfold closeIn; split <;> rfl
@[simp] theorem closeIn_inAborted (c : Nd) : (closeIn c).inAborted = c.inAborted := by unfold closeIn; split <;> rfl
@[simp] theorem closeIn_hand (c : Nd) : (closeIn c).hand = c.hand := by unfold closeIn; split <;> rfl
@[simp] theorem closeIn_got (c : Nd) : (closeIn c).got = c.got := by unfold closeIn; split <;> rfl
@[simp] theorem closeIn_deliv (c : Nd) : (closeIn c).deliv = c.deliv := by unfold closeIn; split <;> rfl
@[simp] theorem closeIn_lost (c : Nd) : (closeIn c).lost = c.lost := by unfold closeIn; split <;> rfl
@[simp] theorem closeIn_dropped (c : Nd) : (closeIn c).dropped = c.dropped := by unfold closeIn; split <;> rfl
@[simp] theorem closeIn_buf (c : Nd) : (closeIn c).buf = c.buf := by unfold closeIn; split <;> rfl
@[simp] theorem closeIn_inited (c : Nd) : (closeIn c).inited = c.inited := by unfold closeIn; split <;> rfl
@[simp] theorem closeIn_stopping (c : Nd) : (closeIn c).stopping = c.stopping := by unfold closeIn; split <;> rfl
@[simp] theorem closeIn_helperDone (c : Nd) : (closeIn c).helperDone = c.helperDone := by unfold closeIn; split <;> rfl
@[simp] theorem closeIn_failed (c : Nd) : (closeIn c).failed = c.failed := by unfold closeIn; split <;> rfl
@[simp] theorem closeIn_done (c : Nd) : (closeIn c).done = c.done := by unfold closeIn; split <;> rfl
@[simp] theorem closeIn_fwdDead (c : Nd) : (closeIn c).fwdDead = c.fwdDead := by unfold closeIn; split <;> rfl
@[simp] theorem closeIn_owed (c : Nd) : (closeIn c).owed = c.owed := by unfold closeIn; split <;> rfl
@[simp] theorem closeIn_panicked (c : Nd) : (closeIn c).panicked = c.panicked := by unfold closeIn; split <;> rfl
theorem closeIn_inClosed (c : Nd) : (closeIn c).inClosed = (c.inClosed || !c.inAborted) := by
  unfold closeIn; split <;> simp_all

/-- What a node action can do to its child: nothing, one more message in its input edge, or closing that edge. -/
def ChildEff (c c' : Nd) : Prop :=
  c' = c ∨ c' = { c with inq := c.inq + 1, ent := c.ent + 1 } ∨ c' = closeIn c

theorem nodeStep_child_none {env a nd r} (h : nodeStep env a nd none = some r) : r.child = none := by
  nstep h <;> rfl

theorem nodeStep_child {env a nd c r} (h : nodeStep env a nd (some c) = some r) (hf : balFwd nd c) :
    ∃ c', r.child = some c' ∧ ChildEff c c' ∧ balFwd r.nd c' := by
  unfold balFwd ChildEff at *
  nstep h <;> simp_all [forwards] <;> omega

theorem nodeStep_childEff {env a nd c r} (h : nodeStep env a nd (some c) = some r) :
    ∃ c', r.child = some c' ∧ ChildEff c c' := by
  unfold ChildEff
  nstep h <;> simp_all

/-- Every node of the chain after a node action at `i`: untouched, the acting node, or its child. -/
theorem stepAt_cases {env : Env} {a : NAct} {i : Nat} {ns0 ns : List Nd} {l : Bool}
    (h : stepAt env a i ns0 = some (ns, l)) :
    ∃ nd r, ns0[i]? = some nd ∧ nodeStep env a nd ns0[i+1]? = some r ∧ l = r.looped ∧ ns.length = ns0.length ∧
      ns[i]? = some r.nd ∧ (∀ k, k ≠ i → k ≠ i + 1 → ns[k]? = ns0[k]?) ∧
      ∀ (k : Nat) (x : Nd), ns[k]? = some x →
        (k ≠ i ∧ k ≠ i + 1 ∧ ns0[k]? = some x) ∨ (k = i ∧ x = r.nd) ∨
        (k = i + 1 ∧ ∃ c, ns0[i+1]? = some c ∧ r.child = some x ∧ ChildEff c x) := by
  obtain ⟨nd, r, g1, g2, g3, g4, g5, g6, g7⟩ := stepAt_spec h
  refine ⟨nd, r, g1, g2, g3, g4, g5, g7, ?_⟩
  intro k x hk
  by_cases hki : k = i
  · subst hki; rw [g5] at hk; simp at hk; exact Or.inr (Or.inl ⟨rfl, hk.symm⟩)
  · by_cases hki1 : k = i + 1
    · subst hki1
      cases hc1 : ns0[i+1]? with
      | none =>
        have : ns[i+1]? = none := by
          rw [List.getElem?_eq_none_iff] at hc1 ⊢; omega
        rw [this] at hk; simp at hk
      | some c =>
        rw [hc1] at g2
        obtain ⟨c', e1, e2⟩ := nodeStep_childEff g2
        rw [g6 c hc1, e1] at hk; simp at hk; subst hk
        exact Or.inr (Or.inr ⟨rfl, c, rfl, e1, e2⟩)
    · rw [g7 k hki hki1] at hk
      exact Or.inl ⟨hki, hki1, hk⟩

theorem ChildEff.balIn {c c' : Nd} (h : ChildEff c c') (hi : balIn c) : balIn c' := by
  unfold ChildEff Kap.C07.balIn at *
  rcases h with h | h | h <;> subst h <;> simp_all <;> omega

theorem ChildEff.balOut {c c' : Nd} (h : ChildEff c c') (hi : balOut c) : balOut c' := by
  unfold ChildEff at *
  rcases h with h | h | h <;> subst h <;> simpa [Kap.C07.balOut] using hi

theorem ChildEff.balFwd {c c' g : Nd} (h : ChildEff c c') (hi : balFwd c g) : balFwd c' g := by
  unfold ChildEff at *
  rcases h with h | h | h <;> subst h <;> simpa [Kap.C07.balFwd] using hi

/-- Conservation invariant of a state. -/
structure Cons (s : State) : Prop where
  nodeIn : ∀ (i : Nat) (nd : Nd), s.nodes[i]? = some nd → balIn nd
  nodeOut : ∀ (i : Nat) (nd : Nd), s.nodes[i]? = some nd → balOut nd
  fwd : ∀ (i : Nat) (nd c : Nd), s.nodes[i]? = some nd → s.nodes[i+1]? = some c → balFwd nd c
  src : s.accepted = s.ingest + s.forkHand + s.lostIngest + (s.nodes[0]?.map (·.ent)).getD 0

/-- A change of the node list that keeps the per-node and per-pair balances and the first node's `ent`. -/
theorem Cons.of_nodes {s' : State}
    (h1 : ∀ (i : Nat) (nd' : Nd), s'.nodes[i]? = some nd' → balIn nd' ∧ balOut nd')
    (h2 : ∀ (i : Nat) (nd' c' : Nd), s'.nodes[i]? = some nd' → s'.nodes[i+1]? = some c' → balFwd nd' c')
    (h3 : s'.accepted = s'.ingest + s'.forkHand + s'.lostIngest + (s'.nodes[0]?.map (·.ent)).getD 0) : Cons s' :=
  ⟨fun i nd h => (h1 i nd h).1, fun i nd h => (h1 i nd h).2, h2, h3⟩

theorem cons_modifyNth {s : State} (hc : Cons s) (i : Nat) (f : Nd → Nd)
    (hin : ∀ nd, s.nodes[i]? = some nd → balIn nd → balIn (f nd)) (hout : ∀ nd, s.nodes[i]? = some nd → balOut nd → balOut (f nd))
    (hl : ∀ nd c, s.nodes[i]? = some nd → balFwd nd c → balFwd (f nd) c) (hr : ∀ nd c, s.nodes[i]? = some c → balFwd nd c → balFwd nd (f c))
    (hent : ∀ nd, (f nd).ent = nd.ent) {s' : State} (hn : s'.nodes = modifyNth s.nodes i f)
    (hs : s'.accepted = s.accepted ∧ s'.ingest = s.ingest ∧ s'.forkHand = s.forkHand ∧ s'.lostIngest = s.lostIngest) : Cons s' := by
  have get : ∀ k, s'.nodes[k]? = if k = i then s.nodes[k]?.map f else s.nodes[k]? := by
    intro k; rw [hn]; exact modifyNth_getElem? _ _ _ _
  refine ⟨?_, ?_, ?_, ?_⟩
  · intro k nd hk
    rw [get k] at hk
    split at hk
    · cases hn0 : s.nodes[k]? with
      | none => simp [hn0] at hk
      | some nd0 => simp [hn0] at hk; subst hk; rename_i hki; subst hki; exact hin _ hn0 (hc.nodeIn k nd0 hn0)
    · exact hc.nodeIn k nd hk
  · intro k nd hk
    rw [get k] at hk
    split at hk
    · cases hn0 : s.nodes[k]? with
      | none => simp [hn0] at hk
      | some nd0 => simp [hn0] at hk; subst hk; rename_i hki; subst hki; exact hout _ hn0 (hc.nodeOut k nd0 hn0)
    · exact hc.nodeOut k nd hk
  · intro k nd c hk hk1
    rw [get k] at hk
    rw [get (k+1)] at hk1
    split at hk
    · split at hk1
      · omega
      · cases hn0 : s.nodes[k]? with
        | none => simp [hn0] at hk
        | some nd0 => simp [hn0] at hk; subst hk; rename_i hki _; subst hki; exact hl _ _ hn0 (hc.fwd k nd0 c hn0 hk1)
    · split at hk1
      · cases hn0 : s.nodes[k+1]? with
        | none => simp [hn0] at hk1
        | some c0 => simp [hn0] at hk1; subst hk1; rename_i _ hki; subst hki; exact hr _ _ hn0 (hc.fwd k nd c0 hk hn0)
      · exact hc.fwd k nd c hk hk1
  · rw [hs.1, hs.2.1, hs.2.2.1, hs.2.2.2, hc.src, get 0]
    split
    · cases hn0 : s.nodes[0]? with
      | none => simp
      | some nd0 => simp [hent]
    · rfl

theorem Cons.same_nodes {s s' : State} (hc : Cons s) (hn : s'.nodes = s.nodes)
    (h3 : s'.accepted + s.ingest + s.forkHand + s.lostIngest = s.accepted + s'.ingest + s'.forkHand + s'.lostIngest) : Cons s' := by
  refine ⟨?_, ?_, ?_, ?_⟩
  · intro i nd h; rw [hn] at h; exact hc.nodeIn i nd h
  · intro i nd h; rw [hn] at h; exact hc.nodeOut i nd h
  · intro i nd c h h'; rw [hn] at h h'; exact hc.fwd i nd c h h'
  · have := hc.src; rw [hn]; omega

theorem cons_stopStep {cfg : Cfg} {s s' : State} (h : stopStep cfg s = some s') (hc : Cons s) : Cons s' := by
  unfold stopStep at h
  repeat' (first | contradiction | split at h)
  all_goals (first | (simp at h; done) | (simp only [Option.some.injEq] at h; subst h))
  all_goals (first
    | (exact hc.same_nodes rfl (by simp))
    | (refine cons_modifyNth hc _ _ ?_ ?_ ?_ ?_ ?_ rfl (by simp) <;> intros <;>
        (try (simp_all [balIn, balOut, balFwd]; done)) <;> (try (simp_all [balIn, balOut, balFwd]; omega))))

theorem cons_nodeAct {s : State} {env : Env} {a : NAct} {i : Nat} {ns : List Nd} {l : Bool}
    (h : stepAt env a i s.nodes = some (ns, l)) (hc : Cons s) {s' : State} (hn : s'.nodes = ns)
    (hs : s'.accepted = s.accepted ∧ s'.ingest = s.ingest ∧ s'.forkHand = s.forkHand ∧ s'.lostIngest = s.lostIngest) : Cons s' := by
  obtain ⟨nd, r, g1, g2, _, g4, g5, g6, g7⟩ := stepAt_spec h
  -- the new child
  have hchild : ∀ c, s.nodes[i+1]? = some c → ∃ c', ns[i+1]? = some c' ∧ ChildEff c c' ∧ balFwd r.nd c' := by
    intro c hc1
    rw [hc1] at g2
    obtain ⟨c', e1, e2, e3⟩ := nodeStep_child g2 (hc.fwd i nd c g1 hc1)
    refine ⟨c', ?_, e2, e3⟩
    rw [g6 c hc1, e1]; rfl
  have hnone : s.nodes[i+1]? = none → ns[i+1]? = none := by
    intro h0
    have : ns.length = s.nodes.length := g4
    rw [List.getElem?_eq_none_iff] at h0 ⊢
    omega
  -- every node of the new list
  have hnode : ∀ (k : Nat) (x : Nd), ns[k]? = some x →
      (k ≠ i ∧ k ≠ i + 1 ∧ s.nodes[k]? = some x) ∨ (k = i ∧ x = r.nd) ∨
      (k = i + 1 ∧ ∃ c, s.nodes[i+1]? = some c ∧ ChildEff c x ∧ balFwd r.nd x) := by
    intro k x hk
    by_cases hki : k = i
    · subst hki; rw [g5] at hk; simp at hk; exact Or.inr (Or.inl ⟨rfl, hk.symm⟩)
    · by_cases hki1 : k = i + 1
      · subst hki1
        cases hc1 : s.nodes[i+1]? with
        | none => rw [hnone hc1] at hk; simp at hk
        | some c =>
          obtain ⟨c', e1, e2, e3⟩ := hchild c hc1
          rw [e1] at hk; simp at hk; subst hk
          exact Or.inr (Or.inr ⟨rfl, c, rfl, e2, e3⟩)
      · rw [g7 k hki hki1] at hk
        exact Or.inl ⟨hki, hki1, hk⟩
  refine Cons.of_nodes ?_ ?_ ?_
  · intro k x hk
    rw [hn] at hk
    rcases hnode k x hk with ⟨_, _, h0⟩ | ⟨_, rfl⟩ | ⟨_, c, hc1, e2, _⟩
    · exact ⟨hc.nodeIn k x h0, hc.nodeOut k x h0⟩
    · exact ⟨nodeStep_balIn g2 (hc.nodeIn i nd g1), nodeStep_balOut g2 (hc.nodeOut i nd g1)⟩
    · exact ⟨e2.balIn (hc.nodeIn _ c hc1), e2.balOut (hc.nodeOut _ c hc1)⟩
  · intro k x y hk hk1
    rw [hn] at hk hk1
    rcases hnode k x hk with ⟨hk_i, hk_i1, h0⟩ | ⟨rfl, rfl⟩ | ⟨rfl, c, hc1, e2, _⟩
    · rcases hnode (k+1) y hk1 with ⟨_, _, h1⟩ | ⟨hki, rfl⟩ | ⟨hki, _⟩
      · exact hc.fwd k x y h0 h1
      · -- x is the parent of the acting node: its `ent` is unchanged
        have := hc.fwd k x nd h0 (by rw [hki]; exact g1)
        unfold balFwd at *
        rw [nodeStep_ent g2]; exact this
      · omega
    · rcases hnode (k+1) y hk1 with ⟨_, hk1', _⟩ | ⟨hki, _⟩ | ⟨_, c, hc1, e2, e3⟩
      · omega
      · omega
      · exact e3
    · rcases hnode (i+1+1) y hk1 with ⟨_, _, h1⟩ | ⟨hki, _⟩ | ⟨hki, _⟩
      · exact e2.balFwd (hc.fwd (i+1) c y hc1 h1)
      · omega
      · omega
  · rw [hs.1, hs.2.1, hs.2.2.1, hs.2.2.2, hc.src, hn]
    cases i with
    | zero => rw [g5, g1]; simp [nodeStep_ent g2]
    | succ i => rw [g7 0 (by omega) (by omega)]

/-- **Conservation is preserved by every action.** -/
theorem cons_step {cfg : Cfg} {s s' : State} {a : Act} (h : step cfg s a = some s') (hc : Cons s) : Cons s' := by
  cases a with
  | stop => exact cons_stopStep h hc
  | node i a =>
    simp only [step] at h
    split at h
    · rename_i ns l hst
      simp only [Option.some.injEq] at h; subst h
      exact cons_nodeAct hst hc rfl (by simp)
    · simp at h
  | forkPut =>
    simp only [step] at h
    repeat' (first | contradiction | split at h)
    all_goals (first | (simp at h; done) | (simp only [Option.some.injEq] at h; subst h))
    · exact hc.same_nodes rfl (by simp)
    · exact hc.same_nodes rfl (by dsimp only; omega)
    · rename_i nd rest hnodes _
      have e : s.nodes = modifyNth s.nodes 0 (fun nd => { nd with inq := nd.inq + 1, ent := nd.ent + 1 }) → True := fun _ => trivial
      refine Cons.of_nodes ?_ ?_ ?_
      · intro k x hk
        cases k with
        | zero =>
          simp at hk; subst hk
          have h0 : s.nodes[0]? = some nd := by rw [hnodes]; rfl
          have := hc.nodeIn 0 nd h0; have := hc.nodeOut 0 nd h0
          refine ⟨by unfold balIn at *; simp; omega, by simpa [balOut] using this⟩
        | succ k =>
          have h0 : s.nodes[k+1]? = some x := by rw [hnodes]; simpa using hk
          exact ⟨hc.nodeIn _ x h0, hc.nodeOut _ x h0⟩
      · intro k x y hk hk1
        have h1 : s.nodes[k+1]? = some y := by rw [hnodes]; simpa using hk1
        cases k with
        | zero =>
          simp at hk; subst hk
          have h0 : s.nodes[0]? = some nd := by rw [hnodes]; rfl
          simpa [balFwd] using hc.fwd 0 nd y h0 h1
        | succ k =>
          have h0 : s.nodes[k+1]? = some x := by rw [hnodes]; simpa using hk
          exact hc.fwd _ x y h0 h1
      · have := hc.src; rw [hnodes] at this; simp only [List.getElem?_cons_zero, Option.map_some, Option.getD_some] at this ⊢; omega
  | write =>
    simp only [step] at h
    split at h
    · simp only [Option.some.injEq] at h; subst h; exact hc.same_nodes rfl (by simp; omega)
    · simp at h
  | forkTake =>
    simp only [step] at h
    repeat' (first | contradiction | split at h)
    all_goals (first | (simp at h; done) | (simp only [Option.some.injEq] at h; subst h))
    · exact hc.same_nodes rfl (by simp; omega)
    · exact hc.same_nodes rfl (by simp)
  | forkLock =>
    simp only [step] at h
    split at h
    · simp only [Option.some.injEq] at h; subst h; exact hc.same_nodes rfl (by simp)
    · simp at h
  | forkDrop =>
    simp only [step] at h
    repeat' (first | contradiction | split at h)
    all_goals (first | (simp at h; done) | (simp only [Option.some.injEq] at h; subst h))
    exact hc.same_nodes rfl (by simp; omega)
  | forkExit =>
    simp only [step] at h
    split at h
    · simp only [Option.some.injEq] at h; subst h; exact hc.same_nodes rfl (by simp)
    · simp at h
  | thrExit =>
    simp only [step] at h
    split at h
    · simp only [Option.some.injEq] at h; subst h; exact hc.same_nodes rfl (by simp)
    · simp at h

/-- Points inside node `nd` that have not reached its child edge: input backlog, in hand, dropped on the forward side. -/
def pending (nd : Nd) : Nat := nd.inq + nd.hand + nd.dropped

/-- Points held (or dropped) by the nodes before position `j`. -/
def upstream (ns : List Nd) : Nat → Nat
  | 0 => 0
  | j + 1 => upstream ns j + ((ns[j]?.map pending).getD 0)

/-- Every accepted point is either lost at the fork, still in the ingest stage, inside a node before `j`,
or has been collected into the input edge of node `j`. -/
theorem cons_ent {s : State} (hc : Cons s) : ∀ (j : Nat) (nd : Nd), s.nodes[j]? = some nd →
    (∀ (i : Nat) (x : Nd), i < j → s.nodes[i]? = some x → forwards x.kind = true) →
    s.accepted = s.lostIngest + s.ingest + s.forkHand + upstream s.nodes j + nd.ent := by
  intro j
  induction j with
  | zero =>
    intro nd hj _
    have := hc.src
    rw [hj] at this
    simp only [Option.map_some, Option.getD_some] at this
    simp only [upstream]; omega
  | succ j ih =>
    intro c hj1 hfw
    cases hj : s.nodes[j]? with
    | none =>
      rw [List.getElem?_eq_none_iff] at hj
      have : s.nodes[j+1]? = none := by rw [List.getElem?_eq_none_iff]; omega
      rw [this] at hj1; simp at hj1
    | some nd =>
      have h1 := ih nd hj (fun i x hi hx => hfw i x (by omega) hx)
      have h2 := hc.fwd j nd c hj hj1 (hfw j nd (by omega) hj)
      have h3 := hc.nodeIn j nd hj
      unfold balIn at h3
      simp only [upstream, hj, Option.map_some, Option.getD_some, pending]
      omega

end Kap.C07
