/-
C07 — helper lemmas: the protocol invariant behind deadlock freedom (who has closed / aborted / joined what,
relative to the position of the stopping goroutine) and the liveness lemma: in a chain without loopback
nodes (repaired code, cap ≥ 1) a state in which no action is enabled is a completely stopped state.
-/
import Kap.Proofs.C07Lossless
set_option linter.unusedSimpArgs false
set_option linter.unusedVariables false
namespace Kap.C07

def isAlert : Kind → Bool | .alert _ => true | _ => false
def isInflux : Kind → Bool | .influx _ => true | _ => false
def isUdf : Kind → Bool | .udf => true | _ => false
def isLoop : Kind → Bool | .loop => true | _ => false
/-- kinds whose node goroutine closes an output buffer and waits for the helper that empties it, on its way out -/
def bufK (k : Kind) : Bool := isAlert k || isInflux k
/-- influx nodes whose write buffer is stopped by the STOPPING goroutine: none in the repaired code -/
def oldInflux (_ : Kind) : Bool := false

/-- Node-local protocol facts. -/
structure DNode (nd : Nd) : Prop where
  hand1 : nd.hand ≤ 1
  ab : nd.inAborted = true → nd.done = true ∧ nd.failed = true
  fa : nd.done = true → nd.failed = true → nd.inAborted = true
  dn : nd.done = true → nd.failed = false → nd.inClosed = true ∨ (isUdf nd.kind = true ∧ nd.stopping = true)
  fh : nd.failed = true → nd.hand = 0
  al : isAlert nd.kind = true → (nd.hand = 1 ∨ nd.failed = true ∨ nd.stopping = true) → nd.inited = true
  ah : bufK nd.kind = true → nd.helperDone = true → nd.stopping = true
  ad : bufK nd.kind = true → nd.done = true → nd.helperDone = true
  as : bufK nd.kind = true → nd.stopping = true → nd.failed = false → nd.hand = 0 ∧ nd.inq = 0 ∧ nd.inClosed = true
  nh : nd.kind.hasHelper = false → nd.helperDone = true
  ih : isInflux nd.kind = true → nd.helperDone = true → nd.stopping = true
  nl : isLoop nd.kind = false
  fd : nd.fwdDead = false
  bd : isBarrier nd.kind = true → nd.done = true → nd.helperDone = true

/-- Producer/consumer facts of an edge. -/
def DPair (nd c : Nd) : Prop := (nd.done = true → c.inClosed = true ∨ c.inAborted = true) ∧ (c.inClosed = true → nd.done = true)

set_option maxHeartbeats 4000000 in
theorem nodeStep_DNode {env a nd child r} (h : nodeStep env a nd child = some r) (hd : DNode nd)
    (hleak : env.alertLeak = false) (hea : env.influxEarlyAbort = false) (hfo : env.udfFwdOrphan = false) : DNode r.nd := by
  obtain ⟨h1, ab, fa, dn, fh, al, ah, ad, as, nh, ih, nl, fd, bd⟩ := hd
  have hstop : bufK nd.kind = true → nd.failed = false → (0 < nd.inq ∨ nd.hand = 1) → nd.stopping = false := by
    intro a b c
    cases hs : nd.stopping with
    | false => rfl
    | true => have := as a hs b; omega
  nstep h
  all_goals (first
    | (exfalso; simp_all [isLoop, isUdf]; done)
    | (constructor <;> simp_all [bufK, isAlert, isInflux, isUdf, isLoop, isBarrier, Kind.hasHelper, exitOk, exitFailedOk] <;> (try omega) <;>
        (try (cases hs : nd.stopping <;> simp_all <;> done)) <;> (try grind) <;>
        (cases hk : nd.kind <;> simp_all [bufK, isAlert, isInflux, isUdf, isLoop, isBarrier, Kind.hasHelper] <;> (first | omega | grind))))

end Kap.C07
