/-
C07 — helper lemmas (continued): effects of a node action on its child, the global protocol invariant and its
preservation, the liveness lemma.
-/
import Kap.Proofs.C07Live
set_option linter.unusedSimpArgs false
set_option linter.unusedVariables false
namespace Kap.C07

theorem nodeStep_inAborted_mono {env a nd child r} (h : nodeStep env a nd child = some r) (hd : nd.inAborted = true) : r.nd.inAborted = true := by
  nstep h <;> simp_all

theorem nodeStep_stopping {env a nd child r} (h : nodeStep env a nd child = some r) (hk : isAlert nd.kind = false)
    (hi : isInflux nd.kind = false) : r.nd.stopping = nd.stopping := by
  nstep h <;> simp_all [isAlert, isInflux]

theorem nodeStep_helperDone_mono {env a nd child r} (h : nodeStep env a nd child = some r) (hd : nd.helperDone = true) : r.nd.helperDone = true := by
  nstep h <;> simp_all

/-- The three things a node action does to its child, with what they say about the acting node. -/
theorem nodeStep_childEff' {env a nd c r} (h : nodeStep env a nd (some c) = some r) :
    ∃ c', r.child = some c' ∧
      ((c' = c ∧ r.nd.done = nd.done) ∨
       (c' = { c with inq := c.inq + 1, ent := c.ent + 1 } ∧ nd.done = false ∧ r.nd.done = false ∧ c.inq < env.cap) ∨
       (c' = closeIn c ∧ r.nd.done = true)) := by
  nstep h <;> simp_all

theorem child_D {nd c c' : Nd} {rdone : Bool}
    (he : (c' = c ∧ rdone = nd.done) ∨ (c' = { c with inq := c.inq + 1, ent := c.ent + 1 } ∧ nd.done = false ∧ rdone = false) ∨
      (c' = closeIn c ∧ rdone = true))
    (hp : DPair nd c) (hc : DNode c) :
    DNode c' ∧ (rdone = true → c'.inClosed = true ∨ c'.inAborted = true) ∧ (c'.inClosed = true → rdone = true) := by
  obtain ⟨h1, ab, fa, dn, fh, al, ah, ad, as, nh, ih, nl, fd, bd⟩ := hc
  unfold DPair at hp
  rcases he with ⟨rfl, e⟩ | ⟨rfl, e1, e2⟩ | ⟨rfl, e⟩
  · subst e; exact ⟨⟨h1, ab, fa, dn, fh, al, ah, ad, as, nh, ih, nl, fd, bd⟩, hp.1, hp.2⟩
  · have hncl : c.inClosed = false := by
      cases hcl : c.inClosed with
      | false => rfl
      | true => have := hp.2 hcl; simp_all
    refine ⟨⟨?_, ?_, ?_, ?_, ?_, ?_, ?_, ?_, ?_, ?_, ?_, ?_, ?_, ?_⟩, ?_, ?_⟩ <;> simp_all <;> (try grind)
  · refine ⟨⟨?_, ?_, ?_, ?_, ?_, ?_, ?_, ?_, ?_, ?_, ?_, ?_, ?_, ?_⟩, ?_, ?_⟩ <;> simp_all [closeIn_inClosed] <;> (try grind)

theorem ChildEff'.facts {c c' : Nd} {cap : Nat} {nddone rdone : Bool}
    (he : (c' = c ∧ rdone = nddone) ∨ (c' = { c with inq := c.inq + 1, ent := c.ent + 1 } ∧ nddone = false ∧ rdone = false ∧ c.inq < cap) ∨
      (c' = closeIn c ∧ rdone = true)) :
    c'.done = c.done ∧ c'.kind = c.kind ∧ c'.stopping = c.stopping ∧ c'.helperDone = c.helperDone ∧ c'.inAborted = c.inAborted ∧
      (c.inClosed = true → c'.inClosed = true) := by
  rcases he with ⟨rfl, _⟩ | ⟨rfl, _⟩ | ⟨rfl, _⟩ <;> simp [closeIn_inClosed] <;> (intro h; simp [h])

def doneBy : Ph → Nat → Bool
  | .stopF i, k | .flushed i, k | .wbWait i, k | .wait i, k => decide (k < i)
  | .wgWait, _ | .unlock, _ | .finished, _ => true
  | _, _ => false

def abortedBy : Ph → Nat → Bool
  | .stopF i, k | .flushed i, k => decide (k < i)
  | .wbWait i, k | .wait i, k => decide (k ≤ i)
  | .wgWait, _ | .unlock, _ | .finished, _ => true
  | _, _ => false

def joinedBy : Ph → Nat → Bool
  | .stopF i, k | .flushed i, k | .wbWait i, k => decide (k < i)
  | .wait i, k => decide (k ≤ i)
  | .wgWait, _ | .unlock, _ | .finished, _ => true
  | _, _ => false

def Ph.idx : Ph → Option Nat
  | .stopF i | .flushed i | .wbWait i | .wait i => some i
  | _ => none

/-- The protocol invariant. -/
structure DInv (s : State) : Prop where
  nodes : ∀ (i : Nat) (nd : Nd), s.nodes[i]? = some nd → DNode nd
  pairs : ∀ (i : Nat) (nd c : Nd), s.nodes[i]? = some nd → s.nodes[i+1]? = some c → DPair nd c
  first : ∀ nd, s.nodes[0]? = some nd →
    (nd.inClosed = true → s.registered = false) ∧ (5 ≤ rank s.ph → nd.inClosed = true ∨ nd.inAborted = true)
  doneP : ∀ (k : Nat) (nd : Nd), s.nodes[k]? = some nd → doneBy s.ph k = true → nd.done = true
  stopP : ∀ (k : Nat) (nd : Nd), s.nodes[k]? = some nd → (oldInflux nd.kind || isUdf nd.kind) = true →
    (nd.stopping = true ↔ abortedBy s.ph k = true)
  joinP : ∀ (k : Nat) (nd : Nd), s.nodes[k]? = some nd → oldInflux nd.kind = true → joinedBy s.ph k = true → nd.helperDone = true
  idxV : ∀ i, s.ph.idx = some i → i < s.nodes.length
  flK : ∀ (i : Nat), s.ph ≠ .flushed i ∧ s.ph ≠ .wbWait i
  lk : rank s.ph ≤ 3 → s.lockHeld = false
  ets : 6 ≤ rank s.ph → s.etStopping = true
  thr : 8 ≤ rank s.ph → s.thrDone = true
  ic : s.ph = .waitFork → s.ingestClosed = true
  frl : s.forkRL = true → s.forkHand = 1 ∨ s.forkLoop = 1
  fh1 : s.forkHand ≤ 1 ∧ s.forkLoop ≤ 1

theorem dinv_nodeAct {cfg} {s s' : State} {i : Nat} {a : NAct} (h : step cfg s (.node i a) = some s')
    (hleak : cfg.alertLeak = false) (hea : cfg.influxEarlyAbort = false) (hfo : cfg.udfFwdOrphan = false) (hd : DInv s) : DInv s' := by
  simp only [step] at h
  split at h
  case h_2 => simp at h
  rename_i ns l hst
  simp only [Option.some.injEq] at h
  obtain ⟨nd, r, g1, g2, g3, g4, g5, g7, hnode⟩ := stepAt_cases hst
  have hDnd := hd.nodes i nd g1
  have hnodes' : s'.nodes = ns := by rw [← h]
  have hph : s'.ph = s.ph := by rw [← h]
  have hr : DNode r.nd := nodeStep_DNode g2 hDnd (by simp [env, hleak]) (by simp [env, hea]) (by simp [env, hfo])
  -- facts about the child
  have hchild : ∀ c x, s.nodes[i+1]? = some c → r.child = some x →
      DNode x ∧ DPair r.nd x ∧ x.done = c.done ∧ x.kind = c.kind ∧ x.stopping = c.stopping ∧ x.helperDone = c.helperDone ∧
        x.inAborted = c.inAborted ∧ (c.inClosed = true → x.inClosed = true) := by
    intro c x hc1 hx
    rw [hc1] at g2
    obtain ⟨c', e1, e2⟩ := nodeStep_childEff' g2
    rw [hx] at e1; simp only [Option.some.injEq] at e1; subst e1
    have hD := child_D (rdone := r.nd.done) (nd := nd) (by
      rcases e2 with ⟨a, b⟩ | ⟨a, b, c, _⟩ | ⟨a, b⟩
      · exact Or.inl ⟨a, b⟩
      · exact Or.inr (Or.inl ⟨a, b, c⟩)
      · exact Or.inr (Or.inr ⟨a, b⟩)) (hd.pairs i nd c g1 hc1) (hd.nodes _ c hc1)
    have hf := ChildEff'.facts e2
    exact ⟨hD.1, ⟨hD.2.1, hD.2.2⟩, hf⟩
  refine ⟨?_, ?_, ?_, ?_, ?_, ?_, ?_, ?_, ?_, ?_, ?_, ?_, ?_, ?_⟩
  · intro k x hk
    rw [hnodes'] at hk
    rcases hnode k x hk with ⟨_, _, h0⟩ | ⟨_, rfl⟩ | ⟨_, c, hc1, e1, _⟩
    · exact hd.nodes k x h0
    · exact hr
    · exact (hchild c x hc1 e1).1
  · intro k x y hk hk1
    rw [hnodes'] at hk hk1
    rcases hnode k x hk with ⟨hk_i, hk_i1, h0⟩ | ⟨rfl, rfl⟩ | ⟨rfl, c, hc1, e1, e2⟩
    · rcases hnode (k+1) y hk1 with ⟨_, _, h1⟩ | ⟨hki, rfl⟩ | ⟨hki, _⟩
      · exact hd.pairs k x y h0 h1
      · have hp := hd.pairs k x nd h0 (by rw [hki]; exact g1)
        unfold DPair at *
        rw [nodeStep_inClosed g2]
        refine ⟨fun hx => ?_, hp.2⟩
        rcases hp.1 hx with h' | h'
        · exact Or.inl h'
        · exact Or.inr (nodeStep_inAborted_mono g2 h')
      · omega
    · rcases hnode (k+1) y hk1 with ⟨_, hk1', _⟩ | ⟨hki, _⟩ | ⟨_, c, hc1, e1, _⟩
      · omega
      · omega
      · exact (hchild c y hc1 e1).2.1
    · rcases hnode (i+1+1) y hk1 with ⟨_, _, h1⟩ | ⟨hki, _⟩ | ⟨hki, _⟩
      · have hp := hd.pairs (i+1) c y hc1 h1
        have hf := hchild c x hc1 e1
        unfold DPair at *
        rw [hf.2.2.1]; exact hp
      · omega
      · omega
  · intro x hx
    rw [hnodes'] at hx
    have hreg : s'.registered = s.registered := by rw [← h]
    rw [hreg, hph]
    rcases hnode 0 x hx with ⟨_, _, h0⟩ | ⟨hki, rfl⟩ | ⟨hki, _⟩
    · exact hd.first x h0
    · have hf := hd.first nd (by rw [hki]; exact g1)
      rw [nodeStep_inClosed g2]
      refine ⟨hf.1, fun h5 => ?_⟩
      rcases hf.2 h5 with h' | h'
      · exact Or.inl h'
      · exact Or.inr (nodeStep_inAborted_mono g2 h')
    · omega
  · intro k x hk hdb
    rw [hnodes'] at hk; rw [hph] at hdb
    rcases hnode k x hk with ⟨_, _, h0⟩ | ⟨rfl, rfl⟩ | ⟨rfl, c, hc1, e1, _⟩
    · exact hd.doneP k x h0 hdb
    · exact nodeStep_done_mono g2 (hd.doneP k nd g1 hdb)
    · rw [(hchild c x hc1 e1).2.2.1]; exact hd.doneP _ c hc1 hdb
  · intro k x hk hkind
    rw [hnodes'] at hk; rw [hph]
    rcases hnode k x hk with ⟨_, _, h0⟩ | ⟨rfl, rfl⟩ | ⟨rfl, c, hc1, e1, _⟩
    · exact hd.stopP k x h0 hkind
    · rw [nodeStep_kind g2] at hkind
      have hna : isAlert nd.kind = false := by cases hk : nd.kind <;> simp_all [isAlert, oldInflux, isUdf]
      have hni : isInflux nd.kind = false := by cases hk : nd.kind <;> simp_all [isInflux, oldInflux, isUdf]
      rw [nodeStep_stopping g2 hna hni]
      exact hd.stopP k nd g1 hkind
    · have hf := hchild c x hc1 e1
      rw [hf.2.2.2.1] at hkind
      rw [hf.2.2.2.2.1]
      exact hd.stopP _ c hc1 hkind
  · intro k x hk hkind hj
    rw [hnodes'] at hk; rw [hph] at hj
    rcases hnode k x hk with ⟨_, _, h0⟩ | ⟨rfl, rfl⟩ | ⟨rfl, c, hc1, e1, _⟩
    · exact hd.joinP k x h0 hkind hj
    · rw [nodeStep_kind g2] at hkind
      exact nodeStep_helperDone_mono g2 (hd.joinP k nd g1 hkind hj)
    · have hf := hchild c x hc1 e1
      rw [hf.2.2.2.1] at hkind
      rw [hf.2.2.2.2.2.1]
      exact hd.joinP _ c hc1 hkind hj
  · intro j hj; rw [hph] at hj; rw [hnodes', g4]; exact hd.idxV j hj
  · rw [hph]; exact hd.flK
  · rw [hph]; intro h3; have := hd.lk h3; rw [← h]; exact this
  · rw [hph]; intro h3; have := hd.ets h3; rw [← h]; exact this
  · rw [hph]; intro h3; have := hd.thr h3; rw [← h]; exact this
  · rw [hph]; intro h3; have := hd.ic h3; rw [← h]; exact this
  · intro h3
    have e1 : s'.forkRL = s.forkRL := by rw [← h]
    have e2 : s'.forkHand = s.forkHand := by rw [← h]
    have e3 : s'.forkLoop = s.forkLoop := by rw [← h]
    rw [e2, e3]; exact hd.frl (by rw [← e1]; exact h3)
  · have e2 : s'.forkHand = s.forkHand := by rw [← h]
    have e3 : s'.forkLoop = s.forkLoop := by rw [← h]
    rw [e2, e3]; exact hd.fh1

/-- The stopping goroutine modifies node `i` (flush / close w.stopping / abort the UDF) and moves on. -/
theorem dinv_modify_at {s s' : State} (hd : DInv s) (i : Nat) (f : Nd → Nd)
    (hn : s'.nodes = modifyNth s.nodes i f)
    (hf : ∀ nd, (f nd).done = nd.done ∧ (f nd).kind = nd.kind ∧ (f nd).helperDone = nd.helperDone ∧
      (f nd).inAborted = nd.inAborted ∧ (f nd).inClosed = nd.inClosed)
    (hD : ∀ nd, s.nodes[i]? = some nd → DNode (f nd))
    (hstop : ∀ nd, s.nodes[i]? = some nd → (oldInflux nd.kind || isUdf nd.kind) = true →
      ((f nd).stopping = true ↔ abortedBy s'.ph i = true))
    (hab : ∀ k, k ≠ i → abortedBy s'.ph k = abortedBy s.ph k)
    (hdone : ∀ k, doneBy s'.ph k = doneBy s.ph k)
    (hjoin : ∀ k nd, s.nodes[k]? = some nd → oldInflux nd.kind = true → joinedBy s'.ph k = true → joinedBy s.ph k = true)
    (hreg : s'.registered = s.registered) (hrank : rank s'.ph = rank s.ph)
    (hidx : ∀ j, s'.ph.idx = some j → j < s.nodes.length)
    (hfl : ∀ j, s'.ph ≠ .flushed j ∧ s'.ph ≠ .wbWait j)
    (hglob : s'.lockHeld = s.lockHeld ∧ s'.etStopping = s.etStopping ∧ s'.thrDone = s.thrDone ∧ s'.forkRL = s.forkRL ∧
      s'.forkHand = s.forkHand ∧ s'.forkLoop = s.forkLoop)
    (hwf : s'.ph ≠ .waitFork) : DInv s' := by
  have get : ∀ k, s'.nodes[k]? = if k = i then s.nodes[k]?.map f else s.nodes[k]? := by
    intro k; rw [hn]; exact modifyNth_getElem? _ _ _ _
  -- every node of the new list comes from the node at the same place
  have hget : ∀ k x, s'.nodes[k]? = some x → ∃ x0, s.nodes[k]? = some x0 ∧ ((k = i ∧ x = f x0) ∨ (k ≠ i ∧ x = x0)) := by
    intro k x hk
    rw [get k] at hk
    split at hk
    · cases h0 : s.nodes[k]? with
      | none => simp [h0] at hk
      | some x0 => simp [h0] at hk; exact ⟨x0, rfl, Or.inl ⟨by assumption, hk.symm⟩⟩
    · exact ⟨x, hk, Or.inr ⟨by assumption, rfl⟩⟩
  refine ⟨?_, ?_, ?_, ?_, ?_, ?_, ?_, ?_, ?_, ?_, ?_, ?_, ?_, ?_⟩
  · intro k x hk
    obtain ⟨x0, h0, ⟨rfl, rfl⟩ | ⟨_, rfl⟩⟩ := hget k x hk
    · exact hD x0 h0
    · exact hd.nodes k x h0
  · intro k x y hk hk1
    obtain ⟨x0, h0, hx⟩ := hget k x hk
    obtain ⟨y0, h1, hy⟩ := hget (k+1) y hk1
    have hp := hd.pairs k x0 y0 h0 h1
    unfold DPair at *
    have ex : x.done = x0.done := by rcases hx with ⟨_, e⟩ | ⟨_, e⟩ <;> simp [e, (hf x0).1]
    have ey : y.inClosed = y0.inClosed ∧ y.inAborted = y0.inAborted := by
      rcases hy with ⟨_, e⟩ | ⟨_, e⟩ <;> simp [e, (hf y0).2.2.2.1, (hf y0).2.2.2.2]
    rw [ex, ey.1, ey.2]; exact hp
  · intro x hx
    obtain ⟨x0, h0, hx'⟩ := hget 0 x hx
    have hfi := hd.first x0 h0
    have ex : x.inClosed = x0.inClosed ∧ x.inAborted = x0.inAborted := by
      rcases hx' with ⟨_, e⟩ | ⟨_, e⟩ <;> simp [e, (hf x0).2.2.2.1, (hf x0).2.2.2.2]
    rw [ex.1, ex.2, hreg, hrank]; exact hfi
  · intro k x hk hdb
    obtain ⟨x0, h0, hx⟩ := hget k x hk
    rw [hdone k] at hdb
    have := hd.doneP k x0 h0 hdb
    rcases hx with ⟨_, rfl⟩ | ⟨_, rfl⟩
    · rw [(hf x0).1]; exact this
    · exact this
  · intro k x hk hkind
    obtain ⟨x0, h0, hx⟩ := hget k x hk
    rcases hx with ⟨rfl, rfl⟩ | ⟨hne, rfl⟩
    · rw [(hf x0).2.1] at hkind
      exact hstop x0 h0 hkind
    · rw [hab k hne]; exact hd.stopP k x h0 hkind
  · intro k x hk hkind hj
    obtain ⟨x0, h0, hx⟩ := hget k x hk
    have hk0 : oldInflux x0.kind = true := by
      rcases hx with ⟨_, rfl⟩ | ⟨_, rfl⟩
      · rw [(hf x0).2.1] at hkind; exact hkind
      · exact hkind
    have := hd.joinP k x0 h0 hk0 (hjoin k x0 h0 hk0 hj)
    rcases hx with ⟨_, rfl⟩ | ⟨_, rfl⟩
    · rw [(hf x0).2.2.1]; exact this
    · exact this
  · intro j hj; rw [hn, modifyNth_length]; exact hidx j hj
  · exact hfl
  · rw [hrank, hglob.1]; exact hd.lk
  · rw [hrank, hglob.2.1]; exact hd.ets
  · rw [hrank, hglob.2.2.1]; exact hd.thr
  · intro h; exact absurd h hwf
  · rw [hglob.2.2.2.1, hglob.2.2.2.2.1, hglob.2.2.2.2.2]; exact hd.frl
  · rw [hglob.2.2.2.2.1, hglob.2.2.2.2.2]; exact hd.fh1

/-- A transition that leaves the nodes alone. -/
theorem dinv_phase {s s' : State} (hd : DInv s) (hn : s'.nodes = s.nodes)
    (hfirst : ∀ nd, s.nodes[0]? = some nd →
      (nd.inClosed = true → s'.registered = false) ∧ (5 ≤ rank s'.ph → nd.inClosed = true ∨ nd.inAborted = true))
    (hdone : ∀ k nd, s.nodes[k]? = some nd → doneBy s'.ph k = true → nd.done = true)
    (hstop : ∀ k nd, s.nodes[k]? = some nd → (oldInflux nd.kind || isUdf nd.kind) = true → abortedBy s'.ph k = abortedBy s.ph k)
    (hjoin : ∀ k nd, s.nodes[k]? = some nd → oldInflux nd.kind = true → joinedBy s'.ph k = true → nd.helperDone = true)
    (hidx : ∀ j, s'.ph.idx = some j → j < s.nodes.length)
    (hfl : ∀ j, s'.ph ≠ .flushed j ∧ s'.ph ≠ .wbWait j)
    (lk : rank s'.ph ≤ 3 → s'.lockHeld = false) (ets : 6 ≤ rank s'.ph → s'.etStopping = true)
    (thr : 8 ≤ rank s'.ph → s'.thrDone = true) (ic : s'.ph = .waitFork → s'.ingestClosed = true)
    (frl : s'.forkRL = true → s'.forkHand = 1 ∨ s'.forkLoop = 1) (fh1 : s'.forkHand ≤ 1 ∧ s'.forkLoop ≤ 1) : DInv s' := by
  refine ⟨?_, ?_, ?_, ?_, ?_, ?_, ?_, ?_, lk, ets, thr, ic, frl, fh1⟩
  · intro k x hk; rw [hn] at hk; exact hd.nodes k x hk
  · intro k x y hk hk1; rw [hn] at hk hk1; exact hd.pairs k x y hk hk1
  · intro x hx; rw [hn] at hx; exact hfirst x hx
  · intro k x hk; rw [hn] at hk; exact hdone k x hk
  · intro k x hk hkind; rw [hn] at hk; rw [hstop k x hk hkind]; exact hd.stopP k x hk hkind
  · intro k x hk; rw [hn] at hk; exact hjoin k x hk
  · intro j hj; rw [hn]; exact hidx j hj
  · exact hfl

theorem DNode.closeIn {nd} (h : DNode nd) : DNode (closeIn nd) := by
  obtain ⟨h1, ab, fa, dn, fh, al, ah, ad, as, nh, ih, nl, fd, bd⟩ := h
  constructor <;> simp_all [closeIn_inClosed] <;> (try grind)

theorem dinv_stopStep {cfg} {s s' : State} (h : stopStep cfg s = some s') (hea : cfg.influxEarlyAbort = false)
    (hd : DInv s) : DInv s' := by
  cases hph : s.ph with
  | idle =>
    simp only [stopStep, hph] at h
    simp only [Option.some.injEq] at h; subst h
    have hlk := hd.lk (by simp [hph, rank])
    refine dinv_phase hd rfl ?_ ?_ ?_ ?_ ?_ ?_ ?_ ?_ ?_ ?_ hd.frl hd.fh1
    · intro nd h0; have := hd.first nd h0; refine ⟨this.1, ?_⟩; split <;> simp [rank]
    all_goals (split <;> simp_all [doneBy, abortedBy, joinedBy, Ph.idx, rank])
  | closeIngest =>
    simp only [stopStep, hph] at h
    simp only [Option.some.injEq] at h; subst h
    have hlk := hd.lk (by simp [hph, rank])
    refine dinv_phase hd rfl ?_ ?_ ?_ ?_ ?_ ?_ ?_ ?_ ?_ ?_ hd.frl hd.fh1
    · intro nd h0; have := hd.first nd h0; exact ⟨this.1, by simp [rank]⟩
    all_goals (simp_all [doneBy, abortedBy, joinedBy, Ph.idx, rank])
  | waitFork =>
    simp only [stopStep, hph] at h
    split at h
    · simp only [Option.some.injEq] at h; subst h
      have hlk := hd.lk (by simp [hph, rank])
      refine dinv_phase hd rfl ?_ ?_ ?_ ?_ ?_ ?_ ?_ ?_ ?_ ?_ hd.frl hd.fh1
      · intro nd h0; have := hd.first nd h0; exact ⟨this.1, by simp [rank]⟩
      all_goals (simp_all [doneBy, abortedBy, joinedBy, Ph.idx, rank])
    · simp at h
  | wantLock =>
    simp only [stopStep, hph] at h
    split at h
    · simp only [Option.some.injEq] at h; subst h
      refine dinv_phase hd rfl ?_ ?_ ?_ ?_ ?_ ?_ ?_ ?_ ?_ ?_ hd.frl hd.fh1
      · intro nd h0; have := hd.first nd h0; exact ⟨this.1, by simp [rank]⟩
      all_goals (simp_all [doneBy, abortedBy, joinedBy, Ph.idx, rank])
    · simp at h
  | wgWait =>
    simp only [stopStep, hph] at h
    split at h
    · simp only [Option.some.injEq] at h; subst h
      have := hd.ets (by simp [hph, rank])
      refine dinv_phase hd rfl ?_ ?_ ?_ ?_ ?_ ?_ ?_ ?_ ?_ ?_ hd.frl hd.fh1
      · intro nd h0; have := hd.first nd h0; rw [hph] at this; exact ⟨this.1, fun _ => this.2 (by simp [rank])⟩
      · intro k nd hk _; exact hd.doneP k nd hk (by simp [hph, doneBy])
      · intro k nd hk _; simp [hph, abortedBy]
      · intro k nd hk hki _; exact hd.joinP k nd hk hki (by simp [hph, joinedBy])
      all_goals (simp_all [doneBy, abortedBy, joinedBy, Ph.idx, rank])
    · simp at h
  | unlock =>
    simp only [stopStep, hph] at h
    simp only [Option.some.injEq] at h; subst h
    have := hd.ets (by simp [hph, rank])
    have := hd.thr (by simp [hph, rank])
    refine dinv_phase hd rfl ?_ ?_ ?_ ?_ ?_ ?_ ?_ ?_ ?_ ?_ hd.frl hd.fh1
    · intro nd h0; have := hd.first nd h0; rw [hph] at this; exact ⟨this.1, fun _ => this.2 (by simp [rank])⟩
    · intro k nd hk _; exact hd.doneP k nd hk (by simp [hph, doneBy])
    · intro k nd hk _; simp [hph, abortedBy]
    · intro k nd hk hki _; exact hd.joinP k nd hk hki (by simp [hph, joinedBy])
    all_goals (simp_all [doneBy, abortedBy, joinedBy, Ph.idx, rank])
  | finished => simp [stopStep, hph] at h
  | delFork =>
    simp only [stopStep, hph] at h
    simp only [Option.some.injEq] at h; subst h
    have get : ∀ k, (modifyNth s.nodes 0 Kap.C07.closeIn)[k]? = if k = 0 then s.nodes[k]?.map Kap.C07.closeIn else s.nodes[k]? :=
      fun k => modifyNth_getElem? _ _ _ _
    have hnz : ∀ k x, k ≠ 0 → (modifyNth s.nodes 0 Kap.C07.closeIn)[k]? = some x → s.nodes[k]? = some x := by
      intro k x hk hx; rw [get k] at hx; simpa [hk] using hx
    have hz : ∀ x, (modifyNth s.nodes 0 Kap.C07.closeIn)[0]? = some x → ∃ x0, s.nodes[0]? = some x0 ∧ x = Kap.C07.closeIn x0 := by
      intro x hx; rw [get 0] at hx
      cases h0 : s.nodes[0]? with
      | none => simp [h0] at hx
      | some x0 => simp [h0] at hx; exact ⟨x0, rfl, hx.symm⟩
    refine ⟨?_, ?_, ?_, ?_, ?_, ?_, ?_, ?_, ?_, ?_, ?_, ?_, ?_, ?_⟩
    · intro k x hk
      by_cases hk0 : k = 0
      · subst hk0; obtain ⟨x0, h0, rfl⟩ := hz x hk; exact (hd.nodes 0 x0 h0).closeIn
      · exact hd.nodes k x (hnz k x hk0 hk)
    · intro k x y hk hk1
      have hy := hnz (k+1) y (by omega) hk1
      by_cases hk0 : k = 0
      · subst hk0; obtain ⟨x0, h0, rfl⟩ := hz x hk
        have := hd.pairs 0 x0 y h0 hy
        unfold DPair at *; simpa using this
      · exact hd.pairs k x y (hnz k x hk0 hk) hy
    · intro x hx
      obtain ⟨x0, h0, rfl⟩ := hz x hx
      refine ⟨fun _ => rfl, fun _ => ?_⟩
      rw [closeIn_inClosed, closeIn_inAborted]
      cases x0.inAborted <;> simp
    · intro k x hk hdb; simp [doneBy] at hdb
    · intro k x hk hkind
      have := hd.stopP k
      by_cases hk0 : k = 0
      · subst hk0; obtain ⟨x0, h0, rfl⟩ := hz x hk
        have := hd.stopP 0 x0 h0 (by simpa using hkind)
        simpa [hph, abortedBy] using this
      · have := hd.stopP k x (hnz k x hk0 hk) hkind
        simpa [hph, abortedBy] using this
    · intro k x hk hkind hj; simp [joinedBy] at hj
    · intro j hj; simp [Ph.idx] at hj
    · intro j; simp
    · simp [rank]
    · simp [rank]
    · simp [rank]
    · simp
    · exact hd.frl
    · exact hd.fh1
  | etStop =>
    simp only [stopStep, hph] at h
    simp only [Option.some.injEq] at h; subst h
    by_cases hne : s.nodes.isEmpty = true
    · have hnil : s.nodes = [] := by simpa [List.isEmpty_iff] using hne
      refine dinv_phase hd rfl ?_ ?_ ?_ ?_ ?_ ?_ ?_ ?_ ?_ ?_ hd.frl hd.fh1 <;> simp_all [doneBy, abortedBy, joinedBy, Ph.idx, rank]
    · have hlen : 0 < s.nodes.length := by
        cases hn : s.nodes with
        | nil => simp [hn] at hne
        | cons _ _ => simp
      refine dinv_phase hd rfl ?_ ?_ ?_ ?_ ?_ ?_ ?_ ?_ ?_ ?_ hd.frl hd.fh1
      · intro nd h0; have := hd.first nd h0; rw [hph] at this
        exact ⟨this.1, fun _ => this.2 (by simp [rank])⟩
      all_goals (simp_all [doneBy, abortedBy, joinedBy, Ph.idx, rank])
  | wbWait i => exact absurd hph (hd.flK i).2
  | wait i =>
    simp only [stopStep, afterWait, hph] at h
    repeat' (first | contradiction | split at h)
    all_goals (first | (simp at h; done) | (simp only [Option.some.injEq] at h; subst h))
    all_goals (rename_i ndi hndi hdone hlt)
    all_goals (have hets := hd.ets (by simp [hph, rank]))
    · -- next node
      refine dinv_phase hd rfl ?_ ?_ ?_ ?_ ?_ ?_ ?_ ?_ ?_ ?_ hd.frl hd.fh1
      · intro nd h0; have := hd.first nd h0; rw [hph] at this; exact ⟨this.1, fun _ => this.2 (by simp [rank])⟩
      · intro k nd hk hdb
        simp only [doneBy, decide_eq_true_eq] at hdb
        by_cases hki' : k = i
        · subst hki'; rw [hndi] at hk; simp at hk; subst hk; exact hdone
        · exact hd.doneP k nd hk (by simp [hph, doneBy]; omega)
      · intro k nd hk _; simp [hph, abortedBy]; omega
      · intro k nd hk hki hj
        simp only [joinedBy, decide_eq_true_eq] at hj
        exact hd.joinP k nd hk hki (by simp [hph, joinedBy]; omega)
      · intro j hj; simp [Ph.idx] at hj; omega
      all_goals (simp_all [Ph.idx, rank])
    · -- all nodes stopped
      have hidx := hd.idxV i (by simp [hph, Ph.idx])
      have hall : ∀ k (nd : Nd), s.nodes[k]? = some nd → k ≤ i := by
        intro k nd hk
        have : k < s.nodes.length := by
          rcases Nat.lt_or_ge k s.nodes.length with h | h
          · exact h
          · rw [List.getElem?_eq_none_iff.mpr h] at hk; simp at hk
        omega
      refine dinv_phase hd rfl ?_ ?_ ?_ ?_ ?_ ?_ ?_ ?_ ?_ ?_ hd.frl hd.fh1
      · intro nd h0; have := hd.first nd h0; rw [hph] at this; exact ⟨this.1, fun _ => this.2 (by simp [rank])⟩
      · intro k nd hk _
        by_cases hki' : k = i
        · subst hki'; rw [hndi] at hk; simp at hk; subst hk; exact hdone
        · exact hd.doneP k nd hk (by simp [hph, doneBy]; have := hall k nd hk; omega)
      · intro k nd hk _; simp [hph, abortedBy]; exact hall k nd hk
      · intro k nd hk hki _; exact hd.joinP k nd hk hki (by simp [hph, joinedBy]; exact hall k nd hk)
      all_goals (simp_all [Ph.idx, rank])
  | flushed i => exact absurd hph (hd.flK i).1
  | stopF i =>
    have hidx := hd.idxV i (by simp [hph, Ph.idx])
    cases hndi : s.nodes[i]? with
    | none => simp [stopStep, hph, hndi] at h
    | some ndi =>
    simp only [stopStep, hph, hndi] at h
    have hother : (isUdf ndi.kind = false) → s' = { s with ph := .wait i } → DInv s' := by
      intro hnotudf e; subst e
      have hets := hd.ets (by simp [hph, rank])
      refine dinv_phase hd rfl ?_ ?_ ?_ ?_ ?_ ?_ ?_ ?_ ?_ ?_ hd.frl hd.fh1
      · intro nd h0; have := hd.first nd h0; rw [hph] at this; exact ⟨this.1, fun _ => this.2 (by simp [rank])⟩
      · intro k nd hk hdb; exact hd.doneP k nd hk (by simpa [hph, doneBy] using hdb)
      · intro k nd hk hkk
        simp only [hph, abortedBy]
        by_cases hki' : k = i
        · subst hki'; rw [hndi] at hk; simp at hk; subst hk
          exfalso; simp_all [oldInflux]
        · simp; omega
      · intro k nd hk hki hj
        simp only [joinedBy, decide_eq_true_eq] at hj
        by_cases hki' : k = i
        · subst hki'; rw [hndi] at hk; simp at hk; subst hk
          exfalso; simp_all [oldInflux]
        · exact hd.joinP k nd hk hki (by simp [hph, joinedBy]; omega)
      · intro j hj; simp [Ph.idx] at hj; subst hj; exact hidx
      all_goals (simp_all [Ph.idx, rank])
    cases hkind : ndi.kind with
    | influx B => simp only [hkind, hea] at h; exact hother (by simp [hkind, isUdf]) (by simpa using h.symm)
    | udf =>
      simp only [hkind] at h
      simp only [Option.some.injEq] at h; subst h
      refine dinv_modify_at hd i (fun nd => { nd with stopping := true }) rfl (by intro nd; simp) ?_ ?_ ?_ ?_ ?_ rfl ?_ ?_ ?_ ?_ ?_
      · intro nd hi
        rw [hndi] at hi; simp at hi; subst hi
        obtain ⟨h1, ab, fa, dn, fh, al, ah, ad, as, nh, ih, nl, fd, bd⟩ := hd.nodes i ndi hndi
        constructor <;> simp_all [isAlert, isInflux, isUdf, bufK, isBarrier, isLoop, Kind.hasHelper]
      · intro nd hi _; simp [abortedBy]
      · intro k hk; simp [hph, abortedBy]; omega
      · intro k; simp [hph, doneBy]
      · intro k nd hk hki hj
        simp only [joinedBy, decide_eq_true_eq] at hj
        by_cases hki' : k = i
        · subst hki'; rw [hndi] at hk; simp at hk; subst hk; simp [oldInflux] at hki
        · simp [hph, joinedBy]; omega
      · simp [hph, rank]
      · intro j hj; simp [Ph.idx] at hj; subst hj; exact hidx
      · intro j; simp
      · simp
      · simp
    | pass => simp only [hkind] at h; exact hother (by simp [hkind, isUdf]) (by simpa using h.symm)
    | post => simp only [hkind] at h; exact hother (by simp [hkind, isUdf]) (by simpa using h.symm)
    | alert H => simp only [hkind] at h; exact hother (by simp [hkind, isUdf]) (by simpa using h.symm)
    | fail K => simp only [hkind] at h; exact hother (by simp [hkind, isUdf]) (by simpa using h.symm)
    | loop => simp only [hkind] at h; exact hother (by simp [hkind, isUdf]) (by simpa using h.symm)
    | barrier d => simp only [hkind] at h; exact hother (by simp [hkind, isUdf]) (by simpa using h.symm)

/-- Global actions that leave nodes and phase alone. -/
theorem dinv_glob {s s' : State} (hd : DInv s) (hn : s'.nodes = s.nodes) (hph : s'.ph = s.ph)
    (hreg : s'.registered = s.registered) (hlk : s'.lockHeld = s.lockHeld) (hets : s'.etStopping = s.etStopping)
    (hthr : s.thrDone = true → s'.thrDone = true) (hic : s.ingestClosed = true → s'.ingestClosed = true)
    (frl : s'.forkRL = true → s'.forkHand = 1 ∨ s'.forkLoop = 1) (fh1 : s'.forkHand ≤ 1 ∧ s'.forkLoop ≤ 1) : DInv s' := by
  refine ⟨?_, ?_, ?_, ?_, ?_, ?_, ?_, ?_, ?_, ?_, ?_, ?_, frl, fh1⟩
  · intro k x hk; rw [hn] at hk; exact hd.nodes k x hk
  · intro k x y hk hk1; rw [hn] at hk hk1; exact hd.pairs k x y hk hk1
  · intro x hx; rw [hn] at hx; rw [hreg, hph]; exact hd.first x hx
  · intro k x hk; rw [hn] at hk; rw [hph]; exact hd.doneP k x hk
  · intro k x hk; rw [hn] at hk; rw [hph]; exact hd.stopP k x hk
  · intro k x hk; rw [hn] at hk; rw [hph]; exact hd.joinP k x hk
  · intro j hj; rw [hn]; rw [hph] at hj; exact hd.idxV j hj
  · rw [hph]; exact hd.flK
  · rw [hph, hlk]; exact hd.lk
  · rw [hph, hets]; exact hd.ets
  · rw [hph]; exact fun h => hthr (hd.thr h)
  · rw [hph]; exact fun h => hic (hd.ic h)

/-- **The protocol invariant is preserved by every action.** -/
theorem dinv_step {cfg} {s s' : State} {a : Act} (h : step cfg s a = some s') (hleak : cfg.alertLeak = false)
    (hea : cfg.influxEarlyAbort = false) (hfo : cfg.udfFwdOrphan = false) (hd : DInv s) : DInv s' := by
  cases a with
  | stop => exact dinv_stopStep h hea hd
  | node i a => exact dinv_nodeAct h hleak hea hfo hd
  | write =>
    simp only [step] at h
    split at h
    · simp only [Option.some.injEq] at h; subst h
      exact dinv_glob hd rfl rfl rfl rfl rfl (fun h => h) (fun h => h) hd.frl hd.fh1
    · simp at h
  | forkTake =>
    simp only [step] at h
    repeat' (first | contradiction | split at h)
    all_goals (first | (simp at h; done) | (simp only [Option.some.injEq] at h; subst h))
    · rename_i hc _
      refine dinv_glob hd rfl rfl rfl rfl rfl (fun h => h) (fun h => h) ?_ ?_
      · intro _; exact Or.inl rfl
      · simp_all
    · rename_i hc _ _
      refine dinv_glob hd rfl rfl rfl rfl rfl (fun h => h) (fun h => h) ?_ ?_
      · intro _; exact Or.inr rfl
      · simp_all
  | forkLock =>
    simp only [step] at h
    split at h
    · simp only [Option.some.injEq] at h; subst h
      rename_i hc
      refine dinv_glob hd rfl rfl rfl rfl rfl (fun h => h) (fun h => h) ?_ hd.fh1; intro _; exact hc.1
    · simp at h
  | forkDrop =>
    simp only [step] at h
    repeat' (first | contradiction | split at h)
    all_goals (first | (simp at h; done) | (simp only [Option.some.injEq] at h; subst h))
    refine dinv_glob hd rfl rfl rfl rfl rfl (fun h => h) (fun h => h) ?_ ?_
    · intro h; simp at h
    · have := hd.fh1; simp; exact this.2
  | forkExit =>
    simp only [step] at h
    split at h
    · simp only [Option.some.injEq] at h; subst h
      exact dinv_glob hd rfl rfl rfl rfl rfl (fun h => h) (fun h => h) hd.frl hd.fh1
    · simp at h
  | thrExit =>
    simp only [step] at h
    split at h
    · simp only [Option.some.injEq] at h; subst h
      exact dinv_glob hd rfl rfl rfl rfl rfl (fun _ => rfl) (fun h => h) hd.frl hd.fh1
    · simp at h
  | forkPut =>
    simp only [step] at h
    repeat' (first | contradiction | split at h)
    all_goals (first | (simp at h; done) | (simp only [Option.some.injEq] at h; subst h))
    · refine dinv_glob hd rfl rfl rfl rfl rfl (fun h => h) (fun h => h) ?_ ?_
      · intro h; simp at h
      · have := hd.fh1; simp; exact this.1
    · refine dinv_glob hd rfl rfl rfl rfl rfl (fun h => h) (fun h => h) ?_ ?_
      · intro h; simp at h
      · have := hd.fh1; simp; exact this.2
    · rename_i nd rest hnodes hcap
      have h0 : s.nodes[0]? = some nd := by rw [hnodes]; rfl
      have hreg : s.registered = true := by simp_all
      have hfi := hd.first nd h0
      have hncl : nd.inClosed = false := by
        cases hcl : nd.inClosed with
        | false => rfl
        | true => have := hfi.1 hcl; simp_all
      have hs : ∀ k, k ≠ 0 → ({ nd with inq := nd.inq + 1, ent := nd.ent + 1 } :: rest)[k]? = s.nodes[k]? := by
        intro k hk; rw [hnodes]; cases k with
        | zero => exact absurd rfl hk
        | succ k => simp
      refine ⟨?_, ?_, ?_, ?_, ?_, ?_, ?_, ?_, ?_, ?_, ?_, ?_, ?_, ?_⟩
      · intro k x hk
        cases k with
        | zero =>
          simp at hk; subst hk
          obtain ⟨h1, ab, fa, dn, fh, al, ah, ad, as, nh, ih, nl, fd, bd⟩ := hd.nodes 0 nd h0
          constructor <;> simp_all <;> (try grind)
        | succ k => rw [hs (k+1) (by omega)] at hk; exact hd.nodes _ x hk
      · intro k x y hk hk1
        rw [hs (k+1) (by omega)] at hk1
        cases k with
        | zero =>
          simp at hk; subst hk
          have := hd.pairs 0 nd y h0 hk1
          unfold DPair at *; simpa using this
        | succ k => rw [hs (k+1) (by omega)] at hk; exact hd.pairs _ x y hk hk1
      · intro x hx; simp at hx; subst hx
        simpa using hfi
      · intro k x hk hdb
        cases k with
        | zero => simp at hk; subst hk; simpa using hd.doneP 0 nd h0 hdb
        | succ k => rw [hs (k+1) (by omega)] at hk; exact hd.doneP _ x hk hdb
      · intro k x hk hkind
        cases k with
        | zero => simp at hk; subst hk; simpa using hd.stopP 0 nd h0 (by simpa using hkind)
        | succ k => rw [hs (k+1) (by omega)] at hk; exact hd.stopP _ x hk hkind
      · intro k x hk hkind hj
        cases k with
        | zero => simp at hk; subst hk; simpa using hd.joinP 0 nd h0 (by simpa using hkind) hj
        | succ k => rw [hs (k+1) (by omega)] at hk; exact hd.joinP _ x hk hkind hj
      · intro j hj; have := hd.idxV j hj; rw [hnodes] at this; simpa using this
      · exact hd.flK
      · exact hd.lk
      · exact hd.ets
      · exact hd.thr
      · exact hd.ic
      · intro h; simp at h
      · have := hd.fh1; simp; exact this.2

end Kap.C07
