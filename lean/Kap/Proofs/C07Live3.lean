/-
C07 — helper lemmas (continued): liveness. Under the protocol invariant, in a chain without loopback nodes
(repaired code, edge buffers of at least one slot, at least the source node) a state in which NO action is
enabled is a completely stopped state.
-/
import Kap.Proofs.C07Live2
import Kap.Proofs.C07Measure
set_option linter.unusedSimpArgs false
set_option linter.unusedVariables false
namespace Kap.C07

theorem stepAt_isSome {env : Env} {a : NAct} : ∀ {i : Nat} {ns : List Nd} {nd : Nd} {r : NRes},
    ns[i]? = some nd → nodeStep env a nd ns[i+1]? = some r → (stepAt env a i ns).isSome = true := by
  intro i ns
  induction ns generalizing i with
  | nil => intro nd r h; simp at h
  | cons x rest ih =>
    intro nd r h hs
    cases i with
    | zero =>
      simp at h; subst h
      cases rest with
      | nil => simp at hs; simp [stepAt, hs]
      | cons c rest' => simp at hs; simp [stepAt, hs]
    | succ i =>
      simp at h hs
      have := ih h hs
      simp only [stepAt]
      cases hst : stepAt env a i rest with
      | none => simp [hst] at this
      | some p => simp

/-- An action of node `j` is enabled in `s`. -/
def NodeCan (cfg : Cfg) (s : State) : Prop := ∃ j a, (step cfg s (.node j a)).isSome = true

theorem nodeCan_of {cfg : Cfg} {s : State} {i : Nat} {nd : Nd} {a : NAct} {r : NRes}
    (hi : s.nodes[i]? = some nd) (hs : nodeStep (env cfg s) a nd s.nodes[i+1]? = some r) : NodeCan cfg s := by
  refine ⟨i, a, ?_⟩
  have := stepAt_isSome hi hs
  simp only [step]
  cases hst : stepAt (env cfg s) a i s.nodes with
  | none => simp [hst] at this
  | some p => simp

theorem abortedBy_succ {ph : Ph} {k : Nat} (h : abortedBy ph (k+1) = true) : doneBy ph k = true := by
  cases ph <;> simp_all [abortedBy, doneBy] <;> omega

/-- Some action of the node (or its helper) is enabled. -/
def Can (e : Env) (nd : Nd) (child : Option Nd) : Prop := ∃ a, (nodeStep e a nd child).isSome = true

/-- the alert node's way out: closeOut, then the handler drains and exits, then the node returns -/
theorem alert_out {e : Env} {nd : Nd} {child : Option Nd} {H : Nat} (hk : nd.kind = .alert H) (hD : DNode nd)
    (hleak : e.alertLeak = false) (hnd : nd.done = false)
    (hready : nd.failed = true ∨ (nd.hand = 0 ∧ nd.inq = 0 ∧ nd.inClosed = true ∧ nd.inited = true)) : Can e nd child := by
  have hal : bufK nd.kind = true := by simp [hk, bufK, isAlert]
  have hal' : isAlert nd.kind = true := by simp [hk, isAlert]
  by_cases hhd : nd.helperDone = true
  · -- the node can return
    refine ⟨.exit, ?_⟩
    have hst := hD.ah hal hhd
    cases hf : nd.failed with
    | true => simp [nodeStep, hnd, hf, exitFailedOk, hk, hhd]
    | false =>
      have := hD.as hal hst hf
      simp [nodeStep, hnd, hf, exitOk, hk, hhd, this]
  · by_cases hst : nd.stopping = true
    · by_cases hb : nd.buf = 0
      · exact ⟨.helperExit, by simp [nodeStep, hk, hst, hb, hhd]⟩
      · exact ⟨.handle, by simp [nodeStep, hk, hhd]; omega⟩
    · refine ⟨.closeOut, ?_⟩
      rcases hready with hf | ⟨h1, h2, h3, h4⟩
      · have := hD.al hal' (Or.inr (Or.inl hf))
        simp [nodeStep, hk, hnd, hf, hleak, this, hst]
      · cases hf : nd.failed with
        | true =>
          have := hD.al hal' (Or.inr (Or.inl hf))
          simp [nodeStep, hk, hnd, hf, hleak, this, hst]
        | false => simp [nodeStep, hk, hnd, hf, h1, h2, h3, h4, hst]

/-- the repaired influxDBOut node's way out: flush+abort (closeOut), the write-buffer goroutine exits, the node returns -/
theorem influx_out {e : Env} {nd : Nd} {child : Option Nd} {B : Nat} (hk : nd.kind = .influx B) (hD : DNode nd)
    (hea : e.influxEarlyAbort = false) (hnd : nd.done = false)
    (hready : nd.failed = true ∨ (nd.hand = 0 ∧ nd.inq = 0 ∧ nd.inClosed = true)) : Can e nd child := by
  have hb : bufK nd.kind = true := by simp [hk, bufK, isInflux]
  by_cases hhd : nd.helperDone = true
  · refine ⟨.exit, ?_⟩
    have hst := hD.ah hb hhd
    cases hf : nd.failed with
    | true => simp [nodeStep, hnd, hf, exitFailedOk, hk, hhd]
    | false =>
      have := hD.as hb hst hf
      simp [nodeStep, hnd, hf, exitOk, hk, hhd, this]
  · by_cases hst : nd.stopping = true
    · exact ⟨.helperExit, by simp [nodeStep, hk, hst, hhd]⟩
    · refine ⟨.closeOut, ?_⟩
      rcases hready with hf | ⟨h1, h2, h3⟩
      · simp [nodeStep, hk, hnd, hf, hea, hst]
      · cases hf : nd.failed with
        | true => simp [nodeStep, hk, hnd, hf, hea, hst]
        | false => simp [nodeStep, hk, hnd, hf, h1, h2, h3, hea, hst]

theorem node_local {e : Env} {nd : Nd} {child : Option Nd} (hD : DNode nd)
    (hhook : e.hookLock = false) (hleak : e.alertLeak = false) (hea : e.influxEarlyAbort = false) (hfo : e.udfFwdOrphan = false) (hnd : nd.done = false)
    (hpre : nd.inq > 0 ∨ nd.inClosed = true ∨ nd.failed = true ∨ nd.hand = 1 ∨ (isUdf nd.kind = true ∧ nd.stopping = true)) :
    Can e nd child ∨
      (nd.failed = false ∧ nd.hand = 1 ∧ ∃ c, child = some c ∧ ¬ c.inq < e.cap ∧ c.inAborted = false) := by
  have hnl := hD.nl
  cases hf : nd.failed with
  | true =>
    -- runF is returning an error
    cases hk : nd.kind with
    | alert H => exact Or.inl (alert_out hk hD hleak hnd (Or.inl hf))
    | influx B => exact Or.inl (influx_out hk hD hea hnd (Or.inl hf))
    | _ => exact Or.inl ⟨.exit, by simp [nodeStep, hnd, hf, exitFailedOk, hk]⟩
  | false =>
    have hh := hD.hand1
    by_cases hh1 : nd.hand = 1
    · -- a message in hand
      cases hk : nd.kind with
      | influx B =>
        have hb : bufK nd.kind = true := by simp [hk, bufK, isInflux]
        have hhd : nd.helperDone = false := by
          cases hh' : nd.helperDone with
          | false => rfl
          | true => have := hD.as hb (hD.ah hb hh') hf; omega
        refine Or.inl ⟨.put, ?_⟩
        simp only [nodeStep, hnd, hh1, hf, hk]
        by_cases hbb : nd.buf + 1 ≥ B <;> simp [hhd, hbb]
      | loop => simp [hk, isLoop] at hnl
      | pass | post | alert _ | fail _ | barrier _ | udf =>
        have hfd := hD.fd
        cases hc : child with
        | none => exact Or.inl ⟨.put, by simp [nodeStep, hnd, hh1, hf, hk, hfd]⟩
        | some c =>
          by_cases hsp : c.inq < e.cap
          · exact Or.inl ⟨.put, by simp [nodeStep, hnd, hh1, hf, hk, hsp, hfd]⟩
          · by_cases hab : c.inAborted = true
            · exact Or.inl ⟨.putErr, by simp [nodeStep, hnd, hh1, hf, hk, hab, hfo]⟩
            · exact Or.inr ⟨rfl, hh1, c, rfl, hsp, by simpa using hab⟩
    · have hh0 : nd.hand = 0 := by omega
      by_cases hq : nd.inq > 0
      · -- a message to take
        cases hk : nd.kind with
        | alert H =>
          by_cases hin : nd.inited = true
          · refine Or.inl ⟨.take, ?_⟩
            simp only [nodeStep, hnd, hh0, hq, hf, hk]
            by_cases hb : nd.buf < H <;> simp [hin, hb]
          · exact Or.inl ⟨.init, by simp [nodeStep, hk, hnd, hin, hf, hhook]⟩
        | udf =>
          by_cases hst : nd.stopping = true
          · exact Or.inl ⟨.exit, by simp [nodeStep, hnd, hf, exitOk, hk, hh0, hst]⟩
          · exact Or.inl ⟨.take, by simp [nodeStep, hnd, hh0, hq, hf, hk, hst]⟩
        | fail K =>
          refine Or.inl ⟨.take, ?_⟩
          simp only [nodeStep, hnd, hh0, hq, hf, hk]
          by_cases hg : nd.got < K <;> simp [hg]
        | pass | post | influx _ | loop | barrier _ => exact Or.inl ⟨.take, by simp [nodeStep, hnd, hh0, hq, hf, hk]⟩
      · have hq0 : nd.inq = 0 := by omega
        have hcl : nd.inClosed = true ∨ (isUdf nd.kind = true ∧ nd.stopping = true) := by
          rcases hpre with h | h | h | h | h
          · omega
          · exact Or.inl h
          · simp [hf] at h
          · omega
          · exact Or.inr h
        cases hk : nd.kind with
        | alert H =>
          rcases hcl with hcl | ⟨hu, _⟩
          · by_cases hin : nd.inited = true
            · exact Or.inl (alert_out hk hD hleak hnd (Or.inr ⟨hh0, hq0, hcl, hin⟩))
            · exact Or.inl ⟨.init, by simp [nodeStep, hk, hnd, hin, hf, hhook]⟩
          · simp [hk, isUdf] at hu
        | udf =>
          refine Or.inl ⟨.exit, ?_⟩
          rcases hcl with hcl | ⟨_, hst⟩
          · simp [nodeStep, hnd, hf, exitOk, hk, hh0, hq0, hcl]
          · simp [nodeStep, hnd, hf, exitOk, hk, hh0, hst]
        | influx B =>
          rcases hcl with hcl | ⟨hu, _⟩
          · exact Or.inl (influx_out hk hD hea hnd (Or.inr ⟨hh0, hq0, hcl⟩))
          · simp [hk, isUdf] at hu
        | pass | post | loop | fail _ | barrier _ =>
          rcases hcl with hcl | ⟨hu, _⟩
          · exact Or.inl ⟨.exit, by simp [nodeStep, hnd, hf, exitOk, hk, hh0, hq0, hcl]⟩
          · simp [hk, isUdf] at hu

theorem can_nodeCan {cfg : Cfg} {s : State} {i : Nat} {nd : Nd} (hi : s.nodes[i]? = some nd)
    (hc : Can (env cfg s) nd s.nodes[i+1]?) : NodeCan cfg s := by
  obtain ⟨a, ha⟩ := hc
  cases hs : nodeStep (env cfg s) a nd s.nodes[i+1]? with
  | none => simp [hs] at ha
  | some r => exact nodeCan_of hi hs

/-- **Chain liveness**: a node that is not finished and has something to do (a message, a closed input, an error,
an aborted UDF) — it or some node downstream of it can move. -/
theorem chain_live {cfg : Cfg} {s : State} (hd : DInv s) (hcap : 1 ≤ cfg.cap) (hhook : cfg.hookLock = false)
    (hleak : cfg.alertLeak = false) (hea : cfg.influxEarlyAbort = false) (hfo : cfg.udfFwdOrphan = false) :
    ∀ (m i : Nat) (nd : Nd), s.nodes.length - i ≤ m → s.nodes[i]? = some nd → nd.done = false →
      (nd.inq > 0 ∨ nd.inClosed = true ∨ nd.failed = true ∨ nd.hand = 1 ∨ (isUdf nd.kind = true ∧ nd.stopping = true)) →
      NodeCan cfg s := by
  intro m
  induction m with
  | zero =>
    intro i nd hm hi
    have : i < s.nodes.length := by
      rcases Nat.lt_or_ge i s.nodes.length with h | h
      · exact h
      · rw [List.getElem?_eq_none_iff.mpr h] at hi; simp at hi
    omega
  | succ m ih =>
    intro i nd hm hi hnd hpre
    have hD := hd.nodes i nd hi
    rcases node_local (e := env cfg s) (child := s.nodes[i+1]?) hD (by simp [env, hhook]) (by simp [env, hleak]) (by simp [env, hea]) (by simp [env, hfo]) hnd hpre with hc | ⟨hf, hh1, c, hc, hfull, hnab⟩
    · exact can_nodeCan hi hc
    · -- blocked on the full input edge of the child: the child can move (or something below it)
      have hp := hd.pairs i nd c hi hc
      have hDc := hd.nodes (i+1) c hc
      have hcq : c.inq > 0 := by simp [env] at hfull; omega
      have hcnd : c.done = false := by
        cases hcd : c.done with
        | false => rfl
        | true =>
          exfalso
          cases hcf : c.failed with
          | true => have := hDc.fa hcd hcf; simp [this] at hnab
          | false =>
            rcases hDc.dn hcd hcf with hcl | ⟨hu, hst⟩
            · have := hp.2 hcl; simp [this] at hnd
            · have hab := (hd.stopP (i+1) c hc (by simp [hu])).mp hst
              have := hd.doneP i nd hi (abortedBy_succ hab)
              simp [this] at hnd
      exact ih (i+1) c (by omega) hc hcnd (Or.inl hcq)

/-- The input edge of the node the stop is waiting for has been closed. -/
theorem inedge_closed {s : State} (hd : DInv s) {i : Nat} {nd : Nd} (hi : s.nodes[i]? = some nd) (hnd : nd.done = false)
    (h5 : 5 ≤ rank s.ph) (hprev : ∀ k, k < i → doneBy s.ph k = true) : nd.inClosed = true := by
  have hD := hd.nodes i nd hi
  have hnab : nd.inAborted = false := by
    cases hab : nd.inAborted with
    | false => rfl
    | true => have := (hD.ab hab).1; simp [this] at hnd
  cases i with
  | zero =>
    rcases (hd.first nd hi).2 h5 with h | h
    · exact h
    · simp [h] at hnab
  | succ i =>
    cases hp : s.nodes[i]? with
    | none =>
      rw [List.getElem?_eq_none_iff] at hp
      have : s.nodes[i+1]? = none := by rw [List.getElem?_eq_none_iff]; omega
      rw [this] at hi; simp at hi
    | some p =>
      have hpd := hd.doneP i p hp (hprev i (by omega))
      rcases (hd.pairs i p nd hp hi).1 hpd with h | h
      · exact h
      · simp [h] at hnab

/-- Some action is enabled. -/
def Progress (cfg : Cfg) (s : State) : Prop := ∃ a, (step cfg s a).isSome = true

theorem NodeCan.progress {cfg s} (h : NodeCan cfg s) : Progress cfg s := by
  obtain ⟨j, a, h⟩ := h; exact ⟨.node j a, h⟩

/-- the fork goroutine holds tm.mu.RLock: it (or the chain below the source edge) can move -/
theorem fork_put_live {cfg : Cfg} {s : State} (hd : DInv s) (hcap : 1 ≤ cfg.cap) (hhook : cfg.hookLock = false)
    (hleak : cfg.alertLeak = false) (hea : cfg.influxEarlyAbort = false) (hfo : cfg.udfFwdOrphan = false) (hne : s.nodes ≠ []) (hrl : s.forkRL = true) (h3 : rank s.ph ≤ 3) : Progress cfg s := by
  by_cases hl : s.forkLoop = 1
  · exact ⟨.forkPut, by simp [step, hrl, hl]⟩
  · have hh : s.forkHand = 1 := by rcases hd.frl hrl with h | h; exact h; exact absurd h hl
    by_cases hreg : s.registered = true
    · cases hn : s.nodes with
      | nil => exact absurd hn hne
      | cons nd rest =>
        have h0 : s.nodes[0]? = some nd := by rw [hn]; rfl
        by_cases hsp : nd.inq < cfg.cap
        · exact ⟨.forkPut, by simp [step, hrl, hl, hh, hreg, hn, hsp]⟩
        · by_cases hab : nd.inAborted = true
          · exact ⟨.forkDrop, by simp [step, hrl, hh, hreg, hn, hab]⟩
          · have hD := hd.nodes 0 nd h0
            have hq : nd.inq > 0 := by omega
            have hnd : nd.done = false := by
              cases hdn : nd.done with
              | false => rfl
              | true =>
                exfalso
                cases hf : nd.failed with
                | true => exact hab (hD.fa hdn hf)
                | false =>
                  rcases hD.dn hdn hf with hcl | ⟨hu, hst⟩
                  · have := (hd.first nd h0).1 hcl; simp [this] at hreg
                  · have := (hd.stopP 0 nd h0 (by simp [hu])).mp hst
                    cases hph : s.ph <;> simp_all [abortedBy, rank]
            exact (chain_live hd hcap hhook hleak hea hfo s.nodes.length 0 nd (by omega) h0 hnd (Or.inl hq)).progress
    · exact ⟨.forkPut, by simp [step, hrl, hl, hh, hreg]⟩

/-- **No deadlock**: under the protocol invariant, if the stop has not completely finished, some action is enabled. -/
theorem progress_or_stopped {cfg : Cfg} {s : State} (hd : DInv s) (hcap : 1 ≤ cfg.cap) (hhook : cfg.hookLock = false)
    (hleak : cfg.alertLeak = false) (hea : cfg.influxEarlyAbort = false) (hfo : cfg.udfFwdOrphan = false) (hne : s.nodes ≠ []) : Progress cfg s ∨ s.stopped = true := by
  have stopOk : (stopStep cfg s).isSome = true → Progress cfg s := fun h => ⟨.stop, by simpa [step] using h⟩
  -- the node the stop is working on can move (or something downstream of it)
  have waitLive : ∀ (i : Nat) (nd : Nd), s.ph.idx = some i → s.nodes[i]? = some nd → nd.done = false → Progress cfg s := by
    intro i nd hidx hi hnd
    have h5 : 5 ≤ rank s.ph := by cases hph : s.ph <;> simp_all [Ph.idx, rank]
    have hprev : ∀ k, k < i → doneBy s.ph k = true := by
      intro k hk; cases hph : s.ph <;> simp_all [Ph.idx, doneBy]
    have := inedge_closed hd hi hnd h5 hprev
    exact (chain_live hd hcap hhook hleak hea hfo s.nodes.length i nd (by omega) hi hnd (Or.inr (Or.inl this))).progress
  cases hph : s.ph with
  | idle => exact Or.inl (stopOk (by simp [stopStep, hph]))
  | closeIngest => exact Or.inl (stopOk (by simp [stopStep, hph]))
  | delFork => exact Or.inl (stopOk (by simp [stopStep, hph]))
  | etStop => exact Or.inl (stopOk (by simp [stopStep, hph]))
  | flushed i => exact absurd hph (hd.flK i).1
  | unlock => exact Or.inl (stopOk (by simp [stopStep, hph]))
  | waitFork =>
    left
    by_cases hfd : s.forkDone = true
    · exact stopOk (by simp [stopStep, hph, hfd])
    · have hlk := hd.lk (by simp [hph, rank])
      by_cases hrl : s.forkRL = true
      · exact fork_put_live hd hcap hhook hleak hea hfo hne hrl (by simp [hph, rank])
      · by_cases hh : s.forkHand = 1 ∨ s.forkLoop = 1
        · exact ⟨.forkLock, by simp [step, hh, hrl, hlk, hph, Ph.wantsLock]⟩
        · have h1 := hd.fh1
          have hh0 : s.forkHand = 0 ∧ s.forkLoop = 0 := by omega
          by_cases hi : s.ingest > 0
          · exact ⟨.forkTake, by simp [step, hh0, hfd, hi]⟩
          · by_cases hil : s.ingestL > 0
            · exact ⟨.forkTake, by simp [step, hh0, hfd, hi, hil]⟩
            · have := hd.ic hph
              exact ⟨.forkExit, by simp [step, hh0, hfd, this]; omega⟩
  | wantLock =>
    left
    have hlk := hd.lk (by simp [hph, rank])
    by_cases hrl : s.forkRL = true
    · exact fork_put_live hd hcap hhook hleak hea hfo hne hrl (by simp [hph, rank])
    · exact stopOk (by simp [stopStep, hph, hrl, hlk])
  | wgWait =>
    left
    by_cases ht : s.thrDone = true
    · exact stopOk (by simp [stopStep, hph, ht])
    · have := hd.ets (by simp [hph, rank])
      exact ⟨.thrExit, by simp [step, this, ht]⟩
  | stopF i =>
    left
    have hidx := hd.idxV i (by simp [hph, Ph.idx])
    cases hi : s.nodes[i]? with
    | none => rw [List.getElem?_eq_none_iff] at hi; omega
    | some nd =>
      cases hk : nd.kind with
      | _ => exact stopOk (by simp [stopStep, hph, hi, hk, hea])
  | wbWait i => exact absurd hph (hd.flK i).2
  | wait i =>
    left
    have hidx := hd.idxV i (by simp [hph, Ph.idx])
    cases hi : s.nodes[i]? with
    | none => rw [List.getElem?_eq_none_iff] at hi; omega
    | some nd =>
      by_cases hdn : nd.done = true
      · exact stopOk (by simp [stopStep, hph, hi, hdn])
      · exact waitLive i nd (by simp [hph, Ph.idx]) hi (by simpa using hdn)
  | finished =>
    right
    have ht := hd.thr (by simp [hph, rank])
    simp only [State.stopped, hph, ht, Bool.and_eq_true, decide_eq_true_eq, List.all_eq_true, true_and]
    intro nd hm
    obtain ⟨j, hj⟩ := List.getElem?_of_mem hm
    have hdn := hd.doneP j nd hj (by simp [hph, doneBy])
    have hD := hd.nodes j nd hj
    refine ⟨hdn, ?_⟩
    cases hk : nd.kind with
    | alert H => exact hD.ad (by simp [hk, bufK, isAlert]) hdn
    | influx B => exact hD.ad (by simp [hk, bufK, isInflux]) hdn
    | barrier d => exact hD.bd (by simp [hk, isBarrier]) hdn
    | _ => exact hD.nh (by simp [hk, Kind.hasHelper])

theorem dinv_init (kinds : List Kind) (n : Nat) (hk : ∀ k ∈ kinds, isLoop k = false) : DInv (init kinds n) := by
  refine ⟨?_, ?_, ?_, ?_, ?_, ?_, ?_, ?_, ?_, ?_, ?_, ?_, ?_, ?_⟩
  · intro i nd h
    obtain ⟨k, hki, rfl⟩ := init_getElem? _ _ _ _ h
    have := hk k (List.mem_of_getElem? hki)
    constructor <;> simp_all [mkNd]
    · cases k <;> simp_all [bufK, isAlert, isInflux, Kind.hasHelper]
    · cases k <;> simp_all [isInflux, Kind.hasHelper]
  · intro i nd c h h1
    obtain ⟨k, _, rfl⟩ := init_getElem? _ _ _ _ h
    obtain ⟨k', _, rfl⟩ := init_getElem? _ _ _ _ h1
    simp [DPair, mkNd]
  · intro nd h
    obtain ⟨k, _, rfl⟩ := init_getElem? _ _ _ _ h
    simp [mkNd, init, rank]
  · intro k nd h hdb; simp [init, doneBy] at hdb
  · intro k nd h _
    obtain ⟨k', _, rfl⟩ := init_getElem? _ _ _ _ h
    simp [mkNd, init, abortedBy]
  · intro k nd h _ hj; simp [init, joinedBy] at hj
  · intro i hi; simp [init, Ph.idx] at hi
  · intro i; simp [init]
  · simp [init]
  · simp [init, rank]
  · simp [init, rank]
  · simp [init]
  · simp [init]
  · simp [init]

theorem dinv_run {cfg} {s : State} (hleak : cfg.alertLeak = false) (hea : cfg.influxEarlyAbort = false) (hfo : cfg.udfFwdOrphan = false) (hd : DInv s) (as : List Act) :
    DInv (run cfg s as) := by
  induction as generalizing s with
  | nil => exact hd
  | cons a as ih =>
    simp only [run]
    split
    · rename_i s' hs; exact ih (dinv_step hs hleak hea hfo hd)
    · exact ih hd

theorem run_nodes_length {cfg} {s : State} (as : List Act) : (run cfg s as).nodes.length = s.nodes.length := by
  induction as generalizing s with
  | nil => rfl
  | cons a as ih =>
    simp only [run]
    split
    · rename_i s' hs
      rw [ih]
      cases a with
      | node i a =>
        simp only [step] at hs
        split at hs
        · rename_i ns l hst; simp only [Option.some.injEq] at hs; subst hs; exact stepAt_length hst
        · simp at hs
      | stop =>
        simp only [step] at hs
        unfold stopStep at hs
        repeat' (first | contradiction | split at hs)
        all_goals (first | (simp at hs; done) | (simp only [Option.some.injEq] at hs; subst hs; simp [modifyNth_length]))
      | forkPut =>
        simp only [step] at hs
        repeat' (first | contradiction | split at hs)
        all_goals (first | (simp at hs; done) | (simp only [Option.some.injEq] at hs; subst hs; simp_all))
      | _ =>
        simp only [step] at hs
        repeat' (first | contradiction | split at hs)
        all_goals (first | (simp at hs; done) | (simp only [Option.some.injEq] at hs; subst hs; simp))
    · exact ih

end Kap.C07
