/-
C07 — helper lemmas: the "lossless" invariant. In a chain of pass / httpPost / alert nodes (handler queue not
overflowing) stopped by TaskMaster.Close, no loss action is ever enabled, closed edges receive nothing more,
and finished nodes have drained their input.
-/
import Kap.Proofs.C07Inv
set_option linter.unusedSimpArgs false
set_option linter.unusedVariables false
namespace Kap.C07

/-- Kinds without any loss action, for a run of at most `N` points. -/
def losslessKind (N : Nat) : Kind → Bool
  | .pass | .post => true
  | .alert H => N ≤ H
  | _ => false

structure LNode (N : Nat) (nd : Nd) : Prop where
  kind : losslessKind N nd.kind = true
  nofail : nd.failed = false
  noabort : nd.inAborted = false
  nodrop : nd.dropped = 0
  nolost : nd.lost = 0
  entle : nd.ent ≤ N
  hand1 : nd.hand ≤ 1
  doneq : nd.done = true → nd.hand = 0 ∧ nd.inq = 0 ∧ nd.inClosed = true
  stopq : nd.stopping = true → nd.hand = 0 ∧ nd.inq = 0 ∧ nd.inClosed = true
  helpq : (∃ H, nd.kind = .alert H) → nd.helperDone = true → nd.buf = 0 ∧ nd.stopping = true

/-- A closed edge has a finished producer. -/
def LPair (nd c : Nd) : Prop := c.inClosed = true → nd.done = true

theorem nodeStep_inClosed {env a nd child r} (h : nodeStep env a nd child = some r) : r.nd.inClosed = nd.inClosed := by
  nstep h <;> rfl

theorem nodeStep_done_mono {env a nd child r} (h : nodeStep env a nd child = some r) (hd : nd.done = true) : r.nd.done = true := by
  nstep h <;> simp_all

theorem nodeStep_LNode {N env a nd child r} (h : nodeStep env a nd child = some r)
    (hl : LNode N nd) (hbi : balIn nd) (hbo : balOut nd) (hc : ∀ c, child = some c → c.inAborted = false) : LNode N r.nd := by
  obtain ⟨k, nf, na, ndr, nl, el, h1, dq, sq, hq⟩ := hl
  unfold balIn at hbi
  unfold balOut at hbo
  nstep h
  all_goals (first
    | (exfalso; simp_all [losslessKind]; done)
    | (constructor <;> simp_all [losslessKind, exitOk] <;> (try omega) <;> (try (cases hs : nd.stopping <;> simp_all <;> omega)) <;> (cases hk : nd.kind <;> simp_all)))

theorem nodeStep_not_looped {N env a nd child r} (h : nodeStep env a nd child = some r) (hl : LNode N nd) : r.looped = false := by
  have k := hl.kind
  nstep h <;> simp_all [losslessKind]

theorem ChildEff.done {c c' : Nd} (h : ChildEff c c') : c'.done = c.done := by
  unfold ChildEff at h
  rcases h with h | h | h <;> subst h <;> simp

theorem nodeStep_child_L {N env a nd c r c'} (h : nodeStep env a nd (some c) = some r) (hr : r.child = some c')
    (hl : LNode N nd) (hcl : LNode N c) (hp : LPair nd c) (hf : balFwd nd c) (hbi : balIn nd) :
    LNode N c' ∧ LPair r.nd c' := by
  obtain ⟨k, nf, na, ndr, nl, el, h1, dq, sq, hq⟩ := hl
  obtain ⟨k', nf', na', ndr', nl', el', h1', dq', sq', hq'⟩ := hcl
  unfold balIn at hbi
  unfold balFwd at hf
  unfold LPair at *
  have hfw : forwards nd.kind = true := by cases hk : nd.kind <;> simp_all [losslessKind, forwards]
  have hf' := hf hfw
  nstep h
  all_goals (simp only [Option.map_some, Option.some.injEq] at hr; try subst hr)
  all_goals (first
    | (exfalso; simp_all [losslessKind]; done)
    | (refine ⟨⟨?_, ?_, ?_, ?_, ?_, ?_, ?_, ?_, ?_, ?_⟩, ?_⟩ <;> simp_all [closeIn_inClosed] <;> (try omega) <;>
        (try (cases hd : c.done <;> simp_all)) <;> (try (cases hs : c.stopping <;> simp_all)) <;> (try omega)))

def rank : Ph → Nat
  | .idle => 0 | .closeIngest => 1 | .waitFork => 2 | .wantLock => 3 | .delFork => 4 | .etStop => 5
  | .stopF _ | .flushed _ | .wbWait _ | .wait _ => 6 | .wgWait => 7 | .unlock => 8 | .finished => 9

/-- The lossless invariant (includes conservation). -/
structure Lossless (N : Nat) (cfg : Cfg) (s : State) : Prop where
  cons : Cons s
  viaClose : cfg.viaClose = true
  nodes : ∀ (i : Nat) (nd : Nd), s.nodes[i]? = some nd → LNode N nd
  pairs : ∀ (i : Nat) (nd c : Nd), s.nodes[i]? = some nd → s.nodes[i+1]? = some c → LPair nd c
  first : ∀ nd, s.nodes[0]? = some nd → nd.inClosed = true → s.registered = false
  li : s.lostIngest = 0
  acc : s.accepted + s.toWrite = N
  fh : s.forkHand ≤ 1
  noloop : s.ingestL = 0 ∧ s.forkLoop = 0
  frl : s.forkRL = true → s.forkHand = 1
  fd : s.forkDone = true → s.ingest = 0 ∧ s.forkHand = 0 ∧ s.ingestClosed = true
  icr : s.ingestClosed = true → 2 ≤ rank s.ph
  rk : 3 ≤ rank s.ph → s.forkDone = true
  reg : s.registered = false → 5 ≤ rank s.ph
  nofl : ∀ i, s.ph ≠ .flushed i ∧ s.ph ≠ .wbWait i

theorem LNode.closeIn {N nd} (h : LNode N nd) : LNode N (closeIn nd) := by
  obtain ⟨k, nf, na, ndr, nl, el, h1, dq, sq, hq⟩ := h
  constructor <;> simp_all [closeIn_inClosed]

/-- Lossless is preserved when only non-node fields change. -/
theorem Lossless.same_nodes {N cfg} {s s' : State} (h : Lossless N cfg s) (hc : Cons s') (hn : s'.nodes = s.nodes)
    (hreg : s'.registered = s.registered ∨ (s'.registered = false))
    (li : s'.lostIngest = 0) (acc : s'.accepted + s'.toWrite = N) (fh : s'.forkHand ≤ 1)
    (noloop : s'.ingestL = 0 ∧ s'.forkLoop = 0) (frl : s'.forkRL = true → s'.forkHand = 1)
    (fd : s'.forkDone = true → s'.ingest = 0 ∧ s'.forkHand = 0 ∧ s'.ingestClosed = true)
    (icr : s'.ingestClosed = true → 2 ≤ rank s'.ph) (rk : 3 ≤ rank s'.ph → s'.forkDone = true)
    (reg : s'.registered = false → 5 ≤ rank s'.ph) (nofl : ∀ i, s'.ph ≠ .flushed i ∧ s'.ph ≠ .wbWait i) : Lossless N cfg s' := by
  refine ⟨hc, h.viaClose, ?_, ?_, ?_, li, acc, fh, noloop, frl, fd, icr, rk, reg, nofl⟩
  · intro i nd hi; rw [hn] at hi; exact h.nodes i nd hi
  · intro i nd c hi hi1; rw [hn] at hi hi1; exact h.pairs i nd c hi hi1
  · intro nd hi hcl; rw [hn] at hi
    rcases hreg with e | e
    · rw [e]; exact h.first nd hi hcl
    · exact e

theorem lossless_stopStep {N cfg} {s s' : State} (h : stopStep cfg s = some s') (hl : Lossless N cfg s) : Lossless N cfg s' := by
  have hc' := cons_stopStep h hl.cons
  have hv := hl.viaClose
  have ⟨_, _, hnodes, hpairs, hfirst, li, acc, fh, noloop, frl, fd, icr, rk, reg, nofl⟩ := hl
  unfold stopStep afterWait at h
  split at h
  case h_5 hph =>
    -- delFork: the source edge is closed, the task unregistered
    simp only [Option.some.injEq] at h; subst h
    have get : ∀ k, (modifyNth s.nodes 0 closeIn)[k]? = if k = 0 then s.nodes[k]?.map closeIn else s.nodes[k]? :=
      fun k => modifyNth_getElem? _ _ _ _
    refine ⟨hc', hv, ?_, ?_, ?_, li, acc, fh, noloop, frl, fd, ?_, ?_, ?_, ?_⟩
    · intro i nd hi
      simp only [get] at hi
      split at hi
      · cases h0 : s.nodes[i]? with
        | none => simp [h0] at hi
        | some nd0 => simp [h0] at hi; subst hi; exact (hnodes i nd0 h0).closeIn
      · exact hnodes i nd hi
    · intro i nd c hi hi1
      simp only [get] at hi hi1
      split at hi1
      · omega
      · split at hi
        · cases h0 : s.nodes[i]? with
          | none => simp [h0] at hi
          | some nd0 =>
            simp [h0] at hi; subst hi
            have := hpairs i nd0 c h0 hi1
            unfold LPair at *; simpa using this
        · exact hpairs i nd c hi hi1
    · intros; rfl
    · intro hic; have := icr hic; simp_all [rank]
    · intro _; exact rk (by simp_all [rank])
    · intro _; simp [rank]
    · intro i; simp
  all_goals
    (repeat' (first | contradiction | split at h)
     all_goals (first | (simp at h; done) | (simp only [Option.some.injEq] at h; subst h)))
  all_goals (first
    | (refine hl.same_nodes hc' rfl (Or.inl rfl) li acc fh noloop frl ?_ ?_ ?_ ?_ ?_
        <;> simp_all [rank, afterWait] <;> (try split) <;> simp_all [rank] <;> (try omega); done)
    | (exfalso; have hk := (hnodes _ _ (by assumption)).kind; simp_all [losslessKind]; done)
    | (exfalso; simp_all; done))

theorem lossless_nodeAct {N cfg} {s s' : State} {i : Nat} {a : NAct} (h : step cfg s (.node i a) = some s')
    (hl : Lossless N cfg s) : Lossless N cfg s' := by
  have hc' := cons_step h hl.cons
  simp only [step] at h
  split at h
  case h_2 => simp at h
  rename_i ns l hst
  simp only [Option.some.injEq] at h
  obtain ⟨nd, r, g1, g2, g3, g4, g5, g7, hnode⟩ := stepAt_cases hst
  have hLnd := hl.nodes i nd g1
  have hnl : l = false := by rw [g3]; exact nodeStep_not_looped g2 hLnd
  subst hnl
  have hs' : s' = { s with nodes := ns } := by rw [← h]; simp
  have hchildAb : ∀ c, s.nodes[i+1]? = some c → c.inAborted = false := fun c hc => (hl.nodes _ c hc).noabort
  have hr : LNode N r.nd := nodeStep_LNode g2 hLnd (hl.cons.nodeIn i nd g1) (hl.cons.nodeOut i nd g1) hchildAb
  refine ⟨hc', hl.viaClose, ?_, ?_, ?_, ?_, ?_, ?_, ?_, ?_, ?_, ?_, ?_, ?_, ?_⟩
  · intro k x hk
    rw [hs'] at hk
    rcases hnode k x hk with ⟨_, _, h0⟩ | ⟨_, rfl⟩ | ⟨_, c, hc1, e1, _⟩
    · exact hl.nodes k x h0
    · exact hr
    · rw [hc1] at g2
      exact (nodeStep_child_L g2 e1 hLnd (hl.nodes _ c hc1) (hl.pairs i nd c g1 hc1) (hl.cons.fwd i nd c g1 hc1) (hl.cons.nodeIn i nd g1)).1
  · intro k x y hk hk1
    rw [hs'] at hk hk1
    rcases hnode k x hk with ⟨hk_i, hk_i1, h0⟩ | ⟨rfl, rfl⟩ | ⟨rfl, c, hc1, e1, e2⟩
    · rcases hnode (k+1) y hk1 with ⟨_, _, h1⟩ | ⟨hki, rfl⟩ | ⟨hki, _⟩
      · exact hl.pairs k x y h0 h1
      · have := hl.pairs k x nd h0 (by rw [hki]; exact g1)
        unfold LPair at *
        rw [nodeStep_inClosed g2]; exact this
      · omega
    · rcases hnode (k+1) y hk1 with ⟨_, hk1', _⟩ | ⟨hki, _⟩ | ⟨_, c, hc1, e1, _⟩
      · omega
      · omega
      · rw [hc1] at g2
        exact (nodeStep_child_L g2 e1 hLnd (hl.nodes _ c hc1) (hl.pairs k nd c g1 hc1) (hl.cons.fwd k nd c g1 hc1) (hl.cons.nodeIn k nd g1)).2
    · rcases hnode (i+1+1) y hk1 with ⟨_, _, h1⟩ | ⟨hki, _⟩ | ⟨hki, _⟩
      · have := hl.pairs (i+1) c y hc1 h1
        unfold LPair at *
        rw [e2.done]; exact this
      · omega
      · omega
  · intro x hx hcl
    rw [hs'] at hx ⊢
    show s.registered = false
    rcases hnode 0 x hx with ⟨_, _, h0⟩ | ⟨hki, rfl⟩ | ⟨hki, _⟩
    · exact hl.first x h0 hcl
    · rw [nodeStep_inClosed g2] at hcl
      exact hl.first nd (by rw [hki]; exact g1) hcl
    · omega
  all_goals (rw [hs'])
  · exact hl.li
  · exact hl.acc
  · exact hl.fh
  · exact hl.noloop
  · exact hl.frl
  · exact hl.fd
  · exact hl.icr
  · exact hl.rk
  · exact hl.reg
  · exact hl.nofl

/-- **The lossless invariant is preserved by every action.** -/
theorem lossless_step {N cfg} {s s' : State} {a : Act} (h : step cfg s a = some s') (hl : Lossless N cfg s) : Lossless N cfg s' := by
  have hc' := cons_step h hl.cons
  cases a with
  | stop => exact lossless_stopStep h hl
  | node i a => exact lossless_nodeAct h hl
  | forkPut =>
    have ⟨_, hv, hnodes, hpairs, hfirst, li, acc, fh, noloop, frl, fd, icr, rk, reg, nofl⟩ := hl
    simp only [step] at h
    repeat' (first | contradiction | split at h)
    all_goals (first | (simp at h; done) | (simp only [Option.some.injEq] at h; subst h))
    · exfalso; simp_all
    · -- unregistered: impossible, the fork goroutine has finished before delFork
      exfalso
      have h5 := reg (by simp_all)
      have := fd (rk (by omega))
      simp_all
    · rename_i nd rest hnodes' _
      have h0 : s.nodes[0]? = some nd := by rw [hnodes']; rfl
      have hLn := hnodes 0 nd h0
      have hreg : s.registered = true := by simp_all
      have hncl : nd.inClosed = false := by
        cases hcl : nd.inClosed with
        | false => rfl
        | true => have := hfirst nd h0 hcl; simp_all
      have hsrc := hl.cons.src
      rw [h0] at hsrc
      simp only [Option.map_some, Option.getD_some] at hsrc
      refine ⟨hc', hv, ?_, ?_, ?_, li, acc, by simp, noloop, by simp, ?_, icr, rk, reg, nofl⟩
      · intro k x hk
        cases k with
        | zero =>
          simp at hk; subst hk
          obtain ⟨k, nf, na, ndr, nl, el, h1, dq, sq, hq⟩ := hLn
          constructor <;> simp_all <;> (try omega) <;> (try (cases hd : nd.done <;> simp_all)) <;> (try (cases hs : nd.stopping <;> simp_all))
        | succ k => exact hnodes (k+1) x (by rw [hnodes']; simpa using hk)
      · intro k x y hk hk1
        have h1 : s.nodes[k+1]? = some y := by rw [hnodes']; simpa using hk1
        cases k with
        | zero =>
          simp at hk; subst hk
          have := hpairs 0 nd y h0 h1
          unfold LPair at *; simpa using this
        | succ k => exact hpairs (k+1) x y (by rw [hnodes']; simpa using hk) h1
      · intro x hx hcl
        simp at hx; subst hx
        simp at hcl; simp_all
      · intro hfd; have := fd hfd; simp_all
  | write =>
    have ⟨_, hv, hnodes, hpairs, hfirst, li, acc, fh, noloop, frl, fd, icr, rk, reg, nofl⟩ := hl
    simp only [step] at h
    split at h
    · simp only [Option.some.injEq] at h; subst h
      rename_i hcond
      refine hl.same_nodes hc' rfl (Or.inl rfl) li (by simp; omega) fh noloop frl ?_ ?_ ?_ ?_ ?_ <;> simp_all [rank]
    · simp at h
  | forkTake =>
    have ⟨_, hv, hnodes, hpairs, hfirst, li, acc, fh, noloop, frl, fd, icr, rk, reg, nofl⟩ := hl
    simp only [step] at h
    repeat' (first | contradiction | split at h)
    all_goals (first | (simp at h; done) | (simp only [Option.some.injEq] at h; subst h))
    · refine hl.same_nodes hc' rfl (Or.inl rfl) li acc (by simp) noloop ?_ ?_ icr rk reg nofl <;> simp_all
    · exfalso; simp_all
  | forkLock =>
    have ⟨_, hv, hnodes, hpairs, hfirst, li, acc, fh, noloop, frl, fd, icr, rk, reg, nofl⟩ := hl
    simp only [step] at h
    split at h
    · simp only [Option.some.injEq] at h; subst h
      refine hl.same_nodes hc' rfl (Or.inl rfl) li acc fh noloop ?_ fd icr rk reg nofl
      simp_all
    · simp at h
  | forkDrop =>
    have ⟨_, hv, hnodes, hpairs, hfirst, li, acc, fh, noloop, frl, fd, icr, rk, reg, nofl⟩ := hl
    simp only [step] at h
    repeat' (first | contradiction | split at h)
    all_goals (first | (simp at h; done) | (simp only [Option.some.injEq] at h; subst h))
    exfalso
    rename_i nd rest hnodes' hab
    have := (hnodes 0 nd (by rw [hnodes']; rfl)).noabort
    simp_all
  | forkExit =>
    have ⟨_, hv, hnodes, hpairs, hfirst, li, acc, fh, noloop, frl, fd, icr, rk, reg, nofl⟩ := hl
    simp only [step] at h
    split at h
    · simp only [Option.some.injEq] at h; subst h
      refine hl.same_nodes hc' rfl (Or.inl rfl) li acc fh noloop frl ?_ icr ?_ reg nofl <;> simp_all
    · simp at h
  | thrExit =>
    have ⟨_, hv, hnodes, hpairs, hfirst, li, acc, fh, noloop, frl, fd, icr, rk, reg, nofl⟩ := hl
    simp only [step] at h
    split at h
    · simp only [Option.some.injEq] at h; subst h
      exact hl.same_nodes hc' rfl (Or.inl rfl) li acc fh noloop frl fd icr rk reg nofl
    · simp at h

theorem lossless_run {N cfg} {s : State} (hl : Lossless N cfg s) (as : List Act) : Lossless N cfg (run cfg s as) := by
  induction as generalizing s with
  | nil => exact hl
  | cons a as ih =>
    simp only [run]
    split
    · rename_i s' hs; exact ih (lossless_step hs hl)
    · exact ih hl

theorem cons_run {cfg} {s : State} (hc : Cons s) (as : List Act) : Cons (run cfg s as) := by
  induction as generalizing s with
  | nil => exact hc
  | cons a as ih =>
    simp only [run]
    split
    · rename_i s' hs; exact ih (cons_step hs hc)
    · exact ih hc

theorem init_getElem? (kinds : List Kind) (n i : Nat) (nd : Nd) (h : (init kinds n).nodes[i]? = some nd) :
    ∃ k, kinds[i]? = some k ∧ nd = mkNd k := by
  simp only [init, List.getElem?_map] at h
  cases hk : kinds[i]? with
  | none => simp [hk] at h
  | some k => simp [hk] at h; exact ⟨k, rfl, h.symm⟩

theorem cons_init (kinds : List Kind) (n : Nat) : Cons (init kinds n) := by
  refine ⟨?_, ?_, ?_, ?_⟩
  · intro i nd h; obtain ⟨k, _, rfl⟩ := init_getElem? _ _ _ _ h; simp [balIn, mkNd]
  · intro i nd h; obtain ⟨k, _, rfl⟩ := init_getElem? _ _ _ _ h; cases k <;> simp [balOut, mkNd]
  · intro i nd c h h1
    obtain ⟨k, _, rfl⟩ := init_getElem? _ _ _ _ h
    obtain ⟨k', _, rfl⟩ := init_getElem? _ _ _ _ h1
    simp [balFwd, mkNd]
  · simp only [init, List.getElem?_map]
    cases kinds[0]? <;> simp [mkNd]

theorem lossless_init (cfg : Cfg) (kinds : List Kind) (N : Nat) (hv : cfg.viaClose = true)
    (hk : ∀ k ∈ kinds, losslessKind N k = true) : Lossless N cfg (init kinds N) := by
  refine ⟨cons_init _ _, hv, ?_, ?_, ?_, rfl, by simp [init], by simp [init], by simp [init], by simp [init], by simp [init],
    by simp [init], by simp [init, rank], by simp [init], by simp [init]⟩
  · intro i nd h
    obtain ⟨k, hki, rfl⟩ := init_getElem? _ _ _ _ h
    have := hk k (List.mem_of_getElem? hki)
    constructor <;> simp_all [mkNd]
    intro H hH; subst hH; simp [Kind.hasHelper]
  · intro i nd c h h1
    obtain ⟨k', _, rfl⟩ := init_getElem? _ _ _ _ h1
    simp [LPair, mkNd]
  · intro nd h hcl
    obtain ⟨k, _, rfl⟩ := init_getElem? _ _ _ _ h
    simp [mkNd] at hcl

/-- In a lossless state whose stop has finished, every node has received every accepted point. -/
theorem lossless_stopped_ent {N cfg} {s : State} (hl : Lossless N cfg s) (hst : s.stopped = true) :
    ∀ (j : Nat) (nd : Nd), s.nodes[j]? = some nd → nd.ent = s.accepted ∧ nd.got = s.accepted := by
  simp only [State.stopped, Bool.and_eq_true, decide_eq_true_eq, List.all_eq_true] at hst
  have hph : s.ph = .finished := hst.1
  have hall := hst.2.2
  have hfd := hl.fd (hl.rk (by rw [hph]; simp [rank]))
  have hsrc := hl.cons.src
  have key : ∀ (j : Nat) (nd : Nd), s.nodes[j]? = some nd → nd.ent = s.accepted → nd.got = s.accepted := by
    intro j nd hj he
    have hd := hall nd (List.mem_of_getElem? hj)
    have := (hl.nodes j nd hj).doneq hd.1
    have hb := hl.cons.nodeIn j nd hj
    unfold balIn at hb; omega
  intro j
  induction j with
  | zero =>
    intro nd hj
    rw [hj] at hsrc
    simp only [Option.map_some, Option.getD_some] at hsrc
    have he : nd.ent = s.accepted := by have := hl.li; omega
    exact ⟨he, key 0 nd hj he⟩
  | succ j ih =>
    intro c hj1
    cases hj : s.nodes[j]? with
    | none =>
      rw [List.getElem?_eq_none_iff] at hj
      have : s.nodes[j+1]? = none := by rw [List.getElem?_eq_none_iff]; omega
      rw [this] at hj1; simp at hj1
    | some nd =>
      obtain ⟨_, hg⟩ := ih nd hj
      have hf := hl.cons.fwd j nd c hj hj1
      have hL := hl.nodes j nd hj
      have hfw : forwards nd.kind = true := by
        have := hL.kind; cases hk : nd.kind <;> simp_all [losslessKind, forwards]
      have hd := hall nd (List.mem_of_getElem? hj)
      have hq := hL.doneq hd.1
      have := hf hfw
      have hdr := hL.nodrop
      have he : c.ent = s.accepted := by omega
      exact ⟨he, key (j+1) c hj1 he⟩

end Kap.C07
