/-
C07 — helper lemmas: a natural-number measure that strictly decreases with EVERY enabled action (so every
schedule is finite, without any fairness assumption).

The message part of the measure is Σ_i A_i with A_i = (points still to be written, in write_points, in
forkPoint's hand) + Σ_{k ≤ i} (inq_k + hand_k): a point at stage k is counted once for every node at or after k,
so moving it one stage down removes exactly one count. Everything else is linear.
-/
import Kap.Proofs.C07Inv
set_option linter.unusedSimpArgs false
set_option linter.unusedVariables false
namespace Kap.C07

/-- Points node `nd` holds on the way downstream. -/
def thru (nd : Nd) : Nat := nd.inq + nd.hand

def b2n (b : Bool) : Nat := if b then 0 else 1

/-- Local (linear) part of the measure of a node. -/
def loc (nd : Nd) : Nat :=
  2 * nd.inq + nd.buf + b2n nd.inited + b2n nd.stopping + b2n nd.helperDone + b2n nd.done + b2n nd.failed + b2n nd.panicked

/-- Σ_i A_i for the suffix, with `acc` points upstream of it. -/
def muAcc (acc : Nat) : List Nd → Nat
  | [] => 0
  | nd :: rest => (acc + thru nd) + muAcc (acc + thru nd) rest

def locs : List Nd → Nat
  | [] => 0
  | nd :: rest => loc nd + locs rest

theorem muAcc_mono {a b : Nat} (h : a ≤ b) (ns : List Nd) : muAcc a ns ≤ muAcc b ns := by
  induction ns generalizing a b with
  | nil => simp [muAcc]
  | cons nd rest ih =>
    simp only [muAcc]
    have := ih (a := a + thru nd) (b := b + thru nd) (by omega)
    omega

/-- terminal node (no child): the local weight strictly decreases, by 4 or more when a point was looped. -/
theorem nodeStep_dec_none {env a nd r} (h : nodeStep env a nd none = some r) :
    thru r.nd ≤ thru nd ∧ 8 * thru r.nd + loc r.nd + (if r.looped then 3 else 0) + 1 ≤ 8 * thru nd + loc nd := by
  unfold thru loc b2n
  nstep h <;> simp_all <;> (try omega) <;> (try (cases nd.inited <;> cases nd.stopping <;> cases nd.helperDone <;> cases nd.done <;> cases nd.failed <;> cases nd.panicked <;> cases isBarrier nd.kind <;> simp_all <;> omega))

/-- node with a child: through-flow never grows, and the pair's weight strictly decreases. -/
theorem nodeStep_dec_some {env a nd c r c'} (h : nodeStep env a nd (some c) = some r) (hr : r.child = some c') :
    thru r.nd ≤ thru nd ∧ thru r.nd + thru c' ≤ thru nd + thru c ∧
    8 * thru r.nd + 8 * (thru r.nd + thru c') + loc r.nd + loc c' + (if r.looped then 3 else 0) + 1 ≤
      8 * thru nd + 8 * (thru nd + thru c) + loc nd + loc c := by
  unfold thru loc b2n
  nstep h
  all_goals (simp only [Option.map_some, Option.some.injEq] at hr; try subst hr)
  all_goals (simp_all <;> (try omega) <;> (try (cases nd.inited <;> cases nd.stopping <;> cases nd.helperDone <;> cases nd.done <;> cases nd.failed <;> cases nd.panicked <;> cases isBarrier nd.kind <;> simp_all <;> omega)))

/-- **Every node action strictly decreases the chain measure** (by 4 or more when a point was looped back). -/
theorem stepAt_dec {env : Env} {a : NAct} : ∀ {i : Nat} {ns ns' : List Nd} {l : Bool} (acc : Nat),
    stepAt env a i ns = some (ns', l) →
    8 * muAcc acc ns' + locs ns' + (if l then 3 else 0) + 1 ≤ 8 * muAcc acc ns + locs ns := by
  intro i ns
  induction ns generalizing i with
  | nil => intro ns' l acc h; simp [stepAt] at h
  | cons nd rest ih =>
    intro ns' l acc h
    cases i with
    | zero =>
      cases rest with
      | nil =>
        simp only [stepAt] at h
        split at h
        · rename_i r hr
          simp only [Option.some.injEq, Prod.mk.injEq] at h
          obtain ⟨h1, h2⟩ := h
          subst h1; subst h2
          have := nodeStep_dec_none hr
          simp only [muAcc, locs]; omega
        · simp at h
      | cons c rest' =>
        simp only [stepAt] at h
        split at h
        · rename_i r hr
          simp only [Option.some.injEq, Prod.mk.injEq] at h
          obtain ⟨h1, h2⟩ := h
          subst h1; subst h2
          obtain ⟨c', e1, _⟩ := nodeStep_childEff hr
          have hd := nodeStep_dec_some hr e1
          rw [e1]
          simp only [Option.getD_some, muAcc, locs]
          have hm := muAcc_mono (a := acc + thru r.nd + thru c') (b := acc + thru nd + thru c) (by omega) rest'
          omega
        · simp at h
    | succ i =>
      simp only [stepAt] at h
      split at h
      · rename_i rest' l' hr
        simp only [Option.some.injEq, Prod.mk.injEq] at h
        obtain ⟨h1, h2⟩ := h
        subst h1; subst h2
        have := ih (acc + thru nd) hr
        simp only [muAcc, locs]; omega
      · simp at h

/-- A `modifyNth` that keeps the through-flow and does not increase the local weight does not increase the measure. -/
theorem modifyNth_le (ns : List Nd) (i : Nat) (f : Nd → Nd) (acc : Nat)
    (ht : ∀ nd, thru (f nd) = thru nd) (hl : ∀ nd, loc (f nd) ≤ loc nd) :
    8 * muAcc acc (modifyNth ns i f) + locs (modifyNth ns i f) ≤ 8 * muAcc acc ns + locs ns := by
  induction ns generalizing i acc with
  | nil => simp [modifyNth]
  | cons nd rest ih =>
    cases i with
    | zero => simp only [modifyNth, muAcc, locs, ht]; have := hl nd; omega
    | succ i => simp only [modifyNth, muAcc, locs]; have := ih i (acc + thru nd); omega

/-- Potential of the stopping goroutine: the number of its remaining steps (for a chain of `n` nodes). -/
def phPot (n : Nat) : Ph → Nat
  | .finished => 0
  | .unlock => 1
  | .wgWait => 2
  | .wait i => 3 + 4 * (n - 1 - i)
  | .wbWait i => 4 + 4 * (n - 1 - i)
  | .flushed i => 5 + 4 * (n - 1 - i)
  | .stopF i => 6 + 4 * (n - 1 - i)
  | .etStop => 4 * n + 3
  | .delFork => 4 * n + 4
  | .wantLock => 4 * n + 5
  | .waitFork => 4 * n + 6
  | .closeIngest => 4 * n + 7
  | .idle => 4 * n + 8

/-- **The measure.** -/
def mu (s : State) : Nat :=
  8 * muAcc (s.toWrite + s.ingest + s.forkHand) s.nodes + locs s.nodes +
  7 * s.toWrite + 6 * s.ingest + 4 * s.forkHand + 3 * s.ingestL + 2 * s.forkLoop +
  b2n s.forkRL + b2n s.forkDone + b2n s.thrDone + phPot s.nodes.length s.ph

theorem stepAt_length {env : Env} {a : NAct} {i : Nat} {ns ns' : List Nd} {l : Bool}
    (h : stepAt env a i ns = some (ns', l)) : ns'.length = ns.length := by
  obtain ⟨_, _, _, _, _, g4, _⟩ := stepAt_spec h
  exact g4

theorem mu_stopStep {cfg : Cfg} {s s' : State} (h : stopStep cfg s = some s') : mu s' < mu s := by
  unfold mu
  have hmod : ∀ (i : Nat) (f : Nd → Nd), (∀ nd, thru (f nd) = thru nd) → (∀ nd, loc (f nd) ≤ loc nd) →
      8 * muAcc (s.toWrite + s.ingest + s.forkHand) (modifyNth s.nodes i f) + locs (modifyNth s.nodes i f) ≤
      8 * muAcc (s.toWrite + s.ingest + s.forkHand) s.nodes + locs s.nodes :=
    fun i f ht hl => modifyNth_le s.nodes i f _ ht hl
  cases hph : s.ph with
  | stopF i =>
    simp only [stopStep, hph] at h
    repeat' (first | contradiction | split at h)
    all_goals (first | (simp at h; done) | (simp only [Option.some.injEq] at h; subst h))
    all_goals (simp only [modifyNth_length, phPot])
    all_goals (first
      | omega
      | (have := hmod i (fun nd => { nd with deliv := nd.deliv + nd.buf, buf := 0 }) (by intro nd; simp [thru]) (by intro nd; simp [loc])
         omega)
      | (have := hmod i (fun nd => { nd with stopping := true }) (by intro nd; simp [thru]) (by intro nd; simp [loc, b2n])
         omega))
  | flushed i =>
    simp only [stopStep, hph] at h
    simp only [Option.some.injEq] at h; subst h
    simp only [modifyNth_length, phPot]
    have := hmod i (fun nd => { nd with stopping := true }) (by intro nd; simp [thru]) (by intro nd; simp [loc, b2n])
    omega
  | delFork =>
    simp only [stopStep, hph] at h
    simp only [Option.some.injEq] at h; subst h
    simp only [modifyNth_length, phPot]
    have := hmod 0 closeIn (by intro nd; simp [thru]) (by intro nd; simp [loc])
    omega
  | etStop =>
    simp only [stopStep, hph] at h
    simp only [Option.some.injEq] at h; subst h
    by_cases hne : s.nodes.isEmpty = true
    · simp [hne, phPot]
    · have : 0 < s.nodes.length := by
        cases hn : s.nodes with
        | nil => simp [hn] at hne
        | cons _ _ => simp
      simp [hne, phPot]; omega
  | wait i =>
    simp only [stopStep, afterWait, hph] at h
    repeat' (first | contradiction | split at h)
    all_goals (first | (simp at h; done) | (simp only [Option.some.injEq] at h; subst h))
    all_goals (simp only [phPot]; omega)
  | idle | closeIngest | waitFork | wantLock | wbWait i | wgWait | unlock | finished =>
    simp only [stopStep, hph] at h
    repeat' (first | contradiction | split at h)
    all_goals (first | (simp at h; done) | (simp only [Option.some.injEq] at h; subst h))
    all_goals (simp only [phPot, b2n]; try omega)

/-- **Every enabled action strictly decreases the measure.** -/
theorem mu_step {cfg : Cfg} {s s' : State} {a : Act} (h : step cfg s a = some s') : mu s' < mu s := by
  cases a with
  | stop => exact mu_stopStep h
  | node i a =>
    simp only [step] at h
    split at h
    · rename_i ns l hst
      simp only [Option.some.injEq] at h; subst h
      have hd := stepAt_dec (s.toWrite + s.ingest + s.forkHand) hst
      have hlen := stepAt_length hst
      unfold mu
      simp only [hlen]
      split at hd <;> simp_all <;> omega
    · simp at h
  | forkPut =>
    simp only [step] at h
    repeat' (first | contradiction | split at h)
    all_goals (first | (simp at h; done) | (simp only [Option.some.injEq] at h; subst h))
    all_goals (unfold mu; simp only [b2n])
    · simp_all
    · have := muAcc_mono (a := s.toWrite + s.ingest + 0) (b := s.toWrite + s.ingest + s.forkHand) (by omega) s.nodes
      simp_all; omega
    · rename_i nd rest hnodes _
      simp only [hnodes, muAcc, locs, thru, loc, List.length_cons]
      have e : s.toWrite + s.ingest + 0 + (nd.inq + 1 + nd.hand) = s.toWrite + s.ingest + s.forkHand + (nd.inq + nd.hand) := by simp_all; omega
      rw [e]
      simp_all; omega
  | write =>
    simp only [step] at h
    split at h
    · simp only [Option.some.injEq] at h; subst h
      rename_i hc
      unfold mu
      have e : s.toWrite - 1 + (s.ingest + 1) + s.forkHand = s.toWrite + s.ingest + s.forkHand := by omega
      simp only [e]; omega
    · simp at h
  | forkTake =>
    simp only [step] at h
    repeat' (first | contradiction | split at h)
    all_goals (first | (simp at h; done) | (simp only [Option.some.injEq] at h; subst h))
    all_goals (unfold mu)
    · rename_i hc hi
      have e : s.toWrite + (s.ingest - 1) + 1 = s.toWrite + s.ingest + s.forkHand := by omega
      simp only [e]; omega
    · simp only []; omega
  | forkLock =>
    simp only [step] at h
    split at h
    · simp only [Option.some.injEq] at h; subst h
      unfold mu; simp_all [b2n]
    · simp at h
  | forkDrop =>
    simp only [step] at h
    repeat' (first | contradiction | split at h)
    all_goals (first | (simp at h; done) | (simp only [Option.some.injEq] at h; subst h))
    unfold mu
    have := muAcc_mono (a := s.toWrite + s.ingest + 0) (b := s.toWrite + s.ingest + s.forkHand) (by omega) s.nodes
    simp_all [b2n]; omega
  | forkExit =>
    simp only [step] at h
    split at h
    · simp only [Option.some.injEq] at h; subst h
      unfold mu; simp_all [b2n]
    · simp at h
  | thrExit =>
    simp only [step] at h
    split at h
    · simp only [Option.some.injEq] at h; subst h
      unfold mu; simp_all [b2n]
    · simp at h

/-- A schedule all of whose actions are enabled is no longer than the measure of its first state. -/
theorem runStrict_length {cfg : Cfg} {s s' : State} {as : List Act} (h : runStrict cfg s as = some s') :
    as.length + mu s' ≤ mu s := by
  induction as generalizing s with
  | nil => simp [runStrict] at h; subst h; simp
  | cons a as ih =>
    simp only [runStrict] at h
    split at h
    · rename_i s1 hs
      have := ih h
      have := mu_step hs
      simp only [List.length_cons]; omega
    · simp at h

end Kap.C07
