/-
C07 — helper lemmas: the observer's view of a model state (`outcomeOf`) and the links between the model-level
results (conservation, lossless invariant, measure, no-deadlock) and the spec (Kap.C07.holds).
-/
import Kap.Proofs.C07Live3
import Kap.Spec.C07
set_option linter.unusedSimpArgs false
set_option linter.unusedVariables false
namespace Kap.C07

def isOutputKind : Kind → Bool
  | .post | .alert _ | .influx _ => true
  | _ => false

/-- What an outside observer sees of a model state (the record the spec talks about). -/
def outcomeOf (s : State) : Outcome :=
  { accepted := s.accepted
    returned := s.ph = .finished
    leaked := (s.nodes.filter (fun nd => !nd.done)).length + (s.nodes.filter (fun nd => !nd.helperDone)).length + (if s.thrDone then 0 else 1)
    delivered := (s.nodes.filter (fun nd => isOutputKind nd.kind)).map (·.deliv)
    nodeFailed := s.nodes.any (·.failed)
    crashed := s.nodes.any (·.panicked) }

/-- No action is enabled. -/
def Quiescent (cfg : Cfg) (s : State) : Prop := ∀ a, step cfg s a = none

theorem stopped_iff (s : State) : s.stopped = true ↔
    s.ph = Ph.finished ∧ s.thrDone = true ∧ ∀ (x : Nd), x ∈ s.nodes → x.done = true ∧ x.helperDone = true := by
  simp only [State.stopped, Bool.and_eq_true, decide_eq_true_eq, List.all_eq_true]

/-- A stopped state satisfies the two termination clauses of the spec. -/
theorem stopped_terminated {s : State} (hst : s.stopped = true) :
    stopCompletes (outcomeOf s) = true ∧ allExited (outcomeOf s) = true := by
  have h := (stopped_iff s).mp hst
  have h1 : (s.nodes.filter (fun nd => !nd.done)).length = 0 := by
    rw [List.length_eq_zero_iff, List.filter_eq_nil_iff]
    intro nd hm; simp [(h.2.2 nd hm).1]
  have h2 : (s.nodes.filter (fun nd => !nd.helperDone)).length = 0 := by
    rw [List.length_eq_zero_iff, List.filter_eq_nil_iff]
    intro nd hm; simp [(h.2.2 nd hm).2]
  simp [stopCompletes, allExited, outcomeOf, h.1, h1, h2, h.2.1]

theorem holds_of {o : Outcome} (h0 : noCrash o = true) (h1 : stopCompletes o = true) (h2 : allExited o = true)
    (h3 : allDelivered o = true) : holds o = true := by
  simp [holds, h0, h1, h2, h3]

/-! ### No helper goroutine sends on a closed edge (repaired barrier timers) -/

def NoPanic (s : State) : Prop := ∀ (i : Nat) (nd : Nd), s.nodes[i]? = some nd → nd.panicked = false

theorem nodeStep_panicked {env a nd child r} (h : nodeStep env a nd child = some r) (hg : env.barrierGuard = true) :
    r.nd.panicked = nd.panicked := by
  nstep h <;> simp_all

theorem ChildEff.panicked {c c' : Nd} (h : ChildEff c c') : c'.panicked = c.panicked := by
  unfold ChildEff at h
  rcases h with h | h | h <;> subst h <;> simp

theorem nopanic_step {cfg : Cfg} {s s' : State} {a : Act} (h : step cfg s a = some s') (hg : cfg.barrierGuard = true)
    (hn : NoPanic s) : NoPanic s' := by
  have same : s'.nodes = s.nodes → NoPanic s' := fun e => by intro i nd hi; rw [e] at hi; exact hn i nd hi
  have modif : ∀ (k : Nat) (f : Nd → Nd), (∀ nd, (f nd).panicked = nd.panicked) → s'.nodes = modifyNth s.nodes k f → NoPanic s' := by
    intro k f hf e i nd hi
    rw [e, modifyNth_getElem?] at hi
    split at hi
    · cases h0 : s.nodes[i]? with
      | none => simp [h0] at hi
      | some x => simp [h0] at hi; subst hi; rw [hf]; exact hn i x h0
    · exact hn i nd hi
  cases a with
  | node i a =>
    simp only [step] at h
    split at h
    · rename_i ns l hst
      simp only [Option.some.injEq] at h; subst h
      obtain ⟨nd, r, g1, g2, _, _, _, _, hnode⟩ := stepAt_cases hst
      intro k x hk
      rcases hnode k x hk with ⟨_, _, h0⟩ | ⟨_, rfl⟩ | ⟨_, c, hc1, _, e2⟩
      · exact hn k x h0
      · rw [nodeStep_panicked g2 (by simp [env, hg])]; exact hn i nd g1
      · rw [e2.panicked]; exact hn _ c hc1
    · simp at h
  | stop =>
    simp only [step] at h
    unfold stopStep at h
    repeat' (first | contradiction | split at h)
    all_goals (first | (simp at h; done) | (simp only [Option.some.injEq] at h; subst h))
    all_goals (first | exact same rfl | (exact modif _ _ (by intro nd; simp) rfl))
  | forkPut =>
    simp only [step] at h
    repeat' (first | contradiction | split at h)
    all_goals (first | (simp at h; done) | (simp only [Option.some.injEq] at h; subst h))
    · exact same rfl
    · exact same rfl
    · rename_i nd rest hnodes _
      intro k x hk
      cases k with
      | zero => simp at hk; subst hk; simpa using hn 0 nd (by rw [hnodes]; rfl)
      | succ k => exact hn (k+1) x (by rw [hnodes]; simpa using hk)
  | _ =>
    simp only [step] at h
    repeat' (first | contradiction | split at h)
    all_goals (first | (simp at h; done) | (simp only [Option.some.injEq] at h; subst h; exact same rfl))

theorem nopanic_run {cfg : Cfg} {s : State} (hg : cfg.barrierGuard = true) (hn : NoPanic s) (as : List Act) :
    NoPanic (run cfg s as) := by
  induction as generalizing s with
  | nil => exact hn
  | cons a as ih =>
    simp only [run]
    split
    · rename_i s' hs; exact ih (nopanic_step hs hg hn)
    · exact ih hn

theorem nopanic_init (kinds : List Kind) (n : Nat) : NoPanic (init kinds n) := by
  intro i nd h
  obtain ⟨k, _, rfl⟩ := init_getElem? _ _ _ _ h
  rfl

theorem noCrash_of {s : State} (hn : NoPanic s) : noCrash (outcomeOf s) = true := by
  simp only [noCrash, outcomeOf, Bool.not_eq_true', List.any_eq_false]
  intro nd hm
  obtain ⟨j, hj⟩ := List.getElem?_of_mem hm
  simp [hn j nd hj]

theorem allDelivered_of_failed {s : State} (hf : s.nodes.any (·.failed) = true) : allDelivered (outcomeOf s) = true := by
  simp only [allDelivered, outcomeOf, hf, Bool.true_or]

theorem runStrict_eq_run {cfg : Cfg} {s s' : State} {as : List Act} (h : runStrict cfg s as = some s') : run cfg s as = s' := by
  induction as generalizing s with
  | nil => simp only [runStrict, Option.some.injEq] at h; simp only [run]; exact h
  | cons a as ih =>
    simp only [runStrict] at h
    simp only [run]
    cases hs : step cfg s a with
    | none => simp [hs] at h
    | some s1 => simp only [hs] at h ⊢; exact ih h

theorem quiescent_not_progress {cfg : Cfg} {s : State} (hq : Quiescent cfg s) : ¬ Progress cfg s := by
  rintro ⟨a, ha⟩; rw [hq a] at ha; simp at ha

/-- Lossless chains: a stopped state has handed every accepted point to every output. -/
theorem lossless_delivered {N cfg} {s : State} (hl : Lossless N cfg s) (hst : s.stopped = true) :
    (outcomeOf s).delivered.all (· = s.accepted) = true := by
  have hent := lossless_stopped_ent hl hst
  have hst' := (stopped_iff s).mp hst
  simp only [outcomeOf, List.all_eq_true, List.mem_map, List.mem_filter, decide_eq_true_eq]
  rintro d ⟨nd, ⟨hmem, hkind⟩, rfl⟩
  obtain ⟨j, hj⟩ := List.getElem?_of_mem hmem
  have hg := (hent j nd hj).2
  have hb := hl.cons.nodeOut j nd hj
  have hL := hl.nodes j nd hj
  have hd := hst'.2.2 nd hmem
  have hkl := hL.kind
  unfold balOut at hb
  cases hkk : nd.kind with
  | post => rw [hkk] at hb; simp only at hb; omega
  | alert H =>
    -- the handler goroutine has exited, so its queue is empty; nothing overflowed
    rw [hkk] at hb; simp only at hb
    have := hL.helpq ⟨H, hkk⟩ hd.2
    have := hL.nolost
    omega
  | influx B => rw [hkk] at hkl; simp [losslessKind] at hkl
  | pass => rw [hkk] at hkind; simp [isOutputKind] at hkind
  | udf => rw [hkk] at hkind; simp [isOutputKind] at hkind
  | fail K => rw [hkk] at hkind; simp [isOutputKind] at hkind
  | loop => rw [hkk] at hkind; simp [isOutputKind] at hkind
  | barrier d => rw [hkk] at hkind; simp [isOutputKind] at hkind

theorem lossless_holds {N cfg} {s : State} (hl : Lossless N cfg s) (hst : s.stopped = true) (hn : NoPanic s) :
    holds (outcomeOf s) = true := by
  have ⟨h1, h2⟩ := stopped_terminated hst
  refine holds_of (noCrash_of hn) h1 h2 ?_
  have := lossless_delivered hl hst
  simp only [allDelivered, Bool.or_eq_true]
  right
  have e : (outcomeOf s).accepted = s.accepted := rfl
  rw [e]; exact this

theorem losslessKind_not_loop {N : Nat} {k : Kind} (h : losslessKind N k = true) : isLoop k = false := by
  cases k <;> simp_all [losslessKind, isLoop]

theorem losslessKind_not_udf {N : Nat} {k : Kind} (h : losslessKind N k = true) : isUdf k = false := by
  cases k <;> simp_all [losslessKind, isUdf]

end Kap.C07
