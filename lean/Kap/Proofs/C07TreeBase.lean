/-
C07 (trees) — helper lemmas: what one node action of the tree model does to the node list (the acting node, its
children, everybody else).
-/
import Kap.Model.C07Tree
import Kap.Proofs.C07Inv
set_option linter.unusedSimpArgs false
set_option linter.unusedVariables false
namespace Kap.C07.Tree
open Kap.C07

theorem mapI_length (g : Nat → Nd → Nd) : ∀ (off : Nat) (l : List Nd), (mapI g off l).length = l.length := by
  intro off l
  induction l generalizing off with
  | nil => rfl
  | cons x r ih => simp [mapI, ih]

theorem mapI_getElem? (g : Nat → Nd → Nd) : ∀ (off : Nat) (l : List Nd) (k : Nat),
    (mapI g off l)[k]? = l[k]?.map (g (off + k)) := by
  intro off l
  induction l generalizing off with
  | nil => intro k; simp [mapI]
  | cons x r ih =>
    intro k
    cases k with
    | zero => simp [mapI]
    | succ k =>
      simp only [mapI, List.getElem?_cons_succ, ih]
      have : off + 1 + k = off + (k + 1) := by omega
      rw [this]

theorem tupd_length {ns : List Nd} {i : Nat} (hi : i < ns.length) (nd' : Nd) (g : Nat → Nd → Nd) :
    (tupd ns i nd' g).length = ns.length := by
  unfold tupd
  simp only [List.length_append, List.length_take, List.length_cons, mapI_length, List.length_drop]
  omega

theorem tupd_getElem? {ns : List Nd} {i : Nat} (hi : i < ns.length) (nd' : Nd) (g : Nat → Nd → Nd) (k : Nat) :
    (tupd ns i nd' g)[k]? = if k < i then ns[k]? else if k = i then some nd' else ns[k]?.map (g k) := by
  unfold tupd
  have hlen : (ns.take i).length = i := by simp only [List.length_take]; omega
  by_cases h1 : k < i
  · rw [List.getElem?_append_left (by omega)]
    simp [h1, List.getElem?_take]
  · rw [List.getElem?_append_right (by omega)]
    simp only [h1, if_false, hlen]
    by_cases h2 : k = i
    · subst h2; simp
    · obtain ⟨m, hm⟩ : ∃ m, k - i = m + 1 := ⟨k - i - 1, by omega⟩
      rw [hm, List.getElem?_cons_succ, mapI_getElem?, List.getElem?_drop]
      have e : i + 1 + m = k := by omega
      simp [h2, e]

theorem isChild_lt {par : List Nat} {i k : Nat} (h : isChild par i k = true) : i < k := by
  simp only [isChild, Bool.and_eq_true, decide_eq_true_eq] at h; exact h.1

theorem isChild_par {par : List Nat} {i k : Nat} (h : isChild par i k = true) : par[k]? = some i := by
  simp only [isChild, Bool.and_eq_true, decide_eq_true_eq, beq_iff_eq] at h; exact h.2

/-- a node has one parent -/
theorem isChild_unique {par : List Nat} {i j k : Nat} (h1 : isChild par i k = true) (h2 : isChild par j k = true) : i = j := by
  have a := isChild_par h1
  have b := isChild_par h2
  rw [a] at b; simpa using b

/-- the child edge the forward loop of `nd` (node `i`) is at -/
def curOf (par : List Nat) (ns : List Nd) (i : Nat) (nd : Nd) : Option Nat :=
  if fwd nd.kind then curChild par ns i else none

theorem curChild_some {par : List Nat} {ns : List Nd} {i k : Nat} (h : curChild par ns i = some k) :
    isChild par i k = true ∧ owedAt ns k = true ∧ k < ns.length := by
  unfold curChild at h
  have h1 := List.find?_some h
  have h2 := List.mem_of_find?_eq_some h
  simp only [Bool.and_eq_true] at h1
  exact ⟨h1.1, h1.2, by simpa using h2⟩

theorem curOf_some {par : List Nat} {ns : List Nd} {i k : Nat} {nd : Nd} (h : curOf par ns i nd = some k) :
    fwd nd.kind = true ∧ isChild par i k = true ∧ owedAt ns k = true ∧ k < ns.length := by
  unfold curOf at h
  split at h
  · rename_i hf; exact ⟨hf, curChild_some h⟩
  · simp at h

theorem owedAt_some {ns : List Nd} {k : Nat} {x : Nd} (h : ns[k]? = some x) : owedAt ns k = decide (0 < x.owed) := by
  simp [owedAt, h]

/-- no child of a forwarding node is owed a message ⇒ there is no current child -/
theorem curChild_none_iff {par : List Nat} {ns : List Nd} {i : Nat} :
    curChild par ns i = none ↔ ∀ k, k < ns.length → isChild par i k = true → owedAt ns k = false := by
  unfold curChild
  rw [List.find?_eq_none]
  constructor
  · intro h k hk hc
    have := h k (by simpa using hk)
    simp only [Bool.and_eq_true, not_and, Bool.not_eq_true] at this
    exact this hc
  · intro h k hk
    simp only [Bool.and_eq_true, not_and, Bool.not_eq_true]
    exact h k (by simpa using hk)

theorem othersOwed_false {par : List Nat} {ns : List Nd} {i : Nat} {cur : Option Nat}
    (h : othersOwed par ns i cur = false) : ∀ k, k < ns.length → some k ≠ cur → isChild par i k = true → owedAt ns k = false := by
  intro k hk hne hc
  unfold othersOwed at h
  rw [List.any_eq_false] at h
  have := h k (by simpa using hk)
  simpa [hne, hc] using this

/-! ### `nodeStep` facts used by the tree wrapper -/

/-- `put` of a forwarding kind into the child edge `c` -/
theorem nodeStep_put_some {env : Env} {nd c : Nd} {r : NRes} (h : nodeStep env .put nd (some c) = some r) (hf : fwd nd.kind = true) :
    r.nd = { nd with hand := 0 } ∧ r.child = some { c with inq := c.inq + 1, ent := c.ent + 1 } ∧ c.inq < env.cap ∧
      nd.hand = 1 ∧ nd.done = false ∧ nd.failed = false ∧ r.looped = false := by
  nstep h <;> simp_all [fwd]

/-- `put` of a forwarding kind without a child edge to serve (a leaf) -/
theorem nodeStep_put_none {env : Env} {nd : Nd} {r : NRes} (h : nodeStep env .put nd none = some r) (hf : fwd nd.kind = true) :
    r.nd = { nd with hand := 0 } ∧ nd.hand = 1 ∧ r.looped = false := by
  nstep h <;> simp_all [fwd]

theorem nodeStep_exit_done {env : Env} {nd : Nd} {child : Option Nd} {r : NRes} (h : nodeStep env .exit nd child = some r) :
    r.nd.done = true ∧ nd.done = false := by
  nstep h <;> simp_all

/-- the `owed` field belongs to the PARENT's forward loop: no action of the node itself touches it -/
theorem nodeStep_owed {env a nd child r} (h : nodeStep env a nd child = some r) : r.nd.owed = nd.owed := by
  nstep h <;> rfl

/-! ### One node action of the tree -/

/-- What an action of node `nd` (result `rnd`) may do to one of its children. -/
def CE (env : Env) (a : NAct) (nd rnd : Nd) (x x' : Nd) : Prop :=
  (x' = x ∧ a ≠ .exit ∧ a ≠ .putErr ∧ (a = .take → ¬ (fwd nd.kind = true ∧ nd.hand = 0 ∧ rnd.hand = 1))) ∨
  (a = .take ∧ x' = { x with owed := 1 } ∧ fwd nd.kind = true ∧ nd.hand = 0 ∧ rnd.hand = 1) ∨
  (a = .put ∧ x' = { x with inq := x.inq + 1, ent := x.ent + 1, owed := 0 } ∧ 0 < x.owed ∧ x.inq < env.cap ∧
    fwd nd.kind = true ∧ nd.hand = 1 ∧ nd.done = false ∧ nd.failed = false) ∨
  (a = .putErr ∧ x' = { x with owed := 0 }) ∨
  (a = .exit ∧ x' = closeIn { x with owed := 0 } ∧ rnd.done = true)

structure TSpec (env : Env) (par : List Nat) (ns ns' : List Nd) (i : Nat) (a : NAct) (l : Bool) (nd : Nd) (r : NRes) (nd' : Nd) : Prop where
  at_i : ns[i]? = some nd
  ns_step : nodeStep env a nd ((curOf par ns i nd).bind (fun k => ns[k]?)) = some r
  looped : l = r.looped
  len : ns'.length = ns.length
  at_i' : ns'[i]? = some nd'
  /-- the acting node: the result of `nodeStep`, or unchanged when a `put` served a child that is not the last one -/
  acting : nd' = r.nd ∨ (a = .put ∧ nd' = nd ∧ fwd nd.kind = true ∧ nd.hand = 1 ∧ nd.failed = false ∧ nd.done = false ∧
    r.nd = { nd with hand := 0 } ∧ r.looped = false ∧ ∃ kc, curOf par ns i nd = some kc)
  /-- a `put` collects the message into the child edge the forward loop is at -/
  cur_put : a = .put → ∀ kc, curOf par ns i nd = some kc → ∃ x, ns[kc]? = some x ∧ 0 < x.owed ∧
    ns'[kc]? = some { x with inq := x.inq + 1, ent := x.ent + 1, owed := 0 }
  /-- after the `put` that ends the forward loop no child is owed the message any more -/
  last : a = .put → nd' = r.nd → fwd nd.kind = true → ∀ k x', isChild par i k = true → ns'[k]? = some x' → x'.owed = 0
  other : ∀ k, k ≠ i → isChild par i k = false → ns'[k]? = ns[k]?
  child : ∀ k x, isChild par i k = true → ns[k]? = some x → ∃ x', ns'[k]? = some x' ∧ CE env a nd r.nd x x'

theorem tnode_spec {env : Env} {par : List Nat} {ns ns' : List Nd} {i : Nat} {a : NAct} {l : Bool}
    (h : tnode env par ns i a = some (ns', l)) : ∃ nd r nd', TSpec env par ns ns' i a l nd r nd' := by
  unfold tnode at h
  cases hi : ns[i]? with
  | none => simp [hi] at h
  | some nd =>
    simp only [hi] at h
    have hcur : (if fwd nd.kind then curChild par ns i else none) = curOf par ns i nd := rfl
    rw [hcur] at h
    cases hs : nodeStep env a nd ((curOf par ns i nd).bind (fun k => ns[k]?)) with
    | none => simp [hs] at h
    | some r =>
      simp only [hs, Option.some.injEq, Prod.mk.injEq] at h
      obtain ⟨h1, h2⟩ := h
      have hilt : i < ns.length := by
        rcases Nat.lt_or_ge i ns.length with h | h
        · exact h
        · rw [List.getElem?_eq_none_iff.mpr h] at hi; simp at hi
      -- the current child as a node
      have hcurnd : ∀ k, curOf par ns i nd = some k → ∃ c, ns[k]? = some c ∧ 0 < c.owed ∧
          (curOf par ns i nd).bind (fun k => ns[k]?) = some c := by
        intro k hk
        obtain ⟨_, _, ho, hlt⟩ := curOf_some hk
        have : ns[k]? = some ns[k] := List.getElem?_eq_getElem hlt
        refine ⟨ns[k], this, ?_, by rw [hk]; simp [this]⟩
        rw [owedAt_some this] at ho; simpa using ho
      let keep := (a == NAct.put) && fwd nd.kind && othersOwed par ns i (curOf par ns i nd)
      let g : Nat → Nd → Nd := fun k x => if isChild par i k then
        childEff a (fwd nd.kind && (nd.hand == 0) && (r.nd.hand == 1)) (curOf par ns i nd) r.child k x else x
      have hns' : ns' = tupd ns i (if keep then nd else r.nd) g := h1.symm
      have get : ∀ k, ns'[k]? = if k < i then ns[k]? else if k = i then some (if keep then nd else r.nd) else ns[k]?.map (g k) := by
        intro k; rw [hns']; exact tupd_getElem? hilt _ _ k
      have getc : ∀ k x, isChild par i k = true → ns[k]? = some x →
          ns'[k]? = some (childEff a (fwd nd.kind && (nd.hand == 0) && (r.nd.hand == 1)) (curOf par ns i nd) r.child k x) := by
        intro k x hc hx
        have := isChild_lt hc
        rw [get k]
        simp only [show ¬ k < i by omega, show ¬ k = i by omega, if_false, hx, Option.map_some, g, hc, if_true]
      -- facts about a `put` of a forwarding kind
      have hput : a = .put → fwd nd.kind = true → r.nd = { nd with hand := 0 } ∧ nd.hand = 1 ∧ nd.failed = false ∧ nd.done = false ∧ r.looped = false := by
        intro ha hf
        subst ha
        cases hc : curOf par ns i nd with
        | none =>
          rw [hc] at hs; simp only [Option.bind_none] at hs
          have := nodeStep_put_none hs hf
          nstep hs <;> simp_all [fwd]
        | some k =>
          obtain ⟨c, _, _, hb⟩ := hcurnd k hc
          rw [hb] at hs
          have := nodeStep_put_some hs hf
          exact ⟨this.1, this.2.2.2.1, this.2.2.2.2.2.1, this.2.2.2.2.1, this.2.2.2.2.2.2⟩
      refine ⟨nd, r, if keep then nd else r.nd, ⟨hi, hs, h2.symm, ?_, ?_, ?_, ?_, ?_, ?_, ?_⟩⟩
      · rw [hns']; exact tupd_length hilt _ _
      · rw [get i]; simp
      · by_cases hk : keep = true
        · right
          have hk' := hk
          simp only [keep, Bool.and_eq_true, beq_iff_eq] at hk'
          have := hput hk'.1.1 hk'.1.2
          rw [if_pos hk]
          refine ⟨hk'.1.1, rfl, hk'.1.2, this.2.1, this.2.2.1, this.2.2.2.1, this.1, this.2.2.2.2, ?_⟩
          -- another child is owed the message, so there is a current child
          cases hc : curOf par ns i nd with
          | some kc => exact ⟨kc, rfl⟩
          | none =>
            exfalso
            have hoth := hk'.2
            rw [hc] at hoth
            have hcn : curChild par ns i = none := by simpa [curOf, hk'.1.2] using hc
            rw [curChild_none_iff] at hcn
            unfold othersOwed at hoth
            rw [List.any_eq_true] at hoth
            obtain ⟨k, hkm, hkk⟩ := hoth
            simp only [Bool.and_eq_true] at hkk
            have := hcn k (by simpa using hkm) hkk.1.2
            rw [this] at hkk; simp at hkk
        · left; simp [hk]
      · intro ha kc hkc
        subst ha
        obtain ⟨hf, hcc, _, _⟩ := curOf_some hkc
        obtain ⟨c, hc', hco, hb⟩ := hcurnd kc hkc
        refine ⟨c, hc', hco, ?_⟩
        rw [getc kc c hcc hc']
        rw [hb] at hs
        have := nodeStep_put_some hs hf
        simp only [childEff, hkc, if_true, this.2.1, Option.getD_some]
      · intro ha hnd' hf k x' hc hx'
        subst ha
        -- keep = false, so no other child is owed
        have hkeep : keep = false := by
          cases hk : keep with
          | false => rfl
          | true =>
            exfalso
            simp only [hk, if_true] at hnd'
            have := (hput rfl hf)
            rw [this.1] at hnd'
            have : nd.hand = 0 := by rw [hnd']
            omega
        have hoth : othersOwed par ns i (curOf par ns i nd) = false := by
          simpa [keep, hf] using hkeep
        have hklt : k < ns.length := by
          have : k < ns'.length := by
            rcases Nat.lt_or_ge k ns'.length with h | h
            · exact h
            · rw [List.getElem?_eq_none_iff.mpr h] at hx'; simp at hx'
          rw [hns', tupd_length hilt] at this; exact this
        have hx : ns[k]? = some ns[k] := List.getElem?_eq_getElem hklt
        rw [getc k _ hc hx] at hx'
        simp only [Option.some.injEq] at hx'
        subst hx'
        simp only [childEff]
        by_cases hck : curOf par ns i nd = some k
        · simp [hck]
        · simp only [hck, if_false]
          have := othersOwed_false hoth k hklt (fun e => hck e.symm) hc
          rw [owedAt_some hx] at this
          simpa using this
      · intro k hki hnc
        rw [get k]
        by_cases h1 : k < i
        · simp [h1]
        · simp only [h1, hki, if_false, g, hnc]
          cases ns[k]? <;> simp
      · intro k x hc hx
        refine ⟨_, getc k x hc hx, ?_⟩
        cases a with
        | take =>
          by_cases hn : (fwd nd.kind && (nd.hand == 0) && (r.nd.hand == 1)) = true
          · have hn' := hn
            simp only [Bool.and_eq_true, beq_iff_eq] at hn'
            refine Or.inr (Or.inl ⟨rfl, ?_, hn'.1.1, hn'.1.2, hn'.2⟩)
            simp only [childEff, hn, if_true]
          · refine Or.inl ⟨by simp only [childEff, hn]; rfl, by simp, by simp, fun _ hh => hn ?_⟩
            simp only [Bool.and_eq_true, beq_iff_eq]
            exact ⟨⟨hh.1, hh.2.1⟩, hh.2.2⟩
        | put =>
          by_cases hck : curOf par ns i nd = some k
          · obtain ⟨hf, _, _, _⟩ := curOf_some hck
            obtain ⟨c, hc', hco, hb⟩ := hcurnd k hck
            rw [hx] at hc'; simp only [Option.some.injEq] at hc'; subst hc'
            rw [hb] at hs
            have := nodeStep_put_some hs hf
            refine Or.inr (Or.inr (Or.inl ⟨rfl, ?_, hco, this.2.2.1, hf, this.2.2.2.1, this.2.2.2.2.1, this.2.2.2.2.2.1⟩))
            simp only [childEff, hck, if_true, this.2.1, Option.getD_some]
          · exact Or.inl ⟨by simp only [childEff, hck, if_false], by simp, by simp, by simp⟩
        | putErr => exact Or.inr (Or.inr (Or.inr (Or.inl ⟨rfl, by simp only [childEff]⟩)))
        | exit => exact Or.inr (Or.inr (Or.inr (Or.inr ⟨rfl, by simp only [childEff], (nodeStep_exit_done hs).1⟩)))
        | init | enqDrop | closeOut | tick | handle | helperExit | timerFire => exact Or.inl ⟨by simp only [childEff], by simp, by simp, by simp⟩

/-- Every node of the list after a node action at `i`: the acting node, one of its children, or untouched. -/
theorem TSpec.cases {env par ns ns' i a l nd r nd'} (h : TSpec env par ns ns' i a l nd r nd') :
    ∀ (k : Nat) (x' : Nd), ns'[k]? = some x' →
      (k = i ∧ x' = nd') ∨ (k ≠ i ∧ isChild par i k = false ∧ ns[k]? = some x') ∨
      (isChild par i k = true ∧ ∃ x, ns[k]? = some x ∧ CE env a nd r.nd x x') := by
  intro k x' hk
  by_cases hki : k = i
  · subst hki; rw [h.at_i'] at hk; simp at hk; exact Or.inl ⟨rfl, hk.symm⟩
  · cases hc : isChild par i k with
    | false => rw [h.other k hki hc] at hk; exact Or.inr (Or.inl ⟨hki, rfl, hk⟩)
    | true =>
      have hklt : k < ns.length := by
        rw [← h.len]
        rcases Nat.lt_or_ge k ns'.length with h' | h'
        · exact h'
        · rw [List.getElem?_eq_none_iff.mpr h'] at hk; simp at hk
      have hx : ns[k]? = some ns[k] := List.getElem?_eq_getElem hklt
      obtain ⟨x'', e1, e2⟩ := h.child k _ hc hx
      rw [e1] at hk; simp at hk; subst hk
      exact Or.inr (Or.inr ⟨rfl, _, hx, e2⟩)

theorem tnode_isSome {env : Env} {par : List Nat} {ns : List Nd} {i : Nat} {a : NAct} {nd : Nd} {r : NRes}
    (hi : ns[i]? = some nd) (hs : nodeStep env a nd ((curOf par ns i nd).bind (fun k => ns[k]?)) = some r) :
    (tnode env par ns i a).isSome = true := by
  unfold tnode
  simp only [hi]
  have hcur : (if fwd nd.kind then curChild par ns i else none) = curOf par ns i nd := rfl
  rw [hcur, hs]; rfl

theorem fwd_eq_forwards (k : Kind) : fwd k = forwards k := by cases k <;> rfl

end Kap.C07.Tree
