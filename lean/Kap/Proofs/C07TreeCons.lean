/-
C07 (trees) — conservation on a tree: the per-node balances of the chain model (`balIn`, `balOut`) and, for EVERY edge
parent → child, what the parent took is in the child's edge, still owed by the parent's forward loop, or among the
messages whose forward loop was cut short (`dropped`).
-/
import Kap.Proofs.C07TreeBase
set_option linter.unusedSimpArgs false
set_option linter.unusedVariables false
namespace Kap.C07.Tree
open Kap.C07

/-- The edge parent `nd` → child `x`. -/
def TEdge (nd x : Nd) : Prop :=
  x.owed ≤ 1 ∧ (nd.hand = 0 → x.owed = 0) ∧ (fwd nd.kind = false → x.owed = 0) ∧
  (fwd nd.kind = true → x.ent + x.owed ≤ nd.got ∧ nd.got ≤ x.ent + x.owed + nd.dropped)

/-- Conservation invariant of a state of the tree model. -/
structure TCons (par : List Nat) (s : State) : Prop where
  nodeIn : ∀ (i : Nat) (nd : Nd), s.nodes[i]? = some nd → balIn nd
  nodeOut : ∀ (i : Nat) (nd : Nd), s.nodes[i]? = some nd → balOut nd
  fh : ∀ (i : Nat) (nd : Nd), s.nodes[i]? = some nd → nd.failed = true → nd.hand = 0
  edge : ∀ (p c : Nat) (nd x : Nd), isChild par p c = true → s.nodes[p]? = some nd → s.nodes[c]? = some x → TEdge nd x
  src : s.accepted = s.ingest + s.forkHand + s.lostIngest + (s.nodes[0]?.map (·.ent)).getD 0

/-! ### `nodeStep` and the edges of the acting node -/

theorem nodeStep_fh {env a nd child r} (h : nodeStep env a nd child = some r) (hf : nd.failed = true → nd.hand = 0) :
    r.nd.failed = true → r.nd.hand = 0 := by
  nstep h <;> simp_all

/-- an untouched child of the acting node -/
theorem nodeStep_edge_same {env a nd child r} {x : Nd} (h : nodeStep env a nd child = some r) (ha : a ≠ .exit) (hb : a ≠ .putErr)
    (ht : a = .take → ¬ (fwd nd.kind = true ∧ nd.hand = 0 ∧ r.nd.hand = 1)) (hp : a = .put → fwd nd.kind = true → x.owed = 0)
    (he : TEdge nd x) : TEdge r.nd x := by
  unfold TEdge at *
  nstep h <;> simp_all [fwd] <;> omega

/-- a `take` that starts the forward loop: every child is owed the message -/
theorem nodeStep_edge_take {env nd child r} {x : Nd} (h : nodeStep env .take nd child = some r) (hf : fwd nd.kind = true)
    (h0 : nd.hand = 0) (h1 : r.nd.hand = 1) (he : TEdge nd x) : TEdge r.nd { x with owed := 1 } := by
  unfold TEdge at *
  nstep h <;> simp_all [fwd] <;> omega

theorem nodeStep_edge_putErr {env nd child r} {x : Nd} (h : nodeStep env .putErr nd child = some r) (he : TEdge nd x) :
    TEdge r.nd { x with owed := 0 } := by
  unfold TEdge at *
  nstep h <;> simp_all [fwd] <;> omega

theorem nodeStep_edge_exit {env nd child r} {x : Nd} (h : nodeStep env .exit nd child = some r) (hf : nd.failed = true → nd.hand = 0)
    (he : TEdge nd x) : TEdge r.nd (closeIn { x with owed := 0 }) := by
  unfold TEdge at *
  cases hfw : fwd nd.kind <;> (nstep h <;> simp_all <;> omega)

theorem nodeStep_put_fwd_nd {env nd child r} (h : nodeStep env .put nd child = some r) (hf : fwd nd.kind = true) :
    r.nd = { nd with hand := 0 } := by
  nstep h <;> simp_all [fwd]

/-- the child the forward loop was at has got the message -/
theorem edge_recv {nd x : Nd} (he : TEdge nd x) (ho : 0 < x.owed) (hf : fwd nd.kind = true) :
    TEdge nd { x with inq := x.inq + 1, ent := x.ent + 1, owed := 0 } ∧
    TEdge { nd with hand := 0 } { x with inq := x.inq + 1, ent := x.ent + 1, owed := 0 } := by
  unfold TEdge at *
  simp_all
  omega

theorem CE.facts2 {env a nd rnd x x'} (h : CE env a nd rnd x x') :
    x'.kind = x.kind ∧ x'.hand = x.hand ∧ x'.got = x.got ∧ x'.dropped = x.dropped ∧ x'.failed = x.failed ∧
      x'.deliv = x.deliv ∧ x'.buf = x.buf ∧ x'.lost = x.lost := by
  rcases h with ⟨h, _⟩ | ⟨_, h, _⟩ | ⟨_, h, _⟩ | ⟨_, h⟩ | ⟨_, h, _⟩ <;> subst h <;> simp

theorem CE.balIn {env a nd rnd x x'} (h : CE env a nd rnd x x') (hb : balIn x) : balIn x' := by
  unfold Kap.C07.balIn at *
  rcases h with ⟨h, _⟩ | ⟨_, h, _⟩ | ⟨_, h, _⟩ | ⟨_, h⟩ | ⟨_, h, _⟩ <;> subst h <;> (try simp) <;> omega

theorem CE.balOut {env a nd rnd x x'} (h : CE env a nd rnd x x') (hb : balOut x) : balOut x' := by
  have hf := h.facts2
  unfold Kap.C07.balOut at *
  rw [hf.1, hf.2.1, hf.2.2.1, hf.2.2.2.2.2.1, hf.2.2.2.2.2.2.1, hf.2.2.2.2.2.2.2]
  exact hb

/-- an edge whose parent is untouched on the parent side and whose child keeps `ent` and `owed` -/
theorem TEdge.congr {nd nd' x x' : Nd} (he : TEdge nd x) (hk : nd'.kind = nd.kind) (hh : nd'.hand = nd.hand) (hg : nd'.got = nd.got)
    (hd : nd'.dropped = nd.dropped) (hent : x'.ent = x.ent) (how : x'.owed = x.owed) : TEdge nd' x' := by
  unfold TEdge at *
  rw [hk, hh, hg, hd, hent, how]; exact he

/-- **Conservation is preserved by every node action of the tree.** -/
theorem tcons_nodeAct {par : List Nat} {cfg} {s s' : State} {i : Nat} {a : NAct} (h : Tree.step cfg par s (.node i a) = some s')
    (hc : TCons par s) : TCons par s' := by
  simp only [Tree.step] at h
  split at h
  case h_2 => simp at h
  rename_i ns l hst
  simp only [Option.some.injEq] at h
  obtain ⟨nd, r, nd', sp⟩ := tnode_spec hst
  have hcases := sp.cases
  have g1 := sp.at_i
  have g2 := sp.ns_step
  have hnodes' : s'.nodes = ns := by rw [← h]
  have hfh := hc.fh i nd g1
  -- the acting node keeps what its own parent looks at
  have hact : nd'.ent = nd.ent ∧ nd'.owed = nd.owed := by
    rcases sp.acting with e | ⟨_, e, _⟩ <;> rw [e]
    · exact ⟨nodeStep_ent g2, nodeStep_owed g2⟩
    · exact ⟨rfl, rfl⟩
  -- a child of the acting node
  have hchild : ∀ k x x', isChild par i k = true → s.nodes[k]? = some x → ns[k]? = some x' → CE (env cfg s) a nd r.nd x x' →
      TEdge nd' x' := by
    intro k x x' hck hx hx' hce
    have he := hc.edge i k nd x hck g1 hx
    rcases hce with ⟨e, hne, hnp, hnt⟩ | ⟨ha, e, hf, h0, h1⟩ | ⟨ha, e, ho, _, hf, _⟩ | ⟨ha, e⟩ | ⟨ha, e, _⟩
    · subst e
      rcases sp.acting with e' | ⟨_, e', _⟩ <;> rw [e']
      · refine nodeStep_edge_same g2 hne hnp hnt ?_ he
        intro hput hf
        exact sp.last hput e' hf k x' hck hx'
      · exact he
    · subst e; subst ha
      have e' : nd' = r.nd := by
        rcases sp.acting with e' | ⟨hput, _⟩
        · exact e'
        · simp at hput
      rw [e']; exact nodeStep_edge_take g2 hf h0 h1 he
    · subst e
      have hr := edge_recv he ho hf
      rcases sp.acting with e' | ⟨_, e', _, _, _, _, _⟩
      · subst ha
        have := (nodeStep_put_fwd_nd g2 hf)
        rw [e', this]; exact hr.2
      · rw [e']; exact hr.1
    · subst e; subst ha
      have e' : nd' = r.nd := by
        rcases sp.acting with e' | ⟨hput, _⟩
        · exact e'
        · simp at hput
      rw [e']; exact nodeStep_edge_putErr g2 he
    · subst e; subst ha
      have e' : nd' = r.nd := by
        rcases sp.acting with e' | ⟨hput, _⟩
        · exact e'
        · simp at hput
      rw [e']; exact nodeStep_edge_exit g2 hfh he
  refine ⟨?_, ?_, ?_, ?_, ?_⟩
  · intro k x hk
    rw [hnodes'] at hk
    rcases hcases k x hk with ⟨_, rfl⟩ | ⟨_, _, h0⟩ | ⟨_, x0, hx0, hce⟩
    · rcases sp.acting with e | ⟨_, e, _⟩ <;> rw [e]
      · exact nodeStep_balIn g2 (hc.nodeIn i nd g1)
      · exact hc.nodeIn i nd g1
    · exact hc.nodeIn k x h0
    · exact hce.balIn (hc.nodeIn k x0 hx0)
  · intro k x hk
    rw [hnodes'] at hk
    rcases hcases k x hk with ⟨_, rfl⟩ | ⟨_, _, h0⟩ | ⟨_, x0, hx0, hce⟩
    · rcases sp.acting with e | ⟨_, e, _⟩ <;> rw [e]
      · exact nodeStep_balOut g2 (hc.nodeOut i nd g1)
      · exact hc.nodeOut i nd g1
    · exact hc.nodeOut k x h0
    · exact hce.balOut (hc.nodeOut k x0 hx0)
  · intro k x hk
    rw [hnodes'] at hk
    rcases hcases k x hk with ⟨_, rfl⟩ | ⟨_, _, h0⟩ | ⟨_, x0, hx0, hce⟩
    · rcases sp.acting with e | ⟨_, e, _⟩ <;> rw [e]
      · exact nodeStep_fh g2 hfh
      · exact hfh
    · exact hc.fh k x h0
    · have hf := hce.facts2
      rw [hf.2.2.2.2.1, hf.2.1]; exact hc.fh k x0 hx0
  · intro p c x y hpc hk hk1
    rw [hnodes'] at hk hk1
    have hlt := isChild_lt hpc
    rcases hcases p x hk with ⟨hpi, rfl⟩ | ⟨hpi, hpnc, h0⟩ | ⟨hpc', x0, hx0, hce⟩
    · subst hpi
      rcases hcases c y hk1 with ⟨hci, _⟩ | ⟨_, hnc, _⟩ | ⟨_, y0, hy0, hce⟩
      · omega
      · rw [hpc] at hnc; simp at hnc
      · exact hchild c y0 y hpc hy0 hk1 hce
    · rcases hcases c y hk1 with ⟨hci, rfl⟩ | ⟨_, _, h1⟩ | ⟨hc', _⟩
      · subst hci
        exact (hc.edge p c x nd hpc h0 g1).congr rfl rfl rfl rfl hact.1 hact.2
      · exact hc.edge p c x y hpc h0 h1
      · exact absurd (isChild_unique hpc hc') hpi
    · have hpi : p ≠ i := by have := isChild_lt hpc'; omega
      rcases hcases c y hk1 with ⟨hci, _⟩ | ⟨_, _, h1⟩ | ⟨hc', _⟩
      · have := isChild_lt hpc'; omega
      · have hf := hce.facts2
        exact (hc.edge p c x0 y hpc hx0 h1).congr hf.1 hf.2.1 hf.2.2.1 hf.2.2.2.1 rfl rfl
      · exact absurd (isChild_unique hpc hc') hpi
  · have e1 : s'.accepted = s.accepted ∧ s'.ingest = s.ingest ∧ s'.forkHand = s.forkHand ∧ s'.lostIngest = s.lostIngest := by
      rw [← h]; simp
    rw [e1.1, e1.2.1, e1.2.2.1, e1.2.2.2, hc.src, hnodes']
    cases hn0 : ns[0]? with
    | none =>
      have : s.nodes[0]? = none := by
        rw [List.getElem?_eq_none_iff] at hn0 ⊢; rw [← sp.len]; exact hn0
      rw [this]
    | some x =>
      rcases hcases 0 x hn0 with ⟨hki, rfl⟩ | ⟨_, _, h0⟩ | ⟨hc0, _⟩
      · rw [← hki] at g1; rw [g1]; simp [hact.1]
      · rw [h0]
      · have := isChild_lt hc0; omega

/-- A change of one node that keeps what the edges and balances look at. -/
theorem tcons_modifyNth {par : List Nat} {s s' : State} (hc : TCons par s) (i : Nat) (f : Nd → Nd)
    (hn : s'.nodes = modifyNth s.nodes i f)
    (hin : ∀ nd, s.nodes[i]? = some nd → balIn nd → balIn (f nd)) (hout : ∀ nd, s.nodes[i]? = some nd → balOut nd → balOut (f nd))
    (hpar : ∀ nd, (f nd).kind = nd.kind ∧ (f nd).hand = nd.hand ∧ (f nd).got = nd.got ∧ (f nd).dropped = nd.dropped ∧
      (f nd).failed = nd.failed ∧ (f nd).owed = nd.owed)
    (hent : ∀ nd, (f nd).ent = nd.ent ∨ i = 0)
    (hsrc : s'.accepted = s'.ingest + s'.forkHand + s'.lostIngest + (s'.nodes[0]?.map (·.ent)).getD 0) : TCons par s' := by
  have hget : ∀ k x, s'.nodes[k]? = some x → ∃ x0, s.nodes[k]? = some x0 ∧ ((k = i ∧ x = f x0) ∨ (k ≠ i ∧ x = x0)) := by
    intro k x hk
    rw [hn, modifyNth_getElem?] at hk
    split at hk
    · cases h0 : s.nodes[k]? with
      | none => simp [h0] at hk
      | some x0 => simp [h0] at hk; exact ⟨x0, rfl, Or.inl ⟨by assumption, hk.symm⟩⟩
    · exact ⟨x, hk, Or.inr ⟨by assumption, rfl⟩⟩
  refine ⟨?_, ?_, ?_, ?_, hsrc⟩
  · intro k x hk
    obtain ⟨x0, h0, ⟨rfl, rfl⟩ | ⟨_, rfl⟩⟩ := hget k x hk
    · exact hin _ h0 (hc.nodeIn k x0 h0)
    · exact hc.nodeIn k x h0
  · intro k x hk
    obtain ⟨x0, h0, ⟨rfl, rfl⟩ | ⟨_, rfl⟩⟩ := hget k x hk
    · exact hout _ h0 (hc.nodeOut k x0 h0)
    · exact hc.nodeOut k x h0
  · intro k x hk
    obtain ⟨x0, h0, ⟨_, rfl⟩ | ⟨_, rfl⟩⟩ := hget k x hk
    · rw [(hpar x0).2.2.2.2.1, (hpar x0).2.1]; exact hc.fh k x0 h0
    · exact hc.fh k x h0
  · intro p c x y hpc hk hk1
    have hlt := isChild_lt hpc
    obtain ⟨x0, h0, hx⟩ := hget p x hk
    obtain ⟨y0, h1, hy⟩ := hget c y hk1
    have he := hc.edge p c x0 y0 hpc h0 h1
    have ex : x.kind = x0.kind ∧ x.hand = x0.hand ∧ x.got = x0.got ∧ x.dropped = x0.dropped := by
      rcases hx with ⟨_, e⟩ | ⟨_, e⟩ <;> subst e
      · exact ⟨(hpar x0).1, (hpar x0).2.1, (hpar x0).2.2.1, (hpar x0).2.2.2.1⟩
      · exact ⟨rfl, rfl, rfl, rfl⟩
    have ey : y.ent = y0.ent ∧ y.owed = y0.owed := by
      rcases hy with ⟨hci, e⟩ | ⟨_, e⟩ <;> subst e
      · refine ⟨?_, (hpar y0).2.2.2.2.2⟩
        rcases hent y0 with h | h
        · exact h
        · omega
      · exact ⟨rfl, rfl⟩
    exact he.congr ex.1 ex.2.1 ex.2.2.1 ex.2.2.2 ey.1 ey.2

theorem TCons.same_nodes {par : List Nat} {s s' : State} (hc : TCons par s) (hn : s'.nodes = s.nodes)
    (h3 : s'.accepted + s.ingest + s.forkHand + s.lostIngest = s.accepted + s'.ingest + s'.forkHand + s'.lostIngest) : TCons par s' := by
  refine ⟨?_, ?_, ?_, ?_, ?_⟩
  · intro i nd h; rw [hn] at h; exact hc.nodeIn i nd h
  · intro i nd h; rw [hn] at h; exact hc.nodeOut i nd h
  · intro i nd h; rw [hn] at h; exact hc.fh i nd h
  · intro p c nd x hpc h h'; rw [hn] at h h'; exact hc.edge p c nd x hpc h h'
  · have := hc.src; rw [hn]; omega

theorem modifyNth_zero_ent (l : List Nd) (f : Nd → Nd) : ((modifyNth l 0 f)[0]?.map (·.ent)).getD 0 = ((l[0]?.map f).map (·.ent)).getD 0 := by
  rw [modifyNth_getElem?]; simp

theorem tcons_stopStep {par : List Nat} {cfg : Cfg} {s s' : State} (h : stopStep cfg s = some s') (hc : TCons par s) : TCons par s' := by
  have hsrc := hc.src
  have src_mod : ∀ (i : Nat) (f : Nd → Nd), (∀ nd, (f nd).ent = nd.ent) →
      ((modifyNth s.nodes i f)[0]?.map (·.ent)).getD 0 = (s.nodes[0]?.map (·.ent)).getD 0 := by
    intro i f hf
    rw [modifyNth_getElem?]
    split
    · cases s.nodes[0]? <;> simp [hf]
    · rfl
  unfold stopStep at h
  repeat' (first | contradiction | split at h)
  all_goals (first | (simp at h; done) | (simp only [Option.some.injEq] at h; subst h))
  all_goals (first
    | (exact hc.same_nodes rfl (by simp))
    | (refine tcons_modifyNth hc _ _ rfl ?_ ?_ ?_ ?_ ?_
       · intro nd hnd hb; unfold balIn at *; simp_all
       · intro nd hnd hb; unfold balOut at *; simp_all <;> omega
       · intro nd; simp
       · intro nd; left; simp
       · simp only []; rw [src_mod _ _ (by intro nd; simp)]; exact hsrc))

/-- **Conservation is preserved by every action of the tree model.** -/
theorem tcons_step {par : List Nat} {cfg : Cfg} {s s' : State} {a : Act} (h : Tree.step cfg par s a = some s') (hc : TCons par s) :
    TCons par s' := by
  cases a with
  | stop => exact tcons_stopStep (by simpa [Tree.step, Kap.C07.step] using h) hc
  | node i a => exact tcons_nodeAct h hc
  | forkPut =>
    simp only [Tree.step, Kap.C07.step] at h
    repeat' (first | contradiction | split at h)
    all_goals (first | (simp at h; done) | (simp only [Option.some.injEq] at h; subst h))
    · exact hc.same_nodes rfl (by simp)
    · exact hc.same_nodes rfl (by dsimp only; omega)
    · rename_i nd rest hnodes _
      have hsrc := hc.src
      rw [hnodes] at hsrc
      simp only [List.getElem?_cons_zero, Option.map_some, Option.getD_some] at hsrc
      refine tcons_modifyNth hc 0 (fun nd => { nd with inq := nd.inq + 1, ent := nd.ent + 1 }) (by rw [hnodes]; rfl) ?_ ?_ ?_ ?_ ?_
      · intro nd _ hb; unfold balIn at *; simp; omega
      · intro nd _ hb; simpa [balOut] using hb
      · intro nd; simp
      · intro nd; right; rfl
      · simp only [List.getElem?_cons_zero, Option.map_some, Option.getD_some]; omega
  | write =>
    simp only [Tree.step, Kap.C07.step] at h
    split at h
    · simp only [Option.some.injEq] at h; subst h; exact hc.same_nodes rfl (by simp; omega)
    · simp at h
  | forkTake =>
    simp only [Tree.step, Kap.C07.step] at h
    repeat' (first | contradiction | split at h)
    all_goals (first | (simp at h; done) | (simp only [Option.some.injEq] at h; subst h))
    · exact hc.same_nodes rfl (by simp; omega)
    · exact hc.same_nodes rfl (by simp)
  | forkLock =>
    simp only [Tree.step, Kap.C07.step] at h
    split at h
    · simp only [Option.some.injEq] at h; subst h; exact hc.same_nodes rfl (by simp)
    · simp at h
  | forkDrop =>
    simp only [Tree.step, Kap.C07.step] at h
    repeat' (first | contradiction | split at h)
    all_goals (first | (simp at h; done) | (simp only [Option.some.injEq] at h; subst h))
    exact hc.same_nodes rfl (by simp; omega)
  | forkExit =>
    simp only [Tree.step, Kap.C07.step] at h
    split at h
    · simp only [Option.some.injEq] at h; subst h; exact hc.same_nodes rfl (by simp)
    · simp at h
  | thrExit =>
    simp only [Tree.step, Kap.C07.step] at h
    split at h
    · simp only [Option.some.injEq] at h; subst h; exact hc.same_nodes rfl (by simp)
    · simp at h

theorem tcons_run {par : List Nat} {cfg} {s : State} (hc : TCons par s) (as : List Act) : TCons par (Tree.run cfg par s as) := by
  induction as generalizing s with
  | nil => exact hc
  | cons a as ih =>
    simp only [Tree.run]
    split
    · rename_i s' hs; exact ih (tcons_step hs hc)
    · exact ih hc

theorem tcons_init (par : List Nat) (kinds : List Kind) (n : Nat) : TCons par (init kinds n) := by
  have hget : ∀ (i : Nat) (nd : Nd), (init kinds n).nodes[i]? = some nd → ∃ k, nd = mkNd k := by
    intro i nd h
    simp only [init, List.getElem?_map] at h
    cases hk : kinds[i]? with
    | none => simp [hk] at h
    | some k => simp [hk] at h; exact ⟨k, h.symm⟩
  refine ⟨?_, ?_, ?_, ?_, ?_⟩
  · intro i nd h; obtain ⟨k, rfl⟩ := hget i nd h; simp [balIn, mkNd]
  · intro i nd h; obtain ⟨k, rfl⟩ := hget i nd h; cases k <;> simp [balOut, mkNd]
  · intro i nd h; obtain ⟨k, rfl⟩ := hget i nd h; simp [mkNd]
  · intro p c nd x _ h h1
    obtain ⟨k, rfl⟩ := hget p nd h
    obtain ⟨k', rfl⟩ := hget c x h1
    simp [TEdge, mkNd]
  · simp only [init, List.getElem?_map]
    cases kinds[0]? <;> simp [mkNd]

end Kap.C07.Tree
