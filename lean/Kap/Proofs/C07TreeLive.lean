/-
C07 (trees) — the protocol invariant behind deadlock freedom on a TREE of nodes, its preservation by every action of
the tree model, and the liveness lemma: without loopback / UDF nodes (repaired code, cap ≥ 1) a state of the tree model
in which no action is enabled is a completely stopped state. Node-local facts (`DNode`, `nodeStep_DNode`, `node_local`)
are the chain model's; the producer/consumer facts (`DPair`) now hold for every edge parent → child of the tree. The
proofs for the actions of the stopping goroutine and of the TaskMaster are those of Proofs/C07Live2.lean, restated.
-/
import Kap.Proofs.C07TreeBase
import Kap.Proofs.C07Outcome
set_option linter.unusedSimpArgs false
set_option linter.unusedVariables false
namespace Kap.C07.Tree
open Kap.C07

/-- The protocol invariant on the topology `par`. -/
structure TDInv (par : List Nat) (s : State) : Prop where
  nodes : ∀ (i : Nat) (nd : Nd), s.nodes[i]? = some nd → DNode nd
  pairs : ∀ (p c : Nat) (nd x : Nd), isChild par p c = true → s.nodes[p]? = some nd → s.nodes[c]? = some x → DPair nd x
  first : ∀ nd, s.nodes[0]? = some nd →
    (nd.inClosed = true → s.registered = false) ∧ (5 ≤ rank s.ph → nd.inClosed = true ∨ nd.inAborted = true)
  doneP : ∀ (k : Nat) (nd : Nd), s.nodes[k]? = some nd → doneBy s.ph k = true → nd.done = true
  stopP : ∀ (k : Nat) (nd : Nd), s.nodes[k]? = some nd → (oldInflux nd.kind || isUdf nd.kind) = true →
    (nd.stopping = true ↔ abortedBy s.ph k = true)
  joinP : ∀ (k : Nat) (nd : Nd), s.nodes[k]? = some nd → oldInflux nd.kind = true → joinedBy s.ph k = true → nd.helperDone = true
  idxV : ∀ i, s.ph.idx = some i → i < s.nodes.length
  flK : ∀ (i : Nat), s.ph ≠ .flushed i ∧ s.ph ≠ .wbWait i
  lk : rank s.ph ≤ 3 → s.lockHeld = false
  ets : 6 ≤ rank s.ph → s.etStopping = true
  thr : 8 ≤ rank s.ph → s.thrDone = true
  ic : s.ph = .waitFork → s.ingestClosed = true
  frl : s.forkRL = true → s.forkHand = 1 ∨ s.forkLoop = 1
  fh1 : s.forkHand ≤ 1 ∧ s.forkLoop ≤ 1

/-- `DNode` does not look at the fields a parent changes in its child when it hands a message over. -/
theorem DNode_owed {x : Nd} (h : DNode x) (v : Nat) : DNode { x with owed := v } := by
  obtain ⟨h1, ab, fa, dn, fh, al, ah, ad, as, nh, ih, nl, fd, bd⟩ := h
  exact ⟨h1, ab, fa, dn, fh, al, ah, ad, as, nh, ih, nl, fd, bd⟩

theorem DNode_recv {x : Nd} (h : DNode x) (hcl : x.inClosed = false) :
    DNode { x with inq := x.inq + 1, ent := x.ent + 1, owed := 0 } := by
  obtain ⟨h1, ab, fa, dn, fh, al, ah, ad, as, nh, ih, nl, fd, bd⟩ := h
  refine ⟨h1, ab, fa, ?_, fh, al, ah, ad, ?_, nh, ih, nl, fd, bd⟩
  · intro hd hf; have := dn hd hf; simp_all
  · intro hb hs hf; have := as hb hs hf; simp_all

/-- What a child keeps whatever its parent does to it. -/
theorem CE.facts {env a nd rnd x x'} (h : CE env a nd rnd x x') :
    x'.done = x.done ∧ x'.kind = x.kind ∧ x'.stopping = x.stopping ∧ x'.helperDone = x.helperDone ∧ x'.inAborted = x.inAborted ∧
      x'.failed = x.failed ∧ x'.hand = x.hand ∧ x'.panicked = x.panicked ∧ (x.inClosed = true → x'.inClosed = true) := by
  rcases h with ⟨h, _⟩ | ⟨_, h, _⟩ | ⟨_, h, _⟩ | ⟨_, h⟩ | ⟨_, h, _⟩
  · subst h; simp
  · subst h; simp
  · subst h; simp
  · subst h; simp
  · subst h; simp [closeIn_inClosed]; intro h; simp [h]

theorem nodeStep_done_ne_exit {env a nd child r} (h : nodeStep env a nd child = some r) (ha : a ≠ .exit) : r.nd.done = nd.done := by
  nstep h <;> simp_all

theorem tdinv_nodeAct {par : List Nat} {cfg} {s s' : State} {i : Nat} {a : NAct} (h : Tree.step cfg par s (.node i a) = some s')
    (hleak : cfg.alertLeak = false) (hea : cfg.influxEarlyAbort = false) (hfo : cfg.udfFwdOrphan = false) (hd : TDInv par s) : TDInv par s' := by
  simp only [Tree.step] at h
  split at h
  case h_2 => simp at h
  rename_i ns l hst
  simp only [Option.some.injEq] at h
  obtain ⟨nd, r, nd', sp⟩ := tnode_spec hst
  have hcases := sp.cases
  have g1 := sp.at_i
  have g2 := sp.ns_step
  have hDnd := hd.nodes i nd g1
  have hnodes' : s'.nodes = ns := by rw [← h]
  have hph : s'.ph = s.ph := by rw [← h]
  have hr : DNode r.nd := nodeStep_DNode g2 hDnd (by simp [env, hleak]) (by simp [env, hea]) (by simp [env, hfo])
  have hnd' : DNode nd' := by
    rcases sp.acting with e | ⟨_, e, _⟩ <;> rw [e]
    · exact hr
    · exact hDnd
  -- the acting node keeps / only improves what its parent and the stopping goroutine look at
  have hact : nd'.inClosed = nd.inClosed ∧ (nd.inAborted = true → nd'.inAborted = true) ∧ (nd.done = true → nd'.done = true) ∧
      nd'.kind = nd.kind ∧ (nd.helperDone = true → nd'.helperDone = true) ∧
      (isAlert nd.kind = false → isInflux nd.kind = false → nd'.stopping = nd.stopping) := by
    rcases sp.acting with e | ⟨_, e, _⟩ <;> rw [e]
    · exact ⟨nodeStep_inClosed g2, nodeStep_inAborted_mono g2, nodeStep_done_mono g2, nodeStep_kind g2,
        nodeStep_helperDone_mono g2, nodeStep_stopping g2⟩
    · exact ⟨rfl, id, id, rfl, id, fun _ _ => rfl⟩
  -- a child of the acting node
  have hchild : ∀ k x x', isChild par i k = true → s.nodes[k]? = some x → CE (env cfg s) a nd r.nd x x' →
      DNode x' ∧ DPair nd' x' := by
    intro k x x' hc hx hce
    have hDx := hd.nodes k x hx
    have hp := hd.pairs i k nd x hc g1 hx
    unfold DPair at hp ⊢
    rcases hce with e | ⟨ha, e, _⟩ | ⟨ha, e, _, _, _, _, hndd, _⟩ | ⟨ha, e⟩ | ⟨ha, e, hrd⟩
    · -- untouched … unless the acting node is leaving (then every child edge is closed: the CE is the last case)
      obtain ⟨e, hne, _⟩ := e
      subst e
      refine ⟨hDx, ?_⟩
      rcases sp.acting with e' | ⟨_, e', _⟩ <;> rw [e']
      · rw [nodeStep_done_ne_exit g2 hne]; exact hp
      · exact hp
    · subst e
      have hne : a ≠ .exit := by rw [ha]; simp
      refine ⟨DNode_owed hDx 1, ?_⟩
      rcases sp.acting with e' | ⟨_, e', _⟩ <;> rw [e']
      · rw [nodeStep_done_ne_exit g2 hne]; exact hp
      · exact hp
    · subst e
      have hne : a ≠ .exit := by rw [ha]; simp
      have hncl : x.inClosed = false := by
        cases hcl : x.inClosed with
        | false => rfl
        | true => have := hp.2 hcl; simp_all
      refine ⟨DNode_recv hDx hncl, ?_⟩
      have hnd'd : nd'.done = false := by
        rcases sp.acting with e' | ⟨_, e', _⟩ <;> rw [e']
        · rw [nodeStep_done_ne_exit g2 hne]; exact hndd
        · exact hndd
      constructor
      · intro hx'; simp [hnd'd] at hx'
      · intro hx'; simp [hncl] at hx'
    · subst e
      have hne : a ≠ .exit := by rw [ha]; simp
      refine ⟨DNode_owed hDx 0, ?_⟩
      rcases sp.acting with e' | ⟨_, e', _⟩ <;> rw [e']
      · rw [nodeStep_done_ne_exit g2 hne]; exact hp
      · exact hp
    · subst e
      have hnd'r : nd' = r.nd := by
        rcases sp.acting with e' | ⟨hput, _⟩
        · exact e'
        · rw [ha] at hput; simp at hput
      refine ⟨(DNode_owed hDx 0).closeIn, ?_⟩
      rw [hnd'r]
      constructor
      · intro _
        rw [closeIn_inClosed, closeIn_inAborted]
        cases x.inAborted <;> simp
      · intro _; exact hrd
  refine ⟨?_, ?_, ?_, ?_, ?_, ?_, ?_, ?_, ?_, ?_, ?_, ?_, ?_, ?_⟩
  · intro k x hk
    rw [hnodes'] at hk
    rcases hcases k x hk with ⟨_, rfl⟩ | ⟨_, _, h0⟩ | ⟨hc, x0, hx0, hce⟩
    · exact hnd'
    · exact hd.nodes k x h0
    · exact (hchild k x0 x hc hx0 hce).1
  · intro p c x y hpc hk hk1
    rw [hnodes'] at hk hk1
    have hlt := isChild_lt hpc
    rcases hcases p x hk with ⟨hpi, rfl⟩ | ⟨hpi, hpnc, h0⟩ | ⟨hpc', x0, hx0, hce⟩
    · -- the acting node is the parent
      subst hpi
      rcases hcases c y hk1 with ⟨hci, _⟩ | ⟨_, hnc, _⟩ | ⟨_, y0, hy0, hce⟩
      · omega
      · rw [hpc] at hnc; simp at hnc
      · exact (hchild c y0 y hpc hy0 hce).2
    · rcases hcases c y hk1 with ⟨hci, rfl⟩ | ⟨_, _, h1⟩ | ⟨hc', _⟩
      · -- the acting node is the child: its parent is untouched
        subst hci
        have hp := hd.pairs p c x nd hpc h0 g1
        unfold DPair at *
        rw [hact.1]
        refine ⟨fun hx => ?_, hp.2⟩
        rcases hp.1 hx with h' | h'
        · exact Or.inl h'
        · exact Or.inr (hact.2.1 h')
      · exact hd.pairs p c x y hpc h0 h1
      · exact absurd (isChild_unique hpc hc') hpi
    · -- the parent is a child of the acting node: `c` has another parent than `i`, so it is untouched
      have hpi : p ≠ i := by have := isChild_lt hpc'; omega
      rcases hcases c y hk1 with ⟨hci, _⟩ | ⟨_, _, h1⟩ | ⟨hc', _⟩
      · have := isChild_lt hpc'; omega
      · have hp := hd.pairs p c x0 y hpc hx0 h1
        have hf := hce.facts
        unfold DPair at *
        rw [hf.1]; exact hp
      · exact absurd (isChild_unique hpc hc') hpi
  · intro x hx
    rw [hnodes'] at hx
    have hreg : s'.registered = s.registered := by rw [← h]
    rw [hreg, hph]
    rcases hcases 0 x hx with ⟨hki, rfl⟩ | ⟨_, _, h0⟩ | ⟨hc, _⟩
    · have hf := hd.first nd (by rw [hki]; exact g1)
      rw [hact.1]
      refine ⟨hf.1, fun h5 => ?_⟩
      rcases hf.2 h5 with h' | h'
      · exact Or.inl h'
      · exact Or.inr (hact.2.1 h')
    · exact hd.first x h0
    · have := isChild_lt hc; omega
  · intro k x hk hdb
    rw [hnodes'] at hk; rw [hph] at hdb
    rcases hcases k x hk with ⟨rfl, rfl⟩ | ⟨_, _, h0⟩ | ⟨_, x0, hx0, hce⟩
    · exact hact.2.2.1 (hd.doneP k nd g1 hdb)
    · exact hd.doneP k x h0 hdb
    · rw [hce.facts.1]; exact hd.doneP k x0 hx0 hdb
  · intro k x hk hkind
    rw [hnodes'] at hk; rw [hph]
    rcases hcases k x hk with ⟨rfl, rfl⟩ | ⟨_, _, h0⟩ | ⟨_, x0, hx0, hce⟩
    · rw [hact.2.2.2.1] at hkind
      have hna : isAlert nd.kind = false := by cases hk : nd.kind <;> simp_all [isAlert, oldInflux, isUdf]
      have hni : isInflux nd.kind = false := by cases hk : nd.kind <;> simp_all [isInflux, oldInflux, isUdf]
      rw [hact.2.2.2.2.2 hna hni]
      exact hd.stopP k nd g1 hkind
    · exact hd.stopP k x h0 hkind
    · have hf := hce.facts
      rw [hf.2.1] at hkind
      rw [hf.2.2.1]
      exact hd.stopP k x0 hx0 hkind
  · intro k x hk hkind hj
    rw [hnodes'] at hk; rw [hph] at hj
    rcases hcases k x hk with ⟨rfl, rfl⟩ | ⟨_, _, h0⟩ | ⟨_, x0, hx0, hce⟩
    · rw [hact.2.2.2.1] at hkind
      exact hact.2.2.2.2.1 (hd.joinP k nd g1 hkind hj)
    · exact hd.joinP k x h0 hkind hj
    · have hf := hce.facts
      rw [hf.2.1] at hkind
      rw [hf.2.2.2.1]
      exact hd.joinP k x0 hx0 hkind hj
  · intro j hj; rw [hph] at hj; rw [hnodes', sp.len]; exact hd.idxV j hj
  · rw [hph]; exact hd.flK
  · rw [hph]; intro h3; have := hd.lk h3; rw [← h]; exact this
  · rw [hph]; intro h3; have := hd.ets h3; rw [← h]; exact this
  · rw [hph]; intro h3; have := hd.thr h3; rw [← h]; exact this
  · rw [hph]; intro h3; have := hd.ic h3; rw [← h]; exact this
  · intro h3
    have e1 : s'.forkRL = s.forkRL := by rw [← h]
    have e2 : s'.forkHand = s.forkHand := by rw [← h]
    have e3 : s'.forkLoop = s.forkLoop := by rw [← h]
    rw [e2, e3]; exact hd.frl (by rw [← e1]; exact h3)
  · have e2 : s'.forkHand = s.forkHand := by rw [← h]
    have e3 : s'.forkLoop = s.forkLoop := by rw [← h]
    rw [e2, e3]; exact hd.fh1

/-- The stopping goroutine modifies node `i` (flush / close w.stopping / abort the UDF) and moves on. -/
theorem tdinv_modify_at {par : List Nat} {s s' : State} (hd : TDInv par s) (i : Nat) (f : Nd → Nd)
    (hn : s'.nodes = modifyNth s.nodes i f)
    (hf : ∀ nd, (f nd).done = nd.done ∧ (f nd).kind = nd.kind ∧ (f nd).helperDone = nd.helperDone ∧
      (f nd).inAborted = nd.inAborted ∧ (f nd).inClosed = nd.inClosed)
    (hD : ∀ nd, s.nodes[i]? = some nd → DNode (f nd))
    (hstop : ∀ nd, s.nodes[i]? = some nd → (oldInflux nd.kind || isUdf nd.kind) = true →
      ((f nd).stopping = true ↔ abortedBy s'.ph i = true))
    (hab : ∀ k, k ≠ i → abortedBy s'.ph k = abortedBy s.ph k)
    (hdone : ∀ k, doneBy s'.ph k = doneBy s.ph k)
    (hjoin : ∀ k nd, s.nodes[k]? = some nd → oldInflux nd.kind = true → joinedBy s'.ph k = true → joinedBy s.ph k = true)
    (hreg : s'.registered = s.registered) (hrank : rank s'.ph = rank s.ph)
    (hidx : ∀ j, s'.ph.idx = some j → j < s.nodes.length)
    (hfl : ∀ j, s'.ph ≠ .flushed j ∧ s'.ph ≠ .wbWait j)
    (hglob : s'.lockHeld = s.lockHeld ∧ s'.etStopping = s.etStopping ∧ s'.thrDone = s.thrDone ∧ s'.forkRL = s.forkRL ∧
      s'.forkHand = s.forkHand ∧ s'.forkLoop = s.forkLoop)
    (hwf : s'.ph ≠ .waitFork) : TDInv par s' := by
  have get : ∀ k, s'.nodes[k]? = if k = i then s.nodes[k]?.map f else s.nodes[k]? := by
    intro k; rw [hn]; exact modifyNth_getElem? _ _ _ _
  -- every node of the new list comes from the node at the same place
  have hget : ∀ k x, s'.nodes[k]? = some x → ∃ x0, s.nodes[k]? = some x0 ∧ ((k = i ∧ x = f x0) ∨ (k ≠ i ∧ x = x0)) := by
    intro k x hk
    rw [get k] at hk
    split at hk
    · cases h0 : s.nodes[k]? with
      | none => simp [h0] at hk
      | some x0 => simp [h0] at hk; exact ⟨x0, rfl, Or.inl ⟨by assumption, hk.symm⟩⟩
    · exact ⟨x, hk, Or.inr ⟨by assumption, rfl⟩⟩
  refine ⟨?_, ?_, ?_, ?_, ?_, ?_, ?_, ?_, ?_, ?_, ?_, ?_, ?_, ?_⟩
  · intro k x hk
    obtain ⟨x0, h0, ⟨rfl, rfl⟩ | ⟨_, rfl⟩⟩ := hget k x hk
    · exact hD x0 h0
    · exact hd.nodes k x h0
  · intro p c x y hpc hk hk1
    obtain ⟨x0, h0, hx⟩ := hget p x hk
    obtain ⟨y0, h1, hy⟩ := hget c y hk1
    have hp := hd.pairs p c x0 y0 hpc h0 h1
    unfold DPair at *
    have ex : x.done = x0.done := by rcases hx with ⟨_, e⟩ | ⟨_, e⟩ <;> simp [e, (hf x0).1]
    have ey : y.inClosed = y0.inClosed ∧ y.inAborted = y0.inAborted := by
      rcases hy with ⟨_, e⟩ | ⟨_, e⟩ <;> simp [e, (hf y0).2.2.2.1, (hf y0).2.2.2.2]
    rw [ex, ey.1, ey.2]; exact hp
  · intro x hx
    obtain ⟨x0, h0, hx'⟩ := hget 0 x hx
    have hfi := hd.first x0 h0
    have ex : x.inClosed = x0.inClosed ∧ x.inAborted = x0.inAborted := by
      rcases hx' with ⟨_, e⟩ | ⟨_, e⟩ <;> simp [e, (hf x0).2.2.2.1, (hf x0).2.2.2.2]
    rw [ex.1, ex.2, hreg, hrank]; exact hfi
  · intro k x hk hdb
    obtain ⟨x0, h0, hx⟩ := hget k x hk
    rw [hdone k] at hdb
    have := hd.doneP k x0 h0 hdb
    rcases hx with ⟨_, rfl⟩ | ⟨_, rfl⟩
    · rw [(hf x0).1]; exact this
    · exact this
  · intro k x hk hkind
    obtain ⟨x0, h0, hx⟩ := hget k x hk
    rcases hx with ⟨rfl, rfl⟩ | ⟨hne, rfl⟩
    · rw [(hf x0).2.1] at hkind
      exact hstop x0 h0 hkind
    · rw [hab k hne]; exact hd.stopP k x h0 hkind
  · intro k x hk hkind hj
    obtain ⟨x0, h0, hx⟩ := hget k x hk
    have hk0 : oldInflux x0.kind = true := by
      rcases hx with ⟨_, rfl⟩ | ⟨_, rfl⟩
      · rw [(hf x0).2.1] at hkind; exact hkind
      · exact hkind
    have := hd.joinP k x0 h0 hk0 (hjoin k x0 h0 hk0 hj)
    rcases hx with ⟨_, rfl⟩ | ⟨_, rfl⟩
    · rw [(hf x0).2.2.1]; exact this
    · exact this
  · intro j hj; rw [hn, modifyNth_length]; exact hidx j hj
  · exact hfl
  · rw [hrank, hglob.1]; exact hd.lk
  · rw [hrank, hglob.2.1]; exact hd.ets
  · rw [hrank, hglob.2.2.1]; exact hd.thr
  · intro h; exact absurd h hwf
  · rw [hglob.2.2.2.1, hglob.2.2.2.2.1, hglob.2.2.2.2.2]; exact hd.frl
  · rw [hglob.2.2.2.2.1, hglob.2.2.2.2.2]; exact hd.fh1

/-- A transition that leaves the nodes alone. -/
theorem tdinv_phase {par : List Nat} {s s' : State} (hd : TDInv par s) (hn : s'.nodes = s.nodes)
    (hfirst : ∀ nd, s.nodes[0]? = some nd →
      (nd.inClosed = true → s'.registered = false) ∧ (5 ≤ rank s'.ph → nd.inClosed = true ∨ nd.inAborted = true))
    (hdone : ∀ k nd, s.nodes[k]? = some nd → doneBy s'.ph k = true → nd.done = true)
    (hstop : ∀ k nd, s.nodes[k]? = some nd → (oldInflux nd.kind || isUdf nd.kind) = true → abortedBy s'.ph k = abortedBy s.ph k)
    (hjoin : ∀ k nd, s.nodes[k]? = some nd → oldInflux nd.kind = true → joinedBy s'.ph k = true → nd.helperDone = true)
    (hidx : ∀ j, s'.ph.idx = some j → j < s.nodes.length)
    (hfl : ∀ j, s'.ph ≠ .flushed j ∧ s'.ph ≠ .wbWait j)
    (lk : rank s'.ph ≤ 3 → s'.lockHeld = false) (ets : 6 ≤ rank s'.ph → s'.etStopping = true)
    (thr : 8 ≤ rank s'.ph → s'.thrDone = true) (ic : s'.ph = .waitFork → s'.ingestClosed = true)
    (frl : s'.forkRL = true → s'.forkHand = 1 ∨ s'.forkLoop = 1) (fh1 : s'.forkHand ≤ 1 ∧ s'.forkLoop ≤ 1) : TDInv par s' := by
  refine ⟨?_, ?_, ?_, ?_, ?_, ?_, ?_, ?_, lk, ets, thr, ic, frl, fh1⟩
  · intro k x hk; rw [hn] at hk; exact hd.nodes k x hk
  · intro p c x y hpc hk hk1; rw [hn] at hk hk1; exact hd.pairs p c x y hpc hk hk1
  · intro x hx; rw [hn] at hx; exact hfirst x hx
  · intro k x hk; rw [hn] at hk; exact hdone k x hk
  · intro k x hk hkind; rw [hn] at hk; rw [hstop k x hk hkind]; exact hd.stopP k x hk hkind
  · intro k x hk; rw [hn] at hk; exact hjoin k x hk
  · intro j hj; rw [hn]; exact hidx j hj
  · exact hfl

theorem tdinv_stopStep {par : List Nat} {cfg} {s s' : State} (h : stopStep cfg s = some s') (hea : cfg.influxEarlyAbort = false)
    (hd : TDInv par s) : TDInv par s' := by
  cases hph : s.ph with
  | idle =>
    simp only [stopStep, hph] at h
    simp only [Option.some.injEq] at h; subst h
    have hlk := hd.lk (by simp [hph, rank])
    refine tdinv_phase hd rfl ?_ ?_ ?_ ?_ ?_ ?_ ?_ ?_ ?_ ?_ hd.frl hd.fh1
    · intro nd h0; have := hd.first nd h0; refine ⟨this.1, ?_⟩; split <;> simp [rank]
    all_goals (split <;> simp_all [doneBy, abortedBy, joinedBy, Ph.idx, rank])
  | closeIngest =>
    simp only [stopStep, hph] at h
    simp only [Option.some.injEq] at h; subst h
    have hlk := hd.lk (by simp [hph, rank])
    refine tdinv_phase hd rfl ?_ ?_ ?_ ?_ ?_ ?_ ?_ ?_ ?_ ?_ hd.frl hd.fh1
    · intro nd h0; have := hd.first nd h0; exact ⟨this.1, by simp [rank]⟩
    all_goals (simp_all [doneBy, abortedBy, joinedBy, Ph.idx, rank])
  | waitFork =>
    simp only [stopStep, hph] at h
    split at h
    · simp only [Option.some.injEq] at h; subst h
      have hlk := hd.lk (by simp [hph, rank])
      refine tdinv_phase hd rfl ?_ ?_ ?_ ?_ ?_ ?_ ?_ ?_ ?_ ?_ hd.frl hd.fh1
      · intro nd h0; have := hd.first nd h0; exact ⟨this.1, by simp [rank]⟩
      all_goals (simp_all [doneBy, abortedBy, joinedBy, Ph.idx, rank])
    · simp at h
  | wantLock =>
    simp only [stopStep, hph] at h
    split at h
    · simp only [Option.some.injEq] at h; subst h
      refine tdinv_phase hd rfl ?_ ?_ ?_ ?_ ?_ ?_ ?_ ?_ ?_ ?_ hd.frl hd.fh1
      · intro nd h0; have := hd.first nd h0; exact ⟨this.1, by simp [rank]⟩
      all_goals (simp_all [doneBy, abortedBy, joinedBy, Ph.idx, rank])
    · simp at h
  | wgWait =>
    simp only [stopStep, hph] at h
    split at h
    · simp only [Option.some.injEq] at h; subst h
      have := hd.ets (by simp [hph, rank])
      refine tdinv_phase hd rfl ?_ ?_ ?_ ?_ ?_ ?_ ?_ ?_ ?_ ?_ hd.frl hd.fh1
      · intro nd h0; have := hd.first nd h0; rw [hph] at this; exact ⟨this.1, fun _ => this.2 (by simp [rank])⟩
      · intro k nd hk _; exact hd.doneP k nd hk (by simp [hph, doneBy])
      · intro k nd hk _; simp [hph, abortedBy]
      · intro k nd hk hki _; exact hd.joinP k nd hk hki (by simp [hph, joinedBy])
      all_goals (simp_all [doneBy, abortedBy, joinedBy, Ph.idx, rank])
    · simp at h
  | unlock =>
    simp only [stopStep, hph] at h
    simp only [Option.some.injEq] at h; subst h
    have := hd.ets (by simp [hph, rank])
    have := hd.thr (by simp [hph, rank])
    refine tdinv_phase hd rfl ?_ ?_ ?_ ?_ ?_ ?_ ?_ ?_ ?_ ?_ hd.frl hd.fh1
    · intro nd h0; have := hd.first nd h0; rw [hph] at this; exact ⟨this.1, fun _ => this.2 (by simp [rank])⟩
    · intro k nd hk _; exact hd.doneP k nd hk (by simp [hph, doneBy])
    · intro k nd hk _; simp [hph, abortedBy]
    · intro k nd hk hki _; exact hd.joinP k nd hk hki (by simp [hph, joinedBy])
    all_goals (simp_all [doneBy, abortedBy, joinedBy, Ph.idx, rank])
  | finished => simp [stopStep, hph] at h
  | delFork =>
    simp only [stopStep, hph] at h
    simp only [Option.some.injEq] at h; subst h
    have get : ∀ k, (modifyNth s.nodes 0 Kap.C07.closeIn)[k]? = if k = 0 then s.nodes[k]?.map Kap.C07.closeIn else s.nodes[k]? :=
      fun k => modifyNth_getElem? _ _ _ _
    have hnz : ∀ k x, k ≠ 0 → (modifyNth s.nodes 0 Kap.C07.closeIn)[k]? = some x → s.nodes[k]? = some x := by
      intro k x hk hx; rw [get k] at hx; simpa [hk] using hx
    have hz : ∀ x, (modifyNth s.nodes 0 Kap.C07.closeIn)[0]? = some x → ∃ x0, s.nodes[0]? = some x0 ∧ x = Kap.C07.closeIn x0 := by
      intro x hx; rw [get 0] at hx
      cases h0 : s.nodes[0]? with
      | none => simp [h0] at hx
      | some x0 => simp [h0] at hx; exact ⟨x0, rfl, hx.symm⟩
    refine ⟨?_, ?_, ?_, ?_, ?_, ?_, ?_, ?_, ?_, ?_, ?_, ?_, ?_, ?_⟩
    · intro k x hk
      by_cases hk0 : k = 0
      · subst hk0; obtain ⟨x0, h0, rfl⟩ := hz x hk; exact (hd.nodes 0 x0 h0).closeIn
      · exact hd.nodes k x (hnz k x hk0 hk)
    · intro p c x y hpc hk hk1
      have hlt := isChild_lt hpc
      have hy := hnz c y (by omega) hk1
      by_cases hk0 : p = 0
      · subst hk0; obtain ⟨x0, h0, rfl⟩ := hz x hk
        have := hd.pairs 0 c x0 y hpc h0 hy
        unfold DPair at *; simpa using this
      · exact hd.pairs p c x y hpc (hnz p x hk0 hk) hy
    · intro x hx
      obtain ⟨x0, h0, rfl⟩ := hz x hx
      refine ⟨fun _ => rfl, fun _ => ?_⟩
      rw [closeIn_inClosed, closeIn_inAborted]
      cases x0.inAborted <;> simp
    · intro k x hk hdb; simp [doneBy] at hdb
    · intro k x hk hkind
      have := hd.stopP k
      by_cases hk0 : k = 0
      · subst hk0; obtain ⟨x0, h0, rfl⟩ := hz x hk
        have := hd.stopP 0 x0 h0 (by simpa using hkind)
        simpa [hph, abortedBy] using this
      · have := hd.stopP k x (hnz k x hk0 hk) hkind
        simpa [hph, abortedBy] using this
    · intro k x hk hkind hj; simp [joinedBy] at hj
    · intro j hj; simp [Ph.idx] at hj
    · intro j; simp
    · simp [rank]
    · simp [rank]
    · simp [rank]
    · simp
    · exact hd.frl
    · exact hd.fh1
  | etStop =>
    simp only [stopStep, hph] at h
    simp only [Option.some.injEq] at h; subst h
    by_cases hne : s.nodes.isEmpty = true
    · have hnil : s.nodes = [] := by simpa [List.isEmpty_iff] using hne
      refine tdinv_phase hd rfl ?_ ?_ ?_ ?_ ?_ ?_ ?_ ?_ ?_ ?_ hd.frl hd.fh1 <;> simp_all [doneBy, abortedBy, joinedBy, Ph.idx, rank]
    · have hlen : 0 < s.nodes.length := by
        cases hn : s.nodes with
        | nil => simp [hn] at hne
        | cons _ _ => simp
      refine tdinv_phase hd rfl ?_ ?_ ?_ ?_ ?_ ?_ ?_ ?_ ?_ ?_ hd.frl hd.fh1
      · intro nd h0; have := hd.first nd h0; rw [hph] at this
        exact ⟨this.1, fun _ => this.2 (by simp [rank])⟩
      all_goals (simp_all [doneBy, abortedBy, joinedBy, Ph.idx, rank])
  | wbWait i => exact absurd hph (hd.flK i).2
  | wait i =>
    simp only [stopStep, afterWait, hph] at h
    repeat' (first | contradiction | split at h)
    all_goals (first | (simp at h; done) | (simp only [Option.some.injEq] at h; subst h))
    all_goals (rename_i ndi hndi hdone hlt)
    all_goals (have hets := hd.ets (by simp [hph, rank]))
    · -- next node
      refine tdinv_phase hd rfl ?_ ?_ ?_ ?_ ?_ ?_ ?_ ?_ ?_ ?_ hd.frl hd.fh1
      · intro nd h0; have := hd.first nd h0; rw [hph] at this; exact ⟨this.1, fun _ => this.2 (by simp [rank])⟩
      · intro k nd hk hdb
        simp only [doneBy, decide_eq_true_eq] at hdb
        by_cases hki' : k = i
        · subst hki'; rw [hndi] at hk; simp at hk; subst hk; exact hdone
        · exact hd.doneP k nd hk (by simp [hph, doneBy]; omega)
      · intro k nd hk _; simp [hph, abortedBy]; omega
      · intro k nd hk hki hj
        simp only [joinedBy, decide_eq_true_eq] at hj
        exact hd.joinP k nd hk hki (by simp [hph, joinedBy]; omega)
      · intro j hj; simp [Ph.idx] at hj; omega
      all_goals (simp_all [Ph.idx, rank])
    · -- all nodes stopped
      have hidx := hd.idxV i (by simp [hph, Ph.idx])
      have hall : ∀ k (nd : Nd), s.nodes[k]? = some nd → k ≤ i := by
        intro k nd hk
        have : k < s.nodes.length := by
          rcases Nat.lt_or_ge k s.nodes.length with h | h
          · exact h
          · rw [List.getElem?_eq_none_iff.mpr h] at hk; simp at hk
        omega
      refine tdinv_phase hd rfl ?_ ?_ ?_ ?_ ?_ ?_ ?_ ?_ ?_ ?_ hd.frl hd.fh1
      · intro nd h0; have := hd.first nd h0; rw [hph] at this; exact ⟨this.1, fun _ => this.2 (by simp [rank])⟩
      · intro k nd hk _
        by_cases hki' : k = i
        · subst hki'; rw [hndi] at hk; simp at hk; subst hk; exact hdone
        · exact hd.doneP k nd hk (by simp [hph, doneBy]; have := hall k nd hk; omega)
      · intro k nd hk _; simp [hph, abortedBy]; exact hall k nd hk
      · intro k nd hk hki _; exact hd.joinP k nd hk hki (by simp [hph, joinedBy]; exact hall k nd hk)
      all_goals (simp_all [Ph.idx, rank])
  | flushed i => exact absurd hph (hd.flK i).1
  | stopF i =>
    have hidx := hd.idxV i (by simp [hph, Ph.idx])
    cases hndi : s.nodes[i]? with
    | none => simp [stopStep, hph, hndi] at h
    | some ndi =>
    simp only [stopStep, hph, hndi] at h
    have hother : (isUdf ndi.kind = false) → s' = { s with ph := .wait i } → TDInv par s' := by
      intro hnotudf e; subst e
      have hets := hd.ets (by simp [hph, rank])
      refine tdinv_phase hd rfl ?_ ?_ ?_ ?_ ?_ ?_ ?_ ?_ ?_ ?_ hd.frl hd.fh1
      · intro nd h0; have := hd.first nd h0; rw [hph] at this; exact ⟨this.1, fun _ => this.2 (by simp [rank])⟩
      · intro k nd hk hdb; exact hd.doneP k nd hk (by simpa [hph, doneBy] using hdb)
      · intro k nd hk hkk
        simp only [hph, abortedBy]
        by_cases hki' : k = i
        · subst hki'; rw [hndi] at hk; simp at hk; subst hk
          exfalso; simp_all [oldInflux]
        · simp; omega
      · intro k nd hk hki hj
        simp only [joinedBy, decide_eq_true_eq] at hj
        by_cases hki' : k = i
        · subst hki'; rw [hndi] at hk; simp at hk; subst hk
          exfalso; simp_all [oldInflux]
        · exact hd.joinP k nd hk hki (by simp [hph, joinedBy]; omega)
      · intro j hj; simp [Ph.idx] at hj; subst hj; exact hidx
      all_goals (simp_all [Ph.idx, rank])
    cases hkind : ndi.kind with
    | influx B => simp only [hkind, hea] at h; exact hother (by simp [hkind, isUdf]) (by simpa using h.symm)
    | udf =>
      simp only [hkind] at h
      simp only [Option.some.injEq] at h; subst h
      refine tdinv_modify_at hd i (fun nd => { nd with stopping := true }) rfl (by intro nd; simp) ?_ ?_ ?_ ?_ ?_ rfl ?_ ?_ ?_ ?_ ?_
      · intro nd hi
        rw [hndi] at hi; simp at hi; subst hi
        obtain ⟨h1, ab, fa, dn, fh, al, ah, ad, as, nh, ih, nl, fd, bd⟩ := hd.nodes i ndi hndi
        constructor <;> simp_all [isAlert, isInflux, isUdf, bufK, isBarrier, isLoop, Kind.hasHelper]
      · intro nd hi _; simp [abortedBy]
      · intro k hk; simp [hph, abortedBy]; omega
      · intro k; simp [hph, doneBy]
      · intro k nd hk hki hj
        simp only [joinedBy, decide_eq_true_eq] at hj
        by_cases hki' : k = i
        · subst hki'; rw [hndi] at hk; simp at hk; subst hk; simp [oldInflux] at hki
        · simp [hph, joinedBy]; omega
      · simp [hph, rank]
      · intro j hj; simp [Ph.idx] at hj; subst hj; exact hidx
      · intro j; simp
      · simp
      · simp
    | pass => simp only [hkind] at h; exact hother (by simp [hkind, isUdf]) (by simpa using h.symm)
    | post => simp only [hkind] at h; exact hother (by simp [hkind, isUdf]) (by simpa using h.symm)
    | alert H => simp only [hkind] at h; exact hother (by simp [hkind, isUdf]) (by simpa using h.symm)
    | fail K => simp only [hkind] at h; exact hother (by simp [hkind, isUdf]) (by simpa using h.symm)
    | loop => simp only [hkind] at h; exact hother (by simp [hkind, isUdf]) (by simpa using h.symm)
    | barrier d => simp only [hkind] at h; exact hother (by simp [hkind, isUdf]) (by simpa using h.symm)

/-- Global actions that leave nodes and phase alone. -/
theorem tdinv_glob {par : List Nat} {s s' : State} (hd : TDInv par s) (hn : s'.nodes = s.nodes) (hph : s'.ph = s.ph)
    (hreg : s'.registered = s.registered) (hlk : s'.lockHeld = s.lockHeld) (hets : s'.etStopping = s.etStopping)
    (hthr : s.thrDone = true → s'.thrDone = true) (hic : s.ingestClosed = true → s'.ingestClosed = true)
    (frl : s'.forkRL = true → s'.forkHand = 1 ∨ s'.forkLoop = 1) (fh1 : s'.forkHand ≤ 1 ∧ s'.forkLoop ≤ 1) : TDInv par s' := by
  refine ⟨?_, ?_, ?_, ?_, ?_, ?_, ?_, ?_, ?_, ?_, ?_, ?_, frl, fh1⟩
  · intro k x hk; rw [hn] at hk; exact hd.nodes k x hk
  · intro p c x y hpc hk hk1; rw [hn] at hk hk1; exact hd.pairs p c x y hpc hk hk1
  · intro x hx; rw [hn] at hx; rw [hreg, hph]; exact hd.first x hx
  · intro k x hk; rw [hn] at hk; rw [hph]; exact hd.doneP k x hk
  · intro k x hk; rw [hn] at hk; rw [hph]; exact hd.stopP k x hk
  · intro k x hk; rw [hn] at hk; rw [hph]; exact hd.joinP k x hk
  · intro j hj; rw [hn]; rw [hph] at hj; exact hd.idxV j hj
  · rw [hph]; exact hd.flK
  · rw [hph, hlk]; exact hd.lk
  · rw [hph, hets]; exact hd.ets
  · rw [hph]; exact fun h => hthr (hd.thr h)
  · rw [hph]; exact fun h => hic (hd.ic h)

/-- **The protocol invariant is preserved by every action.** -/
theorem tdinv_step {par : List Nat} {cfg} {s s' : State} {a : Act} (h : Tree.step cfg par s a = some s') (hleak : cfg.alertLeak = false)
    (hea : cfg.influxEarlyAbort = false) (hfo : cfg.udfFwdOrphan = false) (hd : TDInv par s) : TDInv par s' := by
  cases a with
  | stop => exact tdinv_stopStep (by simpa [Tree.step, Kap.C07.step] using h) hea hd
  | node i a => exact tdinv_nodeAct h hleak hea hfo hd
  | write =>
    simp only [Tree.step, Kap.C07.step] at h
    split at h
    · simp only [Option.some.injEq] at h; subst h
      exact tdinv_glob hd rfl rfl rfl rfl rfl (fun h => h) (fun h => h) hd.frl hd.fh1
    · simp at h
  | forkTake =>
    simp only [Tree.step, Kap.C07.step] at h
    repeat' (first | contradiction | split at h)
    all_goals (first | (simp at h; done) | (simp only [Option.some.injEq] at h; subst h))
    · rename_i hc _
      refine tdinv_glob hd rfl rfl rfl rfl rfl (fun h => h) (fun h => h) ?_ ?_
      · intro _; exact Or.inl rfl
      · simp_all
    · rename_i hc _ _
      refine tdinv_glob hd rfl rfl rfl rfl rfl (fun h => h) (fun h => h) ?_ ?_
      · intro _; exact Or.inr rfl
      · simp_all
  | forkLock =>
    simp only [Tree.step, Kap.C07.step] at h
    split at h
    · simp only [Option.some.injEq] at h; subst h
      rename_i hc
      refine tdinv_glob hd rfl rfl rfl rfl rfl (fun h => h) (fun h => h) ?_ hd.fh1; intro _; exact hc.1
    · simp at h
  | forkDrop =>
    simp only [Tree.step, Kap.C07.step] at h
    repeat' (first | contradiction | split at h)
    all_goals (first | (simp at h; done) | (simp only [Option.some.injEq] at h; subst h))
    refine tdinv_glob hd rfl rfl rfl rfl rfl (fun h => h) (fun h => h) ?_ ?_
    · intro h; simp at h
    · have := hd.fh1; simp; exact this.2
  | forkExit =>
    simp only [Tree.step, Kap.C07.step] at h
    split at h
    · simp only [Option.some.injEq] at h; subst h
      exact tdinv_glob hd rfl rfl rfl rfl rfl (fun h => h) (fun h => h) hd.frl hd.fh1
    · simp at h
  | thrExit =>
    simp only [Tree.step, Kap.C07.step] at h
    split at h
    · simp only [Option.some.injEq] at h; subst h
      exact tdinv_glob hd rfl rfl rfl rfl rfl (fun _ => rfl) (fun h => h) hd.frl hd.fh1
    · simp at h
  | forkPut =>
    simp only [Tree.step, Kap.C07.step] at h
    repeat' (first | contradiction | split at h)
    all_goals (first | (simp at h; done) | (simp only [Option.some.injEq] at h; subst h))
    · refine tdinv_glob hd rfl rfl rfl rfl rfl (fun h => h) (fun h => h) ?_ ?_
      · intro h; simp at h
      · have := hd.fh1; simp; exact this.1
    · refine tdinv_glob hd rfl rfl rfl rfl rfl (fun h => h) (fun h => h) ?_ ?_
      · intro h; simp at h
      · have := hd.fh1; simp; exact this.2
    · rename_i nd rest hnodes hcap
      have h0 : s.nodes[0]? = some nd := by rw [hnodes]; rfl
      have hreg : s.registered = true := by simp_all
      have hfi := hd.first nd h0
      have hncl : nd.inClosed = false := by
        cases hcl : nd.inClosed with
        | false => rfl
        | true => have := hfi.1 hcl; simp_all
      have hs : ∀ k, k ≠ 0 → ({ nd with inq := nd.inq + 1, ent := nd.ent + 1 } :: rest)[k]? = s.nodes[k]? := by
        intro k hk; rw [hnodes]; cases k with
        | zero => exact absurd rfl hk
        | succ k => simp
      refine ⟨?_, ?_, ?_, ?_, ?_, ?_, ?_, ?_, ?_, ?_, ?_, ?_, ?_, ?_⟩
      · intro k x hk
        cases k with
        | zero =>
          simp at hk; subst hk
          obtain ⟨h1, ab, fa, dn, fh, al, ah, ad, as, nh, ih, nl, fd, bd⟩ := hd.nodes 0 nd h0
          constructor <;> simp_all <;> (try grind)
        | succ k => rw [hs (k+1) (by omega)] at hk; exact hd.nodes _ x hk
      · intro p c x y hpc hk hk1
        have hlt := isChild_lt hpc
        rw [hs c (by omega)] at hk1
        cases p with
        | zero =>
          simp at hk; subst hk
          have := hd.pairs 0 c nd y hpc h0 hk1
          unfold DPair at *; simpa using this
        | succ k => rw [hs (k+1) (by omega)] at hk; exact hd.pairs _ c x y hpc hk hk1
      · intro x hx; simp at hx; subst hx
        simpa using hfi
      · intro k x hk hdb
        cases k with
        | zero => simp at hk; subst hk; simpa using hd.doneP 0 nd h0 hdb
        | succ k => rw [hs (k+1) (by omega)] at hk; exact hd.doneP _ x hk hdb
      · intro k x hk hkind
        cases k with
        | zero => simp at hk; subst hk; simpa using hd.stopP 0 nd h0 (by simpa using hkind)
        | succ k => rw [hs (k+1) (by omega)] at hk; exact hd.stopP _ x hk hkind
      · intro k x hk hkind hj
        cases k with
        | zero => simp at hk; subst hk; simpa using hd.joinP 0 nd h0 (by simpa using hkind) hj
        | succ k => rw [hs (k+1) (by omega)] at hk; exact hd.joinP _ x hk hkind hj
      · intro j hj; have := hd.idxV j hj; rw [hnodes] at this; simpa using this
      · exact hd.flK
      · exact hd.lk
      · exact hd.ets
      · exact hd.thr
      · exact hd.ic
      · intro h; simp at h
      · have := hd.fh1; simp; exact this.2


/-! ### Liveness on the tree -/

theorem wfPar_spec {par : List Nat} {n : Nat} (h : wfPar par n = true) : ∀ k, 1 ≤ k → k < n → ∃ p, par[k]? = some p ∧ p < k := by
  intro k hk1 hkn
  unfold wfPar at h
  rw [List.all_eq_true] at h
  have := h k (by simpa using hkn)
  have hk0 : (k == 0) = false := by simp; omega
  simp only [hk0, Bool.false_or] at this
  cases hp : par[k]? with
  | none => simp [hp] at this
  | some p => simp [hp] at this; exact ⟨p, rfl, this⟩

/-- An action of some node is enabled in `s`. -/
def TNodeCan (cfg : Cfg) (par : List Nat) (s : State) : Prop := ∃ j a, (Tree.step cfg par s (.node j a)).isSome = true

/-- Some action is enabled. -/
def TProgress (cfg : Cfg) (par : List Nat) (s : State) : Prop := ∃ a, (Tree.step cfg par s a).isSome = true

theorem TNodeCan.progress {cfg par s} (h : TNodeCan cfg par s) : TProgress cfg par s := by
  obtain ⟨j, a, h⟩ := h; exact ⟨.node j a, h⟩

theorem tcan_nodeCan {cfg : Cfg} {par : List Nat} {s : State} {i : Nat} {nd : Nd} (hi : s.nodes[i]? = some nd)
    (hc : Can (env cfg s) nd ((curOf par s.nodes i nd).bind (fun k => s.nodes[k]?))) : TNodeCan cfg par s := by
  obtain ⟨a, ha⟩ := hc
  cases hs : nodeStep (env cfg s) a nd ((curOf par s.nodes i nd).bind (fun k => s.nodes[k]?)) with
  | none => simp [hs] at ha
  | some r =>
    refine ⟨i, a, ?_⟩
    have := tnode_isSome hi hs
    simp only [Tree.step]
    cases hst : tnode (env cfg s) par s.nodes i a with
    | none => simp [hst] at this
    | some p => simp

/-- **Tree liveness**: a node that is not finished and has something to do (a message, a closed input, an error) — it
or some node in the subtree below it can move: a node blocked in its forward loop is blocked on the full input edge of
ONE child (the one the loop is at); that child is not finished and has a message to take. -/
theorem abortedBy_lt {ph : Ph} {j k : Nat} (h : abortedBy ph k = true) (hjk : j < k) : doneBy ph j = true := by
  cases ph <;> simp_all [abortedBy, doneBy] <;> omega

theorem tree_live {cfg : Cfg} {par : List Nat} {s : State} (hd : TDInv par s) (hcap : 1 ≤ cfg.cap) (hhook : cfg.hookLock = false)
    (hleak : cfg.alertLeak = false) (hea : cfg.influxEarlyAbort = false) (hfo : cfg.udfFwdOrphan = false) :
    ∀ (m i : Nat) (nd : Nd), s.nodes.length - i ≤ m → s.nodes[i]? = some nd → nd.done = false →
      (nd.inq > 0 ∨ nd.inClosed = true ∨ nd.failed = true ∨ nd.hand = 1 ∨ (isUdf nd.kind = true ∧ nd.stopping = true)) →
      TNodeCan cfg par s := by
  intro m
  induction m with
  | zero =>
    intro i nd hm hi
    have : i < s.nodes.length := by
      rcases Nat.lt_or_ge i s.nodes.length with h | h
      · exact h
      · rw [List.getElem?_eq_none_iff.mpr h] at hi; simp at hi
    omega
  | succ m ih =>
    intro i nd hm hi hnd hpre
    have hD := hd.nodes i nd hi
    rcases node_local (e := env cfg s) (child := (curOf par s.nodes i nd).bind (fun k => s.nodes[k]?)) hD (by simp [env, hhook])
        (by simp [env, hleak]) (by simp [env, hea]) (by simp [env, hfo]) hnd hpre with hc | ⟨hf, hh1, c, hc, hfull, hnab⟩
    · exact tcan_nodeCan hi hc
    · -- blocked on the full input edge of the child the forward loop is at
      obtain ⟨k, hk, hck⟩ := Option.bind_eq_some_iff.mp hc
      obtain ⟨_, hchild, _, _⟩ := curOf_some hk
      have hlt := isChild_lt hchild
      have hp := hd.pairs i k nd c hchild hi hck
      have hDc := hd.nodes k c hck
      have hcq : c.inq > 0 := by simp [env] at hfull; omega
      have hcnd : c.done = false := by
        cases hcd : c.done with
        | false => rfl
        | true =>
          exfalso
          cases hcf : c.failed with
          | true => have := hDc.fa hcd hcf; simp [this] at hnab
          | false =>
            rcases hDc.dn hcd hcf with hcl | ⟨hu, hst⟩
            · have := hp.2 hcl; simp [this] at hnd
            · have hab := (hd.stopP k c hck (by simp [hu])).mp hst
              have := hd.doneP i nd hi (abortedBy_lt hab hlt)
              simp [this] at hnd
      exact ih k c (by omega) hck hcnd (Or.inl hcq)

/-- The input edge of the node the stop is waiting for has been closed: its parent comes before it in walk order,
so the stop has already waited for the parent, and a finished parent has closed every child edge. -/
theorem tree_inedge_closed {par : List Nat} {s : State} (hd : TDInv par s) (hwf : wfPar par s.nodes.length = true)
    {i : Nat} {nd : Nd} (hi : s.nodes[i]? = some nd) (hnd : nd.done = false)
    (h5 : 5 ≤ rank s.ph) (hprev : ∀ k, k < i → doneBy s.ph k = true) : nd.inClosed = true := by
  have hD := hd.nodes i nd hi
  have hilt : i < s.nodes.length := by
    rcases Nat.lt_or_ge i s.nodes.length with h | h
    · exact h
    · rw [List.getElem?_eq_none_iff.mpr h] at hi; simp at hi
  have hnab : nd.inAborted = false := by
    cases hab : nd.inAborted with
    | false => rfl
    | true => have := (hD.ab hab).1; simp [this] at hnd
  cases i with
  | zero =>
    rcases (hd.first nd hi).2 h5 with h | h
    · exact h
    · simp [h] at hnab
  | succ i =>
    obtain ⟨p, hp, hpl⟩ := wfPar_spec hwf (i+1) (by omega) hilt
    have hchild : isChild par p (i+1) = true := by simp [isChild, hp, hpl]
    have hpn : s.nodes[p]? = some s.nodes[p] := List.getElem?_eq_getElem (by omega)
    have hpd := hd.doneP p _ hpn (hprev p hpl)
    rcases (hd.pairs p (i+1) _ nd hchild hpn hi).1 hpd with h | h
    · exact h
    · simp [h] at hnab

/-- the fork goroutine holds tm.mu.RLock: it (or the chain below the source edge) can move -/
theorem tfork_put_live {cfg : Cfg} {par : List Nat} {s : State} (hd : TDInv par s) (hcap : 1 ≤ cfg.cap) (hhook : cfg.hookLock = false)
    (hleak : cfg.alertLeak = false) (hea : cfg.influxEarlyAbort = false) (hfo : cfg.udfFwdOrphan = false) (hne : s.nodes ≠ []) (hrl : s.forkRL = true) (h3 : rank s.ph ≤ 3) : TProgress cfg par s := by
  by_cases hl : s.forkLoop = 1
  · exact ⟨.forkPut, by simp [Tree.step, Kap.C07.step, hrl, hl]⟩
  · have hh : s.forkHand = 1 := by rcases hd.frl hrl with h | h; exact h; exact absurd h hl
    by_cases hreg : s.registered = true
    · cases hn : s.nodes with
      | nil => exact absurd hn hne
      | cons nd rest =>
        have h0 : s.nodes[0]? = some nd := by rw [hn]; rfl
        by_cases hsp : nd.inq < cfg.cap
        · exact ⟨.forkPut, by simp [Tree.step, Kap.C07.step, hrl, hl, hh, hreg, hn, hsp]⟩
        · by_cases hab : nd.inAborted = true
          · exact ⟨.forkDrop, by simp [Tree.step, Kap.C07.step, hrl, hh, hreg, hn, hab]⟩
          · have hD := hd.nodes 0 nd h0
            have hq : nd.inq > 0 := by omega
            have hnd : nd.done = false := by
              cases hdn : nd.done with
              | false => rfl
              | true =>
                exfalso
                cases hf : nd.failed with
                | true => exact hab (hD.fa hdn hf)
                | false =>
                  rcases hD.dn hdn hf with hcl | ⟨hu, hst⟩
                  · have := (hd.first nd h0).1 hcl; simp [this] at hreg
                  · have := (hd.stopP 0 nd h0 (by simp [hu])).mp hst
                    cases hph : s.ph <;> simp_all [abortedBy, rank]
            exact (tree_live hd hcap hhook hleak hea hfo s.nodes.length 0 nd (by omega) h0 hnd (Or.inl hq)).progress
    · exact ⟨.forkPut, by simp [Tree.step, Kap.C07.step, hrl, hl, hh, hreg]⟩

/-- **No deadlock**: under the protocol invariant, if the stop has not completely finished, some action is enabled. -/
theorem tprogress_or_stopped {cfg : Cfg} {par : List Nat} {s : State} (hd : TDInv par s) (hwf : wfPar par s.nodes.length = true) (hcap : 1 ≤ cfg.cap) (hhook : cfg.hookLock = false)
    (hleak : cfg.alertLeak = false) (hea : cfg.influxEarlyAbort = false) (hfo : cfg.udfFwdOrphan = false) (hne : s.nodes ≠ []) : TProgress cfg par s ∨ s.stopped = true := by
  have stopOk : (stopStep cfg s).isSome = true → TProgress cfg par s := fun h => ⟨.stop, by simpa [Tree.step, Kap.C07.step] using h⟩
  -- the node the stop is working on can move (or something downstream of it)
  have waitLive : ∀ (i : Nat) (nd : Nd), s.ph.idx = some i → s.nodes[i]? = some nd → nd.done = false → TProgress cfg par s := by
    intro i nd hidx hi hnd
    have h5 : 5 ≤ rank s.ph := by cases hph : s.ph <;> simp_all [Ph.idx, rank]
    have hprev : ∀ k, k < i → doneBy s.ph k = true := by
      intro k hk; cases hph : s.ph <;> simp_all [Ph.idx, doneBy]
    have := tree_inedge_closed hd hwf hi hnd h5 hprev
    exact (tree_live hd hcap hhook hleak hea hfo s.nodes.length i nd (by omega) hi hnd (Or.inr (Or.inl this))).progress
  cases hph : s.ph with
  | idle => exact Or.inl (stopOk (by simp [stopStep, hph]))
  | closeIngest => exact Or.inl (stopOk (by simp [stopStep, hph]))
  | delFork => exact Or.inl (stopOk (by simp [stopStep, hph]))
  | etStop => exact Or.inl (stopOk (by simp [stopStep, hph]))
  | flushed i => exact absurd hph (hd.flK i).1
  | unlock => exact Or.inl (stopOk (by simp [stopStep, hph]))
  | waitFork =>
    left
    by_cases hfd : s.forkDone = true
    · exact stopOk (by simp [stopStep, hph, hfd])
    · have hlk := hd.lk (by simp [hph, rank])
      by_cases hrl : s.forkRL = true
      · exact tfork_put_live hd hcap hhook hleak hea hfo hne hrl (by simp [hph, rank])
      · by_cases hh : s.forkHand = 1 ∨ s.forkLoop = 1
        · exact ⟨.forkLock, by simp [Tree.step, Kap.C07.step, hh, hrl, hlk, hph, Ph.wantsLock]⟩
        · have h1 := hd.fh1
          have hh0 : s.forkHand = 0 ∧ s.forkLoop = 0 := by omega
          by_cases hi : s.ingest > 0
          · exact ⟨.forkTake, by simp [Tree.step, Kap.C07.step, hh0, hfd, hi]⟩
          · by_cases hil : s.ingestL > 0
            · exact ⟨.forkTake, by simp [Tree.step, Kap.C07.step, hh0, hfd, hi, hil]⟩
            · have := hd.ic hph
              exact ⟨.forkExit, by simp [Tree.step, Kap.C07.step, hh0, hfd, this]; omega⟩
  | wantLock =>
    left
    have hlk := hd.lk (by simp [hph, rank])
    by_cases hrl : s.forkRL = true
    · exact tfork_put_live hd hcap hhook hleak hea hfo hne hrl (by simp [hph, rank])
    · exact stopOk (by simp [stopStep, hph, hrl, hlk])
  | wgWait =>
    left
    by_cases ht : s.thrDone = true
    · exact stopOk (by simp [stopStep, hph, ht])
    · have := hd.ets (by simp [hph, rank])
      exact ⟨.thrExit, by simp [Tree.step, Kap.C07.step, this, ht]⟩
  | stopF i =>
    left
    have hidx := hd.idxV i (by simp [hph, Ph.idx])
    cases hi : s.nodes[i]? with
    | none => rw [List.getElem?_eq_none_iff] at hi; omega
    | some nd =>
      cases hk : nd.kind with
      | _ => exact stopOk (by simp [stopStep, hph, hi, hk, hea])
  | wbWait i => exact absurd hph (hd.flK i).2
  | wait i =>
    left
    have hidx := hd.idxV i (by simp [hph, Ph.idx])
    cases hi : s.nodes[i]? with
    | none => rw [List.getElem?_eq_none_iff] at hi; omega
    | some nd =>
      by_cases hdn : nd.done = true
      · exact stopOk (by simp [stopStep, hph, hi, hdn])
      · exact waitLive i nd (by simp [hph, Ph.idx]) hi (by simpa using hdn)
  | finished =>
    right
    have ht := hd.thr (by simp [hph, rank])
    simp only [State.stopped, hph, ht, Bool.and_eq_true, decide_eq_true_eq, List.all_eq_true, true_and]
    intro nd hm
    obtain ⟨j, hj⟩ := List.getElem?_of_mem hm
    have hdn := hd.doneP j nd hj (by simp [hph, doneBy])
    have hD := hd.nodes j nd hj
    refine ⟨hdn, ?_⟩
    cases hk : nd.kind with
    | alert H => exact hD.ad (by simp [hk, bufK, isAlert]) hdn
    | influx B => exact hD.ad (by simp [hk, bufK, isInflux]) hdn
    | barrier d => exact hD.bd (by simp [hk, isBarrier]) hdn
    | _ => exact hD.nh (by simp [hk, Kind.hasHelper])

theorem tdinv_init (par : List Nat) (kinds : List Kind) (n : Nat) (hk : ∀ k ∈ kinds, isLoop k = false) : TDInv par (init kinds n) := by
  refine ⟨?_, ?_, ?_, ?_, ?_, ?_, ?_, ?_, ?_, ?_, ?_, ?_, ?_, ?_⟩
  · intro i nd h
    obtain ⟨k, hki, rfl⟩ := init_getElem? _ _ _ _ h
    have := hk k (List.mem_of_getElem? hki)
    constructor <;> simp_all [mkNd]
    · cases k <;> simp_all [bufK, isAlert, isInflux, Kind.hasHelper]
    · cases k <;> simp_all [isInflux, Kind.hasHelper]
  · intro p c nd x _ h h1
    obtain ⟨k, _, rfl⟩ := init_getElem? _ _ _ _ h
    obtain ⟨k', _, rfl⟩ := init_getElem? _ _ _ _ h1
    simp [DPair, mkNd]
  · intro nd h
    obtain ⟨k, _, rfl⟩ := init_getElem? _ _ _ _ h
    simp [mkNd, init, rank]
  · intro k nd h hdb; simp [init, doneBy] at hdb
  · intro k nd h _
    obtain ⟨k', _, rfl⟩ := init_getElem? _ _ _ _ h
    simp [mkNd, init, abortedBy]
  · intro k nd h _ hj; simp [init, joinedBy] at hj
  · intro i hi; simp [init, Ph.idx] at hi
  · intro i; simp [init]
  · simp [init]
  · simp [init, rank]
  · simp [init, rank]
  · simp [init]
  · simp [init]
  · simp [init]

theorem tdinv_run {cfg} {par : List Nat} {s : State} (hleak : cfg.alertLeak = false) (hea : cfg.influxEarlyAbort = false) (hfo : cfg.udfFwdOrphan = false) (hd : TDInv par s) (as : List Act) :
    TDInv par (Tree.run cfg par s as) := by
  induction as generalizing s with
  | nil => exact hd
  | cons a as ih =>
    simp only [Tree.run]
    split
    · rename_i s' hs; exact ih (tdinv_step hs hleak hea hfo hd)
    · exact ih hd

theorem trun_nodes_length {cfg} {par : List Nat} {s : State} (as : List Act) : (Tree.run cfg par s as).nodes.length = s.nodes.length := by
  induction as generalizing s with
  | nil => rfl
  | cons a as ih =>
    simp only [Tree.run]
    split
    · rename_i s' hs
      rw [ih]
      cases a with
      | node i a =>
        simp only [Tree.step] at hs
        split at hs
        · rename_i ns l hst; simp only [Option.some.injEq] at hs; subst hs
          obtain ⟨_, _, _, sp⟩ := tnode_spec hst
          exact sp.len
        · simp at hs
      | stop =>
        simp only [Tree.step, Kap.C07.step] at hs
        unfold stopStep at hs
        repeat' (first | contradiction | split at hs)
        all_goals (first | (simp at hs; done) | (simp only [Option.some.injEq] at hs; subst hs; simp [modifyNth_length]))
      | forkPut =>
        simp only [Tree.step, Kap.C07.step] at hs
        repeat' (first | contradiction | split at hs)
        all_goals (first | (simp at hs; done) | (simp only [Option.some.injEq] at hs; subst hs; simp_all))
      | _ =>
        simp only [Tree.step, Kap.C07.step] at hs
        repeat' (first | contradiction | split at hs)
        all_goals (first | (simp at hs; done) | (simp only [Option.some.injEq] at hs; subst hs; simp))
    · exact ih


/-! ### No helper goroutine sends on a closed edge, on trees -/

theorem tnopanic_step {cfg : Cfg} {par : List Nat} {s s' : State} {a : Act} (h : Tree.step cfg par s a = some s')
    (hg : cfg.barrierGuard = true) (hn : NoPanic s) : NoPanic s' := by
  cases a with
  | node i a =>
    simp only [Tree.step] at h
    split at h
    · rename_i ns l hst
      simp only [Option.some.injEq] at h; subst h
      obtain ⟨nd, r, nd', sp⟩ := tnode_spec hst
      intro k x hk
      rcases sp.cases k x hk with ⟨_, rfl⟩ | ⟨_, _, h0⟩ | ⟨_, x0, hx0, hce⟩
      · rcases sp.acting with e | ⟨_, e, _⟩ <;> rw [e]
        · rw [nodeStep_panicked sp.ns_step (by simp [env, hg])]; exact hn i nd sp.at_i
        · exact hn i nd sp.at_i
      · exact hn k x h0
      · rw [hce.facts.2.2.2.2.2.2.2.1]; exact hn k x0 hx0
    · simp at h
  | write | forkTake | forkLock | forkPut | forkDrop | forkExit | stop | thrExit =>
    exact nopanic_step (by simpa [Tree.step] using h) hg hn

theorem tnopanic_run {cfg : Cfg} {par : List Nat} {s : State} (hg : cfg.barrierGuard = true) (hn : NoPanic s) (as : List Act) :
    NoPanic (Tree.run cfg par s as) := by
  induction as generalizing s with
  | nil => exact hn
  | cons a as ih =>
    simp only [Tree.run]
    split
    · rename_i s' hs; exact ih (tnopanic_step hs hg hn)
    · exact ih hn

/-- No action of the tree model is enabled. -/
def TQuiescent (cfg : Cfg) (par : List Nat) (s : State) : Prop := ∀ a, Tree.step cfg par s a = none

theorem tquiescent_not_progress {cfg : Cfg} {par : List Nat} {s : State} (hq : TQuiescent cfg par s) : ¬ TProgress cfg par s := by
  rintro ⟨a, ha⟩; rw [hq a] at ha; simp at ha

end Kap.C07.Tree
