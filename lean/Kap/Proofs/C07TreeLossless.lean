/-
C07 (trees) — the "lossless" invariant on a tree: pass / httpPost / alert nodes (handler queues not overflowing) stopped
by TaskMaster.Close: no loss action is ever enabled, closed edges receive nothing more, finished nodes have drained
their input and served every child; hence in a stopped state every node of every branch has been handed every
accepted point. Node-local facts (`LNode`, `nodeStep_LNode`) are the chain model's; the proofs for the stopping
goroutine and the TaskMaster are those of Proofs/C07Lossless.lean, restated.
-/
import Kap.Proofs.C07TreeCons
import Kap.Proofs.C07TreeLive
set_option linter.unusedSimpArgs false
set_option linter.unusedVariables false
namespace Kap.C07.Tree
open Kap.C07

/-- The lossless invariant on the topology `par` (includes conservation). -/
structure TLossless (N : Nat) (cfg : Cfg) (par : List Nat) (s : State) : Prop where
  cons : TCons par s
  viaClose : cfg.viaClose = true
  nodes : ∀ (i : Nat) (nd : Nd), s.nodes[i]? = some nd → LNode N nd
  pairs : ∀ (p c : Nat) (nd x : Nd), isChild par p c = true → s.nodes[p]? = some nd → s.nodes[c]? = some x → LPair nd x
  first : ∀ nd, s.nodes[0]? = some nd → nd.inClosed = true → s.registered = false
  li : s.lostIngest = 0
  acc : s.accepted + s.toWrite = N
  fh : s.forkHand ≤ 1
  noloop : s.ingestL = 0 ∧ s.forkLoop = 0
  frl : s.forkRL = true → s.forkHand = 1
  fd : s.forkDone = true → s.ingest = 0 ∧ s.forkHand = 0 ∧ s.ingestClosed = true
  icr : s.ingestClosed = true → 2 ≤ rank s.ph
  rk : 3 ≤ rank s.ph → s.forkDone = true
  reg : s.registered = false → 5 ≤ rank s.ph
  nofl : ∀ i, s.ph ≠ .flushed i ∧ s.ph ≠ .wbWait i

theorem LNode_owed {N : Nat} {x : Nd} (h : LNode N x) (v : Nat) : LNode N { x with owed := v } := by
  obtain ⟨k, nf, na, ndr, nl, el, h1, dq, sq, hq⟩ := h
  exact ⟨k, nf, na, ndr, nl, el, h1, dq, sq, hq⟩

theorem LNode_recv {N : Nat} {x : Nd} (h : LNode N x) (hcl : x.inClosed = false) (he : x.ent + 1 ≤ N) :
    LNode N { x with inq := x.inq + 1, ent := x.ent + 1, owed := 0 } := by
  obtain ⟨k, nf, na, ndr, nl, el, h1, dq, sq, hq⟩ := h
  refine ⟨k, nf, na, ndr, nl, he, h1, ?_, ?_, hq⟩
  · intro hd; have := dq hd; simp_all
  · intro hs; have := sq hs; simp_all

theorem lossless_fwd {N : Nat} {k : Kind} (h : losslessKind N k = true) : fwd k = true := by
  cases k <;> simp_all [losslessKind, fwd]

theorem nodeStep_putErr_fails {N env nd child r} (h : nodeStep env .putErr nd child = some r) (hk : losslessKind N nd.kind = true) :
    r.nd.failed = true := by
  nstep h <;> simp_all [losslessKind]

theorem tlossless_nodeAct {N cfg} {par : List Nat} {s s' : State} {i : Nat} {a : NAct} (h : Tree.step cfg par s (.node i a) = some s')
    (hl : TLossless N cfg par s) : TLossless N cfg par s' := by
  have hc' := tcons_nodeAct h hl.cons
  simp only [Tree.step] at h
  split at h
  case h_2 => simp at h
  rename_i ns l hst
  simp only [Option.some.injEq] at h
  obtain ⟨nd, r, nd', sp⟩ := tnode_spec hst
  have hcases := sp.cases
  have g1 := sp.at_i
  have g2 := sp.ns_step
  have hLnd := hl.nodes i nd g1
  have hnl : l = false := by rw [sp.looped]; exact nodeStep_not_looped g2 hLnd
  subst hnl
  have hs' : s' = { s with nodes := ns } := by rw [← h]; simp
  have hchildAb : ∀ c, (curOf par s.nodes i nd).bind (fun k => s.nodes[k]?) = some c → c.inAborted = false := by
    intro c hcb
    obtain ⟨k, _, hck⟩ := Option.bind_eq_some_iff.mp hcb
    exact (hl.nodes k c hck).noabort
  have hr : LNode N r.nd := nodeStep_LNode g2 hLnd (hl.cons.nodeIn i nd g1) (hl.cons.nodeOut i nd g1) hchildAb
  have hnd' : LNode N nd' := by
    rcases sp.acting with e | ⟨_, e, _⟩ <;> rw [e]
    · exact hr
    · exact hLnd
  have hact : nd'.inClosed = nd.inClosed ∧ (nd.done = true → nd'.done = true) := by
    rcases sp.acting with e | ⟨_, e, _⟩ <;> rw [e]
    · exact ⟨nodeStep_inClosed g2, nodeStep_done_mono g2⟩
    · exact ⟨rfl, id⟩
  have hchild : ∀ k x x', isChild par i k = true → s.nodes[k]? = some x → CE (env cfg s) a nd r.nd x x' →
      LNode N x' ∧ LPair nd' x' := by
    intro k x x' hck hx hce
    have hLx := hl.nodes k x hx
    have hp := hl.pairs i k nd x hck g1 hx
    have he := hl.cons.edge i k nd x hck g1 hx
    unfold LPair at hp ⊢
    rcases hce with ⟨e, _⟩ | ⟨_, e, _⟩ | ⟨ha, e, ho, _, hf, _, hndd, _⟩ | ⟨ha, e⟩ | ⟨ha, e, hrd⟩
    · subst e; exact ⟨hLx, fun hcl => hact.2 (hp hcl)⟩
    · subst e; exact ⟨LNode_owed hLx 1, fun hcl => hact.2 (hp hcl)⟩
    · subst e
      have hncl : x.inClosed = false := by
        cases hcl : x.inClosed with
        | false => rfl
        | true => have := hp hcl; simp_all
      have hent : x.ent + 1 ≤ N := by
        have h1 := (he.2.2.2 hf).1
        have h2 := hl.cons.nodeIn i nd g1
        have h3 := hLnd.entle
        unfold balIn at h2
        omega
      exact ⟨LNode_recv hLx hncl hent, fun hcl => by simp [hncl] at hcl⟩
    · exfalso
      subst ha
      have := nodeStep_putErr_fails g2 hLnd.kind
      have := hr.nofail
      simp_all
    · subst e
      have hnd'r : nd' = r.nd := by
        rcases sp.acting with e' | ⟨hput, _⟩
        · exact e'
        · rw [ha] at hput; simp at hput
      exact ⟨(LNode_owed hLx 0).closeIn, fun _ => by rw [hnd'r]; exact hrd⟩
  refine ⟨hc', hl.viaClose, ?_, ?_, ?_, ?_, ?_, ?_, ?_, ?_, ?_, ?_, ?_, ?_, ?_⟩
  · intro k x hk
    rw [hs'] at hk
    rcases hcases k x hk with ⟨_, rfl⟩ | ⟨_, _, h0⟩ | ⟨hck, x0, hx0, hce⟩
    · exact hnd'
    · exact hl.nodes k x h0
    · exact (hchild k x0 x hck hx0 hce).1
  · intro p c x y hpc hk hk1
    rw [hs'] at hk hk1
    have hlt := isChild_lt hpc
    rcases hcases p x hk with ⟨hpi, rfl⟩ | ⟨hpi, hpnc, h0⟩ | ⟨hpc', x0, hx0, hce⟩
    · subst hpi
      rcases hcases c y hk1 with ⟨hci, _⟩ | ⟨_, hnc, _⟩ | ⟨_, y0, hy0, hce⟩
      · omega
      · rw [hpc] at hnc; simp at hnc
      · exact (hchild c y0 y hpc hy0 hce).2
    · rcases hcases c y hk1 with ⟨hci, rfl⟩ | ⟨_, _, h1⟩ | ⟨hc'', _⟩
      · subst hci
        have := hl.pairs p c x nd hpc h0 g1
        unfold LPair at *
        rw [hact.1]; exact this
      · exact hl.pairs p c x y hpc h0 h1
      · exact absurd (isChild_unique hpc hc'') hpi
    · have hpi : p ≠ i := by have := isChild_lt hpc'; omega
      rcases hcases c y hk1 with ⟨hci, _⟩ | ⟨_, _, h1⟩ | ⟨hc'', _⟩
      · have := isChild_lt hpc'; omega
      · have := hl.pairs p c x0 y hpc hx0 h1
        unfold LPair at *
        rw [hce.facts.1]; exact this
      · exact absurd (isChild_unique hpc hc'') hpi
  · intro x hx hcl
    rw [hs'] at hx ⊢
    show s.registered = false
    rcases hcases 0 x hx with ⟨hki, rfl⟩ | ⟨_, _, h0⟩ | ⟨hc0, _⟩
    · rw [hact.1] at hcl
      exact hl.first nd (by rw [hki]; exact g1) hcl
    · exact hl.first x h0 hcl
    · have := isChild_lt hc0; omega
  all_goals (rw [hs'])
  · exact hl.li
  · exact hl.acc
  · exact hl.fh
  · exact hl.noloop
  · exact hl.frl
  · exact hl.fd
  · exact hl.icr
  · exact hl.rk
  · exact hl.reg
  · exact hl.nofl

/-- Lossless is preserved when only non-node fields change. -/
theorem TLossless.same_nodes {N cfg} {par : List Nat} {s s' : State} (h : TLossless N cfg par s) (hc : TCons par s') (hn : s'.nodes = s.nodes)
    (hreg : s'.registered = s.registered ∨ (s'.registered = false))
    (li : s'.lostIngest = 0) (acc : s'.accepted + s'.toWrite = N) (fh : s'.forkHand ≤ 1)
    (noloop : s'.ingestL = 0 ∧ s'.forkLoop = 0) (frl : s'.forkRL = true → s'.forkHand = 1)
    (fd : s'.forkDone = true → s'.ingest = 0 ∧ s'.forkHand = 0 ∧ s'.ingestClosed = true)
    (icr : s'.ingestClosed = true → 2 ≤ rank s'.ph) (rk : 3 ≤ rank s'.ph → s'.forkDone = true)
    (reg : s'.registered = false → 5 ≤ rank s'.ph) (nofl : ∀ i, s'.ph ≠ .flushed i ∧ s'.ph ≠ .wbWait i) : TLossless N cfg par s' := by
  refine ⟨hc, h.viaClose, ?_, ?_, ?_, li, acc, fh, noloop, frl, fd, icr, rk, reg, nofl⟩
  · intro i nd hi; rw [hn] at hi; exact h.nodes i nd hi
  · intro p c nd x hpc hi hi1; rw [hn] at hi hi1; exact h.pairs p c nd x hpc hi hi1
  · intro nd hi hcl; rw [hn] at hi
    rcases hreg with e | e
    · rw [e]; exact h.first nd hi hcl
    · exact e

theorem tlossless_stopStep {N cfg} {par : List Nat} {s s' : State} (h : stopStep cfg s = some s') (hl : TLossless N cfg par s) : TLossless N cfg par s' := by
  have hc' := tcons_stopStep (par := par) h hl.cons
  have hv := hl.viaClose
  have ⟨_, _, hnodes, hpairs, hfirst, li, acc, fh, noloop, frl, fd, icr, rk, reg, nofl⟩ := hl
  unfold stopStep afterWait at h
  split at h
  case h_5 hph =>
    -- delFork: the source edge is closed, the task unregistered
    simp only [Option.some.injEq] at h; subst h
    have get : ∀ k, (modifyNth s.nodes 0 closeIn)[k]? = if k = 0 then s.nodes[k]?.map closeIn else s.nodes[k]? :=
      fun k => modifyNth_getElem? _ _ _ _
    refine ⟨hc', hv, ?_, ?_, ?_, li, acc, fh, noloop, frl, fd, ?_, ?_, ?_, ?_⟩
    · intro i nd hi
      simp only [get] at hi
      split at hi
      · cases h0 : s.nodes[i]? with
        | none => simp [h0] at hi
        | some nd0 => simp [h0] at hi; subst hi; exact (hnodes i nd0 h0).closeIn
      · exact hnodes i nd hi
    · intro p c nd x hpc hi hi1
      have hlt := isChild_lt hpc
      simp only [get] at hi hi1
      split at hi1
      · omega
      · split at hi
        · cases h0 : s.nodes[p]? with
          | none => simp [h0] at hi
          | some nd0 =>
            simp [h0] at hi; subst hi
            have := hpairs p c nd0 x hpc h0 hi1
            unfold LPair at *; simpa using this
        · exact hpairs p c nd x hpc hi hi1
    · intros; rfl
    · intro hic; have := icr hic; simp_all [rank]
    · intro _; exact rk (by simp_all [rank])
    · intro _; simp [rank]
    · intro i; simp
  all_goals
    (repeat' (first | contradiction | split at h)
     all_goals (first | (simp at h; done) | (simp only [Option.some.injEq] at h; subst h)))
  all_goals (first
    | (refine hl.same_nodes hc' rfl (Or.inl rfl) li acc fh noloop frl ?_ ?_ ?_ ?_ ?_
        <;> simp_all [rank, afterWait] <;> (try split) <;> simp_all [rank] <;> (try omega); done)
    | (exfalso; have hk := (hnodes _ _ (by assumption)).kind; simp_all [losslessKind]; done)
    | (exfalso; simp_all; done))

/-- **The lossless invariant is preserved by every action.** -/
theorem tlossless_step {N cfg} {par : List Nat} {s s' : State} {a : Act} (h : Tree.step cfg par s a = some s') (hl : TLossless N cfg par s) : TLossless N cfg par s' := by
  have hc' := tcons_step h hl.cons
  cases a with
  | stop => exact tlossless_stopStep (by simpa [Tree.step, Kap.C07.step] using h) hl
  | node i a => exact tlossless_nodeAct h hl
  | forkPut =>
    have ⟨_, hv, hnodes, hpairs, hfirst, li, acc, fh, noloop, frl, fd, icr, rk, reg, nofl⟩ := hl
    simp only [Tree.step, Kap.C07.step] at h
    repeat' (first | contradiction | split at h)
    all_goals (first | (simp at h; done) | (simp only [Option.some.injEq] at h; subst h))
    · exfalso; simp_all
    · -- unregistered: impossible, the fork goroutine has finished before delFork
      exfalso
      have h5 := reg (by simp_all)
      have := fd (rk (by omega))
      simp_all
    · rename_i nd rest hnodes' _
      have h0 : s.nodes[0]? = some nd := by rw [hnodes']; rfl
      have hLn := hnodes 0 nd h0
      have hreg : s.registered = true := by simp_all
      have hncl : nd.inClosed = false := by
        cases hcl : nd.inClosed with
        | false => rfl
        | true => have := hfirst nd h0 hcl; simp_all
      have hsrc := hl.cons.src
      rw [h0] at hsrc
      simp only [Option.map_some, Option.getD_some] at hsrc
      refine ⟨hc', hv, ?_, ?_, ?_, li, acc, by simp, noloop, by simp, ?_, icr, rk, reg, nofl⟩
      · intro k x hk
        cases k with
        | zero =>
          simp at hk; subst hk
          obtain ⟨k, nf, na, ndr, nl, el, h1, dq, sq, hq⟩ := hLn
          constructor <;> simp_all <;> (try omega) <;> (try (cases hd : nd.done <;> simp_all)) <;> (try (cases hs : nd.stopping <;> simp_all))
        | succ k => exact hnodes (k+1) x (by rw [hnodes']; simpa using hk)
      · intro p c x y hpc hk hk1
        have hlt := isChild_lt hpc
        have h1 : s.nodes[c]? = some y := by
          rw [hnodes']
          cases c with
          | zero => omega
          | succ c => simpa using hk1
        cases p with
        | zero =>
          simp at hk; subst hk
          have := hpairs 0 c nd y hpc h0 h1
          unfold LPair at *; simpa using this
        | succ k => exact hpairs (k+1) c x y hpc (by rw [hnodes']; simpa using hk) h1
      · intro x hx hcl
        simp at hx; subst hx
        simp at hcl; simp_all
      · intro hfd; have := fd hfd; simp_all
  | write =>
    have ⟨_, hv, hnodes, hpairs, hfirst, li, acc, fh, noloop, frl, fd, icr, rk, reg, nofl⟩ := hl
    simp only [Tree.step, Kap.C07.step] at h
    split at h
    · simp only [Option.some.injEq] at h; subst h
      rename_i hcond
      refine hl.same_nodes hc' rfl (Or.inl rfl) li (by simp; omega) fh noloop frl ?_ ?_ ?_ ?_ ?_ <;> simp_all [rank]
    · simp at h
  | forkTake =>
    have ⟨_, hv, hnodes, hpairs, hfirst, li, acc, fh, noloop, frl, fd, icr, rk, reg, nofl⟩ := hl
    simp only [Tree.step, Kap.C07.step] at h
    repeat' (first | contradiction | split at h)
    all_goals (first | (simp at h; done) | (simp only [Option.some.injEq] at h; subst h))
    · refine hl.same_nodes hc' rfl (Or.inl rfl) li acc (by simp) noloop ?_ ?_ icr rk reg nofl <;> simp_all
    · exfalso; simp_all
  | forkLock =>
    have ⟨_, hv, hnodes, hpairs, hfirst, li, acc, fh, noloop, frl, fd, icr, rk, reg, nofl⟩ := hl
    simp only [Tree.step, Kap.C07.step] at h
    split at h
    · simp only [Option.some.injEq] at h; subst h
      refine hl.same_nodes hc' rfl (Or.inl rfl) li acc fh noloop ?_ fd icr rk reg nofl
      simp_all
    · simp at h
  | forkDrop =>
    have ⟨_, hv, hnodes, hpairs, hfirst, li, acc, fh, noloop, frl, fd, icr, rk, reg, nofl⟩ := hl
    simp only [Tree.step, Kap.C07.step] at h
    repeat' (first | contradiction | split at h)
    all_goals (first | (simp at h; done) | (simp only [Option.some.injEq] at h; subst h))
    exfalso
    rename_i nd rest hnodes' hab
    have := (hnodes 0 nd (by rw [hnodes']; rfl)).noabort
    simp_all
  | forkExit =>
    have ⟨_, hv, hnodes, hpairs, hfirst, li, acc, fh, noloop, frl, fd, icr, rk, reg, nofl⟩ := hl
    simp only [Tree.step, Kap.C07.step] at h
    split at h
    · simp only [Option.some.injEq] at h; subst h
      refine hl.same_nodes hc' rfl (Or.inl rfl) li acc fh noloop frl ?_ icr ?_ reg nofl <;> simp_all
    · simp at h
  | thrExit =>
    have ⟨_, hv, hnodes, hpairs, hfirst, li, acc, fh, noloop, frl, fd, icr, rk, reg, nofl⟩ := hl
    simp only [Tree.step, Kap.C07.step] at h
    split at h
    · simp only [Option.some.injEq] at h; subst h
      exact hl.same_nodes hc' rfl (Or.inl rfl) li acc fh noloop frl fd icr rk reg nofl
    · simp at h


theorem tlossless_run {N cfg} {par : List Nat} {s : State} (hl : TLossless N cfg par s) (as : List Act) :
    TLossless N cfg par (Tree.run cfg par s as) := by
  induction as generalizing s with
  | nil => exact hl
  | cons a as ih =>
    simp only [Tree.run]
    split
    · rename_i s' hs; exact ih (tlossless_step hs hl)
    · exact ih hl

theorem tlossless_init (cfg : Cfg) (par : List Nat) (kinds : List Kind) (N : Nat) (hv : cfg.viaClose = true)
    (hk : ∀ k ∈ kinds, losslessKind N k = true) : TLossless N cfg par (init kinds N) := by
  refine ⟨tcons_init _ _ _, hv, ?_, ?_, ?_, rfl, by simp [init], by simp [init], by simp [init], by simp [init], by simp [init],
    by simp [init], by simp [init, rank], by simp [init], by simp [init]⟩
  · intro i nd h
    obtain ⟨k, hki, rfl⟩ := init_getElem? _ _ _ _ h
    have := hk k (List.mem_of_getElem? hki)
    constructor <;> simp_all [mkNd]
    intro H hH; subst hH; simp [Kind.hasHelper]
  · intro p c nd x _ h h1
    obtain ⟨k', _, rfl⟩ := init_getElem? _ _ _ _ h1
    simp [LPair, mkNd]
  · intro nd h hcl
    obtain ⟨k, _, rfl⟩ := init_getElem? _ _ _ _ h
    simp [mkNd] at hcl

/-- In a lossless state of a tree whose stop has finished, every node of every branch has received every accepted point. -/
theorem tlossless_stopped_ent {N cfg} {par : List Nat} {s : State} (hl : TLossless N cfg par s) (hwf : wfPar par s.nodes.length = true)
    (hst : s.stopped = true) : ∀ (m j : Nat) (nd : Nd), j ≤ m → s.nodes[j]? = some nd → nd.ent = s.accepted ∧ nd.got = s.accepted := by
  simp only [State.stopped, Bool.and_eq_true, decide_eq_true_eq, List.all_eq_true] at hst
  have hph : s.ph = .finished := hst.1
  have hall := hst.2.2
  have hfd := hl.fd (hl.rk (by rw [hph]; simp [rank]))
  have hsrc := hl.cons.src
  have key : ∀ (j : Nat) (nd : Nd), s.nodes[j]? = some nd → nd.ent = s.accepted → nd.got = s.accepted := by
    intro j nd hj he
    have hd := hall nd (List.mem_of_getElem? hj)
    have := (hl.nodes j nd hj).doneq hd.1
    have hb := hl.cons.nodeIn j nd hj
    unfold balIn at hb; omega
  intro m
  induction m with
  | zero =>
    intro j nd hj0 hj
    have : j = 0 := by omega
    subst this
    rw [hj] at hsrc
    simp only [Option.map_some, Option.getD_some] at hsrc
    have he : nd.ent = s.accepted := by have := hl.li; omega
    exact ⟨he, key 0 nd hj he⟩
  | succ m ih =>
    intro j x hjm hj
    by_cases hle : j ≤ m
    · exact ih j x hle hj
    · have hjlt : j < s.nodes.length := by
        rcases Nat.lt_or_ge j s.nodes.length with h | h
        · exact h
        · rw [List.getElem?_eq_none_iff.mpr h] at hj; simp at hj
      obtain ⟨p, hp, hpl⟩ := wfPar_spec hwf j (by omega) hjlt
      have hchild : isChild par p j = true := by simp [isChild, hp, hpl]
      have hpn : s.nodes[p]? = some s.nodes[p] := List.getElem?_eq_getElem (by omega)
      obtain ⟨_, hg⟩ := ih p _ (by omega) hpn
      have hL := hl.nodes p _ hpn
      have he := hl.cons.edge p j _ x hchild hpn hj
      have hd := hall _ (List.mem_of_getElem? hpn)
      have hq := hL.doneq hd.1
      have how := he.2.1 hq.1
      have hb := he.2.2.2 (lossless_fwd hL.kind)
      have hdr := hL.nodrop
      have hent : x.ent = s.accepted := by omega
      exact ⟨hent, key j x hj hent⟩

/-- Lossless trees: a stopped state has handed every accepted point to every output. -/
theorem tlossless_delivered {N cfg} {par : List Nat} {s : State} (hl : TLossless N cfg par s) (hwf : wfPar par s.nodes.length = true) (hst : s.stopped = true) :
    (outcomeOf s).delivered.all (· = s.accepted) = true := by
  have hent := fun j nd h => tlossless_stopped_ent hl hwf hst j j nd (Nat.le_refl j) h
  have hst' := (stopped_iff s).mp hst
  simp only [outcomeOf, List.all_eq_true, List.mem_map, List.mem_filter, decide_eq_true_eq]
  rintro d ⟨nd, ⟨hmem, hkind⟩, rfl⟩
  obtain ⟨j, hj⟩ := List.getElem?_of_mem hmem
  have hg := (hent j nd hj).2
  have hb := hl.cons.nodeOut j nd hj
  have hL := hl.nodes j nd hj
  have hd := hst'.2.2 nd hmem
  have hkl := hL.kind
  unfold balOut at hb
  cases hkk : nd.kind with
  | post => rw [hkk] at hb; simp only at hb; omega
  | alert H =>
    -- the handler goroutine has exited, so its queue is empty; nothing overflowed
    rw [hkk] at hb; simp only at hb
    have := hL.helpq ⟨H, hkk⟩ hd.2
    have := hL.nolost
    omega
  | influx B => rw [hkk] at hkl; simp [losslessKind] at hkl
  | pass => rw [hkk] at hkind; simp [isOutputKind] at hkind
  | udf => rw [hkk] at hkind; simp [isOutputKind] at hkind
  | fail K => rw [hkk] at hkind; simp [isOutputKind] at hkind
  | loop => rw [hkk] at hkind; simp [isOutputKind] at hkind
  | barrier d => rw [hkk] at hkind; simp [isOutputKind] at hkind

theorem tlossless_holds {N cfg} {par : List Nat} {s : State} (hl : TLossless N cfg par s) (hwf : wfPar par s.nodes.length = true) (hst : s.stopped = true) (hn : NoPanic s) :
    holds (outcomeOf s) = true := by
  have ⟨h1, h2⟩ := stopped_terminated hst
  refine holds_of (noCrash_of hn) h1 h2 ?_
  have := tlossless_delivered hl hwf hst
  simp only [allDelivered, Bool.or_eq_true]
  right
  have e : (outcomeOf s).accepted = s.accepted := rfl
  rw [e]; exact this


end Kap.C07.Tree
