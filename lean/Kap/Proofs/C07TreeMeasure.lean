/-
C07 (trees) — a natural-number measure that strictly decreases with EVERY enabled action of the tree model (so every
schedule is finite, without any fairness assumption).

On a tree one message taken by a node becomes one message per child edge, so a message in the input edge of node `k`
weighs `3^(n-1-k)` times a message unit: the children of a node come after it in walk order, hence all messages a
`take` at node `i` makes its children owe together weigh less than the message taken
(Σ_{k>i} 3^(n-1-k) = (3^(n-1-i) - 1)/2). The bound is exponential in the number of nodes (a polynomial one would need
the sizes of the subtrees); what matters here is that it is a bound.
-/
import Kap.Proofs.C07TreeBase
import Kap.Proofs.C07Measure
set_option linter.unusedSimpArgs false
set_option linter.unusedVariables false
namespace Kap.C07.Tree
open Kap.C07

/-- message units of a node's input edge: queued messages, and the one its parent still owes it -/
def mass (nd : Nd) : Nat := 6 * nd.inq + 12 * nd.owed

/-- the rest of a node's weight (linear) -/
def rest (nd : Nd) : Nat :=
  4 * nd.hand + nd.buf + b2n nd.inited + b2n nd.stopping + b2n nd.helperDone + b2n nd.done + b2n nd.failed + b2n nd.panicked

def potT : List Nd → Nat
  | [] => 0
  | nd :: r => 3 ^ r.length * mass nd + rest nd + potT r

/-- **The measure of the tree model.** -/
def muT (s : State) : Nat :=
  6 * 3 ^ s.nodes.length * (s.toWrite + s.ingest + s.forkHand) + potT s.nodes +
  7 * s.toWrite + 6 * s.ingest + 4 * s.forkHand + 3 * s.ingestL + 2 * s.forkLoop +
  b2n s.forkRL + b2n s.forkDone + b2n s.thrDone + phPot s.nodes.length s.ph

theorem pow3_succ (k : Nat) : 3 ^ (k + 1) = 3 * 3 ^ k := by rw [Nat.pow_succ]; omega
theorem pow3_pos (k : Nat) : 1 ≤ 3 ^ k := Nat.pow_pos (by omega)

/-- nodes that only lose message units -/
theorem potT_le : ∀ (l l' : List Nd), l'.length = l.length →
    (∀ (k : Nat) (x x' : Nd), l[k]? = some x → l'[k]? = some x' → mass x' ≤ mass x ∧ rest x' ≤ rest x) → potT l' ≤ potT l := by
  intro l
  induction l with
  | nil => intro l' hl _; cases l' with | nil => simp [potT] | cons _ _ => simp at hl
  | cons x r ih =>
    intro l' hl h
    cases l' with
    | nil => simp at hl
    | cons x' r' =>
      have hlen : r'.length = r.length := by simpa using hl
      have h0 := h 0 x x' rfl rfl
      have ht := ih r' hlen (fun k y y' hy hy' => h (k+1) y y' (by simpa using hy) (by simpa using hy'))
      have hm := Nat.mul_le_mul_left (3 ^ r.length) h0.1
      simp only [potT, hlen]
      omega

/-- … and one of them loses at least one message unit -/
theorem potT_strict : ∀ (l l' : List Nd), l'.length = l.length →
    (∀ (k : Nat) (x x' : Nd), l[k]? = some x → l'[k]? = some x' → mass x' ≤ mass x ∧ rest x' ≤ rest x) →
    (∃ (k : Nat) (x x' : Nd), l[k]? = some x ∧ l'[k]? = some x' ∧ mass x' + 6 ≤ mass x) → potT l' + 6 ≤ potT l := by
  intro l
  induction l with
  | nil => intro l' _ _ hw; obtain ⟨k, x, _, hx, _⟩ := hw; simp at hx
  | cons x r ih =>
    intro l' hl h hw
    cases l' with
    | nil => simp at hl
    | cons x' r' =>
      have hlen : r'.length = r.length := by simpa using hl
      have h0 := h 0 x x' rfl rfl
      have htl : ∀ (k : Nat) (y y' : Nd), r[k]? = some y → r'[k]? = some y' → mass y' ≤ mass y ∧ rest y' ≤ rest y :=
        fun k y y' hy hy' => h (k+1) y y' (by simpa using hy) (by simpa using hy')
      simp only [potT, hlen]
      obtain ⟨k, y, y', hy, hy', hd⟩ := hw
      cases k with
      | zero =>
        simp at hy hy'; subst hy; subst hy'
        have ht := potT_le r r' hlen htl
        have hm := Nat.mul_le_mul_left (3 ^ r.length) hd
        have hp := pow3_pos r.length
        rw [Nat.mul_add] at hm
        omega
      | succ k =>
        have ht := ih r' hlen htl ⟨k, y, y', by simpa using hy, by simpa using hy', hd⟩
        have hm := Nat.mul_le_mul_left (3 ^ r.length) h0.1
        omega

/-- nodes each of which may come to be owed one message: together less than `6 * 3 ^ length` -/
theorem potT_inc : ∀ (l l' : List Nd), l'.length = l.length →
    (∀ (k : Nat) (x x' : Nd), l[k]? = some x → l'[k]? = some x' → mass x' ≤ mass x + 12 ∧ rest x' ≤ rest x) →
    potT l' + 6 ≤ potT l + 6 * 3 ^ l.length := by
  intro l
  induction l with
  | nil => intro l' hl _; cases l' with | nil => simp [potT] | cons _ _ => simp at hl
  | cons x r ih =>
    intro l' hl h
    cases l' with
    | nil => simp at hl
    | cons x' r' =>
      have hlen : r'.length = r.length := by simpa using hl
      have h0 := h 0 x x' rfl rfl
      have ht := ih r' hlen (fun k y y' hy hy' => h (k+1) y y' (by simpa using hy) (by simpa using hy'))
      have hm := Nat.mul_le_mul_left (3 ^ r.length) h0.1
      rw [Nat.mul_add] at hm
      simp only [potT, hlen, List.length_cons, pow3_succ]
      omega

/-- The acting node `i` changes from `nd` to `nd'`, the nodes before it stay, the nodes after it change within
`bound`: the potential without the acting node's own message units. -/
theorem potT_update (inc : Bool) : ∀ (l l' : List Nd) (i : Nat) (nd nd' : Nd), l'.length = l.length →
    (∀ k, k < i → l'[k]? = l[k]?) → l[i]? = some nd → l'[i]? = some nd' →
    (∀ (k : Nat) (x x' : Nd), i < k → l[k]? = some x → l'[k]? = some x' → mass x' ≤ mass x + (if inc then 12 else 0) ∧ rest x' ≤ rest x) →
    potT l' + 3 ^ (l.length - 1 - i) * mass nd + rest nd + (if inc then 6 else 0) ≤
      potT l + 3 ^ (l.length - 1 - i) * mass nd' + rest nd' + (if inc then 6 * 3 ^ (l.length - 1 - i) else 0) := by
  intro l
  induction l with
  | nil => intro l' i nd nd' _ _ hi; simp at hi
  | cons x r ih =>
    intro l' i nd nd' hl hpre hi hi' hpost
    cases l' with
    | nil => simp at hl
    | cons x' r' =>
      have hlen : r'.length = r.length := by simpa using hl
      cases i with
      | zero =>
        simp at hi hi'; subst hi; subst hi'
        have htl : ∀ (k : Nat) (y y' : Nd), r[k]? = some y → r'[k]? = some y' → mass y' ≤ mass y + (if inc then 12 else 0) ∧ rest y' ≤ rest y :=
          fun k y y' hy hy' => hpost (k+1) y y' (by omega) (by simpa using hy) (by simpa using hy')
        simp only [potT, hlen, List.length_cons, Nat.add_sub_cancel, Nat.sub_zero]
        cases inc with
        | true =>
          have := potT_inc r r' hlen (by simpa using htl)
          simp only [if_true]; omega
        | false =>
          have := potT_le r r' hlen (by simpa using htl)
          simp only [Bool.false_eq_true, if_false]; omega
      | succ i =>
        have hx : x' = x := by have := hpre 0 (by omega); simpa using this
        subst hx
        have := ih r' i nd nd' hlen (fun k hk => by have := hpre (k+1) (by omega); simpa using this)
          (by simpa using hi) (by simpa using hi')
          (fun k y y' hk hy hy' => hpost (k+1) y y' (by omega) (by simpa using hy) (by simpa using hy'))
        have e : (x' :: r).length - 1 - (i + 1) = r.length - 1 - i := by simp; omega
        simp only [potT, hlen, e]
        omega

/-! ### What one action does to the acting node -/

/-- Either the node keeps its input queue and its linear weight strictly decreases (by 4 or more when a point was
looped back), or it took one message (then the linear weight grows by 5 at most). Its `owed` never changes. -/
theorem nodeStep_decT {env a nd child r} (h : nodeStep env a nd child = some r) :
    r.nd.owed = nd.owed ∧
    ((r.nd.inq = nd.inq ∧ rest r.nd + (if r.looped then 3 else 0) + 1 ≤ rest nd) ∨
     (a = .take ∧ r.nd.inq + 1 = nd.inq ∧ rest r.nd ≤ rest nd + 5 ∧ r.looped = false)) := by
  unfold rest b2n
  nstep h <;> simp_all <;> (try omega) <;>
    (try (cases nd.inited <;> cases nd.stopping <;> cases nd.helperDone <;> cases nd.done <;> cases nd.failed <;> cases nd.panicked <;> cases isBarrier nd.kind <;> simp_all <;> omega))

theorem CE.mass {env a nd rnd x x'} (h : CE env a nd rnd x x') :
    rest x' = rest x ∧ ((a = .take ∧ mass x' ≤ mass x + 12) ∨ (a ≠ .take ∧ mass x' ≤ mass x)) := by
  rcases h with ⟨h, hne, _⟩ | ⟨ha, h, _⟩ | ⟨ha, h, ho, _⟩ | ⟨ha, h⟩ | ⟨ha, h, _⟩
  · subst h
    refine ⟨rfl, ?_⟩
    by_cases hat : a = .take
    · exact Or.inl ⟨hat, by omega⟩
    · exact Or.inr ⟨hat, Nat.le_refl _⟩
  · subst h; exact ⟨by simp [rest], Or.inl ⟨ha, by simp [Tree.mass]⟩⟩
  · subst h; refine ⟨by simp [rest], Or.inr ⟨by rw [ha]; simp, ?_⟩⟩; simp [Tree.mass]; omega
  · subst h; exact ⟨by simp [rest], Or.inr ⟨by rw [ha]; simp, by simp [Tree.mass]⟩⟩
  · subst h; exact ⟨by simp [rest], Or.inr ⟨by rw [ha]; simp, by simp [Tree.mass]⟩⟩

/-- **Every node action strictly decreases the potential of the node list** (by 4 or more when a point was looped back). -/
theorem tnode_dec {env : Env} {par : List Nat} {ns ns' : List Nd} {i : Nat} {a : NAct} {l : Bool}
    (h : tnode env par ns i a = some (ns', l)) : potT ns' + (if l then 3 else 0) + 1 ≤ potT ns := by
  obtain ⟨nd, r, nd', sp⟩ := tnode_spec h
  have hcases := sp.cases
  have hl : l = r.looped := sp.looped
  rcases sp.acting with hact | ⟨ha, hnd', hf, _, _, _, _, hnl, kc, hkc⟩
  · -- the acting node is the result of `nodeStep`
    subst hact
    obtain ⟨how, hdec⟩ := nodeStep_decT sp.ns_step
    have hpre : ∀ k, k < i → ns'[k]? = ns[k]? := by
      intro k hk
      apply sp.other k (by omega)
      cases hc : isChild par i k with
      | false => rfl
      | true => have := isChild_lt hc; omega
    have hpost : ∀ (inc : Bool), (inc = true ↔ a = .take) → ∀ (k : Nat) (x x' : Nd), i < k → ns[k]? = some x → ns'[k]? = some x' →
        mass x' ≤ mass x + (if inc then 12 else 0) ∧ rest x' ≤ rest x := by
      intro inc hinc k x x' hk hx hx'
      rcases hcases k x' hx' with ⟨hki, _⟩ | ⟨_, _, h0⟩ | ⟨_, x0, hx0, hce⟩
      · omega
      · rw [hx] at h0; simp at h0; subst h0; exact ⟨by omega, Nat.le_refl _⟩
      · rw [hx] at hx0; simp at hx0; subst hx0
        have hm := hce.mass
        refine ⟨?_, by omega⟩
        rcases hm.2 with ⟨hat, hle⟩ | ⟨hnt, hle⟩
        · have : inc = true := hinc.mpr hat
          simp [this]; exact hle
        · omega
    rcases hdec with ⟨hq, hr⟩ | ⟨hat, hq, hr, hnl⟩
    · by_cases hat : a = .take
      · have := potT_update true ns ns' i nd r.nd sp.len hpre sp.at_i sp.at_i' (hpost true (by simp [hat]))
        have hm : mass r.nd = mass nd := by simp [mass, hq, how]
        have hp := pow3_pos (ns.length - 1 - i)
        rw [hm] at this
        simp only [if_true] at this
        -- a `take` that keeps the queue cannot happen, but the bound holds anyway only with the queue shrinking
        exfalso
        have h2 := sp.ns_step
        rw [hat] at h2
        nstep h2 <;> simp_all <;> omega
      · have := potT_update false ns ns' i nd r.nd sp.len hpre sp.at_i sp.at_i' (hpost false (by simp [hat]))
        have hm : mass r.nd = mass nd := by simp [mass, hq, how]
        rw [hm] at this
        simp only [Bool.false_eq_true, if_false] at this
        rw [hl]; omega
    · have := potT_update true ns ns' i nd r.nd sp.len hpre sp.at_i sp.at_i' (hpost true (by simp [hat]))
      have hm : mass nd = mass r.nd + 6 := by simp [mass, ← hq, how]; omega
      simp only [if_true] at this
      rw [hm, Nat.mul_add] at this
      rw [hl, hnl]
      simp only [Bool.false_eq_true, if_false]
      omega
  · -- a `put` that served a child which is not the last one: the node keeps the message, the child got it
    subst hnd'
    have hall : ∀ (k : Nat) (x x' : Nd), ns[k]? = some x → ns'[k]? = some x' → mass x' ≤ mass x ∧ rest x' ≤ rest x := by
      intro k x x' hx hx'
      rcases hcases k x' hx' with ⟨hki, e⟩ | ⟨_, _, h0⟩ | ⟨_, x0, hx0, hce⟩
      · subst hki; rw [sp.at_i] at hx; simp at hx; subst hx; subst e; exact ⟨Nat.le_refl _, Nat.le_refl _⟩
      · rw [hx] at h0; simp at h0; subst h0; exact ⟨Nat.le_refl _, Nat.le_refl _⟩
      · rw [hx] at hx0; simp at hx0; subst hx0
        have hm := hce.mass
        refine ⟨?_, by omega⟩
        rcases hm.2 with ⟨hat, _⟩ | ⟨_, hle⟩
        · rw [ha] at hat; simp at hat
        · exact hle
    obtain ⟨x, hx, hxo, hx'⟩ := sp.cur_put ha kc hkc
    have := potT_strict ns ns' sp.len hall ⟨kc, x, _, hx, hx', by simp [mass]; omega⟩
    rw [hl, hnl]
    simp only [Bool.false_eq_true, if_false]
    omega

/-- A `modifyNth` that keeps the message units and does not increase the linear weight does not increase the potential. -/
theorem potT_modifyNth_le (ns : List Nd) (i : Nat) (f : Nd → Nd)
    (hm : ∀ nd, mass (f nd) = mass nd) (hr : ∀ nd, rest (f nd) ≤ rest nd) : potT (modifyNth ns i f) ≤ potT ns := by
  apply potT_le ns _ (modifyNth_length _ _ _)
  intro k x x' hx hx'
  rw [modifyNth_getElem?] at hx'
  split at hx'
  · rw [hx] at hx'; simp at hx'; subst hx'; exact ⟨by rw [hm]; exact Nat.le_refl _, hr x⟩
  · rw [hx] at hx'; simp at hx'; subst hx'; exact ⟨Nat.le_refl _, Nat.le_refl _⟩

theorem muT_stopStep {cfg : Cfg} {s s' : State} (h : stopStep cfg s = some s') : muT s' < muT s := by
  unfold muT
  have hmod : ∀ (i : Nat) (f : Nd → Nd), (∀ nd, mass (f nd) = mass nd) → (∀ nd, rest (f nd) ≤ rest nd) →
      potT (modifyNth s.nodes i f) ≤ potT s.nodes := fun i f hm hr => potT_modifyNth_le s.nodes i f hm hr
  cases hph : s.ph with
  | stopF i =>
    simp only [stopStep, hph] at h
    repeat' (first | contradiction | split at h)
    all_goals (first | (simp at h; done) | (simp only [Option.some.injEq] at h; subst h))
    all_goals (simp only [modifyNth_length, phPot])
    all_goals (first
      | omega
      | (have := hmod i (fun nd => { nd with deliv := nd.deliv + nd.buf, buf := 0 }) (by intro nd; simp [mass]) (by intro nd; simp [rest])
         omega)
      | (have := hmod i (fun nd => { nd with stopping := true }) (by intro nd; simp [mass]) (by intro nd; simp [rest, b2n])
         omega))
  | flushed i =>
    simp only [stopStep, hph] at h
    simp only [Option.some.injEq] at h; subst h
    simp only [modifyNth_length, phPot]
    have := hmod i (fun nd => { nd with stopping := true }) (by intro nd; simp [mass]) (by intro nd; simp [rest, b2n])
    omega
  | delFork =>
    simp only [stopStep, hph] at h
    simp only [Option.some.injEq] at h; subst h
    simp only [modifyNth_length, phPot]
    have := hmod 0 closeIn (by intro nd; simp [mass]) (by intro nd; simp [rest])
    omega
  | etStop =>
    simp only [stopStep, hph] at h
    simp only [Option.some.injEq] at h; subst h
    by_cases hne : s.nodes.isEmpty = true
    · simp [hne, phPot]
    · have : 0 < s.nodes.length := by
        cases hn : s.nodes with
        | nil => simp [hn] at hne
        | cons _ _ => simp
      simp [hne, phPot]; omega
  | wait i =>
    simp only [stopStep, afterWait, hph] at h
    repeat' (first | contradiction | split at h)
    all_goals (first | (simp at h; done) | (simp only [Option.some.injEq] at h; subst h))
    all_goals (simp only [phPot]; omega)
  | idle | closeIngest | waitFork | wantLock | wbWait i | wgWait | unlock | finished =>
    simp only [stopStep, hph] at h
    repeat' (first | contradiction | split at h)
    all_goals (first | (simp at h; done) | (simp only [Option.some.injEq] at h; subst h))
    all_goals (simp only [phPot, b2n]; try omega)

/-- **Every enabled action of the tree model strictly decreases the measure.** -/
theorem muT_step {cfg : Cfg} {par : List Nat} {s s' : State} {a : Act} (h : Tree.step cfg par s a = some s') : muT s' < muT s := by
  cases a with
  | stop => exact muT_stopStep (by simpa [Tree.step, Kap.C07.step] using h)
  | node i a =>
    simp only [Tree.step] at h
    split at h
    · rename_i ns l hst
      simp only [Option.some.injEq] at h; subst h
      have hd := tnode_dec hst
      obtain ⟨_, _, _, sp⟩ := tnode_spec hst
      have hlen := sp.len
      unfold muT
      simp only [hlen]
      split at hd <;> simp_all <;> omega
    · simp at h
  | forkPut =>
    simp only [Tree.step, Kap.C07.step] at h
    repeat' (first | contradiction | split at h)
    all_goals (first | (simp at h; done) | (simp only [Option.some.injEq] at h; subst h))
    all_goals (unfold muT; simp only [b2n])
    · simp_all
    · have hp := pow3_pos s.nodes.length
      have e : s.forkHand = 1 := by simp_all
      simp only [e, Nat.mul_add]
      simp_all; omega
    · rename_i nd rest' hnodes _
      have e : s.forkHand = 1 := by simp_all
      have hp := pow3_pos rest'.length
      simp only [hnodes, potT, mass, rest, List.length_cons, pow3_succ, e, Nat.mul_add]
      simp_all; omega
  | write =>
    simp only [Tree.step, Kap.C07.step] at h
    split at h
    · simp only [Option.some.injEq] at h; subst h
      rename_i hc
      unfold muT
      have e : s.toWrite - 1 + (s.ingest + 1) + s.forkHand = s.toWrite + s.ingest + s.forkHand := by omega
      simp only [e]; omega
    · simp at h
  | forkTake =>
    simp only [Tree.step, Kap.C07.step] at h
    repeat' (first | contradiction | split at h)
    all_goals (first | (simp at h; done) | (simp only [Option.some.injEq] at h; subst h))
    all_goals (unfold muT)
    · rename_i hc hi
      have e : s.toWrite + (s.ingest - 1) + 1 = s.toWrite + s.ingest + s.forkHand := by omega
      simp only [e]; omega
    · simp only []; omega
  | forkLock =>
    simp only [Tree.step, Kap.C07.step] at h
    split at h
    · simp only [Option.some.injEq] at h; subst h
      unfold muT; simp_all [b2n]
    · simp at h
  | forkDrop =>
    simp only [Tree.step, Kap.C07.step] at h
    repeat' (first | contradiction | split at h)
    all_goals (first | (simp at h; done) | (simp only [Option.some.injEq] at h; subst h))
    unfold muT
    have hp := pow3_pos s.nodes.length
    have e : s.forkHand = 1 := by simp_all
    simp only [e, Nat.mul_add]
    simp_all [b2n]; omega
  | forkExit =>
    simp only [Tree.step, Kap.C07.step] at h
    split at h
    · simp only [Option.some.injEq] at h; subst h
      unfold muT; simp_all [b2n]
    · simp at h
  | thrExit =>
    simp only [Tree.step, Kap.C07.step] at h
    split at h
    · simp only [Option.some.injEq] at h; subst h
      unfold muT; simp_all [b2n]
    · simp at h

/-- A schedule all of whose actions are enabled is no longer than the measure of its first state. -/
theorem trunStrict_length {cfg : Cfg} {par : List Nat} {s s' : State} {as : List Act} (h : Tree.runStrict cfg par s as = some s') :
    as.length + muT s' ≤ muT s := by
  induction as generalizing s with
  | nil => simp [Tree.runStrict] at h; subst h; simp
  | cons a as ih =>
    simp only [Tree.runStrict] at h
    split at h
    · rename_i s1 hs
      have := ih h
      have := muT_step hs
      simp only [List.length_cons]; omega
    · simp at h

end Kap.C07.Tree
