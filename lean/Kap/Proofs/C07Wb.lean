/-
C07 — helper lemmas for the write buffer of influxDBOut with several destinations (Model/C07Wb.lean): exact per-key
accounting (what was handed to `cli.Write` ++ what is still buffered = what was enqueued, in order), and `writeAll`
without the early return leaves nothing buffered, whatever the iteration order and whichever writes fail.
-/
import Kap.Model.C07Wb
set_option linter.unusedSimpArgs false
set_option linter.unusedVariables false
namespace Kap.C07.Wb

/-- write the batch of key `k` and delete its entry -/
def flushKey (cfg : Cfg) (s : S) (k : Nat) : S := del (write cfg s k) k

theorem flushKey_buf (cfg : Cfg) (s : S) (k j : Nat) :
    (flushKey cfg s k).buf j = if j = k then [] else s.buf j := by
  unfold flushKey del write
  by_cases h : rejected cfg k = true <;> simp [h]

theorem flushKey_calls (cfg : Cfg) (s : S) (k : Nat) :
    (flushKey cfg s k).calls = s.calls ++ [⟨k, s.buf k, !rejected cfg k⟩] := by
  unfold flushKey del write
  by_cases h : rejected cfg k = true <;> simp [h]

theorem flushKey_enq (cfg : Cfg) (s : S) (k : Nat) : (flushKey cfg s k).enq = s.enq := by
  unfold flushKey del write
  by_cases h : rejected cfg k = true <;> simp [h]

theorem flushKey_stopped (cfg : Cfg) (s : S) (k : Nat) : (flushKey cfg s k).stopped = s.stopped := by
  unfold flushKey del write
  by_cases h : rejected cfg k = true <;> simp [h]

theorem flushKey_attempted (cfg : Cfg) (s : S) (k j : Nat) :
    attempted (flushKey cfg s k) j = if j = k then attempted s k ++ s.buf k else attempted s j := by
  unfold attempted
  rw [flushKey_calls]
  by_cases h : j = k
  · subst h; simp [List.filter_append, List.flatMap_append]
  · have h' : ¬ k = j := fun e => h e.symm
    simp [List.filter_append, List.flatMap_append, h, h']

theorem flushKey_enqueued (cfg : Cfg) (s : S) (k j : Nat) : enqueued (flushKey cfg s k) j = enqueued s j := by
  unfold enqueued; rw [flushKey_enq]

/-- The invariant of the write buffer. -/
structure Inv (cfg : Cfg) (s : S) : Prop where
  acc : ∀ k, attempted s k ++ s.buf k = enqueued s k
  out : ∀ k, cfg.nkeys ≤ k → s.buf k = []
  ok : ∀ c ∈ s.calls, c.ok = !rejected cfg c.key
  fl : cfg.stopAtFirstErr = false → s.stopped = true → ∀ k, s.buf k = []

theorem inv_init (cfg : Cfg) : Inv cfg init :=
  ⟨by intro k; simp [init, attempted, enqueued], by intro k _; rfl, by intro c hc; simp [init] at hc, by intro _ _ k; rfl⟩

theorem inv_flushKey {cfg : Cfg} {s : S} (h : Inv cfg s) (k : Nat) : Inv cfg (flushKey cfg s k) := by
  refine ⟨?_, ?_, ?_, ?_⟩
  · intro j
    rw [flushKey_attempted, flushKey_buf, flushKey_enqueued]
    by_cases hj : j = k
    · subst hj; simp; exact h.acc j
    · simp [hj]; exact h.acc j
  · intro j hj
    rw [flushKey_buf]
    by_cases e : j = k
    · simp [e]
    · simp [e]; exact h.out j hj
  · intro c hc
    rw [flushKey_calls] at hc
    rcases List.mem_append.mp hc with hc | hc
    · exact h.ok c hc
    · simp at hc; subst hc; rfl
  · intro hf hs j
    rw [flushKey_stopped] at hs
    rw [flushKey_buf]
    by_cases e : j = k
    · simp [e]
    · simp [e]; exact h.fl hf hs j

theorem enqueue_stopped (cfg : Cfg) (s : S) (k id : Nat) : (enqueue cfg s k id).stopped = s.stopped := by
  unfold enqueue
  simp only []
  split
  · exact flushKey_stopped cfg _ k
  · rfl

theorem inv_enqueue {cfg : Cfg} {s : S} (h : Inv cfg s) (k id : Nat) (hk : k < cfg.nkeys) (hs : s.stopped = false) :
    Inv cfg (enqueue cfg s k id) := by
  -- the state after the point was added to its batch
  have h1 : Inv cfg { s with buf := fun j => if j = k then s.buf k ++ [id] else s.buf j, enq := s.enq ++ [(k, id)] } := by
    refine ⟨?_, ?_, ?_, ?_⟩
    · intro j
      have ha := h.acc j
      by_cases e : j = k
      · subst e
        simp [attempted, enqueued, List.filter_append] at ha ⊢
        rw [← List.append_assoc, ha]
      · have e' : ¬ k = j := fun x => e x.symm
        simp [attempted, enqueued, List.filter_append, e, e'] at ha ⊢
        exact ha
    · intro j hj
      have e : ¬ j = k := by omega
      simp [e]; exact h.out j hj
    · exact h.ok
    · intro _ hst; simp [hs] at hst
  unfold enqueue
  simp only []
  split
  · exact inv_flushKey h1 k
  · exact h1

/-! ### writeAll -/

theorem visit_inv {cfg : Cfg} {st : S × Bool} (h : Inv cfg st.1) (k : Nat) : Inv cfg (visit cfg st k).1 := by
  unfold visit
  split
  · exact h
  · exact inv_flushKey h k

theorem visit_stopped (cfg : Cfg) (st : S × Bool) (k : Nat) : (visit cfg st k).1.stopped = st.1.stopped := by
  unfold visit
  split
  · rfl
  · exact flushKey_stopped cfg st.1 k

theorem visit_mono (cfg : Cfg) (st : S × Bool) (k j : Nat) (h : st.1.buf j = []) : (visit cfg st k).1.buf j = [] := by
  unfold visit
  split
  · exact h
  · show (flushKey cfg st.1 k).buf j = []
    rw [flushKey_buf]; by_cases e : j = k <;> simp [e, h]

theorem visit_flag (cfg : Cfg) (st : S × Bool) (k : Nat) (hf : cfg.stopAtFirstErr = false) (h : st.2 = false) :
    (visit cfg st k).2 = false := by
  unfold visit
  split
  · exact h
  · simp [hf]

theorem visit_clears (cfg : Cfg) (st : S × Bool) (k : Nat) (h : st.2 = false) : (visit cfg st k).1.buf k = [] := by
  unfold visit
  split
  · rename_i hc
    simp [h] at hc
    exact hc
  · show (flushKey cfg st.1 k).buf k = []
    rw [flushKey_buf]; simp

theorem foldl_inv {cfg : Cfg} : ∀ (l : List Nat) (st : S × Bool), Inv cfg st.1 → Inv cfg (l.foldl (visit cfg) st).1
  | [], _, h => h
  | x :: xs, st, h => foldl_inv xs (visit cfg st x) (visit_inv h x)

theorem foldl_stopped (cfg : Cfg) : ∀ (l : List Nat) (st : S × Bool), (l.foldl (visit cfg) st).1.stopped = st.1.stopped
  | [], _ => rfl
  | x :: xs, st => by
    show (xs.foldl (visit cfg) (visit cfg st x)).1.stopped = _
    rw [foldl_stopped cfg xs, visit_stopped]

theorem foldl_mono (cfg : Cfg) (j : Nat) : ∀ (l : List Nat) (st : S × Bool), st.1.buf j = [] → (l.foldl (visit cfg) st).1.buf j = []
  | [], _, h => h
  | x :: xs, st, h => foldl_mono cfg j xs (visit cfg st x) (visit_mono cfg st x j h)

/-- without the early return every key of the list has been visited and is empty afterwards -/
theorem foldl_clears (cfg : Cfg) (hf : cfg.stopAtFirstErr = false) :
    ∀ (l : List Nat) (st : S × Bool), st.2 = false → ∀ j ∈ l, (l.foldl (visit cfg) st).1.buf j = []
  | [], _, _, j, hj => by simp at hj
  | x :: xs, st, h, j, hj => by
    show (xs.foldl (visit cfg) (visit cfg st x)).1.buf j = []
    rcases List.mem_cons.mp hj with e | hj'
    · subst e
      exact foldl_mono cfg j xs _ (visit_clears cfg st j h)
    · exact foldl_clears cfg hf xs _ (visit_flag cfg st x hf h) j hj'

theorem writeAll_inv {cfg : Cfg} {s : S} (h : Inv cfg s) (order : List Nat) : Inv cfg (writeAll cfg order s) :=
  foldl_inv _ (s, false) h

theorem writeAll_stopped (cfg : Cfg) (s : S) (order : List Nat) : (writeAll cfg order s).stopped = s.stopped :=
  foldl_stopped cfg _ (s, false)

/-- **writeAll writes every batch**: the unchanged loop, any iteration order, any set of failing keys -/
theorem writeAll_empties {cfg : Cfg} {s : S} (h : Inv cfg s) (hf : cfg.stopAtFirstErr = false) (order : List Nat) (k : Nat) :
    (writeAll cfg order s).buf k = [] := by
  by_cases hk : k < cfg.nkeys
  · exact foldl_clears cfg hf _ (s, false) rfl k (List.mem_append.mpr (Or.inr (List.mem_range.mpr hk)))
  · exact (writeAll_inv h order).out k (by omega)

theorem inv_step {cfg : Cfg} {s s' : S} (h : Inv cfg s) (a : Act) (hs : step cfg s a = some s') : Inv cfg s' := by
  cases a with
  | enq k id =>
    simp only [step] at hs
    split at hs
    · rename_i hc
      cases hs; exact inv_enqueue h k id hc.2 hc.1
    · cases hs
  | tick o =>
    simp only [step] at hs
    split at hs
    · cases hs; exact writeAll_inv h o
    · cases hs
  | stop o =>
    simp only [step] at hs
    split at hs
    · cases hs
      have hw := writeAll_inv h o
      exact ⟨hw.acc, hw.out, hw.ok, fun hf _ k => writeAll_empties h hf o k⟩
    · cases hs

theorem inv_run {cfg : Cfg} : ∀ (sched : List Act) {s : S}, Inv cfg s → Inv cfg (run cfg s sched)
  | [], _, h => h
  | x :: xs, s, h => by
    unfold run
    cases hs : step cfg s x with
    | none => exact inv_run xs h
    | some s' => exact inv_run xs (inv_step h x hs)

/-- what the destination accepted: everything it was handed when it is healthy, nothing when it rejects -/
theorem delivered_eq {cfg : Cfg} {s : S} (h : Inv cfg s) (k : Nat) :
    delivered s k = if rejected cfg k then [] else attempted s k := by
  unfold delivered attempted
  have : ∀ (l : List Call), (∀ c ∈ l, c.ok = !rejected cfg c.key) →
      (l.filter (fun c => c.key = k && c.ok)).flatMap (·.ids) =
        if rejected cfg k then [] else (l.filter (fun c => c.key = k)).flatMap (·.ids) := by
    intro l
    induction l with
    | nil => intro _; simp
    | cons c cs ih =>
      intro hc
      have hok := hc c (List.mem_cons_self)
      have ih' := ih (fun d hd => hc d (List.mem_cons_of_mem _ hd))
      by_cases e : c.key = k
      · by_cases r : rejected cfg k = true
        · simp [List.filter_cons, e, hok, r] at ih' ⊢; exact ih'
        · simp [List.filter_cons, e, hok, r] at ih' ⊢; exact ih'
      · simp [List.filter_cons, e] at ih' ⊢; exact ih'
  exact this s.calls h.ok

/-- a state that has not stopped can always move (the stop is always possible) -/
theorem can_move (cfg : Cfg) (s : S) (h : s.stopped = false) : (step cfg s (.stop [])).isSome = true := by
  simp [step, h]

end Kap.C07.Wb
