/-
C08 — helper lemmas: what one operation does to each component of the service state, the invariants that hold at
operation boundaries, and what survives at a crash point inside an operation.
-/
import Kap.Spec.C08
set_option linter.unusedSimpArgs false
set_option linter.unusedVariables false
namespace Kap.C08

/-! ### one operation, component by component -/

/-- what an operation does to the disk (with `PersistTopics`) -/
def diskStep (d : Store) : Op → Store
  | .collect T id l t => if l = 0 then d.del T id else d.put T { id := id, level := l, time := t }
  | .update T id l t => d.put T { id := id, level := l, time := t }
  | .deleteTopic T => d.dropTopic T
  | _ => d

/-- what an operation does to the closed flags -/
def closedStep (f : String → Bool) : Op → String → Bool
  | .collect T _ _ _ => setFlag f T false
  | .closeTopic T => setFlag f T true
  | .deleteTopic T => setFlag f T false
  | _ => f

/-- what an operation appends to the handler log -/
def toldStep : Op → List Ev
  | .collect T id l t => [{ topic := T, id := id, level := l, time := t }]
  | _ => []

/-- unfold one operation completely: case split on the operation and, for `Collect`, on `level = 0`, on the
closed flag and on `PersistTopics` -/
macro "unfold_step" s:ident op:ident " with " extra:Lean.Parser.Tactic.simpLemma,* : tactic =>
  `(tactic| (
    rcases $op:ident with ⟨T, id, l, t⟩ | ⟨T, id, l, t⟩ | T | T | T
    all_goals (first
      | (by_cases hl : l = 0 <;> by_cases hc : ($s).closed T = true <;> by_cases hp : ($s).persist = true)
      | skip)
    all_goals (try simp [step, Op.micros, collectMicros, updateMicros, runMicros, exec, *, $extra,*])))

theorem step_persist (s : Svc) (op : Op) : (step s op).persist = s.persist := by
  unfold_step s op with Nat.zero_ne_one <;> (repeat' split) <;> simp_all

theorem step_disk (s : Svc) (hp : s.persist = true) (op : Op) : (step s op).disk = diskStep s.disk op := by
  unfold_step s op with diskStep

theorem step_told (s : Svc) (op : Op) : (step s op).told = s.told ++ toldStep op := by
  unfold_step s op with toldStep <;> (repeat' split) <;> simp_all

theorem step_closed (s : Svc) (op : Op) : (step s op).closed = closedStep s.closed op := by
  unfold_step s op with closedStep <;>
    (funext T'; simp [setFlag]; intro h1 h2; subst h2; simp_all)

theorem run_persist (s : Svc) (ops : List Op) : (run s ops).persist = s.persist := by
  induction ops generalizing s with
  | nil => rfl
  | cons op rest ih => simp [run, List.foldl_cons] at *; rw [ih, step_persist]

theorem run_append (s : Svc) (a b : List Op) : run s (a ++ b) = run (run s a) b := by
  simp [run, List.foldl_append]

theorem run_disk (s : Svc) (hp : s.persist = true) (ops : List Op) :
    (run s ops).disk = ops.foldl diskStep s.disk := by
  induction ops generalizing s with
  | nil => rfl
  | cons op rest ih =>
    simp only [run, List.foldl_cons] at *
    rw [ih (step s op) (by rw [step_persist]; exact hp), step_disk s hp]


/-! ### the disk tracks the last recorded level -/

def levelStep (T id : String) (lv : Nat) : Op → Nat
  | .collect T' i l _ => if T' = T ∧ i = id then l else lv
  | .update T' i l _ => if T' = T ∧ i = id then l else lv
  | .deleteTopic T' => if T' = T then 0 else lv
  | _ => lv

theorem lastLevelFrom_eq (l0 : Nat) (ops : List Op) (T id : String) :
    lastLevelFrom l0 ops T id = ops.foldl (levelStep T id) l0 := by
  unfold lastLevelFrom
  congr 1

theorem diskStep_level (d : Store) (op : Op) (T id : String) :
    (diskStep d op).level T id = levelStep T id (d.level T id) op := by
  rcases op with ⟨T', i, l, t⟩ | ⟨T', i, l, t⟩ | T' | T' | T'
  · by_cases hl : l = 0 <;> by_cases hk : T' = T ∧ i = id <;>
      simp [diskStep, levelStep, Store.level, Store.put, Store.del, hl, hk] 
  · by_cases hk : T' = T ∧ i = id <;> simp [diskStep, levelStep, Store.level, Store.put, hk]
  · rfl
  · rfl
  · by_cases hk : T' = T <;> simp [diskStep, levelStep, Store.level, Store.dropTopic, hk]

theorem foldl_diskStep_level (d : Store) (ops : List Op) (T id : String) :
    (ops.foldl diskStep d).level T id = lastLevelFrom (d.level T id) ops T id := by
  rw [lastLevelFrom_eq]
  induction ops generalizing d with
  | nil => rfl
  | cons op rest ih => simp only [List.foldl_cons]; rw [ih, diskStep_level]

def presentStep (T id : String) (b : Bool) : Op → Bool
  | .collect T' i l _ => if T' = T ∧ i = id then decide (l ≠ 0) else b
  | .update T' i _ _ => if T' = T ∧ i = id then true else b
  | .deleteTopic T' => if T' = T then false else b
  | _ => b

theorem recordExpectedFrom_eq (b0 : Bool) (ops : List Op) (T id : String) :
    recordExpectedFrom b0 ops T id = ops.foldl (presentStep T id) b0 := by
  unfold recordExpectedFrom
  congr 1

theorem diskStep_present (d : Store) (op : Op) (T id : String) :
    ((diskStep d op) T id).isSome = presentStep T id (d T id).isSome op := by
  rcases op with ⟨T', i, l, t⟩ | ⟨T', i, l, t⟩ | T' | T' | T'
  · by_cases hl : l = 0 <;> by_cases hk : T' = T ∧ i = id <;>
      simp [diskStep, presentStep, Store.put, Store.del, hl, hk] 
  · by_cases hk : T' = T ∧ i = id <;> simp [diskStep, presentStep, Store.put, hk]
  · rfl
  · rfl
  · by_cases hk : T' = T <;> simp [diskStep, presentStep, Store.dropTopic, hk]

theorem foldl_diskStep_present (d : Store) (ops : List Op) (T id : String) :
    ((ops.foldl diskStep d) T id).isSome = recordExpectedFrom (d T id).isSome ops T id := by
  rw [recordExpectedFrom_eq]
  induction ops generalizing d with
  | nil => rfl
  | cons op rest ih => simp only [List.foldl_cons]; rw [ih, diskStep_present]

/-! ### closed flags -/

def dormantStep (T : String) (b : Bool) : Op → Bool
  | .closeTopic T' => if T' = T then true else b
  | .collect T' _ _ _ => if T' = T then false else b
  | .deleteTopic T' => if T' = T then false else b
  | _ => b

theorem dormantFrom_eq (b0 : Bool) (ops : List Op) (T : String) :
    dormantFrom b0 ops T = ops.foldl (dormantStep T) b0 := by
  unfold dormantFrom
  congr 1

theorem closedStep_apply (f : String → Bool) (op : Op) (T : String) :
    closedStep f op T = dormantStep T (f T) op := by
  cases op <;> simp [closedStep, dormantStep, setFlag] <;> (repeat' split) <;> simp_all

theorem run_closed (s : Svc) (ops : List Op) (T : String) :
    (run s ops).closed T = dormantFrom (s.closed T) ops T := by
  rw [dormantFrom_eq]
  induction ops generalizing s with
  | nil => rfl
  | cons op rest ih =>
    simp only [run, List.foldl_cons] at *
    rw [ih, step_closed, closedStep_apply]

theorem dormantStep_mono (T : String) (a b : Bool) (h : a = true → b = true) (op : Op) :
    dormantStep T a op = true → dormantStep T b op = true := by
  cases op <;> simp [dormantStep] <;> grind

theorem dormantFrom_mono (T : String) (ops : List Op) (a b : Bool) (h : a = true → b = true) :
    dormantFrom a ops T = true → dormantFrom b ops T = true := by
  rw [dormantFrom_eq, dormantFrom_eq]
  induction ops generalizing a b with
  | nil => exact h
  | cons op rest ih => simp only [List.foldl_cons]; exact ih _ _ (dormantStep_mono T a b h op)

/-! ### memory agrees with the disk on every live topic -/

/-- At operation boundaries: the in-memory level of every id equals its level on disk, except that a closed
topic may not be loaded. -/
def Coherent (s : Svc) : Prop :=
  ∀ T id, s.mem.level T id = s.disk.level T id ∨ (s.closed T = true ∧ s.mem T id = none)

theorem coherent_init : Coherent {} := by
  intro T id; left; rfl

theorem coherent_restart (s : Svc) : Coherent s.restart := by
  intro T id; left; rfl

theorem step_coherent (s : Svc) (hp : s.persist = true) (h : Coherent s) (op : Op) : Coherent (step s op) := by
  intro T' i
  have h' := h T' i
  unfold_step s op with Store.level, Store.put, Store.del, Store.dropTopic, Store.loadTopic, setFlag <;>
    simp [Store.level, Store.put, Store.del, Store.dropTopic, Store.loadTopic, setFlag] at h' ⊢ <;>
    grind

theorem run_coherent (s : Svc) (hp : s.persist = true) (h : Coherent s) (ops : List Op) : Coherent (run s ops) := by
  induction ops generalizing s with
  | nil => exact h
  | cons op rest ih =>
    simp only [run, List.foldl_cons] at *
    exact ih (step s op) (by rw [step_persist]; exact hp) (step_coherent s hp h op)


/-! ### what survives at a crash point -/

/-- the sub-steps of the operation in flight -/
def microsAt (ops : List Op) (k : Nat) : List Micro := ((ops[k]?).map Op.micros).getD []

/-- had the operation in flight completed (its storage transaction, always the last sub-step, committed)? -/
def crashDone (ops : List Op) (k j : Nat) : Bool := decide ((microsAt ops k).length ≤ j)

/-- the crash point lies between the handler notification of a `Collect` and its storage transaction -/
def inWindow (ops : List Op) (k j : Nat) : Bool :=
  match ops[k]? with
  | some (.collect ..) => j == 3
  | _ => false

/-- what the handlers were told by the first `j` sub-steps of an operation -/
def toldAt (op : Op) (j : Nat) : List Ev :=
  match op with
  | .collect .. => if 3 ≤ j then toldStep op else []
  | _ => []

theorem run_snoc (s : Svc) (ops : List Op) (op : Op) : run s (ops ++ [op]) = step (run s ops) op := by
  simp [run, List.foldl_append]

theorem crashAt_done (s : Svc) (ops : List Op) (k j : Nat) (h : (microsAt ops k).length ≤ j) :
    crashAt s ops k j = run s (recorded ops k true) := by
  unfold crashAt recorded
  unfold microsAt at h
  rw [List.take_of_length_le h]
  cases hk : ops[k]? with
  | none => simp [runMicros]
  | some op => simp [run_snoc, step]

theorem partial_micros (b : Svc) (op : Op) (j : Nat) (h : j < op.micros.length) :
    (runMicros b (op.micros.take j)).disk = b.disk ∧
    (runMicros b (op.micros.take j)).told = b.told ++ toldAt op j ∧
    (runMicros b (op.micros.take j)).persist = b.persist := by
  rcases op with ⟨T, id, l, t⟩ | ⟨T, id, l, t⟩ | T | T | T
  · rcases j with _ | _ | _ | _ | j
    · simp [runMicros, toldAt]
    · by_cases hc : b.closed T = true <;> simp [Op.micros, collectMicros, runMicros, exec, toldAt, hc]
    · by_cases hc : b.closed T = true <;> simp [Op.micros, collectMicros, runMicros, exec, toldAt, hc]
    · by_cases hc : b.closed T = true <;> simp [Op.micros, collectMicros, runMicros, exec, toldAt, toldStep, hc]
    · simp [Op.micros, collectMicros] at h; omega
  · rcases j with _ | _ | j
    · simp [runMicros, toldAt]
    · simp [Op.micros, updateMicros, runMicros, exec, toldAt]
    · simp [Op.micros, updateMicros] at h; omega
  · rcases j with _ | j
    · simp [runMicros, toldAt]
    · simp [Op.micros] at h
  · rcases j with _ | j
    · simp [runMicros, toldAt]
    · simp [Op.micros] at h
  · rcases j with _ | _ | j
    · simp [runMicros, toldAt]
    · simp [Op.micros, runMicros, exec, toldAt]
    · simp [Op.micros] at h; omega

theorem crashAt_partial (s : Svc) (ops : List Op) (k j : Nat) (h : j < (microsAt ops k).length) :
    ∃ op, ops[k]? = some op ∧
      (crashAt s ops k j).disk = (run s (ops.take k)).disk ∧
      (crashAt s ops k j).told = (run s (ops.take k)).told ++ toldAt op j ∧
      (crashAt s ops k j).persist = (run s (ops.take k)).persist := by
  unfold microsAt at h
  cases hk : ops[k]? with
  | none => simp [hk] at h
  | some op =>
    refine ⟨op, rfl, ?_⟩
    simp only [hk, Option.map_some, Option.getD_some] at h
    unfold crashAt
    simp only [hk, Option.map_some, Option.getD_some]
    exact partial_micros _ op j h

theorem recorded_false (ops : List Op) (k : Nat) : recorded ops k false = ops.take k := by
  simp [recorded]

/-- The disk at ANY crash point is the disk of the uninterrupted run of the recorded history. -/
theorem crashAt_disk (s : Svc) (ops : List Op) (k j : Nat) :
    (crashAt s ops k j).disk = (run s (recorded ops k (crashDone ops k j))).disk := by
  by_cases h : (microsAt ops k).length ≤ j
  · simp [crashDone, h, crashAt_done s ops k j h]
  · obtain ⟨op, _, hd, _, _⟩ := crashAt_partial s ops k j (by omega)
    simp [crashDone, h, recorded_false, hd]

theorem crashAt_persist (s : Svc) (ops : List Op) (k j : Nat) : (crashAt s ops k j).persist = s.persist := by
  by_cases h : (microsAt ops k).length ≤ j
  · rw [crashAt_done s ops k j h, run_persist]
  · obtain ⟨op, _, _, _, hp⟩ := crashAt_partial s ops k j (by omega)
    rw [hp, run_persist]

/-! ### handlers know the level that is on disk -/

def Informed (s : Svc) : Prop := ∀ T id, lastTold s.told T id = s.disk.level T id

theorem lastTold_append (a b : List Ev) (T id : String) :
    lastTold (a ++ b) T id = b.foldl (fun lv e => if e.topic = T ∧ e.id = id then e.level else lv) (lastTold a T id) := by
  simp [lastTold, List.foldl_append]

theorem lastTold_toldStep (told : List Ev) (op : Op) (ha : op.announced = true) (T id : String) :
    lastTold (told ++ toldStep op) T id = levelStep T id (lastTold told T id) op := by
  rw [lastTold_append]
  cases op <;> simp [toldStep, levelStep, Op.announced] at ha ⊢

theorem informed_init : Informed {} := by
  intro T id; rfl

theorem step_informed (s : Svc) (hp : s.persist = true) (h : Informed s) (op : Op) (ha : op.announced = true) :
    Informed (step s op) := by
  intro T id
  rw [step_told, step_disk s hp, diskStep_level, lastTold_toldStep _ _ ha, h T id]

theorem run_informed (s : Svc) (hp : s.persist = true) (h : Informed s) (ops : List Op)
    (ha : ∀ op ∈ ops, op.announced = true) : Informed (run s ops) := by
  induction ops generalizing s with
  | nil => exact h
  | cons op rest ih =>
    simp only [run, List.foldl_cons] at *
    exact ih (step s op) (by rw [step_persist]; exact hp)
      (step_informed s hp h op (ha op (by simp))) (fun o ho => ha o (by simp [ho]))


/-! ### general start state: the same facts for a run that starts from any state (needed for several crashes) -/

theorem run_disk_level (s : Svc) (hp : s.persist = true) (ops : List Op) (T id : String) :
    (run s ops).disk.level T id = lastLevelFrom (s.disk.level T id) ops T id := by
  rw [run_disk s hp, foldl_diskStep_level]

theorem lastLevelFrom_append (l0 : Nat) (a b : List Op) (T id : String) :
    lastLevelFrom l0 (a ++ b) T id = lastLevelFrom (lastLevelFrom l0 a T id) b T id := by
  simp [lastLevelFrom, List.foldl_append]

theorem dormantFrom_append (b0 : Bool) (a b : List Op) (T : String) :
    dormantFrom b0 (a ++ b) T = dormantFrom (dormantFrom b0 a T) b T := by
  simp [dormantFrom, List.foldl_append]

theorem silentFrom_append (b0 : Bool) (a b : List Op) (T id : String) :
    silentFrom b0 (a ++ b) T id = silentFrom (silentFrom b0 a T id) b T id := by
  simp [silentFrom, List.foldl_append]

/-! ### handlers know the level on disk, for every id whose last change was announced (silent-aware) -/

def silentStep (T id : String) (b : Bool) : Op → Bool
  | .collect T' i _ _ => if T' = T ∧ i = id then false else b
  | .update T' i _ _ => if T' = T ∧ i = id then true else b
  | .deleteTopic T' => if T' = T then true else b
  | _ => b

theorem silentFrom_eq (b0 : Bool) (ops : List Op) (T id : String) :
    silentFrom b0 ops T id = ops.foldl (silentStep T id) b0 := by
  unfold silentFrom
  congr 1

/-- `(T,id)` is either marked silent (`b = true`) or the handlers' last word is the level on disk. -/
def InformedAt (s : Svc) (b : Bool) (T id : String) : Prop :=
  b = false → lastTold s.told T id = s.disk.level T id

theorem step_informedAt (s : Svc) (hp : s.persist = true) (b : Bool) (T id : String)
    (h : InformedAt s b T id) (op : Op) : InformedAt (step s op) (silentStep T id b op) T id := by
  intro hb
  rw [step_told, step_disk s hp, diskStep_level, lastTold_append]
  rcases op with ⟨T', i, l, t⟩ | ⟨T', i, l, t⟩ | T' | T' | T'
  · by_cases hk : T' = T ∧ i = id
    · simp [toldStep, levelStep, hk]
    · simp [silentStep, hk] at hb
      simp [toldStep, levelStep, hk, h hb]
  · by_cases hk : T' = T ∧ i = id
    · simp [silentStep, hk] at hb
    · simp [silentStep, hk] at hb
      simp [toldStep, levelStep, hk, h hb]
  · simp [silentStep] at hb; simp [toldStep, levelStep, h hb]
  · simp [silentStep] at hb; simp [toldStep, levelStep, h hb]
  · by_cases hk : T' = T
    · simp [silentStep, hk] at hb
    · simp [silentStep, hk] at hb
      simp [toldStep, levelStep, hk, h hb]

theorem run_informedAt (s : Svc) (hp : s.persist = true) (b : Bool) (T id : String)
    (h : InformedAt s b T id) (ops : List Op) : InformedAt (run s ops) (silentFrom b ops T id) T id := by
  rw [silentFrom_eq]
  induction ops generalizing s b with
  | nil => exact h
  | cons op rest ih =>
    simp only [run, List.foldl_cons] at *
    exact ih (step s op) (by rw [step_persist]; exact hp) _ (step_informedAt s hp b T id h op)

/-- At a crash point outside the notify→transaction window the handlers' knowledge survives as it was for the
recorded history. -/
theorem crashAt_informedAt (s : Svc) (hp : s.persist = true) (b : Bool) (T id : String)
    (h : InformedAt s b T id) (ops : List Op) (k j : Nat) (hw : inWindow ops k j = false) :
    InformedAt (crashAt s ops k j).restart (silentFrom b (recorded ops k (crashDone ops k j)) T id) T id := by
  show _ → lastTold (crashAt s ops k j).told T id = (crashAt s ops k j).disk.level T id
  by_cases hd : (microsAt ops k).length ≤ j
  · simp only [crashDone, hd, decide_true]
    rw [crashAt_done s ops k j hd]
    exact run_informedAt s hp b T id h _
  · obtain ⟨op, hop, hdk, ht, _⟩ := crashAt_partial s ops k j (by omega)
    simp only [crashDone, hd, decide_false, recorded_false]
    rw [hdk, ht]
    have htold : toldAt op j = [] := by
      unfold inWindow at hw
      rw [hop] at hw
      unfold microsAt at hd
      rw [hop] at hd
      cases op with
      | collect T'' i' l t =>
        simp [Op.micros, collectMicros] at hd
        simp at hw
        simp [toldAt]; omega
      | _ => rfl
    rw [htold, List.append_nil]
    exact run_informedAt s hp b T id h _


/-! ### any number of crashes -/

/-- none of the crash points lies in a notify→transaction window -/
def noWindow (ops : List Op) : List (Nat × Nat) → Bool
  | [] => true
  | (k, j) :: cs => !inWindow ops k j && noWindow (ops.drop (k + 1)) cs

theorem multiCrash_spec (s : Svc) (hp : s.persist = true) (hc : Coherent s) (ops : List Op) (cs : List (Nat × Nat)) :
    (multiCrash s ops cs).persist = true ∧ Coherent (multiCrash s ops cs) ∧
    (∀ T id, (multiCrash s ops cs).disk.level T id =
        lastLevelFrom (s.disk.level T id) (multiSurvived crashDone ops cs) T id) ∧
    (∀ T, (multiCrash s ops cs).closed T = true → dormantFrom (s.closed T) (multiSurvived crashDone ops cs) T = true) ∧
    (∀ b T id, noWindow ops cs = true → InformedAt s b T id →
        InformedAt (multiCrash s ops cs) (silentFrom b (multiSurvived crashDone ops cs) T id) T id) := by
  induction cs generalizing s ops with
  | nil =>
    refine ⟨by simp [multiCrash, run_persist, hp], run_coherent s hp hc ops, fun T id => run_disk_level s hp ops T id,
      fun T h => by simpa [multiCrash, multiSurvived, run_closed] using h,
      fun b T id _ h => run_informedAt s hp b T id h ops⟩
  | cons c cs ih =>
    obtain ⟨k, j⟩ := c
    have hp' : (crashAt s ops k j).restart.persist = true := by
      show (crashAt s ops k j).persist = true
      rw [crashAt_persist, hp]
    obtain ⟨h1, h2, h3, h4, h5⟩ := ih (crashAt s ops k j).restart hp' (coherent_restart _) (ops.drop (k + 1))
    refine ⟨h1, h2, fun T id => ?_, fun T h => ?_, fun b T id hw h => ?_⟩
    · show (multiCrash (crashAt s ops k j).restart (ops.drop (k + 1)) cs).disk.level T id = _
      rw [h3 T id]
      show lastLevelFrom ((crashAt s ops k j).disk.level T id) _ T id = _
      rw [crashAt_disk, run_disk_level s hp]
      simp only [multiSurvived]
      rw [lastLevelFrom_append]
    · simp only [multiSurvived]
      rw [dormantFrom_append]
      exact dormantFrom_mono T _ _ _ (by intro hh; cases hh) (h4 T h)
    · simp only [noWindow, Bool.and_eq_true, Bool.not_eq_true'] at hw
      simp only [multiSurvived]
      rw [silentFrom_append]
      exact h5 _ T id hw.2 (crashAt_informedAt s hp b T id h ops k j hw.1)


/-! ### storage failures -/

theorem frun_no_failures (s : Svc) (ops : List Op) : frun s (ops.map (fun op => (op, 0))) = run s ops := by
  induction ops generalizing s with
  | nil => rfl
  | cons op rest ih =>
    simp only [List.map_cons, frun, List.foldl_cons, run] at *
    rw [ih]; rfl

/-- an operation whose (only) transaction fails: the disk is untouched, memory and handlers are not -/
theorem fstep_failed (s : Svc) (op : Op) :
    (fstep s (op, 1)).disk = s.disk ∧ (fstep s (op, 1)).persist = s.persist ∧
    (fstep s (op, 1)).told = s.told ++ toldStep op ∧ (fstep s (op, 1)).closed = closedStep s.closed op := by
  rcases op with ⟨T, id, l, t⟩ | ⟨T, id, l, t⟩ | T | T | T
  · by_cases hl : l = 0 <;> by_cases hc : s.closed T = true <;>
      simp [fstep, FOp.micros, failTx, failTx.go, Op.micros, collectMicros, Micro.isTx, runMicros, exec, toldStep,
        closedStep, hl, hc] <;>
      (funext T'; simp [setFlag]; intro h1 h2; subst h2; simp_all)
  all_goals
    simp [fstep, FOp.micros, failTx, failTx.go, Op.micros, updateMicros, Micro.isTx, runMicros, exec, toldStep, closedStep]

theorem fstep_ok (s : Svc) (op : Op) : fstep s (op, 0) = step s op := rfl

/-- With failures injected anywhere: the disk tracks the operations that were NOT reported as failed. -/
theorem frun_disk_level (s : Svc) (hp : s.persist = true) (fops : List FOp) (hf : ∀ f ∈ fops, f.2 ≤ 1)
    (T id : String) :
    (frun s fops).disk.level T id = lastLevelFrom (s.disk.level T id) (effective fops) T id ∧
    (frun s fops).persist = true := by
  induction fops generalizing s with
  | nil => exact ⟨rfl, hp⟩
  | cons f rest ih =>
    obtain ⟨op, n⟩ := f
    have hn : n ≤ 1 := hf (op, n) (by simp)
    have hrest : ∀ f ∈ rest, f.2 ≤ 1 := fun f hfm => hf f (by simp [hfm])
    simp only [frun, List.foldl_cons] at *
    rcases Nat.le_one_iff_eq_zero_or_eq_one.mp hn with h0 | h1
    · subst h0
      have := ih (step s op) (by rw [step_persist]; exact hp) hrest
      rw [fstep_ok, this.1, step_disk s hp, diskStep_level]
      refine ⟨?_, this.2⟩
      simp [effective, lastLevelFrom_eq, List.foldl_cons]
    · subst h1
      obtain ⟨hd, hpp, _, _⟩ := fstep_failed s op
      have := ih (fstep s (op, 1)) (by rw [hpp]; exact hp) hrest
      rw [this.1, hd]
      refine ⟨?_, this.2⟩
      simp [effective]

/-! ### the disk holds the WHOLE state last recorded -/

def stateStep (T id : String) (st : Option ES) : Op → Option ES
  | .collect T' i l p => if T' = T ∧ i = id then some { id := i, level := l, time := p } else st
  | .update T' i l p => if T' = T ∧ i = id then some { id := i, level := l, time := p } else st
  | .deleteTopic T' => if T' = T then none else st
  | _ => st

theorem lastStateFrom_eq (s0 : Option ES) (ops : List Op) (T id : String) :
    lastStateFrom s0 ops T id = ops.foldl (stateStep T id) s0 := by
  unfold lastStateFrom
  congr 1

/-- whatever record the bucket holds for an id is the whole state last recorded for it -/
theorem foldl_diskStep_state (d : Store) (s0 : Option ES) (ops : List Op) (T id : String)
    (h : ∀ e, d T id = some e → s0 = some e) :
    ∀ e, (ops.foldl diskStep d) T id = some e → lastStateFrom s0 ops T id = some e := by
  rw [lastStateFrom_eq]
  induction ops generalizing d s0 with
  | nil => exact h
  | cons op rest ih =>
    simp only [List.foldl_cons]
    apply ih
    intro e he
    rcases op with ⟨T', i, l, t⟩ | ⟨T', i, l, t⟩ | T' | T' | T'
    · by_cases hk : T' = T ∧ i = id
      · by_cases hl : l = 0
        · simp [diskStep, hl, Store.del, hk] at he
        · obtain ⟨rfl, rfl⟩ := hk
          simp [diskStep, hl, Store.put] at he
          simp [stateStep, he]
      · by_cases hl : l = 0
        · simp only [diskStep, hl, if_true, Store.del] at he
          split at he
          · cases he
          · simp only [stateStep, hk, if_false]; exact h e he
        · simp only [diskStep, hl, if_false, Store.put] at he
          split at he
          · rename_i hc; exact absurd ⟨hc.1, hc.2⟩ hk
          · simp only [stateStep, hk, if_false]; exact h e he
    · by_cases hk : T' = T ∧ i = id
      · obtain ⟨rfl, rfl⟩ := hk
        simp [diskStep, Store.put] at he
        simp [stateStep, he]
      · simp only [diskStep, Store.put] at he
        split at he
        · rename_i hc; exact absurd ⟨hc.1, hc.2⟩ hk
        · simp only [stateStep, hk, if_false]; exact h e he
    · exact h e he
    · exact h e he
    · by_cases hk : T' = T
      · simp [diskStep, Store.dropTopic, hk] at he
      · simp only [diskStep, Store.dropTopic, hk, if_false] at he
        simp only [stateStep, hk, if_false]; exact h e he

end Kap.C08
