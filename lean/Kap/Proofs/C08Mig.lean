/-
C08 — helper lemmas for the migration model (Kap/Model/C08Mig.lean).
-/
import Kap.Model.C08Mig
set_option linter.unusedSimpArgs false
set_option linter.unusedVariables false
namespace Kap.C08.Mig

theorem overlay_idem (v2 v1 : Store) : overlay (overlay v2 v1) v1 = overlay v2 v1 := by
  funext T i
  unfold overlay
  by_cases hi : i = ""
  · simp [hi]
  · cases h : v1 T i <;> simp [hi, h]

theorem overlay_empty (v2 : Store) : overlay v2 Store.empty = v2 := by
  funext T i
  unfold overlay Store.empty
  by_cases hi : i = "" <;> simp [hi]

theorem migrated_idem (db : Db) : migrated (migrated db) = migrated db := by
  unfold migrated
  by_cases h : db.v2flag = true <;> simp [h]

theorem migrated_of_flag (db : Db) (h : db.v2flag = true) : migrated db = db := by
  simp [migrated, h]

/-- the uninterrupted call on a store whose version key is not "2" -/
theorem attempt_unmigrated (fs : Fs) (h : fs.db.v2flag = false) :
    attempt true none fs = ({ db := migrated fs.db, bak := none }, true) := by
  simp [attempt, attempt.go, migSteps, h, exec, Step.isTx, migrated]

theorem attempt_migrated (fixed : Bool) (fa : Option Nat) (fs : Fs) (h : fs.db.v2flag = true) :
    attempt fixed fa fs = (fs, true) := by
  simp [attempt, attempt.go, migSteps, h]

/-- the files at each crash point of the repaired code -/
theorem crashAt_cases (fs : Fs) (h : fs.db.v2flag = false) (j : Nat) :
    crashAt true fs j =
      match j with
      | 0 => fs
      | 1 => { fs with bak := none }
      | 2 => { fs with bak := some fs.db }
      | 3 => { db := { fs.db with v2 := overlay fs.db.v2 fs.db.v1 }, bak := some fs.db }
      | 4 => { db := { fs.db with v2 := overlay fs.db.v2 fs.db.v1, v1 := Store.empty }, bak := some fs.db }
      | 5 => { db := migrated fs.db, bak := some fs.db }
      | _ => { db := migrated fs.db, bak := none } := by
  rcases j with _ | _ | _ | _ | _ | _ | _ | j <;>
    simp [crashAt, migSteps, h, runSteps, exec, migrated]

end Kap.C08.Mig
