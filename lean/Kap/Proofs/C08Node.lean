/-
C08 — the alert node (anonymous + named topic) at operation boundaries: invariant `NodeInv`, preserved by every
point and by a graceful task restart, established by a process restart at an operation boundary.
-/
import Kap.Proofs.C08
set_option linter.unusedSimpArgs false
set_option linter.unusedVariables false
namespace Kap.C08

def topicsOf (cfg : Cfg) : List String := cfg.anon.toList ++ cfg.named.toList

/-- the anonymous topic `<tm>:<task>:<node>` is not also the `.topic()` of the node -/
def Cfg.Distinct (cfg : Cfg) : Prop := ∀ T, cfg.anon = some T → cfg.named ≠ some T

/-- At operation boundaries of the node: on each of its topics memory, disk and the handlers' last word agree on
one level `L id` per id, and every group state knows that level (or, with `noRecoveries`, is at the OK it did not
announce). -/
structure NodeInv (cfg : Cfg) (L : String → Nat) (w : World) : Prop where
  persist : w.svc.persist = true
  lv : ∀ T, T ∈ topicsOf cfg → ∀ i,
    w.svc.mem.level T i = L i ∧ w.svc.disk.level T i = L i ∧ lastTold w.svc.told T i = L i
  grp : ∀ i c, w.groups i = some c → c = L i ∨ (cfg.noRec = true ∧ c = 0)

theorem level_eq_optLevel (s : Store) (T i : String) : s.level T i = optLevel (s T i) := by
  unfold Store.level optLevel; cases s T i <;> rfl

theorem runMicros_append (s : Svc) (a b : List Micro) : runMicros s (a ++ b) = runMicros (runMicros s a) b := by
  simp [runMicros, List.foldl_append]

theorem nrunMicros_append (w : World) (a b : List NMicro) : nrunMicros w (a ++ b) = nrunMicros (nrunMicros w a) b := by
  simp [nrunMicros, List.foldl_append]

theorem nrunMicros_svc (w : World) (ms : List Micro) :
    nrunMicros w (ms.map .svc) = { w with svc := runMicros w.svc ms } := by
  induction ms generalizing w with
  | nil => rfl
  | cons m rest ih =>
    simp only [List.map_cons, nrunMicros, List.foldl_cons] at *
    rw [ih]; rfl

/-- What one `Service.Collect` does to levels and to the handlers' last word, on a topic whose memory agrees
with its disk. -/
theorem collect_effect (s : Svc) (hp : s.persist = true) (T : String) (e : ES)
    (hcoh : ∀ i, s.mem.level T i = s.disk.level T i) :
    (runMicros s (collectMicros T e)).persist = true ∧
    (∀ T' i, (runMicros s (collectMicros T e)).disk.level T' i =
        if T = T' ∧ e.id = i then e.level else s.disk.level T' i) ∧
    (∀ T' i, (runMicros s (collectMicros T e)).mem.level T' i =
        if T = T' ∧ e.id = i then e.level else s.mem.level T' i) ∧
    (∀ T' i, lastTold (runMicros s (collectMicros T e)).told T' i =
        if T = T' ∧ e.id = i then e.level else lastTold s.told T' i) := by
  refine ⟨?_, ?_, ?_, ?_⟩
  · by_cases hl : e.level = 0 <;> by_cases hc : s.closed T = true <;>
      simp [collectMicros, runMicros, exec, hl, hc, hp]
  all_goals
    intro T' i
    have h' := hcoh i
    by_cases hl : e.level = 0 <;> by_cases hc : s.closed T = true <;>
      simp [collectMicros, runMicros, exec, hl, hc, hp, lastTold_append,
        Store.level, Store.put, Store.del, Store.loadTopic] at h' ⊢ <;> grind


/-- the three level views of a topic -/
def LvOK (L : String → Nat) (s : Svc) (T : String) : Prop :=
  ∀ i, s.mem.level T i = L i ∧ s.disk.level T i = L i ∧ lastTold s.told T i = L i

def upd (L : String → Nat) (id : String) (l : Nat) : String → Nat := fun i => if id = i then l else L i

theorem collect_LvOK_same (s : Svc) (hp : s.persist = true) (L : String → Nat) (T : String) (e : ES)
    (h : LvOK L s T) : LvOK (upd L e.id e.level) (runMicros s (collectMicros T e)) T := by
  obtain ⟨_, hd, hm, ht⟩ := collect_effect s hp T e (fun i => by rw [(h i).1, (h i).2.1])
  intro i
  rw [hd, hm, ht]
  simp only [upd, true_and]
  by_cases hi : e.id = i <;> simp [hi, h i]

theorem collect_LvOK_other (s : Svc) (hp : s.persist = true) (L : String → Nat) (T T' : String) (e : ES)
    (hne : T ≠ T') (hcoh : ∀ i, s.mem.level T i = s.disk.level T i) (h : LvOK L s T') :
    LvOK L (runMicros s (collectMicros T e)) T' := by
  obtain ⟨_, hd, hm, ht⟩ := collect_effect s hp T e hcoh
  intro i
  rw [hd, hm, ht]
  simp [hne, h i]

theorem emit_effect (cfg : Cfg) (hd : cfg.Distinct) (L : String → Nat) (s : Svc) (hp : s.persist = true)
    (hlv : ∀ T, T ∈ topicsOf cfg → LvOK L s T) (e : ES) :
    (runMicros s (emitMicros cfg e)).persist = true ∧
    ∀ T, T ∈ topicsOf cfg → LvOK (upd L e.id e.level) (runMicros s (emitMicros cfg e)) T := by
  cases ha : cfg.anon with
  | none =>
    cases hn : cfg.named with
    | none => simp [emitMicros, topicsOf, ha, hn, runMicros, hp]
    | some Tn =>
      simp only [emitMicros, topicsOf, ha, hn, Option.toList_none, Option.toList_some, List.nil_append,
        List.mem_singleton, forall_eq] at hlv ⊢
      exact ⟨(collect_effect s hp Tn e (fun i => by rw [(hlv i).1, (hlv i).2.1])).1, collect_LvOK_same s hp L Tn e hlv⟩
  | some Ta =>
    cases hn : cfg.named with
    | none =>
      simp only [emitMicros, topicsOf, ha, hn, Option.toList_none, Option.toList_some, List.append_nil,
        List.mem_singleton, forall_eq] at hlv ⊢
      exact ⟨(collect_effect s hp Ta e (fun i => by rw [(hlv i).1, (hlv i).2.1])).1, collect_LvOK_same s hp L Ta e hlv⟩
    | some Tn =>
      have hne : Ta ≠ Tn := fun heq => hd Ta ha (by rw [hn, heq])
      have hA : LvOK L s Ta := hlv Ta (by simp [topicsOf, ha, hn])
      have hN : LvOK L s Tn := hlv Tn (by simp [topicsOf, ha, hn])
      have hcohA : ∀ i, s.mem.level Ta i = s.disk.level Ta i := fun i => by rw [(hA i).1, (hA i).2.1]
      have hp1 := (collect_effect s hp Ta e hcohA).1
      have hA1 := collect_LvOK_same s hp L Ta e hA
      have hN1 := collect_LvOK_other s hp L Ta Tn e hne hcohA hN
      have hcohN1 : ∀ i, (runMicros s (collectMicros Ta e)).mem.level Tn i = (runMicros s (collectMicros Ta e)).disk.level Tn i :=
        fun i => by rw [(hN1 i).1, (hN1 i).2.1]
      simp only [emitMicros, ha, hn, runMicros_append]
      refine ⟨(collect_effect _ hp1 Tn e hcohN1).1, fun T hT => ?_⟩
      simp only [topicsOf, ha, hn, Option.toList_some, List.mem_append, List.mem_singleton] at hT
      rcases hT with rfl | rfl
      · exact collect_LvOK_other _ hp1 _ Tn T e (Ne.symm hne) hcohN1 hA1
      · exact collect_LvOK_same _ hp1 L T e hN1 |> fun h => by
          -- the named topic starts from L (untouched by the first Collect) and ends in upd L
          exact h


/-- Under the invariant `restoreEvent` reconciles nothing, and (if the node has a topic at all) resumes the group
at the common level. -/
theorem restoreEvent_inv (cfg : Cfg) (L : String → Nat) (s : Svc)
    (hlv : ∀ T, T ∈ topicsOf cfg → LvOK L s T) (id : String) :
    (restoreEvent cfg s id).2 = [] ∧ (topicsOf cfg ≠ [] → (restoreEvent cfg s id).1 = L id) := by
  cases ha : cfg.anon with
  | none =>
    cases hn : cfg.named with
    | none => simp [restoreEvent, topicsOf, ha, hn, optLevel]
    | some Tn =>
      have hN := (hlv Tn (by simp [topicsOf, ha, hn]) id).1
      rw [level_eq_optLevel] at hN
      cases hm : s.mem Tn id <;> simp [restoreEvent, topicsOf, ha, hn, hm, optLevel] at hN ⊢ <;> simp [hN]
  | some Ta =>
    have hA := (hlv Ta (by simp [topicsOf, ha]) id).1
    rw [level_eq_optLevel] at hA
    cases hn : cfg.named with
    | none =>
      cases hm : s.mem Ta id <;> simp [restoreEvent, topicsOf, ha, hn, hm, optLevel] at hA ⊢ <;> simp [hA]
    | some Tn =>
      have hN := (hlv Tn (by simp [topicsOf, ha, hn]) id).1
      rw [level_eq_optLevel] at hN
      cases hm : s.mem Ta id <;> cases hm' : s.mem Tn id <;>
        simp [restoreEvent, topicsOf, ha, hn, hm, hm', optLevel] at hA hN ⊢ <;> simp_all

/-- the level rule of the spec, as a function update -/
def stepL (noRec : Bool) (L : String → Nat) (id : String) (l : Nat) : String → Nat :=
  fun i => if id = i then (if l = 0 ∧ noRec = true then L i else l) else L i

theorem nodeInv_point (cfg : Cfg) (hd : cfg.Distinct) (L : String → Nat) (w : World) (h : NodeInv cfg L w)
    (id : String) (l : Nat) (t : Payload) :
    NodeInv cfg (stepL cfg.noRec L id l) (nstep cfg w (.point id l t)) := by
  obtain ⟨hfix, hcur⟩ := restoreEvent_inv cfg L w.svc h.lv id
  -- the level the group is at before the point, and that nothing is reconciled
  have hplan : ∃ cur, (cur = L id ∨ (cfg.noRec = true ∧ cur = 0) ∨ topicsOf cfg = []) ∧
      nplan cfg w (.point id l t) = [.setGroup id l] ++
        (if emits cfg cur l then (emitMicros cfg { id := id, level := l, time := t }).map .svc else []) := by
    cases hg : w.groups id with
    | some c =>
      refine ⟨c, ?_, by simp [nplan, plan, hg]⟩
      rcases h.grp id c hg with h1 | h1
      · exact Or.inl h1
      · exact Or.inr (Or.inl h1)
    | none =>
      refine ⟨(restoreEvent cfg w.svc id).1, ?_, ?_⟩
      · by_cases hne : topicsOf cfg = []
        · exact Or.inr (Or.inr hne)
        · exact Or.inl (hcur hne)
      · simp only [nplan, plan, hg]
        rw [show restoreEvent cfg w.svc id = ((restoreEvent cfg w.svc id).1, (restoreEvent cfg w.svc id).2) from rfl]
        simp [hfix]
  obtain ⟨cur, hcurL, hpl⟩ := hplan
  have hgrp : ∀ (g : String → Option Nat), (∀ i c, g i = some c → c = L i ∨ (cfg.noRec = true ∧ c = 0)) →
      ∀ i c, (if id = i then some l else g i) = some c →
        c = stepL cfg.noRec L id l i ∨ (cfg.noRec = true ∧ c = 0) := by
    intro g hg i c hc
    by_cases hi : id = i
    · simp [hi] at hc
      subst hc
      by_cases hz : l = 0 ∧ cfg.noRec = true
      · exact Or.inr ⟨hz.2, hz.1⟩
      · left; simp [stepL, hi, hz]
    · simp [hi] at hc
      simpa [stepL, hi] using hg i c hc
  unfold nstep
  rw [hpl, nrunMicros_append]
  by_cases hem : emits cfg cur l = true
  · -- the event is collected on every topic of the node
    simp only [hem, if_true, nrunMicros_svc]
    obtain ⟨hp', hlv'⟩ := emit_effect cfg hd L w.svc h.persist h.lv { id := id, level := l, time := t }
    have hnz : ¬ (l = 0 ∧ cfg.noRec = true) := by
      intro hz
      simp [emits, hz.1, hz.2] at hem
    refine ⟨by simpa [nrunMicros, nexec] using hp', fun T hT i => ?_, ?_⟩
    · have := hlv' T hT i
      simp only [nrunMicros, nexec, List.foldl_cons, List.foldl_nil] at this ⊢
      simpa [upd, stepL, hnz] using this
    · intro i c hc
      simp only [nrunMicros, nexec, List.foldl_cons, List.foldl_nil] at hc
      exact hgrp w.groups h.grp i c hc
  · -- nothing is collected: the level stays, and the spec says so
    simp only [hem, nrunMicros, nexec, List.foldl_cons, List.foldl_nil, Bool.false_eq_true, if_false]
    refine ⟨h.persist, fun T hT i => ?_, fun i c hc => hgrp w.groups h.grp i c hc⟩
    have hne : topicsOf cfg ≠ [] := fun he => by rw [he] at hT; cases hT
    have hstay : stepL cfg.noRec L id l i = L i := by
      by_cases hi : id = i
      · by_cases hz : l = 0 ∧ cfg.noRec = true
        · simp [stepL, hi, hz]
        · -- not emitted although the recovery is not suppressed: the level did not change
          have hcl : cur = l := by
            simp only [emits, Bool.and_eq_true, Bool.not_eq_true', Bool.or_eq_true, decide_eq_true_eq,
              Bool.and_eq_false_iff, Bool.not_eq_false', not_and, Bool.not_eq_true] at hem hz
            by_cases hcl : cur = l
            · exact hcl
            · exfalso
              by_cases hl0 : l = 0 <;> by_cases hnr : cfg.noRec = true <;> by_cases hs : cfg.sco = true <;>
                simp_all [emits]
          rcases hcurL with h1 | ⟨h1, h2⟩ | h1
          · subst hi; simp [stepL, hz, ← h1, hcl]
          · exfalso; exact hz ⟨by rw [← hcl, h2], h1⟩
          · exact absurd h1 hne
      · simp [stepL, hi]
    rw [hstay]
    exact h.lv T hT i


theorem nodeInv_taskRestart (cfg : Cfg) (hd : cfg.Distinct) (L : String → Nat) (w : World) (h : NodeInv cfg L w) :
    NodeInv cfg L (nstep cfg w .taskRestart) := by
  cases ha : cfg.anon with
  | none =>
    simp only [nstep, nplan, ha, List.nil_append, nrunMicros, nexec, List.foldl_cons, List.foldl_nil]
    exact ⟨h.persist, h.lv, fun i c hc => by cases hc⟩
  | some Ta =>
    simp only [nstep, nplan, ha, nrunMicros, nexec, exec, List.cons_append, List.nil_append, List.foldl_cons,
      List.foldl_nil]
    refine ⟨h.persist, fun T hT i => ?_, fun i c hc => by cases hc⟩
    have hTa := h.lv Ta (by simp [topicsOf, ha]) i
    have hT' := h.lv T hT i
    simp only [Store.level, Store.loadTopic, Store.dropTopic] at hTa hT' ⊢
    by_cases hTT : Ta = T
    · subst hTT; simp_all
    · simp_all

theorem nodeLevelFrom_cons (noRec : Bool) (L0 : Nat) (op : NOp) (rest : List NOp) (id : String) :
    nodeLevelFrom noRec L0 (op :: rest) id = nodeLevelFrom noRec (nodeLevelStep noRec id L0 op) rest id := rfl

theorem nodeLevelFrom_append (noRec : Bool) (L0 : Nat) (a b : List NOp) (id : String) :
    nodeLevelFrom noRec L0 (a ++ b) id = nodeLevelFrom noRec (nodeLevelFrom noRec L0 a id) b id := by
  simp [nodeLevelFrom, List.foldl_append]

theorem nodeInv_nrun (cfg : Cfg) (hd : cfg.Distinct) (L : String → Nat) (w : World) (h : NodeInv cfg L w)
    (ops : List NOp) : NodeInv cfg (fun i => nodeLevelFrom cfg.noRec (L i) ops i) (nrun cfg w ops) := by
  induction ops generalizing L w with
  | nil => exact h
  | cons op rest ih =>
    simp only [nrun, List.foldl_cons] at *
    cases op with
    | point id l t =>
      have := ih _ _ (nodeInv_point cfg hd L w h id l t)
      have hL : (fun i => nodeLevelFrom cfg.noRec (L i) (NOp.point id l t :: rest) i) =
          (fun i => nodeLevelFrom cfg.noRec (stepL cfg.noRec L id l i) rest i) := by
        funext i; rw [nodeLevelFrom_cons]; rfl
      rw [hL]; exact this
    | taskRestart => exact ih _ _ (nodeInv_taskRestart cfg hd L w h)

theorem nodeInv_init (cfg : Cfg) : NodeInv cfg (fun _ => 0) {} :=
  ⟨rfl, fun _ _ _ => ⟨rfl, rfl, rfl⟩, fun _ _ hc => by cases hc⟩

/-- A process restart at an operation boundary re-establishes the invariant with the same levels. -/
theorem nodeInv_restart (cfg : Cfg) (L : String → Nat) (w : World) (h : NodeInv cfg L w) :
    NodeInv cfg L (w.restart cfg) := by
  have hbase : ∀ T, T ∈ topicsOf cfg → LvOK L w.svc.restart T := fun T hT i =>
    ⟨(h.lv T hT i).2.1, (h.lv T hT i).2.1, (h.lv T hT i).2.2⟩
  cases ha : cfg.anon with
  | none =>
    simp only [World.restart, ha]
    exact ⟨h.persist, hbase, fun i c hc => by cases hc⟩
  | some Ta =>
    simp only [World.restart, ha, exec]
    refine ⟨h.persist, fun T hT i => ?_, fun i c hc => by cases hc⟩
    have := hbase T hT i
    simp only [Store.level, Store.loadTopic, Svc.restart] at this ⊢
    by_cases hTT : Ta = T <;> simp_all

/-- the sub-steps of the node operation in flight -/
def nplanAt (cfg : Cfg) (ops : List NOp) (k : Nat) : List NMicro :=
  ((ops[k]?).map (nplan cfg (nrun cfg {} (ops.take k)))).getD []

theorem nrun_snoc (cfg : Cfg) (w : World) (ops : List NOp) (op : NOp) :
    nrun cfg w (ops ++ [op]) = nstep cfg (nrun cfg w ops) op := by
  simp [nrun, List.foldl_append]

/-- a crash after the operation in flight completed = the boundary after operation `k` -/
theorem ncrashAt_done (cfg : Cfg) (ops : List NOp) (k j : Nat) (hk : k < ops.length)
    (hj : (nplanAt cfg ops k).length ≤ j) :
    ncrashAt cfg {} ops k j = nrun cfg {} (ops.take (k + 1)) := by
  unfold ncrashAt
  unfold nplanAt at hj
  simp only [List.getElem?_eq_getElem hk, Option.map_some, Option.getD_some] at hj ⊢
  rw [List.take_of_length_le hj, List.take_succ_eq_append_getElem hk, nrun_snoc]
  rfl

end Kap.C08
